/-
  Proofs/EvolRG.lean — helper lemmas for property C02 (part 4): column sums of the NLO operator;
  derivatives of the LO factor, of erfunc and of the LO coupling; the renormalisation-group
  equation for the LO operator and the exact derivative of the NLO operator.
-/
import Proofs.EvolOps
import Mathlib.Analysis.SpecialFunctions.Log.Deriv
import Mathlib.Analysis.SpecialFunctions.ExpDeriv
import Mathlib.Analysis.Calculus.Deriv.Inv
import Mathlib.Tactic.Module

namespace Gep.R.Evol
open Gep Gep.R

/-- d/dL of R(L)^(−λ/β0), written as the model writes it -/
theorem hasDerivAt_rfact (lam : Cx ℝ) (b0 : ℝ) {ρ : ℝ → ℝ} {ρ' L : ℝ}
    (hρ : HasDerivAt ρ ρ' L) (hne : ρ L ≠ 0) :
    HasDerivAt (fun L => toC (rfact b0 lam (ρ L)))
      (toC (rfact b0 lam (ρ L)) * (((ρ' / ρ L : ℝ) : ℂ) * (-toC lam / (b0 : ℂ)))) L := by
  simp only [toC_rfact]
  have h1 : HasDerivAt (fun L => Real.log (ρ L)) (ρ' / ρ L) L := hρ.log hne
  have h2 : HasDerivAt (fun L => ((Real.log (ρ L) : ℝ) : ℂ)) ((ρ' / ρ L : ℝ) : ℂ) L := h1.ofReal_comp
  exact (h2.mul_const (-toC lam / (b0 : ℂ))).cexp

theorem toC_erEntry (b0 : ℝ) (dl : Cx ℝ) (R : ℝ) :
    toC (erEntry b0 dl R) = (b0 : ℂ) * ((1 - Complex.exp ((Real.log (1 / R) : ℂ) *
      (((b0 : ℂ) + toC dl) / (b0 : ℂ)))) / ((b0 : ℂ) + toC dl)) := by
  simp [erEntry, toC_rpowc]

/-- the power inside erfunc, expressed through erfunc itself -/
theorem erEntry_pow (b0 : ℝ) (dl : Cx ℝ) (R : ℝ) (hb : (b0 : ℂ) ≠ 0) (hD : (b0 : ℂ) + toC dl ≠ 0) :
    Complex.exp ((Real.log (1 / R) : ℂ) * (((b0 : ℂ) + toC dl) / (b0 : ℂ))) =
      1 - toC (erEntry b0 dl R) * ((b0 : ℂ) + toC dl) / (b0 : ℂ) := by
  rw [toC_erEntry]; field_simp; ring

theorem hasDerivAt_erEntry (dl : Cx ℝ) (b0 : ℝ) {ρ : ℝ → ℝ} {ρ' L : ℝ}
    (hρ : HasDerivAt ρ ρ' L) (hne : ρ L ≠ 0) (hb : (b0 : ℂ) ≠ 0) (hD : (b0 : ℂ) + toC dl ≠ 0) :
    HasDerivAt (fun L => toC (erEntry b0 dl (ρ L)))
      ((1 - toC (erEntry b0 dl (ρ L)) * ((b0 : ℂ) + toC dl) / (b0 : ℂ)) * ((ρ' / ρ L : ℝ) : ℂ)) L := by
  rw [← erEntry_pow b0 dl (ρ L) hb hD]
  simp only [toC_erEntry]
  have h1 : HasDerivAt (fun L => Real.log (1 / ρ L)) (-(ρ' / ρ L)) L := by
    have : (fun L => Real.log (1 / ρ L)) = fun L => -Real.log (ρ L) := by
      funext x; rw [one_div, Real.log_inv]
    rw [this]; exact (hρ.log hne).neg
  have h2 : HasDerivAt (fun L => ((Real.log (1 / ρ L) : ℝ) : ℂ)) ((-(ρ' / ρ L) : ℝ) : ℂ) L :=
    h1.ofReal_comp
  have h3 := ((((h2.mul_const (((b0 : ℂ) + toC dl) / (b0 : ℂ))).cexp).const_sub 1).div_const
    ((b0 : ℂ) + toC dl)).const_mul (b0 : ℂ)
  refine h3.congr_deriv ?_
  generalize Complex.exp ((Real.log (1 / ρ L) : ℂ) * (((b0 : ℂ) + toC dl) / (b0 : ℂ))) = e
  push_cast
  field_simp


theorem evolopLO_entry (g : M2) (b0 R : ℝ) (i j : Fin 2) :
    toM (evolopLO g b0 R) i j = toC (rfact b0 (lambdaf g).1 R) * toM (projectors g).1 i j +
      toC (rfact b0 (lambdaf g).2 R) * toM (projectors g).2 i j := by
  rw [toM_evolopLO]; simp [Matrix.add_apply, Matrix.smul_apply]

/-- LO renormalisation-group equation along any differentiable non-vanishing ratio R = ρ(L):
    dE0/dL = −(ρ'/ρ)/β0 · γ0 · E0 -/
theorem hasDerivAt_evolopLO (g : M2) (b0 : ℝ) (hd : g.a ≠ g.d) (hl : (lambdaf g).1 ≠ (lambdaf g).2)
    {ρ : ℝ → ℝ} {ρ' L : ℝ} (hρ : HasDerivAt ρ ρ' L) (hne : ρ L ≠ 0) (i j : Fin 2) :
    HasDerivAt (fun L => toM (evolopLO g b0 (ρ L)) i j)
      (((-((ρ' / ρ L : ℝ) : ℂ) / (b0 : ℂ)) • (toM g * toM (evolopLO g b0 (ρ L)))) i j) L := by
  have S := spectral_model g hd hl
  simp only [evolopLO_entry]
  have h0 := (hasDerivAt_rfact (lambdaf g).1 b0 hρ hne).mul_const (toM (projectors g).1 i j)
  have h1 := (hasDerivAt_rfact (lambdaf g).2 b0 hρ hne).mul_const (toM (projectors g).2 i j)
  refine (h0.add h1).congr_deriv ?_
  rw [toM_evolopLO, spectral_G_mul S]
  simp only [Matrix.add_apply, Matrix.smul_apply, smul_eq_mul]
  ring

/-! ### the LO coupling -/

theorem as2pfLO_eq (b0 as0 L : ℝ) : as2pfLO b0 as0 L = as0 / (1 - b0 / 2 * as0 * L) := by
  unfold as2pfLO
  have : (1 : ℝ) - 0.5 * b0 * as0 * L = 1 - b0 / 2 * as0 * L := by
    rw [show (0.5 : ℝ) = 1 / 2 by norm_num]; ring
  rw [this]
  by_cases h : 1 - b0 / 2 * as0 * L = 0
  · rw [h]; simp
  · field_simp; norm_num

theorem hasDerivAt_as2pfLO (b0 as0 L : ℝ) (h : 1 - b0 / 2 * as0 * L ≠ 0) :
    HasDerivAt (as2pfLO b0 as0) (b0 / 2 * (as2pfLO b0 as0 L) ^ 2) L := by
  have hf : as2pfLO b0 as0 = fun L => as0 / (1 - b0 / 2 * as0 * L) := by
    funext x; exact as2pfLO_eq b0 as0 x
  rw [as2pfLO_eq, hf]
  have h1 : HasDerivAt (fun L : ℝ => 1 - b0 / 2 * as0 * L) (-(b0 / 2 * as0)) L := by
    have := ((hasDerivAt_id L).const_mul (b0 / 2 * as0)).const_sub 1
    simpa using this
  have h2 := (h1.inv h).const_mul as0
  refine (h2.congr_of_eventuallyEq ?_).congr_deriv ?_
  · exact Filter.Eventually.of_forall (fun x => by simp [div_eq_mul_inv])
  · field_simp

theorem toM_r1mat (g0 g1 : M2) (b0 b1 : ℝ) :
    toM (r1mat g0 g1 b0 b1) =
      ((1 / b0 : ℝ) : ℂ) • (toM g1 - ((0.5 * (1 / b0) * b1 : ℝ) : ℂ) • toM g0) := by
  simp only [r1mat, toM_smulR, toM_sub]

theorem toM_r1proj (g0 g1 : M2) (b0 b1 : ℝ) :
    toM (r1proj g0 g1 b0 b1).pp = toM (projectors g0).1 * toM (r1mat g0 g1 b0 b1) * toM (projectors g0).1 ∧
    toM (r1proj g0 g1 b0 b1).pm = toM (projectors g0).1 * toM (r1mat g0 g1 b0 b1) * toM (projectors g0).2 ∧
    toM (r1proj g0 g1 b0 b1).mp = toM (projectors g0).2 * toM (r1mat g0 g1 b0 b1) * toM (projectors g0).1 ∧
    toM (r1proj g0 g1 b0 b1).mm = toM (projectors g0).2 * toM (r1mat g0 g1 b0 b1) * toM (projectors g0).2 := by
  simp [r1proj]

theorem J_r1mat (g0 g1 : M2) (b0 b1 : ℝ) (h0 : J * toM g0 = 0) (h1 : J * toM g1 = 0) :
    J * toM (r1mat g0 g1 b0 b1) = 0 := by
  rw [toM_r1mat, Matrix.mul_smul, mul_sub, Matrix.mul_smul, h0, h1]; simp

theorem J_evolopNLOdiag (g0 g1 : M2) (b0 b1 R : ℝ) (hd : g0.a ≠ g0.d)
    (h0 : J * toM g0 = 0) (h1 : J * toM g1 = 0) :
    J * toM (evolopNLOdiag g0 g1 b0 b1 R) = 0 := by
  obtain ⟨hP0, hP1, -⟩ := J_projectors g0 hd h0
  obtain ⟨hpp, hpm, hmp, hmm⟩ := toM_r1proj g0 g1 b0 b1
  have hr := J_r1mat g0 g1 b0 b1 h0 h1
  have k0 : ∀ X : Mat, J * (toM (projectors g0).1 * toM (r1mat g0 g1 b0 b1) * X) = 0 := by
    intro X
    rw [← mul_assoc, ← mul_assoc, hP0, Matrix.smul_mul, hr]; simp
  have k1 : ∀ X : Mat, J * (toM (projectors g0).2 * toM (r1mat g0 g1 b0 b1) * X) = 0 := by
    intro X
    rw [← mul_assoc, ← mul_assoc, hP1, Matrix.smul_mul, hr]; simp
  rw [toM_evolopNLOdiag, hpp, hpm, hmp, hmm]
  simp only [mul_add, Matrix.mul_smul, k0, k1, smul_zero, add_zero]



theorem r1_mul_comb {G P0 P1 : Mat} {l0 l1 : ℂ} (S : Spectral G P0 P1 l0 l1) (r1 : Mat) (x0 x1 : ℂ) :
    r1 * (x0 • P0 + x1 • P1) =
      x0 • (P0 * r1 * P0 + P1 * r1 * P0) + x1 • (P0 * r1 * P1 + P1 * r1 * P1) := by
  have h : ∀ X : Mat, r1 * X = P0 * r1 * X + P1 * r1 * X := by
    intro X; rw [← add_mul, ← add_mul, S.complete, one_mul]
  rw [mul_add, mul_smul_comm, mul_smul_comm, h P0, h P1]

theorem G_mul_M0 {G P0 P1 : Mat} {l0 l1 : ℂ} (S : Spectral G P0 P1 l0 l1) (r1 X : Mat) :
    G * (P0 * r1 * X) = l0 • (P0 * r1 * X) := by
  rw [← mul_assoc, ← mul_assoc, spectral_G_P0 S, smul_mul_assoc, smul_mul_assoc]

theorem G_mul_M1 {G P0 P1 : Mat} {l0 l1 : ℂ} (S : Spectral G P0 P1 l0 l1) (r1 X : Mat) :
    G * (P1 * r1 * X) = l1 • (P1 * r1 * X) := by
  rw [← mul_assoc, ← mul_assoc, spectral_G_P1 S, smul_mul_assoc, smul_mul_assoc]

/-- exact derivative of the NLO-diagonal operator along R = ρ(L):
    dE1/dL = (ρ'/ρ)·(−r1·E0 − E1 − γ0·E1/β0) -/
theorem hasDerivAt_evolopNLOdiag (g0 g1 : M2) (b0 b1 : ℝ)
    (hd : g0.a ≠ g0.d) (hl : (lambdaf g0).1 ≠ (lambdaf g0).2) (hb : b0 ≠ 0)
    (hD1 : (b0 : ℂ) + toC ((lambdaf g0).1 - (lambdaf g0).2) ≠ 0)
    (hD2 : (b0 : ℂ) + toC (-((lambdaf g0).1 - (lambdaf g0).2)) ≠ 0)
    {ρ : ℝ → ℝ} {ρ' L : ℝ} (hρ : HasDerivAt ρ ρ' L) (hne : ρ L ≠ 0) (i j : Fin 2) :
    HasDerivAt (fun L => toM (evolopNLOdiag g0 g1 b0 b1 (ρ L)) i j)
      ((((ρ' / ρ L : ℝ) : ℂ) • (-(toM (r1mat g0 g1 b0 b1) * toM (evolopLO g0 b0 (ρ L)))
          - toM (evolopNLOdiag g0 g1 b0 b1 (ρ L))
          - (1 / (b0 : ℂ)) • (toM g0 * toM (evolopNLOdiag g0 g1 b0 b1 (ρ L))))) i j) L := by
  have S := spectral_model g0 hd hl
  obtain ⟨hpp, hpm, hmp, hmm⟩ := toM_r1proj g0 g1 b0 b1
  have hbC : (b0 : ℂ) ≠ 0 := by exact_mod_cast hb
  have hD0 : (b0 : ℂ) + toC czero ≠ 0 := by simpa using hbC
  -- derivatives of the scalar factors
  have hf0 := hasDerivAt_rfact (lambdaf g0).1 b0 hρ hne
  have hf1 := hasDerivAt_rfact (lambdaf g0).2 b0 hρ hne
  have he0 := hasDerivAt_erEntry czero b0 hρ hne hbC hD0
  have he1 := hasDerivAt_erEntry ((lambdaf g0).1 - (lambdaf g0).2) b0 hρ hne hbC hD1
  have he2 := hasDerivAt_erEntry (-((lambdaf g0).1 - (lambdaf g0).2)) b0 hρ hne hbC hD2
  have hfun : (fun L => toM (evolopNLOdiag g0 g1 b0 b1 (ρ L)) i j) = fun L =>
      (toC (rfact b0 (lambdaf g0).1 (ρ L)) * -toC (erEntry b0 czero (ρ L))) * toM (r1proj g0 g1 b0 b1).pp i j +
      (toC (rfact b0 (lambdaf g0).2 (ρ L)) * -toC (erEntry b0 ((lambdaf g0).1 - (lambdaf g0).2) (ρ L))) *
        toM (r1proj g0 g1 b0 b1).pm i j +
      ((toC (rfact b0 (lambdaf g0).1 (ρ L)) * -toC (erEntry b0 (-((lambdaf g0).1 - (lambdaf g0).2)) (ρ L))) *
        toM (r1proj g0 g1 b0 b1).mp i j +
      (toC (rfact b0 (lambdaf g0).2 (ρ L)) * -toC (erEntry b0 czero (ρ L))) * toM (r1proj g0 g1 b0 b1).mm i j) := by
    funext x
    rw [toM_evolopNLOdiag]
    simp only [erfunc, Matrix.add_apply, Matrix.smul_apply, smul_eq_mul]
    ring
  rw [hfun]
  have hsum := (((hf0.mul he0.neg).mul_const (toM (r1proj g0 g1 b0 b1).pp i j)).add
      ((hf1.mul he1.neg).mul_const (toM (r1proj g0 g1 b0 b1).pm i j))).add
    (((hf0.mul he2.neg).mul_const (toM (r1proj g0 g1 b0 b1).mp i j)).add
      ((hf1.mul he0.neg).mul_const (toM (r1proj g0 g1 b0 b1).mm i j)))
  refine hsum.congr_deriv ?_
  rw [toM_evolopLO, toM_evolopNLOdiag, r1_mul_comb S]
  simp only [hpp, hpm, hmp, hmm, mul_add, mul_smul_comm, G_mul_M0 S, G_mul_M1 S, erfunc]
  simp only [Matrix.add_apply, Matrix.sub_apply, Matrix.neg_apply, Matrix.smul_apply, smul_eq_mul,
    toC_czero, toC_sub, toC_neg, Pi.neg_apply]
  field_simp
  ring


theorem toM_combine_evolop (A : ℝ) (g0 g1 : M2) (b0 b1 R : ℝ) :
    toM (combine A (evolop 1 g0 g1 b0 b1 R none)) =
      toM (evolopLO g0 b0 R) + (A : ℂ) • toM (evolopNLOdiag g0 g1 b0 b1 R) := by
  simp [combine, evolop]

/-- γ1 in terms of the model's r1:  γ1 = β0·r1 + β1/(2β0)·γ0 -/
theorem toM_g1_of_r1 (g0 g1 : M2) (b0 b1 : ℝ) (hb : b0 ≠ 0) :
    toM g1 = (b0 : ℂ) • toM (r1mat g0 g1 b0 b1) + ((b1 : ℂ) / (2 * (b0 : ℂ))) • toM g0 := by
  have hbC : (b0 : ℂ) ≠ 0 := by exact_mod_cast hb
  rw [toM_r1mat]
  push_cast
  rw [show (0.5 : ℂ) = 1 / 2 by norm_num]
  match_scalars <;> (field_simp; try ring)

/-- the O(a³) remainder of the NLO renormalisation-group equation; it depends on R only -/
noncomputable def rgRemainder (g0 g1 : M2) (b0 b1 R : ℝ) : Mat :=
  (1 / 2 : ℂ) • (toM g1 * toM (evolopNLOdiag g0 g1 b0 b1 R)) -
    ((b1 : ℂ) / 4) • (toM (r1mat g0 g1 b0 b1) * toM (evolopLO g0 b0 R) +
      (1 / (b0 : ℂ)) • (toM g0 * toM (evolopNLOdiag g0 g1 b0 b1 R)))

/-- exact derivative of E = E0 + A·E1 along R = A(L)/A0, for any differentiable coupling A -/
theorem hasDerivAt_total (g0 g1 : M2) (b0 b1 A0 : ℝ)
    (hd : g0.a ≠ g0.d) (hl : (lambdaf g0).1 ≠ (lambdaf g0).2) (hb : b0 ≠ 0)
    (hD1 : (b0 : ℂ) + toC ((lambdaf g0).1 - (lambdaf g0).2) ≠ 0)
    (hD2 : (b0 : ℂ) + toC (-((lambdaf g0).1 - (lambdaf g0).2)) ≠ 0)
    {A : ℝ → ℝ} {A' L : ℝ} (hA : HasDerivAt A A' L) (hA0 : A0 ≠ 0) (hAL : A L ≠ 0) (i j : Fin 2) :
    HasDerivAt (fun L => toM (combine (A L) (evolop 1 g0 g1 b0 b1 (A L / A0) none)) i j)
      ((-(((A' / A L : ℝ) : ℂ) / (b0 : ℂ)) • (toM g0 * toM (combine (A L) (evolop 1 g0 g1 b0 b1 (A L / A0) none)))
        - ((A' : ℝ) : ℂ) • (toM (r1mat g0 g1 b0 b1) * toM (evolopLO g0 b0 (A L / A0)))) i j) L := by
  have hρ : HasDerivAt (fun L => A L / A0) (A' / A0) L := hA.div_const A0
  have hne : A L / A0 ≠ 0 := div_ne_zero hAL hA0
  have hu : (A' / A0) / (A L / A0) = A' / A L := by field_simp
  have h0 := hasDerivAt_evolopLO g0 b0 hd hl hρ hne i j
  have h1 := hasDerivAt_evolopNLOdiag g0 g1 b0 b1 hd hl hb hD1 hD2 hρ hne i j
  rw [hu] at h0 h1
  have hAC : HasDerivAt (fun L => ((A L : ℝ) : ℂ)) ((A' : ℝ) : ℂ) L := hA.ofReal_comp
  have hfun : (fun L => toM (combine (A L) (evolop 1 g0 g1 b0 b1 (A L / A0) none)) i j) = fun L =>
      toM (evolopLO g0 b0 (A L / A0)) i j + (A L : ℂ) * toM (evolopNLOdiag g0 g1 b0 b1 (A L / A0)) i j := by
    funext x; rw [toM_combine_evolop]; simp [Matrix.add_apply, Matrix.smul_apply]
  rw [hfun]
  refine (h0.add (hAC.mul h1)).congr_deriv ?_
  rw [toM_combine_evolop]
  have hALC : ((A L : ℝ) : ℂ) ≠ 0 := by exact_mod_cast hAL
  have hbC : (b0 : ℂ) ≠ 0 := by exact_mod_cast hb
  simp only [mul_add, mul_smul_comm, Matrix.add_apply, Matrix.sub_apply, Matrix.neg_apply, Matrix.smul_apply,
    smul_eq_mul]
  push_cast
  field_simp
  ring


/-- with dA/dL = β0 A²/2 + β1 A³/4 the exact derivative is the NLO RG right-hand side plus A³·remainder -/
theorem rg_nlo_algebra (g0 g1 : M2) (b0 b1 R A : ℝ) (hb : b0 ≠ 0) (hA : A ≠ 0) :
    (-((((b0 / 2 * A ^ 2 + b1 / 4 * A ^ 3) / A : ℝ) : ℂ) / (b0 : ℂ))) •
        (toM g0 * toM (combine A (evolop 1 g0 g1 b0 b1 R none)))
      - ((b0 / 2 * A ^ 2 + b1 / 4 * A ^ 3 : ℝ) : ℂ) • (toM (r1mat g0 g1 b0 b1) * toM (evolopLO g0 b0 R)) =
    -(((A / 2 : ℝ) : ℂ) • toM g0 + ((A ^ 2 / 2 : ℝ) : ℂ) • toM g1) *
        toM (combine A (evolop 1 g0 g1 b0 b1 R none))
      + ((A ^ 3 : ℝ) : ℂ) • rgRemainder g0 g1 b0 b1 R := by
  have hbC : (b0 : ℂ) ≠ 0 := by exact_mod_cast hb
  have hAC : (A : ℂ) ≠ 0 := by exact_mod_cast hA
  rw [toM_combine_evolop]
  unfold rgRemainder
  rw [toM_g1_of_r1 g0 g1 b0 b1 hb]
  generalize toM (r1mat g0 g1 b0 b1) = r1
  generalize toM (evolopLO g0 b0 R) = E0
  generalize toM (evolopNLOdiag g0 g1 b0 b1 R) = E1
  generalize toM g0 = G0
  simp only [mul_add, add_mul, neg_mul, smul_mul_assoc, mul_smul_comm, smul_add, smul_sub, smul_neg, smul_smul]
  push_cast
  match_scalars <;> (field_simp; ring)

end Gep.R.Evol

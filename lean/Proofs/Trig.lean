/- trigonometric reflection lemmas in the scalar interface's names -/
import Proofs.ScalarR
import Mathlib.Analysis.SpecialFunctions.Trigonometric.Basic
import Mathlib.Tactic.Ring
namespace Gep.R

theorem kcos_mirror (φ : ℝ) : kcos (2 * Real.pi - φ) = kcos φ := by
  unfold kcos; exact Real.cos_two_pi_sub φ
theorem ksin_mirror (φ : ℝ) : ksin (2 * Real.pi - φ) = -ksin φ := by
  unfold ksin; exact Real.sin_two_pi_sub φ
theorem kcos_mirror2 (φ : ℝ) : kcos (2 * (2 * Real.pi - φ)) = kcos (2 * φ) := by
  unfold kcos
  have : 2 * (2 * Real.pi - φ) = -(2 * φ) + (2 : ℕ) * (2 * Real.pi) := by push_cast; ring
  rw [this, Real.cos_add_nat_mul_two_pi, Real.cos_neg]
theorem ksin_mirror2 (φ : ℝ) : ksin (2 * (2 * Real.pi - φ)) = -ksin (2 * φ) := by
  unfold ksin
  have : 2 * (2 * Real.pi - φ) = -(2 * φ) + (2 : ℕ) * (2 * Real.pi) := by push_cast; ring
  rw [this, Real.sin_add_nat_mul_two_pi, Real.sin_neg]
theorem kcos_mirror3 (φ : ℝ) : kcos (3 * (2 * Real.pi - φ)) = kcos (3 * φ) := by
  unfold kcos
  have : 3 * (2 * Real.pi - φ) = -(3 * φ) + (3 : ℕ) * (2 * Real.pi) := by push_cast; ring
  rw [this, Real.cos_add_nat_mul_two_pi, Real.cos_neg]
theorem ksin_mirror3 (φ : ℝ) : ksin (3 * (2 * Real.pi - φ)) = -ksin (3 * φ) := by
  unfold ksin
  have : 3 * (2 * Real.pi - φ) = -(3 * φ) + (3 : ℕ) * (2 * Real.pi) := by push_cast; ring
  rw [this, Real.sin_add_nat_mul_two_pi, Real.sin_neg]

/-! the same with the harmonic number written on the right (`cos(phi*2)`) -/
theorem kcos_mirror2' (φ : ℝ) : kcos ((2 * Real.pi - φ) * 2) = kcos (φ * 2) := by
  rw [mul_comm, kcos_mirror2, mul_comm]
theorem ksin_mirror2' (φ : ℝ) : ksin ((2 * Real.pi - φ) * 2) = -ksin (φ * 2) := by
  rw [mul_comm, ksin_mirror2, mul_comm]
theorem kcos_mirror3' (φ : ℝ) : kcos ((2 * Real.pi - φ) * 3) = kcos (φ * 3) := by
  rw [mul_comm, kcos_mirror3, mul_comm]
theorem ksin_mirror3' (φ : ℝ) : ksin ((2 * Real.pi - φ) * 3) = -ksin (φ * 3) := by
  rw [mul_comm, ksin_mirror3, mul_comm]

end Gep.R

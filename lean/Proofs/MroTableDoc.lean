/-
  Proofs/MroTableDoc.lean — C20 table lemma: the static check of Model/Mro.lean evaluated by the
  kernel on the generated class table for the documented maximal theory.  (Kept in its own
  module so that it is rebuilt only when the generated table changes.)
-/
import Model.Mro
import Gen.ClassTable

namespace Gep.Mro.Table
open Gep.Mro Gep.Mro.Gen

theorem checks_documented : checks classTable documentedBlocks = true := by decide +kernel

end Gep.Mro.Table

/- simp attribute collecting the generated symmetry lemmas of Gen/BmkSymR.lean -/
import Lean
register_simp_attr bmk_sym

/-
  Proofs/ScalarR.lean — the ℝ instantiation of the scalar interface (see Model/ScalarF.lean).
-/
import Model.Cx
import Mathlib.Analysis.SpecialFunctions.Pow.Real
import Mathlib.Analysis.SpecialFunctions.Trigonometric.Basic
import Mathlib.Analysis.SpecialFunctions.Log.Basic
namespace Gep.R

abbrev K := ℝ

noncomputable def ksqrt (x : K) : K := Real.sqrt x
noncomputable def kcos (x : K) : K := Real.cos x
noncomputable def ksin (x : K) : K := Real.sin x
noncomputable def kexp (x : K) : K := Real.exp x
noncomputable def klog (x : K) : K := Real.log x
noncomputable def kpow (x y : K) : K := Real.rpow x y
noncomputable def kabs (x : K) : K := |x|
noncomputable def kpi : K := Real.pi

end Gep.R

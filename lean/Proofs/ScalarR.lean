/-
  Proofs/ScalarR.lean — the ℝ instantiation of the scalar interface (see Model/ScalarF.lean).
-/
import Model.Cx
import Mathlib.Analysis.SpecialFunctions.Pow.Real
import Mathlib.Analysis.SpecialFunctions.Trigonometric.Basic
import Mathlib.Analysis.SpecialFunctions.Log.Basic
import Mathlib.Tactic.Ring
import Mathlib.Tactic.NormNum
import Mathlib.Tactic.Positivity
namespace Gep.R

abbrev K := ℝ

noncomputable def ksqrt (x : K) : K := Real.sqrt x
noncomputable def kcos (x : K) : K := Real.cos x
noncomputable def ksin (x : K) : K := Real.sin x
noncomputable def kexp (x : K) : K := Real.exp x
noncomputable def klog (x : K) : K := Real.log x
noncomputable def kpow (x y : K) : K := Real.rpow x y
noncomputable def kabs (x : K) : K := |x|
noncomputable def kpi : K := Real.pi

/-! ### half-integer powers

The Python source spells x^(n+1/2) in several ways (`sqrt(x**3)`, `x**1.5`, `x**(5/2.)`, `pow(x, 2.5)`, `sqrt(x)**5`,
`x**2*sqrt(x)`); the translator keeps the spelling (`ksqrt (x ^ 3)`, `kpow x 1.5`, `ksqrt x ^ 5`, …).  A bridging lemma
whose hand-written side contains such a power adds the lemmas below to its `bridge_simp [...]` list: they rewrite every
spelling to the one form `x ^ n * ksqrt x`, on both sides.  They need no hypothesis: for x < 0 both sides vanish in ℝ
(`Real.sqrt x = 0`, and `Real.rpow x y = exp (y log x) * cos (y π)` with cos ((n+1/2) π) = 0). -/

theorem ksqrt_pow3 (x : K) : ksqrt (x ^ 3) = x * ksqrt x := by
  unfold ksqrt
  rcases le_or_gt 0 x with h | h
  · have : x ^ 3 = x ^ 2 * x := by ring
    rw [this, Real.sqrt_mul (sq_nonneg x), Real.sqrt_sq h]
  · have h3 : x ^ 3 ≤ 0 := by
      have : x ^ 3 = x ^ 2 * x := by ring
      rw [this]; exact mul_nonpos_of_nonneg_of_nonpos (sq_nonneg x) h.le
    rw [Real.sqrt_eq_zero_of_nonpos h3, Real.sqrt_eq_zero_of_nonpos h.le, mul_zero]

/-- the same spelled as a product -/
theorem ksqrt_mul3 (x : K) : ksqrt (x * x * x) = x * ksqrt x := by
  have : x * x * x = x ^ 3 := by ring
  rw [this, ksqrt_pow3]

theorem ksqrt_pow5 (x : K) : ksqrt (x ^ 5) = x ^ 2 * ksqrt x := by
  unfold ksqrt
  rcases le_or_gt 0 x with h | h
  · have : x ^ 5 = (x ^ 2) ^ 2 * x := by ring
    rw [this, Real.sqrt_mul (sq_nonneg _), Real.sqrt_sq (sq_nonneg x)]
  · have h3 : x ^ 5 ≤ 0 := by
      have : x ^ 5 = (x ^ 2) ^ 2 * x := by ring
      rw [this]; exact mul_nonpos_of_nonneg_of_nonpos (sq_nonneg _) h.le
    rw [Real.sqrt_eq_zero_of_nonpos h3, Real.sqrt_eq_zero_of_nonpos h.le, mul_zero]

theorem ksqrt_npow3 (x : K) : ksqrt x ^ 3 = x * ksqrt x := by
  unfold ksqrt
  rcases le_or_gt 0 x with h | h
  · have : Real.sqrt x ^ 3 = Real.sqrt x ^ 2 * Real.sqrt x := by ring
    rw [this, Real.sq_sqrt h]
  · rw [Real.sqrt_eq_zero_of_nonpos h.le]; ring

theorem ksqrt_npow5 (x : K) : ksqrt x ^ 5 = x ^ 2 * ksqrt x := by
  unfold ksqrt
  rcases le_or_gt 0 x with h | h
  · have : Real.sqrt x ^ 5 = (Real.sqrt x ^ 2) ^ 2 * Real.sqrt x := by ring
    rw [this, Real.sq_sqrt h]
  · rw [Real.sqrt_eq_zero_of_nonpos h.le]; ring

theorem kpow_half (x : K) : kpow x (0.5 : K) = ksqrt x := by
  unfold kpow ksqrt
  have e : (0.5 : ℝ) = 1 / 2 := by norm_num
  rw [e, Real.sqrt_eq_rpow]; rfl

/-- `x ** (n + 1/2)` for x < 0 is 0 in ℝ (Real.rpow: exp(y log x) cos(y π), and cos((n+1/2)π) = 0) -/
theorem rpow_half_odd_neg {x : ℝ} (h : x < 0) (n : ℕ) : Real.rpow x ((n : ℝ) + 1 / 2) = 0 := by
  show x ^ ((n : ℝ) + 1 / 2) = 0
  rw [Real.rpow_def_of_neg h]
  have : Real.cos (((n : ℝ) + 1 / 2) * Real.pi) = 0 := by
    induction n with
    | zero =>
      have : (((0 : ℕ) : ℝ) + 1 / 2) * Real.pi = Real.pi / 2 := by push_cast; ring
      rw [this, Real.cos_pi_div_two]
    | succ k ih =>
      have : (((k + 1 : ℕ) : ℝ) + 1 / 2) * Real.pi = ((k : ℝ) + 1 / 2) * Real.pi + Real.pi := by push_cast; ring
      rw [this, Real.cos_add_pi, ih, neg_zero]
  rw [this, mul_zero]

theorem rpow_half_odd (x : ℝ) (n : ℕ) : Real.rpow x ((n : ℝ) + 1 / 2) = x ^ n * Real.sqrt x := by
  rcases le_or_gt 0 x with h | h
  · show x ^ ((n : ℝ) + 1 / 2) = _
    rcases h.eq_or_lt with h0 | hpos
    · subst h0
      rw [Real.zero_rpow (by positivity), Real.sqrt_zero, mul_zero]
    · rw [Real.rpow_add hpos, Real.rpow_natCast, Real.sqrt_eq_rpow]
  · rw [rpow_half_odd_neg h, Real.sqrt_eq_zero_of_nonpos h.le, mul_zero]

theorem kpow_1p5 (x : K) : kpow x (1.5 : K) = x * ksqrt x := by
  unfold kpow ksqrt
  have e : (1.5 : ℝ) = ((1 : ℕ) : ℝ) + 1 / 2 := by norm_num
  rw [e, rpow_half_odd, pow_one]

theorem kpow_2p5 (x : K) : kpow x (2.5 : K) = x ^ 2 * ksqrt x := by
  unfold kpow ksqrt
  have e : (2.5 : ℝ) = ((2 : ℕ) : ℝ) + 1 / 2 := by norm_num
  rw [e, rpow_half_odd]

end Gep.R

/-
  Proofs/BHTP.lean — helper lemmas for C01, transversely polarised target: the generated BMK.TBH2TP (BKM Eqs. 40–42)
  equals the trace-reduced reference `BHRef.pol` for the transverse spin four-vector S_T = (0, cos Φ, sin Φ, 0),
  Φ = φ + varphi.  The reference is linear in S; its S·k = S·k' part (`pol … 1 1 0`) and its S·Δ part (`pol … 0 0 1`)
  are root-free rational functions, identified with the `tpS` / `tpD` brackets of the code per form-factor structure.
-/
import Proofs.BHPol

set_option linter.unusedSimpArgs false
set_option linter.unusedVariables false

namespace Gep.R.BH
open Gep.R

noncomputable section

/-- BKM Eqs. (40), (41): the part of c0TP + c1TP cos φ proportional to K/√(1−y−ε²y²/4), as a linear function of
    (F1, F2) → (f1, f2); the bracket of (40) and the first bracket of (41), `kap` = K cos φ -/
def tpD (xB Q2 t y M2 kap f1 f2 : ℝ) : ℝ :=
  8 * (2 - y) * y * (xB ^ 3 * M2 / Q2 * (1 - t / Q2) * (f1 + f2) +
      (1 - (1 - xB) * t / Q2) * (xB ^ 2 * M2 / t * (1 - t / Q2) * f1 + xB / 2 * f2)) +
    32 * xB * y * M2 * (xB * (1 - t / Q2) * f1 + t / 4 / M2 * f2) * kap / t
/-- BKM Eq. (42) and the second bracket of (41) -/
def tpS (Q2 t M2 f1 f2 : ℝ) : ℝ := 16 * (1 - t / Q2) * (f1 + t / 4 / M2 * f2)

set_option maxRecDepth 20000 in
theorem tp_core (xB Q2 t y e P1 : ℝ) (hx : xB ≠ 0) (hQ : Q2 ≠ 0) (ht : t ≠ 0) (hy : y ≠ 0) (he : e ≠ 0) :
    let M2 := e * Q2 / (4 * xB ^ 2)
    let P2 := 1 + t / Q2 - P1
    let kap := -(y * (1 + e) * P1 + Jr Q2 xB t y e) / 2
    let a := Q2 / 2
    let d := Q2 * (P1 - 1) / 2
    let u := Q2 / (xB * y) + d
    let up := u - Q2 / xB - (t - Q2) / 2
    (BHRef.polX_AA a d u up t M2 1 1 0 * P1 ^ 2 + BHRef.polX_BB a d u up t M2 1 1 0 * P2 ^ 2 +
          BHRef.polX_AB a d u up t M2 1 1 0 * (P1 * P2)) = tpS Q2 t M2 1 0 * (t * Q2 * (P1 * P2)) ∧
    (BHRef.polY_AA a d u up t M2 1 1 0 * P1 ^ 2 + BHRef.polY_BB a d u up t M2 1 1 0 * P2 ^ 2 +
          BHRef.polY_AB a d u up t M2 1 1 0 * (P1 * P2)) =
        M2 * (tpS Q2 t M2 0 1 - tpS Q2 t M2 1 0) * (t * Q2 * (P1 * P2)) ∧
    (BHRef.polX_AA a d u up t M2 0 0 1 * P1 ^ 2 + BHRef.polX_BB a d u up t M2 0 0 1 * P2 ^ 2 +
          BHRef.polX_AB a d u up t M2 0 0 1 * (P1 * P2)) * (xB ^ 2 * y ^ 2 * (1 + e)) * M2 =
        tpD xB Q2 t y M2 kap 1 0 * (t * Q2 ^ 2 * (P1 * P2)) ∧
    (BHRef.polY_AA a d u up t M2 0 0 1 * P1 ^ 2 + BHRef.polY_BB a d u up t M2 0 0 1 * P2 ^ 2 +
          BHRef.polY_AB a d u up t M2 0 0 1 * (P1 * P2)) * (xB ^ 2 * y ^ 2 * (1 + e)) =
        (tpD xB Q2 t y M2 kap 0 1 - tpD xB Q2 t y M2 kap 1 0) * (t * Q2 ^ 2 * (P1 * P2)) := by
  intro M2 P2 kap a d u up
  simp only [BHRef.polX_AA, BHRef.polX_BB, BHRef.polX_AB, BHRef.polX_AA_k, BHRef.polX_AA_kp, BHRef.polX_AA_D,
    BHRef.polX_BB_k, BHRef.polX_BB_kp, BHRef.polX_BB_D, BHRef.polX_AB_k, BHRef.polX_AB_kp, BHRef.polX_AB_D,
    BHRef.polY_AA, BHRef.polY_BB, BHRef.polY_AB, BHRef.polY_AA_k, BHRef.polY_AA_kp, BHRef.polY_AA_D,
    BHRef.polY_BB_k, BHRef.polY_BB_kp, BHRef.polY_BB_D, BHRef.polY_AB_k, BHRef.polY_AB_kp, BHRef.polY_AB_D,
    tpD, tpS, Jr, M2, P2, kap, a, d, u, up]
  refine ⟨?_, ?_, ?_, ?_⟩ <;> (field_simp; ring)

theorem tpS_linear (Q2 t M2 F1 F2 : ℝ) :
    tpS Q2 t M2 F1 F2 = (F1 + F2) * tpS Q2 t M2 1 0 + F2 * (tpS Q2 t M2 0 1 - tpS Q2 t M2 1 0) := by
  unfold tpS; ring
theorem tpD_linear (xB Q2 t y M2 kap F1 F2 : ℝ) :
    tpD xB Q2 t y M2 kap F1 F2 =
      (F1 + F2) * tpD xB Q2 t y M2 kap 1 0 + F2 * (tpD xB Q2 t y M2 kap 0 1 - tpD xB Q2 t y M2 kap 1 0) := by
  unfold tpD; ring

/-- the reference is linear in the spin products -/
theorem pol_linear (a d u up t M F1 F2 sk sD : ℝ) :
    BHRef.pol a d u up t M F1 F2 sk sk sD =
      sk * BHRef.pol a d u up t M F1 F2 1 1 0 + sD * BHRef.pol a d u up t M F1 F2 0 0 1 := by
  simp only [BHRef.pol, BHRef.polX, BHRef.polY, BHRef.polX_AA, BHRef.polX_BB, BHRef.polX_AB, BHRef.polY_AA,
    BHRef.polY_BB, BHRef.polY_AB]
  ring

theorem tp_real (xB Q2 t y e P1 F1 F2 M : ℝ) (hx : xB ≠ 0) (hQ : Q2 ≠ 0) (ht : t ≠ 0) (hy : y ≠ 0) (he : e ≠ 0)
    (he1 : 1 + e ≠ 0) (hP1 : P1 ≠ 0) (hP2 : 1 + t / Q2 - P1 ≠ 0) (hM : M ≠ 0) (hMM : M ^ 2 = e * Q2 / (4 * xB ^ 2)) :
    let P2 := 1 + t / Q2 - P1
    let kap := -(y * (1 + e) * P1 + Jr Q2 xB t y e) / 2
    let a := Q2 / 2
    let d := Q2 * (P1 - 1) / 2
    let u := Q2 / (xB * y) + d
    let up := u - Q2 / xB - (t - Q2) / 2
    BHRef.pol a d u up t M F1 F2 1 1 0 = M * (F1 + F2) * tpS Q2 t (M ^ 2) F1 F2 / (Q2 * t * (P1 * P2)) ∧
    BHRef.pol a d u up t M F1 F2 0 0 1 =
      (F1 + F2) / M * tpD xB Q2 t y (M ^ 2) kap F1 F2 / (xB ^ 2 * y ^ 2 * (1 + e) * t * (P1 * P2)) := by
  intro P2 kap a d u up
  obtain ⟨hSX, hSY, hDX, hDY⟩ := tp_core xB Q2 t y e P1 hx hQ ht hy he
  rw [tpS_linear, tpD_linear]
  have hia : t - 2 * d = Q2 * P2 := by simp only [d, P2]; field_simp; ring
  have hib : 2 * a + 2 * d = Q2 * P1 := by simp only [d, a]; ring
  simp only [BHRef.pol, BHRef.polX, BHRef.polY, BHRef.ia, BHRef.ib, hia, hib]
  rw [hMM]
  change _ = _ at hSX
  generalize BHRef.polX_AA a d u up t (e * Q2 / (4 * xB ^ 2)) 1 1 0 = sxAA at hSX ⊢
  generalize BHRef.polX_BB a d u up t (e * Q2 / (4 * xB ^ 2)) 1 1 0 = sxBB at hSX ⊢
  generalize BHRef.polX_AB a d u up t (e * Q2 / (4 * xB ^ 2)) 1 1 0 = sxAB at hSX ⊢
  generalize BHRef.polY_AA a d u up t (e * Q2 / (4 * xB ^ 2)) 1 1 0 = syAA at hSY ⊢
  generalize BHRef.polY_BB a d u up t (e * Q2 / (4 * xB ^ 2)) 1 1 0 = syBB at hSY ⊢
  generalize BHRef.polY_AB a d u up t (e * Q2 / (4 * xB ^ 2)) 1 1 0 = syAB at hSY ⊢
  generalize BHRef.polX_AA a d u up t (e * Q2 / (4 * xB ^ 2)) 0 0 1 = dxAA at hDX ⊢
  generalize BHRef.polX_BB a d u up t (e * Q2 / (4 * xB ^ 2)) 0 0 1 = dxBB at hDX ⊢
  generalize BHRef.polX_AB a d u up t (e * Q2 / (4 * xB ^ 2)) 0 0 1 = dxAB at hDX ⊢
  generalize BHRef.polY_AA a d u up t (e * Q2 / (4 * xB ^ 2)) 0 0 1 = dyAA at hDY ⊢
  generalize BHRef.polY_BB a d u up t (e * Q2 / (4 * xB ^ 2)) 0 0 1 = dyBB at hDY ⊢
  generalize BHRef.polY_AB a d u up t (e * Q2 / (4 * xB ^ 2)) 0 0 1 = dyAB at hDY ⊢
  generalize tpS Q2 t (e * Q2 / (4 * xB ^ 2)) 1 0 = s10 at hSX hSY ⊢
  generalize tpS Q2 t (e * Q2 / (4 * xB ^ 2)) 0 1 = s01 at hSY ⊢
  generalize tpD xB Q2 t y (e * Q2 / (4 * xB ^ 2)) kap 1 0 = d10 at hDX hDY ⊢
  generalize tpD xB Q2 t y (e * Q2 / (4 * xB ^ 2)) kap 0 1 = d01 at hDY ⊢
  generalize F1 + F2 = G
  have hP2' : P2 ≠ 0 := hP2
  have hP2def : 1 + t / Q2 - P1 = P2 := rfl
  simp only [hP2def] at hSX hSY hDX hDY
  clear_value P2
  rw [← hMM] at hSY hDX
  constructor
  · field_simp
    linear_combination (G ^ 2 * M ^ 2) * hSX + (G * F2) * hSY
  · field_simp
    linear_combination (G ^ 2) * hDX + (G * F2) * hDY

/-! ### the generated code in the `codeTP` form -/

/-- PreFacBH · (c₀ + c₁ cos φ + s₁ sin φ), BKM Eqs. (40)–(42), as bmk.py has them; the square roots are arguments:
    `w` = √(1−y−ε²y²/4), `sq` = √Q², `r1` = √(1+ε²), `r3` = √((1+ε²)³); `lam` = beam helicity, `cv, sv` = cos, sin of
    varphi, `cφ, sφ` = cos, sin of φ -/
def codeTP (xB Q2 t y e Mp Mp2 K_ P1P2 lam cv sv cφ sφ F1 F2 w sq r1 r3 : ℝ) : ℝ :=
  1 / (xB ^ 2 * y ^ 2 * (1 + e) ^ 2 * t * P1P2) *
    (-8 * lam * cv * (2 - y) * y * sq / Mp * r1 * K_ / w * (F1 + F2) *
        (xB ^ 3 * Mp2 / Q2 * (1 - t / Q2) * (F1 + F2) +
          (1 - (1 - xB) * t / Q2) * (xB ^ 2 * Mp2 / t * (1 - t / Q2) * F1 + xB / 2 * F2)) +
      -16 * lam * cv * xB * y * w * Mp / sq * r1 * (F1 + F2) *
          (2 * K_ ^ 2 * Q2 / t / w ^ 2 * (xB * (1 - t / Q2) * F1 + t / 4 / Mp2 * F2) +
            (1 + e) * xB * (1 - t / Q2) * (F1 + t / 4 / Mp2 * F2)) * cφ +
      16 * lam * sv * xB ^ 2 * y * w * Mp / sq * r3 * (1 - t / Q2) * (F1 + F2) * (F1 + t / 4 / Mp2 * F2) * sφ)

/-- bridging lemma: the generated BMK.TBH2TP is `codeTP` (up to field arithmetic, see Proofs/Bridge.lean) -/
theorem TBH2TP_code (c : Consts) (m : CFFs) (pt : Pt) :
    BMK.TBH2TP c m pt =
      codeTP pt.xB pt.Q2 pt.t pt.y pt.eps2 c.Mp c.Mp2 pt.K_ pt.P1P2 pt.in1polarization (kcos pt.varphi) (ksin pt.varphi)
        (kcos pt.phi) (ksin pt.phi) m.F1 m.F2 (ksqrt (1 - pt.y - pt.eps2 * pt.y ^ 2 / 4)) (ksqrt pt.Q2)
        (ksqrt (1 + pt.eps2)) (ksqrt ((1 + pt.eps2) ^ 3)) := by
  -- the half-integer power (1+ε²)^(3/2) of sBH1TP in any spelling (`sqrt(x**3)`, `sqrt(x*x*x)`, `x**1.5`, `sqrt(x)**3`, `x*sqrt(x)`)
  bridge_simp [BMK.TBH2TP, BMK.PreFacBH, BMK.cBH0TP, BMK.cBH1TP, BMK.sBH1TP, codeTP, one_mul,
    ksqrt_pow3, ksqrt_mul3, ksqrt_npow3, kpow_1p5]

/-! ### transverse target spin -/

/-- transverse target spin at azimuth Φ (in the frame where the lepton plane is the x–z plane) -/
def ST (Φ : ℝ) : V4 := ⟨0, kcos Φ, ksin Φ, 0⟩

theorem frame_TP_dots (M xB Q2 t y r sl pT φ vφ : ℝ) :
    let f := frameOf M xB Q2 t y r sl pT (kcos φ) (ksin φ)
    (ST (φ + vφ)).dot f.k = -(f.E * sl) * (kcos φ * kcos vφ - ksin φ * ksin vφ) ∧
    (ST (φ + vφ)).dot f.k' = -(f.E * sl) * (kcos φ * kcos vφ - ksin φ * ksin vφ) ∧
    (ST (φ + vφ)).dot f.Δ = -pT * kcos vφ ∧ (ST (φ + vφ)).dot f.p1 = 0 ∧ (ST (φ + vφ)).sq = -1 := by
  intro f
  have hc : kcos (φ + vφ) = kcos φ * kcos vφ - ksin φ * ksin vφ := by unfold kcos ksin; exact Real.cos_add _ _
  have hs : ksin (φ + vφ) = ksin φ * kcos vφ + kcos φ * ksin vφ := by unfold kcos ksin; exact Real.sin_add _ _
  have h1 : kcos φ ^ 2 + ksin φ ^ 2 = 1 := by unfold kcos ksin; exact Real.cos_sq_add_sin_sq _
  have h2 : kcos vφ ^ 2 + ksin vφ ^ 2 = 1 := by unfold kcos ksin; exact Real.cos_sq_add_sin_sq _
  simp only [f, frameOf, ST, Frame.k, Frame.k', Frame.q, Frame.Δ, Frame.p1, Frame.p2, V4.dot, V4.sq, V4.sub, hc, hs,
    zero_mul, mul_zero, sub_zero, zero_sub]
  refine ⟨by ring, by ring, ?_, by first | ring | norm_num, ?_⟩
  · linear_combination (-pT * kcos vφ) * h1
  · linear_combination (-(kcos vφ ^ 2 + ksin vφ ^ 2)) * h1 - h2

/-- transverse momentum of the incoming lepton: E sin θ_l = √Q² √(1−y−ε²y²/4) / (y √(1+ε²)) -/
theorem frame_kT {M xB Q2 t y r sl pT cphi sphi : ℝ} (h : Phys M xB Q2 t y r sl pT cphi sphi)
    (hW : 0 ≤ 1 - y - (4 * xB ^ 2 * M ^ 2 / Q2) * y ^ 2 / 4) :
    (frameOf M xB Q2 t y r sl pT cphi sphi).E * sl =
      ksqrt Q2 * ksqrt (1 - y - (4 * xB ^ 2 * M ^ 2 / Q2) * y ^ 2 / 4) / (y * r) := by
  have hM := h.hM; have hx := h.hx; have hQ := h.hQ; have hy := h.hy; have hr := h.hr
  have hE : 0 ≤ (frameOf M xB Q2 t y r sl pT cphi sphi).E * sl := by
    have := h.hsl0; simp only [frameOf]; positivity
  have hR : 0 ≤ ksqrt Q2 * ksqrt (1 - y - (4 * xB ^ 2 * M ^ 2 / Q2) * y ^ 2 / 4) / (y * r) := by
    unfold ksqrt; positivity
  rw [← ksqrt_of_sq hE, ← ksqrt_of_sq hR]
  congr 1
  rw [mul_pow, div_pow, mul_pow, ksqrt_sq hQ.le, ksqrt_sq hW, mul_pow, h.hsl]
  have hr2 : r ^ 2 * Q2 = Q2 + 4 * xB ^ 2 * M ^ 2 := by rw [h.hr2]; field_simp
  simp only [frameOf]
  field_simp
  linear_combination (4 * Q2) * hr2

/-- transversely polarised target: generated code = helicity × trace-reduced reference on the frame's vectors,
    target spin S_T at azimuth Φ = φ + varphi -/
theorem TBH2TP_eq_ref (c : Consts) (m : CFFs) (pt : Pt) {M r sl pT : ℝ}
    (h : Phys M pt.xB pt.Q2 pt.t pt.y r sl pT (kcos pt.phi) (ksin pt.phi))
    (hMp : c.Mp = M) (hM2 : c.Mp2 = M ^ 2) (he : pt.eps2 = 4 * pt.xB ^ 2 * M ^ 2 / pt.Q2)
    (hW : 0 < 1 - pt.y - pt.eps2 * pt.y ^ 2 / 4)
    (hK2 : pt.K2 = K2 c pt.Q2 pt.xB pt.t pt.y pt.eps2) (hK : pt.K_ = ksqrt pt.K2) (hP : pt.P1P2 = P1P2 c pt)
    (hP1 : (frameOf M pt.xB pt.Q2 pt.t pt.y r sl pT (kcos pt.phi) (ksin pt.phi)).P1 pt.Q2 ≠ 0)
    (hP2 : (frameOf M pt.xB pt.Q2 pt.t pt.y r sl pT (kcos pt.phi) (ksin pt.phi)).P2 pt.Q2 ≠ 0) :
    let f := frameOf M pt.xB pt.Q2 pt.t pt.y r sl pT (kcos pt.phi) (ksin pt.phi)
    let S := ST (pt.phi + pt.varphi)
    BMK.TBH2TP c m pt = pt.in1polarization *
      BHRef.pol (f.k.dot f.k') (f.k.dot f.Δ) (f.k.dot f.P) (f.k'.dot f.P) pt.t M m.F1 m.F2
        (S.dot f.k) (S.dot f.k') (S.dot f.Δ) := by
  intro f S
  obtain ⟨hd1, hd2, hd3, hd4⟩ := frame_dots h
  obtain ⟨hs1, hs2, hs3, -, -⟩ := frame_TP_dots M pt.xB pt.Q2 pt.t pt.y r sl pT pt.phi pt.varphi
  have hM := h.hM; have hx := h.hx; have hQ := h.hQ; have hy := h.hy; have ht := h.ht; have hr := h.hr
  have he0 : 0 < pt.eps2 := by rw [he]; positivity
  have hr2 : r ^ 2 = 1 + pt.eps2 := by rw [he]; exact h.hr2
  have hrs : ksqrt (1 + pt.eps2) = r := by rw [← hr2]; exact ksqrt_of_sq hr.le
  have hr3 : ksqrt ((1 + pt.eps2) ^ 3) = r ^ 3 := by
    rw [← hr2, show (r ^ 2) ^ 3 = (r ^ 3) ^ 2 by ring]; exact ksqrt_of_sq (by positivity)
  -- K
  have hKf := frame_K2 c h
  simp only [] at hKf
  rw [← he] at hKf
  have hKv : pt.K_ = pt.y * (1 + pt.eps2) / pt.Q2 * f.E * sl * pT := by
    rw [hK, hK2, ← hKf]; apply ksqrt_of_sq
    have := h.hsl0; have := h.hpT0; simp only [f, frameOf]; positivity
  have hkT := frame_kT h (by rw [← he]; exact hW.le)
  rw [← he] at hkT
  -- propagators
  have hP1c := frame_P1code c pt h he
  have hPP := frame_P1P2 c pt h he
  simp only [] at hPP
  have hsum : f.P2 pt.Q2 = 1 + pt.t / pt.Q2 - f.P1 pt.Q2 := by
    obtain ⟨hk, hk', hq, -, -, hΔ, hq2, -, -⟩ := frame_invariants M pt.xB pt.Q2 pt.t pt.y r sl pT (kcos pt.phi)
      (ksin pt.phi) hM.ne' hx.ne' hQ.ne' hy.ne' h.hr.ne' h.hr2 h.hsl h.hpT h.hcs
    linear_combination P1_add_P2 f pt.Q2 pt.t hQ.ne' hk hk' hq hΔ hq2
  have hkap : -(pt.y * (1 + pt.eps2) * f.P1 pt.Q2 + Jr pt.Q2 pt.xB pt.t pt.y pt.eps2) / 2 = pt.K_ * kcos pt.phi := by
    rw [hP1c, P1code, ← hK2, ← hK]
    have : Jr pt.Q2 pt.xB pt.t pt.y pt.eps2 = J c pt.Q2 pt.xB pt.t pt.y pt.eps2 := (J_eq c _ _ _ _ _).symm
    rw [this]
    have hye : pt.y * (1 + pt.eps2) ≠ 0 := by positivity
    field_simp
    ring
  have hMM : M ^ 2 = pt.eps2 * pt.Q2 / (4 * pt.xB ^ 2) := by rw [he]; field_simp
  obtain ⟨hZS, hZD⟩ := tp_real pt.xB pt.Q2 pt.t pt.y pt.eps2 (f.P1 pt.Q2) m.F1 m.F2 M hx.ne' hQ.ne' ht.ne hy.ne' he0.ne'
    (by positivity) hP1 (by rw [← hsum]; exact hP2) hM.ne' hMM
  rw [hkap] at hZD
  rw [hd1, hd2, hd3, hd2, hd4, hd3, hd2, hs1, hs2, hs3, pol_linear, hZS, hZD]
  rw [TBH2TP_code]
  simp only [codeTP, hMp, hM2, hrs, hr3, tpS, tpD]
  rw [hP, hPP, hsum, hkT]
  have hKv' : pt.K_ = pt.y * (1 + pt.eps2) / pt.Q2 * (f.E * sl) * pT := by rw [hKv]; ring
  rw [hkT] at hKv'
  have hP2' : 1 + pt.t / pt.Q2 - f.P1 pt.Q2 ≠ 0 := by rw [← hsum]; exact hP2
  have hsq0 : ksqrt pt.Q2 ≠ 0 := by unfold ksqrt; positivity
  have hw0 : ksqrt (1 - pt.y - pt.eps2 * pt.y ^ 2 / 4) ≠ 0 := by unfold ksqrt; positivity
  have hsq2 : ksqrt pt.Q2 ^ 2 = pt.Q2 := ksqrt_sq hQ.le
  generalize ksqrt (1 - pt.y - pt.eps2 * pt.y ^ 2 / 4) = w at hKv' hw0 ⊢
  generalize f.P1 pt.Q2 = P1v at hP1 hP2' ⊢
  generalize 1 + pt.t / pt.Q2 - P1v = P2v at hP2' ⊢
  generalize pt.K_ = Kv at hKv' ⊢
  rw [← hr2] at hKv' ⊢
  generalize ksqrt pt.Q2 = sq at hKv' hsq0 hsq2 ⊢
  rw [← hsq2] at hKv' ⊢
  have hpT : pT = Kv * sq * r / (r ^ 2 * w) := by
    rw [hKv']; field_simp
  rw [hpT]
  generalize kcos pt.phi = cφ
  generalize ksin pt.phi = sφ
  generalize kcos pt.varphi = cv
  generalize ksin pt.varphi = sv
  have hx' := hx.ne'; have hy' := hy.ne'; have ht' := ht.ne; have hM' := hM.ne'; have hr' := hr.ne'
  field_simp
  ring

end

end Gep.R.BH

/-
  Proofs/BHKin.lean — helper lemmas for C01: lepton / recoil kinematics of e p → e p γ in the target rest
  frame (BMK conventions: virtual photon along −z, incoming lepton in the x–z plane), written with explicit
  four-vectors, versus the GENERATED kinematics (`tmin`, `tmax`, `K2`, `J`, `P1P2`, `prepare` of Gen/BmkR.lean).
-/
import Gen.BmkR
import Proofs.Bridge
import Mathlib.Tactic.Ring
import Mathlib.Tactic.FieldSimp
import Mathlib.Tactic.LinearCombination
import Mathlib.Tactic.Positivity
import Mathlib.Tactic.Linarith

namespace Gep.R.BH
open Gep.R

/-! ### four-vectors -/

/-- a four-vector with contravariant components (e, x, y, z) -/
structure V4 where
  e : ℝ
  x : ℝ
  y : ℝ
  z : ℝ

/-- Minkowski product, metric (+,−,−,−) -/
def V4.dot (a b : V4) : ℝ := a.e * b.e - a.x * b.x - a.y * b.y - a.z * b.z
def V4.sub (a b : V4) : V4 := ⟨a.e - b.e, a.x - b.x, a.y - b.y, a.z - b.z⟩
def V4.add (a b : V4) : V4 := ⟨a.e + b.e, a.x + b.x, a.y + b.y, a.z + b.z⟩
def V4.sq (a : V4) : ℝ := a.dot a

/-- The rest-frame configuration.  `M` target mass, `nu` photon energy, `r = |q|/ν`, `E` beam energy,
    `cl, sl` cosine / sine of the lepton polar angle, `E2` recoil energy, `pz, pT` longitudinal / transverse
    recoil momentum, `cphi, sphi` cosine / sine of the azimuth of the recoil proton. -/
structure Frame where
  M : ℝ
  nu : ℝ
  r : ℝ
  E : ℝ
  cl : ℝ
  sl : ℝ
  E2 : ℝ
  pz : ℝ
  pT : ℝ
  cphi : ℝ
  sphi : ℝ

namespace Frame
/-- target at rest -/
def p1 (f : Frame) : V4 := ⟨f.M, 0, 0, 0⟩
/-- virtual photon along −z -/
def q (f : Frame) : V4 := ⟨f.nu, 0, 0, -(f.nu * f.r)⟩
/-- incoming (massless) lepton in the x–z plane -/
def k (f : Frame) : V4 := ⟨f.E, f.E * f.sl, 0, f.E * f.cl⟩
/-- recoil proton -/
def p2 (f : Frame) : V4 := ⟨f.E2, f.pT * f.cphi, f.pT * f.sphi, f.pz⟩
/-- momentum transfer Δ = p₂ − p₁ -/
def Δ (f : Frame) : V4 := f.p2.sub f.p1
/-- scattered lepton k' = k − q -/
def k' (f : Frame) : V4 := f.k.sub f.q
/-- real photon q₂ = q − Δ -/
def q2 (f : Frame) : V4 := f.q.sub f.Δ
/-- P = p₁ + p₂ -/
def P (f : Frame) : V4 := f.p1.add f.p2
end Frame

/-- the frame fixed by the invariants (xB, Q², t, y, M) and the azimuth: every component is *derived*
    from the on-shell / invariant conditions (see `frame_invariants`), `r, sl, pT` being the non-negative
    roots passed in as variables. -/
noncomputable def frameOf (M xB Q2 t y r sl pT cphi sphi : ℝ) : Frame :=
  let nu := Q2 / (2 * M * xB)
  let eps2 := 4 * xB ^ 2 * M ^ 2 / Q2
  { M := M, nu := nu, r := r, E := nu / y,
    cl := -(1 + y * eps2 / 2) / r, sl := sl,
    E2 := M - t / (2 * M),
    pz := ((t - Q2) / 2 - nu * ((M - t / (2 * M)) - M)) / (nu * r),
    pT := pT, cphi := cphi, sphi := sphi }

theorem ksqrt_sq {x : ℝ} (h : 0 ≤ x) : ksqrt x ^ 2 = x := by
  unfold ksqrt; exact Real.sq_sqrt h

theorem ksqrt_of_sq {x : ℝ} (h : 0 ≤ x) : ksqrt (x ^ 2) = x := by
  unfold ksqrt; exact Real.sqrt_sq h

/-- The frame realises the invariants: all particles on shell, q² = −Q², Δ² = t, xB = Q²/(2 p₁·q),
    y = p₁·q / p₁·k.  Hypotheses: r² = 1+ε², sl² = 1 − cl², pT² = |p₂|² − pz², cos²+sin² = 1. -/
theorem frame_invariants (M xB Q2 t y r sl pT cphi sphi : ℝ)
    (hM : M ≠ 0) (hx : xB ≠ 0) (hQ : Q2 ≠ 0) (hy : y ≠ 0) (hr : r ≠ 0)
    (hr2 : r ^ 2 = 1 + 4 * xB ^ 2 * M ^ 2 / Q2)
    (hsl : sl ^ 2 = 1 - (frameOf M xB Q2 t y r sl pT cphi sphi).cl ^ 2)
    (hpT : pT ^ 2 = ((M - t / (2 * M)) ^ 2 - M ^ 2) - (frameOf M xB Q2 t y r sl pT cphi sphi).pz ^ 2)
    (hcs : cphi ^ 2 + sphi ^ 2 = 1) :
    let f := frameOf M xB Q2 t y r sl pT cphi sphi
    f.k.sq = 0 ∧ f.k'.sq = 0 ∧ f.q.sq = -Q2 ∧ f.p1.sq = M ^ 2 ∧ f.p2.sq = M ^ 2 ∧ f.Δ.sq = t ∧ f.q2.sq = 0 ∧
      Q2 / (2 * f.p1.dot f.q) = xB ∧ f.p1.dot f.q / f.p1.dot f.k = y := by
  intro f
  simp only [frameOf] at hsl hpT
  simp only [f, frameOf, Frame.k, Frame.k', Frame.q, Frame.p1, Frame.p2, Frame.Δ, Frame.q2, V4.sq, V4.dot, V4.sub,
    mul_zero, zero_mul, sub_zero]
  have hr2' : r ^ 2 * Q2 = Q2 + 4 * xB ^ 2 * M ^ 2 := by rw [hr2]; field_simp
  refine ⟨?_, ?_, ?_, ?_, ?_, ?_, ?_, ?_, ?_⟩
  · linear_combination (-(Q2 / (2 * M * xB) / y) ^ 2) * hsl
  · have h1 : (Q2 / (2 * M * xB) / y) ^ 2 * (1 - sl^2 - (-(1 + y * (4 * xB ^ 2 * M ^ 2 / Q2) / 2) / r)^2) = 0 := by
      rw [hsl]; ring
    field_simp
    field_simp at h1
    linear_combination h1 + (-4*Q2*r^2*y^2) * hr2'
  · field_simp
    linear_combination (-1) * hr2'
  · ring
  · linear_combination (-1) * hpT + (-pT^2) * hcs
  · have : M * t * M⁻¹ = t := by field_simp
    linear_combination (-1) * hpT + (-pT^2) * hcs + this
  · have h1 := hpT
    field_simp
    field_simp at h1
    linear_combination (-4*M^2*Q2^2*pT^2*r^2*xB^2) * hcs + (-xB^2) * h1 + (-Q2^3*r^2) * hr2'
  · field_simp
  · field_simp

/-! ### core algebra (polynomial parametrisation Q² = 4xB²·m, M² = ε²·m, ε² = r²−1: no side relation left) -/

noncomputable section

/-- |p₂|² − (p₂·q̂)²: squared transverse momentum of the recoil proton w.r.t. the photon direction, as a
    function of the invariants (`M2` = M², `e` = ε²): E₂ = M − t/2M, q·Δ = (t−Q²)/2, |q|² = ν²(1+ε²) -/
def pT2 (Q2 xB t M2 e : ℝ) : ℝ :=
  (t ^ 2 / (4 * M2) - t) - ((t - Q2) / 2 + Q2 * t / (4 * M2 * xB)) ^ 2 / (Q2 ^ 2 / (4 * M2 * xB ^ 2) * (1 + e))

/-- the generated `tmin`, `tmax`, `K2` with the square root as a variable -/
def tminR (Q2 xB e r : ℝ) : ℝ := -Q2 * (2 * (1 - xB) * (1 - r) + e) / (4 * xB * (1 - xB) + e)
def tmaxR (Q2 xB e r : ℝ) : ℝ := -Q2 * (2 * (1 - xB) * (1 + r) + e) / (4 * xB * (1 - xB) + e)
def K2R (Q2 xB t y e r : ℝ) : ℝ :=
  let tm := tminR Q2 xB e r
  let brace := r + (4 * xB * (1 - xB) + e) / (4 * (1 - xB)) * (t - tm) / Q2;
  -(t / Q2) * (1 - xB) * (1 - y - y * y * e / 4) * (1 - tm / t) * brace

/-- the generated `J` (BMK Eq. 29), hand-written -/
def Jr (Q2 xB t y e : ℝ) : ℝ := (1 - y - y * e / 2) * (1 + t / Q2) - (1 - xB) * (2 - y) * t / Q2

/-! bridging lemmas (generated definition = hand-written form): by `bridge_simp`, see Proofs/Bridge.lean — they hold
    up to field arithmetic, not up to syntax, so that a re-associated / helper-extracting rewrite of the Python
    formula leaves everything below untouched -/
theorem tmin_eq (c : Consts) (Q2 xB e : ℝ) : tmin c Q2 xB e = tminR Q2 xB e (ksqrt (1 + e)) := by
  bridge_simp [tmin, tminR]
theorem tmax_eq (c : Consts) (Q2 xB e : ℝ) : tmax c Q2 xB e = tmaxR Q2 xB e (ksqrt (1 + e)) := by
  bridge_simp [tmax, tmaxR]
theorem K2_eq (c : Consts) (Q2 xB t y e : ℝ) : K2 c Q2 xB t y e = K2R Q2 xB t y e (ksqrt (1 + e)) := by
  bridge_simp [K2, K2R, tmin_eq, tminR]
theorem J_eq (c : Consts) (Q2 xB t y e : ℝ) : J c Q2 xB t y e = Jr Q2 xB t y e := by
  bridge_simp [J, Jr]

/-- four-vector form of K²: (y(1+ε²)/Q²)² · E² sin²θ_l · |p₂|² sin²θ_H -/
def K2vec (Q2 xB t y M2 e : ℝ) : ℝ :=
  let nu2 := Q2 ^ 2 / (4 * M2 * xB ^ 2)
  let Esq := nu2 / y ^ 2
  let cl2 := (1 + y * e / 2) ^ 2 / (1 + e)
  Esq * (1 - cl2) * pT2 Q2 xB t M2 e * y ^ 2 * (1 + e) ^ 2 / Q2 ^ 2

/-- K² without the square root: −(1−y−y²ε²/4)·[(4xB(1−xB)+ε²)t² + 2Q²(2(1−xB)+ε²)t + Q⁴ε²]/(4Q⁴) -/
def K2rat (Q2 xB t y e : ℝ) : ℝ :=
  -(1 - y - y ^ 2 * e / 4) * ((4 * xB * (1 - xB) + e) * t ^ 2 + 2 * Q2 * (2 * (1 - xB) + e) * t + Q2 ^ 2 * e) / (4 * Q2 ^ 2)

theorem pT2_factor_core (Q2 M2 e xB t r m : ℝ) (hx : xB ≠ 0) (hm : m ≠ 0) (he0 : e ≠ 0)
    (he1 : 1 + e ≠ 0) (hd : xB * (1 - xB) * 4 + e ≠ 0)
    (hQ2 : Q2 = 4 * xB ^ 2 * m) (hM2 : M2 = e * m) (heps : e = r ^ 2 - 1) :
    pT2 Q2 xB t M2 e =
      -(4 * xB * (1 - xB) + e) / (4 * Q2 * (1 + e)) * ((t - tminR Q2 xB e r) * (t - tmaxR Q2 xB e r)) := by
  unfold pT2 tminR tmaxR
  have hd' : 4 * xB * (1 - xB) + e ≠ 0 := by intro h; apply hd; linear_combination h
  subst hQ2 hM2
  field_simp
  subst heps
  ring

set_option maxRecDepth 20000 in
theorem K2_core (Q2 M2 e xB t y r m : ℝ) (hx : xB ≠ 0) (hx1 : 1 - xB ≠ 0) (hm : m ≠ 0) (ht : t ≠ 0)
    (hy : y ≠ 0) (he0 : e ≠ 0) (he1 : 1 + e ≠ 0) (hd : xB * (1 - xB) * 4 + e ≠ 0)
    (hQ2 : Q2 = 4 * xB ^ 2 * m) (hM2 : M2 = e * m) (heps : e = r ^ 2 - 1) :
    K2R Q2 xB t y e r = K2vec Q2 xB t y M2 e := by
  unfold K2R K2vec pT2 tminR
  simp only []
  have hd' : 4 * xB * (1 - xB) + e ≠ 0 := by intro h; apply hd; linear_combination h
  subst hQ2 hM2
  field_simp
  subst heps
  ring

theorem K2rat_core (Q2 e xB t y r : ℝ) (hx1 : 1 - xB ≠ 0) (hQ : Q2 ≠ 0) (ht : t ≠ 0)
    (hd : xB * (1 - xB) * 4 + e ≠ 0) (heps : e = r ^ 2 - 1) :
    K2R Q2 xB t y e r = K2rat Q2 xB t y e := by
  unfold K2R K2rat tminR
  simp only []
  have hd' : 4 * xB * (1 - xB) + e ≠ 0 := by intro h; apply hd; linear_combination h
  field_simp
  subst heps
  ring

/-- constant part of the propagator 𝒫₁: Q² + 2E(E₂−M) − 2E cosθ_l (p₂·q̂) = −Q² J/(y(1+ε²)) -/
theorem J_core (c : Consts) (Q2 M2 e xB t y r m : ℝ) (hx : xB ≠ 0) (hm : m ≠ 0) (hy : y ≠ 0) (hr : r ≠ 0)
    (he0 : e ≠ 0) (he1 : 1 + e ≠ 0)
    (hQ2 : Q2 = 4 * xB ^ 2 * m) (hM2 : M2 = e * m) (heps : e = r ^ 2 - 1) :
    (Q2 + 2 * (-(Q2 * t / (4 * M2 * xB * y))) -
        2 * (1 / y) * (-(1 + y * e / 2) / r) * (((t - Q2) / 2 + Q2 * t / (4 * M2 * xB)) / r)) / Q2 =
      -(J c Q2 xB t y e) / (y * (1 + e)) := by
  rw [J_eq]; unfold Jr
  subst hQ2 hM2
  field_simp
  subst heps
  ring

/-! ### propagators -/

/-- lepton propagators 𝒫₁ = (k − q₂)²/Q², 𝒫₂ = (k − Δ)²/Q² (BMK Eq. 28) -/
def Frame.P1 (f : Frame) (Q2 : ℝ) : ℝ := (f.k.sub f.q2).sq / Q2
def Frame.P2 (f : Frame) (Q2 : ℝ) : ℝ := (f.k.sub f.Δ).sq / Q2

theorem P1_add_P2 (f : Frame) (Q2 t : ℝ) (hQ : Q2 ≠ 0) (hk : f.k.sq = 0) (hk' : f.k'.sq = 0)
    (hq : f.q.sq = -Q2) (hΔ : f.Δ.sq = t) (hq2 : f.q2.sq = 0) : f.P1 Q2 + f.P2 Q2 = 1 + t / Q2 := by
  simp only [Frame.P1, Frame.P2, Frame.k, Frame.k', Frame.q, Frame.p1, Frame.p2, Frame.Δ, Frame.q2, V4.sq, V4.dot,
    V4.sub] at *
  field_simp
  linear_combination hk + hq2 + hΔ - hq + hk'

theorem P1_eq_kΔ (f : Frame) (Q2 : ℝ) (hQ : Q2 ≠ 0) (hk' : f.k'.sq = 0)
    (hq : f.q.sq = -Q2) (hq2 : f.q2.sq = 0) : f.P1 Q2 = (Q2 + 2 * f.k.dot f.Δ) / Q2 := by
  simp only [Frame.P1, Frame.k, Frame.k', Frame.q, Frame.p1, Frame.p2, Frame.Δ, Frame.q2, V4.sq, V4.dot,
    V4.sub] at *
  field_simp
  linear_combination hq2 - hq + hk'

theorem frame_P1 (c : Consts) (M xB Q2 t y r sl pT cphi sphi : ℝ)
    (hM : M ≠ 0) (hx : xB ≠ 0) (hQ : Q2 ≠ 0) (hy : y ≠ 0) (hr : r ≠ 0)
    (hr2 : r ^ 2 = 1 + 4 * xB ^ 2 * M ^ 2 / Q2)
    (hsl : sl ^ 2 = 1 - (frameOf M xB Q2 t y r sl pT cphi sphi).cl ^ 2)
    (hpT : pT ^ 2 = ((M - t / (2 * M)) ^ 2 - M ^ 2) - (frameOf M xB Q2 t y r sl pT cphi sphi).pz ^ 2)
    (hcs : cphi ^ 2 + sphi ^ 2 = 1) :
    let f := frameOf M xB Q2 t y r sl pT cphi sphi
    let e := 4 * xB ^ 2 * M ^ 2 / Q2
    f.P1 Q2 = -(J c Q2 xB t y e + 2 * (y * (1 + e) / Q2 * f.E * sl * pT) * cphi) / (y * (1 + e)) := by
  intro f e
  obtain ⟨-, hk', hq, -, -, -, hq2, -, -⟩ := frame_invariants M xB Q2 t y r sl pT cphi sphi hM hx hQ hy hr hr2 hsl hpT hcs
  rw [P1_eq_kΔ f Q2 hQ hk' hq hq2]
  have he0 : e ≠ 0 := by positivity
  have he1 : 1 + e ≠ 0 := by rw [← hr2]; positivity
  have hJ := J_core c Q2 (M ^ 2) e xB t y r (Q2 / (4 * xB ^ 2)) hx (by positivity) hy hr he0 he1
    (by field_simp) (by simp only [e]; field_simp) (by simp only [e]; linear_combination -hr2)
  have hJ' : J c Q2 xB t y e = -(y * (1 + e)) * ((Q2 + 2 * -(Q2 * t / (4 * M ^ 2 * xB * y)) -
        2 * (1 / y) * (-(1 + y * e / 2) / r) * (((t - Q2) / 2 + Q2 * t / (4 * M ^ 2 * xB)) / r)) / Q2) := by
    rw [hJ]; field_simp
  rw [hJ']
  have hE : Q2 + M ^ 2 * xB ^ 2 * 4 ≠ 0 := by
    intro h; apply he1; simp only [e]; field_simp; linear_combination h
  simp only [f, e, frameOf, Frame.k, Frame.p1, Frame.p2, Frame.Δ, V4.dot, V4.sub]
  field_simp
  ring
/-- physical configuration: positive mass and invariants, 0 < xB < 1, the roots r = √(1+ε²), sin θ_l, |p₂⊥| taken
    non-negative -/
structure Phys (M xB Q2 t y r sl pT cphi sphi : ℝ) : Prop where
  hM : 0 < M
  hx : 0 < xB
  hx1 : xB < 1
  hQ : 0 < Q2
  hy : 0 < y
  ht : t < 0
  hr : 0 < r
  hr2 : r ^ 2 = 1 + 4 * xB ^ 2 * M ^ 2 / Q2
  hsl0 : 0 ≤ sl
  hsl : sl ^ 2 = 1 - (frameOf M xB Q2 t y r sl pT cphi sphi).cl ^ 2
  hpT0 : 0 ≤ pT
  hpT : pT ^ 2 = ((M - t / (2 * M)) ^ 2 - M ^ 2) - (frameOf M xB Q2 t y r sl pT cphi sphi).pz ^ 2
  hcs : cphi ^ 2 + sphi ^ 2 = 1

theorem K2_indep_root (Q2 e xB t y r r' : ℝ) (hx1 : 1 - xB ≠ 0) (hQ : Q2 ≠ 0) (ht : t ≠ 0)
    (hd : xB * (1 - xB) * 4 + e ≠ 0) (h : e = r ^ 2 - 1) (h' : e = r' ^ 2 - 1) :
    K2R Q2 xB t y e r = K2R Q2 xB t y e r' := by
  rw [K2rat_core Q2 e xB t y r hx1 hQ ht hd h, K2rat_core Q2 e xB t y r' hx1 hQ ht hd h']

theorem frame_K2 (c : Consts) {M xB Q2 t y r sl pT cphi sphi : ℝ} (h : Phys M xB Q2 t y r sl pT cphi sphi) :
    let f := frameOf M xB Q2 t y r sl pT cphi sphi
    let e := 4 * xB ^ 2 * M ^ 2 / Q2
    (y * (1 + e) / Q2 * f.E * sl * pT) ^ 2 = K2 c Q2 xB t y e := by
  intro f e
  obtain ⟨hM, hx, hx1, hQ, hy, ht, hr, hr2, hsl0, hsl, hpT0, hpT, hcs⟩ := h
  have he0 : 0 < e := by positivity
  have hx1' : 1 - xB ≠ 0 := by linarith
  have hd : xB * (1 - xB) * 4 + e ≠ 0 := by
    have : 0 < xB * (1 - xB) := mul_pos hx (by linarith)
    positivity
  have hee : e = r ^ 2 - 1 := by simp only [e]; linear_combination -hr2
  have hes : e = ksqrt (1 + e) ^ 2 - 1 := by rw [ksqrt_sq (by positivity)]; ring
  rw [K2_eq, K2_indep_root Q2 e xB t y _ r hx1' hQ.ne' ht.ne hd hes hee,
    K2_core Q2 (M ^ 2) e xB t y r (Q2 / (4 * xB ^ 2)) hx.ne' hx1' (by positivity) ht.ne hy.ne' he0.ne' (by positivity) hd
      (by field_simp) (by simp only [e]; field_simp) hee]
  have hsplit : (y * (1 + e) / Q2 * f.E * sl * pT) ^ 2 = (y * (1 + e) / Q2 * f.E) ^ 2 * sl ^ 2 * pT ^ 2 := by ring
  rw [hsplit, hsl, hpT]
  simp only [f, e, frameOf, K2vec, pT2]
  rw [← hr2]
  field_simp
  ring

/-- the code's 𝒫₁ (inside `P1P2`): −(J + 2√K² cos φ)/(y(1+ε²)) -/
def P1code (c : Consts) (pt : Pt) : ℝ :=
  -(J c pt.Q2 pt.xB pt.t pt.y pt.eps2 + 2 * ksqrt (K2 c pt.Q2 pt.xB pt.t pt.y pt.eps2) * kcos pt.phi) / (pt.y * (1 + pt.eps2))

theorem P1P2_eq (c : Consts) (pt : Pt) : P1P2 c pt = P1code c pt * (1 + pt.t / pt.Q2 - P1code c pt) := by
  bridge_simp [P1P2, P1code]

theorem frame_P1code (c : Consts) (pt : Pt) {M r sl pT : ℝ}
    (h : Phys M pt.xB pt.Q2 pt.t pt.y r sl pT (kcos pt.phi) (ksin pt.phi))
    (he : pt.eps2 = 4 * pt.xB ^ 2 * M ^ 2 / pt.Q2) :
    (frameOf M pt.xB pt.Q2 pt.t pt.y r sl pT (kcos pt.phi) (ksin pt.phi)).P1 pt.Q2 = P1code c pt := by
  have hK := frame_K2 c h
  have hP := frame_P1 c M pt.xB pt.Q2 pt.t pt.y r sl pT (kcos pt.phi) (ksin pt.phi) h.hM.ne' h.hx.ne' h.hQ.ne'
    h.hy.ne' h.hr.ne' h.hr2 h.hsl h.hpT h.hcs
  simp only [] at hK hP
  rw [hP, P1code, he, ← hK, ksqrt_of_sq]
  have := h.hM; have := h.hx; have := h.hQ; have := h.hy; have := h.hsl0; have := h.hpT0
  simp only [frameOf]
  positivity

theorem frame_P1P2 (c : Consts) (pt : Pt) {M r sl pT : ℝ}
    (h : Phys M pt.xB pt.Q2 pt.t pt.y r sl pT (kcos pt.phi) (ksin pt.phi))
    (he : pt.eps2 = 4 * pt.xB ^ 2 * M ^ 2 / pt.Q2) :
    let f := frameOf M pt.xB pt.Q2 pt.t pt.y r sl pT (kcos pt.phi) (ksin pt.phi)
    P1P2 c pt = f.P1 pt.Q2 * f.P2 pt.Q2 := by
  intro f
  obtain ⟨hk, hk', hq, -, -, hΔ, hq2, -, -⟩ := frame_invariants M pt.xB pt.Q2 pt.t pt.y r sl pT (kcos pt.phi)
    (ksin pt.phi) h.hM.ne' h.hx.ne' h.hQ.ne' h.hy.ne' h.hr.ne' h.hr2 h.hsl h.hpT h.hcs
  have h2 : f.P2 pt.Q2 = 1 + pt.t / pt.Q2 - f.P1 pt.Q2 := by
    linear_combination P1_add_P2 f pt.Q2 pt.t h.hQ.ne' hk hk' hq hΔ hq2
  rw [h2, P1P2_eq, frame_P1code c pt h he]

end

end Gep.R.BH

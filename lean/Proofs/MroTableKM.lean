/-
  Proofs/MroTableKM.lean — C20 table lemmas: the static check of Model/Mro.lean evaluated by the
  kernel on the generated class table for shipped KM combinations (classes of fits.py), part 1.
-/
import Model.Mro
import Gen.ClassTable

namespace Gep.Mro.Table
open Gep.Mro Gep.Mro.Gen

theorem checks_KM09 : checks classTable blocksKM09 = true := by decide +kernel
theorem checks_KM10 : checks classTable blocksKM10 = true := by decide +kernel
theorem checks_KM10b : checks classTable blocksKM10b = true := by decide +kernel

end Gep.Mro.Table

/-
  Proofs/UncLoop.lean — helper lemmas for Model/UncLoop.lean (the uncertainty loop of Theory.predict).
-/
import Model.UncLoop
import Proofs.FitSync
namespace Gep.Unc
open Gep.Fit Gep.Pred

variable {V H R : Type}

/-- overwriting an existing entry and writing the old value back gives the same dictionary (same order) -/
theorem dset_restore (ps : List (Name × V)) (p : Name) (mem a : V) (h : dget ps p = some mem) :
    dset (dset ps p a) p mem = ps := by
  induction ps with
  | nil => simp [dget] at h
  | cons kv r ih =>
    obtain ⟨k, v⟩ := kv
    by_cases hk : (k == p) = true
    · have hkp : k = p := by simpa using hk
      subst hkp
      simp only [dget, beq_self_eq_true, if_true, Option.some.injEq] at h
      subst h
      simp [dset]
    · have hk' : (k == p) = false := by simpa using hk
      simp only [dget, hk'] at h
      simp [dset, hk', ih h]

theorem dset_dset_restore (ps : List (Name × V)) (p : Name) (mem a b : V) (h : dget ps p = some mem) :
    dset (dset (dset ps p a) p b) p mem = ps := by
  induction ps with
  | nil => simp [dget] at h
  | cons kv r ih =>
    obtain ⟨k, v⟩ := kv
    by_cases hk : (k == p) = true
    · have hkp : k = p := by simpa using hk
      subst hkp
      simp only [dget, beq_self_eq_true, if_true, Option.some.injEq] at h
      subst h
      simp [dset]
    · have hk' : (k == p) = false := by simpa using hk
      simp only [dget, hk'] at h
      simp [dset, hk', ih h]

/-- one pass of the loop body leaves the parameter dictionary exactly as it was — whether the two evaluations
    return or raise, and whether or not the parameter or its error exists -/
theorem stepP_params (ev : List (Name × V) → Res R) (up dn : V → H → V) (herr : Name → Option H)
    (ps : List (Name × V)) (p : Name) : (stepP ev up dn herr ps p).1 = ps := by
  unfold stepP
  cases herr p with
  | none => rfl
  | some h =>
    cases hm : dget ps p with
    | none => rfl
    | some mem =>
      simp only
      cases ev (dset ps p (up mem h)) with
      | exc e => exact dset_restore ps p mem _ hm
      | val u =>
        simp only
        cases ev (dset (dset ps p (up mem h)) p (dn mem h)) with
        | exc e => exact dset_dset_restore ps p mem _ _ hm
        | val d => exact dset_dset_restore ps p mem _ _ hm

theorem stepP_trace (ev : List (Name × V) → Res R) (up dn : V → H → V) (herr : Name → Option H)
    (ps : List (Name × V)) (p : Name) :
    ∀ d ∈ (stepP ev up dn herr ps p).2.1, ∀ n, n ≠ p → dget d n = dget ps n := by
  unfold stepP
  cases herr p with
  | none => intro d hd; cases hd
  | some h =>
    cases hm : dget ps p with
    | none => intro d hd; cases hd
    | some mem =>
      simp only
      cases ev (dset ps p (up mem h)) with
      | exc e =>
        intro d hd n hn
        simp only [List.mem_singleton] at hd; subst hd
        rw [dget_dset, if_neg hn]
      | val u =>
        simp only
        cases ev (dset (dset ps p (up mem h)) p (dn mem h)) with
        | exc e =>
          intro d hd n hn
          simp only [List.mem_cons, List.not_mem_nil, or_false] at hd
          rcases hd with rfl | rfl
          · rw [dget_dset, if_neg hn]
          · rw [dget_dset, if_neg hn, dget_dset, if_neg hn]
        | val dd =>
          intro d hd n hn
          simp only [List.mem_cons, List.not_mem_nil, or_false] at hd
          rcases hd with rfl | rfl
          · rw [dget_dset, if_neg hn]
          · rw [dget_dset, if_neg hn, dget_dset, if_neg hn]


end Gep.Unc

/-
  Proofs/BHSets.lean — helper lemmas for C01: the Bethe–Heitler theorems on a point prepared by
  `kinematics.prepare`, and the assembly of `DVCS.XS` with vanishing CFFs for the five formula sets.
-/
import Proofs.BHTP
import Proofs.BHInt
import Gen.BmkSymR

set_option linter.unusedSimpArgs false
set_option linter.unusedVariables false

namespace Gep.R.BH
open Gep.R

noncomputable section

/-- hypotheses on a raw point `pt` (with `y` still to be computed by `prepare`) and the constants -/
structure PhysPt (c : Consts) (pt : Pt) (M r sl pT : ℝ) : Prop where
  hMp : c.Mp = M
  hMp2 : c.Mp2 = M ^ 2
  phys : Phys M pt.xB pt.Q2 pt.t (prepare c pt).y r sl pT (kcos pt.phi) (ksin pt.phi)
  /-- below y_max: the lepton transverse momentum is non-zero -/
  hW : 0 < 1 - (prepare c pt).y - (prepare c pt).eps2 * (prepare c pt).y ^ 2 / 4
  hP1 : (frameOf M pt.xB pt.Q2 pt.t (prepare c pt).y r sl pT (kcos pt.phi) (ksin pt.phi)).P1 pt.Q2 ≠ 0
  hP2 : (frameOf M pt.xB pt.Q2 pt.t (prepare c pt).y r sl pT (kcos pt.phi) (ksin pt.phi)).P2 pt.Q2 ≠ 0

theorem prepare_eps2_eq (c : Consts) (pt : Pt) {M : ℝ} (hMp : c.Mp = M) (hQ : 0 < pt.Q2) :
    (prepare c pt).eps2 = 4 * pt.xB ^ 2 * M ^ 2 / pt.Q2 := by
  have h : (prepare c pt).eps2 = (2 * pt.xB * c.Mp / ksqrt pt.Q2) ^ 2 := by
    bridge_simp [prepare]
  rw [h, hMp, div_pow, ksqrt_sq hQ.le]; ring

/-- the rest frame of a prepared point -/
def frameP (c : Consts) (pt : Pt) (M r sl pT : ℝ) : Frame :=
  frameOf M pt.xB pt.Q2 pt.t (prepare c pt).y r sl pT (kcos pt.phi) (ksin pt.phi)

theorem TBH2unp_prepared (c : Consts) (m : CFFs) (pt : Pt) {M r sl pT : ℝ} (h : PhysPt c pt M r sl pT) :
    let f := frameP c pt M r sl pT
    BMK.TBH2unp c m (prepare c pt) =
      BHRef.unp (f.k.dot f.k') (f.k.dot f.Δ) (f.k.dot f.P) (f.k'.dot f.P) pt.t (M ^ 2) m.F1 m.F2 :=
  TBH2unp_eq_ref c m (prepare c pt) h.phys h.hMp2 (prepare_eps2_eq c pt h.hMp h.phys.hQ) rfl rfl rfl h.hP1 h.hP2

theorem TBH2LP_prepared (c : Consts) (m : CFFs) (pt : Pt) {M r sl pT : ℝ} (h : PhysPt c pt M r sl pT) :
    let f := frameP c pt M r sl pT
    BM10ex.TBH2LP c m (prepare c pt) = pt.in1polarization *
      BHRef.pol (f.k.dot f.k') (f.k.dot f.Δ) (f.k.dot f.P) (f.k'.dot f.P) pt.t M m.F1 m.F2
        (SL.dot f.k) (SL.dot f.k') (SL.dot f.Δ) :=
  TBH2LP_eq_ref c m (prepare c pt) h.phys h.hMp2 (prepare_eps2_eq c pt h.hMp h.phys.hQ) rfl rfl rfl h.hP1 h.hP2

theorem TBH2TP_prepared (c : Consts) (m : CFFs) (pt : Pt) {M r sl pT : ℝ} (h : PhysPt c pt M r sl pT) :
    let f := frameP c pt M r sl pT
    let S := ST (pt.phi + pt.varphi)
    BMK.TBH2TP c m (prepare c pt) = pt.in1polarization *
      BHRef.pol (f.k.dot f.k') (f.k.dot f.Δ) (f.k.dot f.P) (f.k'.dot f.P) pt.t M m.F1 m.F2
        (S.dot f.k) (S.dot f.k') (S.dot f.Δ) :=
  TBH2TP_eq_ref c m (prepare c pt) h.phys h.hMp h.hMp2 (prepare_eps2_eq c pt h.hMp h.phys.hQ) h.hW rfl rfl rfl h.hP1 h.hP2

/-- the twist-two transverse-target squared-DVCS term vanishes with the CFFs (not among the generated lemmas:
    BMK.CCALDVCSTP returns a pair) -/
theorem BMK_TDVCS2TP_zeroCFFs (c : Consts) (m : CFFs) (pt : Pt) : BMK.TDVCS2TP c (zeroCFFs m) pt = 0 := by
  bridge_simp [BMK.TDVCS2TP, BMK.cDVCS0TP, BMK.CCALDVCSTP, bmk_sym, Gep.Cx.mk_re, Gep.Cx.mk_im, Gep.Cx.add_re,
    Gep.Cx.add_im, Gep.Cx.sub_re, Gep.Cx.sub_im, Gep.Cx.neg_re, Gep.Cx.neg_im, Gep.Cx.mul_re, Gep.Cx.mul_im,
    Gep.Cx.smul_re, Gep.Cx.smul_im, Gep.Cx.divR_re, Gep.Cx.divR_im, mul_zero, zero_mul, add_zero, sub_zero, neg_zero,
    zero_div, sub_self]

/-- the reference |T_BH|²/e⁶ for target state `tg` (0 unpolarised, 1 longitudinal, 2 transverse at azimuth
    Φ = φ + varphi) with polarisation degree `pol`, beam helicity h = pt.in1polarization -/
def refBH (c : Consts) (m : CFFs) (pt : Pt) (M r sl pT : ℝ) (tg : Nat) (pol : ℝ) : ℝ :=
  let f := frameP c pt M r sl pT
  let unp := BHRef.unp (f.k.dot f.k') (f.k.dot f.Δ) (f.k.dot f.P) (f.k'.dot f.P) pt.t (M ^ 2) m.F1 m.F2
  let spin (S : V4) := pt.in1polarization *
    BHRef.pol (f.k.dot f.k') (f.k.dot f.Δ) (f.k.dot f.P) (f.k'.dot f.P) pt.t M m.F1 m.F2 (S.dot f.k) (S.dot f.k') (S.dot f.Δ)
  match tg with
  | 0 => unp
  | 1 => unp + pol * spin SL
  | _ => unp + pol * spin (ST (pt.phi + pt.varphi))

theorem TBH2_zeroCFFs (c : Consts) (m : CFFs) (pt : Pt) :
    BMK.TBH2unp c (zeroCFFs m) pt = BMK.TBH2unp c m pt ∧ BM10ex.TBH2LP c (zeroCFFs m) pt = BM10ex.TBH2LP c m pt ∧
      BMK.TBH2TP c (zeroCFFs m) pt = BMK.TBH2TP c m pt := ⟨rfl, rfl, rfl⟩

/-- pure Bethe–Heitler: with vanishing CFFs the bracket of `DVCS.XS` is the reference, for every formula set and
    target state it implements -/
theorem XSaux_pure_BH (c : Consts) (m : CFFs) (pt : Pt) {M r sl pT : ℝ} (h : PhysPt c pt M r sl pT) (pol : ℝ) :
    (∀ tg ∈ [0, 2], XSaux_BMK c (zeroCFFs m) (prepare c pt) tg pol = some (refBH c m pt M r sl pT tg pol)) ∧
    (∀ tg ∈ [0, 2], XSaux_hotfixedBMK c (zeroCFFs m) (prepare c pt) tg pol = some (refBH c m pt M r sl pT tg pol)) ∧
    (∀ tg ∈ [0, 1, 2], XSaux_BM10ex c (zeroCFFs m) (prepare c pt) tg pol = some (refBH c m pt M r sl pT tg pol)) ∧
    (∀ tg ∈ [0, 1, 2], XSaux_BM10 c (zeroCFFs m) (prepare c pt) tg pol = some (refBH c m pt M r sl pT tg pol)) ∧
    (∀ tg ∈ [0, 1, 2], XSaux_BM10tw2 c (zeroCFFs m) (prepare c pt) tg pol = some (refBH c m pt M r sl pT tg pol)) := by
  have hU := TBH2unp_prepared c m pt h
  have hL := TBH2LP_prepared c m pt h
  have hT := TBH2TP_prepared c m pt h
  obtain ⟨zU, zL, zT⟩ := TBH2_zeroCFFs c m (prepare c pt)
  simp only [] at hU hL hT
  refine ⟨?_, ?_, ?_, ?_, ?_⟩ <;> intro tg htg <;> simp only [List.mem_cons, List.mem_nil_iff, or_false] at htg <;>
    rcases htg with rfl | rfl | rfl <;>
    simp only [XSaux_BMK, XSaux_hotfixedBMK, XSaux_BM10ex, XSaux_BM10, XSaux_BM10tw2, refBH,
      FS_BMK_TBH2unp, FS_BMK_TINTunp, FS_BMK_TDVCS2unp, FS_hotfixedBMK_TBH2unp, FS_hotfixedBMK_TINTunp,
      FS_hotfixedBMK_TDVCS2unp, FS_BM10ex_TBH2unp, FS_BM10ex_TINTunp, FS_BM10ex_TDVCS2unp, FS_BM10_TBH2unp,
      FS_BM10_TINTunp, FS_BM10_TDVCS2unp, FS_BM10tw2_TBH2unp, FS_BM10tw2_TINTunp, FS_BM10tw2_TDVCS2unp,
      FS_BM10ex_TBH2LP, FS_BM10ex_TINTLP, FS_BM10ex_TDVCS2LP, FS_BM10_TBH2LP, FS_BM10_TINTLP, FS_BM10_TDVCS2LP,
      FS_BM10tw2_TBH2LP, FS_BM10tw2_TINTLP, FS_BM10tw2_TDVCS2LP,
      FS_BMK_TBH2TP, FS_BMK_TINTTP, FS_BMK_TDVCS2TP, FS_hotfixedBMK_TBH2TP, FS_hotfixedBMK_TINTTP,
      FS_hotfixedBMK_TDVCS2TP, FS_BM10ex_TBH2TP, FS_BM10ex_TINTTP, FS_BM10ex_TDVCS2TP, FS_BM10_TBH2TP,
      FS_BM10_TINTTP, FS_BM10_TDVCS2TP, FS_BM10tw2_TBH2TP, FS_BM10tw2_TINTTP, FS_BM10tw2_TDVCS2TP,
      BMK_TINTunp_zeroCFFs, BMK_TDVCS2unp_zeroCFFs, BMK_TINTTP_zeroCFFs, BMK_TDVCS2TP_zeroCFFs,
      hotfixedBMK_TINTunp_zeroCFFs, hotfixedBMK_TDVCS2unp_zeroCFFs, BM10ex_TINTunp_zeroCFFs, BM10ex_TDVCS2unp_zeroCFFs,
      BM10ex_TINTLP_zeroCFFs, BM10ex_TDVCS2LP_zeroCFFs, BM10_TINTunp_zeroCFFs, BM10_TDVCS2unp_zeroCFFs,
      BM10_TINTLP_zeroCFFs, BM10_TDVCS2LP_zeroCFFs, BM10tw2_TINTunp_zeroCFFs, BM10tw2_TINTLP_zeroCFFs,
      zU, zL, zT, hU, hL, hT, add_zero]

end

end Gep.R.BH

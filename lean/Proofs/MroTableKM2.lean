/-
  Proofs/MroTableKM2.lean — C20 table lemmas: the static check of Model/Mro.lean evaluated by the
  kernel on the generated class table for shipped KM combinations (classes of fits.py), part 2.
-/
import Model.Mro
import Gen.ClassTable

namespace Gep.Mro.Table
open Gep.Mro Gep.Mro.Gen

theorem checks_AFKM12 : checks classTable blocksAFKM12 = true := by decide +kernel
theorem checks_KM15 : checks classTable blocksKM15 = true := by decide +kernel

end Gep.Mro.Table

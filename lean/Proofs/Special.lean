/-
  Proofs/Special.lean — helper lemmas for Props/C16.lean: the two-field complex `Cx ℝ` is ℂ
  (`toC` commutes with every operation the model uses, including the totalised division),
  counters and factorial, and the structure of the `while z.real < 10` loop of dpsi_one.
-/
import Gen.SpecialR
import Mathlib.Data.Complex.Basic
import Mathlib.Data.Nat.Factorial.Basic
import Mathlib.Analysis.SpecialFunctions.Gamma.Basic
import Mathlib.Tactic.Ring
import Mathlib.Tactic.FieldSimp
import Mathlib.Tactic.Linarith
import Mathlib.Tactic.NormNum
import Mathlib.Tactic.Push
import Mathlib.Algebra.BigOperators.Group.Finset.Basic
import Mathlib.Algebra.BigOperators.Intervals

namespace Gep.R
open Gep

/-- the two-field complex number as an element of ℂ -/
def toC (z : Cx ℝ) : ℂ := ⟨z.re, z.im⟩

@[simp] theorem toC_re (z : Cx ℝ) : (toC z).re = z.re := rfl
@[simp] theorem toC_im (z : Cx ℝ) : (toC z).im = z.im := rfl

theorem Cx.ext' {a b : Cx ℝ} (h1 : a.re = b.re) (h2 : a.im = b.im) : a = b := by
  cases a; cases b; simp_all

theorem toC_inj {a b : Cx ℝ} : toC a = toC b ↔ a = b := by
  constructor
  · intro h
    have h1 := congrArg Complex.re h
    have h2 := congrArg Complex.im h
    exact Cx.ext' h1 h2
  · intro h; rw [h]

@[simp] theorem toC_add (a b : Cx ℝ) : toC (a + b) = toC a + toC b := by
  apply Complex.ext <;> simp
@[simp] theorem toC_sub (a b : Cx ℝ) : toC (a - b) = toC a - toC b := by
  apply Complex.ext <;> simp
@[simp] theorem toC_neg (a : Cx ℝ) : toC (-a) = -toC a := by
  apply Complex.ext <;> simp
@[simp] theorem toC_mul (a b : Cx ℝ) : toC (a * b) = toC a * toC b := by
  apply Complex.ext <;> simp
@[simp] theorem toC_div (a b : Cx ℝ) : toC (a / b) = toC a / toC b := by
  apply Complex.ext <;> simp [Complex.div_re, Complex.div_im, Complex.normSq_apply] <;> ring
@[simp] theorem toC_ofReal (x : ℝ) : toC (Cx.ofReal x) = (x : ℂ) := by
  apply Complex.ext <;> simp
@[simp] theorem toC_smul (x : ℝ) (z : Cx ℝ) : toC (Cx.smul x z) = (x : ℂ) * toC z := by
  apply Complex.ext <;> simp
@[simp] theorem toC_divR (x : ℝ) (z : Cx ℝ) : toC (Cx.divR z x) = toC z / (x : ℂ) := by
  apply Complex.ext <;> simp [Complex.div_re, Complex.div_im, Complex.normSq_apply]
  · by_cases hx : x = 0
    · simp [hx]
    · field_simp
  · by_cases hx : x = 0
    · simp [hx]
    · field_simp
@[simp] theorem toC_conj (z : Cx ℝ) : toC (Cx.conj z) = (starRingEnd ℂ) (toC z) := by
  apply Complex.ext <;> simp
@[simp] theorem toC_cone : toC cone = 1 := by apply Complex.ext <;> simp [cone]
@[simp] theorem toC_czero : toC czero = 0 := by apply Complex.ext <;> simp [czero]
@[simp] theorem toC_chalf : toC chalf = 1 / 2 := by
  apply Complex.ext <;> simp [chalf]
@[simp] theorem toC_mk (a b : ℝ) : toC ⟨a, b⟩ = ⟨a, b⟩ := rfl

@[simp] theorem toC_cpow (z : Cx ℝ) (n : ℕ) : toC (cpow z n) = toC z ^ n := by
  induction n with
  | zero => simp [cpow]
  | succ n ih => simp [cpow, ih, pow_succ]

@[simp] theorem natK_eq (n : ℕ) : natK n = (n : ℝ) := by
  induction n with
  | zero => simp [natK]
  | succ n ih => simp [natK, ih]

@[simp] theorem factK_eq (n : ℕ) : factK n = (n.factorial : ℝ) := by
  induction n with
  | zero => simp [factK]
  | succ n ih => simp [factK, ih, Nat.factorial_succ]; ring

/-! ### Res -/

@[simp] theorem Res.map_ok {α β : Type} (g : α → β) (v : α) : Res.map g (.ok v) = .ok (g v) := rfl
@[simp] theorem Res.map_zeroDivision {α β : Type} (g : α → β) :
    Res.map g (.zeroDivision : Res α) = .zeroDivision := rfl
@[simp] theorem Res.map_fuel {α β : Type} (g : α → β) : Res.map g (.fuel : Res α) = .fuel := rfl
@[simp] theorem Res.bind_ok {α β : Type} (g : α → Res β) (v : α) : Res.bind (.ok v) g = g v := rfl
@[simp] theorem Res.bind_zeroDivision {α β : Type} (g : α → Res β) :
    Res.bind (.zeroDivision : Res α) g = .zeroDivision := rfl
@[simp] theorem Res.bind_fuel {α β : Type} (g : α → Res β) : Res.bind (.fuel : Res α) g = .fuel := rfl

theorem Res.map_map {α β γ : Type} (g : α → β) (h : β → γ) (r : Res α) :
    Res.map h (Res.map g r) = Res.map (fun x => h (g x)) r := by
  cases r <;> rfl

/-! ### small Cx identities -/

theorem Cx.add_czero (s : Cx ℝ) : s + czero = s := by apply Cx.ext' <;> simp [czero]
theorem Cx.czero_add (s : Cx ℝ) : czero + s = s := by apply Cx.ext' <;> simp [czero]
theorem Cx.add_assoc' (a b c : Cx ℝ) : a + b + c = a + (b + c) := by
  apply Cx.ext' <;> simp <;> ring
theorem Cx.sub_add_cone (z : Cx ℝ) : z - cone + cone = z := by apply Cx.ext' <;> simp [cone]

/-! ### the `while z.real < 10` loop -/

/-- no point z, z+1, z+2, … is the origin (where `-1/z` raises) -/
def NoPole (z : Cx ℝ) : Prop := ∀ k : ℕ, ¬ (z.re + k = 0 ∧ z.im = 0)

theorem NoPole.succ {z : Cx ℝ} (h : NoPole z) : NoPole (z + cone) := by
  intro k hk
  apply h (k + 1)
  obtain ⟨h1, h2⟩ := hk
  simp [cone] at h1 h2
  refine ⟨?_, h2⟩
  push_cast
  linarith

theorem NoPole.not_zero {z : Cx ℝ} (h : NoPole z) :
    ¬ ((z.re ≤ 0 ∧ 0 ≤ z.re) ∧ (z.im ≤ 0 ∧ 0 ≤ z.im)) := by
  rintro ⟨⟨a, b⟩, ⟨c, d⟩⟩
  apply h 0
  simp
  exact ⟨le_antisymm a b, le_antisymm c d⟩

/-- the accumulator only adds: the loop started with `sub = s` equals the loop started with 0, plus s -/
theorem shiftLoop_acc (m : ℕ) (f : ℕ) (z s : Cx ℝ) :
    shiftLoop m f z s = (shiftLoop m f z czero).map (fun p => (p.1, s + p.2)) := by
  induction f generalizing z s with
  | zero =>
    unfold shiftLoop
    split <;> simp [Cx.add_czero]
  | succ f ih =>
    unfold shiftLoop
    split
    · split
      · rfl
      · rw [ih (z + cone) (s + subterm m z), ih (z + cone) (czero + subterm m z), Res.map_map]
        congr 1
        funext p
        simp only [Cx.czero_add, Cx.add_assoc']
    · simp [Cx.add_czero]

/-- more fuel does not change a finished loop -/
theorem shiftLoop_mono (m : ℕ) (f : ℕ) (z s : Cx ℝ) (r : Cx ℝ × Cx ℝ)
    (h : shiftLoop m f z s = .ok r) : shiftLoop m (f + 1) z s = .ok r := by
  induction f generalizing z s with
  | zero =>
    unfold shiftLoop at h ⊢
    split at h
    · cases h
    · rename_i hz; simp [hz]; simpa using h
  | succ f ih =>
    unfold shiftLoop at h
    rw [shiftLoop]
    split at h
    · rename_i hz
      simp only [hz, if_true]
      split at h
      · cases h
      · rename_i h0
        simp only [h0, if_false]
        exact ih _ _ h
    · rename_i hz
      simp only [hz, if_false]
      exact h

/-- with `10 − Re z ≤ fuel` and no pole on the way the loop finishes -/
theorem shiftLoop_ok (m : ℕ) (f : ℕ) (z s : Cx ℝ) (hf : 10 ≤ z.re + f) (hp : NoPole z) :
    ∃ r, shiftLoop m f z s = .ok r := by
  induction f generalizing z s with
  | zero =>
    unfold shiftLoop
    have : ¬ z.re < 10 := by simp at hf; linarith
    simp [this]
  | succ f ih =>
    rw [shiftLoop]
    by_cases hz : z.re < 10
    · simp only [hz, if_true, hp.not_zero, if_false]
      apply ih _ _ _ hp.succ
      simp [cone]
      push_cast at hf
      linarith
    · simp [hz]

/-! ### dpsi_one -/

theorem subterm_toC (m : ℕ) (z : Cx ℝ) :
    toC (subterm m z) = (-1 / toC z) ^ (m + 1) * (m.factorial : ℂ) := by
  simp [subterm]; ring

/-- one pass of the loop: dpsi at z is the shift term plus dpsi at z+1 (one unit of fuel less) -/
theorem dpsiOne_shift (f m : ℕ) (z : Cx ℝ) (hi : z.im < 10) (hr : z.re < 10)
    (h0 : ¬ ((z.re ≤ 0 ∧ 0 ≤ z.re) ∧ (z.im ≤ 0 ∧ 0 ≤ z.im))) :
    dpsiOne (f + 1) z m = (dpsiOne f (z + cone) m).map (fun v => subterm m z + v) := by
  have hi' : (z + cone).im < 10 := by simpa [cone] using hi
  unfold dpsiOne
  simp only [hi, hi', if_true]
  rw [shiftLoop]
  simp only [hr, if_true, h0, if_false]
  rw [shiftLoop_acc, Res.map_map, Res.map_map]
  congr 1
  funext p
  simp only [Cx.czero_add, Cx.add_assoc']

theorem dpsiOne_mono (f m : ℕ) (z v : Cx ℝ) (h : dpsiOne f z m = .ok v) :
    dpsiOne (f + 1) z m = .ok v := by
  unfold dpsiOne at h ⊢
  by_cases hi : z.im < 10
  · simp only [hi, if_true] at h ⊢
    cases hr : shiftLoop m f z czero with
    | ok r => rw [shiftLoop_mono m f z czero r hr]; rw [hr] at h; exact h
    | zeroDivision => rw [hr] at h; cases h
    | fuel => rw [hr] at h; cases h
  · simp only [hi, if_false] at h ⊢
    exact h

theorem dpsiOne_ok (f m : ℕ) (z : Cx ℝ) (hf : 10 ≤ z.re + f) (hp : NoPole z) :
    ∃ v, dpsiOne f z m = .ok v := by
  unfold dpsiOne
  by_cases hi : z.im < 10
  · obtain ⟨r, hr⟩ := shiftLoop_ok m f z czero hf hp
    simp [hi, hr]
  · simp [hi]

/-- where no shift is applied the result is the series at z itself (`sub = 0j`) -/
theorem dpsiOne_series (f m : ℕ) (z : Cx ℝ) (h : 10 ≤ z.im ∨ 10 ≤ z.re) :
    dpsiOne f z m = .ok (czero + asym m z) := by
  unfold dpsiOne
  by_cases hi : z.im < 10
  · have hr : ¬ z.re < 10 := by
      rcases h with h | h
      · exact absurd hi (not_lt.mpr h)
      · exact not_lt.mpr h
    cases f with
    | zero => simp [hi, shiftLoop, hr]
    | succ f => simp [hi, shiftLoop, hr]
  · simp [hi]

/-- the recurrence of the algorithm, existence form -/
theorem dpsiOne_rec (f m : ℕ) (z : Cx ℝ) (hi : z.im < 10) (hr : z.re < 10) (hf : 10 ≤ z.re + f)
    (hp : NoPole z) :
    ∃ v, dpsiOne f (z + cone) m = .ok v ∧ dpsiOne f z m = .ok (subterm m z + v) := by
  cases f with
  | zero => simp at hf; linarith
  | succ g =>
    have hg : 10 ≤ (z + cone).re + g := by
      simp [cone]; push_cast at hf; linarith
    obtain ⟨v, hv⟩ := dpsiOne_ok g m (z + cone) hg hp.succ
    refine ⟨v, dpsiOne_mono g m _ v hv, ?_⟩
    rw [dpsiOne_shift g m z hi hr hp.not_zero, hv]
    rfl

/-! ### naturals as arguments -/

def cxNat (n : ℕ) : Cx ℝ := ⟨(n : ℝ), 0⟩

@[simp] theorem toC_cxNat (n : ℕ) : toC (cxNat n) = (n : ℂ) := by
  apply Complex.ext <;> simp [cxNat]
@[simp] theorem cxNat_re (n : ℕ) : (cxNat n).re = n := rfl
@[simp] theorem cxNat_im (n : ℕ) : (cxNat n).im = 0 := rfl

theorem cxNat_succ_sub (n : ℕ) : cxNat (n + 1) - cone = cxNat n := by
  apply Cx.ext' <;> simp [cone]
theorem cxNat_succ (n : ℕ) : cxNat n + cone = cxNat (n + 1) := by
  apply Cx.ext' <;> simp [cone]

theorem cxNat_noPole (n : ℕ) (hn : 1 ≤ n) : NoPole (cxNat n) := by
  intro k hk
  have h1 := hk.1
  simp at h1
  have : (0:ℝ) < (n:ℝ) + (k:ℝ) := by
    have : (1:ℝ) ≤ (n:ℝ) := by exact_mod_cast hn
    have : (0:ℝ) ≤ (k:ℝ) := Nat.cast_nonneg k
    linarith
  linarith

/-- a function with the unit recurrence on 1..N is the finite sum there -/
theorem nat_sum_of_rec (S : Cx ℝ → Res (Cx ℝ)) (k N : ℕ)
    (h0 : ∃ a0, S (cxNat 0) = .ok a0)
    (hrec : ∀ n : ℕ, n + 1 ≤ N → ∃ a b, S (cxNat (n + 1)) = .ok a ∧
        S (cxNat (n + 1) - cone) = .ok b ∧ toC a - toC b = 1 / (toC (cxNat (n + 1))) ^ k) :
    ∀ n ≤ N, ∃ a a0, S (cxNat n) = .ok a ∧ S (cxNat 0) = .ok a0 ∧
      toC a = toC a0 + ∑ i ∈ Finset.range n, 1 / (((i + 1 : ℕ) : ℂ)) ^ k := by
  intro n
  induction n with
  | zero =>
    intro _
    obtain ⟨a0, h⟩ := h0
    exact ⟨a0, a0, h, h, by simp⟩
  | succ n ih =>
    intro hn
    obtain ⟨a', a0, h1, h2, h3⟩ := ih (by omega)
    obtain ⟨a, b, ha, hb, hab⟩ := hrec n hn
    rw [cxNat_succ_sub, h1] at hb
    cases hb
    refine ⟨a, a0, ha, h2, ?_⟩
    rw [Finset.sum_range_succ, ← add_assoc, ← h3]
    rw [toC_cxNat] at hab
    rw [← hab]; ring

/-! ### pochhammer -/

theorem pochLoop_prod (z : Cx ℝ) (n j : ℕ) (p : Cx ℝ) :
    toC (pochLoop z n (j : ℝ) p) =
      toC p * ∏ i ∈ Finset.range n, (toC z + ((j + i : ℕ) : ℂ)) := by
  induction n generalizing j p with
  | zero => simp [pochLoop]
  | succ n ih =>
    have hj : (j : ℝ) + 1 = ((j + 1 : ℕ) : ℝ) := by push_cast; ring
    rw [pochLoop, hj, ih (j + 1), Finset.prod_range_succ']
    simp only [toC_mul, toC_add, toC_ofReal, add_zero]
    have : ∀ i : ℕ, ((j + 1 + i : ℕ) : ℂ) = ((j + (i + 1) : ℕ) : ℂ) := by
      intro i; congr 1; omega
    simp only [this]
    push_cast
    ring

theorem zipWith_map_map (zs : List (Cx ℝ)) (P Q : Cx ℝ → Cx ℝ) :
    List.zipWith (fun p w => p * w) (zs.map P) (zs.map Q) = zs.map (fun z => P z * Q z) := by
  induction zs with
  | nil => rfl
  | cons a as ih => simp [ih]

theorem pochLoopA_map (zs : List (Cx ℝ)) (n : ℕ) (k : ℝ) (P : Cx ℝ → Cx ℝ) :
    pochLoopA zs n k (zs.map P) = zs.map (fun z => pochLoop z n k (P z)) := by
  induction n generalizing k P with
  | zero => simp [pochLoopA, pochLoop]
  | succ n ih =>
    rw [pochLoopA, zipWith_map_map, ih]
    simp [pochLoop]

/-! ### MellinF2: the loop as a finite sum -/

/-- one summand of MellinF2 in ℂ: `a·((n−1)(ζ2/q − S/q²) + S/q)` with S = ps + γ -/
noncomputable def mellinTerm (E : Ext) (w ps q : ℂ) (a : ℝ) : ℂ :=
  (a : ℂ) * ((w - 1) * ((E.zeta2 : ℂ) / q - (ps + (E.egamma : ℂ)) / (q * q)) + (ps + (E.egamma : ℂ)) / q)

theorem mellin_fold (E : Ext) (n : Cx ℝ) (as : List ℝ) (s : MF) (j : ℕ) (hk : s.k = (j : ℝ) + 1) :
    toC (as.foldl (mellinStep E n) s).mf2 = toC s.mf2 + ∑ i ∈ Finset.range as.length,
      mellinTerm E (toC n)
        (toC s.psitmp + ∑ l ∈ Finset.range (i + 1), 1 / (toC n + ((j + l : ℕ) : ℂ)))
        (toC n + ((j + i : ℕ) : ℂ)) (as.getD i 0) := by
  induction as generalizing s j with
  | nil => simp
  | cons a rest ih =>
    have hd : toC (n + Cx.ofReal s.k - cone) = toC n + (j : ℂ) := by
      simp [hk]; ring
    have hk' : (mellinStep E n s a).k = ((j + 1 : ℕ) : ℝ) + 1 := by
      simp [mellinStep, hk]
    have hps : toC (mellinStep E n s a).psitmp = toC s.psitmp + 1 / (toC n + (j : ℂ)) := by
      simp only [mellinStep, toC_add, toC_div, hd, toC_cone]
    have hmf : toC (mellinStep E n s a).mf2 = toC s.mf2 +
        mellinTerm E (toC n) (toC s.psitmp + 1 / (toC n + (j : ℂ))) (toC n + (j : ℂ)) a := by
      simp only [mellinStep, mellinTerm, toC_add, toC_smul, toC_mul, toC_sub, toC_div, hd, toC_cone,
        toC_ofReal]
    rw [List.foldl_cons, ih (mellinStep E n s a) (j + 1) hk', hmf, hps, List.length_cons,
      Finset.sum_range_succ' _ rest.length, add_assoc]
    congr 1
    rw [add_comm]
    congr 1
    · apply Finset.sum_congr rfl
      intro i _
      have e1 : ((j + 1 + i : ℕ) : ℂ) = ((j + (i + 1) : ℕ) : ℂ) := by congr 1; omega
      rw [Finset.sum_range_succ' _ (i + 1)]
      simp only [List.getD_cons_succ, e1, Nat.add_zero]
      congr 1
      rw [add_assoc]
      congr 1
      rw [add_comm]
      congr 1
      apply Finset.sum_congr rfl
      intro l _
      have e2 : ((j + 1 + l : ℕ) : ℂ) = ((j + (l + 1) : ℕ) : ℂ) := by congr 1; omega
      rw [e2]
    · simp

/-! ### complex conjugation -/

theorem Cx.conj_add (a b : Cx ℝ) : Cx.conj (a + b) = Cx.conj a + Cx.conj b := by
  apply Cx.ext' <;> simp; ring
theorem Cx.conj_cone : Cx.conj cone = cone := by apply Cx.ext' <;> simp [cone]
theorem Cx.conj_czero : Cx.conj czero = czero := by apply Cx.ext' <;> simp [czero]

theorem subterm_conj (m : ℕ) (z : Cx ℝ) : subterm m (Cx.conj z) = Cx.conj (subterm m z) := by
  rw [← toC_inj]
  simp [subterm_toC, map_pow, map_div₀]

theorem asym_conj (m : ℕ) (z : Cx ℝ) : asym m (Cx.conj z) = Cx.conj (asym m z) := by
  rw [← toC_inj]
  simp [asym, map_pow]

theorem shiftLoop_conj (m f : ℕ) (z s : Cx ℝ) :
    shiftLoop m f (Cx.conj z) (Cx.conj s) =
      (shiftLoop m f z s).map (fun p => (Cx.conj p.1, Cx.conj p.2)) := by
  induction f generalizing z s with
  | zero =>
    by_cases hr : z.re < 10 <;> simp [shiftLoop, hr]
  | succ f ih =>
    have hz : (((Cx.conj z).re ≤ 0 ∧ 0 ≤ (Cx.conj z).re) ∧ ((Cx.conj z).im ≤ 0 ∧ 0 ≤ (Cx.conj z).im)) ↔
        ((z.re ≤ 0 ∧ 0 ≤ z.re) ∧ (z.im ≤ 0 ∧ 0 ≤ z.im)) := by
      simp only [Cx.conj_re, Cx.conj_im]
      constructor <;> rintro ⟨h1, h2, h3⟩ <;> exact ⟨h1, by linarith, by linarith⟩
    have e1 : Cx.conj z + cone = Cx.conj (z + cone) := by rw [Cx.conj_add, Cx.conj_cone]
    have e2 : Cx.conj s + subterm m (Cx.conj z) = Cx.conj (s + subterm m z) := by
      rw [Cx.conj_add, subterm_conj]
    rw [shiftLoop, shiftLoop]
    by_cases hr : z.re < 10
    · have hr' : (Cx.conj z).re < 10 := hr
      rw [if_pos hr', if_pos hr]
      by_cases h0 : ((z.re ≤ 0 ∧ 0 ≤ z.re) ∧ (z.im ≤ 0 ∧ 0 ≤ z.im))
      · rw [if_pos h0, if_pos (hz.mpr h0)]; rfl
      · rw [if_neg h0, if_neg (fun h => h0 (hz.mp h)), e1, e2, ih]
    · have hr' : ¬ (Cx.conj z).re < 10 := hr
      rw [if_neg hr', if_neg hr]; rfl

/-- conjugation commutes with dpsi_one wherever z and z̄ take the same branch -/
theorem dpsiOne_conj (f m : ℕ) (z : Cx ℝ) (h : (-10 < z.im ∧ z.im < 10) ∨ 10 ≤ z.re) :
    dpsiOne f (Cx.conj z) m = (dpsiOne f z m).map Cx.conj := by
  rcases h with ⟨h1, h2⟩ | h
  · have h3 : (Cx.conj z).im < 10 := by simp; linarith
    have e : shiftLoop m f (Cx.conj z) czero = shiftLoop m f (Cx.conj z) (Cx.conj czero) := by
      rw [Cx.conj_czero]
    unfold dpsiOne
    simp only [h2, h3, if_true]
    rw [e, shiftLoop_conj, Res.map_map, Res.map_map]
    congr 1
    funext p
    simp only [asym_conj, Cx.conj_add]
  · have h' : 10 ≤ (Cx.conj z).re := by simpa using h
    rw [dpsiOne_series f m z (Or.inr h), dpsiOne_series f m _ (Or.inr h')]
    simp only [Res.map_ok, asym_conj, Cx.conj_add, Cx.conj_czero]

/-! ### what the theorems assume about the external psi; Γ at shifted arguments -/

/-- psi is a parameter of the model; the only thing the S1 theorems assume about it -/
def PsiRec (E : Ext) : Prop :=
  ∀ w : Cx ℝ, (∀ k : ℕ, toC w ≠ -(k : ℂ)) → toC (E.psi (w + cone)) = toC (E.psi w) + 1 / toC w


/-- psi is external: what the S1 statement assumes -/
def PsiConj (E : Ext) : Prop := ∀ w : Cx ℝ, E.psi (Cx.conj w) = Cx.conj (E.psi w)


/-- Γ(s+n) = Γ(s) ∏_{k<n}(s+k) away from the poles, from `Complex.Gamma_add_one` -/
theorem Gamma_add_nat (s : ℂ) (hs : ∀ k : ℕ, s ≠ -(k : ℂ)) (n : ℕ) :
    Complex.Gamma (s + n) = Complex.Gamma s * ∏ k ∈ Finset.range n, (s + (k : ℂ)) := by
  induction n with
  | zero => simp
  | succ n ih =>
    have hne : s + n ≠ 0 := fun h => hs n (eq_neg_of_add_eq_zero_left h)
    rw [Finset.prod_range_succ, ← mul_assoc, ← ih]
    push_cast
    rw [← add_assoc, Complex.Gamma_add_one _ hne]
    ring


/-- ψ(n+m) = ψ(n) + Σ_{l<m} 1/(n+l) from the assumed recurrence of the external psi -/
theorem psi_add_nat (E : Ext) (hψ : PsiRec E) (n : Cx ℝ) (hn : ∀ k : ℕ, toC n ≠ -(k : ℂ)) (m : ℕ) :
    toC (E.psi ⟨n.re + m, n.im⟩) = toC (E.psi n) + ∑ l ∈ Finset.range m, 1 / (toC n + (l : ℂ)) := by
  induction m with
  | zero =>
    have : (⟨n.re + (0 : ℕ), n.im⟩ : Cx ℝ) = n := by apply Cx.ext' <;> simp
    rw [this]; simp
  | succ m ih =>
    have e : (⟨n.re + (m + 1 : ℕ), n.im⟩ : Cx ℝ) = ⟨n.re + m, n.im⟩ + cone := by
      apply Cx.ext' <;> simp [cone]; ring
    have hw : toC (⟨n.re + m, n.im⟩ : Cx ℝ) = toC n + (m : ℂ) := by
      apply Complex.ext <;> simp
    have hm : ∀ k : ℕ, toC (⟨n.re + m, n.im⟩ : Cx ℝ) ≠ -(k : ℂ) := by
      intro k h
      apply hn (m + k)
      rw [hw] at h
      push_cast
      rw [eq_neg_iff_add_eq_zero] at h ⊢
      rw [← h]; ring
    rw [e, hψ _ hm, ih, hw, Finset.sum_range_succ, add_assoc]


end Gep.R

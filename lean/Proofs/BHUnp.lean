/-
  Proofs/BHUnp.lean — helper lemmas for C01, unpolarised target: the generated BMK.TBH2unp (PreFacBH · (c0 + c1 cos φ +
  c2 cos 2φ), BMK Eqs. 25, 35–37) equals the trace-reduced reference Gen/BHRefR.lean (`BHRef.unp`), proved per tensor
  structure (FE2 = F1² − tF2²/4M², FM2 = (F1+F2)²) with the propagator powers cleared, then assembled.
-/
import Proofs.BHKin
import Gen.BHRefR

set_option linter.unusedSimpArgs false
set_option linter.unusedVariables false

namespace Gep.R.BH
open Gep.R

noncomputable section

/-- BMK Eqs. (35)–(37) summed with the harmonics, `kap` = K cos φ, as a linear function of (FE2, FM2) -/
def codeUnp (xB Q2 t y e M2 K2 kap FE2 FM2 : ℝ) : ℝ :=
  8 * K2 * ((2 + 3 * e) * (Q2 / t) * FE2 + 2 * xB ^ 2 * FM2) +
  (2 - y) ^ 2 * ((2 + e) * ((4 * xB ^ 2 * M2 / t) * (1 + t / Q2) ^ 2 + 4 * (1 - xB) * (1 + xB * t / Q2)) * FE2 +
      4 * xB ^ 2 * (xB + (1 - xB + e / 2) * (1 - t / Q2) ^ 2 - xB * (1 - 2 * xB) * t ^ 2 / Q2 ^ 2) * FM2) +
  8 * (1 + e) * (1 - y - e * y ^ 2 / 4) * (2 * e * (1 - t / (4 * M2)) * FE2 - xB ^ 2 * (1 - t / Q2) ^ 2 * FM2) +
  8 * kap * (2 - y) * ((4 * xB ^ 2 * M2 / t - 2 * xB - e) * FE2 + 2 * xB ^ 2 * (1 - (1 - 2 * xB) * t / Q2) * FM2) +
  8 * xB ^ 2 * (4 * M2 / t * FE2 + 2 * FM2) * (2 * kap ^ 2 - K2)

set_option maxRecDepth 20000 in
theorem unp_core_M (xB Q2 t y e P1 : ℝ) (hx : xB ≠ 0) (hQ : Q2 ≠ 0) (ht : t ≠ 0) (hy : y ≠ 0) (he : e ≠ 0) :
    let M2 := e * Q2 / (4 * xB ^ 2)
    let P2 := 1 + t / Q2 - P1
    let kap := -(y * (1 + e) * P1 + Jr Q2 xB t y e) / 2
    let a := Q2 / 2
    let d := Q2 * (P1 - 1) / 2
    let u := Q2 / (xB * y) + d
    let up := u - Q2 / xB - (t - Q2) / 2
    (BHRef.unpMg_AA a d u up t M2 * P1 ^ 2 + BHRef.unpMg_BB a d u up t M2 * P2 ^ 2 + BHRef.unpMg_AB a d u up t M2 * (P1 * P2)) *
        (xB ^ 2 * y ^ 2 * (1 + e) ^ 2) =
      codeUnp xB Q2 t y e M2 (K2rat Q2 xB t y e) kap 0 1 * (t * Q2 ^ 2 * (P1 * P2)) := by
  intro M2 P2 kap a d u up
  simp only [BHRef.unpMg_AA, BHRef.unpMg_BB, BHRef.unpMg_AB, codeUnp, K2rat, Jr, M2, P2, kap, a, d, u, up]
  field_simp
  ring
set_option maxRecDepth 20000 in
theorem unp_core_E (xB Q2 t y e P1 : ℝ) (hx : xB ≠ 0) (hQ : Q2 ≠ 0) (ht : t ≠ 0) (hy : y ≠ 0) (he : e ≠ 0) :
    let M2 := e * Q2 / (4 * xB ^ 2)
    let P2 := 1 + t / Q2 - P1
    let kap := -(y * (1 + e) * P1 + Jr Q2 xB t y e) / 2
    let a := Q2 / 2
    let d := Q2 * (P1 - 1) / 2
    let u := Q2 / (xB * y) + d
    let up := u - Q2 / xB - (t - Q2) / 2
    (BHRef.unpE_AA a d u up t M2 * P1 ^ 2 + BHRef.unpE_BB a d u up t M2 * P2 ^ 2 + BHRef.unpE_AB a d u up t M2 * (P1 * P2)) *
        (xB ^ 2 * y ^ 2 * (1 + e) ^ 2) =
      codeUnp xB Q2 t y e M2 (K2rat Q2 xB t y e) kap 1 0 * (t * Q2 ^ 2 * (P1 * P2)) := by
  intro M2 P2 kap a d u up
  simp only [BHRef.unpE_AA, BHRef.unpE_BB, BHRef.unpE_AB, codeUnp, K2rat, Jr, M2, P2, kap, a, d, u, up]
  field_simp
  ring

theorem codeUnp_linear (xB Q2 t y e M2 K2 kap FE2 FM2 : ℝ) :
    codeUnp xB Q2 t y e M2 K2 kap FE2 FM2 =
      FE2 * codeUnp xB Q2 t y e M2 K2 kap 1 0 + FM2 * codeUnp xB Q2 t y e M2 K2 kap 0 1 := by
  unfold codeUnp; ring

theorem unp_real (xB Q2 t y e P1 F1 F2 : ℝ) (hx : xB ≠ 0) (hQ : Q2 ≠ 0) (ht : t ≠ 0) (hy : y ≠ 0) (he : e ≠ 0)
    (he1 : 1 + e ≠ 0) (hP1 : P1 ≠ 0) (hP2 : 1 + t / Q2 - P1 ≠ 0) :
    let M2 := e * Q2 / (4 * xB ^ 2)
    let P2 := 1 + t / Q2 - P1
    let kap := -(y * (1 + e) * P1 + Jr Q2 xB t y e) / 2
    let a := Q2 / 2
    let d := Q2 * (P1 - 1) / 2
    let u := Q2 / (xB * y) + d
    let up := u - Q2 / xB - (t - Q2) / 2
    BHRef.unp a d u up t M2 F1 F2 =
      codeUnp xB Q2 t y e M2 (K2rat Q2 xB t y e) kap (F1 ^ 2 - t * F2 ^ 2 / (4 * M2)) ((F1 + F2) ^ 2) /
        (xB ^ 2 * y ^ 2 * (1 + e) ^ 2 * t * (P1 * P2)) := by
  intro M2 P2 kap a d u up
  have hE := unp_core_E xB Q2 t y e P1 hx hQ ht hy he
  have hM := unp_core_M xB Q2 t y e P1 hx hQ ht hy he
  simp only [] at hE hM
  rw [codeUnp_linear]
  have hia : t - 2 * d = Q2 * P2 := by simp only [d, P2]; field_simp; ring
  have hib : 2 * a + 2 * d = Q2 * P1 := by simp only [d, a]; ring
  simp only [BHRef.unp, BHRef.unpE, BHRef.unpMg, BHRef.ia, BHRef.ib, hia, hib]
  change _ = _ at hE
  generalize BHRef.unpE_AA a d u up t M2 = eAA at hE ⊢
  generalize BHRef.unpE_BB a d u up t M2 = eBB at hE ⊢
  generalize BHRef.unpE_AB a d u up t M2 = eAB at hE ⊢
  generalize BHRef.unpMg_AA a d u up t M2 = mAA at hM ⊢
  generalize BHRef.unpMg_BB a d u up t M2 = mBB at hM ⊢
  generalize BHRef.unpMg_AB a d u up t M2 = mAB at hM ⊢
  generalize codeUnp xB Q2 t y e M2 (K2rat Q2 xB t y e) kap 1 0 = cE at hE ⊢
  generalize codeUnp xB Q2 t y e M2 (K2rat Q2 xB t y e) kap 0 1 = cM at hM ⊢
  generalize F1 ^ 2 - t * F2 ^ 2 / (4 * M2) = FE2
  generalize (F1 + F2) ^ 2 = FM2
  have hP2' : P2 ≠ 0 := hP2
  have hP2def : 1 + t / Q2 - P1 = P2 := rfl
  simp only [hP2def] at hE hM
  clear_value P2
  field_simp
  linear_combination FE2 * hE + FM2 * hM

/-! ### dot products of the frame vectors in terms of the invariants -/

theorem Frame.dot_k_k' (f : Frame) : f.k.dot f.k' = (f.k.sq + f.k'.sq - f.q.sq) / 2 := by
  simp only [Frame.k, Frame.k', Frame.q, V4.sq, V4.dot, V4.sub]; ring
theorem Frame.dot_k_P (f : Frame) : f.k.dot f.P = 2 * f.k.dot f.p1 + f.k.dot f.Δ := by
  simp only [Frame.k, Frame.P, Frame.p1, Frame.p2, Frame.Δ, V4.dot, V4.sub, V4.add]; ring
theorem Frame.dot_k'_P (f : Frame) :
    f.k'.dot f.P = f.k.dot f.P - 2 * f.q.dot f.p1 - (f.q.sq + f.Δ.sq - f.q2.sq) / 2 := by
  simp only [Frame.k, Frame.k', Frame.q, Frame.q2, Frame.P, Frame.p1, Frame.p2, Frame.Δ, V4.sq, V4.dot, V4.sub, V4.add]; ring

theorem frame_dots {M xB Q2 t y r sl pT cphi sphi : ℝ} (h : Phys M xB Q2 t y r sl pT cphi sphi) :
    let f := frameOf M xB Q2 t y r sl pT cphi sphi
    f.k.dot f.k' = Q2 / 2 ∧ f.k.dot f.Δ = Q2 * (f.P1 Q2 - 1) / 2 ∧
      f.k.dot f.P = Q2 / (xB * y) + f.k.dot f.Δ ∧ f.k'.dot f.P = f.k.dot f.P - Q2 / xB - (t - Q2) / 2 := by
  intro f
  obtain ⟨hk, hk', hq, -, -, hΔ, hq2, -, -⟩ := frame_invariants M xB Q2 t y r sl pT cphi sphi h.hM.ne' h.hx.ne'
    h.hQ.ne' h.hy.ne' h.hr.ne' h.hr2 h.hsl h.hpT h.hcs
  have hM := h.hM.ne'; have hx := h.hx.ne'; have hQ := h.hQ.ne'; have hy := h.hy.ne'
  refine ⟨?_, ?_, ?_, ?_⟩
  · rw [Frame.dot_k_k', hk, hk', hq]; ring
  · rw [P1_eq_kΔ f Q2 hQ hk' hq hq2]; field_simp; ring
  · rw [Frame.dot_k_P]
    have : f.k.dot f.p1 = Q2 / (2 * xB * y) := by
      simp only [f, frameOf, Frame.k, Frame.p1, V4.dot, mul_zero, sub_zero]; field_simp
    rw [this]; field_simp
  · rw [Frame.dot_k'_P, hq, hΔ, hq2]
    have : f.q.dot f.p1 = Q2 / (2 * xB) := by
      simp only [f, frameOf, Frame.q, Frame.p1, V4.dot, mul_zero, sub_zero]; field_simp
    rw [this]; field_simp; ring

/-! ### the generated code in the `codeUnp` form -/

theorem TBH2unp_code (c : Consts) (m : CFFs) (pt : Pt) (hK : pt.K_ ^ 2 = pt.K2) :
    BMK.TBH2unp c m pt =
      codeUnp pt.xB pt.Q2 pt.t pt.y pt.eps2 c.Mp2 pt.K2 (pt.K_ * kcos pt.phi)
          (m.F1 ^ 2 - pt.t * m.F2 ^ 2 / (4 * c.Mp2)) ((m.F1 + m.F2) ^ 2) /
        (pt.xB ^ 2 * pt.y ^ 2 * (1 + pt.eps2) ^ 2 * pt.t * pt.P1P2) := by
  have hc : kcos (2 * pt.phi) = 2 * kcos pt.phi ^ 2 - 1 := by unfold kcos; exact Real.cos_two_mul _
  have hc' : kcos (pt.phi * 2) = 2 * kcos pt.phi ^ 2 - 1 := by rw [mul_comm]; exact hc   -- `cos(phi*2)` in the code
  bridge_simp [BMK.TBH2unp, BMK.PreFacBH, BMK.cBH0unp, BMK.cBH1unp, BMK.cBH2unp, codeUnp, hc, hc', ← hK, one_mul]

/-- unpolarised Bethe–Heitler: generated code = trace-reduced reference evaluated on the frame's four-vectors -/
theorem TBH2unp_eq_ref (c : Consts) (m : CFFs) (pt : Pt) {M r sl pT : ℝ}
    (h : Phys M pt.xB pt.Q2 pt.t pt.y r sl pT (kcos pt.phi) (ksin pt.phi))
    (hM2 : c.Mp2 = M ^ 2) (he : pt.eps2 = 4 * pt.xB ^ 2 * M ^ 2 / pt.Q2)
    (hK2 : pt.K2 = K2 c pt.Q2 pt.xB pt.t pt.y pt.eps2) (hK : pt.K_ = ksqrt pt.K2) (hP : pt.P1P2 = P1P2 c pt)
    (hP1 : (frameOf M pt.xB pt.Q2 pt.t pt.y r sl pT (kcos pt.phi) (ksin pt.phi)).P1 pt.Q2 ≠ 0)
    (hP2 : (frameOf M pt.xB pt.Q2 pt.t pt.y r sl pT (kcos pt.phi) (ksin pt.phi)).P2 pt.Q2 ≠ 0) :
    let f := frameOf M pt.xB pt.Q2 pt.t pt.y r sl pT (kcos pt.phi) (ksin pt.phi)
    BMK.TBH2unp c m pt = BHRef.unp (f.k.dot f.k') (f.k.dot f.Δ) (f.k.dot f.P) (f.k'.dot f.P) pt.t (M ^ 2) m.F1 m.F2 := by
  intro f
  obtain ⟨hd1, hd2, hd3, hd4⟩ := frame_dots h
  have hM := h.hM; have hx := h.hx; have hQ := h.hQ; have hy := h.hy; have ht := h.ht.ne
  have he0 : 0 < pt.eps2 := by rw [he]; positivity
  have hx1' : 1 - pt.xB ≠ 0 := by have := h.hx1; intro h0; linarith
  have hd : pt.xB * (1 - pt.xB) * 4 + pt.eps2 ≠ 0 := by
    have : 0 < pt.xB * (1 - pt.xB) := mul_pos hx (by linarith [h.hx1])
    positivity
  -- K² ≥ 0 and its root-free form
  have hKf := frame_K2 c h
  simp only [] at hKf
  rw [← he] at hKf
  have hK0 : 0 ≤ pt.K2 := by rw [hK2, ← hKf]; positivity
  have hKsq : pt.K_ ^ 2 = pt.K2 := by rw [hK]; exact ksqrt_sq hK0
  have hKrat : pt.K2 = K2rat pt.Q2 pt.xB pt.t pt.y pt.eps2 := by
    rw [hK2, K2_eq, K2rat_core pt.Q2 pt.eps2 pt.xB pt.t pt.y _ hx1' hQ.ne' ht hd]
    rw [ksqrt_sq (by positivity)]; ring
  -- propagators
  have hP1c := frame_P1code c pt h he
  have hPP := frame_P1P2 c pt h he
  simp only [] at hPP
  have hsum : f.P2 pt.Q2 = 1 + pt.t / pt.Q2 - f.P1 pt.Q2 := by
    obtain ⟨hk, hk', hq, -, -, hΔ, hq2, -, -⟩ := frame_invariants M pt.xB pt.Q2 pt.t pt.y r sl pT (kcos pt.phi)
      (ksin pt.phi) hM.ne' hx.ne' hQ.ne' hy.ne' h.hr.ne' h.hr2 h.hsl h.hpT h.hcs
    linear_combination P1_add_P2 f pt.Q2 pt.t hQ.ne' hk hk' hq hΔ hq2
  have hkap : pt.K_ * kcos pt.phi = -(pt.y * (1 + pt.eps2) * f.P1 pt.Q2 + Jr pt.Q2 pt.xB pt.t pt.y pt.eps2) / 2 := by
    rw [hP1c, P1code, ← hK2, ← hK]
    have : Jr pt.Q2 pt.xB pt.t pt.y pt.eps2 = J c pt.Q2 pt.xB pt.t pt.y pt.eps2 := (J_eq c _ _ _ _ _).symm
    rw [this]
    have hye : pt.y * (1 + pt.eps2) ≠ 0 := by positivity
    field_simp
    ring
  have hreal := unp_real pt.xB pt.Q2 pt.t pt.y pt.eps2 (f.P1 pt.Q2) m.F1 m.F2 hx.ne' hQ.ne' ht hy.ne' he0.ne'
    (by positivity) hP1 (by rw [← hsum]; exact hP2)
  simp only [] at hreal
  have hM2' : pt.eps2 * pt.Q2 / (4 * pt.xB ^ 2) = M ^ 2 := by rw [he]; field_simp
  rw [TBH2unp_code c m pt hKsq, hd1, hd2, hd3, hd2, hd4, hd3, hd2, hP, hPP, hsum, hkap, hKrat, hM2, ← hM2']
  exact hreal.symm

end

end Gep.R.BH

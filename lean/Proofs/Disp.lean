/-
  Proofs/Disp.lean — helper lemmas for property C14 (dispersive real parts): antiderivatives of the
  two dispersion kernels, closed forms of the symmetric truncations, change of variables.
-/
import Gen.DispR
import Mathlib.Analysis.SpecialFunctions.Pow.Deriv
import Mathlib.Tactic.NormNum
import Mathlib.Tactic.Positivity
import Mathlib.Analysis.SpecialFunctions.Log.Deriv
import Mathlib.MeasureTheory.Integral.IntervalIntegral.FundThmCalculus
import Mathlib.MeasureTheory.Integral.DominatedConvergence
import Mathlib.MeasureTheory.Function.JacobianOneDim
import Mathlib.Analysis.SpecialFunctions.Integrals.Basic
import Mathlib.Tactic.Ring
import Mathlib.Tactic.FieldSimp
import Mathlib.Tactic.Linarith

open Real Set MeasureTheory Filter Topology

namespace Gep.Disp

theorem hasDerivAt_neg_log_V (ξ x : ℝ) (h : ξ ^ 2 - x ^ 2 ≠ 0) :
    HasDerivAt (fun y : ℝ => -Real.log |ξ ^ 2 - y ^ 2|) (2 * x / (ξ ^ 2 - x ^ 2)) x := by
  simp only [Real.log_abs]
  have h1 : HasDerivAt (fun y : ℝ => ξ ^ 2 - y ^ 2) (-(2 * x)) x := by
    have := (hasDerivAt_pow 2 x).const_sub (ξ ^ 2)
    simpa using this
  have h2 : HasDerivAt (fun y : ℝ => -Real.log (ξ ^ 2 - y ^ 2))
      (-(-(2 * x) / (ξ ^ 2 - x ^ 2))) x := (h1.log h).neg
  convert h2 using 1
  ring

theorem hasDerivAt_log_A (ξ x : ℝ) (h1 : ξ + x ≠ 0) (h2 : ξ - x ≠ 0) :
    HasDerivAt (fun y : ℝ => Real.log |(ξ + y) / (ξ - y)|) (2 * ξ / (ξ ^ 2 - x ^ 2)) x := by
  simp only [Real.log_abs]
  have ha : HasDerivAt (fun y : ℝ => ξ + y) 1 x := (hasDerivAt_id x).const_add ξ
  have hb : HasDerivAt (fun y : ℝ => ξ - y) (-1) x := (hasDerivAt_id x).const_sub ξ
  have hq : HasDerivAt (fun y : ℝ => (ξ + y) / (ξ - y))
      ((1 * (ξ - x) - (ξ + x) * -1) / (ξ - x) ^ 2) x := ha.div hb h2
  have hne : (ξ + x) / (ξ - x) ≠ 0 := div_ne_zero h1 h2
  have hl : HasDerivAt (fun y : ℝ => Real.log ((ξ + y) / (ξ - y)))
      ((1 * (ξ - x) - (ξ + x) * -1) / (ξ - x) ^ 2 / ((ξ + x) / (ξ - x))) x := hq.log hne
  have h3 : ξ ^ 2 - x ^ 2 ≠ 0 := by
    have : ξ ^ 2 - x ^ 2 = (ξ + x) * (ξ - x) := by ring
    rw [this]; exact mul_ne_zero h1 h2
  convert hl using 1
  field_simp
  ring

/-- kernels of the two dispersion integrals -/
noncomputable def kerV (ξ x : ℝ) : ℝ := 2 * x / (ξ ^ 2 - x ^ 2)
noncomputable def kerA (ξ x : ℝ) : ℝ := 2 * ξ / (ξ ^ 2 - x ^ 2)

theorem kerV_continuousOn (ξ : ℝ) (s : Set ℝ) (h : ∀ x ∈ s, ξ ^ 2 - x ^ 2 ≠ 0) :
    ContinuousOn (kerV ξ) s := by
  unfold kerV
  exact ContinuousOn.div (by fun_prop) (by fun_prop) h

theorem kerA_continuousOn (ξ : ℝ) (s : Set ℝ) (h : ∀ x ∈ s, ξ ^ 2 - x ^ 2 ≠ 0) :
    ContinuousOn (kerA ξ) s := by
  unfold kerA
  exact ContinuousOn.div (by fun_prop) (by fun_prop) h

theorem integral_kerV (ξ a b : ℝ) (h : ∀ x ∈ uIcc a b, ξ ^ 2 - x ^ 2 ≠ 0) :
    ∫ x in a..b, kerV ξ x = -Real.log |ξ ^ 2 - b ^ 2| - -Real.log |ξ ^ 2 - a ^ 2| :=
  intervalIntegral.integral_eq_sub_of_hasDerivAt
    (fun x hx => hasDerivAt_neg_log_V ξ x (h x hx))
    ((kerV_continuousOn ξ _ h).intervalIntegrable)

theorem integral_kerA (ξ a b : ℝ) (h : ∀ x ∈ uIcc a b, ξ + x ≠ 0 ∧ ξ - x ≠ 0) :
    ∫ x in a..b, kerA ξ x = Real.log |(ξ + b) / (ξ - b)| - Real.log |(ξ + a) / (ξ - a)| := by
  have h3 : ∀ x ∈ uIcc a b, ξ ^ 2 - x ^ 2 ≠ 0 := by
    intro x hx
    have : ξ ^ 2 - x ^ 2 = (ξ + x) * (ξ - x) := by ring
    rw [this]; exact mul_ne_zero (h x hx).1 (h x hx).2
  exact intervalIntegral.integral_eq_sub_of_hasDerivAt
    (fun x hx => hasDerivAt_log_A ξ x (h x hx).1 (h x hx).2)
    ((kerA_continuousOn ξ _ h3).intervalIntegrable)


/-- symmetric truncation of ∫₀¹ around ξ; its limit ε → 0⁺ is the principal value -/
noncomputable def truncInt (f : ℝ → ℝ) (ξ ε : ℝ) : ℝ :=
  (∫ x in (0:ℝ)..(ξ - ε), f x) + ∫ x in (ξ + ε)..(1:ℝ), f x

theorem lower_ne (ξ ε : ℝ) (hε : 0 < ε) (hξ : ε < ξ) :
    ∀ x ∈ uIcc (0:ℝ) (ξ - ε), ξ + x ≠ 0 ∧ ξ - x ≠ 0 := by
  intro x hx
  rw [uIcc_of_le (by linarith)] at hx
  exact ⟨by linarith [hx.1], by linarith [hx.2]⟩

theorem upper_ne (ξ ε : ℝ) (hε : 0 < ε) (hξ : ε < ξ) (h1 : ξ + ε < 1) :
    ∀ x ∈ uIcc (ξ + ε) (1:ℝ), ξ + x ≠ 0 ∧ ξ - x ≠ 0 := by
  intro x hx
  rw [uIcc_of_le (by linarith)] at hx
  exact ⟨by linarith [hx.1], by linarith [hx.1]⟩

theorem sq_ne_of (ξ : ℝ) (s : Set ℝ) (h : ∀ x ∈ s, ξ + x ≠ 0 ∧ ξ - x ≠ 0) :
    ∀ x ∈ s, ξ ^ 2 - x ^ 2 ≠ 0 := by
  intro x hx
  have : ξ ^ 2 - x ^ 2 = (ξ + x) * (ξ - x) := by ring
  rw [this]; exact mul_ne_zero (h x hx).1 (h x hx).2

theorem truncV_lower (ξ ε : ℝ) (hε : 0 < ε) (hξ : ε < ξ) :
    ∫ x in (0:ℝ)..(ξ - ε), kerV ξ x = Real.log (ξ ^ 2) - Real.log (ε * (2 * ξ - ε)) := by
  rw [integral_kerV ξ 0 (ξ - ε) (sq_ne_of ξ _ (lower_ne ξ ε hε hξ))]
  have e1 : ξ ^ 2 - (ξ - ε) ^ 2 = ε * (2 * ξ - ε) := by ring
  have e2 : ξ ^ 2 - (0:ℝ) ^ 2 = ξ ^ 2 := by ring
  rw [e1, e2, Real.log_abs, Real.log_abs]
  ring

theorem truncV_upper (ξ ε : ℝ) (hε : 0 < ε) (hξ : ε < ξ) (h1 : ξ + ε < 1) :
    ∫ x in (ξ + ε)..(1:ℝ), kerV ξ x = Real.log (ε * (2 * ξ + ε)) - Real.log (1 - ξ ^ 2) := by
  rw [integral_kerV ξ (ξ + ε) 1 (sq_ne_of ξ _ (upper_ne ξ ε hε hξ h1))]
  have e1 : ξ ^ 2 - (ξ + ε) ^ 2 = -(ε * (2 * ξ + ε)) := by ring
  have e2 : ξ ^ 2 - (1:ℝ) ^ 2 = -(1 - ξ ^ 2) := by ring
  rw [e1, e2, Real.log_abs, Real.log_abs, Real.log_neg_eq_log, Real.log_neg_eq_log]
  ring

theorem truncA_lower (ξ ε : ℝ) (hε : 0 < ε) (hξ : ε < ξ) :
    ∫ x in (0:ℝ)..(ξ - ε), kerA ξ x = Real.log ((2 * ξ - ε) / ε) := by
  rw [integral_kerA ξ 0 (ξ - ε) (lower_ne ξ ε hε hξ)]
  have hξ0 : ξ ≠ 0 := by linarith
  have e1 : (ξ + (ξ - ε)) / (ξ - (ξ - ε)) = (2 * ξ - ε) / ε := by ring
  have e2 : (ξ + 0) / (ξ - 0) = 1 := by rw [add_zero, sub_zero]; exact div_self hξ0
  rw [e1, e2, Real.log_abs, Real.log_abs, Real.log_one, sub_zero]

theorem truncA_upper (ξ ε : ℝ) (hε : 0 < ε) (hξ : ε < ξ) (h1 : ξ + ε < 1) :
    ∫ x in (ξ + ε)..(1:ℝ), kerA ξ x =
      Real.log ((1 + ξ) / (1 - ξ)) - Real.log ((2 * ξ + ε) / ε) := by
  rw [integral_kerA ξ (ξ + ε) 1 (upper_ne ξ ε hε hξ h1)]
  have hε0 : ε ≠ 0 := hε.ne'
  have h1ξ : 1 - ξ ≠ 0 := by linarith
  have h1ξ' : ξ - 1 ≠ 0 := by linarith
  have e1 : (ξ + (ξ + ε)) / (ξ - (ξ + ε)) = -((2 * ξ + ε) / ε) := by
    have : ξ - (ξ + ε) = -ε := by ring
    rw [this, div_neg]; ring
  have e2 : (ξ + 1) / (ξ - 1) = -((1 + ξ) / (1 - ξ)) := by field_simp; ring
  rw [e1, e2, Real.log_abs, Real.log_abs, Real.log_neg_eq_log, Real.log_neg_eq_log]


theorem truncInt_kerV (ξ ε : ℝ) (hε : 0 < ε) (hξ : ε < ξ) (h1 : ξ + ε < 1) :
    truncInt (kerV ξ) ξ ε =
      Real.log (ξ ^ 2 / (1 - ξ ^ 2)) + Real.log ((2 * ξ + ε) / (2 * ξ - ε)) := by
  unfold truncInt
  rw [truncV_lower ξ ε hε hξ, truncV_upper ξ ε hε hξ h1]
  have hξ0 : 0 < ξ := by linarith
  have a1 : ξ ^ 2 ≠ 0 := by positivity
  have a2 : 1 - ξ ^ 2 ≠ 0 := by nlinarith
  have a3 : 2 * ξ + ε ≠ 0 := by linarith
  have a4 : 2 * ξ - ε ≠ 0 := by linarith
  rw [Real.log_div a1 a2, Real.log_div a3 a4, Real.log_mul hε.ne' a4, Real.log_mul hε.ne' a3]
  ring

theorem truncInt_kerA (ξ ε : ℝ) (hε : 0 < ε) (hξ : ε < ξ) (h1 : ξ + ε < 1) :
    truncInt (kerA ξ) ξ ε =
      Real.log ((1 + ξ) / (1 - ξ)) - Real.log ((2 * ξ + ε) / (2 * ξ - ε)) := by
  unfold truncInt
  rw [truncA_lower ξ ε hε hξ, truncA_upper ξ ε hε hξ h1]
  have a3 : 2 * ξ + ε ≠ 0 := by linarith
  have a4 : 2 * ξ - ε ≠ 0 := by linarith
  rw [Real.log_div a4 hε.ne', Real.log_div a3 hε.ne', Real.log_div a3 a4]
  ring

/-- the ε-dependent remainder of both truncations vanishes as ε → 0 -/
theorem remainder_tendsto (ξ : ℝ) (hξ : 0 < ξ) :
    Tendsto (fun ε : ℝ => Real.log ((2 * ξ + ε) / (2 * ξ - ε))) (𝓝[>] 0) (𝓝 0) := by
  have hc : ContinuousAt (fun ε : ℝ => Real.log ((2 * ξ + ε) / (2 * ξ - ε))) 0 := by
    have h2 : (2 * ξ - (0:ℝ)) ≠ 0 := by simp; linarith
    have hq : ContinuousAt (fun ε : ℝ => (2 * ξ + ε) / (2 * ξ - ε)) 0 :=
      ContinuousAt.div (by fun_prop) (by fun_prop) h2
    refine hq.log ?_
    simp; linarith
  have h0 : Real.log ((2 * ξ + 0) / (2 * ξ - 0)) = 0 := by
    rw [add_zero, sub_zero, div_self (by linarith), Real.log_one]
  have := hc.tendsto
  rw [h0] at this
  exact tendsto_nhdsWithin_of_tendsto_nhds this

theorem small_eps_mem (ξ : ℝ) (h0 : 0 < ξ) (h1 : ξ < 1) :
    ∀ᶠ ε in 𝓝[>] (0:ℝ), 0 < ε ∧ ε < ξ ∧ ξ + ε < 1 := by
  have : Ioo (0:ℝ) (min ξ (1 - ξ)) ∈ 𝓝[>] (0:ℝ) :=
    Ioo_mem_nhdsGT (lt_min h0 (by linarith))
  filter_upwards [this] with ε hε
  exact ⟨hε.1, lt_of_lt_of_le hε.2 (min_le_left _ _),
    by linarith [lt_of_lt_of_le hε.2 (min_le_right ξ (1 - ξ))]⟩

theorem truncInt_kerV_tendsto (ξ : ℝ) (h0 : 0 < ξ) (h1 : ξ < 1) :
    Tendsto (truncInt (kerV ξ) ξ) (𝓝[>] 0) (𝓝 (Real.log (ξ ^ 2 / (1 - ξ ^ 2)))) := by
  have h := (tendsto_const_nhds (x := Real.log (ξ ^ 2 / (1 - ξ ^ 2)))).add (remainder_tendsto ξ h0)
  rw [add_zero] at h
  refine h.congr' ?_
  filter_upwards [small_eps_mem ξ h0 h1] with ε hε
  exact (truncInt_kerV ξ ε hε.1 hε.2.1 hε.2.2).symm

theorem truncInt_kerA_tendsto (ξ : ℝ) (h0 : 0 < ξ) (h1 : ξ < 1) :
    Tendsto (truncInt (kerA ξ) ξ) (𝓝[>] 0) (𝓝 (Real.log ((1 + ξ) / (1 - ξ)))) := by
  have h := (tendsto_const_nhds (x := Real.log ((1 + ξ) / (1 - ξ)))).sub (remainder_tendsto ξ h0)
  rw [sub_zero] at h
  refine h.congr' ?_
  filter_upwards [small_eps_mem ξ h0 h1] with ε hε
  exact (truncInt_kerA ξ ε hε.1 hε.2.1 hε.2.2).symm


theorem truncInt_subtract (k F : ℝ → ℝ) (ξ ε c : ℝ)
    (hk1 : IntervalIntegrable k volume 0 (ξ - ε)) (hk2 : IntervalIntegrable k volume (ξ + ε) 1)
    (hg1 : IntervalIntegrable (fun x => k x * (F x - c)) volume 0 (ξ - ε))
    (hg2 : IntervalIntegrable (fun x => k x * (F x - c)) volume (ξ + ε) 1) :
    truncInt (fun x => k x * F x) ξ ε =
      truncInt (fun x => k x * (F x - c)) ξ ε + c * truncInt k ξ ε := by
  unfold truncInt
  have e : (fun x => k x * F x) = fun x => k x * (F x - c) + c * k x := by
    funext x; ring
  rw [e, intervalIntegral.integral_add hg1 (hk1.const_mul c),
    intervalIntegral.integral_add hg2 (hk2.const_mul c),
    intervalIntegral.integral_const_mul, intervalIntegral.integral_const_mul]
  ring

/-- the truncation of an integrable function tends to its integral -/
theorem truncInt_tendsto_integral (g : ℝ → ℝ) (ξ : ℝ) (h0 : 0 < ξ) (h1 : ξ < 1)
    (hg : IntervalIntegrable g volume 0 1) :
    Tendsto (truncInt g ξ) (𝓝[>] 0) (𝓝 (∫ x in (0:ℝ)..1, g x)) := by
  have hG : ContinuousOn (fun b => ∫ x in (0:ℝ)..b, g x) (uIcc (0:ℝ) 1) :=
    intervalIntegral.continuousOn_primitive_interval' hg left_mem_uIcc
  rw [uIcc_of_le zero_le_one] at hG
  have hGξ : ContinuousAt (fun b => ∫ x in (0:ℝ)..b, g x) ξ :=
    hG.continuousAt (Icc_mem_nhds h0 h1)
  have hm : Tendsto (fun ε : ℝ => ξ - ε) (𝓝[>] 0) (𝓝 ξ) := by
    have : Tendsto (fun ε : ℝ => ξ - ε) (𝓝 0) (𝓝 (ξ - 0)) := by
      exact (continuous_const.sub continuous_id).tendsto 0
    rw [sub_zero] at this
    exact tendsto_nhdsWithin_of_tendsto_nhds this
  have hp : Tendsto (fun ε : ℝ => ξ + ε) (𝓝[>] 0) (𝓝 ξ) := by
    have : Tendsto (fun ε : ℝ => ξ + ε) (𝓝 0) (𝓝 (ξ + 0)) := by
      exact (continuous_const.add continuous_id).tendsto 0
    rw [add_zero] at this
    exact tendsto_nhdsWithin_of_tendsto_nhds this
  have t1 := hGξ.tendsto.comp hm
  have t2 := hGξ.tendsto.comp hp
  have t3 := t1.add ((tendsto_const_nhds (x := ∫ x in (0:ℝ)..1, g x)).sub t2)
  have e : (∫ x in (0:ℝ)..ξ, g x) + ((∫ x in (0:ℝ)..1, g x) - ∫ x in (0:ℝ)..ξ, g x) =
      ∫ x in (0:ℝ)..1, g x := by ring
  rw [e] at t3
  refine t3.congr' ?_
  filter_upwards [small_eps_mem ξ h0 h1] with ε hε
  unfold truncInt
  have hsub : IntervalIntegrable g volume 0 (ξ + ε) := by
    refine hg.mono_set ?_
    rw [uIcc_of_le (by linarith), uIcc_of_le zero_le_one]
    exact Icc_subset_Icc le_rfl (by linarith)
  simp only [Function.comp]
  rw [intervalIntegral.integral_interval_sub_left hg hsub]


theorem pv_tendsto_of (k F : ℝ → ℝ) (ξ L : ℝ) (h0 : 0 < ξ) (h1 : ξ < 1)
    (hk : ∀ ε, 0 < ε → ε < ξ → ξ + ε < 1 →
      IntervalIntegrable k volume 0 (ξ - ε) ∧ IntervalIntegrable k volume (ξ + ε) 1)
    (hL : Tendsto (truncInt k ξ) (𝓝[>] 0) (𝓝 L))
    (hg : IntervalIntegrable (fun x => k x * (F x - F ξ)) volume 0 1) :
    Tendsto (truncInt (fun x => k x * F x) ξ) (𝓝[>] 0)
      (𝓝 ((∫ x in (0:ℝ)..1, k x * (F x - F ξ)) + F ξ * L)) := by
  have t := (truncInt_tendsto_integral _ ξ h0 h1 hg).add (hL.const_mul (F ξ))
  refine t.congr' ?_
  filter_upwards [small_eps_mem ξ h0 h1] with ε hε
  obtain ⟨e0, e1, e2⟩ := hε
  have hg1 : IntervalIntegrable (fun x => k x * (F x - F ξ)) volume 0 (ξ - ε) := by
    refine hg.mono_set ?_
    rw [uIcc_of_le (by linarith), uIcc_of_le zero_le_one]
    exact Icc_subset_Icc le_rfl (by linarith)
  have hg2 : IntervalIntegrable (fun x => k x * (F x - F ξ)) volume (ξ + ε) 1 := by
    refine hg.mono_set ?_
    rw [uIcc_of_le (by linarith), uIcc_of_le zero_le_one]
    exact Icc_subset_Icc (by linarith) le_rfl
  exact (truncInt_subtract k F ξ ε (F ξ) (hk ε e0 e1 e2).1 (hk ε e0 e1 e2).2 hg1 hg2).symm

theorem kerV_integrable (ξ ε : ℝ) (hε : 0 < ε) (hξ : ε < ξ) (h1 : ξ + ε < 1) :
    IntervalIntegrable (kerV ξ) volume 0 (ξ - ε) ∧ IntervalIntegrable (kerV ξ) volume (ξ + ε) 1 :=
  ⟨(kerV_continuousOn ξ _ (sq_ne_of ξ _ (lower_ne ξ ε hε hξ))).intervalIntegrable,
   (kerV_continuousOn ξ _ (sq_ne_of ξ _ (upper_ne ξ ε hε hξ h1))).intervalIntegrable⟩

theorem kerA_integrable (ξ ε : ℝ) (hε : 0 < ε) (hξ : ε < ξ) (h1 : ξ + ε < 1) :
    IntervalIntegrable (kerA ξ) volume 0 (ξ - ε) ∧ IntervalIntegrable (kerA ξ) volume (ξ + ε) 1 :=
  ⟨(kerA_continuousOn ξ _ (sq_ne_of ξ _ (lower_ne ξ ε hε hξ))).intervalIntegrable,
   (kerA_continuousOn ξ _ (sq_ne_of ξ _ (upper_ne ξ ε hε hξ h1))).intervalIntegrable⟩

/-- change of variables u = x^p on (0,1), no hypothesis on g -/
theorem integral_comp_rpow (p : ℝ) (hp : 0 < p) (g : ℝ → ℝ) :
    ∫ x in (0:ℝ)..1, g (x ^ p) * (p * x ^ (p - 1)) = ∫ u in (0:ℝ)..1, g u := by
  rw [intervalIntegral.integral_of_le zero_le_one, intervalIntegral.integral_of_le zero_le_one,
    integral_Ioc_eq_integral_Ioo, integral_Ioc_eq_integral_Ioo]
  have himg : (fun x : ℝ => x ^ p) '' Ioo 0 1 = Ioo 0 1 := by
    ext u
    constructor
    · rintro ⟨x, hx, rfl⟩
      exact ⟨Real.rpow_pos_of_pos hx.1 p, Real.rpow_lt_one hx.1.le hx.2 hp⟩
    · intro hu
      refine ⟨u ^ (1 / p), ⟨Real.rpow_pos_of_pos hu.1 _, Real.rpow_lt_one hu.1.le hu.2 (by positivity)⟩, ?_⟩
      show (u ^ (1 / p)) ^ p = u
      rw [← Real.rpow_mul hu.1.le, one_div, inv_mul_cancel₀ hp.ne', Real.rpow_one]
  have hder : ∀ x ∈ Ioo (0:ℝ) 1, HasDerivWithinAt (fun x : ℝ => x ^ p) (p * x ^ (p - 1)) (Ioo 0 1) x :=
    fun x hx => (Real.hasDerivAt_rpow_const (Or.inl hx.1.ne')).hasDerivWithinAt
  have hinj : InjOn (fun x : ℝ => x ^ p) (Ioo 0 1) :=
    (Real.rpow_left_injOn hp.ne').mono (fun x hx => hx.1.le)
  have h := integral_image_eq_integral_abs_deriv_smul measurableSet_Ioo hder hinj g
  rw [himg] at h
  rw [h]
  refine setIntegral_congr_fun measurableSet_Ioo ?_
  intro x hx
  have : 0 ≤ p * x ^ (p - 1) := mul_nonneg hp.le (Real.rpow_nonneg hx.1.le _)
  simp only [abs_of_nonneg this, smul_eq_mul]
  ring

/-! a non-constant test function for the non-vacuity examples: F(x) = x² -/

theorem sq_subtracted_ae (ξ : ℝ) (h0 : 0 < ξ) :
    ∀ᵐ x ∂(volume : Measure ℝ), x ∈ uIoc (0:ℝ) 1 →
      -(2 * x) = kerV ξ x * ((fun y => y ^ 2) x - (fun y => y ^ 2) ξ) := by
  have hne : ∀ᵐ x ∂(volume : Measure ℝ), x ≠ ξ := by
    have : ({ξ} : Set ℝ)ᶜ ∈ ae (volume : Measure ℝ) := compl_mem_ae_iff.2 (measure_singleton ξ)
    exact this
  filter_upwards [hne] with x hx hx1
  rw [uIoc_of_le zero_le_one] at hx1
  have h2 : ξ ^ 2 - x ^ 2 ≠ 0 := by
    have : ξ ^ 2 - x ^ 2 = (ξ + x) * (ξ - x) := by ring
    rw [this]
    exact mul_ne_zero (by linarith [hx1.1]) (sub_ne_zero.2 (Ne.symm hx))
  simp only [kerV]
  field_simp
  ring

theorem sq_subtracted_integrable (ξ : ℝ) (h0 : 0 < ξ) :
    IntervalIntegrable (fun x => kerV ξ x * ((fun y => y ^ 2) x - (fun y => y ^ 2) ξ)) volume 0 1 := by
  have hc : IntervalIntegrable (fun x : ℝ => -(2 * x)) volume 0 1 :=
    (by fun_prop : Continuous fun x : ℝ => -(2 * x)).intervalIntegrable 0 1
  exact hc.congr_ae ((ae_restrict_iff' measurableSet_uIoc).2 (sq_subtracted_ae ξ h0))

theorem sq_subtracted_integral (ξ : ℝ) (h0 : 0 < ξ) :
    ∫ x in (0:ℝ)..1, kerV ξ x * ((fun y => y ^ 2) x - (fun y => y ^ 2) ξ) = -1 := by
  rw [← intervalIntegral.integral_congr_ae (sq_subtracted_ae ξ h0)]
  rw [intervalIntegral.integral_neg, intervalIntegral.integral_const_mul, integral_id]
  norm_num

end Gep.Disp

/-! ### lemmas about the model (Gen/DispR.lean) -/
namespace Gep.R.C14
open Gep.R Gep.Disp Set

theorem dispargV_eq_comp (imfun : ℝ → ℝ) (xi x : ℝ) (hx : 0 ≤ x) :
    dispargV imfun xi x =
      (fun u => kerV xi u * (imfun u - imfun xi)) (x ^ (1 / (1 - ga))) *
        (1 / (1 - ga) * x ^ (1 / (1 - ga) - 1)) := by
  have e : kpow (dispU x) ga = x ^ (1 / (1 - ga) - 1) := by
    simp only [kpow, dispU, Real.rpow_eq_pow]
    rw [← Real.rpow_mul hx]
    congr 1
    norm_num [ga]
  simp only [dispargV, kerV, e]
  simp only [dispU, kpow, Real.rpow_eq_pow]
  ring

theorem dispargA_eq_comp (imfun : ℝ → ℝ) (xi x : ℝ) (hx : 0 ≤ x) :
    dispargA imfun xi x =
      (fun u => kerA xi u * (imfun u - imfun xi)) (x ^ (1 / (1 - ga))) *
        (1 / (1 - ga) * x ^ (1 / (1 - ga) - 1)) := by
  have e : kpow (dispU x) ga = x ^ (1 / (1 - ga) - 1) := by
    simp only [kpow, dispU, Real.rpow_eq_pow]
    rw [← Real.rpow_mul hx]
    congr 1
    norm_num [ga]
  simp only [dispargA, kerA, e]
  simp only [dispU, kpow, Real.rpow_eq_pow]
  ring

theorem pyLogDiv_V (xi : ℝ) (h0 : 0 < xi) (h1 : xi < 1) :
    pyLogDiv (xi ^ 2) (1 - xi ^ 2) = .ok (Real.log (xi ^ 2 / (1 - xi ^ 2))) := by
  have a : 0 < 1 - xi ^ 2 := by nlinarith
  have b : 0 < xi ^ 2 / (1 - xi ^ 2) := by positivity
  simp [pyLogDiv, a, b, klog]

theorem pyLogDiv_A (xi : ℝ) (h0 : 0 < xi) (h1 : xi < 1) :
    pyLogDiv (1 + xi) (1 - xi) = .ok (Real.log ((1 + xi) / (1 - xi))) := by
  have a : 0 < 1 - xi := by linarith
  have b : 0 < (1 + xi) / (1 - xi) := div_pos (by linarith) a
  simp [pyLogDiv, a, b, klog]

end Gep.R.C14

/-
  Proofs/HarmBH.lean — helper lemmas for property C08 about the GENERATED model Gen/BmkR.lean:
  the φ-integral of the Bethe–Heitler propagator product (kinematics.P1P2 / anintP1P2 / weight_BH).
-/
import Gen.BmkSymR
import Proofs.Bridge
import Proofs.HarmTrig
import Mathlib.Tactic.FieldSimp
import Mathlib.Tactic.LinearCombination

namespace Gep.R.HarmBH
open Real intervalIntegral Gep.R

set_option maxRecDepth 4000

/-- ∫₀^{2π} (p0 + p1 cos φ − p2 cos² φ) dφ = 2π p0 − π p2 -/
theorem int_quadratic_cos (p0 p1 p2 : ℝ) :
    ∫ φ in (0:ℝ)..2 * π, (p0 + p1 * cos φ - p2 * cos φ ^ 2) = 2 * π * p0 - π * p2 := by
  rw [integral_sub
        ((by fun_prop : Continuous fun φ : ℝ => p0 + p1 * cos φ).intervalIntegrable _ _)
        ((by fun_prop : Continuous fun φ : ℝ => p2 * cos φ ^ 2).intervalIntegrable _ _),
      integral_add
        ((by fun_prop : Continuous fun _ : ℝ => p0).intervalIntegrable _ _)
        ((by fun_prop : Continuous fun φ : ℝ => p1 * cos φ).intervalIntegrable _ _),
      integral_const_mul, integral_const_mul, integral_cos, integral_cos_sq, integral_const]
  simp
  ring

/-- the BH propagator product at azimuth φ is a quadratic polynomial in cos φ -/
theorem P1P2_quadratic (c : Consts) (pt : Pt) (φ : ℝ) :
    P1P2 c { pt with phi := φ } =
      (-(J c pt.Q2 pt.xB pt.t pt.y pt.eps2) / (pt.y * (1 + pt.eps2))) *
          ((1 + pt.t / pt.Q2) - (-(J c pt.Q2 pt.xB pt.t pt.y pt.eps2) / (pt.y * (1 + pt.eps2))))
        + (-(2 * ksqrt (K2 c pt.Q2 pt.xB pt.t pt.y pt.eps2)) / (pt.y * (1 + pt.eps2))) *
            ((1 + pt.t / pt.Q2) - 2 * (-(J c pt.Q2 pt.xB pt.t pt.y pt.eps2) / (pt.y * (1 + pt.eps2)))) * cos φ
        - (-(2 * ksqrt (K2 c pt.Q2 pt.xB pt.t pt.y pt.eps2)) / (pt.y * (1 + pt.eps2))) ^ 2 * cos φ ^ 2 := by
  bridge_simp [P1P2, kcos]

/-- ∫₀^{2π} P1P2(φ) dφ equals the closed form `anintP1P2` of kinematics.py, for a point whose K2 field is
    the one `prepare` computes and is non-negative (inside the physical region) -/
theorem integral_P1P2 (c : Consts) (pt : Pt)
    (hK2 : pt.K2 = K2 c pt.Q2 pt.xB pt.t pt.y pt.eps2) (hK : 0 ≤ pt.K2)
    (hy : pt.y ≠ 0) (he : 1 + pt.eps2 ≠ 0) :
    ∫ φ in (0:ℝ)..2 * π, P1P2 c { pt with phi := φ } = anintP1P2 c pt := by
  simp_rw [P1P2_quadratic, int_quadratic_cos]
  have hs : ksqrt (K2 c pt.Q2 pt.xB pt.t pt.y pt.eps2) ^ 2 = pt.K2 := by
    rw [← hK2]; exact Real.sq_sqrt hK
  simp only [anintP1P2, J, kpi]
  generalize ksqrt (K2 c pt.Q2 pt.xB pt.t pt.y pt.eps2) = s at hs
  rw [← hs]
  field_simp
  ring


/-- the point as `DVCS.XS(pt, vars={'phi': φ})` sees it after `prepare`: azimuth overridden and the
    propagator product recomputed at that azimuth (all other prepared fields do not depend on φ) -/
noncomputable def atPhi (c : Consts) (pt : Pt) (φ : ℝ) : Pt :=
  { pt with phi := φ, P1P2 := P1P2 c { pt with phi := φ } }

theorem weight_BH_atPhi (c : Consts) (pt : Pt) (φ : ℝ) :
    weight_BH c (atPhi c pt φ) = (2 * π / pt.intP1P2) * P1P2 c { pt with phi := φ } := by
  bridge_simp [weight_BH, atPhi, kpi]

/-- `prepare` applied to the point with azimuth φ is `prepare` applied to the point, moved to φ -/
theorem prepare_atPhi (c : Consts) (pt : Pt) (φ : ℝ) :
    prepare c { pt with phi := φ } = atPhi c (prepare c pt) φ := rfl

theorem integral_weight_BH (c : Consts) (pt : Pt)
    (hK2 : pt.K2 = K2 c pt.Q2 pt.xB pt.t pt.y pt.eps2) (hK : 0 ≤ pt.K2)
    (hint : pt.intP1P2 = anintP1P2 c pt) (h0 : anintP1P2 c pt ≠ 0)
    (hy : pt.y ≠ 0) (he : 1 + pt.eps2 ≠ 0) :
    ∫ φ in (0:ℝ)..2 * π, weight_BH c (atPhi c pt φ) = 2 * π := by
  simp_rw [weight_BH_atPhi]
  rw [integral_const_mul, integral_P1P2 c pt hK2 hK hy he, hint]
  field_simp

end Gep.R.HarmBH

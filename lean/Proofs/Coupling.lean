/-
  Proofs/Coupling.lean — helper lemmas for property C15 (running coupling), about
  Gen/CouplingR.lean (ℝ instantiation of Scalar/Coupling.lean.in).
-/
import Gen.CouplingR
import Mathlib.Analysis.SpecialFunctions.Log.Deriv
import Mathlib.Analysis.SpecialFunctions.Exp
import Mathlib.Tactic.Ring
import Mathlib.Tactic.FieldSimp
import Mathlib.Tactic.Linarith
import Mathlib.Tactic.Positivity
import Mathlib.Tactic.NormNum

namespace Gep.R.Coupling
noncomputable section

/-! ### beta coefficients from the colour factors -/

theorem beta0_eq (nf : ℝ) : beta0 nf = -11 + 2 / 3 * nf := by
  simp only [beta0, B00, B01, CA, NC, TF]; norm_num

theorem beta1_eq (nf : ℝ) : beta1 nf = -102 + 38 / 3 * nf := by
  simp only [beta1, B10, B11, CA, CF, NC, TF]; norm_num

/-! ### the LO closed form, a = α_s/4π, L = ln(μ²/μ₀²) -/

/-- a(L) = a₀ / (1 − β₀ a₀ L) -/
def aLO (b0 a0 L : ℝ) : ℝ := a0 / (1 - b0 * a0 * L)

theorem aLO_zero (b0 a0 : ℝ) : aLO b0 a0 0 = a0 := by simp [aLO]

theorem aLO_compose (b0 a0 L1 L2 : ℝ) (h1 : 1 - b0 * a0 * L1 ≠ 0) :
    aLO b0 (aLO b0 a0 L1) L2 = aLO b0 a0 (L1 + L2) := by
  unfold aLO
  have h3 : 1 - b0 * (a0 / (1 - b0 * a0 * L1)) * L2
      = (1 - b0 * a0 * (L1 + L2)) / (1 - b0 * a0 * L1) := by
    field_simp; ring
  rw [h3, div_div_eq_mul_div, div_mul_cancel₀ _ h1]

/-- the denominator of the second leg is the ratio of the one-step denominators -/
theorem aLO_den_compose (b0 a0 L1 L2 : ℝ) (h1 : 1 - b0 * a0 * L1 ≠ 0) :
    1 - b0 * aLO b0 a0 L1 * L2 = (1 - b0 * a0 * (L1 + L2)) / (1 - b0 * a0 * L1) := by
  unfold aLO; field_simp; ring

theorem aLO_hasDerivAt (b0 a0 L : ℝ) (h : 1 - b0 * a0 * L ≠ 0) :
    HasDerivAt (fun L => aLO b0 a0 L) (b0 * (aLO b0 a0 L) ^ 2) L := by
  unfold aLO
  have hd : HasDerivAt (fun L : ℝ => 1 - b0 * a0 * L) (-(b0 * a0)) L := by
    have := ((hasDerivAt_id L).const_mul (b0 * a0)).const_sub 1
    simpa using this
  have := (hasDerivAt_const L a0).div hd h
  have e : (0 * (1 - b0 * a0 * L) - a0 * -(b0 * a0)) / (1 - b0 * a0 * L) ^ 2
      = b0 * (a0 / (1 - b0 * a0 * L)) ^ 2 := by
    rw [div_pow]; field_simp; ring
  rw [← e]
  exact this

theorem aLO_strictAnti (b0 a0 L1 L2 : ℝ) (hb : b0 < 0) (ha : 0 < a0)
    (h1 : 0 < 1 - b0 * a0 * L1) (hL : L1 < L2) : aLO b0 a0 L2 < aLO b0 a0 L1 := by
  unfold aLO
  have : b0 * a0 < 0 := mul_neg_of_neg_of_pos hb ha
  have h12 : 1 - b0 * a0 * L1 < 1 - b0 * a0 * L2 := by nlinarith
  exact div_lt_div_of_pos_left ha h1 h12

theorem aLO_pos (b0 a0 L : ℝ) (ha : 0 < a0) (h1 : 0 < 1 - b0 * a0 * L) : 0 < aLO b0 a0 L :=
  div_pos ha h1

/-! ### the right-hand side f(x) = x² (β₀ + x β₁) for β₀, β₁ < 0 -/

theorem fbeta1_neg (nf x : ℝ) (hb0 : beta0 nf < 0) (hb1 : beta1 nf ≤ 0) (hx : 0 < x) :
    fbeta1 x nf < 0 := by
  unfold fbeta1
  have h1 : x * beta1 nf ≤ 0 := mul_nonpos_of_nonneg_of_nonpos hx.le hb1
  have h2 : 0 < x ^ 2 := by positivity
  nlinarith

theorem fbeta1_antitone (nf x y : ℝ) (hb0 : beta0 nf ≤ 0) (hb1 : beta1 nf ≤ 0) (hx : 0 ≤ x)
    (hxy : x ≤ y) : fbeta1 y nf ≤ fbeta1 x nf := by
  unfold fbeta1
  have h2 : x ^ 2 ≤ y ^ 2 := pow_le_pow_left₀ hx hxy 2
  have h3 : x ^ 3 ≤ y ^ 3 := pow_le_pow_left₀ hx hxy 3
  have e : ∀ z : ℝ, z ^ 2 * (beta0 nf + z * beta1 nf) = beta0 nf * z ^ 2 + beta1 nf * z ^ 3 := by
    intro z; ring
  rw [e, e]
  have := mul_le_mul_of_nonpos_left h2 hb0
  have := mul_le_mul_of_nonpos_left h3 hb1
  linarith

/-- explicit step-size condition: h · a · |β₀ + a β₁| < 1 -/
def StepOK (nf h a : ℝ) : Prop := h * a * (-(beta0 nf + a * beta1 nf)) < 1

theorem StepOK_mono (nf h a a' : ℝ) (hb0 : beta0 nf ≤ 0) (hb1 : beta1 nf ≤ 0) (hh : 0 ≤ h)
    (ha' : 0 ≤ a') (haa : a' ≤ a) (hok : StepOK nf h a) : StepOK nf h a' := by
  unfold StepOK at *
  have h1 : a' * (-(beta0 nf + a' * beta1 nf)) ≤ a * (-(beta0 nf + a * beta1 nf)) := by
    have e1 : -(beta0 nf) * a' ≤ -(beta0 nf) * a := mul_le_mul_of_nonneg_left haa (by linarith)
    have e2 : a' ^ 2 ≤ a ^ 2 := pow_le_pow_left₀ ha' haa 2
    have e3 : -(beta1 nf) * a' ^ 2 ≤ -(beta1 nf) * a ^ 2 := mul_le_mul_of_nonneg_left e2 (by linarith)
    nlinarith
  have h2 : h * (a' * (-(beta0 nf + a' * beta1 nf))) ≤ h * (a * (-(beta0 nf + a * beta1 nf))) :=
    mul_le_mul_of_nonneg_left h1 hh
  nlinarith

/-- forward step (h > 0): all four stage arguments stay positive, every increment is negative -/
theorem rk4Step_forward (nf h a : ℝ) (hb0 : beta0 nf < 0) (hb1 : beta1 nf ≤ 0) (hh : 0 < h)
    (ha : 0 < a) (hok : StepOK nf h a) : 0 < rk4Step nf h a ∧ rk4Step nf h a < a := by
  have hF : fbeta1 a nf < 0 := fbeta1_neg nf a hb0 hb1 ha
  -- k0
  set k0 := h * fbeta1 a nf with hk0
  have k0neg : k0 < 0 := mul_neg_of_pos_of_neg hh hF
  have hak0 : 0 < a + k0 := by
    have : a + k0 = a * (1 - h * a * (-(beta0 nf + a * beta1 nf))) := by
      rw [hk0]; unfold fbeta1; ring
    rw [this]
    unfold StepOK at hok
    exact mul_pos ha (by linarith)
  -- generic stage: for 0 < y ≤ a, k0 ≤ h f(y) < 0
  have stage : ∀ y, 0 < y → y ≤ a → k0 ≤ h * fbeta1 y nf ∧ h * fbeta1 y nf < 0 := by
    intro y hy hya
    refine ⟨?_, mul_neg_of_pos_of_neg hh (fbeta1_neg nf y hb0 hb1 hy)⟩
    exact mul_le_mul_of_nonneg_left (fbeta1_antitone nf y a hb0.le hb1 hy.le hya) hh.le
  set k1 := h * fbeta1 (a + 0.5 * k0) nf with hk1
  obtain ⟨k1lo, k1neg⟩ : k0 ≤ k1 ∧ k1 < 0 := stage _ (by linarith) (by linarith)
  set k2 := h * fbeta1 (a + 0.5 * k1) nf with hk2
  obtain ⟨k2lo, k2neg⟩ : k0 ≤ k2 ∧ k2 < 0 := stage _ (by linarith) (by linarith)
  set k3 := h * fbeta1 (a + k2) nf with hk3
  obtain ⟨k3lo, k3neg⟩ : k0 ≤ k3 ∧ k3 < 0 := stage _ (by linarith) (by linarith)
  have e : rk4Step nf h a = a + (k0 + 2 * k1 + 2 * k2 + k3) / 6 := rfl
  rw [e]
  constructor <;> linarith

/-- backward step (h < 0): no step-size condition is needed, every increment is positive -/
theorem rk4Step_backward (nf h a : ℝ) (hb0 : beta0 nf < 0) (hb1 : beta1 nf ≤ 0) (hh : h < 0)
    (ha : 0 < a) : a < rk4Step nf h a := by
  have stage : ∀ y, 0 < y → 0 < h * fbeta1 y nf := fun y hy =>
    mul_pos_of_neg_of_neg hh (fbeta1_neg nf y hb0 hb1 hy)
  set k0 := h * fbeta1 a nf with hk0
  have k0pos : 0 < k0 := stage a ha
  set k1 := h * fbeta1 (a + 0.5 * k0) nf with hk1
  have k1pos : 0 < k1 := stage _ (by linarith)
  set k2 := h * fbeta1 (a + 0.5 * k1) nf with hk2
  have k2pos : 0 < k2 := stage _ (by linarith)
  set k3 := h * fbeta1 (a + k2) nf with hk3
  have k3pos : 0 < k3 := stage _ (by linarith)
  have e : rk4Step nf h a = a + (k0 + 2 * k1 + 2 * k2 + k3) / 6 := rfl
  rw [e]
  linarith

/-- step of size zero: every stage adds 0 -/
theorem rk4Step_zero (nf a : ℝ) : rk4Step nf 0 a = a := by
  simp [rk4Step]

theorem rk4Loop_zero (nf a : ℝ) (ks : List Nat) : rk4Loop nf 0 ks a = a := by
  unfold rk4Loop
  induction ks with
  | nil => rfl
  | cons k ks ih => simp [List.foldl_cons, rk4Step_zero]

theorem rk4Loop_cons (nf h a : ℝ) (k : Nat) (ks : List Nat) :
    rk4Loop nf h (k :: ks) a = rk4Loop nf h ks (rk4Step nf h a) := rfl

/-- forward loop: positive, never above the start, strictly below it after at least one step -/
theorem rk4Loop_forward (nf h : ℝ) (hb0 : beta0 nf < 0) (hb1 : beta1 nf ≤ 0) (hh : 0 < h)
    (ks : List Nat) : ∀ a : ℝ, 0 < a → StepOK nf h a →
      0 < rk4Loop nf h ks a ∧ rk4Loop nf h ks a ≤ a ∧ (ks ≠ [] → rk4Loop nf h ks a < a) := by
  induction ks with
  | nil => intro a ha _; exact ⟨ha, le_refl _, fun h => absurd rfl h⟩
  | cons k ks ih =>
    intro a ha hok
    obtain ⟨hpos, hlt⟩ := rk4Step_forward nf h a hb0 hb1 hh ha hok
    have hok' := StepOK_mono nf h a _ hb0.le hb1 hh.le hpos.le hlt.le hok
    obtain ⟨p, q, _⟩ := ih _ hpos hok'
    rw [rk4Loop_cons]
    exact ⟨p, by linarith, fun _ => by linarith⟩

/-- backward loop: never below the start, strictly above it after at least one step -/
theorem rk4Loop_backward (nf h : ℝ) (hb0 : beta0 nf < 0) (hb1 : beta1 nf ≤ 0) (hh : h < 0)
    (ks : List Nat) : ∀ a : ℝ, 0 < a →
      a ≤ rk4Loop nf h ks a ∧ (ks ≠ [] → a < rk4Loop nf h ks a) := by
  induction ks with
  | nil => intro a _; exact ⟨le_refl _, fun h => absurd rfl h⟩
  | cons k ks ih =>
    intro a ha
    have hgt := rk4Step_backward nf h a hb0 hb1 hh ha
    obtain ⟨p, _⟩ := ih _ (by linarith)
    rw [rk4Loop_cons]
    exact ⟨by linarith, fun _ => by linarith⟩

/-- along the forward loop the iterates decrease strictly step by step (prefix by prefix) -/
theorem rk4Loop_append (nf h a : ℝ) (ks ls : List Nat) :
    rk4Loop nf h (ks ++ ls) a = rk4Loop nf h ls (rk4Loop nf h ks a) := by
  simp [rk4Loop, List.foldl_append]

/-! ### bounds used on the property's box -/

theorem log_le_twenty (x : ℝ) (hx : 0 < x) (hx6 : x ≤ 1000000) : Real.log x ≤ 20 := by
  rw [Real.log_le_iff_le_exp hx]
  have h2 : (2 : ℝ) ≤ Real.exp 1 := by
    have := Real.add_one_le_exp (1 : ℝ); linarith
  have h20 : Real.exp 20 = Real.exp 1 ^ (20 : ℕ) := by
    rw [← Real.exp_nat_mul]; norm_num
  have : (2 : ℝ) ^ (20 : ℕ) ≤ Real.exp 1 ^ (20 : ℕ) := pow_le_pow_left₀ (by norm_num) h2 20
  rw [h20]
  norm_num at this
  linarith

/-! ### unfolding `as2pf` on its regular branch -/

theorem half_eq : (0.5 : ℝ) = 1 / 2 := by norm_num

theorem le_ge_iff_eq_zero (x : ℝ) : (x ≤ 0 ∧ 0 ≤ x) ↔ x = 0 :=
  ⟨fun h => le_antisymm h.1 h.2, fun h => by simp [h]⟩

theorem as2pf_lo (nf r2 as0 r20 : ℝ) (hr : r20 ≠ 0) (hq : 0 < r2 / r20) :
    as2pf 0 nf r2 as0 r20 =
      if loDen nf as0 (Real.log (r2 / r20)) = 0 then .zeroDivisionError
      else .ok (as0 / loDen nf as0 (Real.log (r2 / r20))) := by
  simp only [as2pf, le_ge_iff_eq_zero, hr, if_false, not_le.mpr hq, klog, if_true]
  by_cases h : loDen nf as0 (Real.log (r2 / r20)) = 0
  · simp [h]
  · simp only [h, if_false]
    congr 1
    field_simp
    norm_num

theorem as2pf_nlo (nf r2 as0 r20 : ℝ) (hr : r20 ≠ 0) (hq : 0 < r2 / r20) :
    as2pf 1 nf r2 as0 r20 =
      .ok (2 * rk4Loop nf (Real.log (r2 / r20) / 20) (List.range' 1 NASTPS) (0.5 * as0)) := by
  simp [as2pf, le_ge_iff_eq_zero, hr, not_le.mpr hq, klog]

theorem loDen_eq (nf as0 L : ℝ) : loDen nf as0 L = 1 - beta0 nf * (0.5 * as0) * L := by
  unfold loDen; ring

/-- the value in the code's internal normalisation a = α_s/4π of a returned α_s/2π -/
def a4pi : AsRes → ℝ
  | .ok A => A / 2
  | _ => 0

end
end Gep.R.Coupling

/-
  Proofs/HarmFlux.lean — helper lemmas for property C08 about the GENERATED model Gen/BmkR.lean:
  flux identity  2π · PreFacSigma · TDVCS2unp  =  HandFlux · dσ(γ* p → γ p)/dt  for vanishing axial CFFs.
-/
import Gen.BmkSymR
import Proofs.Bridge
import Mathlib.Tactic.FieldSimp
import Mathlib.Tactic.LinearCombination
import Mathlib.Tactic.Positivity

namespace Gep.R.HarmFlux
open Real Gep.R

set_option maxRecDepth 4000
set_option linter.unusedSimpArgs false

/-- the eight twist-two CFFs with the axial ones (H̃, Ẽ) and all effective twist-three ones set to zero -/
def vecOnly (m : CFFs) : CFFs := noEff (zeroAx m)

/-! ### bridging lemmas: generated definition = hand-written form, up to field arithmetic (`bridge_simp`, see
    Proofs/Bridge.lean).  Everything below works on the right-hand sides only, so that a re-associated or
    helper-extracting rewrite of the Python formulas does not reach the proofs proper. -/

theorem long2trans_eq (c : Consts) (pt : Pt) :
    long2trans c pt =
      (1 - pt.y - pt.eps2 * pt.y ^ 2 / 4) / (1 - pt.y + pt.y ^ 2 / 2 + pt.eps2 * pt.y ^ 2 / 4) := by
  bridge_simp [long2trans]

theorem HandFlux_eq (c : Consts) (pt : Pt) :
    HandFlux c pt = c.alpha / 2 / π * (pt.y ^ 2 / (1 - long2trans c pt)) * (1 - pt.xB) / pt.xB / pt.Q2 := by
  bridge_simp [HandFlux, kpi]

theorem PreFacSigma_eq (c : Consts) (m : CFFs) (pt : Pt) :
    DVCS.PreFacSigma c m pt =
      c.alpha ^ 3 * pt.xB * pt.y ^ 2 / (8 * π * pt.Q2 ^ 2 * ksqrt (1 + pt.eps2)) * c.GeV2nb := by
  bridge_simp [DVCS.PreFacSigma, kpi]

theorem PreFacDVCS_eq (c : Consts) (m : CFFs) (pt : Pt) : BMK.PreFacDVCS c m pt = 1 / (pt.y ^ 2 * pt.Q2) := by
  bridge_simp [BMK.PreFacDVCS]

theorem CDVCSunpPP_hotfixed_eq (c : Consts) (m : CFFs) (pt : Pt) :
    hotfixedBMK.CDVCSunpPP c m pt =
      2 * ((2 - 2 * pt.y + pt.y ^ 2 + pt.eps2 * pt.y ^ 2 / 2) / (1 + pt.eps2)) := by
  bridge_simp [hotfixedBMK.CDVCSunpPP]

theorem CDVCSunpPP_BMK_eq (c : Consts) (m : CFFs) (pt : Pt) :
    BMK.CDVCSunpPP c m pt = 2 * (2 - 2 * pt.y + pt.y ^ 2) := by
  bridge_simp [BMK.CDVCSunpPP]

theorem TDVCS2unp_hotfixed_eq (c : Consts) (m : CFFs) (pt : Pt) :
    hotfixedBMK.TDVCS2unp c m pt =
      BMK.PreFacDVCS c m pt * (hotfixedBMK.CDVCSunpPP c m pt * BMK.CCALDVCSunp c m pt) := by
  bridge_simp [hotfixedBMK.TDVCS2unp, hotfixedBMK.cDVCS0unp]

theorem TDVCS2unp_BMK_eq (c : Consts) (m : CFFs) (pt : Pt) :
    BMK.TDVCS2unp c m pt = BMK.PreFacDVCS c m pt * (BMK.CDVCSunpPP c m pt * BMK.CCALDVCSunp c m pt) := by
  bridge_simp [BMK.TDVCS2unp, BMK.cDVCS0unp]

/-- y²/(1 − ε_L/T) of `HandFlux`, in closed form -/
theorem y2_over_one_minus_long2trans (c : Consts) (pt : Pt) (hy : pt.y ≠ 0) (he : 1 + pt.eps2 ≠ 0)
    (hD : 1 - pt.y + pt.y ^ 2 / 2 + pt.eps2 * pt.y ^ 2 / 4 ≠ 0) :
    pt.y ^ 2 / (1 - long2trans c pt) =
      (2 - 2 * pt.y + pt.y ^ 2 + pt.eps2 * pt.y ^ 2 / 2) / (1 + pt.eps2) := by
  have h1 : 1 - long2trans c pt =
      (pt.y ^ 2 * (1 + pt.eps2) / 2) / (1 - pt.y + pt.y ^ 2 / 2 + pt.eps2 * pt.y ^ 2 / 4) := by
    rw [long2trans_eq]
    have hN : 1 - pt.y - pt.eps2 * pt.y ^ 2 / 4 =
        (1 - pt.y + pt.y ^ 2 / 2 + pt.eps2 * pt.y ^ 2 / 4) - pt.y ^ 2 * (1 + pt.eps2) / 2 := by ring
    rw [hN]
    generalize 1 - pt.y + pt.y ^ 2 / 2 + pt.eps2 * pt.y ^ 2 / 4 = d at hD
    field_simp
    ring
  rw [h1]
  have hE : 2 - 2 * pt.y + pt.y ^ 2 + pt.eps2 * pt.y ^ 2 / 2 =
      2 * (1 - pt.y + pt.y ^ 2 / 2 + pt.eps2 * pt.y ^ 2 / 4) := by ring
  rw [hE]
  generalize 1 - pt.y + pt.y ^ 2 / 2 + pt.eps2 * pt.y ^ 2 / 4 = d at hD
  generalize 1 + pt.eps2 = e1 at he
  field_simp

/-- the common core, for an arbitrary value `Bz` of the CFF-bilinear "brace":
    2π · PreFacSigma · PreFacDVCS · CDVCSunpPP(hotfixed) · Bz/(2−xB)²  =  HandFlux · c_lit · (…) · Bz -/
theorem flux_core (c : Consts) (m : CFFs) (pt : Pt) (Bz : ℝ)
    (hlit : (65.14079453579676 : ℝ) = π * c.alpha ^ 2 * c.GeV2nb)
    (heps : pt.eps2 = 4 * pt.xB ^ 2 * c.Mp2 / pt.Q2)
    (hy : pt.y ≠ 0) (he : 0 < 1 + pt.eps2)
    (hD : 1 - pt.y + pt.y ^ 2 / 2 + pt.eps2 * pt.y ^ 2 / 4 ≠ 0)
    (hx : pt.xB ≠ 0) (hx1 : 1 - pt.xB ≠ 0) (hx2 : 2 - pt.xB ≠ 0) (hQ : pt.Q2 ≠ 0) :
    2 * π * DVCS.PreFacSigma c m pt *
        (BMK.PreFacDVCS c m pt * (hotfixedBMK.CDVCSunpPP c m pt * (Bz / (2 - pt.xB) ^ 2))) =
      HandFlux c pt * ((65.14079453579676 : ℝ) *
        (pt.xB ^ 2 / pt.Q2 ^ 2 / (1 - pt.xB) / (2 - pt.xB) ^ 2 / ksqrt (1 + 4 * pt.xB ^ 2 * c.Mp2 / pt.Q2) * Bz)) := by
  have he' : 1 + pt.eps2 ≠ 0 := ne_of_gt he
  have hr : ksqrt (1 + pt.eps2) ≠ 0 := by
    unfold ksqrt; exact ne_of_gt (Real.sqrt_pos.mpr he)
  have hpi : π ≠ 0 := Real.pi_ne_zero
  rw [HandFlux_eq, y2_over_one_minus_long2trans c pt hy he' hD, PreFacSigma_eq, CDVCSunpPP_hotfixed_eq, PreFacDVCS_eq]
  rw [← heps, hlit]
  generalize ksqrt (1 + pt.eps2) = r at hr
  generalize pt.eps2 = e at *
  generalize pt.y = y at *
  generalize pt.xB = x at *
  generalize pt.Q2 = Q at *
  field_simp
  ring

/-- hotfixedBMK: with the axial and effective CFFs zero, XS-prefactor × squared-DVCS term, integrated over
    φ (it is φ-independent: factor 2π), is flux × photoproduction cross section -/
theorem flux_hotfixed (c : Consts) (m : CFFs) (pt : Pt)
    (hlit : (65.14079453579676 : ℝ) = π * c.alpha ^ 2 * c.GeV2nb)
    (heps : pt.eps2 = 4 * pt.xB ^ 2 * c.Mp2 / pt.Q2)
    (hy : pt.y ≠ 0) (he : 0 < 1 + pt.eps2)
    (hD : 1 - pt.y + pt.y ^ 2 / 2 + pt.eps2 * pt.y ^ 2 / 4 ≠ 0)
    (hx : pt.xB ≠ 0) (hx1 : 1 - pt.xB ≠ 0) (hx2 : 2 - pt.xB ≠ 0) (hQ : pt.Q2 ≠ 0) :
    2 * π * DVCS.PreFacSigma c (vecOnly m) pt * FS_hotfixedBMK_TDVCS2unp c (vecOnly m) pt =
      HandFlux c pt * DVCS._XGAMMA_DVCS_t_Ex c (vecOnly m) pt := by
  have hC : BMK.CCALDVCSunp c (vecOnly m) pt =
      (4 * (1 - pt.xB) * (m.ImH ^ 2 + m.ReH ^ 2)
        - pt.xB ^ 2 * (m.ReE ^ 2 + m.ImE ^ 2 + 2 * m.ReE * m.ReH + 2 * m.ImE * m.ImH)
        - (2 - pt.xB) ^ 2 * pt.t / 4 / c.Mp2 * (m.ImE ^ 2 + m.ReE ^ 2)) / (2 - pt.xB) ^ 2 := by
    bridge_simp [BMK.CCALDVCSunp, vecOnly,
      noEff_ReH, noEff_ImH, noEff_ReE, noEff_ImE, noEff_ReHt, noEff_ImHt, noEff_ReEt, noEff_ImEt,
      zeroAx_ReH, zeroAx_ImH, zeroAx_ReE, zeroAx_ImE, zeroAx_ReHt, zeroAx_ImHt, zeroAx_ReEt, zeroAx_ImEt]
  have hX : DVCS._XGAMMA_DVCS_t_Ex c (vecOnly m) pt = (65.14079453579676 : ℝ) *
      (pt.xB ^ 2 / pt.Q2 ^ 2 / (1 - pt.xB) / (2 - pt.xB) ^ 2 / ksqrt (1 + 4 * pt.xB ^ 2 * c.Mp2 / pt.Q2) *
        (4 * (1 - pt.xB) * (m.ImH ^ 2 + m.ReH ^ 2)
        - pt.xB ^ 2 * (m.ReE ^ 2 + m.ImE ^ 2 + 2 * m.ReE * m.ReH + 2 * m.ImE * m.ImH)
        - (2 - pt.xB) ^ 2 * pt.t / 4 / c.Mp2 * (m.ImE ^ 2 + m.ReE ^ 2))) := by
    bridge_simp [DVCS._XGAMMA_DVCS_t_Ex, vecOnly,
      noEff_ReH, noEff_ImH, noEff_ReE, noEff_ImE, zeroAx_ReH, zeroAx_ImH, zeroAx_ReE, zeroAx_ImE]
  simp only [FS_hotfixedBMK_TDVCS2unp, TDVCS2unp_hotfixed_eq]
  rw [hC, hX]
  exact flux_core c (vecOnly m) pt _ hlit heps hy he hD hx hx1 hx2 hQ

/-! ### BM10, BM10tw2: same squared-DVCS term as hotfixedBMK once the effective CFFs are zero -/

theorem CCALDVCSunp_BM10_eq_BMK (c : Consts) (m : CFFs) (pt : Pt) :
    BM10.CCALDVCSunp_im0_leff0_reff0 c m pt = BMK.CCALDVCSunp c m pt := by
  bridge_simp [BM10.CCALDVCSunp_im0_leff0_reff0, BMK.CCALDVCSunp, Gep.Cx.mk_re, Gep.Cx.mk_im, Gep.Cx.add_re,
    Gep.Cx.add_im, Gep.Cx.sub_re, Gep.Cx.sub_im, Gep.Cx.neg_re, Gep.Cx.neg_im, Gep.Cx.mul_re, Gep.Cx.mul_im,
    Gep.Cx.smul_re, Gep.Cx.smul_im, Gep.Cx.divR_re, Gep.Cx.divR_im, Gep.Cx.ofReal_re, Gep.Cx.ofReal_im]

theorem TDVCS2unp_BM10_vecOnly (c : Consts) (m : CFFs) (pt : Pt) :
    FS_BM10_TDVCS2unp c (vecOnly m) pt = FS_hotfixedBMK_TDVCS2unp c (vecOnly m) pt ∧
    FS_BM10tw2_TDVCS2unp c (vecOnly m) pt = FS_hotfixedBMK_TDVCS2unp c (vecOnly m) pt := by
  have key : BM10.TDVCS2unp c (vecOnly m) pt = hotfixedBMK.TDVCS2unp c (vecOnly m) pt := by
    bridge_simp [vecOnly, BM10.TDVCS2unp, hotfixedBMK.TDVCS2unp, BM10.cDVCS0unp, hotfixedBMK.cDVCS0unp,
      BM10_cDVCS1unp_noEff, BM10_sDVCS1unp_noEff, BM10_CCALDVCSunp_im0_leff1_reff1_noEff,
      CCALDVCSunp_BM10_eq_BMK, mul_zero, zero_mul, add_zero]
  exact ⟨key, key⟩

/-! ### BMK: no ε² in the y-dependent factor -/

/-- the closed-form ratio for BMK: (1+ε²)(2−2y+y²) / (2−2y+y²+ε²y²/2); tends to 1 as ε² → 0 -/
noncomputable def ratioBMK (y eps2 : ℝ) : ℝ :=
  (1 + eps2) * (2 - 2 * y + y ^ 2) / (2 - 2 * y + y ^ 2 + eps2 * y ^ 2 / 2)

theorem TDVCS2unp_BMK_vs_hotfixed (c : Consts) (m : CFFs) (pt : Pt) (he : 1 + pt.eps2 ≠ 0)
    (hD : 1 - pt.y + pt.y ^ 2 / 2 + pt.eps2 * pt.y ^ 2 / 4 ≠ 0) :
    FS_BMK_TDVCS2unp c m pt = FS_hotfixedBMK_TDVCS2unp c m pt * ratioBMK pt.y pt.eps2 := by
  simp only [FS_hotfixedBMK_TDVCS2unp, FS_BMK_TDVCS2unp, TDVCS2unp_hotfixed_eq, TDVCS2unp_BMK_eq,
    CDVCSunpPP_hotfixed_eq, CDVCSunpPP_BMK_eq, ratioBMK]
  have hE : 2 - 2 * pt.y + pt.y ^ 2 + pt.eps2 * pt.y ^ 2 / 2 =
      2 * (1 - pt.y + pt.y ^ 2 / 2 + pt.eps2 * pt.y ^ 2 / 4) := by ring
  rw [hE]
  generalize BMK.PreFacDVCS c m pt = P
  generalize BMK.CCALDVCSunp c m pt = C
  generalize 1 - pt.y + pt.y ^ 2 / 2 + pt.eps2 * pt.y ^ 2 / 4 = d at hD
  generalize 2 - 2 * pt.y + pt.y ^ 2 = A
  generalize 1 + pt.eps2 = e1 at he
  field_simp

/-! ### BM10ex: t/Q² terms in 𝒞^DVCS -/

/-- `_XGAMMA_DVCS_t_Ex` with the |H|² structure multiplied by ρH and the (|E|² + 2 Re E H*)·xB² structure
    by ρE (hand-written only to STATE the BM10ex relation; `sigmaRho_one` ties it to the generated one) -/
noncomputable def sigmaRho (ρH ρE : ℝ) (c : Consts) (m : CFFs) (pt : Pt) : ℝ :=
  (65.14079453579676 : ℝ) *
    (pt.xB ^ 2 / pt.Q2 ^ 2 / (1 - pt.xB) / (2 - pt.xB) ^ 2 / ksqrt (1 + 4 * pt.xB ^ 2 * c.Mp2 / pt.Q2) *
      (4 * (1 - pt.xB) * (m.ImH ^ 2 + m.ReH ^ 2) * ρH
        - pt.xB ^ 2 * (m.ReE ^ 2 + m.ImE ^ 2 + 2 * m.ReE * m.ReH + 2 * m.ImE * m.ImH) * ρE
        - (2 - pt.xB) ^ 2 * pt.t / 4 / c.Mp2 * (m.ImE ^ 2 + m.ReE ^ 2)))

theorem sigmaRho_one (c : Consts) (m : CFFs) (pt : Pt) :
    sigmaRho 1 1 c m pt = DVCS._XGAMMA_DVCS_t_Ex c m pt := by
  bridge_simp [sigmaRho, DVCS._XGAMMA_DVCS_t_Ex]

/-- ratio of the |H|² structure, BM10ex : BMK;  = (1+τ xB)(2−xB)² / (2−xB+τ xB)², τ = t/Q² -/
noncomputable def rhoH (xB Q2 t : ℝ) : ℝ :=
  Q2 * (Q2 + t * xB) * (2 - xB) ^ 2 / (Q2 * (2 - xB) + t * xB) ^ 2
/-- ratio of the xB²(|E|² + 2 Re E H*) structure;  = (1+τ)²(2−xB)² / (2−xB+τ xB)² -/
noncomputable def rhoE (xB Q2 t : ℝ) : ℝ :=
  (Q2 + t) ^ 2 * (2 - xB) ^ 2 / (Q2 * (2 - xB) + t * xB) ^ 2

theorem rhoH_tau (xB Q2 t : ℝ) (hQ : Q2 ≠ 0) (hB : 2 - xB + t / Q2 * xB ≠ 0) :
    rhoH xB Q2 t = (1 + t / Q2 * xB) * (2 - xB) ^ 2 / (2 - xB + t / Q2 * xB) ^ 2 := by
  have h : Q2 * (2 - xB) + t * xB = Q2 * (2 - xB + t / Q2 * xB) := by field_simp
  unfold rhoH
  rw [h]
  have h2 : Q2 + t * xB = Q2 * (1 + t / Q2 * xB) := by field_simp
  rw [h2]
  generalize 2 - xB + t / Q2 * xB = B at hB
  field_simp

theorem rhoE_tau (xB Q2 t : ℝ) (hQ : Q2 ≠ 0) (hB : 2 - xB + t / Q2 * xB ≠ 0) :
    rhoE xB Q2 t = (1 + t / Q2) ^ 2 * (2 - xB) ^ 2 / (2 - xB + t / Q2 * xB) ^ 2 := by
  have h : Q2 * (2 - xB) + t * xB = Q2 * (2 - xB + t / Q2 * xB) := by field_simp
  unfold rhoE
  rw [h]
  have h2 : Q2 + t = Q2 * (1 + t / Q2) := by field_simp
  rw [h2]
  generalize 2 - xB + t / Q2 * xB = B at hB
  field_simp

/-- 𝒞^DVCS_unp of BM10ex for vanishing axial CFFs, against the twist-two (BMK) one, structure by structure -/
theorem CCALDVCSunp_BM10ex_vecOnly (c : Consts) (m : CFFs) (pt : Pt)
    (hQ : pt.Q2 ≠ 0) (hA : pt.Q2 + pt.t * pt.xB ≠ 0) (hB : pt.Q2 * (2 - pt.xB) + pt.t * pt.xB ≠ 0)
    (hx2 : 2 - pt.xB ≠ 0) (hM : c.Mp2 ≠ 0) :
    BM10ex.CCALDVCSunp_im0_leff0_reff0 c (vecOnly m) pt =
      (4 * (1 - pt.xB) * (m.ImH ^ 2 + m.ReH ^ 2) * rhoH pt.xB pt.Q2 pt.t
        - pt.xB ^ 2 * (m.ReE ^ 2 + m.ImE ^ 2 + 2 * m.ReE * m.ReH + 2 * m.ImE * m.ImH) * rhoE pt.xB pt.Q2 pt.t
        - (2 - pt.xB) ^ 2 * pt.t / 4 / c.Mp2 * (m.ImE ^ 2 + m.ReE ^ 2)) / (2 - pt.xB) ^ 2 := by
  simp only [BM10ex.CCALDVCSunp_im0_leff0_reff0, vecOnly, rhoH, rhoE,
    noEff_ReH, noEff_ImH, noEff_ReE, noEff_ImE, noEff_ReHt, noEff_ImHt, noEff_ReEt, noEff_ImEt,
    zeroAx_ReH, zeroAx_ImH, zeroAx_ReE, zeroAx_ImE, zeroAx_ReHt, zeroAx_ImHt, zeroAx_ReEt, zeroAx_ImEt,
    Gep.Cx.mk_re, Gep.Cx.mk_im, Gep.Cx.add_re, Gep.Cx.add_im, Gep.Cx.sub_re, Gep.Cx.sub_im, Gep.Cx.neg_re,
    Gep.Cx.neg_im, Gep.Cx.mul_re, Gep.Cx.mul_im, Gep.Cx.smul_re, Gep.Cx.smul_im, Gep.Cx.divR_re, Gep.Cx.divR_im,
    Gep.Cx.ofReal_re, Gep.Cx.ofReal_im]
  generalize hAe : pt.Q2 + pt.t * pt.xB = A at hA
  generalize hBe : pt.Q2 * (2 - pt.xB) + pt.t * pt.xB = B at hB
  generalize h2e : 2 - pt.xB = X at hx2
  field_simp
  ring


/-- BM10ex: flux × the photoproduction formula with its CFF structures rescaled by `rhoH`, `rhoE` -/
theorem flux_BM10ex (c : Consts) (m : CFFs) (pt : Pt)
    (hlit : (65.14079453579676 : ℝ) = π * c.alpha ^ 2 * c.GeV2nb)
    (heps : pt.eps2 = 4 * pt.xB ^ 2 * c.Mp2 / pt.Q2)
    (hy : pt.y ≠ 0) (he : 0 < 1 + pt.eps2)
    (hD : 1 - pt.y + pt.y ^ 2 / 2 + pt.eps2 * pt.y ^ 2 / 4 ≠ 0)
    (hx : pt.xB ≠ 0) (hx1 : 1 - pt.xB ≠ 0) (hx2 : 2 - pt.xB ≠ 0) (hQ : pt.Q2 ≠ 0)
    (hA : pt.Q2 + pt.t * pt.xB ≠ 0) (hB : pt.Q2 * (2 - pt.xB) + pt.t * pt.xB ≠ 0) (hM : c.Mp2 ≠ 0) :
    2 * π * DVCS.PreFacSigma c (vecOnly m) pt * FS_BM10ex_TDVCS2unp c (vecOnly m) pt =
      HandFlux c pt * sigmaRho (rhoH pt.xB pt.Q2 pt.t) (rhoE pt.xB pt.Q2 pt.t) c m pt := by
  have hT : FS_BM10ex_TDVCS2unp c (vecOnly m) pt =
      BMK.PreFacDVCS c (vecOnly m) pt * (hotfixedBMK.CDVCSunpPP c (vecOnly m) pt *
        BM10ex.CCALDVCSunp_im0_leff0_reff0 c (vecOnly m) pt) := by
    simp only [FS_BM10ex_TDVCS2unp, BM10ex.TDVCS2unp, BM10ex.cDVCS0unp]
    unfold vecOnly
    bridge_simp [BM10ex_cDVCS1unp_noEff, BM10ex_sDVCS1unp_noEff, BM10ex_CCALDVCSunp_im0_leff1_reff1_noEff,
      mul_zero, zero_mul, add_zero]
  rw [hT, CCALDVCSunp_BM10ex_vecOnly c m pt hQ hA hB hx2 hM]
  simp only [sigmaRho]
  exact flux_core c (vecOnly m) pt _ hlit heps hy he hD hx hx1 hx2 hQ

end Gep.R.HarmFlux

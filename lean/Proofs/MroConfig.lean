/-
  Proofs/MroConfig.lean — helper lemmas for property C20: every event of a run comes from the
  class table restricted to the universe, hence obeys what `checks` verified; assembly of the
  order-independence of the configuration.
-/
import Proofs.MroChain

namespace Gep.Mro
open List

/-! ### the collected event lists -/

theorem mem_kwPairs_setdef {k d : Sym} : ∀ {ps : List Prim}, Prim.setdef k d ∈ ps →
    (k, d) ∈ kwPairs ps := by
  intro ps
  induction ps with
  | nil => intro h; cases h
  | cons p t ih =>
    intro h
    rcases List.mem_cons.1 h with rfl | h'
    · simp [kwPairs]
    · cases p <;> simp [kwPairs, ih h']

theorem mem_kwPairs_bind {a k d : Sym} : ∀ {ps : List Prim}, Prim.bind a k d ∈ ps →
    (k, d) ∈ kwPairs ps := by
  intro ps
  induction ps with
  | nil => intro h; cases h
  | cons p t ih =>
    intro h
    rcases List.mem_cons.1 h with rfl | h'
    · simp [kwPairs]
    · cases p <;> simp [kwPairs, ih h']

theorem mem_bindPairs {a k d : Sym} : ∀ {ps : List Prim}, Prim.bind a k d ∈ ps →
    (a, k) ∈ bindPairs ps := by
  intro ps
  induction ps with
  | nil => intro h; cases h
  | cons p t ih =>
    intro h
    rcases List.mem_cons.1 h with rfl | h'
    · simp [bindPairs]
    · cases p <;> simp [bindPairs, ih h']

theorem mem_derived_write {a src : Sym} : ∀ {ps : List Prim}, Prim.write a src ∈ ps →
    a ∈ derivedAttrs ps := by
  intro ps
  induction ps with
  | nil => intro h; cases h
  | cons p t ih =>
    intro h
    rcases List.mem_cons.1 h with rfl | h'
    · simp [derivedAttrs]
    · cases p <;> simp [derivedAttrs, ih h']

theorem mem_derived_ensure {a : Sym} : ∀ {ps : List Prim}, Prim.ensure a ∈ ps →
    a ∈ derivedAttrs ps := by
  intro ps
  induction ps with
  | nil => intro h; cases h
  | cons p t ih =>
    intro h
    rcases List.mem_cons.1 h with rfl | h'
    · simp [derivedAttrs]
    · cases p <;> simp [derivedAttrs, ih h']

theorem assoc_of_functional {k v : Sym} : ∀ {l : List (Sym × Sym)}, functional l = true →
    (k, v) ∈ l → assoc k l = some v := by
  intro l
  induction l with
  | nil => intro _ h; cases h
  | cons p t ih =>
    intro hf hmem
    obtain ⟨j, w⟩ := p
    have hf' := hf
    unfold functional at hf
    simp only [List.all_eq_true, Bool.or_eq_true, bne_iff_ne, ne_eq, beq_iff_eq] at hf
    simp only [assoc]
    split
    · rename_i hjk
      have := hf (j, w) List.mem_cons_self (k, v) hmem
      simp only [hjk, not_true_eq_false, false_or] at this
      rw [this]
    · rename_i hjk
      rcases List.mem_cons.1 hmem with h | h
      · injection h with h1 h2; exact absurd h1.symm hjk
      · apply ih _ h
        unfold functional
        simp only [List.all_eq_true, Bool.or_eq_true, bne_iff_ne, ne_eq, beq_iff_eq]
        intro p hp q hq
        exact hf p (List.mem_cons_of_mem _ hp) q (List.mem_cons_of_mem _ hq)

theorem assoc_none {k : Sym} : ∀ {l : List (Sym × Sym)}, (∀ p ∈ l, p.1 ≠ k) → assoc k l = none := by
  intro l
  induction l with
  | nil => intro _; rfl
  | cons p t ih =>
    intro h
    obtain ⟨j, w⟩ := p
    simp only [assoc]
    split
    · rename_i hjk; exact absurd hjk (h (j, w) List.mem_cons_self)
    · exact ih (fun p hp => h p (List.mem_cons_of_mem _ hp))

/-! ### provenance of the steps of a run -/

theorem prim_mem_expandMeth {tbl : Table} {U m : List Cls} (hm : ∀ x ∈ m, x ∈ U) {meth key : Sym}
    {o : Cls} {p : Prim} (h : Step.prim o p ∈ expandMeth tbl m meth key) :
    p ∈ U.flatMap (fun d => (summary tbl d meth key).getD []) := by
  unfold expandMeth at h
  split at h
  · simp at h
  · rename_i d hd
    split at h
    · simp at h
    · rename_i ps hps
      simp only [List.mem_map] at h
      obtain ⟨q, hq, heq⟩ := h
      injection heq with _ hqp
      subst hqp
      rw [List.mem_flatMap]
      refine ⟨d, hm d ?_, by simp [hps, hq]⟩
      unfold resolve at hd
      exact List.mem_of_find?_eq_some hd

theorem mem_wrap {st : Step} {X : List Step} (h : st ∈ Step.push :: X ++ [Step.pop])
    (hne1 : st ≠ .push) (hne2 : st ≠ .pop) : st ∈ X := by
  simp only [List.cons_append, List.mem_cons, List.mem_append] at h
  rcases h with h | h | h | h
  · exact absurd h hne1
  · exact h
  · exact absurd h hne2
  · cases h

theorem prim_mem_expand0 {tbl : Table} {U m : List Cls} (hm : ∀ x ∈ m, x ∈ U) {c o : Cls} {e : Ev}
    {p : Prim} (h : Step.prim o p ∈ expand0 tbl m c e) : p ∈ ev0Prims tbl U e := by
  cases e with
  | prim q =>
    simp only [expand0, List.mem_singleton] at h
    injection h with _ h; subst h; simp [ev0Prims]
  | callMeth meth key => exact prim_mem_expandMeth hm h
  | callInit d => simp [expand0] at h

theorem prim_mem_expand1 {tbl : Table} {U m : List Cls} (hm : ∀ x ∈ m, x ∈ U) {c o : Cls} {e : Ev}
    {p : Prim} (h : Step.prim o p ∈ expand1 tbl m c e) : p ∈ evPrims tbl U e := by
  cases e with
  | prim q =>
    simp only [expand1, List.mem_singleton] at h
    injection h with _ h; subst h; simp [evPrims]
  | callMeth meth key => exact prim_mem_expandMeth hm h
  | callInit d =>
    simp only [expand1] at h
    simp only [evPrims]
    cases hd : initOf tbl d with
    | absent => rw [hd] at h; simp at h
    | object => rw [hd] at h; simp at h
    | unknown => rw [hd] at h; simp at h
    | evs pre sup post =>
      rw [hd] at h
      cases sup with
      | true => simp at h
      | false =>
        obtain ⟨e', he', hp⟩ := List.mem_flatMap.1 (mem_wrap h (by simp) (by simp))
        simp only [List.mem_flatMap]
        exact ⟨e', he', prim_mem_expand0 hm hp⟩

theorem prim_mem_trace {tbl : Table} {U m : List Cls} (hm : ∀ x ∈ m, x ∈ U) {o : Cls} {p : Prim}
    (h : Step.prim o p ∈ trace tbl m) : p ∈ allPrims tbl U := by
  unfold trace at h
  obtain ⟨c, hc, hst⟩ := mem_chainTrace.1 h
  have hcU : c ∈ U := hm c (exe_subset hc)
  unfold stepsOf at hst
  cases hi : initOf tbl c with
  | absent => rw [hi] at hst; simp at hst
  | object => rw [hi] at hst; simp at hst
  | unknown => rw [hi] at hst; simp at hst
  | evs pre sup post =>
    rw [hi] at hst
    simp only [List.cons_append, List.append_assoc] at hst
    have hst' : Step.prim o p ∈ pre.flatMap (expand1 tbl m c) ++ post.flatMap (expand1 tbl m c) := by
      rcases List.mem_cons.1 hst with h' | h'
      · cases h'
      · rcases List.mem_append.1 h' with h' | h'
        · exact List.mem_append_left _ h'
        · rcases List.mem_append.1 h' with h' | h'
          · exact List.mem_append_right _ h'
          · simp at h'
    unfold allPrims
    rw [List.mem_flatMap]
    refine ⟨c, hcU, ?_⟩
    rw [initEvs_eq hi, List.mem_flatMap]
    rcases List.mem_append.1 hst' with h' | h'
    · obtain ⟨e, he, hp⟩ := List.mem_flatMap.1 h'
      exact ⟨e, List.mem_append_left _ he, prim_mem_expand1 hm hp⟩
    · obtain ⟨e, he, hp⟩ := List.mem_flatMap.1 h'
      exact ⟨e, List.mem_append_right _ he, prim_mem_expand1 hm hp⟩

/-! ### the components of `checks` -/

structure Checked (tbl : Table) (blocks : List Cls) (u : Universe) : Prop where
  univ : mkUniverse tbl blocks = some u
  nodup : blocks.Nodup
  mnodup : ∀ mb ∈ u.mros, mb.Nodup
  names : checkNames tbl u.mros u.U = true
  chain : checkChain tbl u.mros u.U = true
  calls : checkCalls tbl u.U = true
  kwf : functional (kwPairs (allPrims tbl u.U)) = true
  bindf : functional (bindPairs (allPrims tbl u.U)) = true
  kinds : ∀ b ∈ bindPairs (allPrims tbl u.U), b.1 ∉ derivedAttrs (allPrims tbl u.U)

theorem checked_of_checks {tbl : Table} {blocks : List Cls} (h : checks tbl blocks = true) :
    ∃ u, Checked tbl blocks u := by
  unfold checks at h
  split at h
  · cases h
  · rename_i u hu
    simp only [Bool.and_eq_true, decide_eq_true_eq, List.all_eq_true, Bool.not_eq_true',
      List.contains_eq_mem, decide_eq_false_iff_not] at h
    obtain ⟨⟨⟨⟨⟨⟨⟨h1, h2⟩, h3⟩, h4⟩, h5⟩, h6⟩, h7⟩, h8⟩ := h
    exact ⟨u, ⟨hu, h1, h2, h3, h4, h5, h6, h7, h8⟩⟩

theorem Checked.legit {tbl : Table} {blocks : List Cls} {u : Universe} (hc : Checked tbl blocks u)
    {bs m : List Cls} (hp : bs.Perm blocks) (hm : mroAdhoc tbl bs = some m) : Legit u m :=
  legit_of_mroAdhoc hc.univ hc.nodup hc.mnodup hp hm

/-- the defaults / bindings recorded in the table for the universe -/
def dfltOf (tbl : Table) (u : Universe) (k : Sym) : Sym :=
  (assoc k (kwPairs (allPrims tbl u.U))).getD 0

def keyOfAttr (tbl : Table) (u : Universe) (a : Sym) : Option Sym :=
  assoc a (bindPairs (allPrims tbl u.U))

theorem stepOK_of_checked {tbl : Table} {blocks : List Cls} {u : Universe}
    (hc : Checked tbl blocks u) {m : List Cls} (hl : Legit u m) :
    ∀ st ∈ trace tbl m, StepOK (dfltOf tbl u) (keyOfAttr tbl u) st := by
  intro st hst
  cases st with
  | prim o p =>
    have hp := prim_mem_trace (fun x hx => (hl.mem x).1 hx) hst
    cases p with
    | read a => trivial
    | mayRead a => trivial
    | write a src =>
      simp only [StepOK, keyOfAttr]
      apply assoc_none
      intro b hb hba
      exact hc.kinds b hb (hba ▸ mem_derived_write hp)
    | ensure a =>
      simp only [StepOK, keyOfAttr]
      apply assoc_none
      intro b hb hba
      exact hc.kinds b hb (hba ▸ mem_derived_ensure hp)
    | setdef k d =>
      simp only [StepOK, dfltOf]
      rw [assoc_of_functional hc.kwf (mem_kwPairs_setdef hp)]
      rfl
    | bind a k d =>
      simp only [StepOK, dfltOf, keyOfAttr]
      rw [assoc_of_functional hc.kwf (mem_kwPairs_bind hp),
        assoc_of_functional hc.bindf (mem_bindPairs hp)]
      exact ⟨rfl, rfl⟩
  | push => trivial
  | pop => trivial
  | objInit => trivial
  | noMethod m => trivial
  | unsupported c => trivial

theorem onClass_eq {tbl : Table} {u : Universe} {m1 m2 : List Cls} (h1 : Legit u m1)
    (h2 : Legit u m2) (a : Sym) : onClass tbl m1 a = onClass tbl m2 a := by
  unfold onClass resolve
  rw [Bool.eq_iff_iff]
  simp only [List.find?_isSome]
  constructor
  · rintro ⟨x, hx, hp⟩; exact ⟨x, (h2.mem x).2 ((h1.mem x).1 hx), hp⟩
  · rintro ⟨x, hx, hp⟩; exact ⟨x, (h1.mem x).2 ((h2.mem x).1 hx), hp⟩

/-- **configuration**: two arrangements that both construct end with the same view -/
theorem view_eq_of_checked {tbl : Table} {blocks : List Cls} {u : Universe}
    (hc : Checked tbl blocks u) {m1 m2 : List Cls} (h1 : Legit u m1) (h2 : Legit u m2)
    {s1 s2 : State} (hr1 : run tbl m1 = (s1, none)) (hr2 : run tbl m2 = (s2, none)) (a : Sym) :
    view s1 a = view s2 a := by
  unfold run at hr1 hr2
  obtain ⟨hi1, hc1⟩ := exec_inv _ _ _ (stepOK_of_checked hc h1) (inv_empty _ _) hr1
  obtain ⟨hi2, hc2⟩ := exec_inv _ _ _ (stepOK_of_checked hc h2) (inv_empty _ _) hr2
  rw [view_of_inv hi1, view_of_inv hi2, hc1 a, hc2 a]
  have hcls : onClass tbl m1 = onClass tbl m2 := funext (onClass_eq h1 h2)
  have hany : (trace tbl m1).any (Step.creates (onClass tbl m1) a)
      = (trace tbl m2).any (Step.creates (onClass tbl m2) a) := by
    rw [hcls, Bool.eq_iff_iff]
    simp only [List.any_eq_true]
    constructor
    · rintro ⟨st, hst, hp⟩
      exact ⟨st, (trace_mem_iff h1 h2 hc.names hc.chain hc.calls st).1 hst, hp⟩
    · rintro ⟨st, hst, hp⟩
      exact ⟨st, (trace_mem_iff h1 h2 hc.names hc.chain hc.calls st).2 hst, hp⟩
  rw [hany]

end Gep.Mro

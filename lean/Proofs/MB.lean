/-
  Proofs/MB.lean — helper lemmas about Gen/MBR.lean (the ℝ instantiation of Scalar/MB.lean.in): the
  weighted imaginary-part sum as a `List.sum`, its congruence and linearity, and the point-wise
  algebra of the einsum contractions (properties C04, C05).  Complex identities are proved after the
  identification `toC : Cx ℝ ≅ ℂ` of Proofs/Evol.lean.
-/
import Gen.MBR
import Proofs.EvolOps
import Mathlib.Algebra.BigOperators.Group.List.Basic
import Mathlib.Tactic.Ring
import Mathlib.Tactic.Linarith

namespace Gep.R.MB
open Gep Gep.R Gep.R.Evol

/-! ### the sum Σ_k wg_k · Im f_k -/

theorem foldl_add_eq_sum {α : Type} (g : α → ℝ) (l : List α) (a : ℝ) :
    l.foldl (fun acc x => acc + g x) a = a + (l.map g).sum := by
  induction l generalizing a with
  | nil => simp
  | cons x xs ih => simp only [List.foldl_cons, List.map_cons, List.sum_cons, ih]; ring

theorem sumIm_eq (pts : List Pt) (f : Pt → Cx ℝ) :
    sumIm pts f = (pts.map (fun pt => pt.wg * (f pt).im)).sum := by
  unfold sumIm
  rw [foldl_add_eq_sum (fun pt => pt.wg * (f pt).im) pts 0]; simp

theorem sumIm_congr (pts : List Pt) (f g : Pt → Cx ℝ) (h : ∀ pt ∈ pts, (f pt).im = (g pt).im) :
    sumIm pts f = sumIm pts g := by
  rw [sumIm_eq, sumIm_eq]
  congr 1
  apply List.map_congr_left
  intro pt hpt; rw [h pt hpt]

theorem sumIm_add (pts : List Pt) (f g : Pt → Cx ℝ) :
    sumIm pts (fun pt => f pt + g pt) = sumIm pts f + sumIm pts g := by
  simp only [sumIm_eq]
  induction pts with
  | nil => simp
  | cons x xs ih =>
    simp only [List.map_cons, List.sum_cons]
    rw [ih]; simp only [Cx.add_im]; ring

theorem sumIm_smul (pts : List Pt) (a : ℝ) (f : Pt → Cx ℝ) :
    sumIm pts (fun pt => Cx.smul a (f pt)) = a * sumIm pts f := by
  simp only [sumIm_eq]
  induction pts with
  | nil => simp
  | cons x xs ih =>
    simp only [List.map_cons, List.sum_cons]
    rw [ih]; simp only [Cx.smul_im]; ring

/-- Σ wg·Im(a·f) = a·Σ wg·Im f when the two integrands are related by a real factor in ℂ -/
theorem sumIm_of_toC_smul (pts : List Pt) (a : ℝ) (f g : Pt → Cx ℝ)
    (h : ∀ pt ∈ pts, toC (f pt) = (a : ℂ) * toC (g pt)) :
    sumIm pts f = a * sumIm pts g := by
  rw [← sumIm_smul]
  apply sumIm_congr
  intro pt hpt
  have := congrArg Complex.im (h pt hpt)
  simpa using this

/-! ### componentwise extensionality -/

theorem V3_ext {a b : V3} (hq : a.q = b.q) (hg : a.g = b.g) (hn : a.n = b.n) : a = b := by
  cases a; cases b; simp_all

theorem smul_zero_cx (z : Cx ℝ) : Cx.smul 0 z = czero := by
  apply Cx_ext <;> simp [czero]

theorem czero_mul (z : Cx ℝ) : czero * z = czero := by
  apply toC_injective; simp

theorem mul_czero (z : Cx ℝ) : z * czero = czero := by
  apply toC_injective; simp

/-! ### the contractions are linear in the moments -/

theorem toC_pwTerm (cf : Cx ℝ) (r : R3) (w h : V3) :
    toC (pwTerm cf r w h) =
      toC cf * ((r.q : ℂ) * toC w.q * toC h.q + (r.g : ℂ) * toC w.g * toC h.g + (r.n : ℂ) * toC w.n * toC h.n) := by
  simp only [pwTerm, toC_add, toC_mul, toC_smul]; ring

theorem toC_cch (cf : Cx ℝ) (pw : PWS) (w0 w1 w2 h : V3) :
    toC (cch cf pw w0 w1 w2 h) =
      toC cf * (((pw.r0.q : ℂ) * toC w0.q + (pw.r1.q : ℂ) * toC w1.q + (pw.r2.q : ℂ) * toC w2.q) * toC h.q +
                ((pw.r0.g : ℂ) * toC w0.g + (pw.r1.g : ℂ) * toC w1.g + (pw.r2.g : ℂ) * toC w2.g) * toC h.g +
                ((pw.r0.n : ℂ) * toC w0.n + (pw.r1.n : ℂ) * toC w1.n + (pw.r2.n : ℂ) * toC w2.n) * toC h.n) := by
  simp only [cch, toC_add, toC_pwTerm]; ring

theorem toC_fwdTerm (cf : Cx ℝ) (w h : V3) :
    toC (fwdTerm cf w h) = toC cf * (toC w.q * toC h.q + toC w.g * toC h.g + toC w.n * toC h.n) := by
  simp only [fwdTerm, toC_add, toC_mul]; ring

theorem cch_linear (cf : Cx ℝ) (pw : PWS) (w0 w1 w2 h1 h2 : V3) (a : ℝ) :
    cch cf pw w0 w1 w2 (V3.add (V3.smul a h1) h2) =
      Cx.smul a (cch cf pw w0 w1 w2 h1) + cch cf pw w0 w1 w2 h2 := by
  apply toC_injective
  simp only [toC_cch, toC_add, toC_smul, V3.add, V3.smul]; ring

theorem fwdTerm_linear (cf : Cx ℝ) (w h1 h2 : V3) (a : ℝ) :
    fwdTerm cf w (V3.add (V3.smul a h1) h2) = Cx.smul a (fwdTerm cf w h1) + fwdTerm cf w h2 := by
  apply toC_injective
  simp only [toC_fwdTerm, toC_add, toC_smul, V3.add, V3.smul]; ring

theorem toC_R4dot (r : R4) (h : V4) :
    toC (r.dot h) = (r.s : ℂ) * toC h.s + (r.g : ℂ) * toC h.g + (r.u : ℂ) * toC h.u + (r.d : ℂ) * toC h.d := by
  simp only [R4.dot, toC_add, toC_smul]

theorem rot_linear (f : Frot) (h1 h2 : V4) (a : ℝ) :
    rot f (V4.add (V4.smul a h1) h2) = V3.add (V3.smul a (rot f h1)) (rot f h2) := by
  apply V3_ext <;> apply toC_injective <;>
    simp only [rot, V3.add, V3.smul, V4.add, V4.smul, toC_R4dot, toC_add, toC_smul] <;> ring

theorem rotC_linear (chg : R3) (f : Frot) (h1 h2 : V4) (a : ℝ) :
    rotC chg f (V4.add (V4.smul a h1) h2) = V3.add (V3.smul a (rotC chg f h1)) (rotC chg f h2) := by
  apply V3_ext <;> apply toC_injective <;>
    simp only [rotC, V3.add, V3.smul, V4.add, V4.smul, toC_R4dot, toC_add, toC_smul] <;> ring

/-! ### operator algebra -/

theorem M2_combine_entries (asf : ℝ) (e0 e1 : M2) :
    toC (combine asf (e0, e1)).a = toC e0.a + (asf : ℂ) * toC e1.a ∧
    toC (combine asf (e0, e1)).b = toC e0.b + (asf : ℂ) * toC e1.b ∧
    toC (combine asf (e0, e1)).c = toC e0.c + (asf : ℂ) * toC e1.c ∧
    toC (combine asf (e0, e1)).d = toC e0.d + (asf : ℂ) * toC e1.d := by
  simp [combine, M2.add, M2.smulR]

theorem combine_one_zero (asf : ℝ) : Op3.combine asf ⟨M2.one, cone⟩ ⟨M2.zero, czero⟩ = Op3.one := by
  have hs : combine asf (M2.one, M2.zero) = M2.one := by
    apply toM_injective; simp [combine]
  have hn : cone + Cx.smul asf czero = cone := by apply toC_injective; simp
  simp [Op3.combine, Op3.one, hs, hn]

end Gep.R.MB

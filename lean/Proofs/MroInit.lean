/-
  Proofs/MroInit.lean — helper lemmas for property C20: the step interpreter of Model/Mro.lean.
-/
import Model.Mro
import Mathlib.Data.List.Basic

namespace Gep.Mro
open List

/-! ### association lists -/

theorem getAttr_setAttr_self (a : Sym) (v : WVal) : ∀ l, getAttr a (setAttr a v l) = some v := by
  intro l
  induction l with
  | nil => simp [setAttr, getAttr]
  | cons p t ih =>
    obtain ⟨b, w⟩ := p
    simp only [setAttr]
    split
    · rename_i h; simp [getAttr, h]
    · rename_i h; simp [getAttr, h, ih]

theorem getAttr_setAttr_ne {a b : Sym} (v : WVal) (hne : b ≠ a) :
    ∀ l, getAttr b (setAttr a v l) = getAttr b l := by
  intro l
  induction l with
  | nil => simp [setAttr, getAttr, Ne.symm hne]
  | cons p t ih =>
    obtain ⟨c, w⟩ := p
    simp only [setAttr]
    split
    · rename_i h
      subst h
      simp [getAttr, Ne.symm hne]
    · rename_i h
      simp only [getAttr, ih]

theorem hasAttr_eq (a : Sym) : ∀ l, hasAttr a l = (getAttr a l).isSome := by
  intro l
  induction l with
  | nil => simp [hasAttr, getAttr]
  | cons p t ih =>
    obtain ⟨b, w⟩ := p
    unfold hasAttr at ih ⊢
    simp only [List.any_cons, getAttr]
    by_cases h : b = a
    · simp [h]
    · simp [h, ih]

theorem kwGet_append (k : Sym) (g : List (Sym × Sym)) : ∀ f,
    kwGet k (f ++ g) = (kwGet k f).or (kwGet k g) := by
  intro f
  induction f with
  | nil => simp [kwGet]
  | cons p t ih =>
    obtain ⟨j, v⟩ := p
    simp only [List.cons_append, kwGet]
    split <;> simp [ih]

theorem kwGet_setdefault {k k' d v : Sym} {f : List (Sym × Sym)}
    (h : kwGet k' (kwSetdefault k d f) = some v) : kwGet k' f = some v ∨ (k' = k ∧ v = d) := by
  unfold kwSetdefault at h
  split at h
  · exact Or.inl h
  · rw [kwGet_append] at h
    cases hf : kwGet k' f with
    | some w => rw [hf] at h; simp at h; subst h; exact Or.inl rfl
    | none =>
      rw [hf] at h
      simp only [Option.none_or, kwGet] at h
      split at h
      · rename_i hk; injection h with h; exact Or.inr ⟨hk.symm, h.symm⟩
      · cases h

theorem kwGet_setdefault_self (k d : Sym) (f : List (Sym × Sym)) :
    ∃ v, kwGet k (kwSetdefault k d f) = some v := by
  unfold kwSetdefault
  split
  · rename_i v hv; exact ⟨v, hv⟩
  · rename_i hn
    rw [kwGet_append, hn]
    simp [kwGet]

/-! ### the configuration reached by a successful run -/

/-- the defaults and bindings used by a step agree with `dflt` / `keyOf` -/
def StepOK (dflt : Sym → Sym) (keyOf : Sym → Option Sym) : Step → Prop
  | .prim _ (.setdef k d) => d = dflt k
  | .prim _ (.bind a k d) => d = dflt k ∧ keyOf a = some k
  | .prim _ (.write a _) => keyOf a = none
  | .prim _ (.ensure a) => keyOf a = none
  | _ => True

structure Inv (dflt : Sym → Sym) (keyOf : Sym → Option Sym) (s : State) : Prop where
  kw : ∀ f ∈ s.kw, ∀ k v, kwGet k f = some v → v = dflt k
  bound : ∀ a v, getAttr a s.attrs = some (.kw v) → ∃ k, keyOf a = some k ∧ v = dflt k
  derived : ∀ a o src, getAttr a s.attrs = some (.derived o src) → keyOf a = none

/-- the step creates attribute `a` if it is not there yet -/
def Step.creates (cls : Sym → Bool) (a : Sym) : Step → Bool
  | .prim _ (.write b _) => b == a
  | .prim _ (.bind b _ _) => b == a
  | .prim _ (.ensure b) => b == a && !cls a
  | _ => false

theorem inv_empty (dflt : Sym → Sym) (keyOf : Sym → Option Sym) : Inv dflt keyOf ⟨[], []⟩ := by
  refine ⟨?_, ?_, ?_⟩
  · intro f hf; cases hf
  · intro a v h; simp [getAttr] at h
  · intro a o src h; simp [getAttr] at h

theorem topFrame_inv {dflt : Sym → Sym} {keyOf : Sym → Option Sym} {s : State}
    (hi : Inv dflt keyOf s) : ∀ k v, kwGet k (topFrame s) = some v → v = dflt k := by
  intro k v h
  unfold topFrame at h
  cases hkw : s.kw with
  | nil => rw [hkw] at h; simp [kwGet] at h
  | cons f fs =>
    rw [hkw] at h
    exact hi.kw f (by rw [hkw]; exact List.mem_cons_self) k v h

theorem execStep_inv {cls : Sym → Bool} {dflt : Sym → Sym} {keyOf : Sym → Option Sym}
    {s s' : State} {st : Step} (hok : StepOK dflt keyOf st) (hi : Inv dflt keyOf s)
    (h : execStep cls s st = .ok s') :
    Inv dflt keyOf s' ∧ ∀ a, (getAttr a s'.attrs).isSome
      = ((getAttr a s.attrs).isSome || st.creates cls a) := by
  have htail : ∀ f ∈ s.kw.tail, ∀ k v, kwGet k f = some v → v = dflt k :=
    fun f hf => hi.kw f (List.mem_of_mem_tail hf)
  cases st with
  | prim o p =>
    cases p with
    | read a =>
      simp only [execStep] at h
      split at h
      · injection h with h; subst h; exact ⟨hi, by simp [Step.creates]⟩
      · cases h
    | mayRead a =>
      simp only [execStep] at h
      split at h
      · injection h with h; subst h; exact ⟨hi, by simp [Step.creates]⟩
      · cases h
    | write a src =>
      simp only [execStep] at h
      injection h with h; subst h
      simp only [StepOK] at hok
      refine ⟨⟨hi.kw, ?_, ?_⟩, ?_⟩
      · intro b v hb
        by_cases hba : b = a
        · subst hba; rw [getAttr_setAttr_self] at hb; cases hb
        · rw [getAttr_setAttr_ne _ hba] at hb; exact hi.bound b v hb
      · intro b o' src' hb
        by_cases hba : b = a
        · subst hba; exact hok
        · rw [getAttr_setAttr_ne _ hba] at hb; exact hi.derived b o' src' hb
      · intro b
        by_cases hba : b = a
        · subst hba; simp [getAttr_setAttr_self, Step.creates]
        · simp [getAttr_setAttr_ne _ hba, Step.creates, Ne.symm hba]
    | ensure a =>
      simp only [execStep] at h
      simp only [StepOK] at hok
      split at h
      · rename_i hav
        injection h with h; subst h
        refine ⟨hi, ?_⟩
        intro b
        by_cases hba : b = a
        · subst hba
          simp only [Step.creates, beq_self_eq_true, Bool.true_and]
          simp only [Bool.or_eq_true, hasAttr_eq] at hav
          rcases hav with hav | hav
          · simp [hav]
          · simp [hav]
        · simp [Step.creates, Ne.symm hba]
      · rename_i hav
        injection h with h; subst h
        simp only [Bool.or_eq_true, not_or, Bool.not_eq_true, hasAttr_eq] at hav
        refine ⟨⟨hi.kw, ?_, ?_⟩, ?_⟩
        · intro b v hb
          by_cases hba : b = a
          · subst hba; rw [getAttr_setAttr_self] at hb; cases hb
          · rw [getAttr_setAttr_ne _ hba] at hb; exact hi.bound b v hb
        · intro b o' src' hb
          by_cases hba : b = a
          · subst hba; exact hok
          · rw [getAttr_setAttr_ne _ hba] at hb; exact hi.derived b o' src' hb
        · intro b
          by_cases hba : b = a
          · subst hba; simp [getAttr_setAttr_self, Step.creates, hav.2]
          · simp [getAttr_setAttr_ne _ hba, Step.creates, Ne.symm hba]
    | setdef k d =>
      simp only [execStep] at h
      injection h with h; subst h
      simp only [StepOK] at hok
      refine ⟨⟨?_, hi.bound, hi.derived⟩, by simp [Step.creates, setTop]⟩
      intro f hf k' v hk
      simp only [setTop, List.mem_cons] at hf
      rcases hf with rfl | hf
      · rcases kwGet_setdefault hk with h1 | ⟨rfl, rfl⟩
        · exact topFrame_inv hi k' v h1
        · exact hok
      · exact htail f hf k' v hk
    | bind a k d =>
      simp only [execStep] at h
      injection h with h; subst h
      simp only [StepOK] at hok
      obtain ⟨hd, hkey⟩ := hok
      have hfr : ∀ k' v, kwGet k' (kwSetdefault k d (topFrame s)) = some v → v = dflt k' := by
        intro k' v hk
        rcases kwGet_setdefault hk with h1 | ⟨rfl, rfl⟩
        · exact topFrame_inv hi k' v h1
        · exact hd
      refine ⟨⟨?_, ?_, ?_⟩, ?_⟩
      · intro f hf k' v hk
        simp only [List.mem_cons] at hf
        rcases hf with rfl | hf
        · exact hfr k' v hk
        · exact htail f hf k' v hk
      · intro b v hb
        by_cases hba : b = a
        · subst hba
          rw [getAttr_setAttr_self] at hb
          injection hb with hb; injection hb with hb
          obtain ⟨w, hw⟩ := kwGet_setdefault_self k d (topFrame s)
          rw [hw] at hb
          simp only [Option.getD_some] at hb
          subst hb
          exact ⟨k, hkey, hfr k w hw⟩
        · rw [getAttr_setAttr_ne _ hba] at hb; exact hi.bound b v hb
      · intro b o' src' hb
        by_cases hba : b = a
        · subst hba; rw [getAttr_setAttr_self] at hb; cases hb
        · rw [getAttr_setAttr_ne _ hba] at hb; exact hi.derived b o' src' hb
      · intro b
        by_cases hba : b = a
        · subst hba; simp [getAttr_setAttr_self, Step.creates]
        · simp [getAttr_setAttr_ne _ hba, Step.creates, Ne.symm hba]
  | push =>
    simp only [execStep] at h
    injection h with h; subst h
    refine ⟨⟨?_, hi.bound, hi.derived⟩, by simp [Step.creates]⟩
    intro f hf k v hk
    simp only [List.mem_cons] at hf
    rcases hf with rfl | hf
    · exact topFrame_inv hi k v hk
    · exact hi.kw f hf k v hk
  | pop =>
    simp only [execStep] at h
    injection h with h; subst h
    exact ⟨⟨htail, hi.bound, hi.derived⟩, by simp [Step.creates]⟩
  | objInit =>
    simp only [execStep] at h
    split at h
    · injection h with h; subst h; exact ⟨hi, by simp [Step.creates]⟩
    · cases h
  | noMethod m => simp [execStep] at h
  | unsupported c => simp [execStep] at h

theorem exec_inv {cls : Sym → Bool} {dflt : Sym → Sym} {keyOf : Sym → Option Sym} :
    ∀ (steps : List Step) (s s' : State), (∀ st ∈ steps, StepOK dflt keyOf st) →
      Inv dflt keyOf s → exec cls steps s = (s', none) →
      Inv dflt keyOf s' ∧ ∀ a, (getAttr a s'.attrs).isSome
        = ((getAttr a s.attrs).isSome || steps.any (Step.creates cls a)) := by
  intro steps
  induction steps with
  | nil =>
    intro s s' _ hi h
    simp only [exec, Prod.mk.injEq, and_true] at h
    subst h
    exact ⟨hi, by simp⟩
  | cons st rest ih =>
    intro s s' hok hi h
    simp only [exec] at h
    cases hs : execStep cls s st with
    | error e => rw [hs] at h; simp at h
    | ok s1 =>
      rw [hs] at h
      simp only at h
      obtain ⟨hi1, hc1⟩ := execStep_inv (hok st List.mem_cons_self) hi hs
      obtain ⟨hi2, hc2⟩ := ih s1 s' (fun x hx => hok x (List.mem_cons_of_mem _ hx)) hi1 h
      refine ⟨hi2, ?_⟩
      intro a
      rw [hc2 a, hc1 a, List.any_cons, Bool.or_assoc]

/-- the configuration of a state that satisfies the invariant is determined by which attributes
    exist -/
theorem view_of_inv {dflt : Sym → Sym} {keyOf : Sym → Option Sym} {s : State}
    (hi : Inv dflt keyOf s) (a : Sym) :
    view s a = if (getAttr a s.attrs).isSome then some ((keyOf a).map dflt) else none := by
  unfold view
  cases h : getAttr a s.attrs with
  | none => simp
  | some w =>
    cases w with
    | kw v =>
      obtain ⟨k, hk, hv⟩ := hi.bound a v h
      simp [kwView, hk, hv]
    | derived o src =>
      simp [kwView, hi.derived a o src h]



/-! ### when does a run succeed -/

/-- attribute `a` can be loaded from the instance in state `s` -/
def avail (cls : Sym → Bool) (s : State) (a : Sym) : Bool := hasAttr a s.attrs || cls a

theorem hasAttr_setAttr (a b : Sym) (v : WVal) (l : List (Sym × WVal)) :
    hasAttr b (setAttr a v l) = (hasAttr b l || b == a) := by
  rw [hasAttr_eq, hasAttr_eq]
  by_cases h : b = a
  · subst h; simp [getAttr_setAttr_self]
  · simp [getAttr_setAttr_ne _ h, h]

theorem execStep_clean {cls : Sym → Bool} {s : State} {st : Step} (hc : st.clean = true) :
    ((∀ a, st.needs a = true → avail cls s a = true) →
      ∃ s', execStep cls s st = .ok s' ∧
        ∀ a, avail cls s' a = (avail cls s a || st.provides a)) ∧
    (∀ s', execStep cls s st = .ok s' → ∀ a, st.needs a = true → avail cls s a = true) := by
  cases st with
  | prim o p =>
    cases p with
    | read a =>
      constructor
      · intro h
        have := h a (by simp [Step.needs])
        unfold avail at this
        exact ⟨s, by simp [execStep, this], by simp [Step.provides]⟩
      · intro s' h b hb
        simp only [Step.needs, beq_iff_eq] at hb; subst hb
        simp only [execStep] at h
        split at h
        · rename_i hav; exact hav
        · cases h
    | mayRead a =>
      constructor
      · intro h
        have := h a (by simp [Step.needs])
        unfold avail at this
        exact ⟨s, by simp [execStep, this], by simp [Step.provides]⟩
      · intro s' h b hb
        simp only [Step.needs, beq_iff_eq] at hb; subst hb
        simp only [execStep] at h
        split at h
        · rename_i hav; exact hav
        · cases h
    | write a src =>
      constructor
      · intro _
        refine ⟨_, rfl, ?_⟩
        intro b
        simp only [avail, hasAttr_setAttr, Step.provides]
        by_cases hba : b = a
        · subst hba; simp
        · have : (a == b) = false := by simpa using Ne.symm hba
          have h2 : (b == a) = false := by simpa using hba
          simp [h2, this]
      · intro s' _ b hb; simp [Step.needs] at hb
    | ensure a =>
      constructor
      · intro _
        simp only [execStep]
        split
        · rename_i hav
          refine ⟨s, rfl, ?_⟩
          intro b
          simp only [Step.provides]
          by_cases hba : a = b
          · subst hba; unfold avail; simp [hav]
          · have : (a == b) = false := by simpa using hba
            simp [this]
        · refine ⟨_, rfl, ?_⟩
          intro b
          simp only [avail, hasAttr_setAttr, Step.provides]
          by_cases hba : b = a
          · subst hba; simp
          · have : (a == b) = false := by simpa using Ne.symm hba
            have h2 : (b == a) = false := by simpa using hba
            simp [h2, this]
      · intro s' _ b hb; simp [Step.needs] at hb
    | setdef k d =>
      constructor
      · intro _; exact ⟨_, rfl, by simp [avail, setTop, Step.provides]⟩
      · intro s' _ b hb; simp [Step.needs] at hb
    | bind a k d =>
      constructor
      · intro _
        refine ⟨_, rfl, ?_⟩
        intro b
        simp only [avail, hasAttr_setAttr, Step.provides]
        by_cases hba : b = a
        · subst hba; simp
        · have : (a == b) = false := by simpa using Ne.symm hba
          have h2 : (b == a) = false := by simpa using hba
          simp [h2, this]
      · intro s' _ b hb; simp [Step.needs] at hb
  | push =>
    constructor
    · intro _; exact ⟨_, rfl, by simp [avail, Step.provides]⟩
    · intro s' _ b hb; simp [Step.needs] at hb
  | pop =>
    constructor
    · intro _; exact ⟨_, rfl, by simp [avail, Step.provides]⟩
    · intro s' _ b hb; simp [Step.needs] at hb
  | objInit => simp [Step.clean] at hc
  | noMethod m => simp [Step.clean] at hc
  | unsupported c => simp [Step.clean] at hc

/-- A run made of events, calls and returns succeeds **iff** every attribute that a step loads is
    found on the class or was provided by an earlier step.  (Otherwise it stops with
    AttributeError at the first load that is not covered.) -/
theorem exec_ok_iff {cls : Sym → Bool} : ∀ (steps : List Step) (s : State),
    steps.all Step.clean = true →
    ((exec cls steps s).2 = none ↔
      ∀ pre st post, steps = pre ++ st :: post → ∀ a, st.needs a = true →
        (avail cls s a || pre.any (Step.provides a)) = true) := by
  intro steps
  induction steps with
  | nil =>
    intro s _
    simp only [exec, true_iff]
    intro pre st post h
    simp at h
  | cons st rest ih =>
    intro s hc
    simp only [List.all_cons, Bool.and_eq_true] at hc
    obtain ⟨hc1, hc2⟩ := hc
    obtain ⟨hfw, hbw⟩ := execStep_clean (cls := cls) (s := s) hc1
    constructor
    · intro hok pre st' post hdec a hneed
      simp only [exec] at hok
      cases hs : execStep cls s st with
      | error e => rw [hs] at hok; simp at hok
      | ok s1 =>
        rw [hs] at hok
        simp only at hok
        have hneeds := hbw s1 hs
        obtain ⟨s1', hs1', hav⟩ := hfw hneeds
        rw [hs] at hs1'; injection hs1' with hs1'; subst hs1'
        cases pre with
        | nil =>
          simp only [List.nil_append, List.cons.injEq] at hdec
          obtain ⟨rfl, _⟩ := hdec
          simp [hneeds a hneed]
        | cons p pre' =>
          simp only [List.cons_append, List.cons.injEq] at hdec
          obtain ⟨rfl, hrest⟩ := hdec
          have := (ih s1 hc2).1 hok pre' st' post hrest a hneed
          rw [hav a] at this
          simpa [List.any_cons, Bool.or_assoc] using this
    · intro hall
      have hneeds : ∀ a, st.needs a = true → avail cls s a = true := by
        intro a ha
        have := hall [] st rest rfl a ha
        simpa using this
      obtain ⟨s1, hs1, hav⟩ := hfw hneeds
      simp only [exec, hs1]
      apply (ih s1 hc2).2
      intro pre st' post hdec a hneed
      have := hall (st :: pre) st' post (by simp [hdec]) a hneed
      rw [hav a]
      simpa [List.any_cons, Bool.or_assoc] using this

end Gep.Mro

/-
  Proofs/Eff.lean — helper lemmas for Props/C19.lean: closed forms of the standard dipole
  F1, F2 (single fraction) and the region lemmas of the GK dispatch.
-/
import Gen.EffR
import Mathlib.Tactic.Ring
import Mathlib.Tactic.FieldSimp
import Mathlib.Tactic.Linarith
import Mathlib.Tactic.NormNum
import Mathlib.Tactic.Positivity

namespace Gep.R.Eff
open Gep.R

private theorem std_side (M4 lam2 t : ℝ) (hM : 0 < M4) (hl : 0 < lam2) (ht : t ≤ 0) :
    lam2 - t ≠ 0 ∧ M4 - t ≠ 0 ∧ M4 + -t ≠ 0 ∧ (1:ℝ) - t / lam2 ≠ 0 ∧ (1:ℝ) + -t / M4 ≠ 0 := by
  have a : lam2 - t ≠ 0 := by linarith
  have c : M4 - t ≠ 0 := by linarith
  have c' : M4 + -t ≠ 0 := by linarith
  refine ⟨a, c, c', ?_, ?_⟩
  · have : (1:ℝ) - t / lam2 = (lam2 - t) / lam2 := by field_simp
    rw [this]; exact div_ne_zero a hl.ne'
  · have : (1:ℝ) + -t / M4 = (M4 - t) / M4 := by field_simp; ring
    rw [this]; exact div_ne_zero c hM.ne'

/-- standard dipole F1 as one fraction -/
theorem stdF1_closed (mu M4 lam2 t : ℝ) (hM : 0 < M4) (hl : 0 < lam2) (ht : t ≤ 0) :
    stdDipoleF1 mu M4 lam2 t = lam2 ^ 2 * (M4 - mu * t) / ((lam2 - t) ^ 2 * (M4 - t)) := by
  obtain ⟨a, c, c', d, e⟩ := std_side M4 lam2 t hM hl ht
  have hM' := hM.ne'
  have hl' := hl.ne'
  unfold stdDipoleF1 sachsF1 dipoleGD
  field_simp
  ring

/-- standard dipole F2 as one fraction -/
theorem stdF2_closed (mu M4 lam2 t : ℝ) (hM : 0 < M4) (hl : 0 < lam2) (ht : t ≤ 0) :
    stdDipoleF2 mu M4 lam2 t = lam2 ^ 2 * (mu - 1) * M4 / ((lam2 - t) ^ 2 * (M4 - t)) := by
  obtain ⟨a, c, c', d, e⟩ := std_side M4 lam2 t hM hl ht
  have hM' := hM.ne'
  have hl' := hl.ne'
  unfold stdDipoleF2 sachsF2 dipoleGD
  field_simp
  ring

theorem region_dglap (x eta : ℝ) (hx : eta ≤ x) : region x eta = .dglap := by
  unfold region; simp [hx]

theorem region_erbl (x eta : ℝ) (h1 : -eta < x) (h2 : x < eta) : region x eta = .erbl := by
  unfold region
  have : ¬ (x ≥ eta) := not_le.mpr h2
  simp [this, h1, h2]

theorem region_outer (x eta : ℝ) (h : 0 < eta) (hx : x ≤ -eta) : region x eta = .outer := by
  unfold region
  have h1 : ¬ (x ≥ eta) := by intro h1; linarith
  have h2 : ¬ (-eta < x ∧ x < eta) := by intro ⟨h2, _⟩; linarith
  simp [h1, h2]

end Gep.R.Eff

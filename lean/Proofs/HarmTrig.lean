/-
  Proofs/HarmTrig.lean — orthogonality integrals on [0, 2π] and the Fourier coefficients of a
  trigonometric polynomial (helper lemmas for property C08; pure Mathlib, no model).
-/
import Mathlib.Analysis.SpecialFunctions.Integrals.Basic
import Mathlib.Tactic.Ring
import Mathlib.Tactic.FieldSimp
import Mathlib.Tactic.Linarith
import Mathlib.Tactic.NormNum

namespace Gep.R.HarmTrig
open Real intervalIntegral

/-- ∫₀^{2π} cos(m x) dx for an integer m -/
theorem int_cos_int (m : ℤ) : ∫ x in (0:ℝ)..2 * π, cos ((m:ℝ) * x) = if m = 0 then 2 * π else 0 := by
  split_ifs with h
  · subst h; simp
  · have hm : (m:ℝ) ≠ 0 := by exact_mod_cast h
    rw [integral_comp_mul_left (fun x => cos x) hm, integral_cos]
    have h1 : sin ((m:ℝ) * (2 * π)) = 0 := by
      have : (m:ℝ) * (2 * π) = ((2 * m : ℤ) : ℝ) * π := by push_cast; ring
      rw [this]; exact sin_int_mul_pi _
    simp [h1]

/-- ∫₀^{2π} sin(m x) dx = 0 for an integer m -/
theorem int_sin_int (m : ℤ) : ∫ x in (0:ℝ)..2 * π, sin ((m:ℝ) * x) = 0 := by
  by_cases h : m = 0
  · subst h; simp
  · have hm : (m:ℝ) ≠ 0 := by exact_mod_cast h
    rw [integral_comp_mul_left (fun x => sin x) hm, integral_sin]
    have h1 : cos ((m:ℝ) * (2 * π)) = 1 := cos_int_mul_two_pi m
    simp [h1]

private theorem cont_cos (c : ℝ) : Continuous fun x : ℝ => cos (c * x) := by fun_prop
private theorem cont_sin (c : ℝ) : Continuous fun x : ℝ => sin (c * x) := by fun_prop

theorem int_cos_mul_cos (k n : ℤ) :
    ∫ x in (0:ℝ)..2 * π, cos ((k:ℝ) * x) * cos ((n:ℝ) * x) =
      ((if k - n = 0 then 2 * π else 0) + (if k + n = 0 then 2 * π else 0)) / 2 := by
  have h : ∀ x : ℝ, cos ((k:ℝ) * x) * cos ((n:ℝ) * x) =
      (cos (((k - n : ℤ) : ℝ) * x) + cos (((k + n : ℤ) : ℝ) * x)) / 2 := by
    intro x
    push_cast
    rw [sub_mul, add_mul, cos_sub, cos_add]; ring
  simp_rw [h]
  rw [integral_div, integral_add ((cont_cos _).intervalIntegrable _ _) ((cont_cos _).intervalIntegrable _ _),
    int_cos_int, int_cos_int]

theorem int_sin_mul_sin (k n : ℤ) :
    ∫ x in (0:ℝ)..2 * π, sin ((k:ℝ) * x) * sin ((n:ℝ) * x) =
      ((if k - n = 0 then 2 * π else 0) - (if k + n = 0 then 2 * π else 0)) / 2 := by
  have h : ∀ x : ℝ, sin ((k:ℝ) * x) * sin ((n:ℝ) * x) =
      (cos (((k - n : ℤ) : ℝ) * x) - cos (((k + n : ℤ) : ℝ) * x)) / 2 := by
    intro x
    push_cast
    rw [sub_mul, add_mul, cos_sub, cos_add]; ring
  simp_rw [h]
  rw [integral_div, integral_sub ((cont_cos _).intervalIntegrable _ _) ((cont_cos _).intervalIntegrable _ _),
    int_cos_int, int_cos_int]

theorem int_sin_mul_cos (k n : ℤ) :
    ∫ x in (0:ℝ)..2 * π, sin ((k:ℝ) * x) * cos ((n:ℝ) * x) = 0 := by
  have h : ∀ x : ℝ, sin ((k:ℝ) * x) * cos ((n:ℝ) * x) =
      (sin (((k + n : ℤ) : ℝ) * x) + sin (((k - n : ℤ) : ℝ) * x)) / 2 := by
    intro x
    push_cast
    rw [sub_mul, add_mul, sin_sub, sin_add]; ring
  simp_rw [h]
  rw [integral_div, integral_add ((cont_sin _).intervalIntegrable _ _) ((cont_sin _).intervalIntegrable _ _),
    int_sin_int, int_sin_int]
  simp

theorem int_cos_mul_sin (k n : ℤ) :
    ∫ x in (0:ℝ)..2 * π, cos ((k:ℝ) * x) * sin ((n:ℝ) * x) = 0 := by
  simp_rw [mul_comm (cos _) (sin _)]
  exact int_sin_mul_cos n k


/-! ### Fourier coefficients of a trigonometric polynomial of arbitrary degree -/

/-- `a 0 + Σ_{k=1}^{N} (a k · cos kφ + b k · sin kφ)` -/
noncomputable def trigPoly (a b : ℕ → ℝ) (N : ℕ) (φ : ℝ) : ℝ :=
  a 0 + ∑ k ∈ Finset.range N,
    (a (k + 1) * cos (((k + 1 : ℕ) : ℝ) * φ) + b (k + 1) * sin (((k + 1 : ℕ) : ℝ) * φ))

theorem continuous_trigPoly (a b : ℕ → ℝ) (N : ℕ) : Continuous (trigPoly a b N) := by
  unfold trigPoly; fun_prop

private theorem natZ (m : ℕ) : ((m : ℕ) : ℝ) = (((m : ℕ) : ℤ) : ℝ) := (Int.cast_natCast m).symm

theorem int_trigPoly (a b : ℕ → ℝ) (N : ℕ) :
    ∫ φ in (0:ℝ)..2 * π, trigPoly a b N φ = 2 * π * a 0 := by
  unfold trigPoly
  rw [integral_add ((by fun_prop : Continuous fun _ : ℝ => a 0).intervalIntegrable _ _)
    ((by fun_prop : Continuous fun φ : ℝ => ∑ k ∈ Finset.range N,
      (a (k + 1) * cos (((k + 1 : ℕ) : ℝ) * φ) + b (k + 1) * sin (((k + 1 : ℕ) : ℝ) * φ))).intervalIntegrable _ _)]
  rw [integral_finsetSum (fun k _ => (by fun_prop : Continuous fun φ : ℝ =>
      a (k + 1) * cos (((k + 1 : ℕ) : ℝ) * φ) + b (k + 1) * sin (((k + 1 : ℕ) : ℝ) * φ)).intervalIntegrable _ _)]
  have hz : ∀ k ∈ Finset.range N, ∫ φ in (0:ℝ)..2 * π,
      (a (k + 1) * cos (((k + 1 : ℕ) : ℝ) * φ) + b (k + 1) * sin (((k + 1 : ℕ) : ℝ) * φ)) = 0 := by
    intro k _
    rw [integral_add ((by fun_prop : Continuous fun φ : ℝ => a (k + 1) * cos (((k + 1 : ℕ) : ℝ) * φ)).intervalIntegrable _ _)
      ((by fun_prop : Continuous fun φ : ℝ => b (k + 1) * sin (((k + 1 : ℕ) : ℝ) * φ)).intervalIntegrable _ _),
      integral_const_mul, integral_const_mul, natZ, int_cos_int, int_sin_int]
    have : ((k + 1 : ℕ) : ℤ) ≠ 0 := by exact_mod_cast Nat.succ_ne_zero k
    rw [if_neg this]; ring
  rw [Finset.sum_eq_zero hz]
  simp

theorem int_trigPoly_cos (a b : ℕ → ℝ) (N n : ℕ) (hn : 1 ≤ n) (hN : n ≤ N) :
    ∫ φ in (0:ℝ)..2 * π, trigPoly a b N φ * cos ((n : ℝ) * φ) = π * a n := by
  have hexp : ∀ φ : ℝ, trigPoly a b N φ * cos ((n : ℝ) * φ) =
      a 0 * cos ((n : ℝ) * φ) + ∑ k ∈ Finset.range N,
        (a (k + 1) * (cos (((k + 1 : ℕ) : ℝ) * φ) * cos ((n : ℝ) * φ)) +
         b (k + 1) * (sin (((k + 1 : ℕ) : ℝ) * φ) * cos ((n : ℝ) * φ))) := by
    intro φ; unfold trigPoly; rw [add_mul, Finset.sum_mul]
    congr 1; apply Finset.sum_congr rfl; intro k _; ring
  simp_rw [hexp]
  rw [integral_add ((by fun_prop : Continuous fun φ : ℝ => a 0 * cos ((n : ℝ) * φ)).intervalIntegrable _ _)
    ((by fun_prop : Continuous fun φ : ℝ => ∑ k ∈ Finset.range N,
        (a (k + 1) * (cos (((k + 1 : ℕ) : ℝ) * φ) * cos ((n : ℝ) * φ)) +
         b (k + 1) * (sin (((k + 1 : ℕ) : ℝ) * φ) * cos ((n : ℝ) * φ)))).intervalIntegrable _ _)]
  rw [integral_finsetSum (fun k _ => (by fun_prop : Continuous fun φ : ℝ =>
        (a (k + 1) * (cos (((k + 1 : ℕ) : ℝ) * φ) * cos ((n : ℝ) * φ)) +
         b (k + 1) * (sin (((k + 1 : ℕ) : ℝ) * φ) * cos ((n : ℝ) * φ)))).intervalIntegrable _ _)]
  have hk : ∀ k ∈ Finset.range N, ∫ φ in (0:ℝ)..2 * π,
        (a (k + 1) * (cos (((k + 1 : ℕ) : ℝ) * φ) * cos ((n : ℝ) * φ)) +
         b (k + 1) * (sin (((k + 1 : ℕ) : ℝ) * φ) * cos ((n : ℝ) * φ))) =
        if k = n - 1 then π * a n else 0 := by
    intro k _
    rw [integral_add ((by fun_prop : Continuous fun φ : ℝ =>
          a (k + 1) * (cos (((k + 1 : ℕ) : ℝ) * φ) * cos ((n : ℝ) * φ))).intervalIntegrable _ _)
      ((by fun_prop : Continuous fun φ : ℝ =>
          b (k + 1) * (sin (((k + 1 : ℕ) : ℝ) * φ) * cos ((n : ℝ) * φ))).intervalIntegrable _ _),
      integral_const_mul, integral_const_mul, natZ (k + 1), natZ n, int_cos_mul_cos, int_sin_mul_cos]
    have hs : ((k + 1 : ℕ) : ℤ) + ((n : ℕ) : ℤ) ≠ 0 := by omega
    by_cases hkn : k + 1 = n
    · subst hkn
      have hk1 : k = k + 1 - 1 := by omega
      rw [if_pos (sub_self _), if_neg hs, if_pos hk1]
      ring
    · have hd : ((k + 1 : ℕ) : ℤ) - ((n : ℕ) : ℤ) ≠ 0 := by omega
      have hk1 : ¬ k = n - 1 := by omega
      rw [if_neg hd, if_neg hs, if_neg hk1]
      ring
  rw [Finset.sum_congr rfl hk, Finset.sum_ite_eq' (Finset.range N) (n - 1) (fun _ => π * a n),
    integral_const_mul, natZ n, int_cos_int]
  have hmem : n - 1 ∈ Finset.range N := Finset.mem_range.mpr (by omega)
  have hn' : n ≠ 0 := by omega
  simp [hn', hmem]

theorem int_trigPoly_sin (a b : ℕ → ℝ) (N n : ℕ) (hn : 1 ≤ n) (hN : n ≤ N) :
    ∫ φ in (0:ℝ)..2 * π, trigPoly a b N φ * sin ((n : ℝ) * φ) = π * b n := by
  have hexp : ∀ φ : ℝ, trigPoly a b N φ * sin ((n : ℝ) * φ) =
      a 0 * sin ((n : ℝ) * φ) + ∑ k ∈ Finset.range N,
        (a (k + 1) * (cos (((k + 1 : ℕ) : ℝ) * φ) * sin ((n : ℝ) * φ)) +
         b (k + 1) * (sin (((k + 1 : ℕ) : ℝ) * φ) * sin ((n : ℝ) * φ))) := by
    intro φ; unfold trigPoly; rw [add_mul, Finset.sum_mul]
    congr 1; apply Finset.sum_congr rfl; intro k _; ring
  simp_rw [hexp]
  rw [integral_add ((by fun_prop : Continuous fun φ : ℝ => a 0 * sin ((n : ℝ) * φ)).intervalIntegrable _ _)
    ((by fun_prop : Continuous fun φ : ℝ => ∑ k ∈ Finset.range N,
        (a (k + 1) * (cos (((k + 1 : ℕ) : ℝ) * φ) * sin ((n : ℝ) * φ)) +
         b (k + 1) * (sin (((k + 1 : ℕ) : ℝ) * φ) * sin ((n : ℝ) * φ)))).intervalIntegrable _ _)]
  rw [integral_finsetSum (fun k _ => (by fun_prop : Continuous fun φ : ℝ =>
        (a (k + 1) * (cos (((k + 1 : ℕ) : ℝ) * φ) * sin ((n : ℝ) * φ)) +
         b (k + 1) * (sin (((k + 1 : ℕ) : ℝ) * φ) * sin ((n : ℝ) * φ)))).intervalIntegrable _ _)]
  have hk : ∀ k ∈ Finset.range N, ∫ φ in (0:ℝ)..2 * π,
        (a (k + 1) * (cos (((k + 1 : ℕ) : ℝ) * φ) * sin ((n : ℝ) * φ)) +
         b (k + 1) * (sin (((k + 1 : ℕ) : ℝ) * φ) * sin ((n : ℝ) * φ))) =
        if k = n - 1 then π * b n else 0 := by
    intro k _
    rw [integral_add ((by fun_prop : Continuous fun φ : ℝ =>
          a (k + 1) * (cos (((k + 1 : ℕ) : ℝ) * φ) * sin ((n : ℝ) * φ))).intervalIntegrable _ _)
      ((by fun_prop : Continuous fun φ : ℝ =>
          b (k + 1) * (sin (((k + 1 : ℕ) : ℝ) * φ) * sin ((n : ℝ) * φ))).intervalIntegrable _ _),
      integral_const_mul, integral_const_mul, natZ (k + 1), natZ n, int_cos_mul_sin, int_sin_mul_sin]
    have hs : ((k + 1 : ℕ) : ℤ) + ((n : ℕ) : ℤ) ≠ 0 := by omega
    by_cases hkn : k + 1 = n
    · subst hkn
      have hk1 : k = k + 1 - 1 := by omega
      rw [if_pos (sub_self _), if_neg hs, if_pos hk1]
      ring
    · have hd : ((k + 1 : ℕ) : ℤ) - ((n : ℕ) : ℤ) ≠ 0 := by omega
      have hk1 : ¬ k = n - 1 := by omega
      rw [if_neg hd, if_neg hs, if_neg hk1]
      ring
  rw [Finset.sum_congr rfl hk, Finset.sum_ite_eq' (Finset.range N) (n - 1) (fun _ => π * b n),
    integral_const_mul, natZ n, int_sin_int]
  have hmem : n - 1 ∈ Finset.range N := Finset.mem_range.mpr (by omega)
  simp [hmem]

end Gep.R.HarmTrig

/-
  Proofs/Adim.lean — helper lemmas for property C03 (model: Gen/AdimR.lean).
  * `toC`: the model's two-field complex number `Cx ℝ` read as Mathlib's `ℂ`; it is injective and
    commutes with every operation the model uses, so identities between model expressions are
    proved in the field ℂ (`ring`, `field_simp`).
  * complex conjugation commutes with every operation of the model (Schwarz reflection).
  * harmonic numbers `H n = Σ_{k<n} 1/(k+1)` and the Mellin moments of monomials / of the
    plus-distribution as interval integrals.
  * hand-written forms over ℂ of the LO anomalous dimensions and of c_FL, with BRIDGING lemmas to the
    generated definitions (`bridge`, see Proofs/Bridge.lean): the proofs of Props/C03 that clear
    denominators (`rw`, `field_simp` with side conditions) work on these fixed forms, so they survive
    re-orderings of the Python formulas (`1+n` ↔ `n+1`, a factor 1/2 distributed, …), while a change
    of a formula's value breaks the bridging lemma.
-/
import Gen.AdimR
import Proofs.Bridge
import Mathlib.Data.Complex.Basic
import Mathlib.Tactic.Ring
import Mathlib.Tactic.FieldSimp
import Mathlib.Tactic.Linarith
import Mathlib.Tactic.NormNum.OfScientific

namespace Gep.R.Adim
open Gep

/-! ### Cx ℝ as ℂ -/

/-- the model's complex number as a Mathlib complex number -/
def toC (z : Cx ℝ) : ℂ := ⟨z.re, z.im⟩

theorem cx_ext {a b : Cx ℝ} (h1 : a.re = b.re) (h2 : a.im = b.im) : a = b := by
  cases a; cases b; simp_all

theorem toC_inj {a b : Cx ℝ} (h : toC a = toC b) : a = b := by
  have h1 := congrArg Complex.re h
  have h2 := congrArg Complex.im h
  exact cx_ext h1 h2

theorem toC_add (a b : Cx ℝ) : toC (a + b) = toC a + toC b := by
  apply Complex.ext <;> simp [toC]
theorem toC_sub (a b : Cx ℝ) : toC (a - b) = toC a - toC b := by
  apply Complex.ext <;> simp [toC]
theorem toC_neg (a : Cx ℝ) : toC (-a) = -toC a := by
  apply Complex.ext <;> simp [toC]
theorem toC_mul (a b : Cx ℝ) : toC (a * b) = toC a * toC b := by
  apply Complex.ext <;> simp [toC]
theorem toC_div (a b : Cx ℝ) : toC (a / b) = toC a / toC b := by
  apply Complex.ext <;> simp [toC, Complex.div_re, Complex.div_im, Complex.normSq_apply] <;> ring
theorem toC_r (x : ℝ) : toC (r x) = (x : ℂ) := by
  apply Complex.ext <;> simp [toC, r, Cx.ofReal]
theorem toC_cpow (z : Cx ℝ) (k : ℕ) : toC (cpow z k) = toC z ^ k := by
  induction k with
  | zero => simp [cpow, toC_r]
  | succ k ih => simp [cpow, toC_mul, ih, pow_succ]
theorem toC_poch2 (z : Cx ℝ) : toC (poch z 2) = toC z * (toC z + 1) := by
  simp [poch, pochLoop, toC_mul, toC_add, toC_r]

/-! ### conjugation -/

theorem conj_add (a b : Cx ℝ) : Cx.conj (a + b) = Cx.conj a + Cx.conj b := by
  apply cx_ext <;> simp <;> ring
theorem conj_sub (a b : Cx ℝ) : Cx.conj (a - b) = Cx.conj a - Cx.conj b := by
  apply cx_ext <;> simp <;> ring
theorem conj_neg (a : Cx ℝ) : Cx.conj (-a) = -Cx.conj a := by
  apply cx_ext <;> simp
theorem conj_mul (a b : Cx ℝ) : Cx.conj (a * b) = Cx.conj a * Cx.conj b := by
  apply cx_ext <;> simp <;> ring
theorem conj_div (a b : Cx ℝ) : Cx.conj (a / b) = Cx.conj a / Cx.conj b := by
  apply cx_ext <;> simp <;> ring
theorem conj_r (x : ℝ) : Cx.conj (r x) = r x := by
  apply cx_ext <;> simp [r]
theorem conj_cpow (z : Cx ℝ) (k : ℕ) : Cx.conj (cpow z k) = cpow (Cx.conj z) k := by
  induction k with
  | zero => simp [cpow, conj_r]
  | succ k ih => simp [cpow, conj_mul, ih]
theorem conj_poch2 (z : Cx ℝ) : Cx.conj (poch z 2) = poch (Cx.conj z) 2 := by
  simp [poch, pochLoop, conj_mul, conj_add, conj_r]
theorem conj_conj (z : Cx ℝ) : Cx.conj (Cx.conj z) = z := by
  apply cx_ext <;> simp


/-- all special-function values conjugated (what the functions give at n̄ when they obey
    Schwarz reflection themselves); ζ(2), ζ(3) are real -/
def SF.conj (P : SF) : SF :=
  { S1 := Cx.conj P.S1, S2 := Cx.conj P.S2, S2h := Cx.conj P.S2h, S3h := Cx.conj P.S3h,
    S2hm := Cx.conj P.S2hm, S3hm := Cx.conj P.S3hm, psih := Cx.conj P.psih,
    psih1 := Cx.conj P.psih1, MF2 := Cx.conj P.MF2, z2 := P.z2, z3 := P.z3 }
def SJ.conj (J : SJ) : SJ :=
  { S1j := Cx.conj J.S1j, S1j1 := Cx.conj J.S1j1, S1j2 := Cx.conj J.S1j2, S1j32 := Cx.conj J.S1j32 }
def M2.conj (m : M2) : M2 :=
  { qq := Cx.conj m.qq, qg := Cx.conj m.qg, gq := Cx.conj m.gq, gg := Cx.conj m.gg }
def V4.conj (v : V4) : V4 :=
  { Q := Cx.conj v.Q, G := Cx.conj v.G, NSP := Cx.conj v.NSP, NSM := Cx.conj v.NSM }

theorem conj_S2_prime_half (prty : ℝ) (P : SF) :
    Cx.conj (S2_prime_half prty P) = S2_prime_half prty P.conj := by
  simp only [S2_prime_half, SF.conj, conj_add, conj_mul, conj_div, conj_r]
theorem conj_S3_prime_half (prty : ℝ) (P : SF) :
    Cx.conj (S3_prime_half prty P) = S3_prime_half prty P.conj := by
  simp only [S3_prime_half, SF.conj, conj_add, conj_mul, conj_div, conj_r]
theorem conj_S2_tilde (n : Cx ℝ) (prty : ℝ) (P : SF) :
    Cx.conj (S2_tilde n prty P) = S2_tilde (Cx.conj n) prty P.conj := by
  simp only [S2_tilde, SF.conj, conj_add, conj_sub, conj_mul, conj_div, conj_r, conj_cpow]

/-! ### hand-written forms of the LO anomalous dimensions and of c_FL over ℂ, and the bridge to the generated ones

  `N` is the Mellin moment, `s` = S₁(N).  The shapes (`1 + N`, `-1 + N`, …) are those the proofs of Props/C03 rewrite. -/

-- the simp sets below list every `toC_*` lemma on purpose (which ones fire depends on how the Python is written)
set_option linter.unusedSimpArgs false

/-- γ⁰_qq(N) = γ⁰_NS(N) -/
noncomputable def qq0C (N s : ℂ) : ℂ := (CF : ℂ) * (-3 - 2 / (N * (1 + N)) + 4 * s)
noncomputable def qg0C (N : ℂ) (nf : ℝ) : ℂ :=
  -4 * (nf : ℂ) * (TF : ℂ) * (2 + N + N * N) / (N * (1 + N) * (2 + N))
noncomputable def gq0C (N : ℂ) : ℂ := -2 * (CF : ℂ) * (2 + N + N * N) / ((-1 + N) * N * (1 + N))
noncomputable def gg0C (N s : ℂ) (nf : ℝ) : ℂ :=
  (-22 * (CA : ℂ) / 3 - 8 * (CA : ℂ) * (1 / ((-1 + N) * N) + 1 / ((1 + N) * (2 + N)) - s) + 8 * (nf : ℂ) * (TF : ℂ) / 3) / 2
/-- c_FL: quark entries, gluon entry -/
noncomputable def cFLqC (N : ℂ) : ℂ := 2 * (CF : ℂ) / (1 + N)
noncomputable def cFLgC (N : ℂ) (nf : ℝ) : ℂ := 4 * (nf : ℂ) / ((1 + N) * (2 + N))

theorem non_singlet_LO_C (n : Cx ℝ) (nf prty : ℝ) (P : SF) :
    toC (non_singlet_LO n nf prty P) = qq0C (toC n) (toC P.S1) := by
  simp only [non_singlet_LO, qq0C, toC_add, toC_sub, toC_mul, toC_div, toC_neg, toC_r]
  push_cast
  bridge
theorem singlet_LO_qq_C (n : Cx ℝ) (nf prty : ℝ) (P : SF) :
    toC (singlet_LO n nf prty P).qq = qq0C (toC n) (toC P.S1) := by
  simp only [singlet_LO, qq0C, toC_add, toC_sub, toC_mul, toC_div, toC_neg, toC_r]
  push_cast
  bridge
theorem singlet_LO_qg_C (n : Cx ℝ) (nf prty : ℝ) (P : SF) :
    toC (singlet_LO n nf prty P).qg = qg0C (toC n) nf := by
  simp only [singlet_LO, qg0C, toC_add, toC_sub, toC_mul, toC_div, toC_neg, toC_r]
  push_cast
  bridge
theorem singlet_LO_gq_C (n : Cx ℝ) (nf prty : ℝ) (P : SF) :
    toC (singlet_LO n nf prty P).gq = gq0C (toC n) := by
  simp only [singlet_LO, gq0C, toC_add, toC_sub, toC_mul, toC_div, toC_neg, toC_r]
  push_cast
  bridge
theorem singlet_LO_gg_C (n : Cx ℝ) (nf prty : ℝ) (P : SF) :
    toC (singlet_LO n nf prty P).gg = gg0C (toC n) (toC P.S1) nf := by
  simp only [singlet_LO, gg0C, toC_add, toC_sub, toC_mul, toC_div, toC_neg, toC_r]
  push_cast
  bridge
theorem c1_FL_C (n : Cx ℝ) (nf : ℝ) (P : SF) :
    toC (c1_FL n nf P).Q = cFLqC (toC n) ∧ toC (c1_FL n nf P).NSP = cFLqC (toC n) ∧
    toC (c1_FL n nf P).NSM = cFLqC (toC n) ∧ toC (c1_FL n nf P).G = cFLgC (toC n) nf := by
  refine ⟨?_, ?_, ?_, ?_⟩ <;>
    simp only [c1_FL, cFLqC, cFLgC, toC_add, toC_sub, toC_mul, toC_div, toC_neg, toC_r] <;>
    push_cast <;> bridge

end Gep.R.Adim

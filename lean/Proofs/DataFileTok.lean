/-
  Proofs/DataFileTok.lean — the structured number grammar (`Legal`) and the automaton agree: helper lemmas
  (contributed by the independent audit of the theorems, notes/audit/snip/C09_c.lean).
-/
import Proofs.DataFile
namespace Gep.DF
/-- the NUM grammar on structured literals (what Lit.Digits does not enforce) -/
def Legal (l : Lit) : Prop :=
  l.Digits ∧ (l.ip = [] → ∃ c f, l.fp = some (c :: f)) ∧
  (∀ e s d, l.ex = some (e, s, d) → isE e = true ∧ d ≠ [])

theorem run_digits (st : St) (h : step st '0' = st) (hst : ∀ c, isDigit c = true → step st c = st)
    (ds : List Char) (hd : ∀ c ∈ ds, isDigit c = true) : run st ds = st := by
  induction ds with
  | nil => rfl
  | cons a ds ih => rw [run_cons, hst a (hd a (by simp))]; exact ih (fun c hc => hd c (by simp [hc]))

theorem s2_dig (c : Char) (h : isDigit c = true) : step .s2 c = .s2 := by simp [step, h]
theorem s3_dig (c : Char) (h : isDigit c = true) : step .s3 c = .s3 := by simp [step, h]
theorem s8_dig (c : Char) (h : isDigit c = true) : step .s8 c = .s8 := by simp [step, h]

theorem run_s2 (ds : List Char) (hd : ∀ c ∈ ds, isDigit c = true) : run .s2 ds = .s2 :=
  run_digits .s2 (by decide) s2_dig ds hd
theorem run_s3 (ds : List Char) (hd : ∀ c ∈ ds, isDigit c = true) : run .s3 ds = .s3 :=
  run_digits .s3 (by decide) s3_dig ds hd
theorem run_s8 (ds : List Char) (hd : ∀ c ∈ ds, isDigit c = true) : run .s8 ds = .s8 :=
  run_digits .s8 (by decide) s8_dig ds hd

theorem digit_props (c : Char) (h : isDigit c = true) : isSign c = false ∧ (c == '.') = false ∧ isE c = false := by
  refine ⟨?_, ?_, ?_⟩
  · cases h' : isSign c with
    | false => rfl
    | true => exfalso; simp only [isSign, Bool.or_eq_true, beq_iff_eq] at h'; rcases h' with rfl | rfl <;> revert h <;> decide
  · cases h' : (c == '.') with
    | false => rfl
    | true => exfalso; simp only [beq_iff_eq] at h'; subst h'; revert h; decide
  · cases h' : isE c with
    | false => rfl
    | true => exfalso; simp only [isE, Bool.or_eq_true, beq_iff_eq] at h'; rcases h' with rfl | rfl <;> revert h <;> decide

/-- exponent part from s2 or s3 leads to s8 (accepting) -/
theorem run_exp (st : St) (hst : st = .s2 ∨ st = .s3) (e : Char) (s : Option Bool) (d : List Char)
    (he : isE e = true) (hd : ∀ c ∈ d, isDigit c = true) (hne : d ≠ []) :
    run st (e :: (signChars s ++ d)) = .s8 := by
  obtain ⟨a, d', rfl⟩ := List.exists_cons_of_ne_nil hne
  have ha := hd a (by simp)
  have hd' : ∀ c ∈ d', isDigit c = true := fun c hc => hd c (by simp [hc])
  have hed : isDigit e = false := by
    cases h' : isDigit e with
    | false => rfl
    | true => have := (digit_props e h').2.2; simp [he] at this
  have hedot : (e == '.') = false := by
    simp only [isE, Bool.or_eq_true, beq_iff_eq] at he; rcases he with rfl | rfl <;> decide
  have h6 : step st e = .s6 := by rcases hst with rfl | rfl <;> simp [step, hed, hedot, he]
  obtain ⟨hs1, _, _⟩ := digit_props a ha
  rw [run_cons, h6]
  rcases s with _ | (_ | _)
  · simp only [signChars, List.nil_append, run_cons]
    have : step .s6 a = .s8 := by simp [step, hs1, ha]
    rw [this]; exact run_s8 d' hd'
  · simp only [signChars, List.cons_append, List.nil_append, run_cons]
    have h7 : step .s6 '+' = .s7 := by decide
    have : step .s7 a = .s8 := by simp [step, ha]
    rw [h7, this]; exact run_s8 d' hd'
  · simp only [signChars, List.cons_append, List.nil_append, run_cons]
    have h7 : step .s6 '-' = .s7 := by decide
    have : step .s7 a = .s8 := by simp [step, ha]
    rw [h7, this]; exact run_s8 d' hd'

/-- after the mantissa (state s2 or s3) an optional legal exponent is accepted -/
theorem acc_exp (st : St) (hst : st = .s2 ∨ st = .s3) (ex : Option (Char × Option Bool × List Char))
    (h : ∀ e s d, ex = some (e, s, d) → isE e = true ∧ d ≠ [] ∧ ∀ c ∈ d, isDigit c = true) :
    accepting (run st (expChars ex)) = true := by
  rcases ex with _ | ⟨e, s, d⟩
  · rcases hst with rfl | rfl <;> rfl
  · obtain ⟨he, hne, hd⟩ := h e s d rfl
    simp only [expChars]; rw [run_exp st hst e s d he hd hne]; rfl

/-- every structured literal of the NUM grammar is a token of the automaton -/
theorem legal_isTok (l : Lit) (h : Legal l) : IsTok l.chars := by
  obtain ⟨neg, ip, fp, ex⟩ := l
  obtain ⟨⟨hip, hfp, hex, _⟩, hbare, hE⟩ := h
  simp only at hip hfp hex hbare hE
  have hex' : ∀ e s d, ex = some (e, s, d) → isE e = true ∧ d ≠ [] ∧ ∀ c ∈ d, isDigit c = true :=
    fun e s d he => ⟨(hE e s d he).1, (hE e s d he).2, (hex e s d he).2.2.1⟩
  -- body from a state st ∈ {s0, s1}
  have body : ∀ st, (st = .s0 ∨ st = .s1) →
      accepting (run st (ip ++ (fracChars fp ++ expChars ex))) = true := by
    intro st hst
    rcases ip with _ | ⟨a, ip'⟩
    · obtain ⟨c, f, rfl⟩ := hbare rfl
      have hc := hfp (c :: f) rfl c (by simp)
      have hf : ∀ x ∈ f, isDigit x = true := fun x hx => hfp (c :: f) rfl x (by simp [hx])
      obtain ⟨hs1, hdot, _⟩ := digit_props c hc
      have h4 : step st '.' = .s4 := by rcases hst with rfl | rfl <;> decide
      have h3 : step .s4 c = .s3 := by simp [step, hc]
      simp only [List.nil_append, fracChars, List.cons_append, run_cons, h4, h3]
      rw [run_append, run_s3 f hf]
      exact acc_exp .s3 (Or.inr rfl) ex hex'
    · have ha := hip a (by simp)
      have hip' : ∀ c ∈ ip', isDigit c = true := fun c hc => hip c (by simp [hc])
      obtain ⟨hs1, hdot, _⟩ := digit_props a ha
      have h2 : step st a = .s2 := by rcases hst with rfl | rfl <;> simp [step, hs1, ha]
      simp only [List.cons_append, run_cons, h2]
      rw [run_append, run_s2 ip' hip']
      rcases fp with _ | f
      · simp only [fracChars, List.nil_append]
        exact acc_exp .s2 (Or.inl rfl) ex hex'
      · have hf := hfp f rfl
        have : step .s2 '.' = .s3 := by decide
        simp only [fracChars, List.cons_append, run_cons, this]
        rw [run_append, run_s3 f hf]
        exact acc_exp .s3 (Or.inr rfl) ex hex'
  unfold IsTok Lit.chars
  simp only
  rcases neg with _ | (_ | _)
  · simpa [signChars] using body .s0 (Or.inl rfl)
  · have : step .s0 '+' = .s1 := by decide
    simpa [signChars, this] using body .s1 (Or.inr rfl)
  · have : step .s0 '-' = .s1 := by decide
    simpa [signChars, this] using body .s1 (Or.inr rfl)


end Gep.DF

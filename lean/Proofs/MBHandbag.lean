/-
  Proofs/MBHandbag.lean — point-wise identities between the integrands of the Mellin–Barnes sums of
  Gen/MBR.lean: LO DVCS coefficient × operator = quark row of the cross-over j→x coefficient × operator
  (property C05), LO DIS coefficient × operator and x^(−j) = x · x^(−j−1) versus the forward j→x quark row
  (property C04), and the j→x integrand in terms of the evolved moments.
-/
import Proofs.MB
import Mathlib.Analysis.SpecialFunctions.Log.Basic
import Mathlib.Analysis.SpecialFunctions.Exp
import Mathlib.Tactic.NormNum
import Mathlib.Tactic.FieldSimp

noncomputable section
namespace Gep.R.MB
open Gep Gep.R Gep.R.Evol

/-- the combined operator E0 + asmuf2·E1 of one partial wave -/
def PWd.op (asf : ℝ) (d : PWd) : Op3 := Op3.combine asf d.e0 d.e1

/-! ### LO Wilson coefficients × evolution operator -/

/-- what calc_wce returns at p = 0 for DVCS -/
def wceDvcsLO (asf asr : ℝ) (d : PWd) : V3 :=
  wceOf (⟨d.fshu * cone, d.fshu * czero, d.fshu * cone⟩, ⟨d.fshu * czero, d.fshu * czero, d.fshu * czero⟩) asf asr d

def wceDisLO (asf asr : ℝ) (d : PWd) : V3 :=
  wceOf (⟨cone * cone, cone * czero, cone * cone⟩, ⟨cone * czero, cone * czero, cone * czero⟩) asf asr d

theorem calcWce_dvcs_LO (nf : Nat) (asf asr : ℝ) (j : Cx ℝ) (sh : ℝ) (d : PWd) :
    calcWce .dvcs 0 nf asf asr j sh d = .ok (wceDvcsLO asf asr d) := by
  simp [calcWce, calcWc, wceDvcsLO, V3.zero]

theorem calcWce_dis_LO (nf : Nat) (asf asr : ℝ) (j : Cx ℝ) (sh : ℝ) (d : PWd) :
    calcWce .dis 0 nf asf asr j sh d = .ok (wceDisLO asf asr d) := by
  simp [calcWce, calcWc, wceDisLO, V3.zero]

theorem toC_wceDvcsLO (asf asr : ℝ) (d : PWd) :
    toC (wceDvcsLO asf asr d).q = toC d.fshu * toC (d.op asf).si.a ∧
    toC (wceDvcsLO asf asr d).g = toC d.fshu * toC (d.op asf).si.b ∧
    toC (wceDvcsLO asf asr d).n = toC d.fshu * toC (d.op asf).ns := by
  refine ⟨?_, ?_, ?_⟩ <;>
    simp [wceDvcsLO, wceOf, wceSinglet, wceNS, PWd.op, Op3.combine, combine, M2.add, M2.smulR]

theorem toC_wceDisLO (asf asr : ℝ) (d : PWd) :
    toC (wceDisLO asf asr d).q = toC (d.op asf).si.a ∧
    toC (wceDisLO asf asr d).g = toC (d.op asf).si.b ∧
    toC (wceDisLO asf asr d).n = toC (d.op asf).ns := by
  refine ⟨?_, ?_, ?_⟩ <;>
    simp [wceDisLO, wceOf, wceSinglet, wceNS, PWd.op, Op3.combine, combine, M2.add, M2.smulR]

/-! ### j→x coefficients × evolution operator -/

def j2xCrossOf (x asf : ℝ) (j : Cx ℝ) (sh : ℝ) (d : PWd) : W33 :=
  j2xOf ⟨d.fshu, Cx.smul x (Cx.smul 2 d.fshu) / ⟨3 + (shiftJ j sh).re, (shiftJ j sh).im⟩, czero⟩ asf d

def j2xFwdOf (x asf : ℝ) (d : PWd) : W33 := j2xOf ⟨cone, Cx.smul x cone, czero⟩ asf d

theorem calcJ2x_cross (x asf : ℝ) (hx : ¬ x < 1e-8) (j : Cx ℝ) (sh : ℝ) (d : PWd) :
    calcJ2x x x asf j sh d = .ok (j2xCrossOf x asf j sh d) := by
  have h0 : kabs (0 : ℝ) < 1e-8 := by simp [kabs]; norm_num
  simp [calcJ2x, j2xWc, hx, h0, j2xCrossOf]

theorem calcJ2x_fwd (x eta asf : ℝ) (he : eta < 1e-8) (j : Cx ℝ) (sh : ℝ) (d : PWd) :
    calcJ2x x eta asf j sh d = .ok (j2xFwdOf x asf d) := by
  simp [calcJ2x, j2xWc, he, j2xFwdOf]

theorem toC_j2xCrossOf_q (x asf : ℝ) (j : Cx ℝ) (sh : ℝ) (d : PWd) :
    toC (j2xCrossOf x asf j sh d).q.q = toC d.fshu * toC (d.op asf).si.a ∧
    toC (j2xCrossOf x asf j sh d).q.g = toC d.fshu * toC (d.op asf).si.b ∧
    toC (j2xCrossOf x asf j sh d).q.n = 0 := by
  refine ⟨?_, ?_, ?_⟩ <;> simp [j2xCrossOf, j2xOf, V3.scale, Op3.rowQ, PWd.op]

theorem toC_j2xFwdOf (x asf : ℝ) (d : PWd) :
    toC (j2xFwdOf x asf d).q.q = toC (d.op asf).si.a ∧ toC (j2xFwdOf x asf d).q.g = toC (d.op asf).si.b ∧
    toC (j2xFwdOf x asf d).q.n = 0 ∧
    toC (j2xFwdOf x asf d).g.q = (x : ℂ) * toC (d.op asf).si.c ∧
    toC (j2xFwdOf x asf d).g.g = (x : ℂ) * toC (d.op asf).si.d ∧ toC (j2xFwdOf x asf d).g.n = 0 ∧
    toC (j2xFwdOf x asf d).n.q = 0 ∧ toC (j2xFwdOf x asf d).n.g = 0 ∧ toC (j2xFwdOf x asf d).n.n = 0 := by
  refine ⟨?_, ?_, ?_, ?_, ?_, ?_, ?_, ?_, ?_⟩ <;>
    simp [j2xFwdOf, j2xOf, V3.scale, Op3.rowQ, Op3.rowG, Op3.rowN, PWd.op]

/-! ### x^(−j) = x · x^(−j−1) -/

theorem cfacj_dis (phi x : ℝ) (hx : 0 < x) (j : Cx ℝ) :
    toC (cfacj phi x 0 j) = (x : ℂ) * toC (cfacj phi x 1 j) := by
  have hj : toC (⟨j.re + 1, j.im⟩ : Cx ℝ) = toC j + 1 := by apply Complex.ext <;> simp
  have hj0 : toC (⟨j.re + 0, j.im⟩ : Cx ℝ) = toC j := by apply Complex.ext <;> simp
  have hexp : Complex.exp ((Real.log (1 / x) : ℝ) : ℂ) = ((1 / x : ℝ) : ℂ) := by
    rw [← Complex.ofReal_exp, Real.exp_log (by positivity)]
  have hxC : (x : ℂ) ≠ 0 := by exact_mod_cast (ne_of_gt hx)
  simp only [cfacj, toC_mul, toC_cexp, toC_smul, hj, hj0, klog]
  rw [mul_add, Complex.exp_add, mul_one, hexp]
  push_cast
  field_simp

end Gep.R.MB

/-
  Proofs/ChiSqBridge.lean — what tools/gen_chisq.py reads from the CURRENT Theory.chisq_single / Theory.pull
  (Gen/ChiSqSrcR.lean, regenerated on every run) is, over ℝ, the hand-written model (Gen/ChiSqR.lean).
-/
import Gen.ChiSqSrcR
import Gen.ChiSqR
import Proofs.Bridge

namespace Gep.R.ChiSqBridge
open Gep.R

theorem pullOf_eq (asym : Bool) (m : Meas) : ChiSqSrc.pullOf asym m = pullOf asym m := by
  first
  | (simp only [ChiSqSrc.pullOf, pullOf] <;> bridge)
  | (cases asym <;> simp only [ChiSqSrc.pullOf, pullOf] <;> split_ifs <;> bridge)

theorem term_eq (p : ℝ) : ChiSqSrc.term p = p * p := by bridge_simp [ChiSqSrc.term]

theorem chisq_eq (asym : Bool) (ms : List Meas) : ChiSqSrc.chisq asym ms = chisq asym ms := by
  have h : ChiSqSrc.pullOf asym = pullOf asym := funext (pullOf_eq asym)
  simp only [ChiSqSrc.chisq, chisq, h, term_eq]

theorem pull_eq (m : Meas) : ChiSqSrc.pull m = pull m := by bridge_simp [ChiSqSrc.pull, pull]

end Gep.R.ChiSqBridge

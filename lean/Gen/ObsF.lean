-- AUTO-GENERATED from lean/Scalar/Obs.lean.in — do not edit
import Model.ScalarF
import Gen.BmkF
set_option linter.unusedVariables false
namespace Gep.F
--! import Bmk
/-
  Obs — model of the flip-based observables of gepard.dvcs.DVCS at fixed azimuthal angle:
  _XUU, _XLU, _XUD, _XCLU, _XCUU, _AC, _ALU, _TSA, _BTSA, _CBTSA, _ALUI, _ALUDVCS, _AUTI, _AUTDVCS.
  `XS(pt, flip=…)` sets, on the prepared copy of the point, the listed attributes to MINUS the
  caller's values; here a cross-section function is any `Pt → K → Option K` (prepared point, target
  polarisation; none = the formula set raises), instantiated with the generated `XS_<Set>`.
                                                                         (properties C07, C08)
-/
namespace Obs

structure Flip where
  pol : Bool := false      -- in1polarization
  chg : Bool := false      -- in1charge
  tpol : Bool := false     -- in2polarization

abbrev XSfun := Pt → K → Option K

def applyFlip (pt : Pt) (f : Flip) : Pt :=
  { pt with in1polarization := if f.pol then -pt.in1polarization else pt.in1polarization,
            in1charge := if f.chg then -pt.in1charge else pt.in1charge }

/-- `self.XS(pt, flip=…)` -/
def xsF (xs : XSfun) (pt : Pt) (pol2 : K) (f : Flip) : Option K :=
  xs (applyFlip pt f) (if f.tpol then -pol2 else pol2)

def XUU (xs : XSfun) (pt : Pt) (p2 : K) : Option K := do
  let o ← xsF xs pt p2 {}
  let r ← xsF xs pt p2 { pol := true }
  pure ((o + r) / 2)

def XLU (xs : XSfun) (pt : Pt) (p2 : K) : Option K := do
  let o ← xsF xs pt p2 {}
  let r ← xsF xs pt p2 { pol := true }
  pure ((o - r) / 2)

def XUD (xs : XSfun) (pt : Pt) (p2 : K) : Option K := do
  let o ← xsF xs pt p2 {}
  let f ← xsF xs pt p2 { tpol := true }
  pure ((o - f) / 2)

def XCLU (xs : XSfun) (pt : Pt) (p2 : K) : Option K := do
  let o ← xsF xs pt p2 {}
  let r ← xsF xs pt p2 { pol := true, chg := true }
  pure ((o - r) / 2)

def XCUU (xs : XSfun) (pt : Pt) (p2 : K) : Option K := do
  let o ← xsF xs pt p2 {}
  let r ← xsF xs pt p2 { pol := true, chg := true }
  pure ((o + r) / 2)

def AC (xs : XSfun) (pt : Pt) (p2 : K) : Option K := do
  let o ← xsF xs pt p2 {}
  let c ← xsF xs pt p2 { chg := true }
  pure ((o - c) / (o + c))

def ALU (xs : XSfun) (pt : Pt) (p2 : K) : Option K := do
  let l ← XLU xs pt p2
  let u ← XUU xs pt p2
  pure (l / u)

def TSA (xs : XSfun) (pt : Pt) (p2 : K) : Option K := do
  let o ← xsF xs pt p2 {}
  let p ← xsF xs pt p2 { tpol := true }
  pure ((o - p) / (o + p))

def BTSA (xs : XSfun) (pt : Pt) (p2 : K) : Option K := do
  let o ← xsF xs pt p2 {}
  let p ← xsF xs pt p2 { pol := true }
  let t ← xsF xs pt p2 { tpol := true }
  let b ← xsF xs pt p2 { pol := true, tpol := true }
  pure (((o + b) - (p + t)) / ((o + b) + (p + t)))

def ALUI (xs : XSfun) (pt : Pt) (p2 : K) : Option K := do
  let o ← xsF xs pt p2 {}
  let p ← xsF xs pt p2 { pol := true }
  let c ← xsF xs pt p2 { chg := true }
  let b ← xsF xs pt p2 { pol := true, chg := true }
  pure (((o - p) - (c - b)) / ((o + p) + (c + b)))

def ALUDVCS (xs : XSfun) (pt : Pt) (p2 : K) : Option K := do
  let o ← xsF xs pt p2 {}
  let p ← xsF xs pt p2 { pol := true }
  let c ← xsF xs pt p2 { chg := true }
  let b ← xsF xs pt p2 { pol := true, chg := true }
  pure (((o - p) + (c - b)) / ((o + p) + (c + b)))

def AUTI (xs : XSfun) (pt : Pt) (p2 : K) : Option K := do
  let o ← xsF xs pt p2 {}
  let p ← xsF xs pt p2 { tpol := true }
  let c ← xsF xs pt p2 { chg := true }
  let b ← xsF xs pt p2 { tpol := true, chg := true }
  pure (((o - p) - (c - b)) / ((o + p) + (c + b)))

def AUTDVCS (xs : XSfun) (pt : Pt) (p2 : K) : Option K := do
  let o ← xsF xs pt p2 {}
  let p ← xsF xs pt p2 { tpol := true }
  let c ← xsF xs pt p2 { chg := true }
  let b ← xsF xs pt p2 { tpol := true, chg := true }
  pure (((o - p) + (c - b)) / ((o + p) + (c + b)))

/-- `_CBTSA(pt, chargepar)` : HERMES A_LT,I (chargepar = −1) and A_LT,BHDVCS (+1) -/
def CBTSA (xs : XSfun) (pt : Pt) (p2 : K) (chargepar : K) : Option K := do
  let o ← xsF xs pt p2 {}
  let t ← xsF xs pt p2 { tpol := true }
  let b ← xsF xs pt p2 { pol := true }
  let bt ← xsF xs pt p2 { pol := true, tpol := true }
  let c ← xsF xs pt p2 { chg := true }
  let ct ← xsF xs pt p2 { chg := true, tpol := true }
  let cb ← xsF xs pt p2 { chg := true, pol := true }
  let cbt ← xsF xs pt p2 { chg := true, pol := true, tpol := true }
  pure (((o - t - b + bt) + chargepar * (c - ct - cb + cbt)) / (o + t + b + bt + c + ct + cb + cbt))

end Obs

end Gep.F

-- AUTO-GENERATED from lean/Scalar/MB.lean.in — do not edit
import Proofs.ScalarR
import Gen.EvolR
set_option linter.unusedVariables false
noncomputable section
open Classical
namespace Gep.R
--! import Evol
/-
  MB — model of gepard's discrete Mellin–Barnes sums (properties C04, C05), as coded in
  quadrature.mellin_barnes, wilson.calc_wc / calc_wce / calc_j2x, mellin.MellinBarnes.*,
  gpd.qj / betadip / betaexp / singlet_ng_constrained(_E) / PWNormGPD.H, E / ConformalSpaceGPD.Hx, Ex,
  dis.DIS.DISF2, cff.MellinBarnesCFF.cff, dvmp.MellinBarnesTFF.tff.

  A numpy array over the contour index k is a `List Pt`; the arrays over the partial-wave index s
  (`for pw_shift in [0, 2, 4]`) and over flavours are fixed-size structures.  np.einsum / np.dot are
  exact sums (their summation order is not modelled).

  PARAMETERS of the model (data fed by the harness, arbitrary in the theorems):
    Gauss–Legendre roots/weights (scipy p_roots), the Shuvaev factor `_fshu(j)` (scipy loggamma),
    the evolution operator entries E0, E1 of evolution.evolop / evolopns (property C02; `opOfEvol`
    below builds them from the C02 model), the couplings as2pf(Q²/rf2), as2pf(Q²/rr2) (C15), the NLO
    coefficients c1dvcs.C1 / c1dvmp.c1dvmp (C03), and — for GPD models other than PWNormGPD — the
    moments H_j, E_j.
-/
namespace MB
open Evol

/-! ### small vectors: evolution basis (Q, G, NSP), model flavours (sea, G, uv, dv) -/

structure V3 where
  q : Cx K
  g : Cx K
  n : Cx K

structure V4 where
  s : Cx K
  g : Cx K
  u : Cx K
  d : Cx K

/-- a real row over the evolution basis (a row of pw_strengths(), dvcs_charges) -/
structure R3 where
  q : K
  g : K
  n : K

/-- a real row over the model flavours (a row of frot) -/
structure R4 where
  s : K
  g : K
  u : K
  d : K

/-- flavour rotation matrix frot[f, a] (3 × 4) -/
structure Frot where
  q : R4
  g : R4
  n : R4

/-- pw_strengths()[s, a] (3 × 3) -/
structure PWS where
  r0 : R3
  r1 : R3
  r2 : R3

def V3.zero : V3 := ⟨czero, czero, czero⟩
def V3.add (a b : V3) : V3 := ⟨a.q + b.q, a.g + b.g, a.n + b.n⟩
def V3.smul (r : K) (a : V3) : V3 := ⟨Cx.smul r a.q, Cx.smul r a.g, Cx.smul r a.n⟩
def V4.add (a b : V4) : V4 := ⟨a.s + b.s, a.g + b.g, a.u + b.u, a.d + b.d⟩
def V4.smul (r : K) (a : V4) : V4 := ⟨Cx.smul r a.s, Cx.smul r a.g, Cx.smul r a.u, Cx.smul r a.d⟩

/-- real triple of results (Hx, Ex) -/
structure T3 where
  q : K
  g : K
  n : K

inductive Err where
  | eta            -- Exception('eta has to be either 0 or equal to x')
  | processClass   -- Exception('process_class … is not DIS, DVCS or DVMP!')
  | residualt      -- ValueError("… unknown. Use 'dipole' or 'exp'")
  | alpAssert      -- AssertionError (qj: alp*alpf == 0)
  | nfAssert       -- AssertionError (tff: nf == 4)

inductive Proc where
  | dvcs
  | dis
  | dvmp
  | other

/-- an `int` as a scalar -/
def natK : Nat → K
  | 0 => 0
  | n + 1 => natK n + 1

/-! ### quadrature.mellin_barnes (after the repair: the argument c is used) -/

def division : List K := [0.0, 0.01, 0.08, 0.15, 0.3, 0.5, 1.0, 1.5, 2.0, 4.0, 6.0, 8.0, 10.0]

/-- the (x, wg) abscissas and weights on the ray, subinterval by subinterval -/
def rayNodes (roots weights : List K) : List K → List (K × K)
  | a :: b :: rest =>
    (List.zipWith (fun r w => (((b - a) * r + (b + a)) / 2, (b - a) * w / 2)) roots weights)
      ++ rayNodes roots weights (b :: rest)
  | _ => []

/-- `mellin_barnes(c, phi)`: (n_array − 1 = jpoints, wg_array) -/
def mellinBarnes (c phi : K) (roots weights : List K) : List (Cx K × K) :=
  let e : Cx K := cexp ⟨0, phi⟩
  (rayNodes roots weights division).map fun xw =>
    let n : Cx K := ⟨c + 1 + xw.1 * e.re, xw.1 * e.im⟩
    (⟨n.re - 1, n.im⟩, xw.2)

/-! ### data attached to one contour point -/

/-- 3×3 evolution operator [[QQ, QG, 0], [GQ, GG, 0], [0, 0, NS]] (np.block in calc_wce / calc_j2x);
    row = evolved flavour, column = input flavour -/
structure Op3 where
  si : M2
  ns : Cx K

def Op3.one : Op3 := ⟨M2.one, cone⟩

/-- `evola[:, 0] + asmuf2 * evola[:, 1]` -/
def Op3.combine (asmuf2 : K) (e0 e1 : Op3) : Op3 :=
  ⟨Evol.combine asmuf2 (e0.si, e1.si), e0.ns + Cx.smul asmuf2 e1.ns⟩

def Op3.rowQ (e : Op3) : V3 := ⟨e.si.a, e.si.b, czero⟩
def Op3.rowG (e : Op3) : V3 := ⟨e.si.c, e.si.d, czero⟩
def Op3.rowN (e : Op3) : V3 := ⟨czero, czero, e.ns⟩

/-- evolved moments Σ_a E[f, a] · h[a] -/
def Op3.apply (e : Op3) (h : V3) : V3 :=
  ⟨e.si.a * h.q + e.si.b * h.g, e.si.c * h.q + e.si.d * h.g, e.ns * h.n⟩

/-- everything that belongs to one partial wave s (conformal moment j + 2s) at one contour point -/
structure PWd where
  fshu : Cx K      -- wilson._fshu(j + 2s)
  c1 : V3          -- DVCS / DIS: c1dvcs.C1(m, j+2s, pc)[:3] = (q1, g1, nsp1);  DVMP: c1dvmp = (qp1, ps1, g1)
  e0 : Op3         -- evolop / evolopns, LO part
  e1 : Op3         -- NLO part

structure Pt where
  j : Cx K         -- jpoints[k]
  wg : K           -- wg[k]
  w0 : PWd
  w1 : PWd
  w2 : PWd

/-! ### the complex functions of mellin.py -/

/-- np.tan of a complex number -/
def ctan (z : Cx K) : Cx K :=
  let ep := kexp (2 * z.im)
  let em := kexp (-(2 * z.im))
  let den := kcos (2 * z.re) + (ep + em) / 2
  ⟨ksin (2 * z.re) / den, (ep - em) / 2 / den⟩

/-- `tgj = np.tan(pi*jpoints/2)` -/
def tgj (j : Cx K) : Cx K := ctan (Cx.divR (Cx.smul kpi j) 2)

/-- `eph * np.exp((jpoints + sh) * log(1/x))`, sh = 1 (CFF, j→x) or 0 (DIS) -/
def cfacj (phi x sh : K) (j : Cx K) : Cx K :=
  cexp ⟨0, phi⟩ * cexp (Cx.smul (klog (1 / x)) ⟨j.re + sh, j.im⟩)

/-- `np.dot(wg, cch.imag)` -/
def sumIm (pts : List Pt) (f : Pt → Cx K) : K :=
  pts.foldl (fun acc pt => acc + pt.wg * (f pt).im) 0

/-! ### flavour rotations -/

def R4.dot (r : R4) (h : V4) : Cx K :=
  Cx.smul r.s h.s + Cx.smul r.g h.g + Cx.smul r.u h.u + Cx.smul r.d h.d

/-- `einsum('fa,ja->jf', frot, h)` for one j -/
def rot (f : Frot) (h : V4) : V3 := ⟨f.q.dot h, f.g.dot h, f.n.dot h⟩

/-- `einsum('f,fa,ja->jf', dvcs_charges, frot, h)` for one j -/
def rotC (chg : R3) (f : Frot) (h : V4) : V3 :=
  ⟨(R4.mk (chg.q * f.q.s) (chg.q * f.q.g) (chg.q * f.q.u) (chg.q * f.q.d)).dot h,
   (R4.mk (chg.g * f.g.s) (chg.g * f.g.g) (chg.g * f.g.u) (chg.g * f.g.d)).dot h,
   (R4.mk (chg.n * f.n.s) (chg.n * f.n.g) (chg.n * f.n.u) (chg.n * f.n.d)).dot h⟩

/-- GPD.__init__: frot, frot_pdf (= frot_j2x) -/
def frotDefault : Frot := ⟨⟨1, 0, 1, 1⟩, ⟨0, 1, 0, 0⟩, ⟨0, 0, 0, 0⟩⟩
def frotPdf : Frot := ⟨⟨1, 0, 0, 0⟩, ⟨0, 1, 0, 0⟩, ⟨0, 0, 0, 0⟩⟩

/-- CFF.__init__: squared DVCS charge factors (qs, qs, qns) -/
def dvcsCharges (nf : Nat) : R3 := if nf = 3 then ⟨2 / 9, 2 / 9, 1 / 9⟩ else ⟨5 / 18, 5 / 18, 1 / 6⟩

/-- DIS.__init__ -/
def disCharge (nf : Nat) : K := if nf = 3 then 2 / 9 else 5 / 18

/-! ### wilson.calc_wc, calc_wce (one contour point, one partial wave) -/

def cfCF : K := (3 * 3 - 1) / (2 * 3)

/-- `calc_wc(m, j, process_class)[k]` = (LO row, NLO row) over (Q, G, NSP); `j` is the shifted moment -/
def calcWc (pc : Proc) (p nf : Nat) (j : Cx K) (d : PWd) : Except Err (V3 × V3) :=
  match pc with
  | .dvcs =>
    let c1 : V3 := if p = 1 then d.c1 else V3.zero
    .ok (⟨d.fshu * cone, d.fshu * czero, d.fshu * cone⟩, ⟨d.fshu * c1.q, d.fshu * c1.g, d.fshu * c1.n⟩)
  | .dis =>
    let c1 : V3 := if p = 1 then d.c1 else V3.zero
    .ok (⟨cone * cone, cone * czero, cone * cone⟩, ⟨cone * c1.q, cone * c1.g, cone * c1.n⟩)
  | .dvmp =>
    let qn := Cx.smul 3 d.fshu
    let gn := Cx.divR (Cx.smul 2 (Cx.smul 3 d.fshu)) cfCF / ⟨j.re + 3, j.im⟩
    let q0 := Cx.divR cone (natK nf)
    -- (qp1, ps1, g1) = c1dvmp(m, 1, j, 0);  q1 = qp1/nf + ps1;  nsp1 = qp1
    let q1 := if p = 1 then Cx.divR d.c1.q (natK nf) + d.c1.g else czero
    let g1 := if p = 1 then d.c1.n else czero
    let n1 := if p = 1 then d.c1.q else czero
    .ok (⟨qn * q0, gn * cone, qn * cone⟩, ⟨qn * q1, gn * g1, qn * n1⟩)
  | .other => .error .processClass

/-- `einsum('pi,pq,qij->j', wc, p_mat, evola)`, p_mat = [[1, asmuf2], [asmur2, 0]] -/
def wceOf (wc : V3 × V3) (asmuf2 asmur2 : K) (d : PWd) : V3 :=
  let s := wceSinglet (wc.1.q, wc.1.g) (wc.2.q, wc.2.g) asmuf2 asmur2 (d.e0.si, d.e1.si)
  ⟨s.1, s.2, wceNS wc.1.n wc.2.n asmuf2 asmur2 (d.e0.ns, d.e1.ns)⟩

def shiftJ (j : Cx K) (sh : K) : Cx K := ⟨j.re + sh, j.im⟩

/-- `calc_wce(m, Q2, process_class)[s, k, :]` -/
def calcWce (pc : Proc) (p nf : Nat) (asmuf2 asmur2 : K) (j : Cx K) (sh : K) (d : PWd) : Except Err V3 :=
  match calcWc pc p nf (shiftJ j sh) d with
  | .ok wc => .ok (wceOf wc asmuf2 asmur2 d)
  | .error e => .error e

/-! ### wilson.calc_j2x (one contour point, one partial wave) -/

/-- the j→x coefficients over the evolved flavours (Q, G, NSP) -/
def j2xWc (x eta : K) (j : Cx K) (fshu : Cx K) : Except Err V3 :=
  if eta < 1e-8 then .ok ⟨cone, Cx.smul x cone, czero⟩
  else if kabs (eta - x) < 1e-8 then
    .ok ⟨fshu, Cx.smul x (Cx.smul 2 fshu) / ⟨3 + j.re, j.im⟩, czero⟩
  else .error .eta

/-- `wce[s, k, i, a] = wc[k, i] · (E0 + asmuf2·E1)[k, i, a]`: three rows (evolved flavour i), each
    a V3 over the input flavour a -/
structure W33 where
  q : V3
  g : V3
  n : V3

def V3.scale (z : Cx K) (v : V3) : V3 := ⟨z * v.q, z * v.g, z * v.n⟩

def j2xOf (wc : V3) (asmuf2 : K) (d : PWd) : W33 :=
  let e := Op3.combine asmuf2 d.e0 d.e1
  ⟨V3.scale wc.q e.rowQ, V3.scale wc.g e.rowG, V3.scale wc.n e.rowN⟩

def calcJ2x (x eta asmuf2 : K) (j : Cx K) (sh : K) (d : PWd) : Except Err W33 :=
  match j2xWc x eta (shiftJ j sh) d.fshu with
  | .ok wc => .ok (j2xOf wc asmuf2 d)
  | .error e => .error e

/-! ### the einsum contractions of mellin.py at one contour point -/

/-- Σ_a cf · pw[a] · w[a] · h[a] -/
def pwTerm (cf : Cx K) (r : R3) (w h : V3) : Cx K :=
  Cx.smul r.q cf * w.q * h.q + Cx.smul r.g cf * w.g * h.g + Cx.smul r.n cf * w.n * h.n

/-- `einsum('j,sa,sja,ja->j', cfacj, pw_strengths, wce, h)[k]` -/
def cch (cf : Cx K) (pw : PWS) (w0 w1 w2 h : V3) : Cx K :=
  pwTerm cf pw.r0 w0 h + pwTerm cf pw.r1 w1 h + pwTerm cf pw.r2 w2 h

/-- Σ_a cf · w[a] · h[a]  (`einsum('j,ja,ja->j', …)`, `einsum('j,jfa,ja->jf', …)` for one f) -/
def fwdTerm (cf : Cx K) (w h : V3) : Cx K :=
  cf * w.q * h.q + cf * w.g * h.g + cf * w.n * h.n

/-! ### mellin._mellin_barnes_integral(_HE):  Im and Re (tan-weighted) sums -/

/-- the DVCS / DVMP evolved Wilson coefficients of the three partial waves at one point -/
def wce3 (pc : Proc) (p nf : Nat) (asmuf2 asmur2 : K) (pt : Pt) : Except Err (V3 × V3 × V3) :=
  match calcWce pc p nf asmuf2 asmur2 pt.j 0 pt.w0, calcWce pc p nf asmuf2 asmur2 pt.j 2 pt.w1,
        calcWce pc p nf asmuf2 asmur2 pt.j 4 pt.w2 with
  | .ok a, .ok b, .ok c => .ok (a, b, c)
  | .error e, _, _ => .error e
  | _, .error e, _ => .error e
  | _, _, .error e => .error e

/-- `cch[k]` of `_mellin_barnes_integral`: the integrand at one contour point for rotated moments h -/
def cchPt (pc : Proc) (p nf : Nat) (asmuf2 asmur2 phi xi : K) (pw : PWS) (h : Cx K → V3) (pt : Pt) : Cx K :=
  match wce3 pc p nf asmuf2 asmur2 pt with
  | .ok w => cch (cfacj phi xi 1 pt.j) pw w.1 w.2.1 w.2.2 (h pt.j)
  | .error _ => czero

/-- `_mellin_barnes_integral(xi, wce, h)` = (reh, imh) -/
def mbIntegral (pc : Proc) (p nf : Nat) (asmuf2 asmur2 phi xi : K) (pw : PWS) (h : Cx K → V3)
    (pts : List Pt) : Except Err (K × K) :=
  match pc with
  | .other => .error .processClass
  | _ =>
    let f := cchPt pc p nf asmuf2 asmur2 phi xi pw h
    .ok (sumIm pts (fun pt => f pt * tgj pt.j), sumIm pts f)

/-! ### cff.MellinBarnesCFF.cff -/

/-- `cff(pt)[:4]` = (ReH, ImH, ReE, ImE); H, E are the un-rotated moments as functions of j -/
def cff (p nf : Nat) (asmuf2 asmur2 phi xi : K) (frot : Frot) (pwH pwE : PWS) (H E : Cx K → V4)
    (pts : List Pt) : Except Err (K × K × K × K) :=
  let chg := dvcsCharges nf
  match mbIntegral .dvcs p nf asmuf2 asmur2 phi xi pwH (fun j => rotC chg frot (H j)) pts,
        mbIntegral .dvcs p nf asmuf2 asmur2 phi xi pwE (fun j => rotC chg frot (E j)) pts with
  | .ok h, .ok e => .ok (h.1, h.2, e.1, e.2)
  | .error e, _ => .error e
  | _, .error e => .error e

/-! ### dvmp.MellinBarnesTFF.tff -/

/-- `tff(xi, t, Q2)[:2]`; asQ = as2pf(p, nf, Q2, …), sqrtQ2 = np.sqrt(Q2), frho = constants.F_rho0 -/
def tff (p nf : Nat) (asmuf2 asmur2 asQ sqrtQ2 frho phi xi : K) (frot : Frot) (pw : PWS) (H : Cx K → V4)
    (pts : List Pt) : Except Err (K × K) :=
  if nf = 4 then
    let astrong := 2 * kpi * asQ
    match mbIntegral .dvmp p nf asmuf2 asmur2 phi xi pw (fun j => rot frot (H j)) pts with
    | .ok r =>
      let pre := cfCF * frho * astrong / 3 / sqrtQ2
      .ok (pre * r.1, pre * r.2)
    | .error e => .error e
  else .error .nfAssert

/-! ### dis.DIS.DISF2 -/

/-- the integrand of `_dis_mellin_barnes_integral` at one point (only the first partial wave) -/
def disPt (p nf : Nat) (asmuf2 asmur2 phi xB : K) (h : Cx K → V3) (pt : Pt) : Cx K :=
  match calcWce .dis p nf asmuf2 asmur2 pt.j 0 pt.w0 with
  | .ok w => fwdTerm (cfacj phi xB 0 pt.j) w (h pt.j)
  | .error _ => czero

def disSum (p nf : Nat) (asmuf2 asmur2 phi xB : K) (h : Cx K → V3) (pts : List Pt) : K :=
  sumIm pts (disPt p nf asmuf2 asmur2 phi xB h)

/-- `DISF2(pt)`; H0 = the moments H(0, 0) -/
def disF2 (p nf : Nat) (asmuf2 asmur2 phi xB : K) (H0 : Cx K → V4) (pts : List Pt) : K :=
  disCharge nf * disSum p nf asmuf2 asmur2 phi xB (fun j => rot frotPdf (H0 j)) pts / kpi

/-! ### mellin._j2x_mellin_barnes_integral(_E) and ConformalSpaceGPD.Hx / Ex -/

/-- forward limit: `einsum('j,jfa,ja->jf', cfacj, wce[0], gpd)[k, f]` for the three f -/
def j2xFwdPt (asmuf2 phi x eta : K) (h : Cx K → V3) (pt : Pt) : V3 :=
  match calcJ2x x eta asmuf2 pt.j 0 pt.w0 with
  | .ok w =>
    let cf := cfacj phi x 1 pt.j
    ⟨fwdTerm cf w.q (h pt.j), fwdTerm cf w.g (h pt.j), fwdTerm cf w.n (h pt.j)⟩
  | .error _ => V3.zero

/-- cross-over line: `einsum('j,sa,sjfa,ja->jf', cfacj, pw_strengths, wce, gpd)[k, f]` -/
def j2xCrossPt (asmuf2 phi x eta : K) (pw : PWS) (h : Cx K → V3) (pt : Pt) : V3 :=
  match calcJ2x x eta asmuf2 pt.j 0 pt.w0, calcJ2x x eta asmuf2 pt.j 2 pt.w1,
        calcJ2x x eta asmuf2 pt.j 4 pt.w2 with
  | .ok a, .ok b, .ok c =>
    let cf := cfacj phi x 1 pt.j
    ⟨cch cf pw a.q b.q c.q (h pt.j), cch cf pw a.g b.g c.g (h pt.j), cch cf pw a.n b.n c.n (h pt.j)⟩
  | _, _, _ => V3.zero

def sumIm3 (pts : List Pt) (f : Pt → V3) : T3 :=
  ⟨sumIm pts (fun pt => (f pt).q), sumIm pts (fun pt => (f pt).g), sumIm pts (fun pt => (f pt).n)⟩

/-- `_j2x_mellin_barnes_integral(x, eta, calc_j2x(m, x, eta, Q2), gpd)` (the same code serves H and E,
    with pw_strengths() resp. pw_strengths_E()) -/
def j2xIntegral (asmuf2 phi x eta : K) (pw : PWS) (h : Cx K → V3) (pts : List Pt) : Except Err T3 :=
  if eta < 1e-8 then .ok (sumIm3 pts (j2xFwdPt asmuf2 phi x eta h))
  else if kabs (eta - x) < 1e-8 then .ok (sumIm3 pts (j2xCrossPt asmuf2 phi x eta pw h))
  else .error .eta

/-- `Hx(pt)` / `Ex(pt)` = mb_int_flav / π, with gpd = frot_j2x · H -/
def xspace (asmuf2 phi x eta : K) (pw : PWS) (H : Cx K → V4) (pts : List Pt) : Except Err T3 :=
  match j2xIntegral asmuf2 phi x eta pw (fun j => rot frotPdf (H j)) pts with
  | .ok r => .ok ⟨r.q / kpi, r.g / kpi, r.n / kpi⟩
  | .error e => .error e

/-! ### gpd.qj, betadip, betaexp, singlet_ng_constrained(_E), PWNormGPD.H / E -/

/-- `special.pochhammer(z, m)` for a real z: `p = z; for k in range(1, m): p = p * (z + k)` -/
def pochLoopR (z : K) : Nat → K → K → K
  | 0, _, p => p
  | n + 1, k, p => pochLoopR z n (k + 1) (p * (z + k))

def pochR (z : K) (m : Nat) : K := pochLoopR z (m - 1) 1 z

/-- the same for a complex z -/
def pochLoopC (z : Cx K) : Nat → K → Cx K → Cx K
  | 0, _, p => p
  | n + 1, k, p => pochLoopC z n (k + 1) (p * ⟨z.re + k, z.im⟩)

def pochC (z : Cx K) (m : Nat) : Cx K := pochLoopC z (m - 1) 1 z

/-- `qj(j, t, poch, norm, al0, alp, alpf, val)` -/
def qj (j : Cx K) (t : K) (poch : Nat) (norm al0 alp alpf : K) (val : Nat) : Except Err (Cx K) :=
  if alp * alpf < 0 ∨ 0 < alp * alpf then .error .alpAssert
  else
    let alpt := al0 + alp * t
    let num : K := norm * pochR (2 - natK val - al0 - alpf * t) poch
    let den : Cx K := pochC ⟨1 - al0 + j.re, j.im⟩ poch
    .ok (Cx.ofReal num / den * ⟨1 + j.re - al0, j.im⟩ / ⟨1 + j.re - alpt, j.im⟩)

/-- z ** n for a small int n (numpy squares / multiplies) -/
def cpowN (z : Cx K) : Nat → Cx K
  | 0 => cone
  | n + 1 => cpowN z n * z

/-- `betadip(j, t, m02, delm2, pp)` = 1/(1 − t/(m02 + delm2·j))**pp -/
def betadip (j : Cx K) (t m02 delm2 : K) (pp : Nat) : Cx K :=
  cone / cpowN (cone - Cx.ofReal t / (Cx.ofReal m02 + Cx.smul delm2 j)) pp

/-- `betaexp(t, m02)` = cmath.exp(t/(2·m02)) -/
def betaexp (t m02 : K) : Cx K := ⟨kexp (t / (2 * m02)), 0⟩

inductive ResT where
  | dipole
  | exp
  | other

/-- the parameters singlet_ng_constrained reads (for E: Ens, Eal0s, …) -/
structure SeaPar where
  ns : K
  al0s : K
  alps : K
  ms2 : K
  al0g : K
  alpg : K
  mg2 : K

/-- `par['ng'] = 0.6 - par['ns']` -/
def ngOf (ns : K) : K := 0.6 - ns

/-- `singlet_ng_constrained(j, t, par, residualt)` (and `_E`, same code on the E-parameters) at one j -/
def singletNg (rt : ResT) (par : SeaPar) (t : K) (j : Cx K) : Except Err V4 :=
  let td : Except Err (Cx K × Cx K) :=
    match rt with
    | .dipole => .ok (betadip j t par.ms2 0.0 2, betadip j t par.mg2 0.0 2)
    | .exp => .ok (betaexp t par.ms2, betaexp t par.mg2)
    | .other => .error .residualt
  match td with
  | .error e => .error e
  | .ok (ts, tg) =>
    match qj j t 9 par.ns par.al0s par.alps 0 0, qj j t 7 (ngOf par.ns) par.al0g par.alpg 0 0 with
    | .ok s, .ok g => .ok ⟨s * ts, g * tg, czero, czero⟩
    | .error e, _ => .error e
    | _, .error e => .error e

/-- `PWNormGPD.E`: kapg = −kaps·ns/(0.6 − ns) (ns of H!), kappa · singlet_ng_constrained_E -/
def kapgOf (kaps ns : K) : K := -kaps * ns / (0.6 - ns)

def pwNormE (rt : ResT) (kaps ns : K) (parE : SeaPar) (t : K) (j : Cx K) : Except Err V4 :=
  match singletNg rt parE t j with
  | .ok v => .ok ⟨Cx.smul kaps v.s, Cx.smul (kapgOf kaps ns) v.g, Cx.smul 0 v.u, Cx.smul 0 v.d⟩
  | .error e => .error e

/-! ### the evolution operator data from the C02 model (used by the theorems; the harness feeds the
    entries computed by the real evolution.evolop instead) -/

/-- what evolop / evolopns need at one (shifted) moment -/
structure EvolIn where
  g0 : M2
  g1 : M2
  n0 : Cx K
  n1 : Cx K
  nd : Option NdItems
  ndns : Option (List (Cx K × Cx K × Cx K))

/-- (E0, E1) as 3×3 blocks from `evolop`, `evolopns` at coupling ratio R -/
def opOfEvol (p : Nat) (b0 b1 R : K) (x : EvolIn) : Op3 × Op3 :=
  let s := evolop p x.g0 x.g1 b0 b1 R x.nd
  let n := evolopns p x.n0 x.n1 b0 b1 R x.ndns
  (⟨s.1, n.1⟩, ⟨s.2, n.2⟩)

def PWd.withEvol (d : PWd) (p : Nat) (b0 b1 R : K) (x : EvolIn) : PWd :=
  { d with e0 := (opOfEvol p b0 b1 R x).1, e1 := (opOfEvol p b0 b1 R x).2 }

end MB

end Gep.R

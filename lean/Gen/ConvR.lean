-- AUTO-GENERATED from lean/Scalar/Conv.lean.in — do not edit
import Proofs.ScalarR
set_option linter.unusedVariables false
noncomputable section
open Classical
namespace Gep.R
/-
  Conv — model of gepard.data: _fill_kinematics / _complete_xBWQ2 / _complete_tmt (no `old` point,
  as in DataPoint.__init__ and update_from_grid) and DataPoint.to_conventions / from_conventions /
  orig_conventions.   (property C13)
-/

/-- the kinematic attributes a DataPoint may carry (none = key absent) -/
structure Kin where
  xB : Option K := none
  W : Option K := none
  Q2 : Option K := none
  t : Option K := none
  tm : Option K := none
  xi : Option K := none

inductive FillRes where
  | ok (k : Kin)
  | kinematicsError
  | assertionError
  | zeroDivisionError          -- Python float division by zero
  | valueError                 -- math.sqrt of a negative number ("math domain error")

inductive PyErr where
  | zeroDivision
  | mathDomain

/-- `_complete_xBWQ2` when exactly two of the trio are present (M2 = Mp²) -/
def completeTrio (M2 : K) (k : Kin) : Option Kin :=
  match k.xB, k.W, k.Q2 with
  | none, some w, some q => some { k with xB := some (q / (w ^ (2:Nat) + q - M2)) }
  | some x, none, some q => some { k with W := some (ksqrt (q / x - q + M2)) }
  | some x, some w, none => some { k with Q2 := some (x * (w ^ (2:Nat) - M2) / (1 - x)) }
  | _, _, _ => none

/-- `d == 0.0` for a float denominator (a NaN is not produced by any input the property quantifies over) -/
def isZero (d : K) : Bool := if d < 0 then false else if d > 0 then false else true

/-- the exception `_complete_xBWQ2` raises instead of returning, for two given members of the trio -/
def trioRaises (M2 : K) (k : Kin) : Option PyErr :=
  match k.xB, k.W, k.Q2 with
  | none, some w, some q => if isZero (w ^ (2:Nat) + q - M2) then some .zeroDivision else none
  | some x, none, some q =>
    if isZero x then some .zeroDivision
    else if q / x - q + M2 < 0 then some .mathDomain else none
  | some x, some _, none => if isZero (1 - x) then some .zeroDivision else none
  | _, _, _ => none

def countTrio (k : Kin) : Nat :=
  (if k.xB.isSome then 1 else 0) + (if k.W.isSome then 1 else 0) + (if k.Q2.isSome then 1 else 0)

/-- `_complete_tmt` part of `_fill_kinematics`: the duo {t, tm} is tested on the keys present at entry (`k`) -/
def fillDuo (k k2 : Kin) : FillRes :=
  match k.t, k.tm with
  | some _, some _ => .kinematicsError
  | some t, none => if t ≤ 0 then .ok { k2 with tm := some (-t) } else .assertionError
  | none, some tm => if tm ≥ 0 then .ok { k2 with t := some (-tm) } else .assertionError
  | none, none => .ok k2

/-- `_fill_kinematics(kin)` with `old = {}` -/
def fill (M2 : K) (k : Kin) : FillRes :=
  if countTrio k = 3 then .kinematicsError else
  -- exceptions come in the order of the statements: trio, then xi, then the duo
  match (if countTrio k = 2 then trioRaises M2 k else none) with
  | some .zeroDivision => .zeroDivisionError
  | some .mathDomain => .valueError
  | none =>
  let k1 := if countTrio k = 2 then (completeTrio M2 k).getD k else k
  match k1.xB with
  | some x =>
    if isZero (2 - x) then .zeroDivisionError else
    fillDuo k { k1 with xi := some (x / (2 - x)) }
  | none => fillDuo k k1

/-! ### conventions -/

/-- what to_conventions / from_conventions read and write on a point -/
structure CPt where
  val : K
  errs : List K              -- the error attributes present (err, errplus, …), in `errtypes` order
  phi : Option K := none
  FTn : Option Int := none
  varphi : Option K := none
  varFTn : Option Int := none
  trento : Bool := false      -- frame == 'Trento'
  phiDeg : Bool := false      -- units['phi'] starts with 'deg'
  pb : Bool := false          -- units[observable] == 'pb/GeV^4'

def flipsFTn (n : Int) : Bool := n == 1 || n == 3 || n == -2
def flipsVar (n : Int) : Bool := n == 1 || n == -1

/-- `to_conventions`; none = ValueError (varFTn not ±1 in the Trento frame) -/
def toConv (p : CPt) : Option CPt :=
  -- C1
  let p1 := match p.phi with
    | some f => if p.phiDeg then { p with phi := some (f * kpi / 180) } else p
    | none => p
  -- C2, C3
  let p3 : Option CPt :=
    if p1.trento then
      let p2 := match p1.phi, p1.FTn with
        | some f, _ => { p1 with phi := some (kpi - f) }
        | none, some n => if flipsFTn n then { p1 with val := -p1.val } else p1
        | none, none => p1
      match p2.varphi, p2.varFTn with
      | some v, _ => some { p2 with varphi := some (v - kpi) }
      | none, some n => if flipsVar n then some { p2 with val := -p2.val } else none
      | none, none => some p2
    else some p1
  -- C4
  p3.map fun q => if q.pb then { q with val := q.val / 1000, errs := q.errs.map (· / 1000) } else q

/-- `from_conventions` -/
def fromConv (p : CPt) : CPt :=
  let p1 := if p.pb then { p with val := p.val * 1000, errs := p.errs.map (· * 1000) } else p
  let p3 :=
    if p1.trento then
      let p2 := match p1.phi, p1.FTn with
        | some f, _ => { p1 with phi := some (kpi - f) }
        | none, some n => if flipsFTn n then { p1 with val := -p1.val } else p1
        | none, none => p1
      match p2.varphi, p2.varFTn with
      | some v, _ => { p2 with varphi := some (v + kpi) }
      | none, some n => if flipsVar n then { p2 with val := -p2.val } else p2
      | none, none => p2
    else p1
  match p3.phi with
  | some f => if p3.phiDeg then { p3 with phi := some (f / kpi * 180) } else p3
  | none => p3

/-- `orig_conventions(val)`: the prediction `v` expressed in the point's original conventions -/
def origConv (p : CPt) (v : K) : K :=
  let v1 := if p.pb then v * 1000 else v
  -- a harmonic flips the sign only when the point is not given at an explicit angle (data.py after fix:
  -- `'phi' not in self and 'FTn' in self`, `'varphi' not in self and 'varFTn' in self`)
  let v2 := match p.phi, p.FTn with
    | none, some n => if p.trento && flipsFTn n then -v1 else v1
    | _, _ => v1
  match p.varphi, p.varFTn with
  | none, some n => if p.trento && flipsVar n then -v2 else v2
  | _, _ => v2

/-- `orig_conventions` before the repair: a harmonic index flipped the sign even when the point carried the angle
    itself (as every transversely polarised point loaded from a file does: `varFTn = -1` is filled in by default) -/
def origConvOld (p : CPt) (v : K) : K :=
  let v1 := if p.pb then v * 1000 else v
  let v2 := match p.FTn with
    | some n => if p.trento && flipsFTn n then -v1 else v1
    | none => v1
  match p.varFTn with
  | some n => if p.trento && flipsVar n then -v2 else v2
  | none => v2

end Gep.R

-- AUTO-GENERATED from lean/Scalar/Uncert.lean.in — do not edit
import Model.ScalarF
set_option linter.unusedVariables false
namespace Gep.F
/-
  Uncert — model of the arithmetic of Theory.predict(pt, uncertainty=True): central differences with
  step = parameter error, contraction with the covariance matrix or the diagonal fallback.
  The observable is a function parameter `f` of the free-parameter vector.     (property C18)
-/

/-- θ with its i-th entry moved by d (`self.parameters[p] = mem ± h/2`) -/
def shiftAt (θ : List K) (i : Nat) (d : K) : List K :=
  θ.zipIdx.map fun (x, j) => if j = i then x + d else x

/-- `dfdp[p] = (up - down)/h` -/
def dfdp (f : List K → K) (θ : List K) (h : K) (i : Nat) : K :=
  (f (shiftAt θ i (h / 2)) - f (shiftAt θ i (-(h / 2)))) / h

def grads (f : List K → K) (θ hs : List K) : List K :=
  hs.zipIdx.map fun (h, i) => dfdp f θ h i

/-- `for p1 in pars: for p2 in pars: var += dfdp[p1]*cov[p1,p2]*dfdp[p2]` -/
def varCov (d : List K) (C : List (List K)) : K :=
  (d.zip C).foldl (fun acc (di, row) =>
    (d.zip row).foldl (fun acc2 (dj, cij) => acc2 + di * cij * dj) acc) 0

/-- `for p in pars: var += (dfdp[p]*parameters_errors[p])**2` -/
def varDiag (d hs : List K) : K :=
  (d.zip hs).foldl (fun acc (di, hi) => acc + (di * hi) ^ (2:Nat)) 0

/-- `(fun(pt), sqrt(var))`; `C = none`: theory has no (non-empty) covariance → diagonal fallback -/
def predictUnc (f : List K → K) (θ hs : List K) (C : Option (List (List K))) : K × K :=
  let d := grads f θ hs
  let var := match C with
    | some c => varCov d c
    | none => varDiag d hs
  (f θ, ksqrt var)

end Gep.F

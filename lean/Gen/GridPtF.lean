-- AUTO-GENERATED from lean/Scalar/GridPt.lean.in — do not edit
import Model.ScalarF
set_option linter.unusedVariables false
namespace Gep.F
/-
  GridPt — model of the arithmetic in DataPoint.update_from_grid (error combination) and of
  DataSet.__init__'s Mandelstam s.   (property C09)
-/
structure ErrIn where
  total : Option K := none          -- y1error
  stat : Option K := none           -- y1errorstatistic
  statPM : Option (K × K) := none   -- y1errorstatisticplus / minus
  syst : Option K := none
  systPM : Option (K × K) := none
  norm : Option K := none           -- y1errornormalization (fraction of val)

structure ErrOut where
  err : K
  errplus : K
  errminus : K
  errstat : Option K
  errsyst : Option K
  errnorm : Option K

def kmax (a b : K) : K := if a ≥ b then a else b

/-- the variance bookkeeping of `update_from_grid` -/
structure Vars where
  varstat : K
  varsyst : K
  varsym : K
  varplus : K
  varminus : K
  varnorm : K

def variances (val : K) (e : ErrIn) : Vars :=
  let es := match e.stat with | some s => s ^ (2:Nat) | none => 0
  let (sp, sm) := match e.statPM with | some (p, m) => (p ^ (2:Nat), m ^ (2:Nat)) | none => (0, 0)
  let ey := match e.syst with | some s => s ^ (2:Nat) | none => 0
  let (yp, ym) := match e.systPM with | some (p, m) => (p ^ (2:Nat), m ^ (2:Nat)) | none => (0, 0)
  { varstat := 0 + es + kmax sp sm,
    varsyst := 0 + ey + kmax yp ym,
    varsym := 0 + es + ey,
    varplus := 0 + sp + yp,
    varminus := 0 + sm + ym,
    varnorm := match e.norm with | some n => 0 + (n * val) ^ (2:Nat) | none => 0 }

def combine (val : K) (e : ErrIn) : ErrOut :=
  match e.total with
  | some t => { err := t, errplus := t, errminus := t, errstat := none, errsyst := none, errnorm := none }
  | none =>
    let v := variances val e
    { errplus := ksqrt (v.varsym + v.varplus + v.varnorm),
      errminus := ksqrt (v.varsym + v.varminus + v.varnorm),
      errstat := some (ksqrt v.varstat),
      errsyst := some (ksqrt (v.varsyst + v.varnorm)),
      errnorm := some (ksqrt v.varnorm),
      err := ksqrt (v.varstat + v.varsyst + v.varnorm) }

/-- `s` for a fixed-target / collider ep → epγ experiment (Mp, Mp2 passed in) -/
def sFixed (Mp Mp2 E : K) : K := 2 * Mp * E + Mp2
def sCollider (Mp2 E1 E2 : K) : K := 2 * E1 * (E2 + ksqrt (E2 ^ (2:Nat) - Mp2)) + Mp2

end Gep.F

-- AUTO-GENERATED from lean/Scalar/Disp.lean.in — do not edit
import Model.ScalarF
set_option linter.unusedVariables false
namespace Gep.F
/-
  Disp — model of the dispersive real parts of gepard.cff (property C14):
    DispersionCFF.dispargV / dispargA / _ReV / _ReA / ReH / ReE / ReHt / ReEt / subtraction,
    quadrature.PVquadrature (= quadSciPy18transposed), PionPole.DMfixpole / DMfreepole,
    DispersionFixedPoleCFF.ImH / ImHt / ImE / subtraction (the KM ansatz), DispersionFreePoleCFF,
    HybridCFF.ReH / ReE / ReHt / ReEt (+ HybridFixedPoleCFF / HybridFreePoleCFF), gk.GK12D.subtraction,
    gk.GoloskokovKrollCFF.ReEt wiring.

  Parameters of the model (never re-implemented here):
    * the imaginary-part ansatz `imfun : K → K`  (x ↦ fun(pt, x);  fun(pt) = imfun pt.xi).  It is taken
      as a total function: the KM ansatz raises ZeroDivisionError at x = 0 and turns complex for x > 1,
      which is outside what the model describes (0 < x ≤ 1);
    * the Gauss–Legendre nodes/weights `q : Quad` (scipy p_roots(18), module data of gepard.quadrature),
      fed by the harness as data;
    * the Mellin–Barnes part of the Hybrid models (a number per point).
-/

/-- `ga = 0.9` in dispargV and dispargA -/
def ga : K := 0.9

/-- `u = x**(1./(1.-ga))` -/
def dispU (x : K) : K := kpow x (1 / (1 - ga))

/-- `DispersionCFF.dispargV(x, fun, pt)`; `imfun u` = fun(pt, u), `imfun xi` = fun(pt) -/
def dispargV (imfun : K → K) (xi x : K) : K :=
  let u := dispU x
  let res := kpow u ga * (imfun u - imfun xi)
  (2 * u) / (xi ^ (2:Nat) - u ^ (2:Nat)) * res / (1 - ga)

/-- `DispersionCFF.dispargA(x, fun, pt)` -/
def dispargA (imfun : K → K) (xi x : K) : K :=
  let u := dispU x
  let res := kpow u ga * (imfun u - imfun xi)
  (2 * xi) / (xi ^ (2:Nat) - u ^ (2:Nat)) * res / (1 - ga)

/-- quadrature data: the pairs (roots18[i], weights18[i]) in order -/
abbrev Quad := List (K × K)

/-- `quadSciPy18transposed(func, a, b)`: y = (b-a)*(roots+1)/2.0 + a;
    (b-a)/2.0 * sum(weights*func(y)) -/
def pvquad (q : Quad) (f : K → K) (a b : K) : K :=
  (b - a) / 2 * q.foldl (fun acc rw => acc + rw.2 * f ((b - a) * (rw.1 + 1) / 2 + a)) 0

/-- outcome of a real-part evaluation -/
inductive DRes where
  | ok (v : K)
  | valueError          -- math.log of a non-positive number ("math domain error")
  | zeroDivisionError   -- Python float division by zero

/-- `math.log(num / den)` on Python floats -/
def pyLogDiv (num den : K) : DRes :=
  if den < 0 ∨ 0 < den then
    (if 0 < num / den then .ok (klog (num / den)) else .valueError)
  else .zeroDivisionError

/-- `DispersionCFF._ReV(pt, imfun, subsign)`; `sub` = self.subtraction(pt) -/
def reV (q : Quad) (imfun : K → K) (sub xi subsign : K) : DRes :=
  let res := pvquad q (dispargV imfun xi) 0 1
  match pyLogDiv (xi ^ (2:Nat)) (1 - xi ^ (2:Nat)) with
  | .ok l => .ok ((res + l * imfun xi) / kpi + subsign * sub)
  | e => e

/-- `DispersionCFF._ReA(pt, imfun)` -/
def reA (q : Quad) (imfun : K → K) (xi : K) : DRes :=
  let res := pvquad q (dispargA imfun xi) 0 1
  match pyLogDiv (1 + xi) (1 - xi) with
  | .ok l => .ok ((res + l * imfun xi) / kpi)
  | e => e

/-- `DispersionCFF.ReH / ReE / ReHt / ReEt` -/
def reH (q : Quad) (imH : K → K) (sub xi : K) : DRes := reV q imH sub xi (-1)
def reE (q : Quad) (imE : K → K) (sub xi : K) : DRes := reV q imE sub xi 1
def reHt (q : Quad) (imHt : K → K) (xi : K) : DRes := reA q imHt xi
def reEt (q : Quad) (imEt : K → K) (xi : K) : DRes := reA q imEt xi

/-! ### the KM ansatz: DispersionFixedPoleCFF / DispersionFreePoleCFF -/

structure KMPar where
  Nsea : K
  alS : K
  alpS : K
  mS2 : K
  rS : K
  bS : K
  Nv : K
  alv : K
  alpv : K
  mv2 : K
  rv : K
  bv : K
  C : K
  mC2 : K
  tNv : K
  tal : Option K      -- none = key absent (old models): Regge trajectory of H is used
  talp : Option K
  tmv2 : K
  trv : K
  tbv : K

/-- squared-charge factor; `neutron` = ('in2particle' in pt and pt.in2particle == 'n') -/
def chgfac (neutron : Bool) : K := if neutron then (1 * 4 / 9 + 2 / 9) else (2 * 4 / 9 + 1 / 9)

/-- `DispersionFixedPoleCFF.ImH(pt, x)` -/
def kmImH (p : KMPar) (t : K) (neutron : Bool) (x : K) : K :=
  let twox := 2 * x / (1 + x)
  let onex := (1 - x) / (1 + x)
  let val := chgfac neutron * p.Nv * p.rv * kpow twox (-p.alv - p.alpv * t) *
               kpow onex p.bv / (1 - onex * t / p.mv2)
  let sea := (2 / 9) * p.Nsea * p.rS * kpow twox (-p.alS - p.alpS * t) *
               kpow onex p.bS / (1 - onex * t / p.mS2) ^ (2:Nat)
  kpi * (val + sea) / (1 + x)

/-- `DispersionFixedPoleCFF.ImHt(pt, x)` -/
def kmImHt (p : KMPar) (t : K) (neutron : Bool) (x : K) : K :=
  let twox := 2 * x / (1 + x)
  let onex := (1 - x) / (1 + x)
  let regge := match p.tal, p.talp with
    | some a, some ap => -a - ap * t
    | _, _ => -p.alv - p.alpv * t
  let val := chgfac neutron * p.tNv * p.trv * kpow twox regge * kpow onex p.tbv /
               (1 - onex * t / p.tmv2)
  kpi * val / (1 + x)

/-- `DispersionFixedPoleCFF.ImE(pt, x)` -/
def kmImE (x : K) : K := 0

/-- `DispersionFixedPoleCFF.subtraction(pt)` -/
def kmSubtraction (p : KMPar) (t : K) : K := p.C / (1 - t / p.mC2) ^ (2:Nat)

/-- `GK12D.subtraction(pt)` -/
def gk12dSubtraction (t : K) : K :=
  let denom := kpow (1 - t / (0.841 * 0.487 ^ (2:Nat))) 0.841
  let c : K := -(10 / 9)
  c * (-1.9 / denom)

/-- `PionPole.DMfixpole(pt)` -/
def dmFixPole (t xi : K) (neutron : Bool) : K :=
  let pole := (2.2390424 * (1 - (1.7 * (0.0196 - t)) / (1 - t / 2) ^ (2:Nat))) / ((0.0196 - t) * xi)
  if neutron then -pole else pole

/-- `PionPole.DMfreepole(pt)` -/
def dmFreePole (rpi mpi2 t xi : K) (neutron : Bool) : K :=
  let pole := rpi * 2.16444 / (0.0196 - t) / (1 - t / mpi2) ^ (2:Nat) / xi
  if neutron then -pole else pole

/-- DispersionFixedPoleCFF: ReH, ReE, ReHt by dispersion relation, ReEt by the pion pole -/
def kmReH (q : Quad) (p : KMPar) (t : K) (n : Bool) (xi : K) : DRes :=
  reH q (kmImH p t n) (kmSubtraction p t) xi
def kmReE (q : Quad) (p : KMPar) (t : K) (xi : K) : DRes :=
  reE q kmImE (kmSubtraction p t) xi
def kmReHt (q : Quad) (p : KMPar) (t : K) (n : Bool) (xi : K) : DRes :=
  reHt q (kmImHt p t n) xi
def kmReEtFixed (t xi : K) (n : Bool) : K := dmFixPole t xi n
def kmReEtFree (rpi mpi2 t xi : K) (n : Bool) : K := dmFreePole rpi mpi2 t xi n

/-! ### HybridCFF: Mellin–Barnes part (a parameter) + dispersive part with the KM Im as imfun -/

def addMB (mb : K) : DRes → DRes
  | .ok v => .ok (mb + v)
  | e => e

/-- `HybridCFF.ReH(pt)` = MellinBarnesCFF.ReH(self, pt) + DispersionFixedPoleCFF.ReH(self, pt,
    imfun=DispersionFixedPoleCFF.ImH) -/
def hybridReH (mbReH : K) (q : Quad) (p : KMPar) (t : K) (n : Bool) (xi : K) : DRes :=
  addMB mbReH (reH q (kmImH p t n) (kmSubtraction p t) xi)
/-- `HybridCFF.ReE(pt)` -/
def hybridReE (mbReE : K) (q : Quad) (p : KMPar) (t : K) (xi : K) : DRes :=
  addMB mbReE (reE q kmImE (kmSubtraction p t) xi)
/-- `HybridCFF.ReHt(pt)`: no MB part -/
def hybridReHt (q : Quad) (p : KMPar) (t : K) (n : Bool) (xi : K) : DRes :=
  reHt q (kmImHt p t n) xi
/-- `HybridCFF.ImH(pt, x)`: the MB part is always taken at pt.xi -/
def hybridImH (mbImH : K) (p : KMPar) (t : K) (n : Bool) (x : K) : K := mbImH + kmImH p t n x
/-- `HybridCFF.ReEt` = 0; HybridFixedPoleCFF / HybridFreePoleCFF: the pion pole -/
def hybridReEt : K := 0

/-- `GoloskokovKrollCFF.ReEt(pt)` = ReEtpole(pt) + DispersionCFF.ReEt(self, pt) -/
def gkReEt (pole : K) (q : Quad) (imEt : K → K) (xi : K) : DRes := addMB pole (reEt q imEt xi)

end Gep.F

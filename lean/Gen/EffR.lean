-- AUTO-GENERATED from lean/Scalar/Eff.lean.in — do not edit
import Proofs.ScalarR
set_option linter.unusedVariables false
noncomputable section
open Classical
namespace Gep.R
/-
  Eff — model of gepard.eff (DipoleEFF, KellyEFF: the hard-coded rational functions of t, with the
  code's decimal literals and the code's expression structure), of Kelly's published Sachs
  parametrisation (coefficients are PARAMETERS) and of the region dispatch of
  gepard.gk.GoloskokovKrollCFF._val / ._sea (the analytic double-distribution integrals
  `_intval` / `_intsea` are abstract function parameters).      (property C19)
-/

/-! ### KellyEFF: denominators (sub-expressions of the code, named) -/

/-- proton G_E denominator `1 - 3.118062557942468*t + 1.0338391956016382*t**2 - 0.5031268669574522*t**3` -/
def pDenE (t : K) : K :=
  1 - 3.118062557942468*t + 1.0338391956016382*t^(2:Nat) - 0.5031268669574522*t^(3:Nat)

/-- proton G_M denominator -/
def pDenM (t : K) : K :=
  1 - 3.115222792407001*t + 1.520921000705686*t^(2:Nat) - 0.14999913420898098*t^(3:Nat)

/-- proton `1 + tau` = `1 - 0.28397655354667284*t` -/
def pDenTau (t : K) : K := 1 - 0.28397655354667284*t

/-- neutron G_E denominator `(1 - 1.4084507042253522*t)**2 * (1 - 0.9345440355820054*t)` -/
def nDenE (t : K) : K := (1 - 1.4084507042253522*t)^(2:Nat) * (1 - 0.9345440355820054*t)

/-- neutron G_M denominator -/
def nDenM (t : K) : K :=
  1 - 4.168632789020339*t + 1.9408278987597791*t^(2:Nat) - 1.9100884849907935*t^(3:Nat)

/-- neutron `1 + tau` = `1 - 0.2831951622975774*t` -/
def nDenTau (t : K) : K := 1 - 0.2831951622975774*t

/-! ### KellyEFF._pF1 / _pF2 / _nF1 / _nF2 (same operations, same order as eff.py) -/

def pF1 (t : K) : K :=
  ((1 + 0.06815437285120148*t)/(pDenE t) -
    (0.7931031653189349*(1 - 0.03407718642560074*t)*t) / (pDenM t))/(pDenTau t)

def pF2 (t : K) : K :=
  (-((1 + 0.06815437285120148*t)/(pDenE t)) +
    (2.792847351*(1 - 0.03407718642560074*t))/(pDenM t)) / (pDenTau t)

def nF1 (t : K) : K :=
  ((-0.4842637275288574*t)/(nDenE t) +
    (0.5417644379086957*(1 - 0.6598447281533554*t)*t) / (nDenM t))/(nDenTau t)

def nF2 (t : K) : K :=
  ((0.4842637275288574*t)/(nDenE t) - (1.9130427*(1 - 0.6598447281533554*t)) / (nDenM t))/(nDenTau t)

/-! ### DipoleEFF (proton only; anything else raises) -/

def dipDen (t : K) : K := (0.71 - t)^(2:Nat) * (3.53 - t)

def dipF1 (t : K) : K := (1.41 * (1.26 - t))/(dipDen t)

def dipF2 (t : K) : K := 3.2 / (dipDen t)

/-- `in2particle`: absent, 'p', 'n' or any other string -/
inductive Particle where
  | absent | p | n | other

inductive EffRes where
  | ok (v : K)
  | exception        -- `raise Exception('Neutron dipole elastic FFs are not implemented yet! …')`

/-- `KellyEFF.F1(pt)`: neutron iff in2particle == 'n', proton is the default -/
def kellyF1 (part : Particle) (t : K) : EffRes :=
  match part with
  | .n => .ok (nF1 t)
  | _ => .ok (pF1 t)

def kellyF2 (part : Particle) (t : K) : EffRes :=
  match part with
  | .n => .ok (nF2 t)
  | _ => .ok (pF2 t)

/-- `DipoleEFF.F1(pt)`: only for in2particle == 'p' -/
def dipoleF1 (part : Particle) (t : K) : EffRes :=
  match part with
  | .p => .ok (dipF1 t)
  | _ => .exception

def dipoleF2 (part : Particle) (t : K) : EffRes :=
  match part with
  | .p => .ok (dipF2 t)
  | _ => .exception

/-! ### Kelly's published parametrisation (Phys. Rev. C 70 (2004) 068202); coefficients are parameters -/

/-- G(τ) = (1 + a₁ τ)/(1 + b₁ τ + b₂ τ² + b₃ τ³)  (G_Ep, G_Mp/μ_p, G_Mn/μ_n) -/
def kellyG (a1 b1 b2 b3 tau : K) : K :=
  (1 + a1*tau)/(1 + b1*tau + b2*tau^(2:Nat) + b3*tau^(3:Nat))

/-- standard dipole G_D = (1 - t/Λ²)⁻² -/
def dipoleGD (lam2 t : K) : K := 1/(1 - t/lam2)^(2:Nat)

/-- Kelly's neutron electric form factor G_En = A τ/(1 + B τ) · G_D -/
def kellyGEn (A B lam2 tau t : K) : K := A*tau/(1 + B*tau) * dipoleGD lam2 t

/-- Dirac form factor from the Sachs ones: F1 = (G_E + τ G_M)/(1 + τ) -/
def sachsF1 (GE GM tau : K) : K := (GE + tau*GM)/(1 + tau)

/-- Pauli form factor from the Sachs ones: F2 = (G_M - G_E)/(1 + τ) -/
def sachsF2 (GE GM tau : K) : K := (GM - GE)/(1 + tau)

/-- the standard dipole form factors G_E = G_D, G_M = μ G_D, as Dirac and Pauli form factors -/
def stdDipoleF1 (mu fourM2 lam2 t : K) : K :=
  sachsF1 (dipoleGD lam2 t) (mu * dipoleGD lam2 t) (-t/fourM2)

def stdDipoleF2 (mu fourM2 lam2 t : K) : K :=
  sachsF2 (dipoleGD lam2 t) (mu * dipoleGD lam2 t) (-t/fourM2)

/-! ### GK: region dispatch of `_val` and `_sea`
  `I y zero` stands for `self._intval(y, eta, alt, j, zero)` resp. `self._intsea(…)` at fixed
  (eta, alt, j): an abstract function. -/

inductive Region where
  | dglap    -- x >= eta
  | erbl     -- -eta < x < eta
  | outer    -- everything else (x <= -eta, or NaN comparisons)
deriving DecidableEq, Repr

def region (x eta : K) : Region :=
  if x ≥ eta then .dglap
  else if -eta < x ∧ x < eta then .erbl
  else .outer

/-- `_val(x, eta, alt, j)` (no assertion on eta in the code) -/
def gkVal (I : K → Bool → K) (x eta : K) : K :=
  match region x eta with
  | .dglap => I x false
  | .erbl => I x true
  | .outer => 0

/-- `_sea(x, eta, alt, j)` with DMKILL = 1; `none` = AssertionError (`assert eta >= 0`).
    (The ERBL branch is modelled as intended, `self._intsea(x, …, zero=True) - …`.) -/
def gkSea (I : K → Bool → K) (x eta : K) : Option K :=
  if eta ≥ 0 then
    some (match region x eta with
      | .dglap => I x false
      | .erbl => I x true - 1 * I (-x) true
      | .outer => -1 * I (-x) false)
  else none

end Gep.R

-- AUTO-GENERATED from lean/Scalar/Special.lean.in — do not edit
import Proofs.ScalarR
set_option linter.unusedVariables false
noncomputable section
open Classical
namespace Gep.R
/-
  Special — model of gepard/special.py (property C16): pochhammer, dpsi_one / dpsi, S1..S4,
  S2_prime, S3_prime, delS2, deldelS2, MellinF2, SB3, S2_tilde.
  Complex numbers are the two-field `Cx K` (Model/Cx.lean).  The external routines and constants
  the Python imports are PARAMETERS (`Ext`): scipy.special.psi, scipy.special.zeta(2|3|4),
  np.euler_gamma, math.log(2).  Not modelled: `parity`, `Sm1` ("FIXME: not tested", unused).
-/

/-- what special.py takes from scipy / numpy / math -/
structure Ext where
  psi : Cx K → Cx K
  zeta2 : K
  zeta3 : K
  zeta4 : K
  egamma : K
  log2 : K

/-- outcome of a call: a value, Python's ZeroDivisionError (`-1/z` at z = 0 inside dpsi_one), or
    the model's recursion fuel ran out (no counterpart in the code, whose `while` is unbounded) -/
inductive Res (α : Type) where
  | ok (v : α)
  | zeroDivision
  | fuel

def Res.bind {α β : Type} (r : Res α) (g : α → Res β) : Res β :=
  match r with
  | .ok v => g v
  | .zeroDivision => .zeroDivision
  | .fuel => .fuel

def Res.map {α β : Type} (g : α → β) (r : Res α) : Res β :=
  match r with
  | .ok v => .ok (g v)
  | .zeroDivision => .zeroDivision
  | .fuel => .fuel

def cone : Cx K := ⟨1, 0⟩
def czero : Cx K := ⟨0, 0⟩
def chalf : Cx K := ⟨1 / 2, 0⟩

/-- an `int` loop counter as a scalar -/
def natK : Nat → K
  | 0 => 0
  | n + 1 => natK n + 1

/-- `factorial(m)` converted to float -/
def factK : Nat → K
  | 0 => 1
  | n + 1 => factK n * natK (n + 1)

/-- `z ** n` for a small non-negative int exponent (a product of n factors) -/
def cpow (z : Cx K) : Nat → Cx K
  | 0 => cone
  | n + 1 => cpow z n * z

/-! ### pochhammer -/

/-- `for k in range(1, m): p = p * (z + k)` — `n` remaining iterations, counter `k` -/
def pochLoop (z : Cx K) : Nat → K → Cx K → Cx K
  | 0, _, p => p
  | n + 1, k, p => pochLoop z n (k + 1) (p * (z + Cx.ofReal k))

/-- `pochhammer(z, m)`; note `p = z` before the loop, so m = 0 also returns z -/
def pochhammer (z : Cx K) (m : Nat) : Cx K := pochLoop z (m - 1) 1 z

/-- the same statements on an array: `p = z; p = p * (z + k)` element-wise -/
def pochLoopA (zs : List (Cx K)) : Nat → K → List (Cx K) → List (Cx K)
  | 0, _, ps => ps
  | n + 1, k, ps => pochLoopA zs n (k + 1)
      (List.zipWith (fun p w => p * w) ps (zs.map fun z => z + Cx.ofReal k))

def pochhammerA (zs : List (Cx K)) (m : Nat) : List (Cx K) := pochLoopA zs (m - 1) 1 zs

/-! ### dpsi_one -/

/-- `subm = (-1/z)**(m+1) * factorial(m)` -/
def subterm (m : Nat) (z : Cx K) : Cx K :=
  Cx.smul (factK m) (cpow (Cx.ofReal (-1) / z) (m + 1))

/-- the `while z.real < 10:` loop with its running `(z, sub)`.  `subm` is evaluated at every z
    the loop visits (and once more at the exit point, where Re z ≥ 10 so it cannot fail);
    Python raises ZeroDivisionError when that z is 0. -/
def shiftLoop (m : Nat) : Nat → Cx K → Cx K → Res (Cx K × Cx K)
  | 0, z, sub => if z.re < 10 then .fuel else .ok (z, sub)
  | f + 1, z, sub =>
    if z.re < 10 then
      (if (z.re ≤ 0 ∧ 0 ≤ z.re) ∧ (z.im ≤ 0 ∧ 0 ≤ z.im) then .zeroDivision else shiftLoop m f (z + cone) (sub + subterm m z))
    else .ok (z, sub)

structure Coefs where
  a1 : K
  a2 : K
  a3 : K
  a4 : K
  a5 : K
  a6 : K
  a7 : K

def coefInit : Coefs := ⟨1, 1 / 2, 1 / 6, -1 / 30, 1 / 42, -1 / 30, 5 / 66⟩

/-- `for k2 in range(2, m+1): a1 = a1 * (k2-1); …; a7 = a7 * (k2+9)` -/
def coefLoop : Nat → K → Coefs → Coefs
  | 0, _, c => c
  | n + 1, k2, c => coefLoop n (k2 + 1)
      ⟨c.a1 * (k2 - 1), c.a2 * k2, c.a3 * (k2 + 1), c.a4 * (k2 + 3), c.a5 * (k2 + 5),
       c.a6 * (k2 + 7), c.a7 * (k2 + 9)⟩

def coefs (m : Nat) : Coefs := if m != 1 then coefLoop (m - 1) 2 coefInit else coefInit

/-- `(-1)**(m+1)` -/
def signK (m : Nat) : K := if (m + 1) % 2 = 0 then 1 else -1

/-- the asymptotic series evaluated at the (shifted) point:
    `(-1)**(m+1) * rz**m * (a1 + rz*(a2 + rz*(a3 + dz*(a4 + dz*(a5 + dz*(a6 + a7*dz))))))` -/
def asym (m : Nat) (z : Cx K) : Cx K :=
  let c := coefs m
  let rz := cone / z
  let dz := rz * rz
  Cx.smul (signK m) (cpow rz m) *
    (Cx.ofReal c.a1 + rz * (Cx.ofReal c.a2 + rz * (Cx.ofReal c.a3 + dz * (Cx.ofReal c.a4 +
      dz * (Cx.ofReal c.a5 + dz * (Cx.ofReal c.a6 + Cx.smul c.a7 dz))))))

/-- `dpsi_one(z, m)`: shift only when `z.imag < 10`, then `sub + series` -/
def dpsiOne (fuel : Nat) (z : Cx K) (m : Nat) : Res (Cx K) :=
  let r := if z.im < 10 then shiftLoop m fuel z czero else .ok (z, czero)
  r.map fun p => p.2 + asym m p.1

/-- `dpsi = np.vectorize(dpsi_one)` -/
def dpsiA (fuel : Nat) (zs : List (Cx K)) (m : Nat) : List (Res (Cx K)) :=
  zs.map fun z => dpsiOne fuel z m

/-! ### harmonic sums -/

/-- `np.euler_gamma + psi(z+1)` -/
def S1 (E : Ext) (z : Cx K) : Cx K := Cx.ofReal E.egamma + E.psi (z + cone)

/-- `zeta(2) - dpsi(z+1, 1)` -/
def S2 (E : Ext) (fuel : Nat) (z : Cx K) : Res (Cx K) :=
  (dpsiOne fuel (z + cone) 1).map fun d => Cx.ofReal E.zeta2 - d

/-- `zeta(3) + dpsi(z+1, 2) / 2` -/
def S3 (E : Ext) (fuel : Nat) (z : Cx K) : Res (Cx K) :=
  (dpsiOne fuel (z + cone) 2).map fun d => Cx.ofReal E.zeta3 + Cx.divR d 2

/-- `zeta(4) - dpsi(z+1, 3) / 6` -/
def S4 (E : Ext) (fuel : Nat) (z : Cx K) : Res (Cx K) :=
  (dpsiOne fuel (z + cone) 3).map fun d => Cx.ofReal E.zeta4 - Cx.divR d 6

/-- on arrays numpy applies `+ 1`, the vectorised dpsi / psi, and the outer arithmetic element-wise -/
def S1A (E : Ext) (zs : List (Cx K)) : List (Cx K) :=
  ((zs.map fun z => z + cone).map E.psi).map fun w => Cx.ofReal E.egamma + w

def S2A (E : Ext) (fuel : Nat) (zs : List (Cx K)) : List (Res (Cx K)) :=
  (dpsiA fuel (zs.map fun z => z + cone) 1).map (Res.map fun d => Cx.ofReal E.zeta2 - d)

def S3A (E : Ext) (fuel : Nat) (zs : List (Cx K)) : List (Res (Cx K)) :=
  (dpsiA fuel (zs.map fun z => z + cone) 2).map (Res.map fun d => Cx.ofReal E.zeta3 + Cx.divR d 2)

def S4A (E : Ext) (fuel : Nat) (zs : List (Cx K)) : List (Res (Cx K)) :=
  (dpsiA fuel (zs.map fun z => z + cone) 3).map (Res.map fun d => Cx.ofReal E.zeta4 - Cx.divR d 6)

/-- `(1+prty)*S2(z)/2 + (1-prty)*S2(z-1/2)/2` -/
def S2_prime (E : Ext) (fuel : Nat) (z : Cx K) (prty : K) : Res (Cx K) :=
  (S2 E fuel z).bind fun a => (S2 E fuel (z - chalf)).bind fun b =>
    .ok (Cx.divR (Cx.smul (1 + prty) a) 2 + Cx.divR (Cx.smul (1 - prty) b) 2)

/-- `(1+prty)*S3(z)/2 + (1-prty)*S3(z-1/2)/2` -/
def S3_prime (E : Ext) (fuel : Nat) (z : Cx K) (prty : K) : Res (Cx K) :=
  (S3 E fuel z).bind fun a => (S3 E fuel (z - chalf)).bind fun b =>
    .ok (Cx.divR (Cx.smul (1 + prty) a) 2 + Cx.divR (Cx.smul (1 - prty) b) 2)

/-- `S2(z) - S2(z - 1/2)` -/
def delS2 (E : Ext) (fuel : Nat) (z : Cx K) : Res (Cx K) :=
  (S2 E fuel z).bind fun a => (S2 E fuel (z - chalf)).bind fun b => .ok (a - b)

/-- `(delS2(j) - delS2(k)) / (4*(j-k)*(2*j+2*k+1))` -/
def deldelS2 (E : Ext) (fuel : Nat) (j k : Cx K) : Res (Cx K) :=
  (delS2 E fuel j).bind fun a => (delS2 E fuel k).bind fun b =>
    .ok ((a - b) / (Cx.smul 4 (j - k) * (Cx.smul 2 j + Cx.smul 2 k + cone)))

/-! ### MellinF2 -/

def abk : List K := [0.9999964239, -0.4998741238, 0.3317990258, -0.2407338084, 0.1676540711,
                     -0.0953293897, 0.0360884937, -0.0064535442]

/-- loop state of `for k in range(1, 9)`: the counter, `psitmp`, `mf2` -/
structure MF where
  k : K
  psitmp : Cx K
  mf2 : Cx K

/-- one pass of the loop body with `a = abk[k-1]`; `d` is `n + k - 1` -/
def mellinStep (E : Ext) (n : Cx K) (s : MF) (a : K) : MF :=
  let d := (n + Cx.ofReal s.k) - cone
  let ps := s.psitmp + cone / d
  let pg := ps + Cx.ofReal E.egamma
  ⟨s.k + 1, ps,
   s.mf2 + Cx.smul a ((n - cone) * (Cx.ofReal E.zeta2 / d - pg / (d * d)) + pg / d)⟩

/-- `MellinF2(n)` = `zeta(2)*log(2) - mf2` -/
def MellinF2 (E : Ext) (n : Cx K) : Cx K :=
  let s := abk.foldl (mellinStep E n) ⟨1, E.psi n, czero⟩
  Cx.ofReal (E.zeta2 * E.log2) - s.mf2

/-! ### SB3, S2_tilde -/

/-- `0.5*S1(j)*(-S2(-0.5+0.5*j)+S2(0.5*j)) + 0.125*(-S3(-0.5+0.5*j)+S3(0.5*j))
     - 2*(0.8224670334241131*(-S1(0.5*(-1+j))+S1(0.5*j)) - MellinF2(1+j))` -/
def SB3 (E : Ext) (fuel : Nat) (j : Cx K) : Res (Cx K) :=
  let a := Cx.ofReal (-0.5) + Cx.smul 0.5 j
  let b := Cx.smul 0.5 j
  let c := Cx.smul 0.5 (Cx.ofReal (-1) + j)
  (S2 E fuel a).bind fun s2a => (S2 E fuel b).bind fun s2b =>
  (S3 E fuel a).bind fun s3a => (S3 E fuel b).bind fun s3b =>
    .ok (Cx.smul 0.5 (S1 E j) * (-s2a + s2b) + Cx.smul 0.125 (-s3a + s3b)
         - Cx.smul 2 (Cx.smul 0.8224670334241131 (-(S1 E c) + S1 E b)
                      - MellinF2 E (Cx.ofReal 1 + j)))

/-- `G = psi((n+1)/2) - psi(n/2)`;
    `-(5/8)*zeta(3) + prty*(S1(n)/n**2 - (zeta(2)/2)*G + MellinF2(n))` -/
def S2_tilde (E : Ext) (n : Cx K) (prty : K) : Cx K :=
  let G := E.psi (Cx.divR (n + cone) 2) - E.psi (Cx.divR n 2)
  Cx.ofReal (-(5 / 8) * E.zeta3) +
    Cx.smul prty (S1 E n / (n * n) - Cx.smul (E.zeta2 / 2) G + MellinF2 E n)

end Gep.R

-- AUTO-GENERATED from lean/Scalar/Coupling.lean.in — do not edit
import Model.ScalarF
set_option linter.unusedVariables false
namespace Gep.F
/-
  Coupling — model of gepard.qcd: beta, _fbeta1, as2pf, with the colour factors of
  gepard.constants (NC, CF, CA, TF).   (property C15)

  Operation order follows the Python expressions (left-to-right association), so that the
  Float instantiation reproduces the IEEE result of the code up to libm `log` / `pow`.
  `nf` is the flavour number as a scalar (the code multiplies a float by the int).
-/

namespace Coupling

/-! ### constants.py -/
def NC : K := 3
def CF : K := (NC ^ (2:Nat) - 1) / (2 * NC)
def CA : K := NC
def TF : K := 0.5

/-! ### qcd.beta -/
def B00 : K := 11 / 3 * CA
def B01 : K := -4 / 3 * TF
def B10 : K := 34 / 3 * CA ^ (2:Nat)
def B11 : K := -20 / 3 * CA * TF - 4 * CF * TF

/-- `beta(0, nf)` -/
def beta0 (nf : K) : K := -B00 - B01 * nf
/-- `beta(1, nf)` -/
def beta1 (nf : K) : K := -B10 - B11 * nf
/-- `beta(2, nf)` (hard-wired colour factors, six digits) -/
def beta2 (nf : K) : K := -1428.5 + 279.611 * nf - 6.01852 * nf ^ (2:Nat)
/-- `beta(3, nf)` -/
def beta3 (nf : K) : K := -29243 + 6946.3 * nf - 405.089 * nf ^ (2:Nat) - 1.49931 * nf ^ (3:Nat)

/-- `beta(p, nf)`; none = ValueError('NNNNLO not yet implemented') -/
def beta (p : Int) (nf : K) : Option K :=
  if p = 0 then some (beta0 nf)
  else if p = 1 then some (beta1 nf)
  else if p = 2 then some (beta2 nf)
  else if p = 3 then some (beta3 nf)
  else none

/-- `_fbeta1(a, nf)`: right-hand side of the NLO renormalisation-group equation, a = α_s/4π -/
def fbeta1 (a nf : K) : K := a ^ (2:Nat) * (beta0 nf + a * beta1 nf)

/-! ### qcd.as2pf -/

/-- `NASTPS` -/
def NASTPS : Nat := 20

/-- body of `for k in range(1, NASTPS+1)`: one classical Runge–Kutta step of size `dlr` -/
def rk4Step (nf dlr a : K) : K :=
  let xk0 := dlr * fbeta1 a nf
  let xk1 := dlr * fbeta1 (a + 0.5 * xk0) nf
  let xk2 := dlr * fbeta1 (a + 0.5 * xk1) nf
  let xk3 := dlr * fbeta1 (a + xk2) nf
  a + (xk0 + 2 * xk1 + 2 * xk2 + xk3) / 6

/-- the loop over an arbitrary list of step labels (the body does not read `k`) -/
def rk4Loop (nf dlr : K) (ks : List Nat) (a : K) : K :=
  ks.foldl (fun acc _ => rk4Step nf dlr acc) a

/-- the LO branch in the code's internal normalisation a = α_s/4π (before `a = 2 * a`) -/
def loDen (nf as0 lrrat : K) : K := 1 - 0.5 * beta0 nf * as0 * lrrat

inductive AsRes where
  | ok (as2p : K)            -- returned α_s/2π
  | valueError               -- math.log domain error, or 'Only LO and NLO implemented!'
  | zeroDivisionError        -- r2/r20 with r20 == 0, or vanishing LO denominator

/-- `as2pf(p, nf, r2, as0, r20)`.  `log(r2/r20)` is evaluated before the order is looked at. -/
def as2pf (p : Int) (nf r2 as0 r20 : K) : AsRes :=
  if r20 ≤ 0 ∧ 0 ≤ r20 then .zeroDivisionError else
  if r2 / r20 ≤ 0 then .valueError else
  let a := 0.5 * as0
  let lrrat := klog (r2 / r20)
  let dlr := lrrat / 20          -- lrrat / NASTPS
  if p = 0 then
    let den := loDen nf as0 lrrat
    if den ≤ 0 ∧ 0 ≤ den then .zeroDivisionError
    else .ok (2 * (0.5 * as0 / den))
  else if p = 1 then
    .ok (2 * rk4Loop nf dlr (List.range' 1 NASTPS) a)
  else .valueError

end Coupling

end Gep.F

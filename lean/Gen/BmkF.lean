-- AUTO-GENERATED from src/gepard/{kinematics,bmk,dvcs}.py via tools/py2lean.py — do not edit
import Model.ScalarF
set_option linter.unusedVariables false
namespace Gep.F
/- kinematics.py, bmk.py and the formula-level methods of dvcs.py, translated by tools/py2lean.py -/

structure Consts where
  Mp : K
  Mp2 : K
  alpha : K
  GeV2nb : K

structure Pt where
  Q2 : K
  xB : K
  t : K
  y : K
  eps2 : K
  phi : K
  K2 : K
  P1P2 : K
  intP1P2 : K
  W : K
  s : K
  eps : K
  J : K
  K_ : K
  tK2 : K
  tK : K
  r : K
  chi0 : K
  chi : K
  in1charge : K
  in1polarization : K
  varphi : K

structure CFFs where
  F1 : K
  F2 : K
  ReH : K
  ReHt : K
  ReE : K
  ImH : K
  ImHt : K
  ImE : K
  ReEt : K
  ImEt : K
  ReHeff : K
  ImHeff : K
  ReEeff : K
  ImEeff : K
  ReHteff : K
  ImHteff : K
  ReEteff : K
  ImEteff : K

/-- every field 0 (base of concrete witnesses: `{ Pt.zero with Q2 := 4, … }`) -/
def Pt.zero : Pt := ⟨0, 0, 0, 0, 0, 0, 0, 0, 0, 0, 0, 0, 0, 0, 0, 0, 0, 0, 0, 0, 0, 0⟩
def CFFs.zero : CFFs := ⟨0, 0, 0, 0, 0, 0, 0, 0, 0, 0, 0, 0, 0, 0, 0, 0, 0, 0⟩

def tmin (c : Consts) (Q2 : K) (xB : K) (eps2 : K) : K :=
  (((-Q2) * ((((2 : K) * ((1 : K) - xB)) * ((1 : K) - (ksqrt ((1 : K) + eps2)))) + eps2)) / ((((4 : K) * xB) * ((1 : K) - xB)) + eps2))

def tmax (c : Consts) (Q2 : K) (xB : K) (eps2 : K) : K :=
  (((-Q2) * ((((2 : K) * ((1 : K) - xB)) * ((1 : K) + (ksqrt ((1 : K) + eps2)))) + eps2)) / ((((4 : K) * xB) * ((1 : K) - xB)) + eps2))

def K2 (c : Consts) (Q2 : K) (xB : K) (t : K) (y : K) (eps2 : K) : K :=
  let tm : K := (tmin c Q2 xB eps2)
  let brace : K := ((ksqrt ((1 : K) + eps2)) + (((((((4 : K) * xB) * ((1 : K) - xB)) + eps2) / ((4 : K) * ((1 : K) - xB))) * (t - tm)) / Q2))
  (((((-(t / Q2)) * ((1 : K) - xB)) * (((1 : K) - y) - (((y * y) * eps2) / (4 : K)))) * ((1 : K) - (tm / t))) * brace)

def J (c : Consts) (Q2 : K) (xB : K) (t : K) (y : K) (eps2 : K) : K :=
  (((((1 : K) - y) - ((y * eps2) / (2 : K))) * ((1 : K) + (t / Q2))) - (((((1 : K) - xB) * ((2 : K) - y)) * t) / Q2))

def r (c : Consts) (Q2 : K) (xB : K) (t : K) (y : K) (eps2 : K) : K :=
  let K_ : K := (ksqrt (K2 c Q2 xB t y eps2))
  let brace : K := ((((((2 : K) - y) ^ (2 : Nat)) * K_) / ((1 : K) - y)) + (((((1 : K) / K_) * (t / Q2)) * ((1 : K) - y)) * ((2 : K) - xB)))
  (((-((2 : K) - y)) / (((2 : K) - ((2 : K) * y)) + (y ^ (2 : Nat)))) * brace)

def P1P2 (c : Consts) (pt : Pt) : K :=
  let P1 : K := ((-((J c pt.Q2 pt.xB pt.t pt.y pt.eps2) + (((2 : K) * (ksqrt (K2 c pt.Q2 pt.xB pt.t pt.y pt.eps2))) * (kcos pt.phi)))) / (pt.y * ((1 : K) + pt.eps2)))
  let P2 : K := (((1 : K) + (pt.t / pt.Q2)) - P1)
  (P1 * P2)

def anintP1P2 (c : Consts) (pt : Pt) : K :=
  let xB__ : K := pt.xB
  let Q2__ : K := pt.Q2
  let t__ : K := pt.t
  let y__ : K := pt.y
  let eps2__ : K := pt.eps2
  let K2__ : K := pt.K2
  let xB : K := xB__
  let Q2 : K := Q2__
  let t : K := t__
  let y : K := y__
  let eps2 : K := eps2__
  let K2 : K := K2__
  let brace : K := ((((((1 : K) - y) - (((((1 : K) + (eps2 / (2 : K))) * (y ^ (2 : Nat))) * eps2) / (2 : K))) * (((1 : K) + (t / Q2)) ^ (2 : Nat))) + ((2 : K) * K2)) - ((((((1 : K) - xB) * (((2 : K) - y) ^ (2 : Nat))) * ((1 : K) + ((xB * t) / Q2))) * t) / Q2))
  (((((-(2 : K)) * kpi) * brace) / (((1 : K) + eps2) ^ (2 : Nat))) / (y ^ (2 : Nat)))

def weight_BH (c : Consts) (pt : Pt) : K :=
  ((((2 : K) * kpi) * pt.P1P2) / pt.intP1P2)

def long2trans (c : Consts) (pt : Pt) : K :=
  ((((1 : K) - pt.y) - ((pt.eps2 * (pt.y ^ (2 : Nat))) / (4 : K))) / ((((1 : K) - pt.y) + ((pt.y ^ (2 : Nat)) / (2 : K))) + ((pt.eps2 * (pt.y ^ (2 : Nat))) / (4 : K))))

def HandFlux (c : Consts) (pt : Pt) : K :=
  ((((((c.alpha / (2 : K)) / kpi) * ((pt.y ^ (2 : Nat)) / ((1 : K) - (long2trans c pt)))) * ((1 : K) - pt.xB)) / pt.xB) / pt.Q2)

def prepare (c : Consts) (pt : Pt) : Pt :=
  let pt : Pt := { pt with y := ((((pt.W ^ (2 : Nat)) + pt.Q2) - c.Mp2) / (pt.s - c.Mp2)) }
  let pt : Pt := { pt with eps := ((((2 : K) * pt.xB) * c.Mp) / (ksqrt pt.Q2)) }
  let pt : Pt := { pt with eps2 := (pt.eps ^ (2 : Nat)) }
  let pt : Pt := { pt with J := (J c pt.Q2 pt.xB pt.t pt.y pt.eps2) }
  let pt : Pt := { pt with K2 := (K2 c pt.Q2 pt.xB pt.t pt.y pt.eps2) }
  let pt : Pt := { pt with K_ := (ksqrt pt.K2) }
  let pt : Pt := { pt with tK2 := ((pt.K2 * pt.Q2) / (((1 : K) - pt.y) - ((pt.eps2 * (pt.y ^ (2 : Nat))) / (4 : K)))) }
  let pt : Pt := { pt with tK := (ksqrt pt.tK2) }
  let pt : Pt := { pt with r := (r c pt.Q2 pt.xB pt.t pt.y pt.eps2) }
  let pt : Pt := { pt with chi0 := ((((ksqrt ((2 : K) * pt.Q2)) * pt.tK) / (ksqrt ((1 : K) + pt.eps2))) / (pt.Q2 + pt.t)) }
  let pt : Pt := { pt with chi := (((((pt.Q2 - pt.t) + (((2 : K) * pt.xB) * pt.t)) / (ksqrt ((1 : K) + pt.eps2))) / (pt.Q2 + pt.t)) - (1 : K)) }
  let pt : Pt := { pt with intP1P2 := (anintP1P2 c pt) }
  let pt : Pt := { pt with P1P2 := (P1P2 c pt) }
  pt

def xBmin (c : Consts) (s : K) (Q2 : K) : K :=
  let yMax : K := ((1 : K) + ((c.Mp2 * Q2) / ((s - c.Mp2) ^ (2 : Nat))))
  ((Q2 / (s - c.Mp2)) / yMax)

def BMK.PreFacBH (c : Consts) (m : CFFs) (pt : Pt) : K :=
  ((1 : K) / (((((pt.xB ^ (2 : Nat)) * (pt.y ^ (2 : Nat))) * (((1 : K) + pt.eps2) ^ (2 : Nat))) * pt.t) * pt.P1P2))

def BMK.cBH0unp (c : Consts) (m : CFFs) (pt : Pt) : K :=
  let xB__ : K := pt.xB
  let Q2__ : K := pt.Q2
  let t__ : K := pt.t
  let y__ : K := pt.y
  let eps2__ : K := pt.eps2
  let xB : K := xB__
  let Q2 : K := Q2__
  let t : K := t__
  let y : K := y__
  let eps2 : K := eps2__
  let FE2 : K := ((m.F1 ^ (2 : Nat)) - ((t * (m.F2 ^ (2 : Nat))) / ((4 : K) * c.Mp2)))
  let FM2 : K := ((m.F1 + m.F2) ^ (2 : Nat))
  let brace1 : K := (((((2 : K) + ((3 : K) * eps2)) * (Q2 / t)) * FE2) + (((2 : K) * (xB ^ (2 : Nat))) * FM2))
  let brace2 : K := (((((2 : K) + eps2) * ((((((4 : K) * (xB ^ (2 : Nat))) * c.Mp2) / t) * (((1 : K) + (t / Q2)) ^ (2 : Nat))) + (((4 : K) * ((1 : K) - xB)) * ((1 : K) + ((xB * t) / Q2))))) * FE2) + ((((4 : K) * (xB ^ (2 : Nat))) * ((xB + ((((1 : K) - xB) + (eps2 / (2 : K))) * (((1 : K) - (t / Q2)) ^ (2 : Nat)))) - (((xB * ((1 : K) - ((2 : K) * xB))) * (t ^ (2 : Nat))) / (Q2 ^ (2 : Nat))))) * FM2))
  let brace3 : K := (((((2 : K) * eps2) * ((1 : K) - (t / ((4 : K) * c.Mp2)))) * FE2) - (((xB ^ (2 : Nat)) * (((1 : K) - (t / Q2)) ^ (2 : Nat))) * FM2))
  (((((8 : K) * pt.K2) * brace1) + ((((2 : K) - y) ^ (2 : Nat)) * brace2)) + ((((8 : K) * ((1 : K) + eps2)) * (((1 : K) - y) - ((eps2 * (y ^ (2 : Nat))) / (4 : K)))) * brace3))

def BMK.cBH1unp (c : Consts) (m : CFFs) (pt : Pt) : K :=
  let xB__ : K := pt.xB
  let Q2__ : K := pt.Q2
  let t__ : K := pt.t
  let y__ : K := pt.y
  let eps2__ : K := pt.eps2
  let xB : K := xB__
  let Q2 : K := Q2__
  let t : K := t__
  let y : K := y__
  let eps2 : K := eps2__
  let FE2 : K := ((m.F1 ^ (2 : Nat)) - ((t * (m.F2 ^ (2 : Nat))) / ((4 : K) * c.Mp2)))
  let FM2 : K := ((m.F1 + m.F2) ^ (2 : Nat))
  let brace : K := ((((((((4 : K) * (xB ^ (2 : Nat))) * c.Mp2) / t) - ((2 : K) * xB)) - eps2) * FE2) + ((((2 : K) * (xB ^ (2 : Nat))) * ((1 : K) - ((((1 : K) - ((2 : K) * xB)) * t) / Q2))) * FM2))
  ((((8 : K) * pt.K_) * ((2 : K) - y)) * brace)

def BMK.cBH2unp (c : Consts) (m : CFFs) (pt : Pt) : K :=
  let xB__ : K := pt.xB
  let Q2__ : K := pt.Q2
  let t__ : K := pt.t
  let y__ : K := pt.y
  let eps2__ : K := pt.eps2
  let xB : K := xB__
  let Q2 : K := Q2__
  let t : K := t__
  let y : K := y__
  let eps2 : K := eps2__
  let FE2 : K := ((m.F1 ^ (2 : Nat)) - ((t * (m.F2 ^ (2 : Nat))) / ((4 : K) * c.Mp2)))
  let FM2 : K := ((m.F1 + m.F2) ^ (2 : Nat))
  let brace : K := (((((4 : K) * c.Mp2) / t) * FE2) + ((2 : K) * FM2))
  ((((8 : K) * (xB ^ (2 : Nat))) * pt.K2) * brace)

def BMK.TBH2unp (c : Consts) (m : CFFs) (pt : Pt) : K :=
  ((BMK.PreFacBH c m pt) * (((BMK.cBH0unp c m pt) + ((BMK.cBH1unp c m pt) * (kcos pt.phi))) + ((BMK.cBH2unp c m pt) * (kcos ((2 : K) * pt.phi)))))

def BMK.PreFacINT (c : Consts) (m : CFFs) (pt : Pt) : K :=
  ((1 : K) / (((pt.xB * (pt.y ^ (3 : Nat))) * pt.t) * pt.P1P2))

def BMK.ReCCALINTunp (c : Consts) (m : CFFs) (pt : Pt) : K :=
  (((m.F1 * m.ReH) + (((pt.xB / ((2 : K) - pt.xB)) * (m.F1 + m.F2)) * m.ReHt)) - (((pt.t / ((4 : K) * c.Mp2)) * m.F2) * m.ReE))

def BMK.ReDELCCALINTunp (c : Consts) (m : CFFs) (pt : Pt) : K :=
  let fx : K := (pt.xB / ((2 : K) - pt.xB))
  (((-fx) * (m.F1 + m.F2)) * ((fx * (m.ReH + m.ReE)) + m.ReHt))

def BMK.cINT0unp (c : Consts) (m : CFFs) (pt : Pt) : K :=
  (((-(8 : K)) * ((2 : K) - pt.y)) * (((((((2 : K) - pt.y) ^ (2 : Nat)) * pt.K2) * (BMK.ReCCALINTunp c m pt)) / ((1 : K) - pt.y)) + ((((pt.t / pt.Q2) * ((1 : K) - pt.y)) * ((2 : K) - pt.xB)) * ((BMK.ReCCALINTunp c m pt) + (BMK.ReDELCCALINTunp c m pt)))))

def BMK.cINT1unp (c : Consts) (m : CFFs) (pt : Pt) : K :=
  ((((-(8 : K)) * pt.K_) * (((2 : K) - ((2 : K) * pt.y)) + (pt.y ^ (2 : Nat)))) * (BMK.ReCCALINTunp c m pt))

def BMK.ImCCALINTunp (c : Consts) (m : CFFs) (pt : Pt) : K :=
  (((m.F1 * m.ImH) + (((pt.xB / ((2 : K) - pt.xB)) * (m.F1 + m.F2)) * m.ImHt)) - (((pt.t / ((4 : K) * c.Mp2)) * m.F2) * m.ImE))

def BMK.sINT1unp (c : Consts) (m : CFFs) (pt : Pt) : K :=
  (((((pt.in1polarization * (8 : K)) * pt.K_) * pt.y) * ((2 : K) - pt.y)) * (BMK.ImCCALINTunp c m pt))

def BMK.TINTunp (c : Consts) (m : CFFs) (pt : Pt) : K :=
  (((-pt.in1charge) * (BMK.PreFacINT c m pt)) * (((BMK.cINT0unp c m pt) + ((BMK.cINT1unp c m pt) * (kcos pt.phi))) + ((BMK.sINT1unp c m pt) * (ksin pt.phi))))

def BMK.PreFacDVCS (c : Consts) (m : CFFs) (pt : Pt) : K :=
  ((1 : K) / ((pt.y ^ (2 : Nat)) * pt.Q2))

def BMK.CDVCSunpPP (c : Consts) (m : CFFs) (pt : Pt) : K :=
  ((2 : K) * (((2 : K) - ((2 : K) * pt.y)) + (pt.y ^ (2 : Nat))))

def BMK.CCALDVCSunp (c : Consts) (m : CFFs) (pt : Pt) : K :=
  let xB2 : K := (pt.xB ^ (2 : Nat))
  let ReH : K := m.ReH
  let ImH : K := m.ImH
  let ReE : K := m.ReE
  let ImE : K := m.ImE
  let ReHt : K := m.ReHt
  let ImHt : K := m.ImHt
  let ReEt : K := m.ReEt
  let ImEt : K := m.ImEt
  let parenHH : K := ((((ReH ^ (2 : Nat)) + (ImH ^ (2 : Nat))) + (ReHt ^ (2 : Nat))) + (ImHt ^ (2 : Nat)))
  let parenEH : K := ((2 : K) * ((((ReE * ReH) + (ImE * ImH)) + (ReEt * ReHt)) + (ImEt * ImHt)))
  let parenEE : K := ((ReE ^ (2 : Nat)) + (ImE ^ (2 : Nat)))
  let parenEtEt : K := ((ReEt ^ (2 : Nat)) + (ImEt ^ (2 : Nat)))
  let brace : K := ((((((4 : K) * ((1 : K) - pt.xB)) * parenHH) - (xB2 * parenEH)) - ((xB2 + (((((2 : K) - pt.xB) ^ (2 : Nat)) * pt.t) / ((4 : K) * c.Mp2))) * parenEE)) - (((xB2 * pt.t) / ((4 : K) * c.Mp2)) * parenEtEt))
  (brace / (((2 : K) - pt.xB) ^ (2 : Nat)))

def BMK.cDVCS0unp (c : Consts) (m : CFFs) (pt : Pt) : K :=
  ((BMK.CDVCSunpPP c m pt) * (BMK.CCALDVCSunp c m pt))

def BMK.TDVCS2unp (c : Consts) (m : CFFs) (pt : Pt) : K :=
  ((BMK.PreFacDVCS c m pt) * (BMK.cDVCS0unp c m pt))

def BMK.cBH0TP (c : Consts) (m : CFFs) (pt : Pt) : K :=
  let xB__ : K := pt.xB
  let Q2__ : K := pt.Q2
  let t__ : K := pt.t
  let y__ : K := pt.y
  let eps2__ : K := pt.eps2
  let xB : K := xB__
  let Q2 : K := Q2__
  let t : K := t__
  let y : K := y__
  let eps2 : K := eps2__
  let F1__ : K := m.F1
  let F2__ : K := m.F2
  let F1 : K := F1__
  let F2 : K := F2__
  let sqrt1yeps : K := (ksqrt (((1 : K) - y) - ((eps2 * (y ^ (2 : Nat))) / (4 : K))))
  let brace : K := ((((((xB ^ (3 : Nat)) * c.Mp2) / Q2) * ((1 : K) - (t / Q2))) * (F1 + F2)) + (((1 : K) - ((((1 : K) - xB) * t) / Q2)) * ((((((xB ^ (2 : Nat)) * c.Mp2) / t) * ((1 : K) - (t / Q2))) * F1) + ((xB / (2 : K)) * F2))))
  ((((((((((((-(8 : K)) * pt.in1polarization) * (kcos pt.varphi)) * ((2 : K) - y)) * y) * (ksqrt Q2)) / c.Mp) * (ksqrt ((1 : K) + eps2))) * pt.K_) / sqrt1yeps) * (F1 + F2)) * brace)

def BMK.cBH1TP (c : Consts) (m : CFFs) (pt : Pt) : K :=
  let xB__ : K := pt.xB
  let Q2__ : K := pt.Q2
  let t__ : K := pt.t
  let y__ : K := pt.y
  let eps2__ : K := pt.eps2
  let xB : K := xB__
  let Q2 : K := Q2__
  let t : K := t__
  let y : K := y__
  let eps2 : K := eps2__
  let F1__ : K := m.F1
  let F2__ : K := m.F2
  let F1 : K := F1__
  let F2 : K := F2__
  let sqrt1yeps : K := (ksqrt (((1 : K) - y) - ((eps2 * (y ^ (2 : Nat))) / (4 : K))))
  let brace : K := (((((((2 : K) * (pt.K_ ^ (2 : Nat))) * Q2) / t) / (sqrt1yeps ^ (2 : Nat))) * (((xB * ((1 : K) - (t / Q2))) * F1) + (((t / (4 : K)) / c.Mp2) * F2))) + (((((1 : K) + eps2) * xB) * ((1 : K) - (t / Q2))) * (F1 + (((t / (4 : K)) / c.Mp2) * F2))))
  (((((((((((-(16 : K)) * pt.in1polarization) * (kcos pt.varphi)) * xB) * y) * sqrt1yeps) * c.Mp) / (ksqrt Q2)) * (ksqrt ((1 : K) + eps2))) * (F1 + F2)) * brace)

def BMK.sBH1TP (c : Consts) (m : CFFs) (pt : Pt) : K :=
  let xB__ : K := pt.xB
  let Q2__ : K := pt.Q2
  let t__ : K := pt.t
  let y__ : K := pt.y
  let eps2__ : K := pt.eps2
  let xB : K := xB__
  let Q2 : K := Q2__
  let t : K := t__
  let y : K := y__
  let eps2 : K := eps2__
  let F1__ : K := m.F1
  let F2__ : K := m.F2
  let F1 : K := F1__
  let F2 : K := F2__
  let sqrt1yeps : K := (ksqrt (((1 : K) - y) - ((eps2 * (y ^ (2 : Nat))) / (4 : K))))
  ((((((((((((16 : K) * pt.in1polarization) * (ksin pt.varphi)) * (xB ^ (2 : Nat))) * y) * sqrt1yeps) * c.Mp) / (ksqrt Q2)) * (ksqrt (((1 : K) + eps2) ^ (3 : Nat)))) * ((1 : K) - (t / Q2))) * (F1 + F2)) * (F1 + (((t / (4 : K)) / c.Mp2) * F2)))

def BMK.TBH2TP (c : Consts) (m : CFFs) (pt : Pt) : K :=
  ((BMK.PreFacBH c m pt) * (((BMK.cBH0TP c m pt) + ((BMK.cBH1TP c m pt) * (kcos pt.phi))) + ((BMK.sBH1TP c m pt) * (ksin pt.phi))))

def BMK.ReCCALINTTPp (c : Consts) (m : CFFs) (pt : Pt) : K :=
  let xB__ : K := pt.xB
  let t__ : K := pt.t
  let F1__ : K := m.F1
  let F2__ : K := m.F2
  let xB : K := xB__
  let t : K := t__
  let F1 : K := F1__
  let F2 : K := F2__
  let H__ : K := m.ReH
  let E__ : K := m.ReE
  let Ht__ : K := m.ReHt
  let Et__ : K := m.ReEt
  let H : K := H__
  let E : K := E__
  let Ht : K := Ht__
  let Et : K := Et__
  let brace1 : K := ((((xB ^ (2 : Nat)) / ((2 : K) - xB)) * (H + ((xB / (2 : K)) * E))) + ((((xB * t) / (4 : K)) / c.Mp2) * E))
  let brace2 : K := ((((((4 : K) * ((1 : K) - xB)) / ((2 : K) - xB)) * F2) * Ht) - (((xB * F1) + (((xB ^ (2 : Nat)) / ((2 : K) - xB)) * F2)) * Et))
  ((((F1 + F2) * brace1) - ((((xB ^ (2 : Nat)) / ((2 : K) - xB)) * F1) * (Ht + ((xB / (2 : K)) * Et)))) + (((t / (4 : K)) / c.Mp2) * brace2))

def BMK.ReDELCCALINTTPp (c : Consts) (m : CFFs) (pt : Pt) : K :=
  let xB__ : K := pt.xB
  let t__ : K := pt.t
  let F1__ : K := m.F1
  let F2__ : K := m.F2
  let xB : K := xB__
  let t : K := t__
  let F1 : K := F1__
  let F2 : K := F2__
  let Ht__ : K := m.ReHt
  let Et__ : K := m.ReEt
  let Ht : K := Ht__
  let Et : K := Et__
  (((-t) / c.Mp2) * ((F2 * Ht) - (((xB / ((2 : K) - xB)) * (F1 + ((xB * F2) / (2 : K)))) * Et)))

def BMK.ImCCALINTTPm (c : Consts) (m : CFFs) (pt : Pt) : K :=
  let xB__ : K := pt.xB
  let t__ : K := pt.t
  let F1__ : K := m.F1
  let F2__ : K := m.F2
  let xB : K := xB__
  let t : K := t__
  let F1 : K := F1__
  let F2 : K := F2__
  let H__ : K := m.ImH
  let E__ : K := m.ImE
  let Ht__ : K := m.ImHt
  let Et__ : K := m.ImEt
  let H : K := H__
  let E : K := E__
  let Ht : K := Ht__
  let Et : K := Et__
  let xBaux : K := ((xB ^ (2 : Nat)) / ((2 : K) - xB))
  let paren1 : K := (((xB ^ (2 : Nat)) * F1) - (((((1 : K) - xB) * t) / c.Mp2) * F2))
  let brace : K := ((((t / (4 : K)) / c.Mp2) * ((((2 : K) - xB) * F1) + (xBaux * F2))) + (xBaux * F1))
  ((((paren1 * H) / ((2 : K) - xB)) + (brace * E)) - ((xBaux * (F1 + F2)) * (Ht + (((t / (4 : K)) / c.Mp2) * Et))))

def BMK.ImDELCCALINTTPm (c : Consts) (m : CFFs) (pt : Pt) : K :=
  let xB__ : K := pt.xB
  let t__ : K := pt.t
  let F1__ : K := m.F1
  let F2__ : K := m.F2
  let xB : K := xB__
  let t : K := t__
  let F1 : K := F1__
  let F2 : K := F2__
  let H__ : K := m.ImH
  let E__ : K := m.ImE
  let H : K := H__
  let E : K := E__
  ((t / c.Mp2) * ((F2 * H) - (F1 * E)))

def BMK.cINT0TP (c : Consts) (m : CFFs) (pt : Pt) : K :=
  let y : K := pt.y
  let brace1 : K := (((((((2 : K) - y) ^ (2 : Nat)) / ((1 : K) - y)) + (2 : K)) * (BMK.ReCCALINTTPp c m pt)) + (BMK.ReDELCCALINTTPp c m pt))
  let brace2 : K := ((((((2 : K) - y) ^ (2 : Nat)) / ((1 : K) - y)) * (BMK.ImCCALINTTPm c m pt)) + (BMK.ImDELCCALINTTPm c m pt))
  ((((8 : K) * c.Mp) * (ksqrt ((((1 : K) - y) * pt.K2) / pt.Q2))) * (((((-pt.in1polarization) * y) * (kcos pt.varphi)) * brace1) + ((((2 : K) - y) * (ksin pt.varphi)) * brace2)))

def BMK.cINT1TP (c : Consts) (m : CFFs) (pt : Pt) : K :=
  let y : K := pt.y
  let brace1 : K := ((((-pt.in1polarization) * y) * ((2 : K) - y)) * (BMK.ReCCALINTTPp c m pt))
  let brace2 : K := ((((2 : K) - ((2 : K) * y)) + (y ^ (2 : Nat))) * (BMK.ImCCALINTTPm c m pt))
  ((((8 : K) * c.Mp) * (ksqrt (((1 : K) - y) / pt.Q2))) * (((kcos pt.varphi) * brace1) + ((ksin pt.varphi) * brace2)))

def BMK.ImCCALINTTPp (c : Consts) (m : CFFs) (pt : Pt) : K :=
  let xB__ : K := pt.xB
  let t__ : K := pt.t
  let F1__ : K := m.F1
  let F2__ : K := m.F2
  let xB : K := xB__
  let t : K := t__
  let F1 : K := F1__
  let F2 : K := F2__
  let H__ : K := m.ImH
  let E__ : K := m.ImE
  let Ht__ : K := m.ImHt
  let Et__ : K := m.ImEt
  let H : K := H__
  let E : K := E__
  let Ht : K := Ht__
  let Et : K := Et__
  let brace1 : K := ((((xB ^ (2 : Nat)) / ((2 : K) - xB)) * (H + ((xB / (2 : K)) * E))) + ((((xB * t) / (4 : K)) / c.Mp2) * E))
  let brace2 : K := ((((((4 : K) * ((1 : K) - xB)) / ((2 : K) - xB)) * F2) * Ht) - (((xB * F1) + (((xB ^ (2 : Nat)) / ((2 : K) - xB)) * F2)) * Et))
  ((((F1 + F2) * brace1) - ((((xB ^ (2 : Nat)) / ((2 : K) - xB)) * F1) * (Ht + ((xB / (2 : K)) * Et)))) + (((t / (4 : K)) / c.Mp2) * brace2))

def BMK.ReCCALINTTPm (c : Consts) (m : CFFs) (pt : Pt) : K :=
  let xB__ : K := pt.xB
  let t__ : K := pt.t
  let F1__ : K := m.F1
  let F2__ : K := m.F2
  let xB : K := xB__
  let t : K := t__
  let F1 : K := F1__
  let F2 : K := F2__
  let H__ : K := m.ReH
  let E__ : K := m.ReE
  let Ht__ : K := m.ReHt
  let Et__ : K := m.ReEt
  let H : K := H__
  let E : K := E__
  let Ht : K := Ht__
  let Et : K := Et__
  let xBaux : K := ((xB ^ (2 : Nat)) / ((2 : K) - xB))
  let paren1 : K := (((xB ^ (2 : Nat)) * F1) - (((((1 : K) - xB) * t) / c.Mp2) * F2))
  let brace : K := ((((t / (4 : K)) / c.Mp2) * ((((2 : K) - xB) * F1) + (xBaux * F2))) + (xBaux * F1))
  ((((paren1 * H) / ((2 : K) - xB)) + (brace * E)) - ((xBaux * (F1 + F2)) * (Ht + (((t / (4 : K)) / c.Mp2) * Et))))

def BMK.sINT1TP (c : Consts) (m : CFFs) (pt : Pt) : K :=
  let y : K := pt.y
  let brace1 : K := ((((2 : K) - ((2 : K) * y)) + (y ^ (2 : Nat))) * (BMK.ImCCALINTTPp c m pt))
  let brace2 : K := (((pt.in1polarization * y) * ((2 : K) - y)) * (BMK.ReCCALINTTPm c m pt))
  ((((8 : K) * c.Mp) * (ksqrt (((1 : K) - y) / pt.Q2))) * (((kcos pt.varphi) * brace1) + ((ksin pt.varphi) * brace2)))

def BMK.TINTTP (c : Consts) (m : CFFs) (pt : Pt) : K :=
  (((-pt.in1charge) * (BMK.PreFacINT c m pt)) * (((BMK.cINT0TP c m pt) + ((BMK.cINT1TP c m pt) * (kcos pt.phi))) + ((BMK.sINT1TP c m pt) * (ksin pt.phi))))

def BMK.CCALDVCSTP (c : Consts) (m : CFFs) (pt : Pt) : K × K :=
  let xB__ : K := pt.xB
  let Q2__ : K := pt.Q2
  let t__ : K := pt.t
  let y__ : K := pt.y
  let eps2__ : K := pt.eps2
  let xB : K := xB__
  let Q2 : K := Q2__
  let t : K := t__
  let y : K := y__
  let eps2 : K := eps2__
  let H : Cx K := (Cx.mk m.ReH m.ImH)
  let EE : Cx K := (Cx.mk m.ReE m.ImE)
  let tH : Cx K := (Cx.mk m.ReHt m.ImHt)
  let tE : Cx K := (Cx.mk m.ReEt m.ImEt)
  let HCC : Cx K := (Cx.mk m.ReH (-m.ImH))
  let EECC : Cx K := (Cx.mk m.ReE (-m.ImE))
  let tHCC : Cx K := (Cx.mk m.ReHt (-m.ImHt))
  let tECC : Cx K := (Cx.mk m.ReEt (-m.ImEt))
  let resp : Cx K := (Cx.divR (((Cx.smul ((2 : K) * xB) ((H * tECC) + (tE * HCC))) - (Cx.smul ((2 : K) * ((2 : K) - xB)) ((tH * EECC) + (tHCC * EE)))) + (Cx.smul (xB ^ (2 : Nat)) ((EE * tECC) + (tE * EECC)))) (((2 : K) - xB) ^ (2 : Nat)))
  let resm : Cx K := (Cx.divR (Cx.smul (2 : K) ((Cx.smul ((2 : K) - xB) ((H * EECC) - (EE * HCC))) - (Cx.smul xB ((tH * tECC) - (tE * tHCC))))) (((2 : K) - xB) ^ (2 : Nat)))
  (resp.re, resm.im)

def BMK.cDVCS0TP (c : Consts) (m : CFFs) (pt : Pt) : K :=
  let y : K := pt.y
  let tup__ : K × K := (BMK.CCALDVCSTP c m pt)
  let ReCCp : K := tup__.1
  let ImCCm : K := tup__.2
  let bracket : K := ((((((-pt.in1polarization) * y) * ((2 : K) - y)) * (kcos pt.varphi)) * ReCCp) + (((((2 : K) - ((2 : K) * y)) + (y ^ (2 : Nat))) * (ksin pt.varphi)) * ImCCm))
  ((((-(ksqrt (pt.Q2 * pt.K2))) / c.Mp) / (ksqrt ((1 : K) - y))) * bracket)

def BMK.TDVCS2TP (c : Consts) (m : CFFs) (pt : Pt) : K :=
  ((BMK.PreFacDVCS c m pt) * (BMK.cDVCS0TP c m pt))

def BMK.ReCCALINTunpEFF (c : Consts) (m : CFFs) (pt : Pt) : K :=
  (0 : K)

def BMK.cINT2unp (c : Consts) (m : CFFs) (pt : Pt) : K :=
  (((((-(16 : K)) * pt.K2) * ((2 : K) - pt.y)) / ((2 : K) - pt.xB)) * (BMK.ReCCALINTunpEFF c m pt))

def BMK.ImCCALINTunpEFF (c : Consts) (m : CFFs) (pt : Pt) : K :=
  (0 : K)

def BMK.sINT2unp (c : Consts) (m : CFFs) (pt : Pt) : K :=
  (((((pt.in1polarization * (16 : K)) * pt.K2) * pt.y) / ((2 : K) - pt.xB)) * (BMK.ImCCALINTunpEFF c m pt))

def BMK.ImDELCCALINTunp (c : Consts) (m : CFFs) (pt : Pt) : K :=
  let fx : K := (pt.xB / ((2 : K) - pt.xB))
  (((-fx) * (m.F1 + m.F2)) * ((fx * (m.ImH + m.ImE)) + m.ImHt))

def hotfixedBMK.CINTunpPP0 (c : Consts) (m : CFFs) (pt : Pt) : K :=
  let xB__ : K := pt.xB
  let Q2__ : K := pt.Q2
  let t__ : K := pt.t
  let y__ : K := pt.y
  let eps2__ : K := pt.eps2
  let xB : K := xB__
  let Q2 : K := Q2__
  let t : K := t__
  let y : K := y__
  let eps2 : K := eps2__
  ((-((((8 : K) * ((2 : K) - y)) * ((1 : K) + (ksqrt ((1 : K) + eps2)))) / ((2 : K) * (kpow ((1 : K) + eps2) (2.5 : K))))) * (((pt.K2 * (((2 : K) - y) ^ (2 : Nat))) / (((1 : K) - y) - (((y ^ (2 : Nat)) * eps2) / (4 : K)))) + (((((t / Q2) * ((2 : K) - xB)) * (ksqrt ((1 : K) + eps2))) * (((1 : K) - y) - (((y ^ (2 : Nat)) * eps2) / (4 : K)))) * ((1 : K) + ((eps2 + (((((2 : K) * xB) * t) * ((((2 : K) - xB) + (eps2 / ((2 : K) * xB))) + ((0.5 : K) * ((-(1 : K)) + (ksqrt ((1 : K) + eps2)))))) / Q2)) / (((2 : K) - xB) * ((1 : K) + (ksqrt ((1 : K) + eps2)))))))))

def hotfixedBMK.CINTunpPP0q (c : Consts) (m : CFFs) (pt : Pt) : K :=
  let xB__ : K := pt.xB
  let Q2__ : K := pt.Q2
  let t__ : K := pt.t
  let y__ : K := pt.y
  let eps2__ : K := pt.eps2
  let xB : K := xB__
  let Q2 : K := Q2__
  let t : K := t__
  let y : K := y__
  let eps2 : K := eps2__
  ((((((-((((8 : K) * ((2 : K) - y)) * ((1 : K) + (ksqrt ((1 : K) + eps2)))) / ((2 : K) * (kpow ((1 : K) + eps2) (2.5 : K))))) * (t / Q2)) * ((2 : K) - xB)) * (ksqrt ((1 : K) + eps2))) * (((1 : K) - y) - (((y ^ (2 : Nat)) * eps2) / (4 : K)))) * ((1 : K) + ((eps2 + (((((2 : K) * xB) * t) * ((((2 : K) - xB) + (eps2 / ((2 : K) * xB))) + ((0.5 : K) * ((-(1 : K)) + (ksqrt ((1 : K) + eps2)))))) / Q2)) / (((2 : K) - xB) * ((1 : K) + (ksqrt ((1 : K) + eps2)))))))

def hotfixedBMK.cINT0unp (c : Consts) (m : CFFs) (pt : Pt) : K :=
  (((hotfixedBMK.CINTunpPP0 c m pt) * (BMK.ReCCALINTunp c m pt)) + ((hotfixedBMK.CINTunpPP0q c m pt) * (BMK.ReDELCCALINTunp c m pt)))

def hotfixedBMK.CINTunpPP1 (c : Consts) (m : CFFs) (pt : Pt) : K :=
  let xB__ : K := pt.xB
  let Q2__ : K := pt.Q2
  let t__ : K := pt.t
  let y__ : K := pt.y
  let eps2__ : K := pt.eps2
  let xB : K := xB__
  let Q2 : K := Q2__
  let t : K := t__
  let y : K := y__
  let eps2 : K := eps2__
  ((-((((8 : K) * pt.K_) * ((((2 : K) - ((2 : K) * y)) + (y ^ (2 : Nat))) + (((y ^ (2 : Nat)) * eps2) / (2 : K)))) / (kpow ((1 : K) + eps2) (2.5 : K)))) * ((((((1 : K) - eps2) + (ksqrt ((1 : K) + eps2))) / (2 : K)) * (((1 : K) - ((((1 : K) - ((3 : K) * xB)) * t) / Q2)) + (((xB * t) * (((1 : K) + ((3 : K) * eps2)) - (ksqrt ((1 : K) + eps2)))) / (Q2 * (((1 : K) - eps2) + (ksqrt ((1 : K) + eps2))))))) + ((((2 : K) * (((1 : K) - y) - (((y ^ (2 : Nat)) * eps2) / (4 : K)))) / ((((2 : K) - ((2 : K) * y)) + (y ^ (2 : Nat))) + (((y ^ (2 : Nat)) * eps2) / (2 : K)))) * ((-(((3 : K) * eps2) / (4 : K))) + (((xB * t) * (((1 : K) + (eps2 / ((4 : K) * xB))) + ((((1 : K) - xB) * ((-(1 : K)) + (ksqrt ((1 : K) + eps2)))) / ((2 : K) * xB)))) / Q2)))))

def hotfixedBMK.cINT1unp (c : Consts) (m : CFFs) (pt : Pt) : K :=
  ((hotfixedBMK.CINTunpPP1 c m pt) * (BMK.ReCCALINTunp c m pt))

def hotfixedBMK.SINTunpPP1 (c : Consts) (m : CFFs) (pt : Pt) : K :=
  let xB__ : K := pt.xB
  let Q2__ : K := pt.Q2
  let t__ : K := pt.t
  let y__ : K := pt.y
  let eps2__ : K := pt.eps2
  let xB : K := xB__
  let Q2 : K := Q2__
  let t : K := t__
  let y : K := y__
  let eps2 : K := eps2__
  ((((((8 : K) * pt.K_) * ((2 : K) - y)) * y) / ((1 : K) + eps2)) * ((1 : K) + (((t - (tmin c Q2 xB eps2)) * (((1 : K) - xB) + ((0.5 : K) * ((-(1 : K)) + (ksqrt ((1 : K) + eps2)))))) / (Q2 * ((1 : K) + eps2)))))

def hotfixedBMK.sINT1unp (c : Consts) (m : CFFs) (pt : Pt) : K :=
  ((pt.in1polarization * (hotfixedBMK.SINTunpPP1 c m pt)) * (BMK.ImCCALINTunp c m pt))

def hotfixedBMK.TINTunp (c : Consts) (m : CFFs) (pt : Pt) : K :=
  (((-pt.in1charge) * (BMK.PreFacINT c m pt)) * (((hotfixedBMK.cINT0unp c m pt) + ((hotfixedBMK.cINT1unp c m pt) * (kcos pt.phi))) + ((hotfixedBMK.sINT1unp c m pt) * (ksin pt.phi))))

def hotfixedBMK.CDVCSunpPP (c : Consts) (m : CFFs) (pt : Pt) : K :=
  ((2 : K) * (((((2 : K) - ((2 : K) * pt.y)) + (pt.y ^ (2 : Nat))) + ((pt.eps2 * (pt.y ^ (2 : Nat))) / (2 : K))) / ((1 : K) + pt.eps2)))

def hotfixedBMK.cDVCS0unp (c : Consts) (m : CFFs) (pt : Pt) : K :=
  ((hotfixedBMK.CDVCSunpPP c m pt) * (BMK.CCALDVCSunp c m pt))

def hotfixedBMK.TDVCS2unp (c : Consts) (m : CFFs) (pt : Pt) : K :=
  ((BMK.PreFacDVCS c m pt) * (hotfixedBMK.cDVCS0unp c m pt))

def BM10ex.CINTunp110 (c : Consts) (m : CFFs) (pt : Pt) : K :=
  let xB__ : K := pt.xB
  let Q2__ : K := pt.Q2
  let t__ : K := pt.t
  let y__ : K := pt.y
  let eps2__ : K := pt.eps2
  let xB : K := xB__
  let Q2 : K := Q2__
  let t : K := t__
  let y : K := y__
  let eps2 : K := eps2__
  (((((-(4 : K)) * ((2 : K) - y)) * ((1 : K) + (ksqrt ((1 : K) + eps2)))) * (((pt.tK2 * (((2 : K) - y) ^ (2 : Nat))) / (pt.Q2 * (ksqrt ((1 : K) + eps2)))) + ((((t * ((2 : K) - xB)) * (((1 : K) - y) - (((y ^ (2 : Nat)) * eps2) / (4 : K)))) * ((1 : K) + ((eps2 + (((((2 : K) * t) * xB) * ((((2 : K) - xB) + (eps2 / ((2 : K) * xB))) + (((-(1 : K)) + (ksqrt ((1 : K) + eps2))) / (2 : K)))) / pt.Q2)) / (((2 : K) - xB) * ((1 : K) + (ksqrt ((1 : K) + eps2))))))) / pt.Q2))) / (((1 : K) + eps2) ^ (2 : Nat)))

def BM10ex.CCALINTunp_im0_eff0 (c : Consts) (m : CFFs) (pt : Pt) : K :=
  let CFFH : Cx K := (Cx.mk m.ReH m.ImH)
  let CFFE : Cx K := (Cx.mk m.ReE m.ImE)
  let CFFHt : Cx K := (Cx.mk m.ReHt m.ImHt)
  let CFFEt : Cx K := (Cx.mk m.ReEt m.ImEt)
  let xB__ : K := pt.xB
  let Q2__ : K := pt.Q2
  let t__ : K := pt.t
  let y__ : K := pt.y
  let eps2__ : K := pt.eps2
  let xB : K := xB__
  let Q2 : K := Q2__
  let t : K := t__
  let y : K := y__
  let eps2 : K := eps2__
  let res : Cx K := (((Cx.smul m.F1 CFFH) - (Cx.smul ((t / ((4 : K) * c.Mp2)) * m.F2) CFFE)) + (Cx.smul ((xB / (((2 : K) - xB) + ((t * xB) / pt.Q2))) * (m.F1 + m.F2)) CFFHt))
  res.re

def BM10ex.CINTunpV110 (c : Consts) (m : CFFs) (pt : Pt) : K :=
  let xB__ : K := pt.xB
  let Q2__ : K := pt.Q2
  let t__ : K := pt.t
  let y__ : K := pt.y
  let eps2__ : K := pt.eps2
  let xB : K := xB__
  let Q2 : K := Q2__
  let t : K := t__
  let y : K := y__
  let eps2 : K := eps2__
  ((((((8 : K) * t) * xB) * ((2 : K) - y)) * (((pt.tK2 * (((2 : K) - y) ^ (2 : Nat))) / (pt.Q2 * (ksqrt ((1 : K) + eps2)))) + ((((((1 : K) + (t / pt.Q2)) * (((1 : K) - y) - (((y ^ (2 : Nat)) * eps2) / (4 : K)))) * ((1 : K) + (ksqrt ((1 : K) + eps2)))) * ((1 : K) + ((t * (((-(1 : K)) + ((2 : K) * xB)) + (ksqrt ((1 : K) + eps2)))) / (pt.Q2 * ((1 : K) + (ksqrt ((1 : K) + eps2))))))) / (2 : K)))) / (pt.Q2 * (((1 : K) + eps2) ^ (2 : Nat))))

def BM10ex.CCALINTunpV_im0_eff0 (c : Consts) (m : CFFs) (pt : Pt) : K :=
  let CFFH : Cx K := (Cx.mk m.ReH m.ImH)
  let CFFE : Cx K := (Cx.mk m.ReE m.ImE)
  let CFFHt : Cx K := (Cx.mk m.ReHt m.ImHt)
  let CFFEt : Cx K := (Cx.mk m.ReEt m.ImEt)
  let xB__ : K := pt.xB
  let Q2__ : K := pt.Q2
  let t__ : K := pt.t
  let y__ : K := pt.y
  let eps2__ : K := pt.eps2
  let xB : K := xB__
  let Q2 : K := Q2__
  let t : K := t__
  let y : K := y__
  let eps2 : K := eps2__
  let res : Cx K := (Cx.smul ((xB / (((2 : K) - xB) + ((t * xB) / pt.Q2))) * (m.F1 + m.F2)) (CFFH + CFFE))
  res.re

def BM10ex.CINTunpA110 (c : Consts) (m : CFFs) (pt : Pt) : K :=
  let xB__ : K := pt.xB
  let Q2__ : K := pt.Q2
  let t__ : K := pt.t
  let y__ : K := pt.y
  let eps2__ : K := pt.eps2
  let xB : K := xB__
  let Q2 : K := Q2__
  let t : K := t__
  let y : K := y__
  let eps2 : K := eps2__
  (((((8 : K) * t) * ((2 : K) - y)) * ((((pt.tK2 * (((2 : K) - y) ^ (2 : Nat))) * (((1 : K) - ((2 : K) * xB)) + (ksqrt ((1 : K) + eps2)))) / (((2 : K) * pt.Q2) * (ksqrt ((1 : K) + eps2)))) + ((((1 : K) - y) - (((y ^ (2 : Nat)) * eps2) / (4 : K))) * ((((-(2 : K)) * pt.tK2) / pt.Q2) + ((((1 : K) + (ksqrt ((1 : K) + eps2))) * ((((1 : K) - xB) + (ksqrt ((1 : K) + eps2))) + ((t * (((-(1 : K)) + (ksqrt ((1 : K) + eps2))) + ((xB * (((3 : K) - ((2 : K) * xB)) + (ksqrt ((1 : K) + eps2)))) / ((1 : K) + (ksqrt ((1 : K) + eps2)))))) / pt.Q2))) / (2 : K)))))) / (pt.Q2 * (((1 : K) + eps2) ^ (2 : Nat))))

def BM10ex.CCALINTunpA_im0_eff0 (c : Consts) (m : CFFs) (pt : Pt) : K :=
  let CFFH : Cx K := (Cx.mk m.ReH m.ImH)
  let CFFE : Cx K := (Cx.mk m.ReE m.ImE)
  let CFFHt : Cx K := (Cx.mk m.ReHt m.ImHt)
  let CFFEt : Cx K := (Cx.mk m.ReEt m.ImEt)
  let xB__ : K := pt.xB
  let Q2__ : K := pt.Q2
  let t__ : K := pt.t
  let y__ : K := pt.y
  let eps2__ : K := pt.eps2
  let xB : K := xB__
  let Q2 : K := Q2__
  let t : K := t__
  let y : K := y__
  let eps2 : K := eps2__
  let res : Cx K := (Cx.smul ((xB / (((2 : K) - xB) + ((t * xB) / pt.Q2))) * (m.F1 + m.F2)) CFFHt)
  res.re

def BM10ex.CINTunp010 (c : Consts) (m : CFFs) (pt : Pt) : K :=
  let xB__ : K := pt.xB
  let Q2__ : K := pt.Q2
  let t__ : K := pt.t
  let y__ : K := pt.y
  let eps2__ : K := pt.eps2
  let xB : K := xB__
  let Q2 : K := Q2__
  let t : K := t__
  let y : K := y__
  let eps2 : K := eps2__
  (((((((12 : K) * (ksqrt (2 : K))) * pt.K_) * ((2 : K) - y)) * (ksqrt (((1 : K) - y) - (((y ^ (2 : Nat)) * eps2) / (4 : K))))) * (eps2 + ((t * (((2 : K) - ((6 : K) * xB)) - eps2)) / ((3 : K) * pt.Q2)))) / (kpow ((1 : K) + eps2) (2.5 : K)))

def BM10ex.CCALINTunp_im0_eff1 (c : Consts) (m : CFFs) (pt : Pt) : K :=
  let CFFH : Cx K := (Cx.mk m.ReHeff m.ImHeff)
  let CFFE : Cx K := (Cx.mk m.ReEeff m.ImEeff)
  let CFFHt : Cx K := (Cx.mk m.ReHteff m.ImHteff)
  let CFFEt : Cx K := (Cx.mk m.ReEteff m.ImEteff)
  let xB__ : K := pt.xB
  let Q2__ : K := pt.Q2
  let t__ : K := pt.t
  let y__ : K := pt.y
  let eps2__ : K := pt.eps2
  let xB : K := xB__
  let Q2 : K := Q2__
  let t : K := t__
  let y : K := y__
  let eps2 : K := eps2__
  let res : Cx K := (((Cx.smul m.F1 CFFH) - (Cx.smul ((t / ((4 : K) * c.Mp2)) * m.F2) CFFE)) + (Cx.smul ((xB / (((2 : K) - xB) + ((t * xB) / pt.Q2))) * (m.F1 + m.F2)) CFFHt))
  res.re

def BM10ex.CINTunpV010 (c : Consts) (m : CFFs) (pt : Pt) : K :=
  let xB__ : K := pt.xB
  let Q2__ : K := pt.Q2
  let t__ : K := pt.t
  let y__ : K := pt.y
  let eps2__ : K := pt.eps2
  let xB : K := xB__
  let Q2 : K := Q2__
  let t : K := t__
  let y : K := y__
  let eps2 : K := eps2__
  (((((((((24 : K) * (ksqrt (2 : K))) * pt.K_) * t) * xB) * ((2 : K) - y)) * ((1 : K) - ((t * ((1 : K) - ((2 : K) * xB))) / pt.Q2))) * (ksqrt (((1 : K) - y) - (((y ^ (2 : Nat)) * eps2) / (4 : K))))) / (pt.Q2 * (kpow ((1 : K) + eps2) (2.5 : K))))

def BM10ex.CCALINTunpV_im0_eff1 (c : Consts) (m : CFFs) (pt : Pt) : K :=
  let CFFH : Cx K := (Cx.mk m.ReHeff m.ImHeff)
  let CFFE : Cx K := (Cx.mk m.ReEeff m.ImEeff)
  let CFFHt : Cx K := (Cx.mk m.ReHteff m.ImHteff)
  let CFFEt : Cx K := (Cx.mk m.ReEteff m.ImEteff)
  let xB__ : K := pt.xB
  let Q2__ : K := pt.Q2
  let t__ : K := pt.t
  let y__ : K := pt.y
  let eps2__ : K := pt.eps2
  let xB : K := xB__
  let Q2 : K := Q2__
  let t : K := t__
  let y : K := y__
  let eps2 : K := eps2__
  let res : Cx K := (Cx.smul ((xB / (((2 : K) - xB) + ((t * xB) / pt.Q2))) * (m.F1 + m.F2)) (CFFH + CFFE))
  res.re

def BM10ex.CINTunpA010 (c : Consts) (m : CFFs) (pt : Pt) : K :=
  let xB__ : K := pt.xB
  let Q2__ : K := pt.Q2
  let t__ : K := pt.t
  let y__ : K := pt.y
  let eps2__ : K := pt.eps2
  let xB : K := xB__
  let Q2 : K := Q2__
  let t : K := t__
  let y : K := y__
  let eps2 : K := eps2__
  (((((((((4 : K) * (ksqrt (2 : K))) * pt.K_) * t) * ((2 : K) - y)) * (((8 : K) - ((6 : K) * xB)) + ((5 : K) * eps2))) * (ksqrt (((1 : K) - y) - (((y ^ (2 : Nat)) * eps2) / (4 : K))))) * ((1 : K) - ((t * (((2 : K) - (((12 : K) * ((1 : K) - xB)) * xB)) - eps2)) / (pt.Q2 * (((8 : K) - ((6 : K) * xB)) + ((5 : K) * eps2)))))) / (pt.Q2 * (kpow ((1 : K) + eps2) (2.5 : K))))

def BM10ex.cINTunp_n0 (c : Consts) (m : CFFs) (pt : Pt) : K :=
  (((((BM10ex.CINTunp110 c m pt) * (BM10ex.CCALINTunp_im0_eff0 c m pt)) + ((BM10ex.CINTunpV110 c m pt) * (BM10ex.CCALINTunpV_im0_eff0 c m pt))) + ((BM10ex.CINTunpA110 c m pt) * (BM10ex.CCALINTunpA_im0_eff0 c m pt))) + (((((ksqrt (2 : K)) / (((2 : K) - pt.xB) + ((pt.xB * pt.t) / pt.Q2))) * pt.tK) / (ksqrt pt.Q2)) * ((((BM10ex.CINTunp010 c m pt) * (BM10ex.CCALINTunp_im0_eff1 c m pt)) + ((BM10ex.CINTunpV010 c m pt) * (BM10ex.CCALINTunpV_im0_eff1 c m pt))) + ((BM10ex.CINTunpA010 c m pt) * (BM10ex.CCALINTunpV_im0_eff1 c m pt)))))

def BM10ex.cINT0unp (c : Consts) (m : CFFs) (pt : Pt) : K :=
  (BM10ex.cINTunp_n0 c m pt)

def BM10ex.CINTunp111 (c : Consts) (m : CFFs) (pt : Pt) : K :=
  let xB__ : K := pt.xB
  let Q2__ : K := pt.Q2
  let t__ : K := pt.t
  let y__ : K := pt.y
  let eps2__ : K := pt.eps2
  let xB : K := xB__
  let Q2 : K := Q2__
  let t : K := t__
  let y : K := y__
  let eps2 : K := eps2__
  (((((((-(4 : K)) * pt.K_) * ((((2 : K) - ((2 : K) * y)) + (y ^ (2 : Nat))) + (((y ^ (2 : Nat)) * eps2) / (2 : K)))) * (((1 : K) - eps2) + (ksqrt ((1 : K) + eps2)))) * (((1 : K) - ((t * ((1 : K) - ((3 : K) * xB))) / pt.Q2)) + (((t * xB) * (((1 : K) + ((3 : K) * eps2)) - (ksqrt ((1 : K) + eps2)))) / (pt.Q2 * (((1 : K) - eps2) + (ksqrt ((1 : K) + eps2))))))) / (kpow ((1 : K) + eps2) (2.5 : K))) - (((((16 : K) * pt.K_) * (((1 : K) - y) - (((y ^ (2 : Nat)) * eps2) / (4 : K)))) * ((((-(3 : K)) * eps2) / (4 : K)) + (((t * xB) * (((1 : K) + (eps2 / ((4 : K) * xB))) + ((((1 : K) - xB) * ((-(1 : K)) + (ksqrt ((1 : K) + eps2)))) / ((2 : K) * xB)))) / pt.Q2))) / (kpow ((1 : K) + eps2) (2.5 : K))))

def BM10ex.CINTunpV111 (c : Consts) (m : CFFs) (pt : Pt) : K :=
  let xB__ : K := pt.xB
  let Q2__ : K := pt.Q2
  let t__ : K := pt.t
  let y__ : K := pt.y
  let eps2__ : K := pt.eps2
  let xB : K := xB__
  let Q2 : K := Q2__
  let t : K := t__
  let y : K := y__
  let eps2 : K := eps2__
  ((((((16 : K) * pt.K_) * t) * xB) * (((((2 : K) - y) ^ (2 : Nat)) * ((1 : K) - ((t * ((1 : K) - ((2 : K) * xB))) / pt.Q2))) + ((((t - (tmin c Q2 xB eps2)) * (((1 : K) - y) - (((y ^ (2 : Nat)) * eps2) / (4 : K)))) * (((1 : K) - ((2 : K) * xB)) + (ksqrt ((1 : K) + eps2)))) / ((2 : K) * pt.Q2)))) / (pt.Q2 * (kpow ((1 : K) + eps2) (2.5 : K))))

def BM10ex.CINTunpA111 (c : Consts) (m : CFFs) (pt : Pt) : K :=
  let xB__ : K := pt.xB
  let Q2__ : K := pt.Q2
  let t__ : K := pt.t
  let y__ : K := pt.y
  let eps2__ : K := pt.eps2
  let xB : K := xB__
  let Q2 : K := Q2__
  let t : K := t__
  let y : K := y__
  let eps2 : K := eps2__
  (((((-(16 : K)) * pt.K_) * t) * (((((1 : K) - y) - (((y ^ (2 : Nat)) * eps2) / (4 : K))) * (((1 : K) - ((t * ((1 : K) - ((2 : K) * xB))) / pt.Q2)) + (((t - (tmin c Q2 xB eps2)) * ((((4 : K) * ((1 : K) - xB)) * xB) + eps2)) / (((4 : K) * pt.Q2) * (ksqrt ((1 : K) + eps2)))))) - ((((2 : K) - y) ^ (2 : Nat)) * ((((1 : K) - (xB / (2 : K))) + (((t - (tmin c Q2 xB eps2)) * ((((4 : K) * ((1 : K) - xB)) * xB) + eps2)) / (((2 : K) * pt.Q2) * (ksqrt ((1 : K) + eps2))))) + ((((1 : K) - (t / pt.Q2)) * (((1 : K) - ((2 : K) * xB)) + (ksqrt ((1 : K) + eps2)))) / (4 : K)))))) / (pt.Q2 * (((1 : K) + eps2) ^ (2 : Nat))))

def BM10ex.CINTunp011 (c : Consts) (m : CFFs) (pt : Pt) : K :=
  let xB__ : K := pt.xB
  let Q2__ : K := pt.Q2
  let t__ : K := pt.t
  let y__ : K := pt.y
  let eps2__ : K := pt.eps2
  let xB : K := xB__
  let Q2 : K := Q2__
  let t : K := t__
  let y : K := y__
  let eps2 : K := eps2__
  (((((8 : K) * (ksqrt (2 : K))) * (ksqrt (((1 : K) - y) - (((y ^ (2 : Nat)) * eps2) / (4 : K))))) * (((((t - (tmin c Q2 xB eps2)) * (((2 : K) - y) ^ (2 : Nat))) * (((1 : K) - xB) + (((t - (tmin c Q2 xB eps2)) * ((((1 : K) - xB) * xB) + (eps2 / (4 : K)))) / (pt.Q2 * (ksqrt ((1 : K) + eps2)))))) / pt.Q2) + (((((1 : K) - ((t * ((1 : K) - ((2 : K) * xB))) / pt.Q2)) * (((1 : K) - y) - (((y ^ (2 : Nat)) * eps2) / (4 : K)))) * (eps2 - (((((2 : K) * t) * xB) * ((1 : K) + (eps2 / ((2 : K) * xB)))) / pt.Q2))) / (ksqrt ((1 : K) + eps2))))) / (((1 : K) + eps2) ^ (2 : Nat)))

def BM10ex.CINTunpV011 (c : Consts) (m : CFFs) (pt : Pt) : K :=
  let xB__ : K := pt.xB
  let Q2__ : K := pt.Q2
  let t__ : K := pt.t
  let y__ : K := pt.y
  let eps2__ : K := pt.eps2
  let xB : K := xB__
  let Q2 : K := Q2__
  let t : K := t__
  let y : K := y__
  let eps2 : K := eps2__
  (((((((16 : K) * (ksqrt (2 : K))) * t) * xB) * (ksqrt (((1 : K) - y) - (((y ^ (2 : Nat)) * eps2) / (4 : K))))) * (((pt.tK2 * (((2 : K) - y) ^ (2 : Nat))) / pt.Q2) + (((1 : K) - (((t * ((1 : K) - ((2 : K) * xB))) * ((2 : K) - ((t * ((1 : K) - ((2 : K) * xB))) / pt.Q2))) / pt.Q2)) * (((1 : K) - y) - (((y ^ (2 : Nat)) * eps2) / (4 : K)))))) / (pt.Q2 * (kpow ((1 : K) + eps2) (2.5 : K))))

def BM10ex.CINTunpA011 (c : Consts) (m : CFFs) (pt : Pt) : K :=
  let xB__ : K := pt.xB
  let Q2__ : K := pt.Q2
  let t__ : K := pt.t
  let y__ : K := pt.y
  let eps2__ : K := pt.eps2
  let xB : K := xB__
  let Q2 : K := Q2__
  let t : K := t__
  let y : K := y__
  let eps2 : K := eps2__
  ((((((8 : K) * (ksqrt (2 : K))) * t) * (ksqrt (((1 : K) - y) - (((y ^ (2 : Nat)) * eps2) / (4 : K))))) * ((((pt.tK2 * ((1 : K) - ((2 : K) * xB))) * (((2 : K) - y) ^ (2 : Nat))) / pt.Q2) + ((((1 : K) - ((t * ((1 : K) - ((2 : K) * xB))) / pt.Q2)) * (((1 : K) - y) - (((y ^ (2 : Nat)) * eps2) / (4 : K)))) * ((((4 : K) - ((2 : K) * xB)) + ((3 : K) * eps2)) + ((((4 : K) * t) * ((((1 : K) - xB) * xB) + (eps2 / (4 : K)))) / pt.Q2))))) / (pt.Q2 * (kpow ((1 : K) + eps2) (2.5 : K))))

def BM10ex.cINTunp_n1 (c : Consts) (m : CFFs) (pt : Pt) : K :=
  (((((BM10ex.CINTunp111 c m pt) * (BM10ex.CCALINTunp_im0_eff0 c m pt)) + ((BM10ex.CINTunpV111 c m pt) * (BM10ex.CCALINTunpV_im0_eff0 c m pt))) + ((BM10ex.CINTunpA111 c m pt) * (BM10ex.CCALINTunpA_im0_eff0 c m pt))) + (((((ksqrt (2 : K)) / (((2 : K) - pt.xB) + ((pt.xB * pt.t) / pt.Q2))) * pt.tK) / (ksqrt pt.Q2)) * ((((BM10ex.CINTunp011 c m pt) * (BM10ex.CCALINTunp_im0_eff1 c m pt)) + ((BM10ex.CINTunpV011 c m pt) * (BM10ex.CCALINTunpV_im0_eff1 c m pt))) + ((BM10ex.CINTunpA011 c m pt) * (BM10ex.CCALINTunpV_im0_eff1 c m pt)))))

def BM10ex.cINT1unp (c : Consts) (m : CFFs) (pt : Pt) : K :=
  (BM10ex.cINTunp_n1 c m pt)

def BM10ex.CINTunp112 (c : Consts) (m : CFFs) (pt : Pt) : K :=
  let xB__ : K := pt.xB
  let Q2__ : K := pt.Q2
  let t__ : K := pt.t
  let y__ : K := pt.y
  let eps2__ : K := pt.eps2
  let xB : K := xB__
  let Q2 : K := Q2__
  let t : K := t__
  let y : K := y__
  let eps2 : K := eps2__
  (((((8 : K) * ((2 : K) - y)) * (((1 : K) - y) - (((y ^ (2 : Nat)) * eps2) / (4 : K)))) * (((((2 : K) * pt.tK2) * eps2) / (pt.Q2 * (((1 : K) + eps2) + (ksqrt ((1 : K) + eps2))))) + ((((t * (t - (tmin c Q2 xB eps2))) * xB) * ((((1 : K) - xB) + (eps2 / ((2 : K) * xB))) + (((1 : K) - (ksqrt ((1 : K) + eps2))) / (2 : K)))) / (pt.Q2 ^ (2 : Nat))))) / (((1 : K) + eps2) ^ (2 : Nat)))

def BM10ex.CINTunpV112 (c : Consts) (m : CFFs) (pt : Pt) : K :=
  let xB__ : K := pt.xB
  let Q2__ : K := pt.Q2
  let t__ : K := pt.t
  let y__ : K := pt.y
  let eps2__ : K := pt.eps2
  let xB : K := xB__
  let Q2 : K := Q2__
  let t : K := t__
  let y : K := y__
  let eps2 : K := eps2__
  (((((((8 : K) * t) * xB) * ((2 : K) - y)) * (((1 : K) - y) - (((y ^ (2 : Nat)) * eps2) / (4 : K)))) * ((((4 : K) * pt.tK2) / (pt.Q2 * (ksqrt ((1 : K) + eps2)))) + ((((t - (tmin c Q2 xB eps2)) * ((1 : K) + (t / pt.Q2))) * (((1 : K) - ((2 : K) * xB)) + (ksqrt ((1 : K) + eps2)))) / ((2 : K) * pt.Q2)))) / (pt.Q2 * (((1 : K) + eps2) ^ (2 : Nat))))

def BM10ex.CINTunpA112 (c : Consts) (m : CFFs) (pt : Pt) : K :=
  let xB__ : K := pt.xB
  let Q2__ : K := pt.Q2
  let t__ : K := pt.t
  let y__ : K := pt.y
  let eps2__ : K := pt.eps2
  let xB : K := xB__
  let Q2 : K := Q2__
  let t : K := t__
  let y : K := y__
  let eps2 : K := eps2__
  ((((((4 : K) * t) * ((2 : K) - y)) * (((1 : K) - y) - (((y ^ (2 : Nat)) * eps2) / (4 : K)))) * (((((4 : K) * pt.tK2) * ((1 : K) - ((2 : K) * xB))) / (pt.Q2 * (ksqrt ((1 : K) + eps2)))) - ((((t - (tmin c Q2 xB eps2)) * xB) * ((((3 : K) - ((2 : K) * xB)) + (eps2 / xB)) - (ksqrt ((1 : K) + eps2)))) / pt.Q2))) / (pt.Q2 * (((1 : K) + eps2) ^ (2 : Nat))))

def BM10ex.CINTunp012 (c : Consts) (m : CFFs) (pt : Pt) : K :=
  let xB__ : K := pt.xB
  let Q2__ : K := pt.Q2
  let t__ : K := pt.t
  let y__ : K := pt.y
  let eps2__ : K := pt.eps2
  let xB : K := xB__
  let Q2 : K := Q2__
  let t : K := t__
  let y : K := y__
  let eps2 : K := eps2__
  ((((((((-(8 : K)) * (ksqrt (2 : K))) * pt.K_) * ((2 : K) - y)) * ((1 : K) + (eps2 / (2 : K)))) * (ksqrt (((1 : K) - y) - (((y ^ (2 : Nat)) * eps2) / (4 : K))))) * ((1 : K) + (((t * xB) * ((1 : K) + (eps2 / ((2 : K) * xB)))) / (pt.Q2 * ((1 : K) + (eps2 / (2 : K))))))) / (kpow ((1 : K) + eps2) (2.5 : K)))

def BM10ex.CINTunpV012 (c : Consts) (m : CFFs) (pt : Pt) : K :=
  let xB__ : K := pt.xB
  let Q2__ : K := pt.Q2
  let t__ : K := pt.t
  let y__ : K := pt.y
  let eps2__ : K := pt.eps2
  let xB : K := xB__
  let Q2 : K := Q2__
  let t : K := t__
  let y : K := y__
  let eps2 : K := eps2__
  (((((((((8 : K) * (ksqrt (2 : K))) * pt.K_) * t) * xB) * ((2 : K) - y)) * ((1 : K) - ((t * ((1 : K) - ((2 : K) * xB))) / pt.Q2))) * (ksqrt (((1 : K) - y) - (((y ^ (2 : Nat)) * eps2) / (4 : K))))) / (pt.Q2 * (kpow ((1 : K) + eps2) (2.5 : K))))

def BM10ex.CINTunpA012 (c : Consts) (m : CFFs) (pt : Pt) : K :=
  let xB__ : K := pt.xB
  let Q2__ : K := pt.Q2
  let t__ : K := pt.t
  let y__ : K := pt.y
  let eps2__ : K := pt.eps2
  let xB : K := xB__
  let Q2 : K := Q2__
  let t : K := t__
  let y : K := y__
  let eps2 : K := eps2__
  ((((((((8 : K) * (ksqrt (2 : K))) * pt.K_) * t) * ((2 : K) - y)) * (ksqrt (((1 : K) - y) - (((y ^ (2 : Nat)) * eps2) / (4 : K))))) * (((1 : K) - xB) + ((((2 : K) * (t - (tmin c Q2 xB eps2))) * ((((1 : K) - xB) * xB) + (eps2 / (4 : K)))) / (pt.Q2 * (ksqrt ((1 : K) + eps2)))))) / (pt.Q2 * (((1 : K) + eps2) ^ (2 : Nat))))

def BM10ex.cINTunp_n2 (c : Consts) (m : CFFs) (pt : Pt) : K :=
  (((((BM10ex.CINTunp112 c m pt) * (BM10ex.CCALINTunp_im0_eff0 c m pt)) + ((BM10ex.CINTunpV112 c m pt) * (BM10ex.CCALINTunpV_im0_eff0 c m pt))) + ((BM10ex.CINTunpA112 c m pt) * (BM10ex.CCALINTunpA_im0_eff0 c m pt))) + (((((ksqrt (2 : K)) / (((2 : K) - pt.xB) + ((pt.xB * pt.t) / pt.Q2))) * pt.tK) / (ksqrt pt.Q2)) * ((((BM10ex.CINTunp012 c m pt) * (BM10ex.CCALINTunp_im0_eff1 c m pt)) + ((BM10ex.CINTunpV012 c m pt) * (BM10ex.CCALINTunpV_im0_eff1 c m pt))) + ((BM10ex.CINTunpA012 c m pt) * (BM10ex.CCALINTunpV_im0_eff1 c m pt)))))

def BM10ex.cINT2unp (c : Consts) (m : CFFs) (pt : Pt) : K :=
  (BM10ex.cINTunp_n2 c m pt)

def BM10ex.CINTunp113 (c : Consts) (m : CFFs) (pt : Pt) : K :=
  let xB__ : K := pt.xB
  let Q2__ : K := pt.Q2
  let t__ : K := pt.t
  let y__ : K := pt.y
  let eps2__ : K := pt.eps2
  let xB : K := xB__
  let Q2 : K := Q2__
  let t : K := t__
  let y : K := y__
  let eps2 : K := eps2__
  ((((((-(8 : K)) * pt.K_) * (((1 : K) - y) - (((y ^ (2 : Nat)) * eps2) / (4 : K)))) * ((-(1 : K)) + (ksqrt ((1 : K) + eps2)))) * (((t * ((1 : K) - xB)) / pt.Q2) + ((((1 : K) + (t / pt.Q2)) * ((-(1 : K)) + (ksqrt ((1 : K) + eps2)))) / (2 : K)))) / (kpow ((1 : K) + eps2) (2.5 : K)))

def BM10ex.CINTunpV113 (c : Consts) (m : CFFs) (pt : Pt) : K :=
  let xB__ : K := pt.xB
  let Q2__ : K := pt.Q2
  let t__ : K := pt.t
  let y__ : K := pt.y
  let eps2__ : K := pt.eps2
  let xB : K := xB__
  let Q2 : K := Q2__
  let t : K := t__
  let y : K := y__
  let eps2 : K := eps2__
  (((((((-(8 : K)) * pt.K_) * t) * xB) * (((1 : K) - y) - (((y ^ (2 : Nat)) * eps2) / (4 : K)))) * (((-(1 : K)) + (ksqrt ((1 : K) + eps2))) + ((t * (((1 : K) - ((2 : K) * xB)) + (ksqrt ((1 : K) + eps2)))) / pt.Q2))) / (pt.Q2 * (kpow ((1 : K) + eps2) (2.5 : K))))

def BM10ex.CINTunpA113 (c : Consts) (m : CFFs) (pt : Pt) : K :=
  let xB__ : K := pt.xB
  let Q2__ : K := pt.Q2
  let t__ : K := pt.t
  let y__ : K := pt.y
  let eps2__ : K := pt.eps2
  let xB : K := xB__
  let Q2 : K := Q2__
  let t : K := t__
  let y : K := y__
  let eps2 : K := eps2__
  (((((((16 : K) * pt.K_) * t) * (t - (tmin c Q2 xB eps2))) * ((((1 : K) - xB) * xB) + (eps2 / (4 : K)))) * (((1 : K) - y) - (((y ^ (2 : Nat)) * eps2) / (4 : K)))) / ((pt.Q2 ^ (2 : Nat)) * (kpow ((1 : K) + eps2) (2.5 : K))))

def BM10ex.CINTunp013 (c : Consts) (m : CFFs) (pt : Pt) : K :=
  let xB__ : K := pt.xB
  let Q2__ : K := pt.Q2
  let t__ : K := pt.t
  let y__ : K := pt.y
  let eps2__ : K := pt.eps2
  let xB : K := xB__
  let Q2 : K := Q2__
  let t : K := t__
  let y : K := y__
  let eps2 : K := eps2__
  (0 : K)

def BM10ex.CINTunpV013 (c : Consts) (m : CFFs) (pt : Pt) : K :=
  let xB__ : K := pt.xB
  let Q2__ : K := pt.Q2
  let t__ : K := pt.t
  let y__ : K := pt.y
  let eps2__ : K := pt.eps2
  let xB : K := xB__
  let Q2 : K := Q2__
  let t : K := t__
  let y : K := y__
  let eps2 : K := eps2__
  (0 : K)

def BM10ex.CINTunpA013 (c : Consts) (m : CFFs) (pt : Pt) : K :=
  let xB__ : K := pt.xB
  let Q2__ : K := pt.Q2
  let t__ : K := pt.t
  let y__ : K := pt.y
  let eps2__ : K := pt.eps2
  let xB : K := xB__
  let Q2 : K := Q2__
  let t : K := t__
  let y : K := y__
  let eps2 : K := eps2__
  (0 : K)

def BM10ex.cINTunp_n3 (c : Consts) (m : CFFs) (pt : Pt) : K :=
  (((((BM10ex.CINTunp113 c m pt) * (BM10ex.CCALINTunp_im0_eff0 c m pt)) + ((BM10ex.CINTunpV113 c m pt) * (BM10ex.CCALINTunpV_im0_eff0 c m pt))) + ((BM10ex.CINTunpA113 c m pt) * (BM10ex.CCALINTunpA_im0_eff0 c m pt))) + (((((ksqrt (2 : K)) / (((2 : K) - pt.xB) + ((pt.xB * pt.t) / pt.Q2))) * pt.tK) / (ksqrt pt.Q2)) * ((((BM10ex.CINTunp013 c m pt) * (BM10ex.CCALINTunp_im0_eff1 c m pt)) + ((BM10ex.CINTunpV013 c m pt) * (BM10ex.CCALINTunpV_im0_eff1 c m pt))) + ((BM10ex.CINTunpA013 c m pt) * (BM10ex.CCALINTunpV_im0_eff1 c m pt)))))

def BM10ex.cINT3unp (c : Consts) (m : CFFs) (pt : Pt) : K :=
  (BM10ex.cINTunp_n3 c m pt)

def BM10ex.SINTunp111 (c : Consts) (m : CFFs) (pt : Pt) : K :=
  let xB__ : K := pt.xB
  let Q2__ : K := pt.Q2
  let t__ : K := pt.t
  let y__ : K := pt.y
  let eps2__ : K := pt.eps2
  let xB : K := xB__
  let Q2 : K := Q2__
  let t : K := t__
  let y : K := y__
  let eps2 : K := eps2__
  (((((((8 : K) * pt.K_) * ((2 : K) - y)) * y) * ((1 : K) + (((t - (tmin c Q2 xB eps2)) * (((1 : K) - xB) + (((-(1 : K)) + (ksqrt ((1 : K) + eps2))) / (2 : K)))) / (pt.Q2 * ((1 : K) + eps2))))) * pt.in1polarization) / ((1 : K) + eps2))

def BM10ex.CCALINTunp_im1_eff0 (c : Consts) (m : CFFs) (pt : Pt) : K :=
  let CFFH : Cx K := (Cx.mk m.ReH m.ImH)
  let CFFE : Cx K := (Cx.mk m.ReE m.ImE)
  let CFFHt : Cx K := (Cx.mk m.ReHt m.ImHt)
  let CFFEt : Cx K := (Cx.mk m.ReEt m.ImEt)
  let xB__ : K := pt.xB
  let Q2__ : K := pt.Q2
  let t__ : K := pt.t
  let y__ : K := pt.y
  let eps2__ : K := pt.eps2
  let xB : K := xB__
  let Q2 : K := Q2__
  let t : K := t__
  let y : K := y__
  let eps2 : K := eps2__
  let res : Cx K := (((Cx.smul m.F1 CFFH) - (Cx.smul ((t / ((4 : K) * c.Mp2)) * m.F2) CFFE)) + (Cx.smul ((xB / (((2 : K) - xB) + ((t * xB) / pt.Q2))) * (m.F1 + m.F2)) CFFHt))
  res.im

def BM10ex.SINTunpV111 (c : Consts) (m : CFFs) (pt : Pt) : K :=
  let xB__ : K := pt.xB
  let Q2__ : K := pt.Q2
  let t__ : K := pt.t
  let y__ : K := pt.y
  let eps2__ : K := pt.eps2
  let xB : K := xB__
  let Q2 : K := Q2__
  let t : K := t__
  let y : K := y__
  let eps2 : K := eps2__
  (((-(((((((8 : K) * pt.K_) * ((2 : K) - y)) * y) * xB) * pt.in1polarization) / (((1 : K) + eps2) ^ (2 : Nat)))) * (t / pt.Q2)) * (((ksqrt ((1 : K) + eps2)) - (1 : K)) + ((((1 : K) + (ksqrt ((1 : K) + eps2))) - ((2 : K) * xB)) * (t / pt.Q2))))

def BM10ex.CCALINTunpV_im1_eff0 (c : Consts) (m : CFFs) (pt : Pt) : K :=
  let CFFH : Cx K := (Cx.mk m.ReH m.ImH)
  let CFFE : Cx K := (Cx.mk m.ReE m.ImE)
  let CFFHt : Cx K := (Cx.mk m.ReHt m.ImHt)
  let CFFEt : Cx K := (Cx.mk m.ReEt m.ImEt)
  let xB__ : K := pt.xB
  let Q2__ : K := pt.Q2
  let t__ : K := pt.t
  let y__ : K := pt.y
  let eps2__ : K := pt.eps2
  let xB : K := xB__
  let Q2 : K := Q2__
  let t : K := t__
  let y : K := y__
  let eps2 : K := eps2__
  let res : Cx K := (Cx.smul ((xB / (((2 : K) - xB) + ((t * xB) / pt.Q2))) * (m.F1 + m.F2)) (CFFH + CFFE))
  res.im

def BM10ex.SINTunpA111 (c : Consts) (m : CFFs) (pt : Pt) : K :=
  let xB__ : K := pt.xB
  let Q2__ : K := pt.Q2
  let t__ : K := pt.t
  let y__ : K := pt.y
  let eps2__ : K := pt.eps2
  let xB : K := xB__
  let Q2 : K := Q2__
  let t : K := t__
  let y : K := y__
  let eps2 : K := eps2__
  ((((((((8 : K) * pt.in1polarization) * pt.K_) * ((2 : K) - y)) * y) / ((1 : K) + eps2)) * (t / pt.Q2)) * ((1 : K) - ((((1 : K) - ((2 : K) * xB)) * ((((1 : K) + (ksqrt ((1 : K) + eps2))) - ((2 : K) * xB)) / ((2 : K) * ((1 : K) + eps2)))) * ((t - (tmin c Q2 xB eps2)) / pt.Q2))))

def BM10ex.CCALINTunpA_im1_eff0 (c : Consts) (m : CFFs) (pt : Pt) : K :=
  let CFFH : Cx K := (Cx.mk m.ReH m.ImH)
  let CFFE : Cx K := (Cx.mk m.ReE m.ImE)
  let CFFHt : Cx K := (Cx.mk m.ReHt m.ImHt)
  let CFFEt : Cx K := (Cx.mk m.ReEt m.ImEt)
  let xB__ : K := pt.xB
  let Q2__ : K := pt.Q2
  let t__ : K := pt.t
  let y__ : K := pt.y
  let eps2__ : K := pt.eps2
  let xB : K := xB__
  let Q2 : K := Q2__
  let t : K := t__
  let y : K := y__
  let eps2 : K := eps2__
  let res : Cx K := (Cx.smul ((xB / (((2 : K) - xB) + ((t * xB) / pt.Q2))) * (m.F1 + m.F2)) CFFHt)
  res.im

def BM10ex.SINTunp011 (c : Consts) (m : CFFs) (pt : Pt) : K :=
  let xB__ : K := pt.xB
  let Q2__ : K := pt.Q2
  let t__ : K := pt.t
  let y__ : K := pt.y
  let eps2__ : K := pt.eps2
  let xB : K := xB__
  let Q2 : K := Q2__
  let t : K := t__
  let y : K := y__
  let eps2 : K := eps2__
  ((((((((8 : K) * (ksqrt (2 : K))) * pt.tK2) * ((2 : K) - y)) * y) * (ksqrt (((1 : K) - y) - (((y ^ (2 : Nat)) * eps2) / (4 : K))))) * pt.in1polarization) / (pt.Q2 * (((1 : K) + eps2) ^ (2 : Nat))))

def BM10ex.CCALINTunp_im1_eff1 (c : Consts) (m : CFFs) (pt : Pt) : K :=
  let CFFH : Cx K := (Cx.mk m.ReHeff m.ImHeff)
  let CFFE : Cx K := (Cx.mk m.ReEeff m.ImEeff)
  let CFFHt : Cx K := (Cx.mk m.ReHteff m.ImHteff)
  let CFFEt : Cx K := (Cx.mk m.ReEteff m.ImEteff)
  let xB__ : K := pt.xB
  let Q2__ : K := pt.Q2
  let t__ : K := pt.t
  let y__ : K := pt.y
  let eps2__ : K := pt.eps2
  let xB : K := xB__
  let Q2 : K := Q2__
  let t : K := t__
  let y : K := y__
  let eps2 : K := eps2__
  let res : Cx K := (((Cx.smul m.F1 CFFH) - (Cx.smul ((t / ((4 : K) * c.Mp2)) * m.F2) CFFE)) + (Cx.smul ((xB / (((2 : K) - xB) + ((t * xB) / pt.Q2))) * (m.F1 + m.F2)) CFFHt))
  res.im

def BM10ex.SINTunpV011 (c : Consts) (m : CFFs) (pt : Pt) : K :=
  let xB__ : K := pt.xB
  let Q2__ : K := pt.Q2
  let t__ : K := pt.t
  let y__ : K := pt.y
  let eps2__ : K := pt.eps2
  let xB : K := xB__
  let Q2 : K := Q2__
  let t : K := t__
  let y : K := y__
  let eps2 : K := eps2__
  ((((((((((4 : K) * (ksqrt (2 : K))) * t) * xB) * ((2 : K) - y)) * y) * (ksqrt (((1 : K) - y) - (((y ^ (2 : Nat)) * eps2) / (4 : K))))) * ((((((4 : K) * t) * ((1 : K) - xB)) * ((1 : K) + ((t * xB) / pt.Q2))) / pt.Q2) + ((((1 : K) + (t / pt.Q2)) ^ (2 : Nat)) * eps2))) * pt.in1polarization) / (pt.Q2 * (((1 : K) + eps2) ^ (2 : Nat))))

def BM10ex.CCALINTunpV_im1_eff1 (c : Consts) (m : CFFs) (pt : Pt) : K :=
  let CFFH : Cx K := (Cx.mk m.ReHeff m.ImHeff)
  let CFFE : Cx K := (Cx.mk m.ReEeff m.ImEeff)
  let CFFHt : Cx K := (Cx.mk m.ReHteff m.ImHteff)
  let CFFEt : Cx K := (Cx.mk m.ReEteff m.ImEteff)
  let xB__ : K := pt.xB
  let Q2__ : K := pt.Q2
  let t__ : K := pt.t
  let y__ : K := pt.y
  let eps2__ : K := pt.eps2
  let xB : K := xB__
  let Q2 : K := Q2__
  let t : K := t__
  let y : K := y__
  let eps2 : K := eps2__
  let res : Cx K := (Cx.smul ((xB / (((2 : K) - xB) + ((t * xB) / pt.Q2))) * (m.F1 + m.F2)) (CFFH + CFFE))
  res.im

def BM10ex.SINTunpA011 (c : Consts) (m : CFFs) (pt : Pt) : K :=
  let xB__ : K := pt.xB
  let Q2__ : K := pt.Q2
  let t__ : K := pt.t
  let y__ : K := pt.y
  let eps2__ : K := pt.eps2
  let xB : K := xB__
  let Q2 : K := Q2__
  let t : K := t__
  let y : K := y__
  let eps2 : K := eps2__
  ((((((((((-(8 : K)) * (ksqrt (2 : K))) * t) * pt.tK2) * ((1 : K) - ((2 : K) * xB))) * ((2 : K) - y)) * y) * (ksqrt (((1 : K) - y) - (((y ^ (2 : Nat)) * eps2) / (4 : K))))) * pt.in1polarization) / ((pt.Q2 ^ (2 : Nat)) * (((1 : K) + eps2) ^ (2 : Nat))))

def BM10ex.CCALINTunpA_im1_eff1 (c : Consts) (m : CFFs) (pt : Pt) : K :=
  let CFFH : Cx K := (Cx.mk m.ReHeff m.ImHeff)
  let CFFE : Cx K := (Cx.mk m.ReEeff m.ImEeff)
  let CFFHt : Cx K := (Cx.mk m.ReHteff m.ImHteff)
  let CFFEt : Cx K := (Cx.mk m.ReEteff m.ImEteff)
  let xB__ : K := pt.xB
  let Q2__ : K := pt.Q2
  let t__ : K := pt.t
  let y__ : K := pt.y
  let eps2__ : K := pt.eps2
  let xB : K := xB__
  let Q2 : K := Q2__
  let t : K := t__
  let y : K := y__
  let eps2 : K := eps2__
  let res : Cx K := (Cx.smul ((xB / (((2 : K) - xB) + ((t * xB) / pt.Q2))) * (m.F1 + m.F2)) CFFHt)
  res.im

def BM10ex.sINTunp_n1 (c : Consts) (m : CFFs) (pt : Pt) : K :=
  (((((BM10ex.SINTunp111 c m pt) * (BM10ex.CCALINTunp_im1_eff0 c m pt)) + ((BM10ex.SINTunpV111 c m pt) * (BM10ex.CCALINTunpV_im1_eff0 c m pt))) + ((BM10ex.SINTunpA111 c m pt) * (BM10ex.CCALINTunpA_im1_eff0 c m pt))) + (((((ksqrt (2 : K)) / (((2 : K) - pt.xB) + ((pt.xB * pt.t) / pt.Q2))) * pt.tK) / (ksqrt pt.Q2)) * ((((BM10ex.SINTunp011 c m pt) * (BM10ex.CCALINTunp_im1_eff1 c m pt)) + ((BM10ex.SINTunpV011 c m pt) * (BM10ex.CCALINTunpV_im1_eff1 c m pt))) + ((BM10ex.SINTunpA011 c m pt) * (BM10ex.CCALINTunpA_im1_eff1 c m pt)))))

def BM10ex.sINT1unp (c : Consts) (m : CFFs) (pt : Pt) : K :=
  (BM10ex.sINTunp_n1 c m pt)

def BM10ex.SINTunp112 (c : Consts) (m : CFFs) (pt : Pt) : K :=
  let xB__ : K := pt.xB
  let Q2__ : K := pt.Q2
  let t__ : K := pt.t
  let y__ : K := pt.y
  let eps2__ : K := pt.eps2
  let xB : K := xB__
  let Q2 : K := Q2__
  let t : K := t__
  let y : K := y__
  let eps2 : K := eps2__
  ((((((((-(4 : K)) * (t - (tmin c Q2 xB eps2))) * y) * (((1 : K) - y) - (((y ^ (2 : Nat)) * eps2) / (4 : K)))) * (((1 : K) - ((2 : K) * xB)) + (ksqrt ((1 : K) + eps2)))) * (((-((t - (tmin c Q2 xB eps2)) * (((2 : K) * xB) + eps2))) / (((2 : K) * pt.Q2) * (ksqrt ((1 : K) + eps2)))) + ((eps2 - (xB * ((-(1 : K)) + (ksqrt ((1 : K) + eps2))))) / (((1 : K) - ((2 : K) * xB)) + (ksqrt ((1 : K) + eps2)))))) * pt.in1polarization) / (pt.Q2 * (kpow ((1 : K) + eps2) (1.5 : K))))

def BM10ex.SINTunpV112 (c : Consts) (m : CFFs) (pt : Pt) : K :=
  let xB__ : K := pt.xB
  let Q2__ : K := pt.Q2
  let t__ : K := pt.t
  let y__ : K := pt.y
  let eps2__ : K := pt.eps2
  let xB : K := xB__
  let Q2 : K := Q2__
  let t : K := t__
  let y : K := y__
  let eps2 : K := eps2__
  ((((-((((((4 : K) * (((1 : K) - y) - (((y ^ (2 : Nat)) * eps2) / (4 : K)))) * y) * xB) * pt.in1polarization) / (((1 : K) + eps2) ^ (2 : Nat)))) * (t / pt.Q2)) * ((1 : K) - (((1 : K) - ((2 : K) * xB)) * (t / pt.Q2)))) * (((ksqrt ((1 : K) + eps2)) - (1 : K)) + ((((1 : K) + (ksqrt ((1 : K) + eps2))) - ((2 : K) * xB)) * (t / pt.Q2))))

def BM10ex.SINTunpA112 (c : Consts) (m : CFFs) (pt : Pt) : K :=
  let xB__ : K := pt.xB
  let Q2__ : K := pt.Q2
  let t__ : K := pt.t
  let y__ : K := pt.y
  let eps2__ : K := pt.eps2
  let xB : K := xB__
  let Q2 : K := Q2__
  let t : K := t__
  let y : K := y__
  let eps2 : K := eps2__
  ((((((-(((((16 : K) * pt.in1polarization) * (((1 : K) - y) - (((y ^ (2 : Nat)) * eps2) / (4 : K)))) * y) / (((1 : K) + eps2) ^ (2 : Nat)))) * (t / pt.Q2)) * ((t - (tmin c Q2 xB eps2)) / pt.Q2)) * (((1 : K) - (xB / (2 : K))) + (((3 : K) * eps2) / (4 : K)))) * ((((1 : K) + (ksqrt ((1 : K) + eps2))) - ((2 : K) * xB)) / (2 : K))) * ((1 : K) + ((((((4 : K) * ((1 : K) - xB)) * xB) + eps2) / (((4 : K) - ((2 : K) * xB)) + ((3 : K) * eps2))) * (t / pt.Q2))))

def BM10ex.SINTunp012 (c : Consts) (m : CFFs) (pt : Pt) : K :=
  let xB__ : K := pt.xB
  let Q2__ : K := pt.Q2
  let t__ : K := pt.t
  let y__ : K := pt.y
  let eps2__ : K := pt.eps2
  let xB : K := xB__
  let Q2 : K := Q2__
  let t : K := t__
  let y : K := y__
  let eps2 : K := eps2__
  (((((((((8 : K) * (ksqrt (2 : K))) * pt.K_) * y) * ((1 : K) + (eps2 / (2 : K)))) * (ksqrt (((1 : K) - y) - (((y ^ (2 : Nat)) * eps2) / (4 : K))))) * ((1 : K) + (((t * xB) * ((1 : K) + (eps2 / ((2 : K) * xB)))) / (pt.Q2 * ((1 : K) + (eps2 / (2 : K))))))) * pt.in1polarization) / (((1 : K) + eps2) ^ (2 : Nat)))

def BM10ex.SINTunpV012 (c : Consts) (m : CFFs) (pt : Pt) : K :=
  let xB__ : K := pt.xB
  let Q2__ : K := pt.Q2
  let t__ : K := pt.t
  let y__ : K := pt.y
  let eps2__ : K := pt.eps2
  let xB : K := xB__
  let Q2 : K := Q2__
  let t : K := t__
  let y : K := y__
  let eps2 : K := eps2__
  ((((((((((-(8 : K)) * (ksqrt (2 : K))) * pt.K_) * t) * xB) * y) * ((1 : K) - ((t * ((1 : K) - ((2 : K) * xB))) / pt.Q2))) * (ksqrt (((1 : K) - y) - (((y ^ (2 : Nat)) * eps2) / (4 : K))))) * pt.in1polarization) / (pt.Q2 * (((1 : K) + eps2) ^ (2 : Nat))))

def BM10ex.SINTunpA012 (c : Consts) (m : CFFs) (pt : Pt) : K :=
  let xB__ : K := pt.xB
  let Q2__ : K := pt.Q2
  let t__ : K := pt.t
  let y__ : K := pt.y
  let eps2__ : K := pt.eps2
  let xB : K := xB__
  let Q2 : K := Q2__
  let t : K := t__
  let y : K := y__
  let eps2 : K := eps2__
  (((((((((-(2 : K)) * (ksqrt (2 : K))) * pt.K_) * t) * y) * (ksqrt (((1 : K) - y) - (((y ^ (2 : Nat)) * eps2) / (4 : K))))) * ((((4 : K) - ((4 : K) * xB)) + ((2 : K) * eps2)) + ((((2 : K) * t) * ((((4 : K) * xB) - ((4 : K) * (xB ^ (2 : Nat)))) + eps2)) / pt.Q2))) * pt.in1polarization) / (pt.Q2 * (((1 : K) + eps2) ^ (2 : Nat))))

def BM10ex.sINTunp_n2 (c : Consts) (m : CFFs) (pt : Pt) : K :=
  (((((BM10ex.SINTunp112 c m pt) * (BM10ex.CCALINTunp_im1_eff0 c m pt)) + ((BM10ex.SINTunpV112 c m pt) * (BM10ex.CCALINTunpV_im1_eff0 c m pt))) + ((BM10ex.SINTunpA112 c m pt) * (BM10ex.CCALINTunpA_im1_eff0 c m pt))) + (((((ksqrt (2 : K)) / (((2 : K) - pt.xB) + ((pt.xB * pt.t) / pt.Q2))) * pt.tK) / (ksqrt pt.Q2)) * ((((BM10ex.SINTunp012 c m pt) * (BM10ex.CCALINTunp_im1_eff1 c m pt)) + ((BM10ex.SINTunpV012 c m pt) * (BM10ex.CCALINTunpV_im1_eff1 c m pt))) + ((BM10ex.SINTunpA012 c m pt) * (BM10ex.CCALINTunpA_im1_eff1 c m pt)))))

def BM10ex.sINT2unp (c : Consts) (m : CFFs) (pt : Pt) : K :=
  (BM10ex.sINTunp_n2 c m pt)

def BM10ex.SINTunp113 (c : Consts) (m : CFFs) (pt : Pt) : K :=
  let xB__ : K := pt.xB
  let Q2__ : K := pt.Q2
  let t__ : K := pt.t
  let y__ : K := pt.y
  let eps2__ : K := pt.eps2
  let xB : K := xB__
  let Q2 : K := Q2__
  let t : K := t__
  let y : K := y__
  let eps2 : K := eps2__
  (0 : K)

def BM10ex.SINTunpV113 (c : Consts) (m : CFFs) (pt : Pt) : K :=
  let xB__ : K := pt.xB
  let Q2__ : K := pt.Q2
  let t__ : K := pt.t
  let y__ : K := pt.y
  let eps2__ : K := pt.eps2
  let xB : K := xB__
  let Q2 : K := Q2__
  let t : K := t__
  let y : K := y__
  let eps2 : K := eps2__
  (0 : K)

def BM10ex.SINTunpA113 (c : Consts) (m : CFFs) (pt : Pt) : K :=
  let xB__ : K := pt.xB
  let Q2__ : K := pt.Q2
  let t__ : K := pt.t
  let y__ : K := pt.y
  let eps2__ : K := pt.eps2
  let xB : K := xB__
  let Q2 : K := Q2__
  let t : K := t__
  let y : K := y__
  let eps2 : K := eps2__
  (0 : K)

def BM10ex.SINTunp013 (c : Consts) (m : CFFs) (pt : Pt) : K :=
  let xB__ : K := pt.xB
  let Q2__ : K := pt.Q2
  let t__ : K := pt.t
  let y__ : K := pt.y
  let eps2__ : K := pt.eps2
  let xB : K := xB__
  let Q2 : K := Q2__
  let t : K := t__
  let y : K := y__
  let eps2 : K := eps2__
  (0 : K)

def BM10ex.SINTunpV013 (c : Consts) (m : CFFs) (pt : Pt) : K :=
  let xB__ : K := pt.xB
  let Q2__ : K := pt.Q2
  let t__ : K := pt.t
  let y__ : K := pt.y
  let eps2__ : K := pt.eps2
  let xB : K := xB__
  let Q2 : K := Q2__
  let t : K := t__
  let y : K := y__
  let eps2 : K := eps2__
  (0 : K)

def BM10ex.SINTunpA013 (c : Consts) (m : CFFs) (pt : Pt) : K :=
  let xB__ : K := pt.xB
  let Q2__ : K := pt.Q2
  let t__ : K := pt.t
  let y__ : K := pt.y
  let eps2__ : K := pt.eps2
  let xB : K := xB__
  let Q2 : K := Q2__
  let t : K := t__
  let y : K := y__
  let eps2 : K := eps2__
  (0 : K)

def BM10ex.sINTunp_n3 (c : Consts) (m : CFFs) (pt : Pt) : K :=
  (((((BM10ex.SINTunp113 c m pt) * (BM10ex.CCALINTunp_im1_eff0 c m pt)) + ((BM10ex.SINTunpV113 c m pt) * (BM10ex.CCALINTunpV_im1_eff0 c m pt))) + ((BM10ex.SINTunpA113 c m pt) * (BM10ex.CCALINTunpA_im1_eff0 c m pt))) + (((((ksqrt (2 : K)) / (((2 : K) - pt.xB) + ((pt.xB * pt.t) / pt.Q2))) * pt.tK) / (ksqrt pt.Q2)) * ((((BM10ex.SINTunp013 c m pt) * (BM10ex.CCALINTunp_im1_eff1 c m pt)) + ((BM10ex.SINTunpV013 c m pt) * (BM10ex.CCALINTunpV_im1_eff1 c m pt))) + ((BM10ex.SINTunpA013 c m pt) * (BM10ex.CCALINTunpA_im1_eff1 c m pt)))))

def BM10ex.sINT3unp (c : Consts) (m : CFFs) (pt : Pt) : K :=
  (BM10ex.sINTunp_n3 c m pt)

def BM10ex.TINTunp (c : Consts) (m : CFFs) (pt : Pt) : K :=
  (((-pt.in1charge) * (BMK.PreFacINT c m pt)) * (((((((BM10ex.cINT0unp c m pt) + ((BM10ex.cINT1unp c m pt) * (kcos pt.phi))) + ((BM10ex.cINT2unp c m pt) * (kcos ((2 : K) * pt.phi)))) + ((BM10ex.cINT3unp c m pt) * (kcos ((3 : K) * pt.phi)))) + ((BM10ex.sINT1unp c m pt) * (ksin pt.phi))) + ((BM10ex.sINT2unp c m pt) * (ksin ((2 : K) * pt.phi)))) + ((BM10ex.sINT3unp c m pt) * (ksin ((3 : K) * pt.phi)))))

def BM10ex.CCALDVCSunp_im0_leff0_reff0 (c : Consts) (m : CFFs) (pt : Pt) : K :=
  let xB__ : K := pt.xB
  let Q2__ : K := pt.Q2
  let t__ : K := pt.t
  let y__ : K := pt.y
  let eps2__ : K := pt.eps2
  let xB : K := xB__
  let Q2 : K := Q2__
  let t : K := t__
  let y : K := y__
  let eps2 : K := eps2__
  let H : Cx K := (Cx.mk m.ReH m.ImH)
  let EE : Cx K := (Cx.mk m.ReE m.ImE)
  let tH : Cx K := (Cx.mk m.ReHt m.ImHt)
  let tE : Cx K := (Cx.mk m.ReEt m.ImEt)
  let HCC : Cx K := (Cx.mk m.ReH (-m.ImH))
  let EECC : Cx K := (Cx.mk m.ReE (-m.ImE))
  let tHCC : Cx K := (Cx.mk m.ReHt (-m.ImHt))
  let tECC : Cx K := (Cx.mk m.ReEt (-m.ImEt))
  let res : Cx K := (Cx.divR (Cx.smul (Q2 * (Q2 + (t * xB))) ((((((Cx.smul ((1 : K) - xB) ((Cx.smul (4 : K) H) * HCC)) - (Cx.divR (Cx.smul (xB ^ (2 : Nat)) (Cx.smul ((Q2 + t) ^ (2 : Nat)) ((EECC * H) + (EE * HCC)))) (Q2 * (Q2 + (t * xB))))) - (Cx.divR (Cx.smul (xB ^ (2 : Nat)) ((Cx.smul (Q2 * t) tE) * tECC)) (((4 : K) * c.Mp2) * (Q2 + (t * xB))))) - (Cx.divR (Cx.smul (xB ^ (2 : Nat)) (Cx.smul Q2 ((tECC * tH) + (tE * tHCC)))) (Q2 + (t * xB)))) + (Cx.smul (((1 : K) - xB) + ((eps2 * (((2 : K) * Q2) + t)) / ((4 : K) * (Q2 + (t * xB))))) ((Cx.smul (4 : K) tH) * tHCC))) + (Cx.smul ((-((((Q2 + t) ^ (2 : Nat)) * (xB ^ (2 : Nat))) / (Q2 * (Q2 + (t * xB))))) - ((t * (((Q2 * ((2 : K) - xB)) + (t * xB)) ^ (2 : Nat))) / ((((4 : K) * c.Mp2) * Q2) * (Q2 + (t * xB))))) (EE * EECC)))) (((Q2 * ((2 : K) - xB)) + (t * xB)) ^ (2 : Nat)))
  res.re

def BM10ex.CDVCSunpPPeff (c : Consts) (m : CFFs) (pt : Pt) : K :=
  ((((16 : K) * pt.K2) / (((2 : K) - pt.xB) ^ (2 : Nat))) / ((1 : K) + pt.eps2))

def BM10ex.CCALDVCSunp_im0_leff1_reff1 (c : Consts) (m : CFFs) (pt : Pt) : K :=
  let xB__ : K := pt.xB
  let Q2__ : K := pt.Q2
  let t__ : K := pt.t
  let y__ : K := pt.y
  let eps2__ : K := pt.eps2
  let xB : K := xB__
  let Q2 : K := Q2__
  let t : K := t__
  let y : K := y__
  let eps2 : K := eps2__
  let H : Cx K := (Cx.mk m.ReHeff m.ImHeff)
  let EE : Cx K := (Cx.mk m.ReEeff m.ImEeff)
  let tH : Cx K := (Cx.mk m.ReHteff m.ImHteff)
  let tE : Cx K := (Cx.mk m.ReEteff m.ImEteff)
  let HCC : Cx K := (Cx.mk m.ReHeff (-m.ImHeff))
  let EECC : Cx K := (Cx.mk m.ReEeff (-m.ImEeff))
  let tHCC : Cx K := (Cx.mk m.ReHteff (-m.ImHteff))
  let tECC : Cx K := (Cx.mk m.ReEteff (-m.ImEteff))
  let res : Cx K := (Cx.divR (Cx.smul (Q2 * (Q2 + (t * xB))) ((((((Cx.smul ((1 : K) - xB) ((Cx.smul (4 : K) H) * HCC)) - (Cx.divR (Cx.smul (xB ^ (2 : Nat)) (Cx.smul ((Q2 + t) ^ (2 : Nat)) ((EECC * H) + (EE * HCC)))) (Q2 * (Q2 + (t * xB))))) - (Cx.divR (Cx.smul (xB ^ (2 : Nat)) ((Cx.smul (Q2 * t) tE) * tECC)) (((4 : K) * c.Mp2) * (Q2 + (t * xB))))) - (Cx.divR (Cx.smul (xB ^ (2 : Nat)) (Cx.smul Q2 ((tECC * tH) + (tE * tHCC)))) (Q2 + (t * xB)))) + (Cx.smul (((1 : K) - xB) + ((eps2 * (((2 : K) * Q2) + t)) / ((4 : K) * (Q2 + (t * xB))))) ((Cx.smul (4 : K) tH) * tHCC))) + (Cx.smul ((-((((Q2 + t) ^ (2 : Nat)) * (xB ^ (2 : Nat))) / (Q2 * (Q2 + (t * xB))))) - ((t * (((Q2 * ((2 : K) - xB)) + (t * xB)) ^ (2 : Nat))) / ((((4 : K) * c.Mp2) * Q2) * (Q2 + (t * xB))))) (EE * EECC)))) (((Q2 * ((2 : K) - xB)) + (t * xB)) ^ (2 : Nat)))
  res.re

def BM10ex.cDVCS0unp (c : Consts) (m : CFFs) (pt : Pt) : K :=
  (((hotfixedBMK.CDVCSunpPP c m pt) * (BM10ex.CCALDVCSunp_im0_leff0_reff0 c m pt)) + ((BM10ex.CDVCSunpPPeff c m pt) * (BM10ex.CCALDVCSunp_im0_leff1_reff1 c m pt)))

def BM10ex.CCALDVCSunp_im0_leff1_reff0 (c : Consts) (m : CFFs) (pt : Pt) : K :=
  let xB__ : K := pt.xB
  let Q2__ : K := pt.Q2
  let t__ : K := pt.t
  let y__ : K := pt.y
  let eps2__ : K := pt.eps2
  let xB : K := xB__
  let Q2 : K := Q2__
  let t : K := t__
  let y : K := y__
  let eps2 : K := eps2__
  let H : Cx K := (Cx.mk m.ReHeff m.ImHeff)
  let EE : Cx K := (Cx.mk m.ReEeff m.ImEeff)
  let tH : Cx K := (Cx.mk m.ReHteff m.ImHteff)
  let tE : Cx K := (Cx.mk m.ReEteff m.ImEteff)
  let HCC : Cx K := (Cx.mk m.ReH (-m.ImH))
  let EECC : Cx K := (Cx.mk m.ReE (-m.ImE))
  let tHCC : Cx K := (Cx.mk m.ReHt (-m.ImHt))
  let tECC : Cx K := (Cx.mk m.ReEt (-m.ImEt))
  let res : Cx K := (Cx.divR (Cx.smul (Q2 * (Q2 + (t * xB))) ((((((Cx.smul ((1 : K) - xB) ((Cx.smul (4 : K) H) * HCC)) - (Cx.divR (Cx.smul (xB ^ (2 : Nat)) (Cx.smul ((Q2 + t) ^ (2 : Nat)) ((EECC * H) + (EE * HCC)))) (Q2 * (Q2 + (t * xB))))) - (Cx.divR (Cx.smul (xB ^ (2 : Nat)) ((Cx.smul (Q2 * t) tE) * tECC)) (((4 : K) * c.Mp2) * (Q2 + (t * xB))))) - (Cx.divR (Cx.smul (xB ^ (2 : Nat)) (Cx.smul Q2 ((tECC * tH) + (tE * tHCC)))) (Q2 + (t * xB)))) + (Cx.smul (((1 : K) - xB) + ((eps2 * (((2 : K) * Q2) + t)) / ((4 : K) * (Q2 + (t * xB))))) ((Cx.smul (4 : K) tH) * tHCC))) + (Cx.smul ((-((((Q2 + t) ^ (2 : Nat)) * (xB ^ (2 : Nat))) / (Q2 * (Q2 + (t * xB))))) - ((t * (((Q2 * ((2 : K) - xB)) + (t * xB)) ^ (2 : Nat))) / ((((4 : K) * c.Mp2) * Q2) * (Q2 + (t * xB))))) (EE * EECC)))) (((Q2 * ((2 : K) - xB)) + (t * xB)) ^ (2 : Nat)))
  res.re

def BM10ex.cDVCS1unp (c : Consts) (m : CFFs) (pt : Pt) : K :=
  let PP : K := ((((8 : K) * pt.K_) / ((2 : K) - pt.xB)) / ((1 : K) + pt.eps2))
  ((PP * ((2 : K) - pt.y)) * (BM10ex.CCALDVCSunp_im0_leff1_reff0 c m pt))

def BM10ex.CCALDVCSunp_im1_leff1_reff0 (c : Consts) (m : CFFs) (pt : Pt) : K :=
  let xB__ : K := pt.xB
  let Q2__ : K := pt.Q2
  let t__ : K := pt.t
  let y__ : K := pt.y
  let eps2__ : K := pt.eps2
  let xB : K := xB__
  let Q2 : K := Q2__
  let t : K := t__
  let y : K := y__
  let eps2 : K := eps2__
  let H : Cx K := (Cx.mk m.ReHeff m.ImHeff)
  let EE : Cx K := (Cx.mk m.ReEeff m.ImEeff)
  let tH : Cx K := (Cx.mk m.ReHteff m.ImHteff)
  let tE : Cx K := (Cx.mk m.ReEteff m.ImEteff)
  let HCC : Cx K := (Cx.mk m.ReH (-m.ImH))
  let EECC : Cx K := (Cx.mk m.ReE (-m.ImE))
  let tHCC : Cx K := (Cx.mk m.ReHt (-m.ImHt))
  let tECC : Cx K := (Cx.mk m.ReEt (-m.ImEt))
  let res : Cx K := (Cx.divR (Cx.smul (Q2 * (Q2 + (t * xB))) ((((((Cx.smul ((1 : K) - xB) ((Cx.smul (4 : K) H) * HCC)) - (Cx.divR (Cx.smul (xB ^ (2 : Nat)) (Cx.smul ((Q2 + t) ^ (2 : Nat)) ((EECC * H) + (EE * HCC)))) (Q2 * (Q2 + (t * xB))))) - (Cx.divR (Cx.smul (xB ^ (2 : Nat)) ((Cx.smul (Q2 * t) tE) * tECC)) (((4 : K) * c.Mp2) * (Q2 + (t * xB))))) - (Cx.divR (Cx.smul (xB ^ (2 : Nat)) (Cx.smul Q2 ((tECC * tH) + (tE * tHCC)))) (Q2 + (t * xB)))) + (Cx.smul (((1 : K) - xB) + ((eps2 * (((2 : K) * Q2) + t)) / ((4 : K) * (Q2 + (t * xB))))) ((Cx.smul (4 : K) tH) * tHCC))) + (Cx.smul ((-((((Q2 + t) ^ (2 : Nat)) * (xB ^ (2 : Nat))) / (Q2 * (Q2 + (t * xB))))) - ((t * (((Q2 * ((2 : K) - xB)) + (t * xB)) ^ (2 : Nat))) / ((((4 : K) * c.Mp2) * Q2) * (Q2 + (t * xB))))) (EE * EECC)))) (((Q2 * ((2 : K) - xB)) + (t * xB)) ^ (2 : Nat)))
  res.im

def BM10ex.sDVCS1unp (c : Consts) (m : CFFs) (pt : Pt) : K :=
  let PP : K := ((((8 : K) * pt.K_) / ((2 : K) - pt.xB)) / ((1 : K) + pt.eps2))
  ((PP * (((-pt.in1polarization) * pt.y) * (ksqrt ((1 : K) + pt.eps2)))) * (BM10ex.CCALDVCSunp_im1_leff1_reff0 c m pt))

def BM10ex.TDVCS2unp (c : Consts) (m : CFFs) (pt : Pt) : K :=
  ((BMK.PreFacDVCS c m pt) * (((BM10ex.cDVCS0unp c m pt) + ((BM10ex.cDVCS1unp c m pt) * (kcos pt.phi))) + ((BM10ex.sDVCS1unp c m pt) * (ksin pt.phi))))

def BM10ex.cBH0LP (c : Consts) (m : CFFs) (pt : Pt) : K :=
  let xB__ : K := pt.xB
  let Q2__ : K := pt.Q2
  let t__ : K := pt.t
  let y__ : K := pt.y
  let eps2__ : K := pt.eps2
  let xB : K := xB__
  let Q2 : K := Q2__
  let t : K := t__
  let y : K := y__
  let eps2 : K := eps2__
  let FE : K := (m.F1 + ((t * m.F2) / ((4 : K) * c.Mp2)))
  let FM : K := (m.F1 + m.F2)
  let bracket1 : K := (((xB / (2 : K)) * ((1 : K) - (t / Q2))) - (t / ((4 : K) * c.Mp2)))
  let bracket2 : K := (((((2 : K) - xB) - ((((2 : K) * (((1 : K) - xB) ^ (2 : Nat))) * t) / Q2)) + (eps2 * ((1 : K) - (t / Q2)))) - (((xB * ((1 : K) - ((2 : K) * xB))) * (t ^ (2 : Nat))) / (Q2 ^ (2 : Nat))))
  let bracket3 : K := (((((xB ^ (2 : Nat)) * c.Mp2) / t) * (((1 : K) + (t / Q2)) ^ (2 : Nat))) + (((1 : K) - xB) * ((1 : K) + ((xB * t) / Q2))))
  (((((((((8 : K) * pt.in1polarization) * xB) * ((2 : K) - y)) * y) * (ksqrt ((1 : K) + eps2))) / ((1 : K) - (t / ((4 : K) * c.Mp2)))) * FM) * (((((0.5 : K) * bracket1) * bracket2) * FM) + ((((1 : K) - ((((1 : K) - xB) * t) / Q2)) * bracket3) * FE)))

def BM10ex.cBH1LP (c : Consts) (m : CFFs) (pt : Pt) : K :=
  let xB__ : K := pt.xB
  let Q2__ : K := pt.Q2
  let t__ : K := pt.t
  let y__ : K := pt.y
  let eps2__ : K := pt.eps2
  let xB : K := xB__
  let Q2 : K := Q2__
  let t : K := t__
  let y : K := y__
  let eps2 : K := eps2__
  let FE : K := (m.F1 + ((t * m.F2) / ((4 : K) * c.Mp2)))
  let FM : K := (m.F1 + m.F2)
  let bracket1 : K := ((t / ((2 : K) * c.Mp2)) - (xB * ((1 : K) - (t / Q2))))
  let bracket2 : K := ((((1 : K) + xB) - (((3 : K) - ((2 : K) * xB)) * ((1 : K) + ((xB * t) / Q2)))) - (((((4 : K) * (xB ^ (2 : Nat))) * c.Mp2) / t) * ((1 : K) + ((t ^ (2 : Nat)) / (Q2 ^ (2 : Nat))))))
  (((((((((-(8 : K)) * pt.in1polarization) * xB) * y) * pt.K_) * (ksqrt ((1 : K) + eps2))) / ((1 : K) - (t / ((4 : K) * c.Mp2)))) * FM) * (((bracket1 * (((1 : K) - xB) + ((xB * t) / Q2))) * FM) + (bracket2 * FE)))

def BM10ex.TBH2LP (c : Consts) (m : CFFs) (pt : Pt) : K :=
  ((BMK.PreFacBH c m pt) * ((BM10ex.cBH0LP c m pt) + ((BM10ex.cBH1LP c m pt) * (kcos pt.phi))))

def BM10ex.CINTLP110 (c : Consts) (m : CFFs) (pt : Pt) : K :=
  let xB__ : K := pt.xB
  let Q2__ : K := pt.Q2
  let t__ : K := pt.t
  let y__ : K := pt.y
  let eps2__ : K := pt.eps2
  let xB : K := xB__
  let Q2 : K := Q2__
  let t : K := t__
  let y : K := y__
  let eps2 : K := eps2__
  ((-(((((4 : K) * ((1 : K) + (ksqrt ((1 : K) + eps2)))) * y) * pt.in1polarization) / (kpow ((1 : K) + eps2) (2.5 : K)))) * (((((2 : K) - y) ^ (2 : Nat)) * (pt.tK2 / pt.Q2)) + (((((1 : K) - y) - (((y ^ (2 : Nat)) * eps2) / (4 : K))) * (((xB * t) / pt.Q2) - ((((1 : K) / (2 : K)) * ((1 : K) - (t / pt.Q2))) * eps2))) * ((1 : K) + (((((ksqrt ((1 : K) + eps2)) - (1 : K)) + ((2 : K) * xB)) / ((1 : K) + (ksqrt ((1 : K) + eps2)))) * (t / pt.Q2))))))

def BM10ex.CCALINTLP_im0_eff0 (c : Consts) (m : CFFs) (pt : Pt) : K :=
  let CFFH : Cx K := (Cx.mk m.ReH m.ImH)
  let CFFE : Cx K := (Cx.mk m.ReE m.ImE)
  let CFFHt : Cx K := (Cx.mk m.ReHt m.ImHt)
  let CFFEt : Cx K := (Cx.mk m.ReEt m.ImEt)
  let xB__ : K := pt.xB
  let Q2__ : K := pt.Q2
  let t__ : K := pt.t
  let y__ : K := pt.y
  let eps2__ : K := pt.eps2
  let xB : K := xB__
  let Q2 : K := Q2__
  let t : K := t__
  let y : K := y__
  let eps2 : K := eps2__
  let res : Cx K := ((((Cx.smul ((xB / (((2 : K) - xB) + ((t * xB) / pt.Q2))) * (m.F1 + m.F2)) (CFFH + (Cx.smul ((xB / (2 : K)) * ((1 : K) - (t / pt.Q2))) CFFE))) + (Cx.smul (((1 : K) + (((c.Mp2 / pt.Q2) * (((2 : K) * (xB ^ (2 : Nat))) / (((2 : K) - xB) + ((t * xB) / pt.Q2)))) * ((3 : K) + (t / pt.Q2)))) * m.F1) CFFHt)) - (Cx.smul (((t / pt.Q2) * ((xB * ((1 : K) - ((2 : K) * xB))) / (((2 : K) - xB) + ((t * xB) / pt.Q2)))) * m.F2) CFFHt)) - (Cx.smul ((xB / (((2 : K) - xB) + ((t * xB) / pt.Q2))) * ((((xB / (2 : K)) * ((1 : K) - (t / pt.Q2))) * m.F1) + ((t / ((4 : K) * c.Mp2)) * m.F2))) CFFEt))
  res.re

def BM10ex.CINTLPV110 (c : Consts) (m : CFFs) (pt : Pt) : K :=
  let xB__ : K := pt.xB
  let Q2__ : K := pt.Q2
  let t__ : K := pt.t
  let y__ : K := pt.y
  let eps2__ : K := pt.eps2
  let xB : K := xB__
  let Q2 : K := Q2__
  let t : K := t__
  let y : K := y__
  let eps2 : K := eps2__
  (((((((4 : K) * t) * y) * ((1 : K) + (ksqrt ((1 : K) + eps2)))) * ((((pt.tK2 * (((2 : K) - y) ^ (2 : Nat))) * (((1 : K) - ((2 : K) * xB)) + (ksqrt ((1 : K) + eps2)))) / (pt.Q2 * ((1 : K) + (ksqrt ((1 : K) + eps2))))) + ((((((2 : K) - xB) + (((3 : K) * eps2) / (2 : K))) * (((1 : K) - y) - (((y ^ (2 : Nat)) * eps2) / (4 : K)))) * ((1 : K) + ((t * ((((4 : K) * ((1 : K) - xB)) * xB) + eps2)) / (pt.Q2 * (((4 : K) - ((2 : K) * xB)) + ((3 : K) * eps2)))))) * ((1 : K) + ((t * (((-(1 : K)) + ((2 : K) * xB)) + (ksqrt ((1 : K) + eps2)))) / (pt.Q2 * ((1 : K) + (ksqrt ((1 : K) + eps2))))))))) * pt.in1polarization) / (pt.Q2 * (kpow ((1 : K) + eps2) (2.5 : K))))

def BM10ex.CCALINTLPV_im0_eff0 (c : Consts) (m : CFFs) (pt : Pt) : K :=
  let CFFH : Cx K := (Cx.mk m.ReH m.ImH)
  let CFFE : Cx K := (Cx.mk m.ReE m.ImE)
  let CFFHt : Cx K := (Cx.mk m.ReHt m.ImHt)
  let CFFEt : Cx K := (Cx.mk m.ReEt m.ImEt)
  let xB__ : K := pt.xB
  let Q2__ : K := pt.Q2
  let t__ : K := pt.t
  let y__ : K := pt.y
  let eps2__ : K := pt.eps2
  let xB : K := xB__
  let Q2 : K := Q2__
  let t : K := t__
  let y : K := y__
  let eps2 : K := eps2__
  let res : Cx K := (Cx.smul ((xB / (((2 : K) - xB) + ((t * xB) / pt.Q2))) * (m.F1 + m.F2)) (CFFH + (Cx.smul ((xB / (2 : K)) * ((1 : K) - (t / pt.Q2))) CFFE)))
  res.re

def BM10ex.CINTLPA110 (c : Consts) (m : CFFs) (pt : Pt) : K :=
  let xB__ : K := pt.xB
  let Q2__ : K := pt.Q2
  let t__ : K := pt.t
  let y__ : K := pt.y
  let eps2__ : K := pt.eps2
  let xB : K := xB__
  let Q2 : K := Q2__
  let t : K := t__
  let y : K := y__
  let eps2 : K := eps2__
  (((((((8 : K) * t) * xB) * y) * (((pt.tK2 * (((2 : K) - y) ^ (2 : Nat))) / pt.Q2) + ((((((1 : K) - ((t * ((1 : K) - ((2 : K) * xB))) / pt.Q2)) * (((1 : K) - y) - (((y ^ (2 : Nat)) * eps2) / (4 : K)))) * ((1 : K) + (ksqrt ((1 : K) + eps2)))) * ((1 : K) + ((t * (((-(1 : K)) + ((2 : K) * xB)) + (ksqrt ((1 : K) + eps2)))) / (pt.Q2 * ((1 : K) + (ksqrt ((1 : K) + eps2))))))) / (2 : K)))) * pt.in1polarization) / (pt.Q2 * (kpow ((1 : K) + eps2) (2.5 : K))))

def BM10ex.CCALINTLPA_im0_eff0 (c : Consts) (m : CFFs) (pt : Pt) : K :=
  let CFFH : Cx K := (Cx.mk m.ReH m.ImH)
  let CFFE : Cx K := (Cx.mk m.ReE m.ImE)
  let CFFHt : Cx K := (Cx.mk m.ReHt m.ImHt)
  let CFFEt : Cx K := (Cx.mk m.ReEt m.ImEt)
  let xB__ : K := pt.xB
  let Q2__ : K := pt.Q2
  let t__ : K := pt.t
  let y__ : K := pt.y
  let eps2__ : K := pt.eps2
  let xB : K := xB__
  let Q2 : K := Q2__
  let t : K := t__
  let y : K := y__
  let eps2 : K := eps2__
  let res : Cx K := (Cx.smul ((xB / (((2 : K) - xB) + ((t * xB) / pt.Q2))) * (m.F1 + m.F2)) ((Cx.smul ((1 : K) + ((((2 : K) * c.Mp2) * xB) / pt.Q2)) CFFHt) + (Cx.smul (xB / (2 : K)) CFFEt)))
  res.re

def BM10ex.CINTLP010 (c : Consts) (m : CFFs) (pt : Pt) : K :=
  let xB__ : K := pt.xB
  let Q2__ : K := pt.Q2
  let t__ : K := pt.t
  let y__ : K := pt.y
  let eps2__ : K := pt.eps2
  let xB : K := xB__
  let Q2 : K := Q2__
  let t : K := t__
  let y : K := y__
  let eps2 : K := eps2__
  (((((((((8 : K) * (ksqrt (2 : K))) * pt.K_) * ((1 : K) - xB)) * y) * (ksqrt (((1 : K) - y) - (((y ^ (2 : Nat)) * eps2) / (4 : K))))) * pt.in1polarization) / (((1 : K) + eps2) ^ (2 : Nat))) * (t / pt.Q2))

def BM10ex.CCALINTLP_im0_eff1 (c : Consts) (m : CFFs) (pt : Pt) : K :=
  let CFFH : Cx K := (Cx.mk m.ReHeff m.ImHeff)
  let CFFE : Cx K := (Cx.mk m.ReEeff m.ImEeff)
  let CFFHt : Cx K := (Cx.mk m.ReHteff m.ImHteff)
  let CFFEt : Cx K := (Cx.mk m.ReEteff m.ImEteff)
  let xB__ : K := pt.xB
  let Q2__ : K := pt.Q2
  let t__ : K := pt.t
  let y__ : K := pt.y
  let eps2__ : K := pt.eps2
  let xB : K := xB__
  let Q2 : K := Q2__
  let t : K := t__
  let y : K := y__
  let eps2 : K := eps2__
  let res : Cx K := ((((Cx.smul ((xB / (((2 : K) - xB) + ((t * xB) / pt.Q2))) * (m.F1 + m.F2)) (CFFH + (Cx.smul ((xB / (2 : K)) * ((1 : K) - (t / pt.Q2))) CFFE))) + (Cx.smul (((1 : K) + (((c.Mp2 / pt.Q2) * (((2 : K) * (xB ^ (2 : Nat))) / (((2 : K) - xB) + ((t * xB) / pt.Q2)))) * ((3 : K) + (t / pt.Q2)))) * m.F1) CFFHt)) - (Cx.smul (((t / pt.Q2) * ((xB * ((1 : K) - ((2 : K) * xB))) / (((2 : K) - xB) + ((t * xB) / pt.Q2)))) * m.F2) CFFHt)) - (Cx.smul ((xB / (((2 : K) - xB) + ((t * xB) / pt.Q2))) * ((((xB / (2 : K)) * ((1 : K) - (t / pt.Q2))) * m.F1) + ((t / ((4 : K) * c.Mp2)) * m.F2))) CFFEt))
  res.re

def BM10ex.CINTLPV010 (c : Consts) (m : CFFs) (pt : Pt) : K :=
  let xB__ : K := pt.xB
  let Q2__ : K := pt.Q2
  let t__ : K := pt.t
  let y__ : K := pt.y
  let eps2__ : K := pt.eps2
  let xB : K := xB__
  let Q2 : K := Q2__
  let t : K := t__
  let y : K := y__
  let eps2 : K := eps2__
  (((((((((-(8 : K)) * (ksqrt (2 : K))) * pt.K_) * t) * y) * ((-xB) + ((t * ((1 : K) - ((2 : K) * xB))) / pt.Q2))) * (ksqrt (((1 : K) - y) - (((y ^ (2 : Nat)) * eps2) / (4 : K))))) * pt.in1polarization) / (pt.Q2 * (((1 : K) + eps2) ^ (2 : Nat))))

def BM10ex.CCALINTLPV_im0_eff1 (c : Consts) (m : CFFs) (pt : Pt) : K :=
  let CFFH : Cx K := (Cx.mk m.ReHeff m.ImHeff)
  let CFFE : Cx K := (Cx.mk m.ReEeff m.ImEeff)
  let CFFHt : Cx K := (Cx.mk m.ReHteff m.ImHteff)
  let CFFEt : Cx K := (Cx.mk m.ReEteff m.ImEteff)
  let xB__ : K := pt.xB
  let Q2__ : K := pt.Q2
  let t__ : K := pt.t
  let y__ : K := pt.y
  let eps2__ : K := pt.eps2
  let xB : K := xB__
  let Q2 : K := Q2__
  let t : K := t__
  let y : K := y__
  let eps2 : K := eps2__
  let res : Cx K := (Cx.smul ((xB / (((2 : K) - xB) + ((t * xB) / pt.Q2))) * (m.F1 + m.F2)) (CFFH + (Cx.smul ((xB / (2 : K)) * ((1 : K) - (t / pt.Q2))) CFFE)))
  res.re

def BM10ex.CINTLPA010 (c : Consts) (m : CFFs) (pt : Pt) : K :=
  let xB__ : K := pt.xB
  let Q2__ : K := pt.Q2
  let t__ : K := pt.t
  let y__ : K := pt.y
  let eps2__ : K := pt.eps2
  let xB : K := xB__
  let Q2 : K := Q2__
  let t : K := t__
  let y : K := y__
  let eps2 : K := eps2__
  ((((((((((-(8 : K)) * (ksqrt (2 : K))) * pt.K_) * t) * xB) * y) * ((1 : K) + (t / pt.Q2))) * (ksqrt (((1 : K) - y) - (((y ^ (2 : Nat)) * eps2) / (4 : K))))) * pt.in1polarization) / (pt.Q2 * (((1 : K) + eps2) ^ (2 : Nat))))

def BM10ex.cINTLP_n0 (c : Consts) (m : CFFs) (pt : Pt) : K :=
  (((((BM10ex.CINTLP110 c m pt) * (BM10ex.CCALINTLP_im0_eff0 c m pt)) + ((BM10ex.CINTLPV110 c m pt) * (BM10ex.CCALINTLPV_im0_eff0 c m pt))) + ((BM10ex.CINTLPA110 c m pt) * (BM10ex.CCALINTLPA_im0_eff0 c m pt))) + (((((ksqrt (2 : K)) / (((2 : K) - pt.xB) + ((pt.xB * pt.t) / pt.Q2))) * pt.tK) / (ksqrt pt.Q2)) * ((((BM10ex.CINTLP010 c m pt) * (BM10ex.CCALINTLP_im0_eff1 c m pt)) + ((BM10ex.CINTLPV010 c m pt) * (BM10ex.CCALINTLPV_im0_eff1 c m pt))) + ((BM10ex.CINTLPA010 c m pt) * (BM10ex.CCALINTLPV_im0_eff1 c m pt)))))

def BM10ex.cINT0LP (c : Consts) (m : CFFs) (pt : Pt) : K :=
  (BM10ex.cINTLP_n0 c m pt)

def BM10ex.CINTLP111 (c : Consts) (m : CFFs) (pt : Pt) : K :=
  let xB__ : K := pt.xB
  let Q2__ : K := pt.Q2
  let t__ : K := pt.t
  let y__ : K := pt.y
  let eps2__ : K := pt.eps2
  let xB : K := xB__
  let Q2 : K := Q2__
  let t : K := t__
  let y : K := y__
  let eps2 : K := eps2__
  (((-((((((8 : K) * pt.K_) * ((2 : K) - y)) * y) * pt.in1polarization) / (kpow ((1 : K) + eps2) (2.5 : K)))) * ((((1 : K) + (ksqrt ((1 : K) + eps2))) - eps2) / (2 : K))) * ((1 : K) - (((1 : K) - ((((2 : K) * xB) * ((2 : K) + (ksqrt ((1 : K) + eps2)))) / (((1 : K) - eps2) + (ksqrt ((1 : K) + eps2))))) * (t / pt.Q2))))

def BM10ex.CINTLPV111 (c : Consts) (m : CFFs) (pt : Pt) : K :=
  let xB__ : K := pt.xB
  let Q2__ : K := pt.Q2
  let t__ : K := pt.t
  let y__ : K := pt.y
  let eps2__ : K := pt.eps2
  let xB : K := xB__
  let Q2 : K := Q2__
  let t : K := t__
  let y : K := y__
  let eps2 : K := eps2__
  (((((((((8 : K) * pt.K_) * t) * ((2 : K) - y)) * y) * (((2 : K) * ((1 : K) - xB)) + (ksqrt ((1 : K) + eps2)))) * ((1 : K) - (((t - (tmin c Q2 xB eps2)) * (((1 : K) + (((1 : K) - eps2) / (ksqrt ((1 : K) + eps2)))) - (((2 : K) * xB) * ((1 : K) + (((4 : K) * ((1 : K) - xB)) / (ksqrt ((1 : K) + eps2))))))) / (((2 : K) * pt.Q2) * (((2 : K) * ((1 : K) - xB)) + (ksqrt ((1 : K) + eps2))))))) * pt.in1polarization) / (pt.Q2 * (((1 : K) + eps2) ^ (2 : Nat))))

def BM10ex.CINTLPA111 (c : Consts) (m : CFFs) (pt : Pt) : K :=
  let xB__ : K := pt.xB
  let Q2__ : K := pt.Q2
  let t__ : K := pt.t
  let y__ : K := pt.y
  let eps2__ : K := pt.eps2
  let xB : K := xB__
  let Q2 : K := Q2__
  let t : K := t__
  let y : K := y__
  let eps2 : K := eps2__
  (((((((((16 : K) * pt.K_) * t) * xB) * ((2 : K) - y)) * y) * ((1 : K) - ((t * ((1 : K) - ((2 : K) * xB))) / pt.Q2))) * pt.in1polarization) / (pt.Q2 * (kpow ((1 : K) + eps2) (2.5 : K))))

def BM10ex.CINTLP011 (c : Consts) (m : CFFs) (pt : Pt) : K :=
  let xB__ : K := pt.xB
  let Q2__ : K := pt.Q2
  let t__ : K := pt.t
  let y__ : K := pt.y
  let eps2__ : K := pt.eps2
  let xB : K := xB__
  let Q2 : K := Q2__
  let t : K := t__
  let y : K := y__
  let eps2 : K := eps2__
  ((-(((((((8 : K) * (ksqrt (2 : K))) * ((2 : K) - y)) * y) * (ksqrt (((1 : K) - y) - (((y ^ (2 : Nat)) * eps2) / (4 : K))))) * pt.in1polarization) / (((1 : K) + eps2) ^ (2 : Nat)))) * (pt.tK2 / pt.Q2))

def BM10ex.CINTLPV011 (c : Consts) (m : CFFs) (pt : Pt) : K :=
  let xB__ : K := pt.xB
  let Q2__ : K := pt.Q2
  let t__ : K := pt.t
  let y__ : K := pt.y
  let eps2__ : K := pt.eps2
  let xB : K := xB__
  let Q2 : K := Q2__
  let t : K := t__
  let y : K := y__
  let eps2 : K := eps2__
  (((((((((8 : K) * (ksqrt (2 : K))) * t) * pt.tK2) * ((2 : K) - y)) * y) * (ksqrt (((1 : K) - y) - (((y ^ (2 : Nat)) * eps2) / (4 : K))))) * pt.in1polarization) / ((pt.Q2 ^ (2 : Nat)) * (((1 : K) + eps2) ^ (2 : Nat))))

def BM10ex.CINTLPA011 (c : Consts) (m : CFFs) (pt : Pt) : K :=
  let xB__ : K := pt.xB
  let Q2__ : K := pt.Q2
  let t__ : K := pt.t
  let y__ : K := pt.y
  let eps2__ : K := pt.eps2
  let xB : K := xB__
  let Q2 : K := Q2__
  let t : K := t__
  let y : K := y__
  let eps2 : K := eps2__
  (0 : K)

def BM10ex.cINTLP_n1 (c : Consts) (m : CFFs) (pt : Pt) : K :=
  (((((BM10ex.CINTLP111 c m pt) * (BM10ex.CCALINTLP_im0_eff0 c m pt)) + ((BM10ex.CINTLPV111 c m pt) * (BM10ex.CCALINTLPV_im0_eff0 c m pt))) + ((BM10ex.CINTLPA111 c m pt) * (BM10ex.CCALINTLPA_im0_eff0 c m pt))) + (((((ksqrt (2 : K)) / (((2 : K) - pt.xB) + ((pt.xB * pt.t) / pt.Q2))) * pt.tK) / (ksqrt pt.Q2)) * ((((BM10ex.CINTLP011 c m pt) * (BM10ex.CCALINTLP_im0_eff1 c m pt)) + ((BM10ex.CINTLPV011 c m pt) * (BM10ex.CCALINTLPV_im0_eff1 c m pt))) + ((BM10ex.CINTLPA011 c m pt) * (BM10ex.CCALINTLPV_im0_eff1 c m pt)))))

def BM10ex.cINT1LP (c : Consts) (m : CFFs) (pt : Pt) : K :=
  (BM10ex.cINTLP_n1 c m pt)

def BM10ex.CINTLP112 (c : Consts) (m : CFFs) (pt : Pt) : K :=
  let xB__ : K := pt.xB
  let Q2__ : K := pt.Q2
  let t__ : K := pt.t
  let y__ : K := pt.y
  let eps2__ : K := pt.eps2
  let xB : K := xB__
  let Q2 : K := Q2__
  let t : K := t__
  let y : K := y__
  let eps2 : K := eps2__
  (((-(((((4 : K) * (((1 : K) - y) - (((y ^ (2 : Nat)) * eps2) / (4 : K)))) * y) * pt.in1polarization) / (kpow ((1 : K) + eps2) (2.5 : K)))) * (((xB * t) / pt.Q2) - (((1 : K) - (t / pt.Q2)) * (eps2 / (2 : K))))) * (((1 : K) - (ksqrt ((1 : K) + eps2))) - ((((1 : K) + (ksqrt ((1 : K) + eps2))) - ((2 : K) * xB)) * (t / pt.Q2))))

def BM10ex.CINTLPV112 (c : Consts) (m : CFFs) (pt : Pt) : K :=
  let xB__ : K := pt.xB
  let Q2__ : K := pt.Q2
  let t__ : K := pt.t
  let y__ : K := pt.y
  let eps2__ : K := pt.eps2
  let xB : K := xB__
  let Q2 : K := Q2__
  let t : K := t__
  let y : K := y__
  let eps2 : K := eps2__
  (((((((((-(2 : K)) * t) * y) * (((4 : K) - ((2 : K) * xB)) + ((3 : K) * eps2))) * (((1 : K) - y) - (((y ^ (2 : Nat)) * eps2) / (4 : K)))) * ((1 : K) + ((t * ((((4 : K) * ((1 : K) - xB)) * xB) + eps2)) / (pt.Q2 * (((4 : K) - ((2 : K) * xB)) + ((3 : K) * eps2)))))) * (((-(1 : K)) + (ksqrt ((1 : K) + eps2))) + ((t * (((1 : K) - ((2 : K) * xB)) + (ksqrt ((1 : K) + eps2)))) / pt.Q2))) * pt.in1polarization) / (pt.Q2 * (kpow ((1 : K) + eps2) (2.5 : K))))

def BM10ex.CINTLPA112 (c : Consts) (m : CFFs) (pt : Pt) : K :=
  let xB__ : K := pt.xB
  let Q2__ : K := pt.Q2
  let t__ : K := pt.t
  let y__ : K := pt.y
  let eps2__ : K := pt.eps2
  let xB : K := xB__
  let Q2 : K := Q2__
  let t : K := t__
  let y : K := y__
  let eps2 : K := eps2__
  (((((((((4 : K) * t) * xB) * y) * ((1 : K) - ((t * ((1 : K) - ((2 : K) * xB))) / pt.Q2))) * (((1 : K) - y) - (((y ^ (2 : Nat)) * eps2) / (4 : K)))) * (((1 : K) - (ksqrt ((1 : K) + eps2))) - ((t * (((1 : K) - ((2 : K) * xB)) + (ksqrt ((1 : K) + eps2)))) / pt.Q2))) * pt.in1polarization) / (pt.Q2 * (kpow ((1 : K) + eps2) (2.5 : K))))

def BM10ex.CINTLP012 (c : Consts) (m : CFFs) (pt : Pt) : K :=
  let xB__ : K := pt.xB
  let Q2__ : K := pt.Q2
  let t__ : K := pt.t
  let y__ : K := pt.y
  let eps2__ : K := pt.eps2
  let xB : K := xB__
  let Q2 : K := Q2__
  let t : K := t__
  let y : K := y__
  let eps2 : K := eps2__
  ((-(((((((8 : K) * (ksqrt (2 : K))) * pt.K_) * y) * (ksqrt (((1 : K) - y) - (((y ^ (2 : Nat)) * eps2) / (4 : K))))) * pt.in1polarization) / (((1 : K) + eps2) ^ (2 : Nat)))) * ((1 : K) + ((xB * t) / pt.Q2)))

def BM10ex.CINTLPV012 (c : Consts) (m : CFFs) (pt : Pt) : K :=
  let xB__ : K := pt.xB
  let Q2__ : K := pt.Q2
  let t__ : K := pt.t
  let y__ : K := pt.y
  let eps2__ : K := pt.eps2
  let xB : K := xB__
  let Q2 : K := Q2__
  let t : K := t__
  let y : K := y__
  let eps2 : K := eps2__
  (((((((((8 : K) * (ksqrt (2 : K))) * pt.K_) * t) * ((1 : K) - xB)) * y) * (ksqrt (((1 : K) - y) - (((y ^ (2 : Nat)) * eps2) / (4 : K))))) * pt.in1polarization) / (pt.Q2 * (((1 : K) + eps2) ^ (2 : Nat))))

def BM10ex.CINTLPA012 (c : Consts) (m : CFFs) (pt : Pt) : K :=
  let xB__ : K := pt.xB
  let Q2__ : K := pt.Q2
  let t__ : K := pt.t
  let y__ : K := pt.y
  let eps2__ : K := pt.eps2
  let xB : K := xB__
  let Q2 : K := Q2__
  let t : K := t__
  let y : K := y__
  let eps2 : K := eps2__
  ((((((((((8 : K) * (ksqrt (2 : K))) * pt.K_) * t) * xB) * y) * ((1 : K) + (t / pt.Q2))) * (ksqrt (((1 : K) - y) - (((y ^ (2 : Nat)) * eps2) / (4 : K))))) * pt.in1polarization) / (pt.Q2 * (((1 : K) + eps2) ^ (2 : Nat))))

def BM10ex.cINTLP_n2 (c : Consts) (m : CFFs) (pt : Pt) : K :=
  (((((BM10ex.CINTLP112 c m pt) * (BM10ex.CCALINTLP_im0_eff0 c m pt)) + ((BM10ex.CINTLPV112 c m pt) * (BM10ex.CCALINTLPV_im0_eff0 c m pt))) + ((BM10ex.CINTLPA112 c m pt) * (BM10ex.CCALINTLPA_im0_eff0 c m pt))) + (((((ksqrt (2 : K)) / (((2 : K) - pt.xB) + ((pt.xB * pt.t) / pt.Q2))) * pt.tK) / (ksqrt pt.Q2)) * ((((BM10ex.CINTLP012 c m pt) * (BM10ex.CCALINTLP_im0_eff1 c m pt)) + ((BM10ex.CINTLPV012 c m pt) * (BM10ex.CCALINTLPV_im0_eff1 c m pt))) + ((BM10ex.CINTLPA012 c m pt) * (BM10ex.CCALINTLPV_im0_eff1 c m pt)))))

def BM10ex.cINT2LP (c : Consts) (m : CFFs) (pt : Pt) : K :=
  (BM10ex.cINTLP_n2 c m pt)

def BM10ex.CINTLP113 (c : Consts) (m : CFFs) (pt : Pt) : K :=
  let xB__ : K := pt.xB
  let Q2__ : K := pt.Q2
  let t__ : K := pt.t
  let y__ : K := pt.y
  let eps2__ : K := pt.eps2
  let xB : K := xB__
  let Q2 : K := Q2__
  let t : K := t__
  let y : K := y__
  let eps2 : K := eps2__
  (0 : K)

def BM10ex.CINTLPV113 (c : Consts) (m : CFFs) (pt : Pt) : K :=
  let xB__ : K := pt.xB
  let Q2__ : K := pt.Q2
  let t__ : K := pt.t
  let y__ : K := pt.y
  let eps2__ : K := pt.eps2
  let xB : K := xB__
  let Q2 : K := Q2__
  let t : K := t__
  let y : K := y__
  let eps2 : K := eps2__
  (0 : K)

def BM10ex.CINTLPA113 (c : Consts) (m : CFFs) (pt : Pt) : K :=
  let xB__ : K := pt.xB
  let Q2__ : K := pt.Q2
  let t__ : K := pt.t
  let y__ : K := pt.y
  let eps2__ : K := pt.eps2
  let xB : K := xB__
  let Q2 : K := Q2__
  let t : K := t__
  let y : K := y__
  let eps2 : K := eps2__
  (0 : K)

def BM10ex.CINTLP013 (c : Consts) (m : CFFs) (pt : Pt) : K :=
  let xB__ : K := pt.xB
  let Q2__ : K := pt.Q2
  let t__ : K := pt.t
  let y__ : K := pt.y
  let eps2__ : K := pt.eps2
  let xB : K := xB__
  let Q2 : K := Q2__
  let t : K := t__
  let y : K := y__
  let eps2 : K := eps2__
  (0 : K)

def BM10ex.CINTLPV013 (c : Consts) (m : CFFs) (pt : Pt) : K :=
  let xB__ : K := pt.xB
  let Q2__ : K := pt.Q2
  let t__ : K := pt.t
  let y__ : K := pt.y
  let eps2__ : K := pt.eps2
  let xB : K := xB__
  let Q2 : K := Q2__
  let t : K := t__
  let y : K := y__
  let eps2 : K := eps2__
  (0 : K)

def BM10ex.CINTLPA013 (c : Consts) (m : CFFs) (pt : Pt) : K :=
  let xB__ : K := pt.xB
  let Q2__ : K := pt.Q2
  let t__ : K := pt.t
  let y__ : K := pt.y
  let eps2__ : K := pt.eps2
  let xB : K := xB__
  let Q2 : K := Q2__
  let t : K := t__
  let y : K := y__
  let eps2 : K := eps2__
  (0 : K)

def BM10ex.cINTLP_n3 (c : Consts) (m : CFFs) (pt : Pt) : K :=
  (((((BM10ex.CINTLP113 c m pt) * (BM10ex.CCALINTLP_im0_eff0 c m pt)) + ((BM10ex.CINTLPV113 c m pt) * (BM10ex.CCALINTLPV_im0_eff0 c m pt))) + ((BM10ex.CINTLPA113 c m pt) * (BM10ex.CCALINTLPA_im0_eff0 c m pt))) + (((((ksqrt (2 : K)) / (((2 : K) - pt.xB) + ((pt.xB * pt.t) / pt.Q2))) * pt.tK) / (ksqrt pt.Q2)) * ((((BM10ex.CINTLP013 c m pt) * (BM10ex.CCALINTLP_im0_eff1 c m pt)) + ((BM10ex.CINTLPV013 c m pt) * (BM10ex.CCALINTLPV_im0_eff1 c m pt))) + ((BM10ex.CINTLPA013 c m pt) * (BM10ex.CCALINTLPV_im0_eff1 c m pt)))))

def BM10ex.cINT3LP (c : Consts) (m : CFFs) (pt : Pt) : K :=
  (BM10ex.cINTLP_n3 c m pt)

def BM10ex.SINTLP111 (c : Consts) (m : CFFs) (pt : Pt) : K :=
  let xB__ : K := pt.xB
  let Q2__ : K := pt.Q2
  let t__ : K := pt.t
  let y__ : K := pt.y
  let eps2__ : K := pt.eps2
  let xB : K := xB__
  let Q2 : K := Q2__
  let t : K := t__
  let y : K := y__
  let eps2 : K := eps2__
  (((((((8 : K) * pt.K_) * ((((2 : K) - ((2 : K) * y)) + (y ^ (2 : Nat))) + (((y ^ (2 : Nat)) * eps2) / (2 : K)))) / (((1 : K) + eps2) ^ (3 : Nat))) * (((1 : K) + (ksqrt ((1 : K) + eps2))) / (2 : K))) * ((((2 : K) * (ksqrt ((1 : K) + eps2))) - (1 : K)) + ((t / pt.Q2) * ((((1 : K) + (ksqrt ((1 : K) + eps2))) - ((2 : K) * xB)) / ((1 : K) + (ksqrt ((1 : K) + eps2))))))) + (((((8 : K) * pt.K_) * (((1 : K) - y) - (((y ^ (2 : Nat)) * eps2) / (4 : K)))) / (((1 : K) + eps2) ^ (3 : Nat))) * ((((3 : K) * eps2) / (2 : K)) + (((((1 : K) - (ksqrt ((1 : K) + eps2))) - (eps2 / (2 : K))) - (xB * ((3 : K) - (ksqrt ((1 : K) + eps2))))) * (t / pt.Q2)))))

def BM10ex.CCALINTLP_im1_eff0 (c : Consts) (m : CFFs) (pt : Pt) : K :=
  let CFFH : Cx K := (Cx.mk m.ReH m.ImH)
  let CFFE : Cx K := (Cx.mk m.ReE m.ImE)
  let CFFHt : Cx K := (Cx.mk m.ReHt m.ImHt)
  let CFFEt : Cx K := (Cx.mk m.ReEt m.ImEt)
  let xB__ : K := pt.xB
  let Q2__ : K := pt.Q2
  let t__ : K := pt.t
  let y__ : K := pt.y
  let eps2__ : K := pt.eps2
  let xB : K := xB__
  let Q2 : K := Q2__
  let t : K := t__
  let y : K := y__
  let eps2 : K := eps2__
  let res : Cx K := ((((Cx.smul ((xB / (((2 : K) - xB) + ((t * xB) / pt.Q2))) * (m.F1 + m.F2)) (CFFH + (Cx.smul ((xB / (2 : K)) * ((1 : K) - (t / pt.Q2))) CFFE))) + (Cx.smul (((1 : K) + (((c.Mp2 / pt.Q2) * (((2 : K) * (xB ^ (2 : Nat))) / (((2 : K) - xB) + ((t * xB) / pt.Q2)))) * ((3 : K) + (t / pt.Q2)))) * m.F1) CFFHt)) - (Cx.smul (((t / pt.Q2) * ((xB * ((1 : K) - ((2 : K) * xB))) / (((2 : K) - xB) + ((t * xB) / pt.Q2)))) * m.F2) CFFHt)) - (Cx.smul ((xB / (((2 : K) - xB) + ((t * xB) / pt.Q2))) * ((((xB / (2 : K)) * ((1 : K) - (t / pt.Q2))) * m.F1) + ((t / ((4 : K) * c.Mp2)) * m.F2))) CFFEt))
  res.im

def BM10ex.SINTLPV111 (c : Consts) (m : CFFs) (pt : Pt) : K :=
  let xB__ : K := pt.xB
  let Q2__ : K := pt.Q2
  let t__ : K := pt.t
  let y__ : K := pt.y
  let eps2__ : K := pt.eps2
  let xB : K := xB__
  let Q2 : K := Q2__
  let t : K := t__
  let y : K := y__
  let eps2 : K := eps2__
  (((((((8 : K) * pt.K_) * t) * ((((2 : K) - ((2 : K) * y)) + (y ^ (2 : Nat))) + (((y ^ (2 : Nat)) * eps2) / (2 : K)))) * ((1 : K) - ((((t - (tmin c Q2 xB eps2)) * ((1 : K) - ((2 : K) * xB))) * (((1 : K) - ((2 : K) * xB)) + (ksqrt ((1 : K) + eps2)))) / (((2 : K) * pt.Q2) * ((1 : K) + eps2))))) / (pt.Q2 * (((1 : K) + eps2) ^ (2 : Nat)))) + (((((((32 : K) * pt.K_) * t) * (((1 : K) - y) - (((y ^ (2 : Nat)) * eps2) / (4 : K)))) * (((1 : K) + (((5 : K) * eps2) / (8 : K))) - ((xB * ((3 : K) + (ksqrt ((1 : K) + eps2)))) / (4 : K)))) * ((1 : K) - ((t * ((((1 : K) - (eps2 / (2 : K))) - (ksqrt ((1 : K) + eps2))) - (((2 : K) * xB) * (((3 : K) * ((1 : K) - xB)) - (ksqrt ((1 : K) + eps2)))))) / (pt.Q2 * (((4 : K) + (((5 : K) * eps2) / (2 : K))) - (xB * ((3 : K) + (ksqrt ((1 : K) + eps2))))))))) / (pt.Q2 * (((1 : K) + eps2) ^ (3 : Nat)))))

def BM10ex.CCALINTLPV_im1_eff0 (c : Consts) (m : CFFs) (pt : Pt) : K :=
  let CFFH : Cx K := (Cx.mk m.ReH m.ImH)
  let CFFE : Cx K := (Cx.mk m.ReE m.ImE)
  let CFFHt : Cx K := (Cx.mk m.ReHt m.ImHt)
  let CFFEt : Cx K := (Cx.mk m.ReEt m.ImEt)
  let xB__ : K := pt.xB
  let Q2__ : K := pt.Q2
  let t__ : K := pt.t
  let y__ : K := pt.y
  let eps2__ : K := pt.eps2
  let xB : K := xB__
  let Q2 : K := Q2__
  let t : K := t__
  let y : K := y__
  let eps2 : K := eps2__
  let res : Cx K := (Cx.smul ((xB / (((2 : K) - xB) + ((t * xB) / pt.Q2))) * (m.F1 + m.F2)) (CFFH + (Cx.smul ((xB / (2 : K)) * ((1 : K) - (t / pt.Q2))) CFFE)))
  res.im

def BM10ex.SINTLPA111 (c : Consts) (m : CFFs) (pt : Pt) : K :=
  let xB__ : K := pt.xB
  let Q2__ : K := pt.Q2
  let t__ : K := pt.t
  let y__ : K := pt.y
  let eps2__ : K := pt.eps2
  let xB : K := xB__
  let Q2 : K := Q2__
  let t : K := t__
  let y : K := y__
  let eps2 : K := eps2__
  (((((((((8 : K) * pt.K_) * t) * xB) * (((1 : K) - y) - (((y ^ (2 : Nat)) * eps2) / (4 : K)))) * ((3 : K) + (ksqrt ((1 : K) + eps2)))) * ((1 : K) - ((t * (((3 : K) - ((6 : K) * xB)) - (ksqrt ((1 : K) + eps2)))) / (pt.Q2 * ((3 : K) + (ksqrt ((1 : K) + eps2))))))) / (pt.Q2 * (((1 : K) + eps2) ^ (3 : Nat)))) - (((((((8 : K) * pt.K_) * t) * xB) * ((((2 : K) - ((2 : K) * y)) + (y ^ (2 : Nat))) + (((y ^ (2 : Nat)) * eps2) / (2 : K)))) * (((-(1 : K)) + (ksqrt ((1 : K) + eps2))) + ((t * (((1 : K) - ((2 : K) * xB)) + (ksqrt ((1 : K) + eps2)))) / pt.Q2))) / (pt.Q2 * (((1 : K) + eps2) ^ (3 : Nat)))))

def BM10ex.CCALINTLPA_im1_eff0 (c : Consts) (m : CFFs) (pt : Pt) : K :=
  let CFFH : Cx K := (Cx.mk m.ReH m.ImH)
  let CFFE : Cx K := (Cx.mk m.ReE m.ImE)
  let CFFHt : Cx K := (Cx.mk m.ReHt m.ImHt)
  let CFFEt : Cx K := (Cx.mk m.ReEt m.ImEt)
  let xB__ : K := pt.xB
  let Q2__ : K := pt.Q2
  let t__ : K := pt.t
  let y__ : K := pt.y
  let eps2__ : K := pt.eps2
  let xB : K := xB__
  let Q2 : K := Q2__
  let t : K := t__
  let y : K := y__
  let eps2 : K := eps2__
  let res : Cx K := (Cx.smul ((xB / (((2 : K) - xB) + ((t * xB) / pt.Q2))) * (m.F1 + m.F2)) ((Cx.smul ((1 : K) + ((((2 : K) * c.Mp2) * xB) / pt.Q2)) CFFHt) + (Cx.smul (xB / (2 : K)) CFFEt)))
  res.im

def BM10ex.SINTLP011 (c : Consts) (m : CFFs) (pt : Pt) : K :=
  let xB__ : K := pt.xB
  let Q2__ : K := pt.Q2
  let t__ : K := pt.t
  let y__ : K := pt.y
  let eps2__ : K := pt.eps2
  let xB : K := xB__
  let Q2 : K := Q2__
  let t : K := t__
  let y : K := y__
  let eps2 : K := eps2__
  (((((8 : K) * (ksqrt (2 : K))) * (ksqrt (((1 : K) - y) - (((y ^ (2 : Nat)) * eps2) / (4 : K))))) / (kpow ((1 : K) + eps2) (2.5 : K))) * (((pt.tK2 * (((2 : K) - y) ^ (2 : Nat))) / pt.Q2) + ((((1 : K) + (t / pt.Q2)) * (((1 : K) - y) - (((y ^ (2 : Nat)) * eps2) / (4 : K)))) * (((((2 : K) * xB) * t) / pt.Q2) - (((1 : K) - (t / pt.Q2)) * eps2)))))

def BM10ex.CCALINTLP_im1_eff1 (c : Consts) (m : CFFs) (pt : Pt) : K :=
  let CFFH : Cx K := (Cx.mk m.ReHeff m.ImHeff)
  let CFFE : Cx K := (Cx.mk m.ReEeff m.ImEeff)
  let CFFHt : Cx K := (Cx.mk m.ReHteff m.ImHteff)
  let CFFEt : Cx K := (Cx.mk m.ReEteff m.ImEteff)
  let xB__ : K := pt.xB
  let Q2__ : K := pt.Q2
  let t__ : K := pt.t
  let y__ : K := pt.y
  let eps2__ : K := pt.eps2
  let xB : K := xB__
  let Q2 : K := Q2__
  let t : K := t__
  let y : K := y__
  let eps2 : K := eps2__
  let res : Cx K := ((((Cx.smul ((xB / (((2 : K) - xB) + ((t * xB) / pt.Q2))) * (m.F1 + m.F2)) (CFFH + (Cx.smul ((xB / (2 : K)) * ((1 : K) - (t / pt.Q2))) CFFE))) + (Cx.smul (((1 : K) + (((c.Mp2 / pt.Q2) * (((2 : K) * (xB ^ (2 : Nat))) / (((2 : K) - xB) + ((t * xB) / pt.Q2)))) * ((3 : K) + (t / pt.Q2)))) * m.F1) CFFHt)) - (Cx.smul (((t / pt.Q2) * ((xB * ((1 : K) - ((2 : K) * xB))) / (((2 : K) - xB) + ((t * xB) / pt.Q2)))) * m.F2) CFFHt)) - (Cx.smul ((xB / (((2 : K) - xB) + ((t * xB) / pt.Q2))) * ((((xB / (2 : K)) * ((1 : K) - (t / pt.Q2))) * m.F1) + ((t / ((4 : K) * c.Mp2)) * m.F2))) CFFEt))
  res.im

def BM10ex.SINTLPV011 (c : Consts) (m : CFFs) (pt : Pt) : K :=
  let xB__ : K := pt.xB
  let Q2__ : K := pt.Q2
  let t__ : K := pt.t
  let y__ : K := pt.y
  let eps2__ : K := pt.eps2
  let xB : K := xB__
  let Q2 : K := Q2__
  let t : K := t__
  let y : K := y__
  let eps2 : K := eps2__
  ((((((-(8 : K)) * (ksqrt (2 : K))) * t) * (ksqrt (((1 : K) - y) - (((y ^ (2 : Nat)) * eps2) / (4 : K))))) * (((pt.tK2 * (((2 : K) - y) ^ (2 : Nat))) / pt.Q2) + ((((1 : K) + (t / pt.Q2)) * (((1 : K) - y) - (((y ^ (2 : Nat)) * eps2) / (4 : K)))) * ((((4 : K) - ((2 : K) * xB)) + ((3 : K) * eps2)) + ((t * ((((4 : K) * xB) - ((4 : K) * (xB ^ (2 : Nat)))) + eps2)) / pt.Q2))))) / (pt.Q2 * (kpow ((1 : K) + eps2) (2.5 : K))))

def BM10ex.CCALINTLPV_im1_eff1 (c : Consts) (m : CFFs) (pt : Pt) : K :=
  let CFFH : Cx K := (Cx.mk m.ReHeff m.ImHeff)
  let CFFE : Cx K := (Cx.mk m.ReEeff m.ImEeff)
  let CFFHt : Cx K := (Cx.mk m.ReHteff m.ImHteff)
  let CFFEt : Cx K := (Cx.mk m.ReEteff m.ImEteff)
  let xB__ : K := pt.xB
  let Q2__ : K := pt.Q2
  let t__ : K := pt.t
  let y__ : K := pt.y
  let eps2__ : K := pt.eps2
  let xB : K := xB__
  let Q2 : K := Q2__
  let t : K := t__
  let y : K := y__
  let eps2 : K := eps2__
  let res : Cx K := (Cx.smul ((xB / (((2 : K) - xB) + ((t * xB) / pt.Q2))) * (m.F1 + m.F2)) (CFFH + (Cx.smul ((xB / (2 : K)) * ((1 : K) - (t / pt.Q2))) CFFE)))
  res.im

def BM10ex.SINTLPA011 (c : Consts) (m : CFFs) (pt : Pt) : K :=
  let xB__ : K := pt.xB
  let Q2__ : K := pt.Q2
  let t__ : K := pt.t
  let y__ : K := pt.y
  let eps2__ : K := pt.eps2
  let xB : K := xB__
  let Q2 : K := Q2__
  let t : K := t__
  let y : K := y__
  let eps2 : K := eps2__
  ((((((((-(16 : K)) * (ksqrt (2 : K))) * t) * xB) * ((1 : K) + (t / pt.Q2))) * ((1 : K) - ((t * ((1 : K) - ((2 : K) * xB))) / pt.Q2))) * (kpow (((1 : K) - y) - (((y ^ (2 : Nat)) * eps2) / (4 : K))) (1.5 : K))) / (pt.Q2 * (kpow ((1 : K) + eps2) (2.5 : K))))

def BM10ex.sINTLP_n1 (c : Consts) (m : CFFs) (pt : Pt) : K :=
  (((((BM10ex.SINTLP111 c m pt) * (BM10ex.CCALINTLP_im1_eff0 c m pt)) + ((BM10ex.SINTLPV111 c m pt) * (BM10ex.CCALINTLPV_im1_eff0 c m pt))) + ((BM10ex.SINTLPA111 c m pt) * (BM10ex.CCALINTLPA_im1_eff0 c m pt))) + (((((ksqrt (2 : K)) / (((2 : K) - pt.xB) + ((pt.xB * pt.t) / pt.Q2))) * pt.tK) / (ksqrt pt.Q2)) * ((((BM10ex.SINTLP011 c m pt) * (BM10ex.CCALINTLP_im1_eff1 c m pt)) + ((BM10ex.SINTLPV011 c m pt) * (BM10ex.CCALINTLPV_im1_eff1 c m pt))) + ((BM10ex.SINTLPA011 c m pt) * (BM10ex.CCALINTLPV_im1_eff1 c m pt)))))

def BM10ex.sINT1LP (c : Consts) (m : CFFs) (pt : Pt) : K :=
  (BM10ex.sINTLP_n1 c m pt)

def BM10ex.SINTLP112 (c : Consts) (m : CFFs) (pt : Pt) : K :=
  let xB__ : K := pt.xB
  let Q2__ : K := pt.Q2
  let t__ : K := pt.t
  let y__ : K := pt.y
  let eps2__ : K := pt.eps2
  let xB : K := xB__
  let Q2 : K := Q2__
  let t : K := t__
  let y : K := y__
  let eps2 : K := eps2__
  (((((-(8 : K)) * ((2 : K) - y)) * (((1 : K) - y) - (((y ^ (2 : Nat)) * eps2) / (4 : K)))) / (kpow ((1 : K) + eps2) (2.5 : K))) * ((((2 : K) * pt.tK2) / (pt.Q2 * (ksqrt ((1 : K) + eps2)))) + ((((((1 : K) + (ksqrt ((1 : K) + eps2))) - ((2 : K) * xB)) / (2 : K)) * (((1 : K) + (ksqrt ((1 : K) + eps2))) + ((xB * t) / pt.Q2))) * ((t - (tmin c Q2 xB eps2)) / pt.Q2))))

def BM10ex.SINTLPV112 (c : Consts) (m : CFFs) (pt : Pt) : K :=
  let xB__ : K := pt.xB
  let Q2__ : K := pt.Q2
  let t__ : K := pt.t
  let y__ : K := pt.y
  let eps2__ : K := pt.eps2
  let xB : K := xB__
  let Q2 : K := Q2__
  let t : K := t__
  let y : K := y__
  let eps2 : K := eps2__
  ((((((4 : K) * t) * ((2 : K) - y)) * (((1 : K) - y) - (((y ^ (2 : Nat)) * eps2) / (4 : K)))) * (((((4 : K) * pt.tK2) * ((1 : K) - ((2 : K) * xB))) / (pt.Q2 * (ksqrt ((1 : K) + eps2)))) - (((t - (tmin c Q2 xB eps2)) * ((((-(2 : K)) * (xB ^ (2 : Nat))) + eps2) + (xB * ((3 : K) - (ksqrt ((1 : K) + eps2)))))) / pt.Q2))) / (pt.Q2 * (kpow ((1 : K) + eps2) (2.5 : K))))

def BM10ex.SINTLPA112 (c : Consts) (m : CFFs) (pt : Pt) : K :=
  let xB__ : K := pt.xB
  let Q2__ : K := pt.Q2
  let t__ : K := pt.t
  let y__ : K := pt.y
  let eps2__ : K := pt.eps2
  let xB : K := xB__
  let Q2 : K := Q2__
  let t : K := t__
  let y : K := y__
  let eps2 : K := eps2__
  (((((((8 : K) * t) * xB) * ((2 : K) - y)) * (((1 : K) - y) - (((y ^ (2 : Nat)) * eps2) / (4 : K)))) * ((((2 : K) * pt.tK2) / pt.Q2) - ((((t - (tmin c Q2 xB eps2)) * ((1 : K) - ((t * ((1 : K) - ((2 : K) * xB))) / pt.Q2))) * (((1 : K) - ((2 : K) * xB)) + (ksqrt ((1 : K) + eps2)))) / ((2 : K) * pt.Q2)))) / (pt.Q2 * (((1 : K) + eps2) ^ (3 : Nat))))

def BM10ex.SINTLP012 (c : Consts) (m : CFFs) (pt : Pt) : K :=
  let xB__ : K := pt.xB
  let Q2__ : K := pt.Q2
  let t__ : K := pt.t
  let y__ : K := pt.y
  let eps2__ : K := pt.eps2
  let xB : K := xB__
  let Q2 : K := Q2__
  let t : K := t__
  let y : K := y__
  let eps2 : K := eps2__
  (((((((8 : K) * (ksqrt (2 : K))) * pt.K_) * ((2 : K) - y)) * (ksqrt (((1 : K) - y) - (((y ^ (2 : Nat)) * eps2) / (4 : K))))) / (kpow ((1 : K) + eps2) (2.5 : K))) * ((1 : K) + ((xB * t) / pt.Q2)))

def BM10ex.SINTLPV012 (c : Consts) (m : CFFs) (pt : Pt) : K :=
  let xB__ : K := pt.xB
  let Q2__ : K := pt.Q2
  let t__ : K := pt.t
  let y__ : K := pt.y
  let eps2__ : K := pt.eps2
  let xB : K := xB__
  let Q2 : K := Q2__
  let t : K := t__
  let y : K := y__
  let eps2 : K := eps2__
  ((((((((-(8 : K)) * (ksqrt (2 : K))) * pt.K_) * t) * ((1 : K) - xB)) * ((2 : K) - y)) * (ksqrt (((1 : K) - y) - (((y ^ (2 : Nat)) * eps2) / (4 : K))))) / (pt.Q2 * (kpow ((1 : K) + eps2) (2.5 : K))))

def BM10ex.SINTLPA012 (c : Consts) (m : CFFs) (pt : Pt) : K :=
  let xB__ : K := pt.xB
  let Q2__ : K := pt.Q2
  let t__ : K := pt.t
  let y__ : K := pt.y
  let eps2__ : K := pt.eps2
  let xB : K := xB__
  let Q2 : K := Q2__
  let t : K := t__
  let y : K := y__
  let eps2 : K := eps2__
  (((((((((-(8 : K)) * (ksqrt (2 : K))) * pt.K_) * t) * xB) * ((2 : K) - y)) * ((1 : K) + (t / pt.Q2))) * (ksqrt (((1 : K) - y) - (((y ^ (2 : Nat)) * eps2) / (4 : K))))) / (pt.Q2 * (kpow ((1 : K) + eps2) (2.5 : K))))

def BM10ex.sINTLP_n2 (c : Consts) (m : CFFs) (pt : Pt) : K :=
  (((((BM10ex.SINTLP112 c m pt) * (BM10ex.CCALINTLP_im1_eff0 c m pt)) + ((BM10ex.SINTLPV112 c m pt) * (BM10ex.CCALINTLPV_im1_eff0 c m pt))) + ((BM10ex.SINTLPA112 c m pt) * (BM10ex.CCALINTLPA_im1_eff0 c m pt))) + (((((ksqrt (2 : K)) / (((2 : K) - pt.xB) + ((pt.xB * pt.t) / pt.Q2))) * pt.tK) / (ksqrt pt.Q2)) * ((((BM10ex.SINTLP012 c m pt) * (BM10ex.CCALINTLP_im1_eff1 c m pt)) + ((BM10ex.SINTLPV012 c m pt) * (BM10ex.CCALINTLPV_im1_eff1 c m pt))) + ((BM10ex.SINTLPA012 c m pt) * (BM10ex.CCALINTLPV_im1_eff1 c m pt)))))

def BM10ex.sINT2LP (c : Consts) (m : CFFs) (pt : Pt) : K :=
  (BM10ex.sINTLP_n2 c m pt)

def BM10ex.SINTLP113 (c : Consts) (m : CFFs) (pt : Pt) : K :=
  let xB__ : K := pt.xB
  let Q2__ : K := pt.Q2
  let t__ : K := pt.t
  let y__ : K := pt.y
  let eps2__ : K := pt.eps2
  let xB : K := xB__
  let Q2 : K := Q2__
  let t : K := t__
  let y : K := y__
  let eps2 : K := eps2__
  (((((((-(8 : K)) * pt.K_) * (((1 : K) - y) - (((y ^ (2 : Nat)) * eps2) / (4 : K)))) / (((1 : K) + eps2) ^ (3 : Nat))) * ((((1 : K) + (ksqrt ((1 : K) + eps2))) - ((2 : K) * xB)) / ((2 : K) * ((ksqrt ((1 : K) + eps2)) + (1 : K))))) * eps2) * ((t - (tmin c Q2 xB eps2)) / pt.Q2))

def BM10ex.SINTLPV113 (c : Consts) (m : CFFs) (pt : Pt) : K :=
  let xB__ : K := pt.xB
  let Q2__ : K := pt.Q2
  let t__ : K := pt.t
  let y__ : K := pt.y
  let eps2__ : K := pt.eps2
  let xB : K := xB__
  let Q2 : K := Q2__
  let t : K := t__
  let y : K := y__
  let eps2 : K := eps2__
  (((((((16 : K) * pt.K_) * t) * (t - (tmin c Q2 xB eps2))) * ((((1 : K) - xB) * xB) + (eps2 / (4 : K)))) * (((1 : K) - y) - (((y ^ (2 : Nat)) * eps2) / (4 : K)))) / ((pt.Q2 ^ (2 : Nat)) * (((1 : K) + eps2) ^ (3 : Nat))))

def BM10ex.SINTLPA113 (c : Consts) (m : CFFs) (pt : Pt) : K :=
  let xB__ : K := pt.xB
  let Q2__ : K := pt.Q2
  let t__ : K := pt.t
  let y__ : K := pt.y
  let eps2__ : K := pt.eps2
  let xB : K := xB__
  let Q2 : K := Q2__
  let t : K := t__
  let y : K := y__
  let eps2 : K := eps2__
  ((((((((-(8 : K)) * pt.K_) * t) * (t - (tmin c Q2 xB eps2))) * xB) * (((1 : K) - y) - (((y ^ (2 : Nat)) * eps2) / (4 : K)))) * (((1 : K) - ((2 : K) * xB)) + (ksqrt ((1 : K) + eps2)))) / ((pt.Q2 ^ (2 : Nat)) * (((1 : K) + eps2) ^ (3 : Nat))))

def BM10ex.SINTLP013 (c : Consts) (m : CFFs) (pt : Pt) : K :=
  let xB__ : K := pt.xB
  let Q2__ : K := pt.Q2
  let t__ : K := pt.t
  let y__ : K := pt.y
  let eps2__ : K := pt.eps2
  let xB : K := xB__
  let Q2 : K := Q2__
  let t : K := t__
  let y : K := y__
  let eps2 : K := eps2__
  (0 : K)

def BM10ex.SINTLPV013 (c : Consts) (m : CFFs) (pt : Pt) : K :=
  let xB__ : K := pt.xB
  let Q2__ : K := pt.Q2
  let t__ : K := pt.t
  let y__ : K := pt.y
  let eps2__ : K := pt.eps2
  let xB : K := xB__
  let Q2 : K := Q2__
  let t : K := t__
  let y : K := y__
  let eps2 : K := eps2__
  (0 : K)

def BM10ex.SINTLPA013 (c : Consts) (m : CFFs) (pt : Pt) : K :=
  (0 : K)

def BM10ex.sINTLP_n3 (c : Consts) (m : CFFs) (pt : Pt) : K :=
  (((((BM10ex.SINTLP113 c m pt) * (BM10ex.CCALINTLP_im1_eff0 c m pt)) + ((BM10ex.SINTLPV113 c m pt) * (BM10ex.CCALINTLPV_im1_eff0 c m pt))) + ((BM10ex.SINTLPA113 c m pt) * (BM10ex.CCALINTLPA_im1_eff0 c m pt))) + (((((ksqrt (2 : K)) / (((2 : K) - pt.xB) + ((pt.xB * pt.t) / pt.Q2))) * pt.tK) / (ksqrt pt.Q2)) * ((((BM10ex.SINTLP013 c m pt) * (BM10ex.CCALINTLP_im1_eff1 c m pt)) + ((BM10ex.SINTLPV013 c m pt) * (BM10ex.CCALINTLPV_im1_eff1 c m pt))) + ((BM10ex.SINTLPA013 c m pt) * (BM10ex.CCALINTLPV_im1_eff1 c m pt)))))

def BM10ex.sINT3LP (c : Consts) (m : CFFs) (pt : Pt) : K :=
  (BM10ex.sINTLP_n3 c m pt)

def BM10ex.TINTLP (c : Consts) (m : CFFs) (pt : Pt) : K :=
  (((-pt.in1charge) * (BMK.PreFacINT c m pt)) * (((((((BM10ex.cINT0LP c m pt) + ((BM10ex.cINT1LP c m pt) * (kcos pt.phi))) + ((BM10ex.cINT2LP c m pt) * (kcos ((2 : K) * pt.phi)))) + ((BM10ex.cINT3LP c m pt) * (kcos ((3 : K) * pt.phi)))) + ((BM10ex.sINT1LP c m pt) * (ksin pt.phi))) + ((BM10ex.sINT2LP c m pt) * (ksin ((2 : K) * pt.phi)))) + ((BM10ex.sINT3LP c m pt) * (ksin ((3 : K) * pt.phi)))))

def BM10ex.CCALDVCSLP_im0_leff0_reff0 (c : Consts) (m : CFFs) (pt : Pt) : K :=
  let xB__ : K := pt.xB
  let Q2__ : K := pt.Q2
  let t__ : K := pt.t
  let y__ : K := pt.y
  let eps2__ : K := pt.eps2
  let xB : K := xB__
  let Q2 : K := Q2__
  let t : K := t__
  let y : K := y__
  let eps2 : K := eps2__
  let H : Cx K := (Cx.mk m.ReH m.ImH)
  let EE : Cx K := (Cx.mk m.ReE m.ImE)
  let tH : Cx K := (Cx.mk m.ReHt m.ImHt)
  let tE : Cx K := (Cx.mk m.ReEt m.ImEt)
  let HCC : Cx K := (Cx.mk m.ReH (-m.ImH))
  let EECC : Cx K := (Cx.mk m.ReE (-m.ImE))
  let tHCC : Cx K := (Cx.mk m.ReHt (-m.ImHt))
  let tECC : Cx K := (Cx.mk m.ReEt (-m.ImEt))
  let res : Cx K := (Cx.divR (Cx.smul (Q2 * (Q2 + (t * xB))) ((((((Cx.smul ((1 : K) - xB) ((Cx.smul (4 : K) H) * HCC)) - (Cx.divR (Cx.smul (xB ^ (2 : Nat)) (Cx.smul ((Q2 + t) ^ (2 : Nat)) ((EECC * H) + (EE * HCC)))) (Q2 * (Q2 + (t * xB))))) - (Cx.divR (Cx.smul (xB ^ (2 : Nat)) ((Cx.smul (Q2 * t) tE) * tECC)) (((4 : K) * c.Mp2) * (Q2 + (t * xB))))) - (Cx.divR (Cx.smul (xB ^ (2 : Nat)) (Cx.smul Q2 ((tECC * tH) + (tE * tHCC)))) (Q2 + (t * xB)))) + (Cx.smul (((1 : K) - xB) + ((eps2 * (((2 : K) * Q2) + t)) / ((4 : K) * (Q2 + (t * xB))))) ((Cx.smul (4 : K) tH) * tHCC))) + (Cx.smul ((-((((Q2 + t) ^ (2 : Nat)) * (xB ^ (2 : Nat))) / (Q2 * (Q2 + (t * xB))))) - ((t * (((Q2 * ((2 : K) - xB)) + (t * xB)) ^ (2 : Nat))) / ((((4 : K) * c.Mp2) * Q2) * (Q2 + (t * xB))))) (EE * EECC)))) (((Q2 * ((2 : K) - xB)) + (t * xB)) ^ (2 : Nat)))
  res.re

def BM10ex.cDVCS0LP (c : Consts) (m : CFFs) (pt : Pt) : K :=
  ((((((2 : K) * pt.in1polarization) * pt.y) * ((2 : K) - pt.y)) / (ksqrt ((1 : K) + pt.eps2))) * (BM10ex.CCALDVCSLP_im0_leff0_reff0 c m pt))

def BM10ex.CCALDVCSLP_im0_leff1_reff0 (c : Consts) (m : CFFs) (pt : Pt) : K :=
  let xB__ : K := pt.xB
  let Q2__ : K := pt.Q2
  let t__ : K := pt.t
  let y__ : K := pt.y
  let eps2__ : K := pt.eps2
  let xB : K := xB__
  let Q2 : K := Q2__
  let t : K := t__
  let y : K := y__
  let eps2 : K := eps2__
  let H : Cx K := (Cx.mk m.ReHeff m.ImHeff)
  let EE : Cx K := (Cx.mk m.ReEeff m.ImEeff)
  let tH : Cx K := (Cx.mk m.ReHteff m.ImHteff)
  let tE : Cx K := (Cx.mk m.ReEteff m.ImEteff)
  let HCC : Cx K := (Cx.mk m.ReH (-m.ImH))
  let EECC : Cx K := (Cx.mk m.ReE (-m.ImE))
  let tHCC : Cx K := (Cx.mk m.ReHt (-m.ImHt))
  let tECC : Cx K := (Cx.mk m.ReEt (-m.ImEt))
  let res : Cx K := (Cx.divR (Cx.smul (Q2 * (Q2 + (t * xB))) ((((((Cx.smul ((1 : K) - xB) ((Cx.smul (4 : K) H) * HCC)) - (Cx.divR (Cx.smul (xB ^ (2 : Nat)) (Cx.smul ((Q2 + t) ^ (2 : Nat)) ((EECC * H) + (EE * HCC)))) (Q2 * (Q2 + (t * xB))))) - (Cx.divR (Cx.smul (xB ^ (2 : Nat)) ((Cx.smul (Q2 * t) tE) * tECC)) (((4 : K) * c.Mp2) * (Q2 + (t * xB))))) - (Cx.divR (Cx.smul (xB ^ (2 : Nat)) (Cx.smul Q2 ((tECC * tH) + (tE * tHCC)))) (Q2 + (t * xB)))) + (Cx.smul (((1 : K) - xB) + ((eps2 * (((2 : K) * Q2) + t)) / ((4 : K) * (Q2 + (t * xB))))) ((Cx.smul (4 : K) tH) * tHCC))) + (Cx.smul ((-((((Q2 + t) ^ (2 : Nat)) * (xB ^ (2 : Nat))) / (Q2 * (Q2 + (t * xB))))) - ((t * (((Q2 * ((2 : K) - xB)) + (t * xB)) ^ (2 : Nat))) / ((((4 : K) * c.Mp2) * Q2) * (Q2 + (t * xB))))) (EE * EECC)))) (((Q2 * ((2 : K) - xB)) + (t * xB)) ^ (2 : Nat)))
  res.re

def BM10ex.cDVCS1LP (c : Consts) (m : CFFs) (pt : Pt) : K :=
  let PP : K := ((((-(8 : K)) * pt.K_) / ((2 : K) - pt.xB)) / ((1 : K) + pt.eps2))
  ((PP * (((-pt.in1polarization) * pt.y) * (ksqrt ((1 : K) + pt.eps2)))) * (BM10ex.CCALDVCSLP_im0_leff1_reff0 c m pt))

def BM10ex.CCALDVCSLP_im1_leff1_reff0 (c : Consts) (m : CFFs) (pt : Pt) : K :=
  let xB__ : K := pt.xB
  let Q2__ : K := pt.Q2
  let t__ : K := pt.t
  let y__ : K := pt.y
  let eps2__ : K := pt.eps2
  let xB : K := xB__
  let Q2 : K := Q2__
  let t : K := t__
  let y : K := y__
  let eps2 : K := eps2__
  let H : Cx K := (Cx.mk m.ReHeff m.ImHeff)
  let EE : Cx K := (Cx.mk m.ReEeff m.ImEeff)
  let tH : Cx K := (Cx.mk m.ReHteff m.ImHteff)
  let tE : Cx K := (Cx.mk m.ReEteff m.ImEteff)
  let HCC : Cx K := (Cx.mk m.ReH (-m.ImH))
  let EECC : Cx K := (Cx.mk m.ReE (-m.ImE))
  let tHCC : Cx K := (Cx.mk m.ReHt (-m.ImHt))
  let tECC : Cx K := (Cx.mk m.ReEt (-m.ImEt))
  let res : Cx K := (Cx.divR (Cx.smul (Q2 * (Q2 + (t * xB))) ((((((Cx.smul ((1 : K) - xB) ((Cx.smul (4 : K) H) * HCC)) - (Cx.divR (Cx.smul (xB ^ (2 : Nat)) (Cx.smul ((Q2 + t) ^ (2 : Nat)) ((EECC * H) + (EE * HCC)))) (Q2 * (Q2 + (t * xB))))) - (Cx.divR (Cx.smul (xB ^ (2 : Nat)) ((Cx.smul (Q2 * t) tE) * tECC)) (((4 : K) * c.Mp2) * (Q2 + (t * xB))))) - (Cx.divR (Cx.smul (xB ^ (2 : Nat)) (Cx.smul Q2 ((tECC * tH) + (tE * tHCC)))) (Q2 + (t * xB)))) + (Cx.smul (((1 : K) - xB) + ((eps2 * (((2 : K) * Q2) + t)) / ((4 : K) * (Q2 + (t * xB))))) ((Cx.smul (4 : K) tH) * tHCC))) + (Cx.smul ((-((((Q2 + t) ^ (2 : Nat)) * (xB ^ (2 : Nat))) / (Q2 * (Q2 + (t * xB))))) - ((t * (((Q2 * ((2 : K) - xB)) + (t * xB)) ^ (2 : Nat))) / ((((4 : K) * c.Mp2) * Q2) * (Q2 + (t * xB))))) (EE * EECC)))) (((Q2 * ((2 : K) - xB)) + (t * xB)) ^ (2 : Nat)))
  res.im

def BM10ex.sDVCS1LP (c : Consts) (m : CFFs) (pt : Pt) : K :=
  let PP : K := ((((-(8 : K)) * pt.K_) / ((2 : K) - pt.xB)) / ((1 : K) + pt.eps2))
  ((PP * ((2 : K) - pt.y)) * (BM10ex.CCALDVCSLP_im1_leff1_reff0 c m pt))

def BM10ex.TDVCS2LP (c : Consts) (m : CFFs) (pt : Pt) : K :=
  ((BMK.PreFacDVCS c m pt) * (((BM10ex.cDVCS0LP c m pt) + ((BM10ex.cDVCS1LP c m pt) * (kcos pt.phi))) + ((BM10ex.sDVCS1LP c m pt) * (ksin pt.phi))))

def BM10.CCALINTunp_im0_eff0 (c : Consts) (m : CFFs) (pt : Pt) : K :=
  let CFFH : Cx K := (Cx.mk m.ReH m.ImH)
  let CFFE : Cx K := (Cx.mk m.ReE m.ImE)
  let CFFHt : Cx K := (Cx.mk m.ReHt m.ImHt)
  let CFFEt : Cx K := (Cx.mk m.ReEt m.ImEt)
  let xB__ : K := pt.xB
  let Q2__ : K := pt.Q2
  let t__ : K := pt.t
  let y__ : K := pt.y
  let eps2__ : K := pt.eps2
  let xB : K := xB__
  let Q2 : K := Q2__
  let t : K := t__
  let y : K := y__
  let eps2 : K := eps2__
  let res : Cx K := (((Cx.smul m.F1 CFFH) - (Cx.smul ((t / ((4 : K) * c.Mp2)) * m.F2) CFFE)) + (Cx.smul ((xB / ((2 : K) - xB)) * (m.F1 + m.F2)) CFFHt))
  res.re

def BM10.CCALINTunpV_im0_eff0 (c : Consts) (m : CFFs) (pt : Pt) : K :=
  let CFFH : Cx K := (Cx.mk m.ReH m.ImH)
  let CFFE : Cx K := (Cx.mk m.ReE m.ImE)
  let CFFHt : Cx K := (Cx.mk m.ReHt m.ImHt)
  let CFFEt : Cx K := (Cx.mk m.ReEt m.ImEt)
  let xB__ : K := pt.xB
  let Q2__ : K := pt.Q2
  let t__ : K := pt.t
  let y__ : K := pt.y
  let eps2__ : K := pt.eps2
  let xB : K := xB__
  let Q2 : K := Q2__
  let t : K := t__
  let y : K := y__
  let eps2 : K := eps2__
  let res : Cx K := (Cx.smul ((xB / ((2 : K) - xB)) * (m.F1 + m.F2)) (CFFH + CFFE))
  res.re

def BM10.CCALINTunpA_im0_eff0 (c : Consts) (m : CFFs) (pt : Pt) : K :=
  let CFFH : Cx K := (Cx.mk m.ReH m.ImH)
  let CFFE : Cx K := (Cx.mk m.ReE m.ImE)
  let CFFHt : Cx K := (Cx.mk m.ReHt m.ImHt)
  let CFFEt : Cx K := (Cx.mk m.ReEt m.ImEt)
  let xB__ : K := pt.xB
  let Q2__ : K := pt.Q2
  let t__ : K := pt.t
  let y__ : K := pt.y
  let eps2__ : K := pt.eps2
  let xB : K := xB__
  let Q2 : K := Q2__
  let t : K := t__
  let y : K := y__
  let eps2 : K := eps2__
  let res : Cx K := (Cx.smul ((xB / ((2 : K) - xB)) * (m.F1 + m.F2)) CFFHt)
  res.re

def BM10.CCALINTunp_im0_eff1 (c : Consts) (m : CFFs) (pt : Pt) : K :=
  let CFFH : Cx K := (Cx.mk m.ReHeff m.ImHeff)
  let CFFE : Cx K := (Cx.mk m.ReEeff m.ImEeff)
  let CFFHt : Cx K := (Cx.mk m.ReHteff m.ImHteff)
  let CFFEt : Cx K := (Cx.mk m.ReEteff m.ImEteff)
  let xB__ : K := pt.xB
  let Q2__ : K := pt.Q2
  let t__ : K := pt.t
  let y__ : K := pt.y
  let eps2__ : K := pt.eps2
  let xB : K := xB__
  let Q2 : K := Q2__
  let t : K := t__
  let y : K := y__
  let eps2 : K := eps2__
  let res : Cx K := (((Cx.smul m.F1 CFFH) - (Cx.smul ((t / ((4 : K) * c.Mp2)) * m.F2) CFFE)) + (Cx.smul ((xB / ((2 : K) - xB)) * (m.F1 + m.F2)) CFFHt))
  res.re

def BM10.CCALINTunpV_im0_eff1 (c : Consts) (m : CFFs) (pt : Pt) : K :=
  let CFFH : Cx K := (Cx.mk m.ReHeff m.ImHeff)
  let CFFE : Cx K := (Cx.mk m.ReEeff m.ImEeff)
  let CFFHt : Cx K := (Cx.mk m.ReHteff m.ImHteff)
  let CFFEt : Cx K := (Cx.mk m.ReEteff m.ImEteff)
  let xB__ : K := pt.xB
  let Q2__ : K := pt.Q2
  let t__ : K := pt.t
  let y__ : K := pt.y
  let eps2__ : K := pt.eps2
  let xB : K := xB__
  let Q2 : K := Q2__
  let t : K := t__
  let y : K := y__
  let eps2 : K := eps2__
  let res : Cx K := (Cx.smul ((xB / ((2 : K) - xB)) * (m.F1 + m.F2)) (CFFH + CFFE))
  res.re

def BM10.cINTunp_n0 (c : Consts) (m : CFFs) (pt : Pt) : K :=
  (((((BM10ex.CINTunp110 c m pt) * (BM10.CCALINTunp_im0_eff0 c m pt)) + ((BM10ex.CINTunpV110 c m pt) * (BM10.CCALINTunpV_im0_eff0 c m pt))) + ((BM10ex.CINTunpA110 c m pt) * (BM10.CCALINTunpA_im0_eff0 c m pt))) + (((((ksqrt (2 : K)) / (((2 : K) - pt.xB) + ((pt.xB * pt.t) / pt.Q2))) * pt.tK) / (ksqrt pt.Q2)) * ((((BM10ex.CINTunp010 c m pt) * (BM10.CCALINTunp_im0_eff1 c m pt)) + ((BM10ex.CINTunpV010 c m pt) * (BM10.CCALINTunpV_im0_eff1 c m pt))) + ((BM10ex.CINTunpA010 c m pt) * (BM10.CCALINTunpV_im0_eff1 c m pt)))))

def BM10.cINT0unp (c : Consts) (m : CFFs) (pt : Pt) : K :=
  (BM10.cINTunp_n0 c m pt)

def BM10.cINTunp_n1 (c : Consts) (m : CFFs) (pt : Pt) : K :=
  (((((BM10ex.CINTunp111 c m pt) * (BM10.CCALINTunp_im0_eff0 c m pt)) + ((BM10ex.CINTunpV111 c m pt) * (BM10.CCALINTunpV_im0_eff0 c m pt))) + ((BM10ex.CINTunpA111 c m pt) * (BM10.CCALINTunpA_im0_eff0 c m pt))) + (((((ksqrt (2 : K)) / (((2 : K) - pt.xB) + ((pt.xB * pt.t) / pt.Q2))) * pt.tK) / (ksqrt pt.Q2)) * ((((BM10ex.CINTunp011 c m pt) * (BM10.CCALINTunp_im0_eff1 c m pt)) + ((BM10ex.CINTunpV011 c m pt) * (BM10.CCALINTunpV_im0_eff1 c m pt))) + ((BM10ex.CINTunpA011 c m pt) * (BM10.CCALINTunpV_im0_eff1 c m pt)))))

def BM10.cINT1unp (c : Consts) (m : CFFs) (pt : Pt) : K :=
  (BM10.cINTunp_n1 c m pt)

def BM10.cINTunp_n2 (c : Consts) (m : CFFs) (pt : Pt) : K :=
  (((((BM10ex.CINTunp112 c m pt) * (BM10.CCALINTunp_im0_eff0 c m pt)) + ((BM10ex.CINTunpV112 c m pt) * (BM10.CCALINTunpV_im0_eff0 c m pt))) + ((BM10ex.CINTunpA112 c m pt) * (BM10.CCALINTunpA_im0_eff0 c m pt))) + (((((ksqrt (2 : K)) / (((2 : K) - pt.xB) + ((pt.xB * pt.t) / pt.Q2))) * pt.tK) / (ksqrt pt.Q2)) * ((((BM10ex.CINTunp012 c m pt) * (BM10.CCALINTunp_im0_eff1 c m pt)) + ((BM10ex.CINTunpV012 c m pt) * (BM10.CCALINTunpV_im0_eff1 c m pt))) + ((BM10ex.CINTunpA012 c m pt) * (BM10.CCALINTunpV_im0_eff1 c m pt)))))

def BM10.cINT2unp (c : Consts) (m : CFFs) (pt : Pt) : K :=
  (BM10.cINTunp_n2 c m pt)

def BM10.cINTunp_n3 (c : Consts) (m : CFFs) (pt : Pt) : K :=
  (((((BM10ex.CINTunp113 c m pt) * (BM10.CCALINTunp_im0_eff0 c m pt)) + ((BM10ex.CINTunpV113 c m pt) * (BM10.CCALINTunpV_im0_eff0 c m pt))) + ((BM10ex.CINTunpA113 c m pt) * (BM10.CCALINTunpA_im0_eff0 c m pt))) + (((((ksqrt (2 : K)) / (((2 : K) - pt.xB) + ((pt.xB * pt.t) / pt.Q2))) * pt.tK) / (ksqrt pt.Q2)) * ((((BM10ex.CINTunp013 c m pt) * (BM10.CCALINTunp_im0_eff1 c m pt)) + ((BM10ex.CINTunpV013 c m pt) * (BM10.CCALINTunpV_im0_eff1 c m pt))) + ((BM10ex.CINTunpA013 c m pt) * (BM10.CCALINTunpV_im0_eff1 c m pt)))))

def BM10.cINT3unp (c : Consts) (m : CFFs) (pt : Pt) : K :=
  (BM10.cINTunp_n3 c m pt)

def BM10.CCALINTunp_im1_eff0 (c : Consts) (m : CFFs) (pt : Pt) : K :=
  let CFFH : Cx K := (Cx.mk m.ReH m.ImH)
  let CFFE : Cx K := (Cx.mk m.ReE m.ImE)
  let CFFHt : Cx K := (Cx.mk m.ReHt m.ImHt)
  let CFFEt : Cx K := (Cx.mk m.ReEt m.ImEt)
  let xB__ : K := pt.xB
  let Q2__ : K := pt.Q2
  let t__ : K := pt.t
  let y__ : K := pt.y
  let eps2__ : K := pt.eps2
  let xB : K := xB__
  let Q2 : K := Q2__
  let t : K := t__
  let y : K := y__
  let eps2 : K := eps2__
  let res : Cx K := (((Cx.smul m.F1 CFFH) - (Cx.smul ((t / ((4 : K) * c.Mp2)) * m.F2) CFFE)) + (Cx.smul ((xB / ((2 : K) - xB)) * (m.F1 + m.F2)) CFFHt))
  res.im

def BM10.CCALINTunpV_im1_eff0 (c : Consts) (m : CFFs) (pt : Pt) : K :=
  let CFFH : Cx K := (Cx.mk m.ReH m.ImH)
  let CFFE : Cx K := (Cx.mk m.ReE m.ImE)
  let CFFHt : Cx K := (Cx.mk m.ReHt m.ImHt)
  let CFFEt : Cx K := (Cx.mk m.ReEt m.ImEt)
  let xB__ : K := pt.xB
  let Q2__ : K := pt.Q2
  let t__ : K := pt.t
  let y__ : K := pt.y
  let eps2__ : K := pt.eps2
  let xB : K := xB__
  let Q2 : K := Q2__
  let t : K := t__
  let y : K := y__
  let eps2 : K := eps2__
  let res : Cx K := (Cx.smul ((xB / ((2 : K) - xB)) * (m.F1 + m.F2)) (CFFH + CFFE))
  res.im

def BM10.CCALINTunpA_im1_eff0 (c : Consts) (m : CFFs) (pt : Pt) : K :=
  let CFFH : Cx K := (Cx.mk m.ReH m.ImH)
  let CFFE : Cx K := (Cx.mk m.ReE m.ImE)
  let CFFHt : Cx K := (Cx.mk m.ReHt m.ImHt)
  let CFFEt : Cx K := (Cx.mk m.ReEt m.ImEt)
  let xB__ : K := pt.xB
  let Q2__ : K := pt.Q2
  let t__ : K := pt.t
  let y__ : K := pt.y
  let eps2__ : K := pt.eps2
  let xB : K := xB__
  let Q2 : K := Q2__
  let t : K := t__
  let y : K := y__
  let eps2 : K := eps2__
  let res : Cx K := (Cx.smul ((xB / ((2 : K) - xB)) * (m.F1 + m.F2)) CFFHt)
  res.im

def BM10.CCALINTunp_im1_eff1 (c : Consts) (m : CFFs) (pt : Pt) : K :=
  let CFFH : Cx K := (Cx.mk m.ReHeff m.ImHeff)
  let CFFE : Cx K := (Cx.mk m.ReEeff m.ImEeff)
  let CFFHt : Cx K := (Cx.mk m.ReHteff m.ImHteff)
  let CFFEt : Cx K := (Cx.mk m.ReEteff m.ImEteff)
  let xB__ : K := pt.xB
  let Q2__ : K := pt.Q2
  let t__ : K := pt.t
  let y__ : K := pt.y
  let eps2__ : K := pt.eps2
  let xB : K := xB__
  let Q2 : K := Q2__
  let t : K := t__
  let y : K := y__
  let eps2 : K := eps2__
  let res : Cx K := (((Cx.smul m.F1 CFFH) - (Cx.smul ((t / ((4 : K) * c.Mp2)) * m.F2) CFFE)) + (Cx.smul ((xB / ((2 : K) - xB)) * (m.F1 + m.F2)) CFFHt))
  res.im

def BM10.CCALINTunpV_im1_eff1 (c : Consts) (m : CFFs) (pt : Pt) : K :=
  let CFFH : Cx K := (Cx.mk m.ReHeff m.ImHeff)
  let CFFE : Cx K := (Cx.mk m.ReEeff m.ImEeff)
  let CFFHt : Cx K := (Cx.mk m.ReHteff m.ImHteff)
  let CFFEt : Cx K := (Cx.mk m.ReEteff m.ImEteff)
  let xB__ : K := pt.xB
  let Q2__ : K := pt.Q2
  let t__ : K := pt.t
  let y__ : K := pt.y
  let eps2__ : K := pt.eps2
  let xB : K := xB__
  let Q2 : K := Q2__
  let t : K := t__
  let y : K := y__
  let eps2 : K := eps2__
  let res : Cx K := (Cx.smul ((xB / ((2 : K) - xB)) * (m.F1 + m.F2)) (CFFH + CFFE))
  res.im

def BM10.CCALINTunpA_im1_eff1 (c : Consts) (m : CFFs) (pt : Pt) : K :=
  let CFFH : Cx K := (Cx.mk m.ReHeff m.ImHeff)
  let CFFE : Cx K := (Cx.mk m.ReEeff m.ImEeff)
  let CFFHt : Cx K := (Cx.mk m.ReHteff m.ImHteff)
  let CFFEt : Cx K := (Cx.mk m.ReEteff m.ImEteff)
  let xB__ : K := pt.xB
  let Q2__ : K := pt.Q2
  let t__ : K := pt.t
  let y__ : K := pt.y
  let eps2__ : K := pt.eps2
  let xB : K := xB__
  let Q2 : K := Q2__
  let t : K := t__
  let y : K := y__
  let eps2 : K := eps2__
  let res : Cx K := (Cx.smul ((xB / ((2 : K) - xB)) * (m.F1 + m.F2)) CFFHt)
  res.im

def BM10.sINTunp_n1 (c : Consts) (m : CFFs) (pt : Pt) : K :=
  (((((BM10ex.SINTunp111 c m pt) * (BM10.CCALINTunp_im1_eff0 c m pt)) + ((BM10ex.SINTunpV111 c m pt) * (BM10.CCALINTunpV_im1_eff0 c m pt))) + ((BM10ex.SINTunpA111 c m pt) * (BM10.CCALINTunpA_im1_eff0 c m pt))) + (((((ksqrt (2 : K)) / (((2 : K) - pt.xB) + ((pt.xB * pt.t) / pt.Q2))) * pt.tK) / (ksqrt pt.Q2)) * ((((BM10ex.SINTunp011 c m pt) * (BM10.CCALINTunp_im1_eff1 c m pt)) + ((BM10ex.SINTunpV011 c m pt) * (BM10.CCALINTunpV_im1_eff1 c m pt))) + ((BM10ex.SINTunpA011 c m pt) * (BM10.CCALINTunpA_im1_eff1 c m pt)))))

def BM10.sINT1unp (c : Consts) (m : CFFs) (pt : Pt) : K :=
  (BM10.sINTunp_n1 c m pt)

def BM10.sINTunp_n2 (c : Consts) (m : CFFs) (pt : Pt) : K :=
  (((((BM10ex.SINTunp112 c m pt) * (BM10.CCALINTunp_im1_eff0 c m pt)) + ((BM10ex.SINTunpV112 c m pt) * (BM10.CCALINTunpV_im1_eff0 c m pt))) + ((BM10ex.SINTunpA112 c m pt) * (BM10.CCALINTunpA_im1_eff0 c m pt))) + (((((ksqrt (2 : K)) / (((2 : K) - pt.xB) + ((pt.xB * pt.t) / pt.Q2))) * pt.tK) / (ksqrt pt.Q2)) * ((((BM10ex.SINTunp012 c m pt) * (BM10.CCALINTunp_im1_eff1 c m pt)) + ((BM10ex.SINTunpV012 c m pt) * (BM10.CCALINTunpV_im1_eff1 c m pt))) + ((BM10ex.SINTunpA012 c m pt) * (BM10.CCALINTunpA_im1_eff1 c m pt)))))

def BM10.sINT2unp (c : Consts) (m : CFFs) (pt : Pt) : K :=
  (BM10.sINTunp_n2 c m pt)

def BM10.sINTunp_n3 (c : Consts) (m : CFFs) (pt : Pt) : K :=
  (((((BM10ex.SINTunp113 c m pt) * (BM10.CCALINTunp_im1_eff0 c m pt)) + ((BM10ex.SINTunpV113 c m pt) * (BM10.CCALINTunpV_im1_eff0 c m pt))) + ((BM10ex.SINTunpA113 c m pt) * (BM10.CCALINTunpA_im1_eff0 c m pt))) + (((((ksqrt (2 : K)) / (((2 : K) - pt.xB) + ((pt.xB * pt.t) / pt.Q2))) * pt.tK) / (ksqrt pt.Q2)) * ((((BM10ex.SINTunp013 c m pt) * (BM10.CCALINTunp_im1_eff1 c m pt)) + ((BM10ex.SINTunpV013 c m pt) * (BM10.CCALINTunpV_im1_eff1 c m pt))) + ((BM10ex.SINTunpA013 c m pt) * (BM10.CCALINTunpA_im1_eff1 c m pt)))))

def BM10.sINT3unp (c : Consts) (m : CFFs) (pt : Pt) : K :=
  (BM10.sINTunp_n3 c m pt)

def BM10.TINTunp (c : Consts) (m : CFFs) (pt : Pt) : K :=
  (((-pt.in1charge) * (BMK.PreFacINT c m pt)) * (((((((BM10.cINT0unp c m pt) + ((BM10.cINT1unp c m pt) * (kcos pt.phi))) + ((BM10.cINT2unp c m pt) * (kcos ((2 : K) * pt.phi)))) + ((BM10.cINT3unp c m pt) * (kcos ((3 : K) * pt.phi)))) + ((BM10.sINT1unp c m pt) * (ksin pt.phi))) + ((BM10.sINT2unp c m pt) * (ksin ((2 : K) * pt.phi)))) + ((BM10.sINT3unp c m pt) * (ksin ((3 : K) * pt.phi)))))

def BM10.CCALDVCSunp_im0_leff0_reff0 (c : Consts) (m : CFFs) (pt : Pt) : K :=
  let xB__ : K := pt.xB
  let Q2__ : K := pt.Q2
  let t__ : K := pt.t
  let y__ : K := pt.y
  let eps2__ : K := pt.eps2
  let xB : K := xB__
  let Q2 : K := Q2__
  let t : K := t__
  let y : K := y__
  let eps2 : K := eps2__
  let H : Cx K := (Cx.mk m.ReH m.ImH)
  let EE : Cx K := (Cx.mk m.ReE m.ImE)
  let tH : Cx K := (Cx.mk m.ReHt m.ImHt)
  let tE : Cx K := (Cx.mk m.ReEt m.ImEt)
  let HCC : Cx K := (Cx.mk m.ReH (-m.ImH))
  let EECC : Cx K := (Cx.mk m.ReE (-m.ImE))
  let tHCC : Cx K := (Cx.mk m.ReHt (-m.ImHt))
  let tECC : Cx K := (Cx.mk m.ReEt (-m.ImEt))
  let res : Cx K := (Cx.divR ((((Cx.smul ((4 : K) * ((1 : K) - xB)) ((H * HCC) + (tH * tHCC))) - (Cx.smul (xB ^ (2 : Nat)) ((((H * EECC) + (EE * HCC)) + (tH * tECC)) + (tE * tHCC)))) - ((Cx.smul ((xB ^ (2 : Nat)) + (((((2 : K) - xB) ^ (2 : Nat)) * t) / ((4 : K) * c.Mp2))) EE) * EECC)) - ((Cx.smul (((xB ^ (2 : Nat)) * t) / ((4 : K) * c.Mp2)) tE) * tECC)) (((2 : K) - xB) ^ (2 : Nat)))
  res.re

def BM10.CCALDVCSunp_im0_leff1_reff1 (c : Consts) (m : CFFs) (pt : Pt) : K :=
  let xB__ : K := pt.xB
  let Q2__ : K := pt.Q2
  let t__ : K := pt.t
  let y__ : K := pt.y
  let eps2__ : K := pt.eps2
  let xB : K := xB__
  let Q2 : K := Q2__
  let t : K := t__
  let y : K := y__
  let eps2 : K := eps2__
  let H : Cx K := (Cx.mk m.ReHeff m.ImHeff)
  let EE : Cx K := (Cx.mk m.ReEeff m.ImEeff)
  let tH : Cx K := (Cx.mk m.ReHteff m.ImHteff)
  let tE : Cx K := (Cx.mk m.ReEteff m.ImEteff)
  let HCC : Cx K := (Cx.mk m.ReHeff (-m.ImHeff))
  let EECC : Cx K := (Cx.mk m.ReEeff (-m.ImEeff))
  let tHCC : Cx K := (Cx.mk m.ReHteff (-m.ImHteff))
  let tECC : Cx K := (Cx.mk m.ReEteff (-m.ImEteff))
  let res : Cx K := (Cx.divR ((((Cx.smul ((4 : K) * ((1 : K) - xB)) ((H * HCC) + (tH * tHCC))) - (Cx.smul (xB ^ (2 : Nat)) ((((H * EECC) + (EE * HCC)) + (tH * tECC)) + (tE * tHCC)))) - ((Cx.smul ((xB ^ (2 : Nat)) + (((((2 : K) - xB) ^ (2 : Nat)) * t) / ((4 : K) * c.Mp2))) EE) * EECC)) - ((Cx.smul (((xB ^ (2 : Nat)) * t) / ((4 : K) * c.Mp2)) tE) * tECC)) (((2 : K) - xB) ^ (2 : Nat)))
  res.re

def BM10.cDVCS0unp (c : Consts) (m : CFFs) (pt : Pt) : K :=
  (((hotfixedBMK.CDVCSunpPP c m pt) * (BM10.CCALDVCSunp_im0_leff0_reff0 c m pt)) + ((BM10ex.CDVCSunpPPeff c m pt) * (BM10.CCALDVCSunp_im0_leff1_reff1 c m pt)))

def BM10.CCALDVCSunp_im0_leff1_reff0 (c : Consts) (m : CFFs) (pt : Pt) : K :=
  let xB__ : K := pt.xB
  let Q2__ : K := pt.Q2
  let t__ : K := pt.t
  let y__ : K := pt.y
  let eps2__ : K := pt.eps2
  let xB : K := xB__
  let Q2 : K := Q2__
  let t : K := t__
  let y : K := y__
  let eps2 : K := eps2__
  let H : Cx K := (Cx.mk m.ReHeff m.ImHeff)
  let EE : Cx K := (Cx.mk m.ReEeff m.ImEeff)
  let tH : Cx K := (Cx.mk m.ReHteff m.ImHteff)
  let tE : Cx K := (Cx.mk m.ReEteff m.ImEteff)
  let HCC : Cx K := (Cx.mk m.ReH (-m.ImH))
  let EECC : Cx K := (Cx.mk m.ReE (-m.ImE))
  let tHCC : Cx K := (Cx.mk m.ReHt (-m.ImHt))
  let tECC : Cx K := (Cx.mk m.ReEt (-m.ImEt))
  let res : Cx K := (Cx.divR ((((Cx.smul ((4 : K) * ((1 : K) - xB)) ((H * HCC) + (tH * tHCC))) - (Cx.smul (xB ^ (2 : Nat)) ((((H * EECC) + (EE * HCC)) + (tH * tECC)) + (tE * tHCC)))) - ((Cx.smul ((xB ^ (2 : Nat)) + (((((2 : K) - xB) ^ (2 : Nat)) * t) / ((4 : K) * c.Mp2))) EE) * EECC)) - ((Cx.smul (((xB ^ (2 : Nat)) * t) / ((4 : K) * c.Mp2)) tE) * tECC)) (((2 : K) - xB) ^ (2 : Nat)))
  res.re

def BM10.cDVCS1unp (c : Consts) (m : CFFs) (pt : Pt) : K :=
  let PP : K := ((((8 : K) * pt.K_) / ((2 : K) - pt.xB)) / ((1 : K) + pt.eps2))
  ((PP * ((2 : K) - pt.y)) * (BM10.CCALDVCSunp_im0_leff1_reff0 c m pt))

def BM10.CCALDVCSunp_im1_leff1_reff0 (c : Consts) (m : CFFs) (pt : Pt) : K :=
  let xB__ : K := pt.xB
  let Q2__ : K := pt.Q2
  let t__ : K := pt.t
  let y__ : K := pt.y
  let eps2__ : K := pt.eps2
  let xB : K := xB__
  let Q2 : K := Q2__
  let t : K := t__
  let y : K := y__
  let eps2 : K := eps2__
  let H : Cx K := (Cx.mk m.ReHeff m.ImHeff)
  let EE : Cx K := (Cx.mk m.ReEeff m.ImEeff)
  let tH : Cx K := (Cx.mk m.ReHteff m.ImHteff)
  let tE : Cx K := (Cx.mk m.ReEteff m.ImEteff)
  let HCC : Cx K := (Cx.mk m.ReH (-m.ImH))
  let EECC : Cx K := (Cx.mk m.ReE (-m.ImE))
  let tHCC : Cx K := (Cx.mk m.ReHt (-m.ImHt))
  let tECC : Cx K := (Cx.mk m.ReEt (-m.ImEt))
  let res : Cx K := (Cx.divR ((((Cx.smul ((4 : K) * ((1 : K) - xB)) ((H * HCC) + (tH * tHCC))) - (Cx.smul (xB ^ (2 : Nat)) ((((H * EECC) + (EE * HCC)) + (tH * tECC)) + (tE * tHCC)))) - ((Cx.smul ((xB ^ (2 : Nat)) + (((((2 : K) - xB) ^ (2 : Nat)) * t) / ((4 : K) * c.Mp2))) EE) * EECC)) - ((Cx.smul (((xB ^ (2 : Nat)) * t) / ((4 : K) * c.Mp2)) tE) * tECC)) (((2 : K) - xB) ^ (2 : Nat)))
  res.im

def BM10.sDVCS1unp (c : Consts) (m : CFFs) (pt : Pt) : K :=
  let PP : K := ((((8 : K) * pt.K_) / ((2 : K) - pt.xB)) / ((1 : K) + pt.eps2))
  ((PP * (((-pt.in1polarization) * pt.y) * (ksqrt ((1 : K) + pt.eps2)))) * (BM10.CCALDVCSunp_im1_leff1_reff0 c m pt))

def BM10.TDVCS2unp (c : Consts) (m : CFFs) (pt : Pt) : K :=
  ((BMK.PreFacDVCS c m pt) * (((BM10.cDVCS0unp c m pt) + ((BM10.cDVCS1unp c m pt) * (kcos pt.phi))) + ((BM10.sDVCS1unp c m pt) * (ksin pt.phi))))

def BM10.CCALINTLP_im0_eff0 (c : Consts) (m : CFFs) (pt : Pt) : K :=
  let CFFH : Cx K := (Cx.mk m.ReH m.ImH)
  let CFFE : Cx K := (Cx.mk m.ReE m.ImE)
  let CFFHt : Cx K := (Cx.mk m.ReHt m.ImHt)
  let CFFEt : Cx K := (Cx.mk m.ReEt m.ImEt)
  let xB__ : K := pt.xB
  let Q2__ : K := pt.Q2
  let t__ : K := pt.t
  let y__ : K := pt.y
  let eps2__ : K := pt.eps2
  let xB : K := xB__
  let Q2 : K := Q2__
  let t : K := t__
  let y : K := y__
  let eps2 : K := eps2__
  let res : Cx K := (((Cx.smul ((xB / ((2 : K) - xB)) * (m.F1 + m.F2)) (CFFH + (Cx.smul (xB / (2 : K)) CFFE))) + (Cx.smul m.F1 CFFHt)) - (Cx.smul ((xB / ((2 : K) - xB)) * (((xB / (2 : K)) * m.F1) + ((t / ((4 : K) * c.Mp2)) * m.F2))) CFFEt))
  res.re

def BM10.CCALINTLPV_im0_eff0 (c : Consts) (m : CFFs) (pt : Pt) : K :=
  let CFFH : Cx K := (Cx.mk m.ReH m.ImH)
  let CFFE : Cx K := (Cx.mk m.ReE m.ImE)
  let CFFHt : Cx K := (Cx.mk m.ReHt m.ImHt)
  let CFFEt : Cx K := (Cx.mk m.ReEt m.ImEt)
  let xB__ : K := pt.xB
  let Q2__ : K := pt.Q2
  let t__ : K := pt.t
  let y__ : K := pt.y
  let eps2__ : K := pt.eps2
  let xB : K := xB__
  let Q2 : K := Q2__
  let t : K := t__
  let y : K := y__
  let eps2 : K := eps2__
  let res : Cx K := (Cx.smul ((xB / ((2 : K) - xB)) * (m.F1 + m.F2)) (CFFH + (Cx.smul (xB / (2 : K)) CFFE)))
  res.re

def BM10.CCALINTLPA_im0_eff0 (c : Consts) (m : CFFs) (pt : Pt) : K :=
  let CFFH : Cx K := (Cx.mk m.ReH m.ImH)
  let CFFE : Cx K := (Cx.mk m.ReE m.ImE)
  let CFFHt : Cx K := (Cx.mk m.ReHt m.ImHt)
  let CFFEt : Cx K := (Cx.mk m.ReEt m.ImEt)
  let xB__ : K := pt.xB
  let Q2__ : K := pt.Q2
  let t__ : K := pt.t
  let y__ : K := pt.y
  let eps2__ : K := pt.eps2
  let xB : K := xB__
  let Q2 : K := Q2__
  let t : K := t__
  let y : K := y__
  let eps2 : K := eps2__
  let res : Cx K := (Cx.smul ((xB / ((2 : K) - xB)) * (m.F1 + m.F2)) (CFFHt + (Cx.smul (xB / (2 : K)) CFFEt)))
  res.re

def BM10.CCALINTLP_im0_eff1 (c : Consts) (m : CFFs) (pt : Pt) : K :=
  let CFFH : Cx K := (Cx.mk m.ReHeff m.ImHeff)
  let CFFE : Cx K := (Cx.mk m.ReEeff m.ImEeff)
  let CFFHt : Cx K := (Cx.mk m.ReHteff m.ImHteff)
  let CFFEt : Cx K := (Cx.mk m.ReEteff m.ImEteff)
  let xB__ : K := pt.xB
  let Q2__ : K := pt.Q2
  let t__ : K := pt.t
  let y__ : K := pt.y
  let eps2__ : K := pt.eps2
  let xB : K := xB__
  let Q2 : K := Q2__
  let t : K := t__
  let y : K := y__
  let eps2 : K := eps2__
  let res : Cx K := (((Cx.smul ((xB / ((2 : K) - xB)) * (m.F1 + m.F2)) (CFFH + (Cx.smul (xB / (2 : K)) CFFE))) + (Cx.smul m.F1 CFFHt)) - (Cx.smul ((xB / ((2 : K) - xB)) * (((xB / (2 : K)) * m.F1) + ((t / ((4 : K) * c.Mp2)) * m.F2))) CFFEt))
  res.re

def BM10.CCALINTLPV_im0_eff1 (c : Consts) (m : CFFs) (pt : Pt) : K :=
  let CFFH : Cx K := (Cx.mk m.ReHeff m.ImHeff)
  let CFFE : Cx K := (Cx.mk m.ReEeff m.ImEeff)
  let CFFHt : Cx K := (Cx.mk m.ReHteff m.ImHteff)
  let CFFEt : Cx K := (Cx.mk m.ReEteff m.ImEteff)
  let xB__ : K := pt.xB
  let Q2__ : K := pt.Q2
  let t__ : K := pt.t
  let y__ : K := pt.y
  let eps2__ : K := pt.eps2
  let xB : K := xB__
  let Q2 : K := Q2__
  let t : K := t__
  let y : K := y__
  let eps2 : K := eps2__
  let res : Cx K := (Cx.smul ((xB / ((2 : K) - xB)) * (m.F1 + m.F2)) (CFFH + (Cx.smul (xB / (2 : K)) CFFE)))
  res.re

def BM10.cINTLP_n0 (c : Consts) (m : CFFs) (pt : Pt) : K :=
  (((((BM10ex.CINTLP110 c m pt) * (BM10.CCALINTLP_im0_eff0 c m pt)) + ((BM10ex.CINTLPV110 c m pt) * (BM10.CCALINTLPV_im0_eff0 c m pt))) + ((BM10ex.CINTLPA110 c m pt) * (BM10.CCALINTLPA_im0_eff0 c m pt))) + (((((ksqrt (2 : K)) / (((2 : K) - pt.xB) + ((pt.xB * pt.t) / pt.Q2))) * pt.tK) / (ksqrt pt.Q2)) * ((((BM10ex.CINTLP010 c m pt) * (BM10.CCALINTLP_im0_eff1 c m pt)) + ((BM10ex.CINTLPV010 c m pt) * (BM10.CCALINTLPV_im0_eff1 c m pt))) + ((BM10ex.CINTLPA010 c m pt) * (BM10.CCALINTLPV_im0_eff1 c m pt)))))

def BM10.cINT0LP (c : Consts) (m : CFFs) (pt : Pt) : K :=
  (BM10.cINTLP_n0 c m pt)

def BM10.cINTLP_n1 (c : Consts) (m : CFFs) (pt : Pt) : K :=
  (((((BM10ex.CINTLP111 c m pt) * (BM10.CCALINTLP_im0_eff0 c m pt)) + ((BM10ex.CINTLPV111 c m pt) * (BM10.CCALINTLPV_im0_eff0 c m pt))) + ((BM10ex.CINTLPA111 c m pt) * (BM10.CCALINTLPA_im0_eff0 c m pt))) + (((((ksqrt (2 : K)) / (((2 : K) - pt.xB) + ((pt.xB * pt.t) / pt.Q2))) * pt.tK) / (ksqrt pt.Q2)) * ((((BM10ex.CINTLP011 c m pt) * (BM10.CCALINTLP_im0_eff1 c m pt)) + ((BM10ex.CINTLPV011 c m pt) * (BM10.CCALINTLPV_im0_eff1 c m pt))) + ((BM10ex.CINTLPA011 c m pt) * (BM10.CCALINTLPV_im0_eff1 c m pt)))))

def BM10.cINT1LP (c : Consts) (m : CFFs) (pt : Pt) : K :=
  (BM10.cINTLP_n1 c m pt)

def BM10.cINTLP_n2 (c : Consts) (m : CFFs) (pt : Pt) : K :=
  (((((BM10ex.CINTLP112 c m pt) * (BM10.CCALINTLP_im0_eff0 c m pt)) + ((BM10ex.CINTLPV112 c m pt) * (BM10.CCALINTLPV_im0_eff0 c m pt))) + ((BM10ex.CINTLPA112 c m pt) * (BM10.CCALINTLPA_im0_eff0 c m pt))) + (((((ksqrt (2 : K)) / (((2 : K) - pt.xB) + ((pt.xB * pt.t) / pt.Q2))) * pt.tK) / (ksqrt pt.Q2)) * ((((BM10ex.CINTLP012 c m pt) * (BM10.CCALINTLP_im0_eff1 c m pt)) + ((BM10ex.CINTLPV012 c m pt) * (BM10.CCALINTLPV_im0_eff1 c m pt))) + ((BM10ex.CINTLPA012 c m pt) * (BM10.CCALINTLPV_im0_eff1 c m pt)))))

def BM10.cINT2LP (c : Consts) (m : CFFs) (pt : Pt) : K :=
  (BM10.cINTLP_n2 c m pt)

def BM10.cINTLP_n3 (c : Consts) (m : CFFs) (pt : Pt) : K :=
  (((((BM10ex.CINTLP113 c m pt) * (BM10.CCALINTLP_im0_eff0 c m pt)) + ((BM10ex.CINTLPV113 c m pt) * (BM10.CCALINTLPV_im0_eff0 c m pt))) + ((BM10ex.CINTLPA113 c m pt) * (BM10.CCALINTLPA_im0_eff0 c m pt))) + (((((ksqrt (2 : K)) / (((2 : K) - pt.xB) + ((pt.xB * pt.t) / pt.Q2))) * pt.tK) / (ksqrt pt.Q2)) * ((((BM10ex.CINTLP013 c m pt) * (BM10.CCALINTLP_im0_eff1 c m pt)) + ((BM10ex.CINTLPV013 c m pt) * (BM10.CCALINTLPV_im0_eff1 c m pt))) + ((BM10ex.CINTLPA013 c m pt) * (BM10.CCALINTLPV_im0_eff1 c m pt)))))

def BM10.cINT3LP (c : Consts) (m : CFFs) (pt : Pt) : K :=
  (BM10.cINTLP_n3 c m pt)

def BM10.CCALINTLP_im1_eff0 (c : Consts) (m : CFFs) (pt : Pt) : K :=
  let CFFH : Cx K := (Cx.mk m.ReH m.ImH)
  let CFFE : Cx K := (Cx.mk m.ReE m.ImE)
  let CFFHt : Cx K := (Cx.mk m.ReHt m.ImHt)
  let CFFEt : Cx K := (Cx.mk m.ReEt m.ImEt)
  let xB__ : K := pt.xB
  let Q2__ : K := pt.Q2
  let t__ : K := pt.t
  let y__ : K := pt.y
  let eps2__ : K := pt.eps2
  let xB : K := xB__
  let Q2 : K := Q2__
  let t : K := t__
  let y : K := y__
  let eps2 : K := eps2__
  let res : Cx K := (((Cx.smul ((xB / ((2 : K) - xB)) * (m.F1 + m.F2)) (CFFH + (Cx.smul (xB / (2 : K)) CFFE))) + (Cx.smul m.F1 CFFHt)) - (Cx.smul ((xB / ((2 : K) - xB)) * (((xB / (2 : K)) * m.F1) + ((t / ((4 : K) * c.Mp2)) * m.F2))) CFFEt))
  res.im

def BM10.CCALINTLPV_im1_eff0 (c : Consts) (m : CFFs) (pt : Pt) : K :=
  let CFFH : Cx K := (Cx.mk m.ReH m.ImH)
  let CFFE : Cx K := (Cx.mk m.ReE m.ImE)
  let CFFHt : Cx K := (Cx.mk m.ReHt m.ImHt)
  let CFFEt : Cx K := (Cx.mk m.ReEt m.ImEt)
  let xB__ : K := pt.xB
  let Q2__ : K := pt.Q2
  let t__ : K := pt.t
  let y__ : K := pt.y
  let eps2__ : K := pt.eps2
  let xB : K := xB__
  let Q2 : K := Q2__
  let t : K := t__
  let y : K := y__
  let eps2 : K := eps2__
  let res : Cx K := (Cx.smul ((xB / ((2 : K) - xB)) * (m.F1 + m.F2)) (CFFH + (Cx.smul (xB / (2 : K)) CFFE)))
  res.im

def BM10.CCALINTLPA_im1_eff0 (c : Consts) (m : CFFs) (pt : Pt) : K :=
  let CFFH : Cx K := (Cx.mk m.ReH m.ImH)
  let CFFE : Cx K := (Cx.mk m.ReE m.ImE)
  let CFFHt : Cx K := (Cx.mk m.ReHt m.ImHt)
  let CFFEt : Cx K := (Cx.mk m.ReEt m.ImEt)
  let xB__ : K := pt.xB
  let Q2__ : K := pt.Q2
  let t__ : K := pt.t
  let y__ : K := pt.y
  let eps2__ : K := pt.eps2
  let xB : K := xB__
  let Q2 : K := Q2__
  let t : K := t__
  let y : K := y__
  let eps2 : K := eps2__
  let res : Cx K := (Cx.smul ((xB / ((2 : K) - xB)) * (m.F1 + m.F2)) (CFFHt + (Cx.smul (xB / (2 : K)) CFFEt)))
  res.im

def BM10.CCALINTLP_im1_eff1 (c : Consts) (m : CFFs) (pt : Pt) : K :=
  let CFFH : Cx K := (Cx.mk m.ReHeff m.ImHeff)
  let CFFE : Cx K := (Cx.mk m.ReEeff m.ImEeff)
  let CFFHt : Cx K := (Cx.mk m.ReHteff m.ImHteff)
  let CFFEt : Cx K := (Cx.mk m.ReEteff m.ImEteff)
  let xB__ : K := pt.xB
  let Q2__ : K := pt.Q2
  let t__ : K := pt.t
  let y__ : K := pt.y
  let eps2__ : K := pt.eps2
  let xB : K := xB__
  let Q2 : K := Q2__
  let t : K := t__
  let y : K := y__
  let eps2 : K := eps2__
  let res : Cx K := (((Cx.smul ((xB / ((2 : K) - xB)) * (m.F1 + m.F2)) (CFFH + (Cx.smul (xB / (2 : K)) CFFE))) + (Cx.smul m.F1 CFFHt)) - (Cx.smul ((xB / ((2 : K) - xB)) * (((xB / (2 : K)) * m.F1) + ((t / ((4 : K) * c.Mp2)) * m.F2))) CFFEt))
  res.im

def BM10.CCALINTLPV_im1_eff1 (c : Consts) (m : CFFs) (pt : Pt) : K :=
  let CFFH : Cx K := (Cx.mk m.ReHeff m.ImHeff)
  let CFFE : Cx K := (Cx.mk m.ReEeff m.ImEeff)
  let CFFHt : Cx K := (Cx.mk m.ReHteff m.ImHteff)
  let CFFEt : Cx K := (Cx.mk m.ReEteff m.ImEteff)
  let xB__ : K := pt.xB
  let Q2__ : K := pt.Q2
  let t__ : K := pt.t
  let y__ : K := pt.y
  let eps2__ : K := pt.eps2
  let xB : K := xB__
  let Q2 : K := Q2__
  let t : K := t__
  let y : K := y__
  let eps2 : K := eps2__
  let res : Cx K := (Cx.smul ((xB / ((2 : K) - xB)) * (m.F1 + m.F2)) (CFFH + (Cx.smul (xB / (2 : K)) CFFE)))
  res.im

def BM10.sINTLP_n1 (c : Consts) (m : CFFs) (pt : Pt) : K :=
  (((((BM10ex.SINTLP111 c m pt) * (BM10.CCALINTLP_im1_eff0 c m pt)) + ((BM10ex.SINTLPV111 c m pt) * (BM10.CCALINTLPV_im1_eff0 c m pt))) + ((BM10ex.SINTLPA111 c m pt) * (BM10.CCALINTLPA_im1_eff0 c m pt))) + (((((ksqrt (2 : K)) / (((2 : K) - pt.xB) + ((pt.xB * pt.t) / pt.Q2))) * pt.tK) / (ksqrt pt.Q2)) * ((((BM10ex.SINTLP011 c m pt) * (BM10.CCALINTLP_im1_eff1 c m pt)) + ((BM10ex.SINTLPV011 c m pt) * (BM10.CCALINTLPV_im1_eff1 c m pt))) + ((BM10ex.SINTLPA011 c m pt) * (BM10.CCALINTLPV_im1_eff1 c m pt)))))

def BM10.sINT1LP (c : Consts) (m : CFFs) (pt : Pt) : K :=
  (BM10.sINTLP_n1 c m pt)

def BM10.sINTLP_n2 (c : Consts) (m : CFFs) (pt : Pt) : K :=
  (((((BM10ex.SINTLP112 c m pt) * (BM10.CCALINTLP_im1_eff0 c m pt)) + ((BM10ex.SINTLPV112 c m pt) * (BM10.CCALINTLPV_im1_eff0 c m pt))) + ((BM10ex.SINTLPA112 c m pt) * (BM10.CCALINTLPA_im1_eff0 c m pt))) + (((((ksqrt (2 : K)) / (((2 : K) - pt.xB) + ((pt.xB * pt.t) / pt.Q2))) * pt.tK) / (ksqrt pt.Q2)) * ((((BM10ex.SINTLP012 c m pt) * (BM10.CCALINTLP_im1_eff1 c m pt)) + ((BM10ex.SINTLPV012 c m pt) * (BM10.CCALINTLPV_im1_eff1 c m pt))) + ((BM10ex.SINTLPA012 c m pt) * (BM10.CCALINTLPV_im1_eff1 c m pt)))))

def BM10.sINT2LP (c : Consts) (m : CFFs) (pt : Pt) : K :=
  (BM10.sINTLP_n2 c m pt)

def BM10.sINTLP_n3 (c : Consts) (m : CFFs) (pt : Pt) : K :=
  (((((BM10ex.SINTLP113 c m pt) * (BM10.CCALINTLP_im1_eff0 c m pt)) + ((BM10ex.SINTLPV113 c m pt) * (BM10.CCALINTLPV_im1_eff0 c m pt))) + ((BM10ex.SINTLPA113 c m pt) * (BM10.CCALINTLPA_im1_eff0 c m pt))) + (((((ksqrt (2 : K)) / (((2 : K) - pt.xB) + ((pt.xB * pt.t) / pt.Q2))) * pt.tK) / (ksqrt pt.Q2)) * ((((BM10ex.SINTLP013 c m pt) * (BM10.CCALINTLP_im1_eff1 c m pt)) + ((BM10ex.SINTLPV013 c m pt) * (BM10.CCALINTLPV_im1_eff1 c m pt))) + ((BM10ex.SINTLPA013 c m pt) * (BM10.CCALINTLPV_im1_eff1 c m pt)))))

def BM10.sINT3LP (c : Consts) (m : CFFs) (pt : Pt) : K :=
  (BM10.sINTLP_n3 c m pt)

def BM10.TINTLP (c : Consts) (m : CFFs) (pt : Pt) : K :=
  (((-pt.in1charge) * (BMK.PreFacINT c m pt)) * (((((((BM10.cINT0LP c m pt) + ((BM10.cINT1LP c m pt) * (kcos pt.phi))) + ((BM10.cINT2LP c m pt) * (kcos ((2 : K) * pt.phi)))) + ((BM10.cINT3LP c m pt) * (kcos ((3 : K) * pt.phi)))) + ((BM10.sINT1LP c m pt) * (ksin pt.phi))) + ((BM10.sINT2LP c m pt) * (ksin ((2 : K) * pt.phi)))) + ((BM10.sINT3LP c m pt) * (ksin ((3 : K) * pt.phi)))))

def BM10.CCALDVCSLP_im0_leff0_reff0 (c : Consts) (m : CFFs) (pt : Pt) : K :=
  let xB__ : K := pt.xB
  let Q2__ : K := pt.Q2
  let t__ : K := pt.t
  let y__ : K := pt.y
  let eps2__ : K := pt.eps2
  let xB : K := xB__
  let Q2 : K := Q2__
  let t : K := t__
  let y : K := y__
  let eps2 : K := eps2__
  let H : Cx K := (Cx.mk m.ReH m.ImH)
  let EE : Cx K := (Cx.mk m.ReE m.ImE)
  let tH : Cx K := (Cx.mk m.ReHt m.ImHt)
  let tE : Cx K := (Cx.mk m.ReEt m.ImEt)
  let HCC : Cx K := (Cx.mk m.ReH (-m.ImH))
  let EECC : Cx K := (Cx.mk m.ReE (-m.ImE))
  let tHCC : Cx K := (Cx.mk m.ReHt (-m.ImHt))
  let tECC : Cx K := (Cx.mk m.ReEt (-m.ImEt))
  let res : Cx K := (Cx.divR (((Cx.smul ((4 : K) * ((1 : K) - xB)) ((H * tHCC) + (tH * HCC))) - (Cx.smul (xB ^ (2 : Nat)) ((((H * tECC) + (tE * HCC)) + (tH * EECC)) + (EE * tHCC)))) - (Cx.smul (xB * (((xB ^ (2 : Nat)) / (2 : K)) + ((((2 : K) - xB) * t) / ((4 : K) * c.Mp2)))) ((EE * tECC) + (tE * EECC)))) (((2 : K) - xB) ^ (2 : Nat)))
  res.re

def BM10.cDVCS0LP (c : Consts) (m : CFFs) (pt : Pt) : K :=
  ((((((2 : K) * pt.in1polarization) * pt.y) * ((2 : K) - pt.y)) / (ksqrt ((1 : K) + pt.eps2))) * (BM10.CCALDVCSLP_im0_leff0_reff0 c m pt))

def BM10.CCALDVCSLP_im0_leff1_reff0 (c : Consts) (m : CFFs) (pt : Pt) : K :=
  let xB__ : K := pt.xB
  let Q2__ : K := pt.Q2
  let t__ : K := pt.t
  let y__ : K := pt.y
  let eps2__ : K := pt.eps2
  let xB : K := xB__
  let Q2 : K := Q2__
  let t : K := t__
  let y : K := y__
  let eps2 : K := eps2__
  let H : Cx K := (Cx.mk m.ReHeff m.ImHeff)
  let EE : Cx K := (Cx.mk m.ReEeff m.ImEeff)
  let tH : Cx K := (Cx.mk m.ReHteff m.ImHteff)
  let tE : Cx K := (Cx.mk m.ReEteff m.ImEteff)
  let HCC : Cx K := (Cx.mk m.ReH (-m.ImH))
  let EECC : Cx K := (Cx.mk m.ReE (-m.ImE))
  let tHCC : Cx K := (Cx.mk m.ReHt (-m.ImHt))
  let tECC : Cx K := (Cx.mk m.ReEt (-m.ImEt))
  let res : Cx K := (Cx.divR (((Cx.smul ((4 : K) * ((1 : K) - xB)) ((H * tHCC) + (tH * HCC))) - (Cx.smul (xB ^ (2 : Nat)) ((((H * tECC) + (tE * HCC)) + (tH * EECC)) + (EE * tHCC)))) - (Cx.smul (xB * (((xB ^ (2 : Nat)) / (2 : K)) + ((((2 : K) - xB) * t) / ((4 : K) * c.Mp2)))) ((EE * tECC) + (tE * EECC)))) (((2 : K) - xB) ^ (2 : Nat)))
  res.re

def BM10.cDVCS1LP (c : Consts) (m : CFFs) (pt : Pt) : K :=
  let PP : K := ((((-(8 : K)) * pt.K_) / ((2 : K) - pt.xB)) / ((1 : K) + pt.eps2))
  ((PP * (((-pt.in1polarization) * pt.y) * (ksqrt ((1 : K) + pt.eps2)))) * (BM10.CCALDVCSLP_im0_leff1_reff0 c m pt))

def BM10.CCALDVCSLP_im1_leff1_reff0 (c : Consts) (m : CFFs) (pt : Pt) : K :=
  let xB__ : K := pt.xB
  let Q2__ : K := pt.Q2
  let t__ : K := pt.t
  let y__ : K := pt.y
  let eps2__ : K := pt.eps2
  let xB : K := xB__
  let Q2 : K := Q2__
  let t : K := t__
  let y : K := y__
  let eps2 : K := eps2__
  let H : Cx K := (Cx.mk m.ReHeff m.ImHeff)
  let EE : Cx K := (Cx.mk m.ReEeff m.ImEeff)
  let tH : Cx K := (Cx.mk m.ReHteff m.ImHteff)
  let tE : Cx K := (Cx.mk m.ReEteff m.ImEteff)
  let HCC : Cx K := (Cx.mk m.ReH (-m.ImH))
  let EECC : Cx K := (Cx.mk m.ReE (-m.ImE))
  let tHCC : Cx K := (Cx.mk m.ReHt (-m.ImHt))
  let tECC : Cx K := (Cx.mk m.ReEt (-m.ImEt))
  let res : Cx K := (Cx.divR (((Cx.smul ((4 : K) * ((1 : K) - xB)) ((H * tHCC) + (tH * HCC))) - (Cx.smul (xB ^ (2 : Nat)) ((((H * tECC) + (tE * HCC)) + (tH * EECC)) + (EE * tHCC)))) - (Cx.smul (xB * (((xB ^ (2 : Nat)) / (2 : K)) + ((((2 : K) - xB) * t) / ((4 : K) * c.Mp2)))) ((EE * tECC) + (tE * EECC)))) (((2 : K) - xB) ^ (2 : Nat)))
  res.im

def BM10.sDVCS1LP (c : Consts) (m : CFFs) (pt : Pt) : K :=
  let PP : K := ((((-(8 : K)) * pt.K_) / ((2 : K) - pt.xB)) / ((1 : K) + pt.eps2))
  ((PP * ((2 : K) - pt.y)) * (BM10.CCALDVCSLP_im1_leff1_reff0 c m pt))

def BM10.TDVCS2LP (c : Consts) (m : CFFs) (pt : Pt) : K :=
  ((BMK.PreFacDVCS c m pt) * (((BM10.cDVCS0LP c m pt) + ((BM10.cDVCS1LP c m pt) * (kcos pt.phi))) + ((BM10.sDVCS1LP c m pt) * (ksin pt.phi))))

def BM10tw2.cINT2unp (c : Consts) (m : CFFs) (pt : Pt) : K :=
  (0 : K)

def BM10tw2.cINT3unp (c : Consts) (m : CFFs) (pt : Pt) : K :=
  (0 : K)

def BM10tw2.sINT2unp (c : Consts) (m : CFFs) (pt : Pt) : K :=
  (0 : K)

def BM10tw2.sINT3unp (c : Consts) (m : CFFs) (pt : Pt) : K :=
  (0 : K)

def BM10tw2.TINTunp (c : Consts) (m : CFFs) (pt : Pt) : K :=
  (((-pt.in1charge) * (BMK.PreFacINT c m pt)) * (((((((BM10.cINT0unp c m pt) + ((BM10.cINT1unp c m pt) * (kcos pt.phi))) + ((BM10tw2.cINT2unp c m pt) * (kcos ((2 : K) * pt.phi)))) + ((BM10tw2.cINT3unp c m pt) * (kcos ((3 : K) * pt.phi)))) + ((BM10.sINT1unp c m pt) * (ksin pt.phi))) + ((BM10tw2.sINT2unp c m pt) * (ksin ((2 : K) * pt.phi)))) + ((BM10tw2.sINT3unp c m pt) * (ksin ((3 : K) * pt.phi)))))

def BM10tw2.cINT2LP (c : Consts) (m : CFFs) (pt : Pt) : K :=
  (0 : K)

def BM10tw2.cINT3LP (c : Consts) (m : CFFs) (pt : Pt) : K :=
  (0 : K)

def BM10tw2.sINT2LP (c : Consts) (m : CFFs) (pt : Pt) : K :=
  (0 : K)

def BM10tw2.sINT3LP (c : Consts) (m : CFFs) (pt : Pt) : K :=
  (0 : K)

def BM10tw2.TINTLP (c : Consts) (m : CFFs) (pt : Pt) : K :=
  (((-pt.in1charge) * (BMK.PreFacINT c m pt)) * (((((((BM10.cINT0LP c m pt) + ((BM10.cINT1LP c m pt) * (kcos pt.phi))) + ((BM10tw2.cINT2LP c m pt) * (kcos ((2 : K) * pt.phi)))) + ((BM10tw2.cINT3LP c m pt) * (kcos ((3 : K) * pt.phi)))) + ((BM10.sINT1LP c m pt) * (ksin pt.phi))) + ((BM10tw2.sINT2LP c m pt) * (ksin ((2 : K) * pt.phi)))) + ((BM10tw2.sINT3LP c m pt) * (ksin ((3 : K) * pt.phi)))))

def DVCS.PreFacSigma (c : Consts) (m : CFFs) (pt : Pt) : K :=
  (((((c.alpha ^ (3 : Nat)) * pt.xB) * (pt.y ^ (2 : Nat))) / ((((8 : K) * kpi) * (pt.Q2 ^ (2 : Nat))) * (ksqrt ((1 : K) + pt.eps2)))) * c.GeV2nb)

def DVCS._XGAMMA_DVCS_t_Ex (c : Consts) (m : CFFs) (pt : Pt) : K :=
  let eps2 : K := ((((4 : K) * (pt.xB ^ (2 : Nat))) * c.Mp2) / pt.Q2)
  let tup__ : K × K × K × K × K × K × K × K := (m.ReH, m.ImH, m.ReE, m.ImE, m.ReHt, m.ImHt, m.ReEt, m.ImEt)
  let ReH : K := tup__.1
  let ImH : K := tup__.2.1
  let ReE : K := tup__.2.2.1
  let ImE : K := tup__.2.2.2.1
  let ReHt : K := tup__.2.2.2.2.1
  let ImHt : K := tup__.2.2.2.2.2.1
  let ReEt : K := tup__.2.2.2.2.2.2.1
  let ImEt : K := tup__.2.2.2.2.2.2.2
  let res : K := ((65.14079453579676 : K) * ((((((pt.xB ^ (2 : Nat)) / (pt.Q2 ^ (2 : Nat))) / ((1 : K) - pt.xB)) / (((2 : K) - pt.xB) ^ (2 : Nat))) / (ksqrt ((1 : K) + eps2))) * (((((4 : K) * ((1 : K) - pt.xB)) * ((ImH ^ (2 : Nat)) + (ReH ^ (2 : Nat)))) - ((pt.xB ^ (2 : Nat)) * ((((ReE ^ (2 : Nat)) + (ImE ^ (2 : Nat))) + (((2 : K) * ReE) * ReH)) + (((2 : K) * ImE) * ImH)))) - (((((((2 : K) - pt.xB) ^ (2 : Nat)) * pt.t) / (4 : K)) / c.Mp2) * ((ImE ^ (2 : Nat)) + (ReE ^ (2 : Nat)))))))
  res

/-! entry points per formula set -/
abbrev FS_BMK_TBH2unp (c : Consts) (m : CFFs) (pt : Pt) : K := BMK.TBH2unp c m pt
abbrev FS_BMK_TINTunp (c : Consts) (m : CFFs) (pt : Pt) : K := BMK.TINTunp c m pt
abbrev FS_BMK_TDVCS2unp (c : Consts) (m : CFFs) (pt : Pt) : K := BMK.TDVCS2unp c m pt
abbrev FS_BMK_TBH2TP (c : Consts) (m : CFFs) (pt : Pt) : K := BMK.TBH2TP c m pt
abbrev FS_BMK_TINTTP (c : Consts) (m : CFFs) (pt : Pt) : K := BMK.TINTTP c m pt
abbrev FS_BMK_TDVCS2TP (c : Consts) (m : CFFs) (pt : Pt) : K := BMK.TDVCS2TP c m pt
abbrev FS_BMK_PreFacBH (c : Consts) (m : CFFs) (pt : Pt) : K := BMK.PreFacBH c m pt
abbrev FS_BMK_PreFacDVCS (c : Consts) (m : CFFs) (pt : Pt) : K := BMK.PreFacDVCS c m pt
abbrev FS_BMK_PreFacINT (c : Consts) (m : CFFs) (pt : Pt) : K := BMK.PreFacINT c m pt
abbrev FS_BMK_cBH0unp (c : Consts) (m : CFFs) (pt : Pt) : K := BMK.cBH0unp c m pt
abbrev FS_BMK_cBH1unp (c : Consts) (m : CFFs) (pt : Pt) : K := BMK.cBH1unp c m pt
abbrev FS_BMK_cBH2unp (c : Consts) (m : CFFs) (pt : Pt) : K := BMK.cBH2unp c m pt
abbrev FS_BMK_cBH0TP (c : Consts) (m : CFFs) (pt : Pt) : K := BMK.cBH0TP c m pt
abbrev FS_BMK_cBH1TP (c : Consts) (m : CFFs) (pt : Pt) : K := BMK.cBH1TP c m pt
abbrev FS_BMK_sBH1TP (c : Consts) (m : CFFs) (pt : Pt) : K := BMK.sBH1TP c m pt
abbrev FS_BMK_cINT0unp (c : Consts) (m : CFFs) (pt : Pt) : K := BMK.cINT0unp c m pt
abbrev FS_BMK_cINT1unp (c : Consts) (m : CFFs) (pt : Pt) : K := BMK.cINT1unp c m pt
abbrev FS_BMK_sINT1unp (c : Consts) (m : CFFs) (pt : Pt) : K := BMK.sINT1unp c m pt
abbrev FS_BMK_cINT2unp (c : Consts) (m : CFFs) (pt : Pt) : K := BMK.cINT2unp c m pt
abbrev FS_BMK_sINT2unp (c : Consts) (m : CFFs) (pt : Pt) : K := BMK.sINT2unp c m pt
abbrev FS_BMK_cDVCS0unp (c : Consts) (m : CFFs) (pt : Pt) : K := BMK.cDVCS0unp c m pt
abbrev FS_BMK_ReCCALINTunp (c : Consts) (m : CFFs) (pt : Pt) : K := BMK.ReCCALINTunp c m pt
abbrev FS_BMK_ImCCALINTunp (c : Consts) (m : CFFs) (pt : Pt) : K := BMK.ImCCALINTunp c m pt
abbrev FS_BMK_ReDELCCALINTunp (c : Consts) (m : CFFs) (pt : Pt) : K := BMK.ReDELCCALINTunp c m pt
abbrev FS_BMK_ImDELCCALINTunp (c : Consts) (m : CFFs) (pt : Pt) : K := BMK.ImDELCCALINTunp c m pt
abbrev FS_BMK_CCALDVCSunp (c : Consts) (m : CFFs) (pt : Pt) : K := BMK.CCALDVCSunp c m pt
abbrev FS_hotfixedBMK_TBH2unp (c : Consts) (m : CFFs) (pt : Pt) : K := BMK.TBH2unp c m pt
abbrev FS_hotfixedBMK_TINTunp (c : Consts) (m : CFFs) (pt : Pt) : K := hotfixedBMK.TINTunp c m pt
abbrev FS_hotfixedBMK_TDVCS2unp (c : Consts) (m : CFFs) (pt : Pt) : K := hotfixedBMK.TDVCS2unp c m pt
abbrev FS_hotfixedBMK_TBH2TP (c : Consts) (m : CFFs) (pt : Pt) : K := BMK.TBH2TP c m pt
abbrev FS_hotfixedBMK_TINTTP (c : Consts) (m : CFFs) (pt : Pt) : K := BMK.TINTTP c m pt
abbrev FS_hotfixedBMK_TDVCS2TP (c : Consts) (m : CFFs) (pt : Pt) : K := BMK.TDVCS2TP c m pt
abbrev FS_hotfixedBMK_PreFacBH (c : Consts) (m : CFFs) (pt : Pt) : K := BMK.PreFacBH c m pt
abbrev FS_hotfixedBMK_PreFacDVCS (c : Consts) (m : CFFs) (pt : Pt) : K := BMK.PreFacDVCS c m pt
abbrev FS_hotfixedBMK_PreFacINT (c : Consts) (m : CFFs) (pt : Pt) : K := BMK.PreFacINT c m pt
abbrev FS_hotfixedBMK_cBH0unp (c : Consts) (m : CFFs) (pt : Pt) : K := BMK.cBH0unp c m pt
abbrev FS_hotfixedBMK_cBH1unp (c : Consts) (m : CFFs) (pt : Pt) : K := BMK.cBH1unp c m pt
abbrev FS_hotfixedBMK_cBH2unp (c : Consts) (m : CFFs) (pt : Pt) : K := BMK.cBH2unp c m pt
abbrev FS_hotfixedBMK_cBH0TP (c : Consts) (m : CFFs) (pt : Pt) : K := BMK.cBH0TP c m pt
abbrev FS_hotfixedBMK_cBH1TP (c : Consts) (m : CFFs) (pt : Pt) : K := BMK.cBH1TP c m pt
abbrev FS_hotfixedBMK_sBH1TP (c : Consts) (m : CFFs) (pt : Pt) : K := BMK.sBH1TP c m pt
abbrev FS_hotfixedBMK_cINT0unp (c : Consts) (m : CFFs) (pt : Pt) : K := hotfixedBMK.cINT0unp c m pt
abbrev FS_hotfixedBMK_cINT1unp (c : Consts) (m : CFFs) (pt : Pt) : K := hotfixedBMK.cINT1unp c m pt
abbrev FS_hotfixedBMK_sINT1unp (c : Consts) (m : CFFs) (pt : Pt) : K := hotfixedBMK.sINT1unp c m pt
abbrev FS_hotfixedBMK_cINT2unp (c : Consts) (m : CFFs) (pt : Pt) : K := BMK.cINT2unp c m pt
abbrev FS_hotfixedBMK_sINT2unp (c : Consts) (m : CFFs) (pt : Pt) : K := BMK.sINT2unp c m pt
abbrev FS_hotfixedBMK_cDVCS0unp (c : Consts) (m : CFFs) (pt : Pt) : K := hotfixedBMK.cDVCS0unp c m pt
abbrev FS_hotfixedBMK_ReCCALINTunp (c : Consts) (m : CFFs) (pt : Pt) : K := BMK.ReCCALINTunp c m pt
abbrev FS_hotfixedBMK_ImCCALINTunp (c : Consts) (m : CFFs) (pt : Pt) : K := BMK.ImCCALINTunp c m pt
abbrev FS_hotfixedBMK_ReDELCCALINTunp (c : Consts) (m : CFFs) (pt : Pt) : K := BMK.ReDELCCALINTunp c m pt
abbrev FS_hotfixedBMK_ImDELCCALINTunp (c : Consts) (m : CFFs) (pt : Pt) : K := BMK.ImDELCCALINTunp c m pt
abbrev FS_hotfixedBMK_CCALDVCSunp (c : Consts) (m : CFFs) (pt : Pt) : K := BMK.CCALDVCSunp c m pt
abbrev FS_BM10ex_TBH2unp (c : Consts) (m : CFFs) (pt : Pt) : K := BMK.TBH2unp c m pt
abbrev FS_BM10ex_TINTunp (c : Consts) (m : CFFs) (pt : Pt) : K := BM10ex.TINTunp c m pt
abbrev FS_BM10ex_TDVCS2unp (c : Consts) (m : CFFs) (pt : Pt) : K := BM10ex.TDVCS2unp c m pt
abbrev FS_BM10ex_TBH2LP (c : Consts) (m : CFFs) (pt : Pt) : K := BM10ex.TBH2LP c m pt
abbrev FS_BM10ex_TINTLP (c : Consts) (m : CFFs) (pt : Pt) : K := BM10ex.TINTLP c m pt
abbrev FS_BM10ex_TDVCS2LP (c : Consts) (m : CFFs) (pt : Pt) : K := BM10ex.TDVCS2LP c m pt
abbrev FS_BM10ex_TBH2TP (c : Consts) (m : CFFs) (pt : Pt) : K := BMK.TBH2TP c m pt
abbrev FS_BM10ex_TINTTP (c : Consts) (m : CFFs) (pt : Pt) : K := BMK.TINTTP c m pt
abbrev FS_BM10ex_TDVCS2TP (c : Consts) (m : CFFs) (pt : Pt) : K := BMK.TDVCS2TP c m pt
abbrev FS_BM10ex_PreFacBH (c : Consts) (m : CFFs) (pt : Pt) : K := BMK.PreFacBH c m pt
abbrev FS_BM10ex_PreFacDVCS (c : Consts) (m : CFFs) (pt : Pt) : K := BMK.PreFacDVCS c m pt
abbrev FS_BM10ex_PreFacINT (c : Consts) (m : CFFs) (pt : Pt) : K := BMK.PreFacINT c m pt
abbrev FS_BM10ex_cBH0unp (c : Consts) (m : CFFs) (pt : Pt) : K := BMK.cBH0unp c m pt
abbrev FS_BM10ex_cBH1unp (c : Consts) (m : CFFs) (pt : Pt) : K := BMK.cBH1unp c m pt
abbrev FS_BM10ex_cBH2unp (c : Consts) (m : CFFs) (pt : Pt) : K := BMK.cBH2unp c m pt
abbrev FS_BM10ex_cBH0LP (c : Consts) (m : CFFs) (pt : Pt) : K := BM10ex.cBH0LP c m pt
abbrev FS_BM10ex_cBH1LP (c : Consts) (m : CFFs) (pt : Pt) : K := BM10ex.cBH1LP c m pt
abbrev FS_BM10ex_cBH0TP (c : Consts) (m : CFFs) (pt : Pt) : K := BMK.cBH0TP c m pt
abbrev FS_BM10ex_cBH1TP (c : Consts) (m : CFFs) (pt : Pt) : K := BMK.cBH1TP c m pt
abbrev FS_BM10ex_sBH1TP (c : Consts) (m : CFFs) (pt : Pt) : K := BMK.sBH1TP c m pt
abbrev FS_BM10ex_cINT0unp (c : Consts) (m : CFFs) (pt : Pt) : K := BM10ex.cINT0unp c m pt
abbrev FS_BM10ex_cINT1unp (c : Consts) (m : CFFs) (pt : Pt) : K := BM10ex.cINT1unp c m pt
abbrev FS_BM10ex_sINT1unp (c : Consts) (m : CFFs) (pt : Pt) : K := BM10ex.sINT1unp c m pt
abbrev FS_BM10ex_cINT2unp (c : Consts) (m : CFFs) (pt : Pt) : K := BM10ex.cINT2unp c m pt
abbrev FS_BM10ex_sINT2unp (c : Consts) (m : CFFs) (pt : Pt) : K := BM10ex.sINT2unp c m pt
abbrev FS_BM10ex_cINT3unp (c : Consts) (m : CFFs) (pt : Pt) : K := BM10ex.cINT3unp c m pt
abbrev FS_BM10ex_sINT3unp (c : Consts) (m : CFFs) (pt : Pt) : K := BM10ex.sINT3unp c m pt
abbrev FS_BM10ex_cINT0LP (c : Consts) (m : CFFs) (pt : Pt) : K := BM10ex.cINT0LP c m pt
abbrev FS_BM10ex_cINT1LP (c : Consts) (m : CFFs) (pt : Pt) : K := BM10ex.cINT1LP c m pt
abbrev FS_BM10ex_sINT1LP (c : Consts) (m : CFFs) (pt : Pt) : K := BM10ex.sINT1LP c m pt
abbrev FS_BM10ex_cINT2LP (c : Consts) (m : CFFs) (pt : Pt) : K := BM10ex.cINT2LP c m pt
abbrev FS_BM10ex_sINT2LP (c : Consts) (m : CFFs) (pt : Pt) : K := BM10ex.sINT2LP c m pt
abbrev FS_BM10ex_cINT3LP (c : Consts) (m : CFFs) (pt : Pt) : K := BM10ex.cINT3LP c m pt
abbrev FS_BM10ex_sINT3LP (c : Consts) (m : CFFs) (pt : Pt) : K := BM10ex.sINT3LP c m pt
abbrev FS_BM10ex_cDVCS0unp (c : Consts) (m : CFFs) (pt : Pt) : K := BM10ex.cDVCS0unp c m pt
abbrev FS_BM10ex_cDVCS1unp (c : Consts) (m : CFFs) (pt : Pt) : K := BM10ex.cDVCS1unp c m pt
abbrev FS_BM10ex_sDVCS1unp (c : Consts) (m : CFFs) (pt : Pt) : K := BM10ex.sDVCS1unp c m pt
abbrev FS_BM10ex_cDVCS0LP (c : Consts) (m : CFFs) (pt : Pt) : K := BM10ex.cDVCS0LP c m pt
abbrev FS_BM10ex_cDVCS1LP (c : Consts) (m : CFFs) (pt : Pt) : K := BM10ex.cDVCS1LP c m pt
abbrev FS_BM10ex_sDVCS1LP (c : Consts) (m : CFFs) (pt : Pt) : K := BM10ex.sDVCS1LP c m pt
abbrev FS_BM10ex_ReCCALINTunp (c : Consts) (m : CFFs) (pt : Pt) : K := BMK.ReCCALINTunp c m pt
abbrev FS_BM10ex_ImCCALINTunp (c : Consts) (m : CFFs) (pt : Pt) : K := BMK.ImCCALINTunp c m pt
abbrev FS_BM10ex_ReDELCCALINTunp (c : Consts) (m : CFFs) (pt : Pt) : K := BMK.ReDELCCALINTunp c m pt
abbrev FS_BM10ex_ImDELCCALINTunp (c : Consts) (m : CFFs) (pt : Pt) : K := BMK.ImDELCCALINTunp c m pt
abbrev FS_BM10ex_CCALDVCSunp (c : Consts) (m : CFFs) (pt : Pt) : K := BM10ex.CCALDVCSunp_im0_leff0_reff0 c m pt
abbrev FS_BM10_TBH2unp (c : Consts) (m : CFFs) (pt : Pt) : K := BMK.TBH2unp c m pt
abbrev FS_BM10_TINTunp (c : Consts) (m : CFFs) (pt : Pt) : K := BM10.TINTunp c m pt
abbrev FS_BM10_TDVCS2unp (c : Consts) (m : CFFs) (pt : Pt) : K := BM10.TDVCS2unp c m pt
abbrev FS_BM10_TBH2LP (c : Consts) (m : CFFs) (pt : Pt) : K := BM10ex.TBH2LP c m pt
abbrev FS_BM10_TINTLP (c : Consts) (m : CFFs) (pt : Pt) : K := BM10.TINTLP c m pt
abbrev FS_BM10_TDVCS2LP (c : Consts) (m : CFFs) (pt : Pt) : K := BM10.TDVCS2LP c m pt
abbrev FS_BM10_TBH2TP (c : Consts) (m : CFFs) (pt : Pt) : K := BMK.TBH2TP c m pt
abbrev FS_BM10_TINTTP (c : Consts) (m : CFFs) (pt : Pt) : K := BMK.TINTTP c m pt
abbrev FS_BM10_TDVCS2TP (c : Consts) (m : CFFs) (pt : Pt) : K := BMK.TDVCS2TP c m pt
abbrev FS_BM10_PreFacBH (c : Consts) (m : CFFs) (pt : Pt) : K := BMK.PreFacBH c m pt
abbrev FS_BM10_PreFacDVCS (c : Consts) (m : CFFs) (pt : Pt) : K := BMK.PreFacDVCS c m pt
abbrev FS_BM10_PreFacINT (c : Consts) (m : CFFs) (pt : Pt) : K := BMK.PreFacINT c m pt
abbrev FS_BM10_cBH0unp (c : Consts) (m : CFFs) (pt : Pt) : K := BMK.cBH0unp c m pt
abbrev FS_BM10_cBH1unp (c : Consts) (m : CFFs) (pt : Pt) : K := BMK.cBH1unp c m pt
abbrev FS_BM10_cBH2unp (c : Consts) (m : CFFs) (pt : Pt) : K := BMK.cBH2unp c m pt
abbrev FS_BM10_cBH0LP (c : Consts) (m : CFFs) (pt : Pt) : K := BM10ex.cBH0LP c m pt
abbrev FS_BM10_cBH1LP (c : Consts) (m : CFFs) (pt : Pt) : K := BM10ex.cBH1LP c m pt
abbrev FS_BM10_cBH0TP (c : Consts) (m : CFFs) (pt : Pt) : K := BMK.cBH0TP c m pt
abbrev FS_BM10_cBH1TP (c : Consts) (m : CFFs) (pt : Pt) : K := BMK.cBH1TP c m pt
abbrev FS_BM10_sBH1TP (c : Consts) (m : CFFs) (pt : Pt) : K := BMK.sBH1TP c m pt
abbrev FS_BM10_cINT0unp (c : Consts) (m : CFFs) (pt : Pt) : K := BM10.cINT0unp c m pt
abbrev FS_BM10_cINT1unp (c : Consts) (m : CFFs) (pt : Pt) : K := BM10.cINT1unp c m pt
abbrev FS_BM10_sINT1unp (c : Consts) (m : CFFs) (pt : Pt) : K := BM10.sINT1unp c m pt
abbrev FS_BM10_cINT2unp (c : Consts) (m : CFFs) (pt : Pt) : K := BM10.cINT2unp c m pt
abbrev FS_BM10_sINT2unp (c : Consts) (m : CFFs) (pt : Pt) : K := BM10.sINT2unp c m pt
abbrev FS_BM10_cINT3unp (c : Consts) (m : CFFs) (pt : Pt) : K := BM10.cINT3unp c m pt
abbrev FS_BM10_sINT3unp (c : Consts) (m : CFFs) (pt : Pt) : K := BM10.sINT3unp c m pt
abbrev FS_BM10_cINT0LP (c : Consts) (m : CFFs) (pt : Pt) : K := BM10.cINT0LP c m pt
abbrev FS_BM10_cINT1LP (c : Consts) (m : CFFs) (pt : Pt) : K := BM10.cINT1LP c m pt
abbrev FS_BM10_sINT1LP (c : Consts) (m : CFFs) (pt : Pt) : K := BM10.sINT1LP c m pt
abbrev FS_BM10_cINT2LP (c : Consts) (m : CFFs) (pt : Pt) : K := BM10.cINT2LP c m pt
abbrev FS_BM10_sINT2LP (c : Consts) (m : CFFs) (pt : Pt) : K := BM10.sINT2LP c m pt
abbrev FS_BM10_cINT3LP (c : Consts) (m : CFFs) (pt : Pt) : K := BM10.cINT3LP c m pt
abbrev FS_BM10_sINT3LP (c : Consts) (m : CFFs) (pt : Pt) : K := BM10.sINT3LP c m pt
abbrev FS_BM10_cDVCS0unp (c : Consts) (m : CFFs) (pt : Pt) : K := BM10.cDVCS0unp c m pt
abbrev FS_BM10_cDVCS1unp (c : Consts) (m : CFFs) (pt : Pt) : K := BM10.cDVCS1unp c m pt
abbrev FS_BM10_sDVCS1unp (c : Consts) (m : CFFs) (pt : Pt) : K := BM10.sDVCS1unp c m pt
abbrev FS_BM10_cDVCS0LP (c : Consts) (m : CFFs) (pt : Pt) : K := BM10.cDVCS0LP c m pt
abbrev FS_BM10_cDVCS1LP (c : Consts) (m : CFFs) (pt : Pt) : K := BM10.cDVCS1LP c m pt
abbrev FS_BM10_sDVCS1LP (c : Consts) (m : CFFs) (pt : Pt) : K := BM10.sDVCS1LP c m pt
abbrev FS_BM10_ReCCALINTunp (c : Consts) (m : CFFs) (pt : Pt) : K := BMK.ReCCALINTunp c m pt
abbrev FS_BM10_ImCCALINTunp (c : Consts) (m : CFFs) (pt : Pt) : K := BMK.ImCCALINTunp c m pt
abbrev FS_BM10_ReDELCCALINTunp (c : Consts) (m : CFFs) (pt : Pt) : K := BMK.ReDELCCALINTunp c m pt
abbrev FS_BM10_ImDELCCALINTunp (c : Consts) (m : CFFs) (pt : Pt) : K := BMK.ImDELCCALINTunp c m pt
abbrev FS_BM10_CCALDVCSunp (c : Consts) (m : CFFs) (pt : Pt) : K := BM10.CCALDVCSunp_im0_leff0_reff0 c m pt
abbrev FS_BM10tw2_TBH2unp (c : Consts) (m : CFFs) (pt : Pt) : K := BMK.TBH2unp c m pt
abbrev FS_BM10tw2_TINTunp (c : Consts) (m : CFFs) (pt : Pt) : K := BM10tw2.TINTunp c m pt
abbrev FS_BM10tw2_TDVCS2unp (c : Consts) (m : CFFs) (pt : Pt) : K := BM10.TDVCS2unp c m pt
abbrev FS_BM10tw2_TBH2LP (c : Consts) (m : CFFs) (pt : Pt) : K := BM10ex.TBH2LP c m pt
abbrev FS_BM10tw2_TINTLP (c : Consts) (m : CFFs) (pt : Pt) : K := BM10tw2.TINTLP c m pt
abbrev FS_BM10tw2_TDVCS2LP (c : Consts) (m : CFFs) (pt : Pt) : K := BM10.TDVCS2LP c m pt
abbrev FS_BM10tw2_TBH2TP (c : Consts) (m : CFFs) (pt : Pt) : K := BMK.TBH2TP c m pt
abbrev FS_BM10tw2_TINTTP (c : Consts) (m : CFFs) (pt : Pt) : K := BMK.TINTTP c m pt
abbrev FS_BM10tw2_TDVCS2TP (c : Consts) (m : CFFs) (pt : Pt) : K := BMK.TDVCS2TP c m pt
abbrev FS_BM10tw2_PreFacBH (c : Consts) (m : CFFs) (pt : Pt) : K := BMK.PreFacBH c m pt
abbrev FS_BM10tw2_PreFacDVCS (c : Consts) (m : CFFs) (pt : Pt) : K := BMK.PreFacDVCS c m pt
abbrev FS_BM10tw2_PreFacINT (c : Consts) (m : CFFs) (pt : Pt) : K := BMK.PreFacINT c m pt
abbrev FS_BM10tw2_cBH0unp (c : Consts) (m : CFFs) (pt : Pt) : K := BMK.cBH0unp c m pt
abbrev FS_BM10tw2_cBH1unp (c : Consts) (m : CFFs) (pt : Pt) : K := BMK.cBH1unp c m pt
abbrev FS_BM10tw2_cBH2unp (c : Consts) (m : CFFs) (pt : Pt) : K := BMK.cBH2unp c m pt
abbrev FS_BM10tw2_cBH0LP (c : Consts) (m : CFFs) (pt : Pt) : K := BM10ex.cBH0LP c m pt
abbrev FS_BM10tw2_cBH1LP (c : Consts) (m : CFFs) (pt : Pt) : K := BM10ex.cBH1LP c m pt
abbrev FS_BM10tw2_cBH0TP (c : Consts) (m : CFFs) (pt : Pt) : K := BMK.cBH0TP c m pt
abbrev FS_BM10tw2_cBH1TP (c : Consts) (m : CFFs) (pt : Pt) : K := BMK.cBH1TP c m pt
abbrev FS_BM10tw2_sBH1TP (c : Consts) (m : CFFs) (pt : Pt) : K := BMK.sBH1TP c m pt
abbrev FS_BM10tw2_cINT0unp (c : Consts) (m : CFFs) (pt : Pt) : K := BM10.cINT0unp c m pt
abbrev FS_BM10tw2_cINT1unp (c : Consts) (m : CFFs) (pt : Pt) : K := BM10.cINT1unp c m pt
abbrev FS_BM10tw2_sINT1unp (c : Consts) (m : CFFs) (pt : Pt) : K := BM10.sINT1unp c m pt
abbrev FS_BM10tw2_cINT2unp (c : Consts) (m : CFFs) (pt : Pt) : K := BM10tw2.cINT2unp c m pt
abbrev FS_BM10tw2_sINT2unp (c : Consts) (m : CFFs) (pt : Pt) : K := BM10tw2.sINT2unp c m pt
abbrev FS_BM10tw2_cINT3unp (c : Consts) (m : CFFs) (pt : Pt) : K := BM10tw2.cINT3unp c m pt
abbrev FS_BM10tw2_sINT3unp (c : Consts) (m : CFFs) (pt : Pt) : K := BM10tw2.sINT3unp c m pt
abbrev FS_BM10tw2_cINT0LP (c : Consts) (m : CFFs) (pt : Pt) : K := BM10.cINT0LP c m pt
abbrev FS_BM10tw2_cINT1LP (c : Consts) (m : CFFs) (pt : Pt) : K := BM10.cINT1LP c m pt
abbrev FS_BM10tw2_sINT1LP (c : Consts) (m : CFFs) (pt : Pt) : K := BM10.sINT1LP c m pt
abbrev FS_BM10tw2_cINT2LP (c : Consts) (m : CFFs) (pt : Pt) : K := BM10tw2.cINT2LP c m pt
abbrev FS_BM10tw2_sINT2LP (c : Consts) (m : CFFs) (pt : Pt) : K := BM10tw2.sINT2LP c m pt
abbrev FS_BM10tw2_cINT3LP (c : Consts) (m : CFFs) (pt : Pt) : K := BM10tw2.cINT3LP c m pt
abbrev FS_BM10tw2_sINT3LP (c : Consts) (m : CFFs) (pt : Pt) : K := BM10tw2.sINT3LP c m pt
abbrev FS_BM10tw2_cDVCS0unp (c : Consts) (m : CFFs) (pt : Pt) : K := BM10.cDVCS0unp c m pt
abbrev FS_BM10tw2_cDVCS1unp (c : Consts) (m : CFFs) (pt : Pt) : K := BM10.cDVCS1unp c m pt
abbrev FS_BM10tw2_sDVCS1unp (c : Consts) (m : CFFs) (pt : Pt) : K := BM10.sDVCS1unp c m pt
abbrev FS_BM10tw2_cDVCS0LP (c : Consts) (m : CFFs) (pt : Pt) : K := BM10.cDVCS0LP c m pt
abbrev FS_BM10tw2_cDVCS1LP (c : Consts) (m : CFFs) (pt : Pt) : K := BM10.cDVCS1LP c m pt
abbrev FS_BM10tw2_sDVCS1LP (c : Consts) (m : CFFs) (pt : Pt) : K := BM10.sDVCS1LP c m pt
abbrev FS_BM10tw2_ReCCALINTunp (c : Consts) (m : CFFs) (pt : Pt) : K := BMK.ReCCALINTunp c m pt
abbrev FS_BM10tw2_ImCCALINTunp (c : Consts) (m : CFFs) (pt : Pt) : K := BMK.ImCCALINTunp c m pt
abbrev FS_BM10tw2_ReDELCCALINTunp (c : Consts) (m : CFFs) (pt : Pt) : K := BMK.ReDELCCALINTunp c m pt
abbrev FS_BM10tw2_ImDELCCALINTunp (c : Consts) (m : CFFs) (pt : Pt) : K := BMK.ImDELCCALINTunp c m pt
abbrev FS_BM10tw2_CCALDVCSunp (c : Consts) (m : CFFs) (pt : Pt) : K := BM10.CCALDVCSunp_im0_leff0_reff0 c m pt

/-! DVCS.XS: wgh * PreFacSigma * (unp + in2polarization * (LP | TP)) -/
def XSaux_BMK (c : Consts) (m : CFFs) (pt : Pt) (target : Nat) (in2pol : K) : Option K :=
  let aux : K := FS_BMK_TBH2unp c m pt + FS_BMK_TINTunp c m pt + FS_BMK_TDVCS2unp c m pt
  match target with
  | 0 => some aux
  | 1 => none   -- ValueError: LP not implemented
  | 2 => some (aux + in2pol * (FS_BMK_TBH2TP c m pt + FS_BMK_TINTTP c m pt + FS_BMK_TDVCS2TP c m pt))
  | _ => none
def XS_BMK (c : Consts) (m : CFFs) (pt : Pt) (target : Nat) (in2pol : K) (weighted : Bool) : Option K :=
  (XSaux_BMK c m pt target in2pol).map fun aux =>
    (if weighted then weight_BH c pt else 1) * DVCS.PreFacSigma c m pt * aux

def XSaux_hotfixedBMK (c : Consts) (m : CFFs) (pt : Pt) (target : Nat) (in2pol : K) : Option K :=
  let aux : K := FS_hotfixedBMK_TBH2unp c m pt + FS_hotfixedBMK_TINTunp c m pt + FS_hotfixedBMK_TDVCS2unp c m pt
  match target with
  | 0 => some aux
  | 1 => none   -- ValueError: LP not implemented
  | 2 => some (aux + in2pol * (FS_hotfixedBMK_TBH2TP c m pt + FS_hotfixedBMK_TINTTP c m pt + FS_hotfixedBMK_TDVCS2TP c m pt))
  | _ => none
def XS_hotfixedBMK (c : Consts) (m : CFFs) (pt : Pt) (target : Nat) (in2pol : K) (weighted : Bool) : Option K :=
  (XSaux_hotfixedBMK c m pt target in2pol).map fun aux =>
    (if weighted then weight_BH c pt else 1) * DVCS.PreFacSigma c m pt * aux

def XSaux_BM10ex (c : Consts) (m : CFFs) (pt : Pt) (target : Nat) (in2pol : K) : Option K :=
  let aux : K := FS_BM10ex_TBH2unp c m pt + FS_BM10ex_TINTunp c m pt + FS_BM10ex_TDVCS2unp c m pt
  match target with
  | 0 => some aux
  | 1 => some (aux + in2pol * (FS_BM10ex_TBH2LP c m pt + FS_BM10ex_TINTLP c m pt + FS_BM10ex_TDVCS2LP c m pt))
  | 2 => some (aux + in2pol * (FS_BM10ex_TBH2TP c m pt + FS_BM10ex_TINTTP c m pt + FS_BM10ex_TDVCS2TP c m pt))
  | _ => none
def XS_BM10ex (c : Consts) (m : CFFs) (pt : Pt) (target : Nat) (in2pol : K) (weighted : Bool) : Option K :=
  (XSaux_BM10ex c m pt target in2pol).map fun aux =>
    (if weighted then weight_BH c pt else 1) * DVCS.PreFacSigma c m pt * aux

def XSaux_BM10 (c : Consts) (m : CFFs) (pt : Pt) (target : Nat) (in2pol : K) : Option K :=
  let aux : K := FS_BM10_TBH2unp c m pt + FS_BM10_TINTunp c m pt + FS_BM10_TDVCS2unp c m pt
  match target with
  | 0 => some aux
  | 1 => some (aux + in2pol * (FS_BM10_TBH2LP c m pt + FS_BM10_TINTLP c m pt + FS_BM10_TDVCS2LP c m pt))
  | 2 => some (aux + in2pol * (FS_BM10_TBH2TP c m pt + FS_BM10_TINTTP c m pt + FS_BM10_TDVCS2TP c m pt))
  | _ => none
def XS_BM10 (c : Consts) (m : CFFs) (pt : Pt) (target : Nat) (in2pol : K) (weighted : Bool) : Option K :=
  (XSaux_BM10 c m pt target in2pol).map fun aux =>
    (if weighted then weight_BH c pt else 1) * DVCS.PreFacSigma c m pt * aux

def XSaux_BM10tw2 (c : Consts) (m : CFFs) (pt : Pt) (target : Nat) (in2pol : K) : Option K :=
  let aux : K := FS_BM10tw2_TBH2unp c m pt + FS_BM10tw2_TINTunp c m pt + FS_BM10tw2_TDVCS2unp c m pt
  match target with
  | 0 => some aux
  | 1 => some (aux + in2pol * (FS_BM10tw2_TBH2LP c m pt + FS_BM10tw2_TINTLP c m pt + FS_BM10tw2_TDVCS2LP c m pt))
  | 2 => some (aux + in2pol * (FS_BM10tw2_TBH2TP c m pt + FS_BM10tw2_TINTTP c m pt + FS_BM10tw2_TDVCS2TP c m pt))
  | _ => none
def XS_BM10tw2 (c : Consts) (m : CFFs) (pt : Pt) (target : Nat) (in2pol : K) (weighted : Bool) : Option K :=
  (XSaux_BM10tw2 c m pt target in2pol).map fun aux =>
    (if weighted then weight_BH c pt else 1) * DVCS.PreFacSigma c m pt * aux


end Gep.F

-- AUTO-GENERATED from lean/Scalar/Evol.lean.in — do not edit
import Model.ScalarF
set_option linter.unusedVariables false
namespace Gep.F
/-
  Evol — model of gepard.evolution for ONE Mellin–Barnes point j (the numpy arrays over the
  contour index k are List.map of these functions): lambdaf, projectors (with the square-root
  trick), rnlof's r1 and r1proj, erfunc / erfunc_nd (one entry), the LO factor R^(−λ/β0),
  evolop (LO and NLO-diagonal assembly, the msbar non-diagonal term through its R-dependent
  prefactor), evolopns, and wilson.calc_wce's p_mat combination.   (property C02)

  Parameters of the model (data fed by the harness, abstract in the theorems):
  γ0, γ1 (gepard.adim — property C03), β0, β1 (qcd.beta), R = as2pf(Q²)/as2pf(Q0²) > 0
  (gepard.qcd.as2pf — property C15; only its LO closed form is repeated here as `as2pfLO`),
  the Wilson coefficients of calc_wc, and everything in cb1 that does not depend on R.
-/
namespace Evol

/-! ### complex helpers on `Cx K` -/

def cone : Cx K := ⟨1, 0⟩
def czero : Cx K := ⟨0, 0⟩

/-- exp of a complex number -/
def cexp (z : Cx K) : Cx K := ⟨kexp z.re * kcos z.im, kexp z.re * ksin z.im⟩

/-- `x ** z` for a positive real x and complex z, as numpy computes it for a non-integer
    exponent: cpow(x, z) = cexp(z · clog x), clog x = (log x, 0) -/
def rpowc (x : K) (z : Cx K) : Cx K := cexp (Cx.smul (klog x) z)

/-- principal complex square root (np.sqrt on a complex array), the usual cancellation-free
    formula; the sign of a zero imaginary part on the cut is not modelled -/
def csqrt (z : Cx K) : Cx K :=
  let r := ksqrt (z.re * z.re + z.im * z.im)
  if r ≤ 0 then ⟨0, 0⟩
  else if 0 ≤ z.re then
    let t := ksqrt ((r + z.re) / 2)
    ⟨t, z.im / (2 * t)⟩
  else
    let t := ksqrt ((r - z.re) / 2)
    ⟨kabs z.im / (2 * t), if 0 ≤ z.im then t else -t⟩

/-! ### 2×2 complex matrices, numpy index order [[a, b], [c, d]] = [[QQ, QG], [GQ, GG]] -/

structure M2 where
  a : Cx K
  b : Cx K
  c : Cx K
  d : Cx K

namespace M2
def one : M2 := ⟨cone, czero, czero, cone⟩
def zero : M2 := ⟨czero, czero, czero, czero⟩
def add (x y : M2) : M2 := ⟨x.a + y.a, x.b + y.b, x.c + y.c, x.d + y.d⟩
def sub (x y : M2) : M2 := ⟨x.a - y.a, x.b - y.b, x.c - y.c, x.d - y.d⟩
def neg (x : M2) : M2 := ⟨-x.a, -x.b, -x.c, -x.d⟩
/-- matrix product -/
def mul (x y : M2) : M2 :=
  ⟨x.a * y.a + x.b * y.c, x.a * y.b + x.b * y.d, x.c * y.a + x.d * y.c, x.c * y.b + x.d * y.d⟩
/-- complex scalar times matrix -/
def smulC (z : Cx K) (x : M2) : M2 := ⟨z * x.a, z * x.b, z * x.c, z * x.d⟩
/-- real scalar times matrix -/
def smulR (r : K) (x : M2) : M2 := ⟨Cx.smul r x.a, Cx.smul r x.b, Cx.smul r x.c, Cx.smul r x.d⟩
/-- (1,1)·x : the two column sums -/
def colsum (x : M2) : Cx K × Cx K := (x.a + x.c, x.b + x.d)
end M2

/-! ### lambdaf, projectors -/

/-- `lambdaf(gam0)`: (lam[0], lam[1]) -/
def lambdaf (g : M2) : Cx K × Cx K :=
  let dif := g.a - g.d
  let aux := dif * csqrt (cone + Cx.smul 4.0 g.b * g.c / (dif * dif))
  let lam1 := Cx.smul 0.5 (g.a + g.d - aux)
  (lam1, lam1 + aux)

/-- `projectors(gam0)`: (pr[0], pr[1]) = (P₊, P₋) in the code's labelling -/
def projectors (g : M2) : M2 × M2 :=
  let lam := lambdaf g
  let den := cone / (lam.1 - lam.2)
  let ssm : M2 := ⟨g.a - lam.2, g.b, g.c, g.d - lam.2⟩
  let ssp : M2 := ⟨g.a - lam.1, g.b, g.c, g.d - lam.1⟩
  (M2.smulC den ssm, M2.smulC (-den) ssp)

/-! ### rnlof, rnlonsf -/

/-- `r1 = inv * (gam1 - 0.5 * inv * beta1 * gam0)`, inv = 1/β0 (singlet, matrix) -/
def r1mat (g0 g1 : M2) (b0 b1 : K) : M2 :=
  let inv := 1 / b0
  M2.smulR inv (M2.sub g1 (M2.smulR (0.5 * inv * b1) g0))

/-- the same for the non-singlet numbers (rnlonsf) -/
def r1ns (g0 g1 : Cx K) (b0 b1 : K) : Cx K :=
  let inv := 1 / b0
  Cx.smul inv (g1 - Cx.smul (0.5 * inv * b1) g0)

/-- `r1proj[a,b] = P_a · r1 · P_b`, in the order [0,0], [0,1], [1,0], [1,1] -/
structure R1Proj where
  pp : M2
  pm : M2
  mp : M2
  mm : M2

def r1proj (g0 g1 : M2) (b0 b1 : K) : R1Proj :=
  let pr := projectors g0
  let r1 := r1mat g0 g1 b0 b1
  ⟨M2.mul (M2.mul pr.1 r1) pr.1, M2.mul (M2.mul pr.1 r1) pr.2,
   M2.mul (M2.mul pr.2 r1) pr.1, M2.mul (M2.mul pr.2 r1) pr.2⟩

/-! ### erfunc -/

/-- one entry of `erfunc` / `erfunc_nd`:  bll = β0 + dl;  β0 · (1 − (1/R)^(bll/β0)) / bll -/
def erEntry (b0 : K) (dl : Cx K) (R : K) : Cx K :=
  let bll : Cx K := Cx.ofReal b0 + dl
  Cx.smul b0 ((cone - rpowc (1 / R) (Cx.divR bll b0)) / bll)

/-- `erfunc(m, lam, lam, R)`: dl[a,b] = (lam[0] − lam[1]) · levi_civita[a,b] -/
structure Er where
  pp : Cx K
  pm : Cx K
  mp : Cx K
  mm : Cx K

def erfunc (b0 : K) (lam : Cx K × Cx K) (R : K) : Er :=
  let d := lam.1 - lam.2
  ⟨erEntry b0 czero R, erEntry b0 d R, erEntry b0 (-d) R, erEntry b0 czero R⟩

/-- `Rfact = R ** (-lam / b0)` for one eigenvalue -/
def rfact (b0 : K) (lam : Cx K) (R : K) : Cx K := rpowc R (Cx.divR (-lam) b0)

/-! ### evolop: LO, NLO diagonal part, non-diagonal prefactor -/

/-- `evola0 = Σ_a pr[a] · Rfact[a]` -/
def evolopLO (g0 : M2) (b0 R : K) : M2 :=
  let lam := lambdaf g0
  let pr := projectors g0
  M2.add (M2.smulC (rfact b0 lam.1 R) pr.1) (M2.smulC (rfact b0 lam.2 R) pr.2)

/-- `evola1 = Σ_ab −er1[a,b] · r1proj[a,b] · Rfact[b]` (before the non-diagonal term) -/
def evolopNLOdiag (g0 g1 : M2) (b0 b1 R : K) : M2 :=
  let lam := lambdaf g0
  let er := erfunc b0 lam R
  let rp := r1proj g0 g1 b0 b1
  let f0 := rfact b0 lam.1 R
  let f1 := rfact b0 lam.2 R
  M2.add (M2.add (M2.smulC f0 (M2.smulC (-er.pp) rp.pp)) (M2.smulC f1 (M2.smulC (-er.pm) rp.pm)))
         (M2.add (M2.smulC f0 (M2.smulC (-er.mp) rp.mp)) (M2.smulC f1 (M2.smulC (-er.mm) rp.mm)))

/-- One summand of `cb1`'s einsum 'n,nab,nabij,b->nij' (singlet): everything that depends on R is
    here — `er1[n,a,b]·(λn_a − λk_b) · X · R^(−λk_b/β0) / β0`; X = fac_n·(bet_proj_DM+proj_GOD)[n,a,b,i,j]
    times the quadrature weight, tan factor and 0.25j of evolop, is data. -/
def cb1Term (b0 R : K) (lamn lamk X : Cx K) : Cx K :=
  Cx.divR (erEntry b0 (lamn - lamk) R * (lamn - lamk) * X * rfact b0 lamk R) b0

/-- the non-singlet summand: `r1·(γn − γk)·(β0 − γk + GOD_11)·R^(−γk/β0)` with
    r1 = (1 − (1/R)^((β0+γn−γk)/β0))/(β0+γn−γk); X collects fac, (β0 − γk + GOD_11), weights -/
def cb1TermNS (b0 R : K) (gamn gamk X : Cx K) : Cx K :=
  let bll : Cx K := Cx.ofReal b0 + gamn - gamk
  (cone - rpowc (1 / R) (Cx.divR bll b0)) / bll * (gamn - gamk) * X * rfact b0 gamk R

/-- the second Mellin–Barnes sum of evolop for one matrix entry: Σ over (n, a, b) and the two
    conjugate branches of the summands above; each item is (λn_a, λk_b, X) -/
def ndSum (b0 R : K) (items : List (Cx K × Cx K × Cx K)) : Cx K :=
  items.foldl (fun acc it => acc + cb1Term b0 R it.1 it.2.1 it.2.2) czero

def ndSumNS (b0 R : K) (items : List (Cx K × Cx K × Cx K)) : Cx K :=
  items.foldl (fun acc it => acc + cb1TermNS b0 R it.1 it.2.1 it.2.2) czero

/-- the four entries of the non-diagonal term, each as its list of summands -/
structure NdItems where
  a : List (Cx K × Cx K × Cx K)
  b : List (Cx K × Cx K × Cx K)
  c : List (Cx K × Cx K × Cx K)
  d : List (Cx K × Cx K × Cx K)

def ndMat (b0 R : K) (nd : NdItems) : M2 :=
  ⟨ndSum b0 R nd.a, ndSum b0 R nd.b, ndSum b0 R nd.c, ndSum b0 R nd.d⟩

/-- `evolop(m, j, Q2, process_class)[k]` = (evola0, evola1).  `nd = some items` when
    process_class ≠ 'DIS' and scheme = 'msbar' (the branch is taken only for p = 1). -/
def evolop (p : Nat) (g0 g1 : M2) (b0 b1 R : K) (nd : Option NdItems) : M2 × M2 :=
  let e0 := evolopLO g0 b0 R
  if p = 1 then
    let e1 := evolopNLOdiag g0 g1 b0 b1 R
    match nd with
    | none => (e0, e1)
    | some items => (e0, M2.add e1 (ndMat b0 R items))
  else (e0, M2.zero)

/-! ### evolopns -/

/-- `evolopns(m, j, Q2, process_class)[k]` = (evola0, evola1); prty = 1 -/
def evolopns (p : Nat) (g0 g1 : Cx K) (b0 b1 R : K) (nd : Option (List (Cx K × Cx K × Cx K))) :
    Cx K × Cx K :=
  let r1 := r1ns g0 g1 b0 b1
  let aux1 := Cx.smul (-(1 - 1 / R)) r1
  let rf := rfact b0 g0 R
  if p = 1 then
    match nd with
    | none => (rf, aux1 * rf)
    | some items => (rf, aux1 * rf + ndSumNS b0 R items)
  else (rf, czero)

/-! ### the coupling at LO (qcd.as2pf with p = 0) and calc_wce's combination -/

/-- `as2pf(0, nf, r2, as0, r20)` with lrrat = log(r2/r20) passed in -/
def as2pfLO (b0 as0 lrrat : K) : K :=
  2 * (0.5 * as0 / (1 - 0.5 * b0 * as0 * lrrat))

/-- the evolution operator that multiplies the LO Wilson coefficient in calc_wce:
    p_mat = [[1, asmuf2], [asmur2, 0]]  ⇒  E0 + asmuf2·E1 -/
def combine (asmuf2 : K) (e : M2 × M2) : M2 := M2.add e.1 (M2.smulR asmuf2 e.2)

/-- `einsum('pi,pq,qij->j', wc, p_mat, evola)` for the singlet block: wc0, wc1 are the (Q,G) rows of
    the LO and NLO Wilson coefficients -/
def wceSinglet (wc0 wc1 : Cx K × Cx K) (asmuf2 asmur2 : K) (e : M2 × M2) : Cx K × Cx K :=
  let m := combine asmuf2 e
  let n := M2.smulR asmur2 e.1
  (wc0.1 * m.a + wc0.2 * m.c + (wc1.1 * n.a + wc1.2 * n.c),
   wc0.1 * m.b + wc0.2 * m.d + (wc1.1 * n.b + wc1.2 * n.d))

def wceNS (wc0 wc1 : Cx K) (asmuf2 asmur2 : K) (e : Cx K × Cx K) : Cx K :=
  wc0 * (e.1 + Cx.smul asmuf2 e.2) + wc1 * Cx.smul asmur2 e.1

end Evol

end Gep.F

-- AUTO-GENERATED from lean/Scalar/Harm.lean.in — do not edit
import Proofs.ScalarR
set_option linter.unusedVariables false
noncomputable section
open Classical
namespace Gep.R
/-
  Harm — model of the harmonic / integrated observables of gepard   (property C08):
    gepard.quadrature.Hquadrature (= quadSciPy10transposed), tquadrature (= quadSciPy5),
    gepard.dvcs.DVCS._phiharmonic, XSintphi, XwA,
    gepard.theory.Theory.XGAMMA / _XGAMMA_int.
  The quadrature RULE (Gauss–Legendre abscissas and weights on [-1,1], scipy `p_roots`) is DATA fed by
  the harness; the observable as a function of the azimuth (resp. of t) is a function parameter.  The
  integrator itself is a parameter `Q f a b` of `phiharmonic`, `xsintphi`, `xwa`, `xgamma`, so that
  the SAME model text is used with the code's rule (`glquad q`) by the driver and with the exact
  integral by the theorems of Props/C08.lean.
-/
namespace Harm

/-- quadrature data: the pairs (roots[i], weights[i]) in order -/
abbrev Quad := List (K × K)

/-- the abscissas `y = (b-a)*(roots+1)/2.0 + a` -/
def nodes (q : Quad) (a b : K) : List K :=
  q.map fun rw => (b - a) * (rw.1 + 1) / 2 + a

/-- `quadSciPy10transposed(func, a, b)` / `quadSciPy5(func, a, b)`:
    `(b-a)/2.0 * sum(weights*func(y))`, the sum taken left to right from 0 -/
def glquad (q : Quad) (f : K → K) (a b : K) : K :=
  (b - a) / 2 * q.foldl (fun acc rw => acc + rw.2 * f ((b - a) * (rw.1 + 1) / 2 + a)) 0

/-- outcome of an evaluation -/
inductive Res where
  | ok (v : K)
  | valueError

/-- how the DataPoint (together with `vars`) fixes the azimuth -/
inductive Azi where
  | phi (x : K)      -- 'phi' in pt, or 'phi' in kwargs['vars']
  | ftn (n : K)      -- otherwise, 'FTn' in pt
  | neither          -- neither: ValueError

/-- `DVCS._phiharmonic(fun, pt, **kwargs)`; `f` = fun as a function of the azimuth, `Q` = Hquadrature.
    Branch order as in the code: FTn < 0, FTn > 0, FTn == 0, else (NaN) ValueError; then `/ pi`. -/
def phiharmonic (Q : (K → K) → K → K → K) (az : Azi) (f : K → K) : Res :=
  match az with
  | .phi x => .ok (f x)
  | .ftn n =>
    if n < 0 then .ok (Q (fun phi => f phi * ksin (-n * phi)) 0 (2 * kpi) / kpi)
    else if n > 0 then .ok (Q (fun phi => f phi * kcos (n * phi)) 0 (2 * kpi) / kpi)
    else if n ≤ 0 ∧ 0 ≤ n then .ok (Q f 0 (2 * kpi) / 2 / kpi)
    else .valueError
  | .neither => .valueError

/-- `DVCS.XSintphi(pt)`: FTn is forced to 0, then `2*pi*XUU(pt)`; a point that carries phi is
    evaluated at that phi (the code's behaviour).  `xuu` = `_XUU` as a function of the azimuth. -/
def xsintphi (Q : (K → K) → K → K → K) (phi : Option K) (xuu : K → K) : Res :=
  let az : Azi := match phi with
    | some x => .phi x
    | none => .ftn 0
  match phiharmonic Q az xuu with
  | .ok v => .ok (2 * kpi * v)
  | .valueError => .valueError

/-- `DVCS.XwA(pt)`: ratio of the first two cosine harmonics of the weighted cross section;
    `xuuw` = XUU(pt, vars={'phi': phi}, weighted=True) -/
def xwa (Q : (K → K) → K → K → K) (xuuw : K → K) : K :=
  let b0 := Q xuuw 0 (2 * kpi) / (2 * kpi)
  let b1 := Q (fun phi => xuuw phi * kcos phi) 0 (2 * kpi) / kpi
  b1 / b0

/-- `Theory.XGAMMA(pt)`: differential if the point has t (or tm); otherwise tquadrature of the
    differential one over t ∈ [-tmmax, 0], tmmax defaulting to 1 GeV².
    `dsdt` = `_XGAMMA_DVCS_t` (or `_XGAMMA_rho0_t`) as a function of t, `Q` = tquadrature. -/
def xgamma (Q : (K → K) → K → K → K) (t : Option K) (tmmax : Option K) (dsdt : K → K) : K :=
  match t with
  | some t => dsdt t
  | none =>
    let tm : K := match tmmax with
      | some x => x
      | none => 1
    Q dsdt (-tm) 0

end Harm

end Gep.R

-- AUTO-GENERATED from lean/Scalar/ChiSq.lean.in — do not edit
import Proofs.ScalarR
set_option linter.unusedVariables false
noncomputable section
open Classical
namespace Gep.R
/-
  ChiSq — model of gepard.theory.Theory.chisq_single / pull (property C10).
  The theory is a parameter: each measurement arrives with its prediction.
-/
structure Meas where
  pred : K
  val : K
  err : K
  errplus : K
  errminus : K

/-- `diff = predict(pt) - pt.val` and the branch on `asym` / sign of the residual -/
def pullOf (asym : Bool) (m : Meas) : K :=
  let diff := m.pred - m.val
  if asym then (if diff > 0 then diff / m.errplus else diff / m.errminus)
  else diff / m.err

/-- `allpulls = [...]; chi = sum(p*p for p in allpulls)` — Python's sum: left fold from 0 -/
def chisq (asym : Bool) (ms : List Meas) : K :=
  (ms.map (pullOf asym)).foldl (fun acc p => acc + p * p) 0

/-- `Theory.pull(pt)` -/
def pull (m : Meas) : K := (m.pred - m.val) / m.err

end Gep.R

"""Entry point: ./check <Cxx> [--tier quick|thorough] [--replay file]"""
import argparse
import importlib
import os
import sys
import traceback

sys.path.insert(0, os.path.dirname(os.path.abspath(__file__)))
import common  # noqa: E402


def main():
    ap = argparse.ArgumentParser()
    ap.add_argument('prop')
    ap.add_argument('--tier', default=os.environ.get('VERIF_TIER', 'quick'),
                    choices=['quick', 'thorough'])
    ap.add_argument('--replay', default=None)
    a = ap.parse_args()
    mod = importlib.import_module('props.' + a.prop)
    if a.replay:
        sys.exit(mod.replay(a.replay))
    rep = common.Report(a.prop, a.tier)
    try:
        rc = mod.run(rep)
    except common.Timeout as e:
        print('TIMEOUT in %s: %s' % (a.prop, e))
        sys.exit(2)
    except common.ModelUnavailable as e:
        # the executable model no longer builds against the current source and this harness had no
        # oracle-only path left to run: the correspondence is broken, no failing input was pinned down
        rep.violation('model-unavailable', 'the executable model could not be built: %s' % e,
                      dict(correspondence='model driver of %s' % a.prop, detail=str(e)), found_input=False)
        sys.exit(rep.finish(level='proof', checker_cmd='(model driver does not build)', trusted=[],
                            explanation='run aborted: ' + str(e)))
    except Exception as e:
        tb = traceback.extract_tb(e.__traceback__)
        src = os.path.join(common.REPO, 'src')
        in_repo = [f for f in tb if f.filename.startswith(src)]
        traceback.print_exc()
        if in_repo:
            # the real code raised at a place where the harness expects it to work (the harness catches the
            # exceptions the property allows): the property is no longer shown to hold, but no input was pinned down
            f = in_repo[-1]
            rep.violation('unexpected-exception/%s/%s' % (type(e).__name__, os.path.basename(f.filename)),
                          'gepard raised %s: %s at %s:%d (%s) while the check was evaluating it' % (
                              type(e).__name__, e, os.path.relpath(f.filename, common.REPO), f.lineno, f.name),
                          dict(traceback=traceback.format_exc()[-3000:]), found_input=False)
            sys.exit(rep.finish(level='proof', checker_cmd='(aborted by an exception of the code under study)',
                                trusted=[], explanation='run aborted: ' + repr(e)))
        # an internal error of the machinery is not a verdict about the property
        print('ERROR: check %s crashed (machinery failure, no verdict)' % a.prop)
        sys.exit(3)
    sys.exit(rc)


if __name__ == '__main__':
    main()

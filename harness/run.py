"""Entry point: ./check <Cxx> [--tier quick|thorough] [--replay file]"""
import argparse
import importlib
import os
import sys
import traceback

sys.path.insert(0, os.path.dirname(os.path.abspath(__file__)))
import common  # noqa: E402


def main():
    ap = argparse.ArgumentParser()
    ap.add_argument('prop')
    ap.add_argument('--tier', default=os.environ.get('VERIF_TIER', 'quick'),
                    choices=['quick', 'thorough'])
    ap.add_argument('--replay', default=None)
    a = ap.parse_args()
    mod = importlib.import_module('props.' + a.prop)
    if a.replay:
        sys.exit(mod.replay(a.replay))
    rep = common.Report(a.prop, a.tier)
    try:
        rc = mod.run(rep)
    except common.Timeout as e:
        print('TIMEOUT in %s: %s' % (a.prop, e))
        sys.exit(2)
    except Exception:
        # an internal error of the machinery is not a verdict about the property
        traceback.print_exc()
        print('ERROR: check %s crashed (machinery failure, no verdict)' % a.prop)
        sys.exit(3)
    sys.exit(rc)


if __name__ == '__main__':
    main()

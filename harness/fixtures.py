"""Shared fixtures: shipped theories with the bundled points they describe, ad-hoc theories."""
import common  # noqa: F401  (sets sys.path to /repo/src)

_cache = {}


def shipped():
    """[(name, theory, points)] for the theories in gepard.fits"""
    if 'shipped' not in _cache:
        from gepard import fits
        out = []
        for name in ['KM09a', 'KM09b', 'KM10', 'KM10b', 'AFKM12', 'KM15']:
            out.append((name, getattr(fits, 'th_' + name), list(getattr(fits, 'pts_' + name))))
        _cache['shipped'] = out
    return _cache['shipped']


def const_cff_class():
    """A CFF model whose eight CFFs are free parameters (constant in kinematics)."""
    if 'ccff' not in _cache:
        import gepard as g

        class ConstCFF(g.CFF):
            def __init__(self, **kwargs):
                self.add_parameters({c: 0.0 for c in g.CFF.allCFFs})
                super().__init__(**kwargs)
        for c in g.CFF.allCFFs:
            exec("def %s(self, pt): return self.parameters['%s']" % (c, c))
            setattr(ConstCFF, c, locals()[c])
        _cache['ccff'] = ConstCFF
    return _cache['ccff']


def adhoc(eff='KellyEFF', formulas='BM10', cffs=None):
    """Theory(EFF, constant CFFs, formula set)"""
    import gepard as g
    key = ('adhoc', eff, formulas)
    if key not in _cache:
        _cache[key] = type('Adhoc_%s_%s' % (eff, formulas),
                           (getattr(g, eff), const_cff_class(), getattr(g, formulas)), {})
    th = _cache[key]()
    if cffs:
        th.parameters.update(cffs)
    return th


def dvcs_points(need_phi=None, lp=None):
    """bundled ep->epgamma / en->engamma points (after to_conventions)"""
    import gepard as g
    pts = []
    for k in sorted(g.dset):
        ds = g.dset[k]
        if getattr(ds, 'process', None) not in ('ep2epgamma', 'en2engamma'):
            continue
        pts.extend(ds)
    return pts

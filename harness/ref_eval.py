"""Reference evaluator run in a FRESH interpreter: every job is evaluated on a freshly constructed
theory and a freshly constructed point, in the order given (the caller permutes the order), so that
process-global hidden state (class-level caches, module globals) cannot agree with the main process
by accident.  usage: ref_eval.py jobs.json  → JSON list of canonical results on stdout"""
import json
import os
import struct
import sys

sys.path.insert(0, os.path.dirname(os.path.abspath(__file__)))
import common  # noqa: E402,F401  (puts $GEPARD_REPO/src first on sys.path)


def canon(r):
    import numpy as np
    if isinstance(r, tuple):
        return 'T(' + ','.join(canon(x) for x in r) + ')'
    if isinstance(r, np.ndarray):
        return 'A(' + ','.join(struct.pack('>d', float(x)).hex() for x in r.ravel()) + ')'
    try:
        return struct.pack('>d', float(r)).hex()
    except Exception:
        return repr(r)


def build(spec):
    import gepard as g
    cls = type('RefT', tuple(getattr(g, b) for b in spec['bases']), {})
    th = cls(**spec.get('kwargs', {}))
    th.parameters.update(spec.get('params', {}))
    return th


def run_job(job):
    import gepard as g
    th = build(job['theory'])
    pt = g.DataPoint(**job['point'])
    try:
        if job['op'] == 'predict':
            return canon(th.predict(pt, observable=job['observable']))
        return canon(getattr(th, job['op'])(pt))
    except Exception as e:
        return 'EXC:' + type(e).__name__


def main():
    jobs = json.load(open(sys.argv[1]))
    print(json.dumps([run_job(j) for j in jobs]))


if __name__ == '__main__':
    main()

"""C20 — a theory built from blocks does not depend on the order of the blocks.

Lean: Props/C20.lean over Model/Mro.lean (C3 merge/linearisation, name lookup along the MRO,
cooperative-__init__ simulation) and the class table Gen/ClassTable.lean that
tools/gen_classtable.py extracts from /repo/src/gepard/*.py with `ast` on every run.

Correspondence (exact, discrete): for every ordering of the documented maximal theory (5040) and
of the shipped KM combinations, Python's `type('T', bases, {})` + `T()` versus the model:
MRO, success / exception kind / missing attribute, the instance __dict__ (names, creation order,
state reached when construction fails), the values taken from kwargs defaults, the sequence of
attribute writes with the class whose code performs them, and name resolution.
Property on the real code (oracle streams): every instantiable ordering has the same resolution
map and the same instance state as the reference ordering, and gives bit-identical DVCS, DIS and
DVMP observables (sampled in quick, exhaustive in thorough).
"""
import hashlib
import importlib
import itertools
import os
import re
import sys
import time
import warnings

import common

EXTENSION_IS_VIOLATION = False    # block sets outside the property's quantifier are only reported


# ------------------------------------------------------------------------------------------
# tables
# ------------------------------------------------------------------------------------------

class Tables:
    def __init__(self, ex, info):
        self.ex = ex
        self.order = info['classes']
        self.cid = {n: i for i, n in enumerate(self.order)}
        self.syms = info['syms']
        self.sid = {s: i for i, s in enumerate(self.syms)}
        self.documented = info['documented']
        self.km = info['km']
        self.real = {}
        import builtins
        for n in self.order:
            if n in ('object', 'dict', 'list', 'Exception'):
                self.real[n] = getattr(builtins, n)
            else:
                mod = importlib.import_module('gepard.' + ex.classes[n]['module'])
                self.real[n] = getattr(mod, n)
        self.rid = {id(c): self.cid[n] for n, c in self.real.items()}
        self.allnames = []
        for n in self.order:
            if n in ex.classes:
                for d in ex.classes[n]['defs']:
                    if d.startswith('__') and d.endswith('__') and d != '__init__':
                        continue       # special methods of non-block classes (data.py): not looked up here
                    if d not in self.allnames:
                        self.allnames.append(d)

    def ids(self, classes):
        return [self.rid[id(c)] for c in classes]


def same_value(a, b):
    import numpy as np
    if isinstance(a, np.ndarray) or isinstance(b, np.ndarray):
        return (isinstance(a, np.ndarray) and isinstance(b, np.ndarray) and a.dtype == b.dtype
                and a.shape == b.shape and a.tobytes() == b.tobytes())
    return type(a) is type(b) and a == b


def canon(v, self_obj=None, depth=0):
    """canonical text of an instance attribute value (dicts by sorted key, arrays by bytes)"""
    import numpy as np
    if v is self_obj and v is not None:
        return '<self>'
    if isinstance(v, np.ndarray):
        return 'nd(%s,%s,%s)' % (v.dtype, v.shape, hashlib.sha1(v.tobytes()).hexdigest()[:16])
    if isinstance(v, (np.floating, float)):
        return 'f' + common.f2hex(float(v))
    if isinstance(v, dict):
        return '{' + ','.join(sorted('%s:%s' % (canon(k), canon(x, self_obj, depth + 1))
                                     for k, x in v.items())) + '}'
    if isinstance(v, (list, tuple)):
        return type(v).__name__ + '[' + ','.join(canon(x, self_obj, depth + 1) for x in v) + ']'
    return '%s:%r' % (type(v).__name__, v)


def state_digest(obj):
    return {k: canon(v, obj) for k, v in vars(obj).items()}


# ------------------------------------------------------------------------------------------
# one ordering on the real code
# ------------------------------------------------------------------------------------------

ATTR_RE = re.compile(r"has no attribute '(\w+)'")


def exc_kind(tb, e):
    if isinstance(e, AttributeError):
        m = ATTR_RE.search(str(e))
        if m and m.group(1) in tb.sid:
            return 'attr:%d' % tb.sid[m.group(1)]
        return 'attr:?' + str(e)[:60]
    if isinstance(e, TypeError):
        return 'type'
    return 'other:' + type(e).__name__


def real_order(tb, bases):
    """class creation + instantiation on the real code; returns dict of observations"""
    out = {}
    try:
        T = type('T', tuple(bases), {})
    except TypeError:
        out['mro'] = None
        return out, None, None
    out['mro'] = tb.ids(T.__mro__[1:])
    obj = None
    try:
        obj = T()
        out['out'] = 'ok'
    except Exception as e:       # noqa: BLE001 - every exception of the real code is recorded
        out['out'] = exc_kind(tb, e)
    # the same construction keeping the object, to see the state reached on failure
    o2 = object.__new__(T)
    try:
        T.__init__(o2)
        out['out2'] = 'ok'
    except Exception as e:       # noqa: BLE001
        out['out2'] = exc_kind(tb, e)
    out['attrs'] = list(vars(o2).keys())
    return out, T, (obj if obj is not None else None), o2


def real_writes(tb, bases):
    """instrumented twin: sequence of (class whose code writes, attribute)"""
    log = []

    def __setattr__(self, name, value):
        f = sys._getframe(1)
        log.append((f.f_code.co_qualname, name))
        object.__setattr__(self, name, value)
    try:
        T2 = type('T', tuple(bases), {'__setattr__': __setattr__})
    except TypeError:
        return None
    try:
        T2()
    except Exception:            # noqa: BLE001
        pass
    res = []
    for q, name in log:
        cname = q.split('.')[0]
        res.append('%s.%s' % (tb.cid.get(cname, '?' + q), tb.sid.get(name, '?' + name)))
    return res


def resolution_map(tb, T):
    """name -> id of the first class of the MRO (after T) whose body defines it"""
    res = {}
    mro = T.__mro__[1:]
    dicts = [(tb.rid[id(c)], vars(c)) for c in mro]
    for n in tb.allnames:
        r = '-'
        for cid, d in dicts:
            if n in d:
                r = cid
                break
        res[n] = r
    return res


def parse_model(line):
    f = dict(tok.split(':', 1) for tok in line.split(' '))
    mro = None if f['mro'] == '-' else [int(x) for x in f['mro'].split(',')]
    attrs = []
    if f['attrs'] != '-':
        for t in f['attrs'].split(','):
            a, v = t.split('=')
            attrs.append((int(a), v))
    return {'mro': mro, 'out': f['out'], 'attrs': attrs, 'clean': f['clean']}


# ------------------------------------------------------------------------------------------
# observables
# ------------------------------------------------------------------------------------------

class Observables:
    def __init__(self, g):
        self.g = g
        self.pt_xs = g.dset[101][3]                          # CLAS XLUw: BH + interference + DVCS², EFFs
        self.pt_dis = g.dset[201][0]
        self.pt_rho = g.DataPoint({'Q2': 6.6, 'W': 75., 't': -0.025, 'process': 'gammastarp2rho0p'})
        self.pt_xg = g.DataPoint({'W': 82., 'Q2': 8., 't': -0.2})

    def evaluate(self, th, which):
        """list of (name, hex bits or EXC:kind)"""
        out = []
        for name in which:
            try:
                if name == 'DVCS:XLUw':
                    v = th.predict(self.pt_xs.copy())
                elif name == 'DVCS:XGAMMA':
                    v = th.XGAMMA(self.pt_xg.copy())
                elif name == 'DIS:F2':
                    v = th.DISF2(self.pt_dis.copy())
                elif name == 'DVMP:XGAMMA':
                    v = th.XGAMMA(self.pt_rho.copy())
                elif name.startswith('PT:'):
                    # the prediction for a bundled point: 'PT:<dataset id>:<index>:<observable of the point>'
                    _, k, i = name.split(':')[:3]
                    v = th.predict(self.g.dset[int(k)][int(i)].copy())
                elif name.startswith('XG:'):
                    # gamma* p cross section at a free kinematic point: 'XG:<process or ->:<W>:<Q2>:<t>'
                    _, proc, W, Q2, t = name.split(':')
                    kin = {'W': float(W), 'Q2': float(Q2), 't': float(t)}
                    if proc != '-':
                        kin['process'] = proc
                    v = th.XGAMMA(self.g.DataPoint(kin))
                else:
                    raise KeyError(name)
                out.append((name, common.f2hex(float(v))))
            except Exception as e:       # noqa: BLE001
                out.append((name, 'EXC:' + type(e).__name__))
        return out


    def wide(self, rng, processes, per_process, nfree):
        """a wider list of observables for "every observable it predicts": predictions for bundled points of the given
        process classes (several datasets each: asymmetries, weighted cross sections, harmonics, neutron, F2, rho0/phi
        production) and gamma* p cross sections at seeded free kinematics"""
        g = self.g
        names = []
        by_proc = {}
        for k in sorted(g.dset):
            ds = g.dset[k]
            pr = getattr(ds, 'process', None)
            if pr in processes and len(ds):
                by_proc.setdefault(pr, []).append(k)
        for pr in processes:
            ks = by_proc.get(pr, [])
            seen_obs = set()
            for k in rng.sample(ks, len(ks)):
                ds = g.dset[k]
                o = getattr(ds[0], 'observable', '?')
                if o in seen_obs and len(seen_obs) < per_process and rng.random() < 0.7:
                    continue           # prefer different kinds of observable
                seen_obs.add(o)
                names.append('PT:%d:%d:%s' % (k, rng.randrange(len(ds)), o))
                if sum(1 for n in names if n.startswith('PT:') and getattr(g.dset[int(n.split(':')[1])], 'process', None) == pr) >= per_process:
                    break
        for _ in range(nfree):
            if 'gammastarp2gammap' in processes:
                names.append('XG:-:%r:%r:%r' % (round(rng.uniform(40, 120), 1), round(rng.uniform(3, 30), 1), -round(rng.uniform(0.05, 0.8), 2)))
            if 'gammastarp2rho0p' in processes:
                names.append('XG:gammastarp2rho0p:%r:%r:%r' % (round(rng.uniform(40, 120), 1), round(rng.uniform(4, 30), 1), -round(rng.uniform(0.0, 0.5), 3)))
        return names


# ------------------------------------------------------------------------------------------
# a block set: all / sampled orderings, correspondence + property on the real code
# ------------------------------------------------------------------------------------------

def check_blockset(rep, tb, obs, label, blocks, orderings, observables, n_obs, rng, in_quantifier=True,
                   resolve_sample=40, params=None, wide=None, n_wide=0):
    """blocks: list of class names (reference order); orderings: list of tuples of class names"""
    t0 = time.time()
    ref_names = list(blocks)
    stream = 'orders/' + label
    lines, reals = [], []
    for perm in orderings:
        bases = [tb.real[n] for n in perm]
        ids = [tb.cid[n] for n in perm]
        r = real_order(tb, bases)
        if r[1] is None:
            real, T, obj, o2 = r[0], None, None, None
        else:
            real, T, obj, o2 = r
        w = real_writes(tb, bases)
        reals.append((perm, ids, real, T, obj, o2, w))
        lines.append('c20.order ' + ' '.join(map(str, ids)))
        lines.append('c20.writes ' + ' '.join(map(str, ids)))
    model = common.run_driver(lines)

    # reference ordering (first given = the documented / shipped order)
    ref = None
    suspects = []      # orderings whose discrete behaviour disagrees with the model / the reference
    n_ok = 0
    for i, (perm, ids, real, T, obj, o2, w) in enumerate(reals):
        mod = parse_model(model[2 * i])
        modw = model[2 * i + 1]
        problems = []
        if real['mro'] is None or mod['mro'] is None:
            if not (real['mro'] is None and mod['mro'] is None):
                problems.append('mro-existence')
            rep.hist(stream + '.outcome', 'TypeError at class creation')
            rep.case(stream, ' '.join(perm), nontrivial=True,
                     sample={'bases': list(perm), 'real': 'TypeError(MRO)', 'model': model[2 * i][:60]})
            if problems:
                suspects.append((perm, problems, None, None))
            continue
        if real['mro'] != mod['mro']:
            problems.append('mro')
        if real['out'] != mod['out'] or real['out2'] != mod['out']:
            problems.append('outcome real=%s/%s model=%s' % (real['out'], real['out2'], mod['out']))
        real_attr_ids = [tb.sid.get(a, '?' + a) for a in real['attrs']]
        if real_attr_ids != [a for a, _ in mod['attrs']]:
            problems.append('instance-dict real=%s model=%s' % (real['attrs'], [tb.syms[a] for a, _ in mod['attrs']]))
        rep.hist(stream + '.trace', 'events/calls only' if mod['clean'] == '1' else 'reaches object.__init__ / unsupported')
        # values bound from kwargs defaults
        import numpy as np
        if not problems:
            for a, v in mod['attrs']:
                if v.startswith('K'):
                    txt = tb.syms[int(v[1:])]
                    assert txt.startswith('val:')
                    try:
                        want = eval(txt[4:], {'np': np, 'self': o2})
                    except Exception as e:      # noqa: BLE001
                        problems.append('default-not-evaluable %s' % txt)
                        continue
                    got = vars(o2)[tb.syms[a]]
                    if not same_value(got, want):
                        problems.append('kwargs-value %s real=%r model=%s' % (tb.syms[a], got, txt[4:]))
        # write sequence (instrumented twin)
        wtxt = ' '.join(w) if w else '-'
        if wtxt != modw:
            problems.append('write-sequence')
        rep.hist(stream + '.outcome', 'ok' if real['out'] == 'ok' else
                 'AttributeError ' + (tb.syms[int(real['out'][5:])] if real['out'].startswith('attr:') and real['out'][5:].isdigit() else real['out']))
        rep.case(stream, ' '.join(perm), nontrivial=True,
                 sample={'bases': list(perm), 'real': real['out'], 'model': mod['out'],
                         'mro': [tb.order[c] for c in real['mro']][:8] + ['…']})
        if real['out'] == 'ok':
            n_ok += 1
            if ref is None:
                ref = (perm, T, obj)
        if problems:
            suspects.append((perm, problems, T, obj))

    # ---- property on the real code: resolution map and instance state equal to the reference
    ref_perm, ref_T, ref_obj = ref if ref else (None, None, None)
    first_T = next((x[3] for x in reals if x[3] is not None), None)
    base_map = resolution_map(tb, ref_T if ref_T is not None else first_T) if first_T is not None else {}
    ref_state = state_digest(ref_obj) if ref_obj is not None else None
    differing = []     # (perm, what) real-code differences from the reference
    for (perm, ids, real, T, obj, o2, w) in reals:
        if T is None:
            continue
        rm = resolution_map(tb, T)
        diff = [n for n in rm if rm[n] != base_map[n] and n != '__init__']
        rep.case('resolution/' + label, ' '.join(perm), nontrivial=True,
                 sample={'bases': list(perm), 'names': len(rm), 'differing': diff[:5]})
        if diff:
            differing.append((perm, 'name-resolution differs for %s' % diff[:5], T, obj))
        if obj is not None and ref_state is not None:
            st = state_digest(obj)
            if st != ref_state:
                keys = sorted(k for k in set(st) | set(ref_state) if st.get(k) != ref_state.get(k))
                differing.append((perm, 'instance state differs in %s' % keys[:6], T, obj))
            rep.case('state/' + label, ' '.join(perm), nontrivial=True,
                     sample={'bases': list(perm), 'attributes': len(st)})

    # ---- name resolution model vs code (sample of orderings × all names)
    with_T = [x for x in reals if x[3] is not None]
    samp = with_T if len(with_T) <= resolve_sample else rng.sample(with_T, resolve_sample)
    name_ids = [tb.sid[n] for n in tb.allnames]
    rl = ['c20.resolve %s | %s' % (' '.join(map(str, x[1])), ' '.join(map(str, name_ids))) for x in samp]
    if rl:
        rmod = common.run_driver(rl)
        for x, line in zip(samp, rmod):
            rm = resolution_map(tb, x[3])
            want = ' '.join(str(rm[n]) for n in tb.allnames)
            rep.case('resolve-model/' + label, ' '.join(x[0]), nontrivial=True,
                     sample={'bases': list(x[0]), 'names': len(name_ids)})
            if line != want:
                suspects.append((x[0], ['name-resolution model≠code'], x[3], x[4]))

    # ---- observables: reference vs sampled / all instantiable orderings, plus every suspect
    ok_orders = [(x[0], x[3], x[4]) for x in reals if x[4] is not None]
    chosen = []
    if ref is not None and observables:
        pool = [x for x in ok_orders if x[0] != ref_perm]
        chosen = pool if (n_obs is None or len(pool) <= n_obs) else rng.sample(pool, n_obs)
        extra = [(p, T, o) for (p, _, T, o) in suspects + differing if o is not None
                 and p != ref_perm and all(p != c[0] for c in chosen)]
        chosen = chosen + extra[:12]       # a few suffice to exhibit differing numbers
        if params:
            ref_obj.parameters.update(params)
        ref_vals = obs.evaluate(ref_obj, observables)
        rep.hist('observables/' + label + '.reference', ' '.join('%s=%s' % (n, (repr(common.hex2f(v)) if not v.startswith('EXC') else v)) for n, v in ref_vals))
        numbers_differ = set()
        for (p, T, o) in chosen:
            if params:
                o.parameters.update(params)
            vals = obs.evaluate(o, observables)
            rep.case('observables/' + label, ' '.join(p), nontrivial=True,
                     sample={'bases': list(p), 'values': [v for _, v in vals], 'reference': [v for _, v in ref_vals]})
            if vals != ref_vals:
                numbers_differ.add(p)
                what = ('ordering %s of %s is instantiable but predicts %s; the reference ordering %s predicts %s'
                        % (list(p), label, dict(vals), list(ref_perm), dict(ref_vals)))
                if in_quantifier or EXTENSION_IS_VIOLATION:
                    rep.violation('numbers/' + label, what,
                                  dict(blockset=label, ordering=list(p), reference=list(ref_perm),
                                       observables=observables, got=vals, want=ref_vals,
                                       reproduce='./check C20 --replay <this file>'), found_input=True)
                else:
                    if not any(label in n for n in rep.notes):
                        rep.notes.append('OUTSIDE QUANTIFIER: ' + what)
                    rep.hist('extension.order-dependent-numbers', label)
    else:
        numbers_differ = set()

    # ---- a WIDER list of observables (other datasets, processes, free kinematics; default and shifted parameters) on a sample
    if ref is not None and wide and n_wide:
        pool = [x for x in ok_orders if x[0] != ref_perm]
        wchosen = pool if len(pool) <= n_wide else rng.sample(pool, n_wide)
        wchosen = wchosen + [(p, T, o) for (p, _, T, o) in (suspects + differing)[:6] if o is not None and p != ref_perm
                             and all(p != c[0] for c in wchosen)]
        # a second parameter point: four numeric parameters of the reference moved by +-10 %
        cand = sorted(k for k, v in ref_obj.parameters.items() if isinstance(v, float) and v != 0 and k not in ('ng', 'Eng', 'kapg'))
        shift = {k: ref_obj.parameters[k] * rng.choice([0.9, 1.1]) for k in rng.sample(cand, min(4, len(cand)))}
        if params:
            # the block set's own parameter values (a shipped fit) on every object compared, the reference included
            ref_obj.parameters.update(params)
            for (p, T, o) in wchosen:
                o.parameters.update(params)
        for stage, upd in (('default-or-fit-values', None), ('shifted', shift)):
            if upd is not None and not upd:
                continue
            if upd:
                ref_obj.parameters.update(upd)
            ref_w = obs.evaluate(ref_obj, wide)
            rep.hist('wide-observables/' + label, '%s: %d observables, %d raise for the reference' % (
                stage, len(wide), sum(1 for _, v in ref_w if v.startswith('EXC'))))
            for (p, T, o) in wchosen:
                if upd:
                    o.parameters.update(upd)
                vals = obs.evaluate(o, wide)
                rep.case('wide-observables/' + label, (' '.join(p), stage), nontrivial=True,
                         sample={'bases': list(p), 'parameters': stage, 'observables': wide[:4] + ['…'], 'values': [v for _, v in vals][:4]})
                if vals != ref_w:
                    numbers_differ.add(p)
                    bad = [(n, v, w) for (n, v), (_, w) in zip(vals, ref_w) if v != w]
                    what = ('ordering %s of %s is instantiable but predicts %s (parameters %s); the reference ordering %s predicts %s'
                            % (list(p), label, {n: v for n, v, _ in bad[:4]}, stage if not upd else upd, list(ref_perm), {n: w for n, _, w in bad[:4]}))
                    if in_quantifier or EXTENSION_IS_VIOLATION:
                        rep.violation('numbers/' + label, what,
                                      dict(blockset=label, ordering=list(p), reference=list(ref_perm), observables=[n for n, _, _ in bad],
                                           parameters=upd, got=vals, want=ref_w, reproduce='./check C20 --replay <this file>'), found_input=True)
                    else:
                        rep.hist('extension.order-dependent-numbers', label)

    # ---- disagreements that did not show up in numbers
    for (perm, problems, T, obj) in suspects:
        if perm in numbers_differ:
            continue
        what = 'model and code disagree for ordering %s of %s: %s' % (list(perm), label, '; '.join(map(str, problems))[:400])
        if in_quantifier or EXTENSION_IS_VIOLATION:
            rep.violation('model/' + label + '/' + str(problems[0]).split(' ')[0], what,
                          dict(blockset=label, ordering=list(perm), problems=[str(p) for p in problems],
                               stream=stream, reproduce='./check C20 --replay <this file>'),
                          found_input=False)
        else:
            rep.violation('model/extension/' + str(problems[0]).split(' ')[0], what,
                          dict(blockset=label, ordering=list(perm), problems=[str(p) for p in problems],
                               stream=stream), found_input=False)
    for (perm, whatd, T, obj) in differing:
        if numbers_differ and (in_quantifier or EXTENSION_IS_VIOLATION):
            break          # already reported with a concrete failing ordering
        if perm in numbers_differ:
            continue
        what = 'ordering %s of %s: %s (reference %s); no differing observable exhibited' % (
            list(perm), label, whatd, list(ref_perm) if ref_perm else None)
        if in_quantifier or EXTENSION_IS_VIOLATION:
            rep.violation('differs/' + label, what,
                          dict(blockset=label, ordering=list(perm), difference=whatd,
                               reproduce='./check C20 --replay <this file>'), found_input=False)
        else:
            if not any(label in n for n in rep.notes):
                rep.notes.append('OUTSIDE QUANTIFIER: ' + what)
            rep.hist('extension.order-dependent-state', label)
    rep.hist('blockset.instantiable', '%s: %d of %d orderings' % (label, n_ok, len(orderings)))
    rep.hist('blockset.seconds', '%s: %.1f' % (label, time.time() - t0))
    return n_ok, len(differing), len(suspects)


# ------------------------------------------------------------------------------------------
# run
# ------------------------------------------------------------------------------------------

def oracle_only(rep, g, obs, rng, tier, documented=None):
    """Fallback when the class table cannot be extracted: the property evaluated on the real code
    alone (documented maximal theory and KM combinations), without the model."""
    sets = []
    blocks = None
    try:
        doc = open(os.path.join(common.REPO, 'docs', 'source', 'theory.rst')).read()
        m = re.search(r'class\s+MyTheory\(([^)]*)\):', doc)
        if m:
            blocks = [getattr(g, t.strip()[2:]) for t in m.group(1).split(',')]
    except (OSError, AttributeError) as e:
        rep.notes.append('oracle-only: docs/source/theory.rst could not be used (%s: %s)' % (type(e).__name__, str(e)[:120]))
    if blocks is None and documented:
        # the list the extractor read from the documentation (when it ran), else the documented maximal theory as of this writing
        try:
            blocks = [getattr(g, n) for n in documented]
        except AttributeError as e:
            rep.notes.append('oracle-only: documented block list not usable: %s' % e)
    if blocks is not None:
        sets.append(('documented', blocks, ['DVCS:XLUw', 'DIS:F2', 'DVMP:XGAMMA'], None))
    else:
        rep.violation('oracle-only/no-documented-theory', 'neither docs/source/theory.rst nor the extractor gave the documented maximal '
                      'theory: its orderings were not examined', dict(), found_input=False)
    from gepard import fits
    for name in ('KM09', 'KM10', 'KM10b', 'AFKM12', 'KM15'):
        if hasattr(fits, name):
            pars = getattr(fits, 'par_' + name, None) or getattr(fits, 'par_' + name + 'a', None)
            sets.append((name, list(getattr(fits, name).__bases__), ['DVCS:XLUw', 'DVCS:XGAMMA'], pars))
    for label, blocks, observables, pars in sets:
        ref = None
        oks = []
        for perm in itertools.permutations(blocks):
            names = [c.__name__ for c in perm]
            try:
                T = type('T', perm, {})
                th = T()
                outcome = 'ok'
            except Exception as e:      # noqa: BLE001
                th, outcome = None, type(e).__name__
            rep.hist('oracle-only/' + label + '.outcome', outcome)
            rep.case('oracle-only/' + label, ' '.join(names), nontrivial=True,
                     sample={'bases': names, 'outcome': outcome})
            if th is None:
                continue
            res = {n: next((c.__name__ for c in T.__mro__[1:] if n in vars(c)), None)
                   for c2 in T.__mro__[1:] for n in vars(c2) if not n.startswith('__')}
            st = state_digest(th)
            if ref is None:
                ref = (names, th, res, st)
            else:
                oks.append((names, th, res != ref[2] or st != ref[3]))
        if ref is None:
            continue
        n_obs = 60 if tier == 'quick' else None
        diff_first = [x for x in oks if x[2]][:12]
        rest = [x for x in oks if not x[2]]
        chosen = diff_first + (rest if n_obs is None or len(rest) <= n_obs else rng.sample(rest, n_obs))
        if pars:
            ref[1].parameters.update(pars)
        ref_vals = obs.evaluate(ref[1], observables)
        for names, th, differs in chosen:
            if pars:
                th.parameters.update(pars)
            vals = obs.evaluate(th, observables)
            rep.case('oracle-only-observables/' + label, ' '.join(names), nontrivial=True,
                     sample={'bases': names, 'values': [v for _, v in vals]})
            if vals != ref_vals:
                rep.violation('numbers/' + label,
                              'ordering %s of %s is instantiable but predicts %s; the reference ordering %s predicts %s'
                              % (names, label, dict(vals), ref[0], dict(ref_vals)),
                              dict(blockset=label, ordering=names, reference=ref[0], observables=observables,
                                   got=vals, want=ref_vals), found_input=True)
                break
        else:
            if diff_first:
                names = diff_first[0][0]
                rep.violation('differs/' + label, 'ordering %s of %s: name resolution or instance state differs from the reference ordering %s; '
                              'no differing observable exhibited' % (names, label, ref[0]),
                              dict(blockset=label, ordering=names, reference=ref[0]), found_input=False)


def table_stream(rep, tb):
    """the generated table itself against the real classes: bases→MRO and body names"""
    names = [n for n in tb.order if n not in ('object', 'dict', 'list', 'Exception')]
    lines = []
    for n in names:
        lines.append('c20.mro %d' % tb.cid[n])
        lines.append('c20.defs %d' % tb.cid[n])
    out = common.run_driver(lines)
    for i, n in enumerate(names):
        c = tb.real[n]
        block = tb.ex.classes[n]['module'] in __import__('gen_classtable').BLOCK_WORLD
        real_defs = sorted(k for k in vars(c) if not (k.startswith('__') and k.endswith('__')) or k == '__init__')
        mod_defs = sorted(tb.syms[int(x)] for x in out[2 * i + 1].split(',')) if out[2 * i + 1] != '-' else []
        mod_defs = [k for k in mod_defs if not (k.startswith('__') and k.endswith('__')) or k == '__init__']
        rep.case('table', n, nontrivial=True, sample={'class': n, 'defs': len(real_defs)})
        if real_defs != mod_defs:
            rep.violation('model/table/defs', 'class %s: names in the real class body %s, extracted %s' % (
                n, sorted(set(real_defs) - set(mod_defs)), sorted(set(mod_defs) - set(real_defs))),
                dict(cls=n), found_input=False)
        if block:
            real_mro = ','.join(str(tb.rid[id(x)]) for x in c.__mro__)
            if real_mro != out[2 * i]:
                rep.violation('model/table/mro', 'class %s: real MRO %s, model %s' % (n, real_mro, out[2 * i]),
                              dict(cls=n), found_input=False)
            special = [k for k in vars(c) if k.startswith('__') and k.endswith('__') and k not in (
                '__module__', '__doc__', '__init__', '__dict__', '__weakref__', '__firstlineno__',
                '__static_attributes__', '__annotations__', '__qualname__')]
            if special or type(c) is not type:
                rep.violation('model/table/special', 'class %s has special members %s / metaclass %s' % (
                    n, special, type(c).__name__), dict(cls=n), found_input=False)


def extension_sets(tb, rng, nsets):
    cats = [
        [None, 'PWNormGPD', 'PWNormGPD', 'TestGPD'],
        [None, 'MellinBarnesCFF', 'DispersionFixedPoleCFF', 'DispersionFreePoleCFF', 'HybridFixedPoleCFF',
         'HybridFreePoleCFF', 'GoloskokovKrollCFF', 'CFF'],
        [None, 'DipoleEFF', 'KellyEFF', 'ZeroEFF'],
        [None, 'BMK', 'hotfixedBMK', 'BM10ex', 'BM10', 'BM10tw2', 'DVCS'],
        [None, 'MellinBarnesTFF'],
        [None, 'DVMP'],
        [None, 'DIS'],
        [None, None, None, 'ParameterModel', 'Theory', 'MellinBarnes', 'GPD', 'ConformalSpaceGPD', 'Model'],
    ]
    sets = [['TestGPD', 'DispersionFixedPoleCFF', 'DipoleEFF', 'BMK', 'DIS'],      # known order dependence
            ['CFF', 'MellinBarnesCFF'],                                            # base before derived: TypeError
            ['KellyEFF'], ['MellinBarnes'], ['DIS'], ['GPD'], ['KellyEFF', 'KellyEFF']]
    seen = {tuple(s) for s in sets}
    tries = 0
    while len(sets) < nsets and tries < 50 * nsets:
        tries += 1
        s = [rng.choice(c) for c in cats]
        s = [x for x in s if x is not None]
        if not s or tuple(sorted(s)) in seen:
            continue
        seen.add(tuple(sorted(s)))
        rng.shuffle(s)
        sets.append(s)
    return sets[:max(nsets, 7)]


def run(rep):
    warnings.filterwarnings('ignore')
    t_start = time.time()
    sys.path.insert(0, os.path.join(common.VERIF, 'tools'))
    tier, rng = rep.tier, rep.rng
    gen_error = None
    try:
        import gen_classtable
        ex, info = gen_classtable.main(write=True)     # rewrites Gen/ClassTable.lean only if changed
    except Exception as e:       # noqa: BLE001 - extractor rejected the source
        gen_error = 'tools/gen_classtable.py rejected the source: %r' % (e,)
        ex = info = None
    ok, why = common.lean_side(rep, 'C20')
    lean_broken = None if ok else why
    if gen_error:
        lean_broken = gen_error + ('; ' + lean_broken if lean_broken else '')
    import gepard as g
    if ex is None:
        # the table could not be extracted: fall back to the property on the real code alone
        oracle_only(rep, g, Observables(g), rng, tier)
        if not rep.violations:
            rep.violation('lean', 'Lean side of C20 no longer checks: ' + lean_broken,
                          dict(theorem_or_stream=lean_broken), found_input=False)
        return rep.finish(level='proof', checker_cmd='tools/gen_classtable.py (rejected the source); '
                          'property evaluated on the real code only', trusted=[])
    tb = Tables(ex, info)
    obs = Observables(g)
    try:
        return run_with_model(rep, g, tb, obs, tier, rng, lean_broken)
    except common.ModelUnavailable as e:
        # the executable model (regenerated from the source on every run) does not build: what was collected so far stays,
        # one violation without a failing input is recorded, and the property is evaluated on the real code alone
        rep.violation('model-unavailable', 'the Lean model of C20 (class table regenerated from the source) could not be run: %s; the '
                      'orderings were examined on the real code only (oracle-only streams)' % str(e)[:300],
                      dict(reason=str(e)[:300], lean_side=lean_broken), found_input=False)
        oracle_only(rep, g, obs, rng, tier, documented=list(tb.documented))
        return rep.finish(level='proof', checker_cmd='(model driver does not build); property evaluated on the real code only', trusted=[],
                          explanation='model unavailable: ' + str(e)[:300])


def run_with_model(rep, g, tb, obs, tier, rng, lean_broken):
    table_stream(rep, tb)

    # Lean's static check on the quantified block sets (the theorems' hypothesis)
    sets = [('documented', tb.documented)] + [(n, bs) for n, bs in tb.km]
    outs = common.run_driver(['c20.checks ' + ' '.join(str(tb.cid[b]) for b in bs) for _, bs in sets])
    for (label, bs), o in zip(sets, outs):
        rep.case('checks', label, nontrivial=True, sample={'blocks': bs, 'checks': o})
        if o != 'ok':
            lean_broken = (lean_broken + '; ' if lean_broken else '') + 'static check fails for %s: %s' % (label, o)

    # ---- the documented maximal theory: all orderings
    doc = tb.documented
    perms = list(itertools.permutations(doc))
    n_obs = 100 if tier == 'quick' else None
    every = ('ep2epgamma', 'en2engamma', 'gammastarp2gammap', 'dis', 'gammastarp2rho0p', 'gammastarp2phip')
    wide_doc = obs.wide(rng, every, 1 if tier == 'quick' else 4, 1 if tier == 'quick' else 4)
    check_blockset(rep, tb, obs, 'documented', doc, perms,
                   ['DVCS:XLUw', 'DIS:F2', 'DVMP:XGAMMA'], n_obs, rng,
                   resolve_sample=40 if tier == 'quick' else 600,
                   wide=wide_doc, n_wide=6 if tier == 'quick' else 1000)

    # ---- the shipped KM combinations: all orderings
    from gepard import fits
    for name, bs in tb.km:
        perms = list(itertools.permutations(bs))
        pars = getattr(fits, 'par_' + name, None) or getattr(fits, 'par_' + name + 'a', None)
        check_blockset(rep, tb, obs, name, bs, perms, ['DVCS:XLUw', 'DVCS:XGAMMA'],
                       3 if tier == 'quick' else None, rng, resolve_sample=6 if tier == 'quick' else 24,
                       params=dict(pars) if pars else None,
                       wide=obs.wide(rng, ('ep2epgamma', 'gammastarp2gammap'), 2 if tier == 'quick' else 5, 0 if tier == 'quick' else 2),
                       n_wide=1 if tier == 'quick' else 24)

    # ---- beyond the quantifier: other block sets (model correspondence; soundness of the static check)
    nsets = 40 if tier == 'quick' else 400
    per_set = 12 if tier == 'quick' else 60
    ext = extension_sets(tb, rng, nsets)
    outs = common.run_driver(['c20.checks ' + ' '.join(str(tb.cid[b]) for b in bs) for bs in ext])
    for k, (bs, chk) in enumerate(zip(ext, outs)):
        allp = list(itertools.permutations(bs)) if len(bs) <= 5 else None
        if allp is not None and len(allp) <= per_set:
            perms = allp
        else:
            perms = [tuple(bs)]
            seenp = {tuple(bs)}
            while len(perms) < per_set:
                p = list(bs)
                rng.shuffle(p)
                if tuple(p) not in seenp:
                    seenp.add(tuple(p))
                    perms.append(tuple(p))
        label = 'ext:' + '+'.join(bs)
        has_dis = 'DIS' in bs
        nok, ndiff, nsus = check_blockset(
            rep, tb, obs, label, bs, perms, ['DIS:F2'] if has_dis and chk != 'ok' else [],
            2, rng, in_quantifier=False, resolve_sample=2)
        rep.hist('extension.checks', 'ok' if chk == 'ok' else chk)
        rep.case('extension', label, nontrivial=True, sample={'blocks': bs, 'checks': chk,
                                                               'instantiable': nok, 'state-differs': ndiff})
        if chk == 'ok' and ndiff:
            # the proved criterion said "order independent" and the real code is not: theorem ≠ code
            rep.violation('model/extension/static-check-unsound',
                          'static check passes for %s but the real code is order dependent' % bs,
                          dict(blocks=bs), found_input=False)
        if chk != 'ok':
            rep.hist('extension.failing-check-and-real-difference', 'real differs' if ndiff else 'real agrees')

    if lean_broken and not rep.violations:
        rep.violation('lean', 'Lean side of C20 no longer checks: ' + lean_broken,
                      dict(theorem_or_stream=lean_broken), found_input=False)
    rep.notes.append('oracle streams (resolution/*, state/*, observables/*) evaluate the property on the real '
                     'code directly; they support the theorems, they do not replace them')
    rep.assumptions += [
        'observables compared bit-for-bit (no tolerance): DVCS XLUw at CLAS point dset[101][3], DIS F2 at '
        'dset[201][0], DVMP rho0 XGAMMA at Q2=6.6 W=75 t=-0.025; quick tier evaluates them on a seeded sample '
        'of instantiable orderings, thorough on all; a wider seeded list (bundled points of every process class the theory '
        'describes, free gamma* p kinematics, default and +-10 % shifted parameters) on a sample of orderings (6 quick, 1000 thorough)',
        'instance state compared through a canonical text (dicts by sorted key: insertion order of '
        '`parameters` may differ between orderings and is not part of the property)',
        'block sets outside the property\'s quantifier (extension stream) are reported in notes, not as violations',
    ]
    return rep.finish(level='proof',
                      checker_cmd='tools/gen_classtable.py ; lake build Props.C20 ; #print axioms ; '
                                  'gepdriver c20.* vs type(name,bases,{})() on all orderings',
                      trusted=['Lean 4.33 kernel', 'axioms ⊆ {propext, Classical.choice, Quot.sound}',
                               'tools/gen_classtable.py (ast extraction; rejects unknown syntax; its output is '
                               'compared with the real classes on every run)',
                               'harness/props/C20.py correspondence',
                               'CPython: C3 MRO, super(), dict.setdefault, **kwargs copies the dict'])


def replay(path):
    import json
    warnings.filterwarnings('ignore')
    sys.path.insert(0, os.path.join(common.VERIF, 'tools'))
    import gen_classtable
    ex, info = gen_classtable.main(write=False)
    import gepard as g   # noqa: F401
    tb = Tables(ex, info)
    r = json.load(open(path))
    print(json.dumps({k: r[k] for k in ('blockset', 'ordering', 'reference', 'what') if k in r}, indent=1))
    if 'ordering' not in r:
        return 0
    obs = Observables(g)
    for key in ('reference', 'ordering'):
        if key not in r:
            continue
        bases = [tb.real[n] for n in r[key]]
        try:
            th = type('T', tuple(bases), {})()
        except Exception as e:       # noqa: BLE001
            print(key, r[key], '->', type(e).__name__, e)
            continue
        print(key, r[key], '->', obs.evaluate(th, r.get('observables', ['DIS:F2'])))
    return 0

"""C14 — dispersive CFF real parts are PV dispersion integrals of the imaginary parts.

Lean: Props/C14.lean (ℝ) over Scalar/Disp.lean.in; its Float instantiation runs in the driver.

Correspondence (model vs code): DispersionFixedPoleCFF / DispersionFreePoleCFF and the dispersive part
inside the Hybrid models — the KM ansatz ImH/ImHt at arbitrary x, dispargV/dispargA at the 18 nodes and
at random x, subtraction, pion poles, ReH/ReE/ReHt/ReEt with gepard.quadrature's roots18/weights18 fed
to the model as data; shipped parameter sets (KM09a, KM09b, KM10, KM10b, KM15) and random values within
parameters_limits; proton and neutron; xi in [1e-3, 0.5], t in [-1, 0]; the exception branches at xi >= 1.

ORACLE stream (supports the theorems, does not replace them; it carries what no theorem carries: the
principal-value integral itself and the accuracy of the 18-point rule): ReX(pt) of the REAL objects
against an adaptive Cauchy-weight quadrature (QUADPACK QAWC via scipy.integrate.quad) of the real
ImX(pt, x), cross-validated on a sub-sample by an mpmath tanh-sinh evaluation; including
GoloskokovKrollCFF / GK12D (whose real parts ARE computed dispersively: they inherit
DispersionCFF.ReH/ReE/ReHt and use DispersionCFF.ReEt + pole) and the Hybrid sum on the real objects.

REUSE stream (exact + oracle, on the real objects only): ONE model object whose parameters are changed several
times in a row by every public way (parameters.update, item assignment, rebinding the attribute to a merged /
a completely new dict, predict(..., parameters=...)); after each step every CFF is compared bit-for-bit with
a FRESH object of the same class holding the same values, and the property itself is evaluated (PV oracle with
the subtraction constant computed independently from the dict that is bound NOW).

If the Lean model driver is unavailable (common.ModelUnavailable) that is one violation without a failing
input; every stream on the real objects (exact clauses, sequences, re-use, all oracle streams) still runs.
"""
import json
import math
import os
import traceback
import warnings

import common
from common import f2hex, hex2f, relerr

PAR_ORDER = ['Nsea', 'alS', 'alpS', 'mS2', 'rS', 'bS', 'Nv', 'alv', 'alpv', 'mv2', 'rv', 'bv',
             'C', 'mC2', 'tNv', 'tal', 'talp', 'tmv2', 'trv', 'tbv']
LIMITS = {'bS': (0.4, 5.0), 'mv2': (0.16, 2.25), 'rv': (0., 8.), 'bv': (0.4, 5.), 'C': (-10., 10.),
          'mC2': (0.16, 4.), 'tmv2': (0.16, 4.), 'trv': (0., 8.), 'tbv': (0.4, 5.)}
FREE_LIMITS = {'rpi': (-8., 8.), 'mpi2': (0.16, 16.)}
# parameters without declared limits: shipped values, or varied mildly inside these ranges
MILD = {'Nsea': (0., 2.), 'alS': (1.0, 1.25), 'alpS': (0., 0.3), 'mS2': (0.3, 1.0), 'rS': (0.5, 1.5),
        'Nv': (1.0, 1.6), 'alv': (0.3, 0.6), 'alpv': (0.5, 1.0), 'tNv': (0., 1.0), 'tal': (0.3, 0.6),
        'talp': (0.5, 1.0)}
TOL = 1e-10          # model vs code, relative to the scale (sum of |terms|)
ORACLE_TOL = 1e-2    # code vs PV integral, relative to |PV/pi| + |log term * ImF(xi)/pi|
# measured on the current tree (4000 random + 3000 corner cases): median 2e-5, 99% 9e-4,
# maximum 2.9e-3 at the corner xi = 0.5, t = -1, large-x power 0.4


def par_tokens(p):
    return ' '.join('N' if k not in p else f2hex(p[k]) for k in PAR_ORDER)


def prefix(p, t, neutron, xi):
    return '%s %s %d %s' % (par_tokens(p), f2hex(t), 1 if neutron else 0, f2hex(xi))


def is_neutron(pt):
    return 'in2particle' in pt and pt.in2particle == 'n'


def real(fn):
    """run the real code; map exceptions to strings"""
    try:
        with warnings.catch_warnings():
            warnings.simplefilter('ignore')
            v = fn()
    except ValueError:
        return 'ValueError'
    except ZeroDivisionError:
        return 'ZeroDivisionError'
    except Exception as e:  # noqa
        return 'EXC:' + type(e).__name__
    if isinstance(v, complex):
        return 'complex'
    try:
        return float(v)
    except Exception as e:  # noqa
        return 'EXC:' + type(e).__name__


def in_repo(exc):
    """was the exception raised from (or through) a frame of the package under test?"""
    root = os.path.realpath(os.path.join(common.REPO, 'src')) + os.sep
    try:
        return any(os.path.realpath(fr.filename).startswith(root) for fr in traceback.extract_tb(exc.__traceback__))
    except Exception:  # noqa
        return True


def apply_step(m, step):
    """one parameter change on a (re-used) model object, by one of the public ways (used by run and replay)"""
    how, chg = step['how'], step['values']
    old = m.parameters
    if how == 'update':
        m.parameters.update(chg)
    elif how == 'setitem':
        for k, v in chg.items():
            m.parameters[k] = v
    elif how == 'rebind-merge':
        m.parameters = dict(m.parameters, **chg)
    elif how == 'rebind-full':
        m.parameters = dict(chg)
    elif how == 'rebind-copy+update':
        m.parameters = m.parameters.copy()
        m.parameters.update(chg)
    else:
        raise ValueError(how)
    if step.get('detached_write') and old is not m.parameters:
        old.update(step['detached_write'])     # the dict that is no longer the model's: must have no effect


def parse_res(o):
    t = o.split()
    if t[0] == 'ok':
        return hex2f(t[1])
    return o


# ------------------------------------------------------------------------------------------
# independent oracle: principal value by adaptive Cauchy-weight quadrature
# ------------------------------------------------------------------------------------------

def pv_scipy(F, xi, kind):
    """PV int_0^1 K(x) F(x) dx;  K = 2x/(xi^2-x^2) (kind V)  or  2xi/(xi^2-x^2) (kind A).
    [0, xi/2] and [b, 1]: QAGS on the regular integrand;  [xi/2, b]: QAWC with weight 1/(x - xi)
    on  -num(x) F(x)/(x + xi).  Returns (value, error estimate)."""
    from scipy.integrate import quad
    num = (lambda x: 2 * x) if kind == 'V' else (lambda x: 2 * xi)
    h = lambda x: -num(x) * F(x) / (x + xi)            # noqa
    full = lambda x: num(x) * F(x) / (xi * xi - x * x)  # noqa
    a = xi / 2
    b = 2 * xi if 2 * xi < 1 else (1 + xi) / 2
    tot = err = 0.
    with warnings.catch_warnings():
        warnings.simplefilter('ignore')
        for r, e in (quad(full, 0, a, limit=400, epsabs=1e-13, epsrel=1e-12),
                     quad(h, a, b, weight='cauchy', wvar=xi, limit=400, epsabs=1e-13, epsrel=1e-12),
                     quad(full, b, 1, limit=400, epsabs=1e-13, epsrel=1e-12)):
            tot += r
            err += e
    return tot, err


def pv_mpmath(F, xi, kind):
    """second, differently built reference (tanh-sinh on the subtracted integrand + analytic term)"""
    import mpmath as mp
    mp.mp.dps = 20
    Fxi = F(xi)
    if kind == 'V':
        k = lambda x: 2 * x / (xi * xi - x * x)   # noqa
        lg = math.log(xi ** 2 / (1 - xi ** 2))
    else:
        k = lambda x: 2 * xi / (xi * xi - x * x)  # noqa
        lg = math.log((1 + xi) / (1 - xi))

    def f(x):
        x = float(x)
        if x == xi or x <= 0. or x >= 1.:
            return 0.
        return k(x) * (F(x) - Fxi)
    b = 2 * xi if 2 * xi < 1 else (1 + xi) / 2
    return float(mp.quad(f, [0, xi / 2, xi, b, 1])) + Fxi * lg


def logterm(xi, kind):
    return math.log(xi ** 2 / (1 - xi ** 2)) if kind == 'V' else math.log((1 + xi) / (1 - xi))


def oracle_check(F, xi, kind, code_val, extra):
    """the property on the real code: code_val ?= PV/pi + extra.  Returns (ok, rel, ref, scale, est)"""
    pv, est = pv_scipy(F, xi, kind)
    ref = pv / math.pi + extra
    scale = abs(pv / math.pi) + abs(logterm(xi, kind) * F(xi) / math.pi)
    thr = ORACLE_TOL * scale + 1e-13 * abs(extra) + 1e-300
    d = abs(code_val - ref)
    return d <= thr, (d / scale if scale > 0 else (0. if d <= thr else float('inf'))), ref, scale, est


# ------------------------------------------------------------------------------------------

def run(rep):
    from gepard import fits
    import numpy as np
    import gepard as g
    from gepard import cff, quadrature, fits
    from gepard import gk as gkmod
    rng = rep.rng
    ok, why = common.lean_side(rep, 'C14')
    quick = rep.tier == 'quick'
    roots, weights = quadrature.roots18, quadrature.weights18
    rep.coverage['PVquadrature'] = getattr(quadrature.PVquadrature, '__name__', '?')
    QTOK = ' '.join(f2hex(r) + ' ' + f2hex(w) for r, w in zip(roots, weights))
    ynodes = (roots + 1) / 2.0
    D = cff.DispersionFixedPoleCFF

    shipped = {n: getattr(fits, 'th_' + n) for n in ('KM09a', 'KM09b', 'KM10', 'KM10b', 'KM15')}
    hybrids = ['KM10', 'KM10b', 'KM15']

    def load(m, src):
        m.parameters.update({k: v for k, v in src.items() if k in m.parameters})

    def random_pars(m):
        """random values within parameters_limits; the others shipped or mildly varied"""
        load(m, shipped[rng.choice(list(shipped))].parameters)
        for k, (lo, hi) in list(LIMITS.items()) + [kv for kv in FREE_LIMITS.items() if kv[0] in m.parameters]:
            r = rng.random()
            m.parameters[k] = lo if r < 0.1 else hi if r < 0.2 else rng.uniform(lo, hi)
        for k, (lo, hi) in MILD.items():
            if k in m.parameters and rng.random() < 0.35:
                m.parameters[k] = rng.uniform(lo, hi)
        if m.parameters['tNv'] == 0 and rng.random() < 0.7:
            m.parameters['tNv'] = 0.6

    def gen_point():
        r = rng.random()
        if r < 0.08:
            xi = rng.choice([1e-3, 0.5])
        elif r < 0.75:
            xi = 10 ** rng.uniform(-3, math.log10(0.5))
        else:
            xi = rng.uniform(0.05, 0.5)
        r = rng.random()
        t = 0.0 if r < 0.05 else -1.0 if r < 0.1 else -rng.uniform(0, 1)
        Q2 = rng.choice([2.5, 4., 8.])
        part = rng.choice([None, 'p', 'n', 'n'])
        kw = dict(t=t, Q2=Q2)
        if rng.random() < 0.3:
            kw['xB'] = 2 * xi / (1 + xi)
        else:
            kw['xi'] = xi
        if part:
            kw['in2particle'] = part
        return g.DataPoint(**kw), kw

    lines, meta = [], []

    def add(line, **m):
        lines.append(line)
        meta.append(m)

    # ---------------- the property itself on the real code: helpers of the ORACLE streams ----------------
    omax = {}
    selfagree = 0.
    n_oracle = 0

    def record(tag, rel):
        omax[tag] = max(omax.get(tag, 0.), rel)

    def km_oracle(label, mobj, pt, kw, pars, via=None, cross=False, stream='oracle'):
        """ReH / ReE / ReHt of a KM-type object against the PV integral of its own Im; `via` = class whose
        methods are called unbound on a Hybrid object (the dispersive part)"""
        nonlocal selfagree, n_oracle
        bad = []
        xi = pt.xi
        if via is None:
            imH, imHt = (lambda x: float(mobj.ImH(pt, x))), (lambda x: float(mobj.ImHt(pt, x)))
            vals = dict(H=real(lambda: mobj.ReH(pt)), E=real(lambda: mobj.ReE(pt)), Ht=real(lambda: mobj.ReHt(pt)))
        else:
            imH, imHt = (lambda x: float(via.ImH(mobj, pt, x))), (lambda x: float(via.ImHt(mobj, pt, x)))
            vals = dict(H=real(lambda: via.ReH(mobj, pt, imfun=via.ImH)), E=real(lambda: via.ReE(mobj, pt, imfun=via.ImE)),
                        Ht=real(lambda: via.ReHt(mobj, pt, imfun=via.ImHt)))
        # independent value of the subtraction constant of the KM models
        Cind = pars['C'] / (1. - pt.t / pars['mC2']) ** 2
        for w, F, kind, extra in (('H', imH, 'V', -Cind), ('E', (lambda x: 0.), 'V', +Cind), ('Ht', imHt, 'A', 0.)):
            v = vals[w]
            n_oracle += 1
            if not isinstance(v, float):
                bad.append((w, v, None, None))
                continue
            okk, rel, ref, scale, est = oracle_check(F, xi, kind, v, extra)
            rep.case(stream, (label, w, xi, pt.t, is_neutron(pt)), nontrivial=scale > 0 or extra != 0,
                     sample=dict(model=label, which='Re' + w, xi=xi, t=pt.t, code=v, pv_reference=ref, rel=rel))
            record('KM.Re' + w, rel if rel != float('inf') else 1e300)
            if scale > 0:
                rep.hist('oracle.rel.decade', int(math.floor(math.log10(max(rel, 1e-17)))))
            if cross and scale > 0:
                o2 = pv_mpmath(F, xi, kind) / math.pi + extra
                selfagree = max(selfagree, abs(o2 - ref) / scale)
            if not okk:
                bad.append((w, v, ref, rel))
        return bad

    def hybrid_sum_oracle(name, th, pt, pars, mbH, v, stream='oracle.hybrid-sum'):
        """the full Hybrid ReH against  MB part + PV/pi - C  (C from `pars`); returns a `bad` entry or None"""
        nonlocal n_oracle
        pv, _ = pv_scipy(lambda x: float(D.ImH(th, pt, x)), pt.xi, 'V')
        Cind = pars['C'] / (1. - pt.t / pars['mC2']) ** 2
        ref = mbH + pv / math.pi - Cind
        scale = abs(pv / math.pi) + abs(logterm(pt.xi, 'V') * float(D.ImH(th, pt)) / math.pi)
        n_oracle += 1
        rep.case(stream, (name, pt.xi, pt.t), sample=dict(model=name, xi=pt.xi, t=pt.t, ReH=v, reference=ref))
        if not isinstance(v, float) or abs(v - ref) > ORACLE_TOL * scale + 1e-13 * (abs(Cind) + abs(mbH)):
            return ('H(sum)', v, ref, abs(v - ref) / scale if isinstance(v, float) and scale else None)
        if scale > 0:
            record('Hybrid.ReH', abs(v - ref) / scale)
        return None

    # ---------------- the models under test ----------------
    n_models = 40 if quick else 600
    per_model = 4 if quick else 6
    models = []   # (label, object, parameter snapshot)
    for n in ('KM09a', 'KM09b'):
        models.append(('shipped:' + n, shipped[n], None))
    for n in shipped:
        for cls in (cff.DispersionFixedPoleCFF, cff.DispersionFreePoleCFF):
            m = cls()
            load(m, shipped[n].parameters)
            models.append(('%s<-%s' % (cls.__name__, n), m, None))
    old = cff.DispersionFixedPoleCFF()
    load(old, shipped['KM09b'].parameters)
    del old.parameters['tal'], old.parameters['talp']      # "old models": Regge parameters of H
    models.append(('DispersionFixedPoleCFF<-KM09b/no-tal', old, None))
    for i in range(n_models):
        cls = rng.choice([cff.DispersionFixedPoleCFF, cff.DispersionFreePoleCFF])
        m = cls()
        random_pars(m)
        models.append(('%s<-random' % cls.__name__, m, None))

    oracle_jobs = []   # (label, model, pt, kw)

    for label, m, _ in models:
        p = dict(m.parameters)
        free = isinstance(m, cff.DispersionFreePoleCFF)
        for _ in range(per_model):
            pt, kw = gen_point()
            xi, t, n = pt.xi, pt.t, is_neutron(pt)
            pre = prefix(p, t, n, xi)
            base = dict(label=label, pars=p, kw=kw, xi=xi, t=t, n=n, cls=type(m).__name__)
            rep.hist('xi.decade', int(math.floor(math.log10(xi))))
            rep.hist('t.bucket', round(t, 1) if t > -1 else -1.0)
            rep.hist('particle', 'n' if n else 'p')
            rep.hist('model', label.split('<-')[0] + ('<-random' if 'random' in label else '<-shipped'))
            # the ansatz at a random x (scalar call) and at xi (no-argument call)
            x = 10 ** rng.uniform(-4, 0) if rng.random() < 0.5 else rng.uniform(0, 1)
            for w, f in (('H', m.ImH), ('Ht', m.ImHt), ('E', m.ImE)):
                add('c14.im %s %s %s' % (pre, w, f2hex(x)), kind='im', which=w, x=x,
                    impl=real(lambda: f(pt, x)), **base)
                add('c14.im %s %s %s' % (pre, w, f2hex(xi)), kind='im', which=w, x=xi,
                    impl=real(lambda: f(pt)), **base)
            # the integrands at the 18 nodes and at random x
            xs = list(ynodes[::3]) + [rng.uniform(0, 1) for _ in range(3)]
            xs = [xx for xx in xs if abs(xx ** (1. / (1. - 0.9)) - xi) > 1e-4 * xi]
            for w, f in (('H', m.ImH), ('Ht', m.ImHt)):
                for op, darg in (('dargV', m.dispargV), ('dargA', m.dispargA)):
                    arr = np.array(xs)
                    with warnings.catch_warnings():
                        warnings.simplefilter('ignore')
                        vals = darg(arr, f, pt)
                        u = arr ** (1. / (1. - 0.9))
                        Fu, Fx = f(pt, u), f(pt)
                        kk = (2 * u if op == 'dargV' else 2 * xi) / np.abs(xi ** 2 - u ** 2)
                        sc = kk * u ** 0.9 * (np.abs(Fu) + abs(Fx)) / (1 - 0.9)
                    for xx, v, s in zip(xs, vals, sc):
                        add('c14.%s %s %s %s' % (op, pre, w, f2hex(xx)), kind='darg', op=op, which=w, x=xx,
                            impl=float(v), scale=float(s), **base)
            # subtraction, pion pole
            add('c14.sub %s' % pre, kind='sub', impl=real(lambda: m.subtraction(pt)), **base)
            if free:
                add('c14.freepole %s %s %s' % (pre, f2hex(p['rpi']), f2hex(p['mpi2'])), kind='pole',
                    impl=real(lambda: m.ReEt(pt)), **base)
            else:
                add('c14.fixpole %s' % pre, kind='pole', impl=real(lambda: m.ReEt(pt)), **base)
            # real parts
            with warnings.catch_warnings():
                warnings.simplefilter('ignore')
                sub = abs(float(m.subtraction(pt)))
                scV = (float(np.sum(np.abs(weights * m.dispargV(ynodes, m.ImH, pt)))) / 2 +
                       abs(logterm(xi, 'V') * m.ImH(pt))) / math.pi + sub
                scA = (float(np.sum(np.abs(weights * m.dispargA(ynodes, m.ImHt, pt)))) / 2 +
                       abs(logterm(xi, 'A') * m.ImHt(pt))) / math.pi
            for w, f, s in (('H', m.ReH, scV), ('E', m.ReE, sub), ('Ht', m.ReHt, scA)):
                add('c14.re %s %s %s %s' % (pre, w, f2hex(0.0), QTOK), kind='re', which=w,
                    impl=real(lambda: f(pt)), scale=s, **base)
            oracle_jobs.append((label, m, pt, kw, p))

    # ---------------- exception branches: xi = 1 (ZeroDivisionError), xi > 1 (ValueError) ----------------
    m = cff.DispersionFixedPoleCFF()
    load(m, shipped['KM09b'].parameters)
    p = dict(m.parameters)
    for xi in [1.0, 1.5, 1.0000000000000002, 3.0] + [rng.uniform(1, 4) for _ in range(4)]:
        pt = g.DataPoint(xi=xi, t=-rng.uniform(0, 1))
        pre = prefix(p, pt.t, False, xi)
        for w, f in (('H', m.ReH), ('E', m.ReE), ('Ht', m.ReHt)):
            add('c14.re %s %s %s %s' % (pre, w, f2hex(0.0), QTOK), kind='err', which=w,
                impl=real(lambda: f(pt)), label='errors', pars=p, kw=dict(xi=xi, t=pt.t), xi=xi, t=pt.t, n=False,
                cls='DispersionFixedPoleCFF', scale=0.)
    pt = g.DataPoint(xi=0.0, t=-0.2)       # ImE = 0 is total: log(0) -> ValueError
    add('c14.re %s E %s %s' % (prefix(p, pt.t, False, 0.0), f2hex(0.0), QTOK), kind='err', which='E',
        impl=real(lambda: m.ReE(pt)), label='errors', pars=p, kw=dict(xi=0.0, t=pt.t), xi=0.0, t=pt.t, n=False,
        cls='DispersionFixedPoleCFF', scale=0.)

    # ---------------- GK12D subtraction ----------------
    gk12d = gkmod.GK12D()
    for _ in range(5 if quick else 50):
        t = -rng.uniform(0, 1)
        pt = g.DataPoint(xi=0.1, t=t)
        add('c14.gk12dsub %s' % prefix(p, t, False, 0.1), kind='sub', impl=real(lambda: gk12d.subtraction(pt)),
            label='GK12D', pars={}, kw=dict(xi=0.1, t=t), xi=0.1, t=t, n=False, cls='GK12D')

    # ---------------- Hybrid models: MB part + dispersive part ----------------
    n_h = 8 if quick else 80
    hybrid_jobs = []
    for name in hybrids:
        th = shipped[name]
        saved = dict(th.parameters)
        try:
            for j in range(n_h):
                if j >= n_h // 2:
                    keep = dict(th.parameters)
                    random_pars(th)
                    # the MB part does not read the dispersive parameters; leave the others alone
                    for k in keep:
                        if k not in PAR_ORDER and k not in FREE_LIMITS:
                            th.parameters[k] = keep[k]
                    if j == n_h // 2:
                        th.parameters['rv'] = 0.0       # a parameter exactly at its declared lower limit (legal), in every run
                    # a non-zero sea E (all shipped sets have kaps = 0): the MB part of E is then non-zero
                    if 'kaps' in th.parameters and rng.random() < 0.7:
                        th.parameters['kaps'] = rng.uniform(0.3, 2.0)
                p = dict(th.parameters)
                pt, kw = gen_point()
                xi, t, n = pt.xi, pt.t, is_neutron(pt)
                pre = prefix(p, t, n, xi)
                base = dict(label='hybrid:' + name + ('' if j < n_h // 2 else '/random'), pars={k: p[k] for k in p if k in PAR_ORDER or k in FREE_LIMITS},
                            kw=kw, xi=xi, t=t, n=n, cls=type(th).__name__)
                rep.hist('model', 'hybrid:' + name)
                with warnings.catch_warnings():
                    warnings.simplefilter('ignore')
                    mbH = float(cff.MellinBarnesCFF.ReH(th, pt))
                    mbE = float(cff.MellinBarnesCFF.ReE(th, pt))
                    mbImH = float(cff.MellinBarnesCFF.ImH(th, pt))
                    dH = real(lambda: D.ReH(th, pt, imfun=D.ImH))
                    dE = real(lambda: D.ReE(th, pt, imfun=D.ImE))
                    dHt = real(lambda: D.ReHt(th, pt, imfun=D.ImHt))
                    full = dict(H=real(lambda: th.ReH(pt)), E=real(lambda: th.ReE(pt)), Ht=real(lambda: th.ReHt(pt)),
                                Et=real(lambda: th.ReEt(pt)), ImH=real(lambda: th.ImH(pt)))
                    # a plain dispersive model with the same parameters: "the dispersive valence part"
                    plain = cff.DispersionFreePoleCFF()
                    load(plain, p)
                    pl = dict(H=real(lambda: plain.ReH(pt)), E=real(lambda: plain.ReE(pt)), Ht=real(lambda: plain.ReHt(pt)),
                              Et=real(lambda: plain.ReEt(pt)), ImH=real(lambda: plain.ImH(pt)))
                    sub = abs(float(D.subtraction(th, pt)))
                    scV = (float(np.sum(np.abs(weights * D.dispargV(th, ynodes, D.ImH, pt)))) / 2 +
                           abs(logterm(xi, 'V') * D.ImH(th, pt))) / math.pi + sub
                    scA = (float(np.sum(np.abs(weights * D.dispargA(th, ynodes, D.ImHt, pt)))) / 2 +
                           abs(logterm(xi, 'A') * D.ImHt(th, pt))) / math.pi
                # exact clauses on the real objects
                exact = []
                if not (isinstance(dH, float) and full['H'] == mbH + dH):
                    exact.append(('ReH != MB.ReH + dispersive ReH', full['H'], mbH, dH))
                if not (isinstance(dE, float) and full['E'] == mbE + dE):
                    exact.append(('ReE != MB.ReE + dispersive ReE', full['E'], mbE, dE))
                if not (full['Ht'] == dHt):
                    exact.append(('ReHt != dispersive ReHt', full['Ht'], 0., dHt))
                if not (pl['H'] == dH and pl['E'] == dE and pl['Ht'] == dHt):
                    exact.append(('dispersive part inside the Hybrid differs from the plain dispersive model',
                                  (dH, dE, dHt), 0., (pl['H'], pl['E'], pl['Ht'])))
                if not (full['Et'] == pl['Et']):
                    exact.append(('ReEt != free pion pole', full['Et'], 0., pl['Et']))
                if not (isinstance(pl['ImH'], float) and full['ImH'] == mbImH + pl['ImH']):
                    exact.append(('ImH != MB.ImH + dispersive ImH', full['ImH'], mbImH, pl['ImH']))
                rep.case('hybrid-exact', (name, j, kw.get('xi', kw.get('xB')), t), sample=dict(model=name, xi=xi, t=t, ReH=full['H'], MB=mbH, disp=dH))
                for what, a, b, c in exact:
                    rep.violation('hybrid-sum/%s/%s' % (name, what.split(' ')[0]),
                                  'Hybrid model %s at xi=%r t=%r Q2=%r: %s: %r vs %r + %r' % (name, xi, t, pt.Q2, what, a, b, c),
                                  dict(model=name, kw=kw, parameters=base['pars'], what=what, observed=str(a), required='%r + %r' % (b, c)))
                add('c14.re %s hybH %s %s' % (pre, f2hex(mbH), QTOK), kind='re', which='hybH', impl=full['H'],
                    scale=scV + abs(mbH), **base)
                add('c14.re %s hybE %s %s' % (pre, f2hex(mbE), QTOK), kind='re', which='hybE', impl=full['E'],
                    scale=sub + abs(mbE), **base)
                add('c14.re %s hybHt %s %s' % (pre, f2hex(0.0), QTOK), kind='re', which='hybHt', impl=full['Ht'],
                    scale=scA, **base)
                add('c14.freepole %s %s %s' % (pre, f2hex(p['rpi']), f2hex(p['mpi2'])), kind='pole', impl=full['Et'], **base)
                hybrid_jobs.append((name, dict(p), pt, kw, mbH, mbE, full))
        finally:
            th.parameters.clear()
            th.parameters.update(saved)
    # HybridCFF itself: ReEt = 0; HybridFixedPoleCFF: the fixed pole
    # Only a failure to BUILD the ad-hoc classes because a class / mixin name of the package no longer exists (an
    # AttributeError / ImportError / TypeError raised in this file) is a note; an exception coming out of the package while
    # constructing is a violation (no kinematic input involved), one while EVALUATING is a violation with its failing input.
    adhoc = None
    try:
        from gepard import eff, gpd, dvcs

        class HFix(eff.KellyEFF, gpd.PWNormGPD, cff.HybridFixedPoleCFF, dvcs.BM10):
            pass

        class HPlain(eff.KellyEFF, gpd.PWNormGPD, cff.HybridCFF, dvcs.BM10):
            pass
        hf, hp = HFix(), HPlain()
        for th in (hf, hp):
            th.parameters.update(fits.par_KM15)
        adhoc = (hf, hp)
    except Exception as e:  # noqa
        if in_repo(e):
            rep.violation('hybrid-sum/adhoc-construction', 'building a theory from HybridFixedPoleCFF / HybridCFF (KellyEFF, PWNormGPD, BM10, '
                          'parameters of KM15) raises inside the package: %s' % traceback.format_exception_only(type(e), e)[-1].strip(),
                          dict(classes=['eff.KellyEFF', 'gpd.PWNormGPD', 'cff.HybridFixedPoleCFF | cff.HybridCFF', 'dvcs.BM10'],
                               traceback=traceback.format_exc()[-1500:]), found_input=False)
        elif isinstance(e, (AttributeError, ImportError, TypeError)):
            # could not build the ad-hoc Hybrid classes (names gone): only the shipped ones are covered
            rep.notes.append('ad-hoc HybridFixedPoleCFF / HybridCFF theories not built: %r' % (e,))
        else:
            raise
    if adhoc:
        hf, hp = adhoc
        for _ in range(3 if quick else 20):
            pt, kw = gen_point()
            p = dict(hf.parameters)
            pre = prefix(p, pt.t, is_neutron(pt), pt.xi)
            base = dict(label='hybrid:fixedpole', pars={k: p[k] for k in PAR_ORDER}, kw=kw, xi=pt.xi, t=pt.t, n=is_neutron(pt), cls='HybridFixedPoleCFF')
            with warnings.catch_warnings():
                warnings.simplefilter('ignore')
                ev = dict(fixEt=real(lambda: hf.ReEt(pt)), plainEt=real(lambda: hp.ReEt(pt)),
                          fixH=real(lambda: hf.ReH(pt)), plainH=real(lambda: hp.ReH(pt)),
                          mbH=real(lambda: cff.MellinBarnesCFF.ReH(hf, pt)), dispH=real(lambda: D.ReH(hf, pt, imfun=D.ImH)))
            rep.case('hybrid-exact', ('HybridCFF.ReEt', pt.xi, pt.t))
            raised = {k: v for k, v in ev.items() if not isinstance(v, float)}
            if raised:
                rep.violation('hybrid-sum/adhoc-evaluation', 'HybridFixedPoleCFF (fix) / HybridCFF (plain) theory with the parameters of KM15 at %r: '
                              'no real value from %r' % (kw, raised), dict(kw=kw, parameters=base['pars'], observed={k: str(v) for k, v in ev.items()}))
                continue
            add('c14.fixpole %s' % pre, kind='pole', impl=ev['fixEt'], **base)
            z = ev['plainEt']
            if z != 0:
                rep.violation('hybrid-sum/HybridCFF/ReEt', 'HybridCFF.ReEt(pt) = %r, not 0' % (z,), dict(kw=kw), found_input=False)
            a, b, c = ev['fixH'], ev['plainH'], ev['mbH'] + ev['dispH']
            if not (a == b == c):
                rep.violation('hybrid-sum/HybridFixedPoleCFF/ReH', 'HybridFixedPoleCFF.ReH = %r, HybridCFF.ReH = %r, MB + dispersive = %r'
                              % (a, b, c), dict(kw=kw, parameters=base['pars']))

    # ---------------- sequences on ONE model instance: the same (xi, t) with another target or scale ----------------
    # (per-instance memoisation with an incomplete key shows only here); reference = a fresh instance per evaluation
    for trial in range(6 if quick else 60):
        which = rng.choice(['fixed', 'free', 'gk'])
        xi = 10 ** rng.uniform(-2.5, math.log10(0.4))
        t = -rng.uniform(0.05, 0.9)
        if which == 'gk':
            mk = lambda: cff.GoloskokovKrollCFF()
            seq = [dict(xi=xi, t=t, Q2=q) for q in rng.sample([2.0, 4.0, 10.0, 25.0], 3)]
        else:
            cls_ = cff.DispersionFixedPoleCFF if which == 'fixed' else cff.DispersionFreePoleCFF
            src = rng.choice([fits.par_KM09a, fits.par_KM09b])

            def mk(cls_=cls_, src=src):
                o = cls_()
                load(o, src)
                return o
            seq = [dict(xi=xi, t=t, Q2=rng.choice([2.5, 4.0]), in2particle=part) for part in rng.sample(['p', 'n', 'p', 'n'], 3)]
        shared_obj = mk()
        for k, kw in enumerate(seq):
            for w in ('ReH', 'ReE', 'ReHt'):
                with warnings.catch_warnings():
                    warnings.simplefilter('ignore')
                    a = real(lambda: getattr(shared_obj, w)(g.DataPoint(**kw)))
                    b = real(lambda: getattr(mk(), w)(g.DataPoint(**kw)))
                rep.case('sequence', (which, trial, k, w), sample=dict(model=which, step=k, kw=kw, which=w, value=a) if trial == 0 and w == 'ReH' else None)
                if a != b and not (a != a and b != b):
                    rep.violation('sequence/%s/%s' % (type(shared_obj).__name__, w),
                                  '%s.%s at %s returns %r on an instance that had evaluated %s before, but %r on a fresh instance'
                                  % (type(shared_obj).__name__, w, kw, a, seq[:k], b), dict(model=which, sequence=seq, step=k, which=w))

    # ---------------- REUSE: one model object, its parameters changed several times by every public way ----------------
    # parameters is a plain public attribute of ParameterModel (model.py: "Attributes: parameters: dict"; add_parameters itself
    # binds it); the package reads self.parameters at call time, so a model evaluated after its parameters were changed - in place
    # or by binding another dict - must use the values that are bound NOW.  After every step: (a) the property itself (PV oracle,
    # subtraction constant computed here from the bound dict), (b) every CFF bit-for-bit against a FRESH object of the same class.
    HOWS = ['update', 'setitem', 'rebind-merge', 'rebind-full', 'rebind-copy+update']
    EVALS = ('ReH', 'ReE', 'ReHt', 'ReEt', 'ImH', 'ImHt', 'ImE', 'subtraction')

    def draw(k):
        if k in MILD:
            return rng.uniform(*MILD[k])
        lo, hi = LIMITS[k] if k in LIMITS else FREE_LIMITS[k]
        r = rng.random()
        return lo if r < 0.1 else hi if r < 0.2 else rng.uniform(lo, hi)

    def draw_changes(cur):
        keys = [k for k in list(LIMITS) + list(FREE_LIMITS) if k in cur and rng.random() < 0.5]
        keys += [k for k in MILD if k in cur and rng.random() < 0.15]
        if not keys:
            keys = [rng.choice(['C', 'mC2'])]
        return {k: draw(k) for k in keys}

    def draw_full(complete):
        """a complete parameter dict built from scratch: the dispersive parameters of a shipped set, every parameter with
        declared limits redrawn; the remaining keys (form factors, MB part) as in `complete`"""
        d = dict(complete)
        src = shipped[rng.choice(list(shipped))].parameters
        d.update({k: v for k, v in src.items() if k in d and (k in PAR_ORDER or k in FREE_LIMITS)})
        for k in list(LIMITS) + list(FREE_LIMITS):
            if k in d:
                d[k] = draw(k)
        if d.get('tNv') == 0 and rng.random() < 0.7:
            d['tNv'] = 0.6
        return d

    def show(st):
        v = st['values']
        ks = [kk for kk in ('C', 'mC2') if kk in v] + [kk for kk in v if kk not in ('C', 'mC2') and (kk in PAR_ORDER or kk in FREE_LIMITS)]
        return '%s(%s%s)' % (st['how'], ', '.join('%s=%.6g' % (kk, v[kk]) for kk in ks[:4]), ', ... %d more' % (len(v) - 4) if len(v) > 4 else '')

    def evaluate(o, pt):
        with warnings.catch_warnings():
            warnings.simplefilter('ignore')
            return {w: real(lambda: getattr(o, w)(pt)) for w in EVALS}

    def same(a, b):
        return a == b or (isinstance(a, float) and isinstance(b, float) and a != a and b != b)

    def reuse_object(label, m, mkfresh, complete, nsteps, npts, steps0=()):
        steps = list(steps0)        # what was done to the object since its construction
        hyb = isinstance(m, cff.HybridCFF)
        cname = type(m).__name__
        hows = HOWS[:]
        rng.shuffle(hows)
        hows = (hows + [rng.choice(HOWS) for _ in range(nsteps)])[:max(nsteps, len(HOWS))]
        for k, how in enumerate(hows):
            step = dict(how=how, values=draw_full(complete) if how == 'rebind-full' else draw_changes(m.parameters))
            if how.startswith('rebind') and rng.random() < 0.5:
                step['detached_write'] = {kk: draw(kk) for kk in ('C', 'mC2', 'rv', 'bv')}
            apply_step(m, step)
            steps.append(step)
            rep.hist('reuse.how', how)
            rep.hist('reuse.class', label)
            for _ in range(npts):
                cur = dict(m.parameters)         # the values bound now (read by the harness, not by the model)
                pt, kw = gen_point()
                rp = dict(model_class=label if label.startswith('shipped:') else cname, assignments=list(steps),
                          parameters={kk: cur[kk] for kk in cur if kk in PAR_ORDER or kk in FREE_LIMITS}, kw=kw)
                said = 'after the parameter assignments %s on one %s object' % (' ; '.join(show(st) for st in steps), label)
                flagged = set()
                got = evaluate(m, pt)
                # (a) the property itself, with the CURRENT parameters
                Cind = cur['C'] / (1. - pt.t / cur['mC2']) ** 2
                rep.case('reuse.subtraction', (label, k, pt.t, cur['C'], cur['mC2']))
                if not (isinstance(got['subtraction'], float) and abs(got['subtraction'] - Cind) <= 1e-13 * abs(Cind)):
                    flagged.add('subtraction')
                    rep.violation('reuse/%s/subtraction' % cname, 're-used %s: subtraction(pt) = %r at t=%r, but its parameters now are C=%r, mC2=%r: C/(1-t/mC2)^2 = %r; %s'
                                  % (cname, got['subtraction'], pt.t, cur['C'], cur['mC2'], Cind, said),
                                  dict(rp, which='subtraction', observed=str(got['subtraction']), required=Cind))
                bad = km_oracle('reuse:' + label, m, pt, kw, cur, via=D if hyb else None, stream='oracle.reuse')
                if hyb:
                    mb = real(lambda: cff.MellinBarnesCFF.ReH(m, pt))
                    if not isinstance(mb, float):
                        bad.append(('H(MB part)', mb, None, None))
                    else:
                        b = hybrid_sum_oracle(label, m, pt, cur, mb, got['ReH'], stream='oracle.reuse')
                        if b:
                            bad.append(b)
                for w, v, ref, rel in bad:
                    flagged.add('Re' + w.split('(')[0])
                    rep.violation('reuse/%s/Re%s' % (cname, w),
                                  're-used %s: Re%s(pt) = %r at %r, but (MB part +) PV/pi -/+ C of its own Im%s with the parameters it has NOW '
                                  '(C=%r, mC2=%r) is %r (relative to the scale of the integral: %s, allowed %g); %s'
                                  % (cname, w, v, kw, w.split('(')[0], cur['C'], cur['mC2'], ref, rel, ORACLE_TOL, said),
                                  dict(rp, which='Re' + w, observed=v, required=ref, rel=rel))
                # (b) bit-for-bit against a fresh object with these values
                fresh = mkfresh()
                fresh.parameters.update(cur)
                want = evaluate(fresh, pt)
                for w in EVALS:
                    rep.case('reuse', (label, k, how, w, pt.xi, pt.t, is_neutron(pt)),
                             sample=dict(model=label, step=k, how=how, which=w, kw=kw, value=got[w]) if w == 'ReH' and k == 0 else None)
                    if not same(got[w], want[w]) and w not in flagged:
                        rep.violation('reuse-fresh/%s/%s' % (cname, w),
                                      're-used %s: %s(pt) = %r at %r, but a fresh %s with the same parameter values gives %r; %s'
                                      % (cname, w, got[w], kw, cname, want[w], said),
                                      dict(rp, which=w, observed=str(got[w]), required=str(want[w])))
                # the temporary way: predict(pt, observable=..., parameters=...) on the re-used object
                if rng.random() < 0.5:
                    tmp = draw_changes(cur)
                    w = rng.choice(['ReH', 'ReE'])
                    before = dict(m.parameters)
                    with warnings.catch_warnings():
                        warnings.simplefilter('ignore')
                        a = real(lambda: m.predict(pt, observable=w, parameters=tmp))
                        fresh2 = mkfresh()
                        fresh2.parameters.update(dict(cur, **tmp))
                        b = real(lambda: getattr(fresh2, w)(pt))
                    rep.case('reuse', (label, k, 'predict', w, pt.xi, pt.t, is_neutron(pt)))
                    rep.hist('reuse.how', 'predict(parameters=)')
                    if not same(a, b) or dict(m.parameters) != before:
                        rep.violation('reuse-fresh/%s/predict' % cname,
                                      're-used %s: predict(pt, observable=%r, parameters=%r) = %r at %r, a fresh %s with these values gives %r; '
                                      'parameters restored afterwards: %s; %s' % (cname, w, tmp, a, kw, cname, b, dict(m.parameters) == before, said),
                                      dict(rp, which=w, temporary=tmp, observed=str(a), required=str(b)))

    n_plain, n_steps, n_pts, n_rounds = (3, 5, 1, 1) if quick else (24, 10, 2, 3)
    for i in range(n_plain):
        cls_ = [cff.DispersionFixedPoleCFF, cff.DispersionFreePoleCFF][i] if i < 2 else rng.choice([cff.DispersionFixedPoleCFF, cff.DispersionFreePoleCFF])
        obj = cls_()
        first = []
        if rng.random() < 0.5:
            src = shipped[rng.choice(list(shipped))].parameters
            first = [dict(how='update', values={k: v for k, v in src.items() if k in obj.parameters})]
            apply_step(obj, first[0])
        reuse_object(cls_.__name__, obj, cls_, dict(cls_().parameters), n_steps, n_pts, steps0=first)
    for name, th in shipped.items():
        for _ in range(n_rounds):
            orig = th.parameters
            saved = dict(orig)
            try:
                reuse_object('shipped:' + name, th, type(th), saved, n_steps, n_pts)
            finally:                         # the same dict OBJECT with the same content: other streams use these theories
                th.parameters = orig
                orig.clear()
                orig.update(saved)
    if cff.GoloskokovKrollCFF().parameters:
        rep.notes.append('GoloskokovKrollCFF has parameters now (%r): the reuse stream does not vary them' % (sorted(cff.GoloskokovKrollCFF().parameters),))
    else:
        rep.hist('reuse.class', 'GoloskokovKrollCFF: no parameters, nothing to re-assign')

    # ---------------- GoloskokovKroll: wiring on the real objects ----------------
    gkm = cff.GoloskokovKrollCFF()
    DC = cff.DispersionCFF
    gk_jobs = []
    # Q2: the values of gen_point (2.5, 4, 8) and a wider range (GK evolves its coefficients and intercepts with log(Q2/4)):
    # quick - two extra points per object from GK_Q2_WIDE; thorough - two thirds of the points log-uniform in [1.5, 50] or from the set
    GK_Q2_WIDE = [1.5, 2.0, 3.0, 6.0, 10.0, 16.0, 25.0, 50.0]
    n_gk = 4 if quick else 120
    for mobj in (gkm, gk12d):
        for j in range(n_gk):
            pt, kw = gen_point()
            kw.pop('in2particle', None)
            if (quick and j >= 2) or (not quick and j % 3):
                kw['Q2'] = rng.choice(GK_Q2_WIDE) if quick or rng.random() < 0.3 else math.exp(rng.uniform(math.log(1.5), math.log(50.)))
            rep.hist('gk.Q2', '%g' % kw['Q2'] if kw['Q2'] in GK_Q2_WIDE + [2.5, 4., 8.] else 'log-uniform[1.5,50]')
            pt = g.DataPoint(**kw)
            r = dict(H=real(lambda: mobj.ReH(pt)), E=real(lambda: mobj.ReE(pt)), Ht=real(lambda: mobj.ReHt(pt)),
                     Et=real(lambda: mobj.ReEt(pt)))
            if common.private(rep, DC, '_ReV', 'gk-wiring stream skipped (real parts are compared with PV integrals of the imaginary parts through the public ReH.. as before)') is None \
                    or common.private(rep, DC, '_ReA', 'gk-wiring stream skipped') is None:
                break
            w = dict(H=real(lambda: DC._ReV(mobj, pt, mobj.ImH, -1)), E=real(lambda: DC._ReV(mobj, pt, mobj.ImE, +1)),
                     Ht=real(lambda: DC._ReA(mobj, pt, mobj.ImHt)),
                     Et=real(lambda: mobj.ReEtpole(pt) + DC._ReA(mobj, pt, mobj.ImEt)))
            rep.case('gk-wiring', (type(mobj).__name__, pt.xi, pt.t, pt.Q2), sample=dict(model=type(mobj).__name__, xi=pt.xi, t=pt.t, Q2=pt.Q2, **r))
            if r != w:
                rep.violation('gk-wiring/' + type(mobj).__name__, '%s real parts are not DispersionCFF._ReV/_ReA of its own imaginary parts '
                              '(+ pole for Et): %r vs %r' % (type(mobj).__name__, r, w), dict(kw=kw, observed=r, required=w), found_input=False)
            gk_jobs.append((mobj, pt, kw, r))

    # ---------------- model vs code ----------------
    try:
        out = common.run_driver(lines)
    except common.ModelUnavailable as ex:
        # the executable model does not build / run: no verdict by itself.  Reported without a failing input; every stream on the
        # real objects (exact clauses, sequences, reuse above; all ORACLE streams below) runs regardless and keeps its violations.
        out = []
        rep.violation('model-unavailable', 'the Lean model driver for c14.* could not be run, the model-vs-code comparison (%d protocol lines) '
                      'was skipped; the exact and oracle streams on the real code ran: %s' % (len(lines), str(ex)[:300]),
                      dict(reason=str(ex)[:300]), found_input=False)
        rep.notes.append('model driver unavailable: streams im / darg / sub / pole / re / err were not compared in this run')
    mismatches = []
    worst = {}
    for line, m, o in zip(lines, meta, out):
        kind = m['kind']
        impl = m['impl']
        if kind in ('re', 'err'):
            model = parse_res(o)
        else:
            model = hex2f(o) if len(o) == 16 else o
        key = (kind, m.get('which'), m.get('op'), m['label'], m['xi'], m['t'], m['n'], m.get('x'))
        if isinstance(impl, str) or isinstance(model, str):
            agree = impl == model
            rel = 0. if agree else float('inf')
            nontriv = True
        else:
            sc = m.get('scale', 0.)
            rel = relerr(impl, model, sc)
            agree = rel <= TOL
            nontriv = not (impl == 0 and model == 0)
        stream = kind if kind != 're' else 're' + ('.hybrid' if m['which'].startswith('hyb') else '')
        rep.case(stream, key, nontrivial=nontriv,
                 sample=dict(model=m['label'], which=m.get('which'), xi=m['xi'], t=m['t'], neutron=m['n'], code=impl, lean=model))
        if kind in ('re', 'err'):
            rep.hist('re.outcome', impl if isinstance(impl, str) else 'value')
        if not isinstance(rel, str) and rel != float('inf'):
            worst[stream] = max(worst.get(stream, 0.), rel)
        if not agree:
            mismatches.append((line, m, model))
    rep.coverage['model_vs_code_max_rel'] = {k: float('%.3g' % v) for k, v in worst.items()}

    # ---------------- ORACLE stream: the property itself on the real code ----------------
    n_or = len(oracle_jobs) if not quick else min(len(oracle_jobs), 220)
    step = max(1, len(oracle_jobs) // n_or)
    for idx, (label, mobj, pt, kw, pars) in enumerate(oracle_jobs[::step]):
        for w, v, ref, rel in km_oracle(label, mobj, pt, kw, pars, cross=idx < (6 if quick else 40)):
            rep.violation('oracle/%s/Re%s' % (type(mobj).__name__, w),
                          '%s: Re%s(pt) = %r but PV/pi -/+ C of its own Im%s is %r (relative to the scale of the integral: %s, '
                          'allowed %g) at xi=%r t=%r %s' % (label, w, v, w, ref, rel, ORACLE_TOL, pt.xi, pt.t, 'neutron' if is_neutron(pt) else 'proton'),
                          dict(model_class=label if label.startswith('shipped:') else type(mobj).__name__, parameters=pars, kw=kw,
                               which='Re' + w, observed=v, required=ref, rel=rel))
    # Hybrid: the dispersive part (unbound DispersionFixedPoleCFF methods on the hybrid object) and the full sum
    for name, pars, pt, kw, mbH, mbE, full in hybrid_jobs:
        th = shipped[name]
        saved = dict(th.parameters)
        try:
            th.parameters.update(pars)
            bad = km_oracle('hybrid:' + name, th, pt, kw, pars, via=D)
            # the full sum against MB part + PV integral
            b = hybrid_sum_oracle(name, th, pt, pars, mbH, full['H'])
            if b:
                bad.append(b)
        finally:
            th.parameters.clear()
            th.parameters.update(saved)
        for w, v, ref, rel in bad:
            rep.violation('oracle/Hybrid:%s/Re%s' % (name, w),
                          'Hybrid %s: Re%s = %r, required (MB part +) PV/pi -/+ C = %r (rel %s) at xi=%r t=%r' % (name, w, v, ref, rel, pt.xi, pt.t),
                          dict(model_class='shipped:' + name, parameters=pars, kw=kw, which='Re' + w, observed=v, required=ref, rel=rel))
    # GoloskokovKroll / GK12D
    for mobj, pt, kw, r in gk_jobs:
        xi = pt.xi
        for w, im, kind, extra in (('H', mobj.ImH, 'V', -float(mobj.subtraction(pt))), ('E', mobj.ImE, 'V', float(mobj.subtraction(pt))),
                                   ('Ht', mobj.ImHt, 'A', 0.), ('Et', mobj.ImEt, 'A', float(mobj.ReEtpole(pt)))):
            v = r[w]
            n_oracle += 1
            if not isinstance(v, float):
                rep.violation('oracle/%s/Re%s' % (type(mobj).__name__, w), '%s.Re%s raised %s at xi=%r t=%r Q2=%r' % (type(mobj).__name__, w, v, xi, pt.t, pt.Q2),
                              dict(model_class=type(mobj).__name__, kw=kw, which='Re' + w, observed=v))
                continue
            F = lambda x: 0.0 if x >= 1.0 else float(im(pt, x))  # noqa  (x = 1, an end point the adaptive reference integrator may ask for, is outside the domain (0, 1): GK divides by 1 - eta there; every imaginary part vanishes at x = 1)
            okk, rel, ref, scale, est = oracle_check(F, xi, kind, v, extra)
            rep.case('oracle.gk', (type(mobj).__name__, w, xi, pt.t, pt.Q2), sample=dict(model=type(mobj).__name__, which='Re' + w, xi=xi, t=pt.t, Q2=pt.Q2, code=v, pv_reference=ref, rel=rel))
            record('GK.Re' + w, rel)
            if not okk:
                rep.violation('oracle/%s/Re%s' % (type(mobj).__name__, w),
                              '%s: Re%s(pt) = %r but PV/pi (-/+ subtraction, + pole) of its own Im%s is %r (rel %s, allowed %g) at xi=%r t=%r Q2=%r'
                              % (type(mobj).__name__, w, v, w, ref, rel, ORACLE_TOL, xi, pt.t, pt.Q2),
                              dict(model_class=type(mobj).__name__, kw=kw, which='Re' + w, observed=v, required=ref, rel=rel))
    rep.coverage['oracle_max_rel'] = {k: float('%.3g' % v) for k, v in omax.items()}
    rep.coverage['oracle_cross_validation_max_rel'] = float('%.3g' % selfagree)
    rep.coverage['oracle_evaluations'] = n_oracle

    # ---------------- disagreements model/code: look for a failing input of the property ----------------
    for line, m, model in mismatches[:20]:
        found = False
        detail = ''
        try:
            if m['cls'] in ('DispersionFixedPoleCFF', 'DispersionFreePoleCFF') and 0 < m['xi'] < 1 and m['label'] != 'errors':
                mobj = getattr(cff, m['cls'])()
                if 'tal' not in m['pars']:
                    del mobj.parameters['tal'], mobj.parameters['talp']
                mobj.parameters.update(m['pars'])
                pt = g.DataPoint(**m['kw'])
                bad = km_oracle('recheck', mobj, pt, m['kw'], m['pars'])
                if bad:
                    found = True
                    detail = '; the property fails on the real code here: %r' % (bad,)
        except Exception as e:  # noqa
            detail = '; (oracle re-check failed to run: %r)' % (e,)
        rep.violation('model-mismatch/%s/%s' % (m['kind'], m.get('which') or m.get('op') or ''),
                      'model and code disagree on %s (%s) for %s at xi=%r t=%r: code %r, Lean model %r%s'
                      % (m['kind'], m.get('which') or m.get('op'), m['label'], m['xi'], m['t'], m['impl'], model, detail),
                      dict(model_class=m['cls'], parameters=m['pars'], kw=m['kw'], which=m.get('which'), x=m.get('x'),
                           impl=str(m['impl']), model=str(model), protocol_line=line[:400]), found_input=found)
    if not ok and not rep.violations:
        rep.violation('lean', 'Lean side of C14 no longer checks: ' + why, dict(reason=why), found_input=False)

    rep.assumptions += [
        'model vs code: floats compared within %g relative to the scale = sum of the absolute values of the terms '
        '(quadrature terms, log term, subtraction, MB part); for the integrands the scale is |kernel| u^ga (|F(u)|+|F(xi)|)/(1-ga) '
        'and x with |u - xi| < 1e-4 xi are not generated (cancellation in xi^2 - u^2)' % TOL,
        'oracle: |ReX(pt) - (PV/pi -/+ C)| <= %g * (|PV/pi| + |log term * ImX(xi)|/pi); the accuracy of the current tree was '
        'measured as median 2e-5, 99%% 9e-4, maximum 2.9e-3 (corner xi=0.5, t=-1, large-x power 0.4) over 7000 points of the '
        'domain, DESIGN.md §4 C14 records 1e-4..1e-3; the reference integrals themselves agree between QUADPACK QAWC and mpmath '
        'tanh-sinh to < 1e-9 (recorded per run as oracle_cross_validation_max_rel)' % ORACLE_TOL,
        'parameters with declared limits are drawn within parameters_limits (incl. end points); parameters without declared '
        'limits (Regge intercepts/slopes, normalisations) take the shipped values or are varied inside %r' % (MILD,),
        'quadrature nodes/weights are read from gepard.quadrature (roots18, weights18) and fed to the model as data',
        'reuse stream: `parameters` is a public plain attribute of ParameterModel (documented in its class docstring, bound by add_parameters); '
        'changing it in place (update, item assignment, predict(parameters=...)) or binding another dict to it are both legitimate, and the '
        'property quantifies over the parameter values of the model, i.e. the values bound when the CFF is evaluated: the oracle takes C and mC2 '
        'from dict(m.parameters) read by the harness; subtraction(pt) is compared with C/(1-t/mC2)^2 within 1e-13 relative; the comparison with a '
        'fresh object of the same class (parameters.update on construction defaults) is bit-for-bit: both run the same floating-point operations',
        'GK streams: Q2 in {2.5, 4, 8} and, for part of the points, in {1.5, 2, 3, 6, 10, 16, 25, 50} (quick) or log-uniform in [1.5, 50] (thorough); '
        'no handling of the removable singularity alpha_sea(t, Q2) = 1 of the GK sea (property C19): it matters only for t within ~1e-5 of the pole',
    ]
    rep.notes += [
        'GoloskokovKrollCFF / GK12D real parts ARE computed dispersively (inherit DispersionCFF.ReH/ReE/ReHt; ReEt = pole + '
        'DispersionCFF.ReEt): covered by the gk-wiring stream (bitwise) and the oracle.gk stream; the GK imaginary parts are not modelled in Lean',
        'oracle streams evaluate the property directly on the real code; they support the theorems (which isolate the quadrature '
        'error as the only non-exact term) and carry what no theorem carries: the 18-point accuracy',
        'reuse stream (real objects only, not modelled in Lean: the model is a pure function of the parameter values): one object of '
        'DispersionFixedPoleCFF / DispersionFreePoleCFF / each shipped theory (KM09a, KM09b, KM10, KM10b, KM15; restored to their own dict object '
        'and content afterwards) whose parameters are changed several times in a row by update / item assignment / rebinding to a merged, copied '
        'or completely new dict / predict(parameters=...), with writes into the dict that is no longer bound; GoloskokovKrollCFF has no parameters',
    ]
    return rep.finish(level='proof',
                      checker_cmd='lake build Props.C14; #print axioms; gepdriver c14.* vs gepard.cff; scipy QAWC oracle',
                      trusted=['Lean 4.33 kernel + Mathlib', 'Scalar/Disp.lean.in instantiated at Float and ℝ (same text)',
                               'harness/props/C14.py', 'scipy p_roots(18) (nodes/weights taken as data)',
                               'QUADPACK (scipy.integrate.quad) and mpmath as oracle references',
                               'Mellin–Barnes part of the Hybrid models (a number per point, from the real code)'])


def replay(path):
    """re-evaluate the recorded input on the real code against the PV oracle"""
    r = json.load(open(path))
    print(json.dumps({k: r[k] for k in r if k not in ('parameters',)}, indent=1, default=str)[:3000])
    if 'kw' not in r or 'model_class' not in r or not (str(r.get('which', '')).startswith('Re') or r.get('assignments')):
        return 0
    import gepard as g
    from gepard import cff, fits
    from gepard import gk as gkmod
    mc = r['model_class']
    if mc.startswith('shipped:'):
        mobj = getattr(fits, 'th_' + mc.split(':')[1])
    elif mc == 'GK12D':
        mobj = gkmod.GK12D()
    elif hasattr(cff, mc):
        mobj = getattr(cff, mc)()
    else:
        mobj = cff.DispersionFreePoleCFF()
    orig = getattr(mobj, 'parameters', None)
    saved = dict(orig or {})
    try:
        if r.get('assignments'):
            # a re-used object: the recorded sequence of parameter assignments, then the value against a fresh object and the oracle
            for st in r['assignments']:
                apply_step(mobj, st)
            cur = dict(mobj.parameters)
            pt = g.DataPoint(**r['kw'])
            fresh = type(mobj)()
            fresh.parameters.update(cur)
            w = r['which'].split('(')[0]
            a, b = real(lambda: getattr(mobj, w)(pt)), real(lambda: getattr(fresh, w)(pt))
            print('re-used object after %d assignments: %s = %r; fresh object with the same values: %r -> %s'
                  % (len(r['assignments']), w, a, b, 'same' if a == b else 'DIFFERENT'))
            Cind = cur['C'] / (1. - pt.t / cur['mC2']) ** 2
            sub = real(lambda: mobj.subtraction(pt))
            print('subtraction(pt) = %r; C/(1-t/mC2)^2 of the parameters bound now = %r' % (sub, Cind))
            rc = 0 if a == b and isinstance(sub, float) and abs(sub - Cind) <= 1e-13 * abs(Cind) else 1
            if not w.startswith('Re') or w == 'ReEt':
                return rc
            r = dict(r, parameters=None)
        if r.get('parameters'):
            mobj.parameters.update(r['parameters'])
        pt = g.DataPoint(**r['kw'])
        w = r['which'][2:].split('(')[0]
        D = cff.DispersionFixedPoleCFF
        hyb = isinstance(mobj, cff.HybridCFF)
        kind = 'V' if w in ('H', 'E') else 'A'
        if hyb:
            im = dict(H=D.ImH, E=D.ImE, Ht=D.ImHt)[w]
            F = lambda x: float(im(mobj, pt, x))  # noqa
            v = float(getattr(D, 'Re' + w)(mobj, pt, imfun=im))
            sub = float(D.subtraction(mobj, pt))
        else:
            im = getattr(mobj, 'Im' + w)
            F = lambda x: 0.0 if x >= 1.0 else float(im(pt, x))  # noqa  (x = 1, an end point the adaptive reference integrator may ask for, is outside the domain (0, 1): GK divides by 1 - eta there; every imaginary part vanishes at x = 1)
            v = float(getattr(mobj, 'Re' + w)(pt))
            sub = float(mobj.subtraction(pt))
        if r.get('assignments'):
            sub = Cind            # the subtraction constant of the parameters bound now, not the model's own word for it
        extra = -sub if w == 'H' else sub if w == 'E' else 0.
        if w == 'Et' and hasattr(mobj, 'ReEtpole'):
            extra = float(mobj.ReEtpole(pt))
        okk, rel, ref, scale, est = oracle_check(F, pt.xi, kind, v, extra)
        print('real code: Re%s = %r; PV reference %r; relative to scale %r (allowed %g): %s'
              % (w, v, ref, rel, ORACLE_TOL, 'ok' if okk else 'VIOLATED'))
        return 0 if okk and not (r.get('assignments') and rc) else 1
    finally:
        if orig is not None:
            mobj.parameters = orig
            orig.clear()
            orig.update(saved)

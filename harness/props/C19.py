"""C19 — fixed model ingredients reproduce their defining parametrisations and integrals.

Lean: Props/C19.lean (ℝ) over Scalar/Eff.lean.in — KellyEFF = Sachs combination of Kelly's rational
forms (literals tied to coefficients by hypotheses), static limits, denominators >= 1 for t <= 0,
DipoleEFF within 1 % of the standard dipole for all t <= 0, GK region dispatch (valence support,
sea = antisymmetrised valence-type dispatch) for abstract DD integrals.

Correspondence (model vs code): KellyEFF / DipoleEFF F1, F2 for every particle flag over t in
[-10, 0] (1e-13), GK `_val` / `_sea` dispatch with the real `_intval` / `_intsea` values fed to the
model as a table (bit-exact) and the region actually taken observed through a recording subclass.

ORACLE streams (the part no theorem carries; they support, never replace, the theorems):
  eff-oracle   real F1, F2 vs Kelly's PUBLISHED table evaluated in mpmath; dipole vs standard dipole
  gk-oracle    real GK GPDs vs an mpmath quadrature of the double-distribution integral of the
               forward profiles, all three regions
  gk-switch    continuity of the small-eta Taylor branches of `_intval` / `_intsea` at their switch
  gk-symmetry  sea antisymmetry / valence support on the real GPD functions
  gk-pole      sea GPDs where the sea Regge intercept alpha(t,Q2) crosses 1 (Gamma(1+p) pole of the
               closed form; the DD integral itself is finite there)
  gk-options   every keyword option beyond (x, eta, t, Q2) of the public GPD functions (discovered with
               inspect.signature; today Edval(..., DMbeta)) at its non-default values, keyword and positional,
               DGLAP / ERBL, vs the DD integral of the forward profile THAT OPTION defines (OPTION_TABLE);
               Im CFFs forwarding such an option (ImE(pt, xi, DMbeta)) vs pi sum_q e_q^2 (val + 2 sea)(xi, xi)
  gk-moment    int_-1^1 dx E^q_val(x, eta, t) = int drho e_q(rho, t) for every eta, = kappa_q at t = 0
               (GK12 Table 1), for every option value: quadrature of the real function, no DD integral
"""
import json
import math
import os
import re

import common
from common import f2hex, hex2f, relerr

EPS = 2.220446049250313e-16

# ----------------------------------------------------------------------------------
# EFF: the code's literals (same as lean/Scalar/Eff.lean.in) and Kelly's published table
# ----------------------------------------------------------------------------------

LIT = dict(
    p_tau=0.28397655354667284, p_a1E=0.06815437285120148, p_b1E=3.118062557942468,
    p_b2E=1.0338391956016382, p_b3E=0.5031268669574522, p_mutau=0.7931031653189349,
    p_mu=2.792847351, p_a1M=0.03407718642560074, p_b1M=3.115222792407001,
    p_b2M=1.520921000705686, p_b3M=0.14999913420898098,
    n_tau=0.2831951622975774, n_A=0.4842637275288574, n_B=0.9345440355820054,
    n_lam=1.4084507042253522, n_mutau=0.5417644379086957, n_mu=1.9130427,
    n_a1M=0.6598447281533554, n_b1M=4.168632789020339, n_b2M=1.9408278987597791,
    n_b3M=1.9100884849907935)

# J. J. Kelly, Phys. Rev. C 70 (2004) 068202, Table I (central values; A, B with their errors)
KELLY = dict(GEp=dict(a1=-0.24, b1=10.98, b2=12.82, b3=21.97),
             GMp=dict(a1=0.12, b1=10.97, b2=18.86, b3=6.55),
             GMn=dict(a1=2.33, b1=14.72, b2=24.20, b3=84.1),
             GEn=dict(A=1.70, dA=0.04, B=3.30, dB=0.32, lam2=0.71))
MU_P, MU_N = 2.792847351, -1.9130427
M_P, M_N = 0.938272013, 0.93956556     # gepard.constants.Mp; M_n as implied by the code's 1+tau literal


def implied_coefficients():
    """coefficients of Kelly's table implied by the code's literals: a_k = literal_k (4M^2)^k"""
    Mp4, Mn4 = 1 / LIT['p_tau'], 1 / LIT['n_tau']
    return {
        'Mp': math.sqrt(Mp4 / 4), 'Mn': math.sqrt(Mn4 / 4),
        'GEp.a1': -LIT['p_a1E'] * Mp4, 'GEp.b1': LIT['p_b1E'] * Mp4, 'GEp.b2': LIT['p_b2E'] * Mp4 ** 2,
        'GEp.b3': LIT['p_b3E'] * Mp4 ** 3,
        'GMp.a1': LIT['p_a1M'] * Mp4, 'GMp.b1': LIT['p_b1M'] * Mp4, 'GMp.b2': LIT['p_b2M'] * Mp4 ** 2,
        'GMp.b3': LIT['p_b3M'] * Mp4 ** 3,
        'mu_p(F1)': LIT['p_mutau'] * Mp4, 'mu_p(F2)': LIT['p_mu'],
        'GMn.a1': LIT['n_a1M'] * Mn4, 'GMn.b1': LIT['n_b1M'] * Mn4, 'GMn.b2': LIT['n_b2M'] * Mn4 ** 2,
        'GMn.b3': LIT['n_b3M'] * Mn4 ** 3,
        'mu_n(F1)': -LIT['n_mutau'] * Mn4, 'mu_n(F2)': -LIT['n_mu'],
        'GEn.A': LIT['n_A'] * Mn4, 'GEn.B': LIT['n_B'] * Mn4, 'GEn.lam2': 1 / LIT['n_lam']}


def published_coefficients():
    return {
        'Mp': M_P, 'Mn': M_N,
        'GEp.a1': KELLY['GEp']['a1'], 'GEp.b1': KELLY['GEp']['b1'], 'GEp.b2': KELLY['GEp']['b2'],
        'GEp.b3': KELLY['GEp']['b3'],
        'GMp.a1': KELLY['GMp']['a1'], 'GMp.b1': KELLY['GMp']['b1'], 'GMp.b2': KELLY['GMp']['b2'],
        'GMp.b3': KELLY['GMp']['b3'], 'mu_p(F1)': MU_P, 'mu_p(F2)': MU_P,
        'GMn.a1': KELLY['GMn']['a1'], 'GMn.b1': KELLY['GMn']['b1'], 'GMn.b2': KELLY['GMn']['b2'],
        'GMn.b3': KELLY['GMn']['b3'], 'mu_n(F1)': MU_N, 'mu_n(F2)': MU_N,
        'GEn.A': KELLY['GEn']['A'], 'GEn.B': KELLY['GEn']['B'], 'GEn.lam2': KELLY['GEn']['lam2']}


def kelly_published(mp, part, t):
    """(F1, F2, scale1, scale2, dF/dA) from Kelly's published parametrisation, in mpmath"""
    t = mp.mpf(t)
    if part == 'n':
        M4 = 4 * mp.mpf(repr(M_N)) ** 2
        tau = -t / M4
        k = KELLY['GMn']
        GD = (1 - t / mp.mpf('0.71')) ** -2
        g = tau / (1 + mp.mpf('3.30') * tau) * GD
        GE = mp.mpf('1.70') * g
        GM = mp.mpf(repr(MU_N)) * (1 + mp.mpf(repr(k['a1'])) * tau) / (
            1 + mp.mpf(repr(k['b1'])) * tau + mp.mpf(repr(k['b2'])) * tau ** 2 + mp.mpf(repr(k['b3'])) * tau ** 3)
        dA = g / (1 + tau)
    else:
        M4 = 4 * mp.mpf(repr(M_P)) ** 2
        tau = -t / M4
        e, m = KELLY['GEp'], KELLY['GMp']
        GE = (1 + mp.mpf(repr(e['a1'])) * tau) / (
            1 + mp.mpf(repr(e['b1'])) * tau + mp.mpf(repr(e['b2'])) * tau ** 2 + mp.mpf(repr(e['b3'])) * tau ** 3)
        GM = mp.mpf(repr(MU_P)) * (1 + mp.mpf(repr(m['a1'])) * tau) / (
            1 + mp.mpf(repr(m['b1'])) * tau + mp.mpf(repr(m['b2'])) * tau ** 2 + mp.mpf(repr(m['b3'])) * tau ** 3)
        dA = mp.mpf(0)
    F1 = (GE + tau * GM) / (1 + tau)
    F2 = (GM - GE) / (1 + tau)
    s = (abs(GE) + abs(tau * GM)) / (1 + tau)
    s2 = (abs(GE) + abs(GM)) / (1 + tau)
    return F1, F2, s, s2, dA


def std_dipole(mp, t):
    t = mp.mpf(t)
    M4 = 4 * mp.mpf(repr(M_P)) ** 2
    tau = -t / M4
    GD = (1 - t / mp.mpf('0.71')) ** -2
    mu = mp.mpf(repr(MU_P))
    return GD * (1 + mu * tau) / (1 + tau), (mu - 1) * GD / (1 + tau)


# ----------------------------------------------------------------------------------
# GK: forward profiles (GK12, arXiv:1210.6975, as documented in gk.py) and the DD integral
# ----------------------------------------------------------------------------------

MP2GK = 0.9383 ** 2
BASE = ['Huval', 'Hdval', 'Hs', 'Hudsea', 'Htuval', 'Htdval', 'Euval', 'Edval', 'Esea', 'Etuval', 'Etdval']
COMPOSITE = {'Hu': ('Huval', 'Hudsea'), 'Hd': ('Hdval', 'Hudsea'), 'Eu': ('Euval', 'Esea')}
ALL_GPDS = BASE + sorted(COMPOSITE)
SEA = {'Hs', 'Hudsea', 'Esea', 'Hu', 'Hd', 'Eu'}


def alpha_sea(t, Q2):
    L = math.log(Q2 / 4.)
    return 1.10 + 0.06 * L - 0.0027 * L ** 2 + 0.15 * t


# Keyword options of the public GPD functions beyond (x, eta, t, Q2), as documented in gk.py, and the forward profile each value
# DEFINES.  (function, option) -> (documented default, other values to evaluate).  Options are DISCOVERED on the real class with
# inspect.signature (gk_option_functions); an option found there that is missing here is noted as not covered.
#   Edval(..., DMbeta=False): GK12 Table 1: e_d(rho) = kappa_d / B(1-alpha0, 1+beta_d) rho^-alpha(t) (1-rho)^beta_d with kappa_d = -2.03,
#       alpha0 = 0.48, alpha' = 0.9, beta_d = 5.6 (the code expands (1-rho)^2.6 up to rho^8);  DMbeta=True ("choice of DM in his
#       notebook"): the same with beta_d = 6, i.e. (1-rho)^3 (1-rho)^3 exactly, normalised with B(0.52, 7)
OPTION_TABLE = {('Edval', 'DMbeta'): (False, [True])}
# lowest x-moment at t = 0 of the valence GPDs E^q_val: the forward-profile normalisation kappa_q (GK12 Table 1; the flavour
# decomposition of the anomalous magnetic moments, kappa_u = 2 kappa_p + kappa_n = 1.673, kappa_d = kappa_p + 2 kappa_n = -2.032),
# whatever the option and whatever eta (polynomiality)
KAPPA = {'Euval': 1.67, 'Edval': -2.03}
OPTION_DOC = {('Edval', (('DMbeta', True),)): '-2.03/B(0.52, 7) rho^-(0.48+0.9t) (1-rho)^6',
              ('Edval', (('DMbeta', False),)): '-2.03/B(0.52, 6.6) rho^-(0.48+0.9t) (1-rho)^5.6, (1-rho)^2.6 expanded to rho^8'}
# Im CFF = pi sum_q e_q^2 (F^q(xi, xi) - F^q(-xi, xi)) = pi sum_q e_q^2 (F^q_val + 2 F^q_sea)(xi, xi): (e_q^2, valence, sea)
CFF_FLAVOURS = {'ImE': [(4. / 9, 'Euval', 'Esea'), (1. / 9, 'Edval', 'Esea'), (1. / 9, None, 'Esea')]}


def opts_key(opts):
    return tuple(sorted((opts or {}).items()))


def opts_str(opts):
    return ', '.join('%s=%r' % kv for kv in opts_key(opts))


def gk_option_functions(cls):
    """public functions DEFINED in the module of cls taking keyword options: {name: (kind, [(option, default)])},
    kind 'gpd' for f(x, eta, t, Q2, <options>), 'cff' for f(pt, [xi,] <options>)"""
    import inspect
    out = {}
    for name, f in inspect.getmembers(cls, inspect.isfunction):
        if name.startswith('_') or getattr(f, '__module__', None) != cls.__module__:
            continue
        ps = [q for q in list(inspect.signature(f).parameters.values())[1:]
              if q.kind in (q.POSITIONAL_OR_KEYWORD, q.KEYWORD_ONLY)]
        names = [q.name for q in ps]
        if names[:4] == ['x', 'eta', 't', 'Q2']:
            kind, extra = 'gpd', ps[4:]
        elif names[:1] == ['pt']:
            kind, extra = 'cff', [q for q in ps[1:] if q.name not in ('xi', 'imfun')]
        else:
            continue
        extra = [(q.name, q.default) for q in extra if q.default is not q.empty]
        if extra:
            out[name] = (kind, extra, names)
    return out


def option_values(name, opt, default):
    """non-default values of an option to evaluate: the documented ones, else the other truth value of a bool"""
    if (name, opt) in OPTION_TABLE:
        return list(OPTION_TABLE[(name, opt)][1])
    if isinstance(default, bool):
        return [not default]
    return []


def profiles(mp, name, t, Q2, opts=None):
    """forward profile of a base GPD: factor * sum_k c_k beta^(p_k) (1-beta)^(2n+1);
    returns (factor, [(c, p)], n, sea).  n = 1 valence, n = 2 sea (profile-function power).
    opts: keyword options of the GPD function (OPTION_TABLE); the profile is the one the option values define."""
    opts = dict(opts or {})
    unknown = [k for k in opts if (name, k) not in OPTION_TABLE]
    if unknown:
        raise KeyError('%s has no documented option %s' % (name, unknown))
    L = math.log(Q2 / 4.)
    if name in ('Huval', 'Hdval'):
        c = [1.52 + 0.248 * L, 2.88 - 0.940 * L, -0.095 * L, 0.] if name == 'Huval' else \
            [0.76 + 0.248 * L, 3.11 - 1.36 * L, -3.99 + 1.15 * L, 0.]
        alt = 0.48 + 0.9 * t
        return 1., [(c[j], -alt + j / 2.) for j in range(4)], 1, False
    if name in ('Hs', 'Hudsea'):
        c = [0.123 + 0.0003 * L, -0.327 - 0.004 * L, 0.692 - 0.068 * L, -0.486 + 0.038 * L]
        alt = alpha_sea(t, Q2)
        b = 2.58 + 0.25 * math.log(MP2GK / (Q2 + MP2GK))
        f = math.exp(b * t)
        if name == 'Hudsea':
            f *= 1. + 0.68 / (1. + 0.52 * L)
        return f, [(c[j], -alt + j / 2.) for j in range(4)], 2, True
    if name in ('Htuval', 'Htdval'):
        c = [0.17 + 0.03 * L, 1.34 - 0.02 * L, 0.12 - 0.4 * L] if name == 'Htuval' else \
            [-0.32 - 0.04 * L, -1.427 - 0.176 * L, 0.692 - 0.068 * L]
        al0 = 0.48
        alt = al0 + 0.45 * t
        coefs = [1, (1 - al0) / (5 - al0), (2 - al0) * (1 - al0) / (6 - al0) / (5 - al0)]
        inv = float(mp.beta(1 - al0, 4)) * sum(a * b for a, b in zip(c, coefs))
        f = (0.926 if name == 'Htuval' else -0.341) / inv
        return f, [(c[k], -alt + k) for k in range(3)], 1, False
    if name == 'Euval':
        alt = 0.48 + 0.9 * t
        return 1.67 / float(mp.beta(1 - 0.48, 5)), [(1., -alt), (-1., -alt + 1)], 1, False
    if name == 'Edval':
        alt = 0.48 + 0.9 * t
        if opts.get('DMbeta', False):
            # beta_d = 6: rho^-alpha(t) (1-rho)^6 = rho^-alpha(t) (1-rho)^3 (1 - 3 rho + 3 rho^2 - rho^3), normalised to kappa_d at t = 0
            c = [1, -3, 3, -1]
            return -2.03 / float(mp.beta(1 - 0.48, 1 + 6)), [(c[k], -alt + k) for k in range(4)], 1, False
        # (1-rho)^2.6 expanded up to rho^8
        c = [1, -2.6, 2.08, -0.416, -0.0416, -0.011648, -0.0046592, -0.00226304, -0.001244672]
        return -2.03 / float(mp.beta(1 - 0.48, 1 + 5.6)), [(c[k], -alt + k) for k in range(9)], 1, False
    if name == 'Esea':
        alt = alpha_sea(t, Q2)
        b = 0.9 * (2.58 + 0.25 * math.log(MP2GK / (Q2 + MP2GK)))
        return -0.155 * math.exp(b * t), [(1., -alt), (-2., -alt + 1), (1., -alt + 2)], 2, True
    if name in ('Etuval', 'Etdval'):
        alt = 0.48 + 0.45 * t
        return (14. if name == 'Etuval' else 4.) * math.exp(0.9 * t), \
            [(1., -alt), (-2., -alt + 1), (1., -alt + 2)], 1, False
    raise KeyError(name)


def dd_integral(mp, x, eta, terms, n, sea):
    """H(x,eta) = int dbeta dalpha delta(beta + eta alpha - x) f(beta, alpha),
         f = h(|beta|) Gamma(2n+2)/(2^(2n+1) Gamma(n+1)^2) ((1-|beta|)^2 - alpha^2)^n / (1-|beta|)^(2n+1)
       supported on beta > 0 (valence) or continued antisymmetrically to beta < 0 (sea),
       h(b) = sum_k c_k b^(p_k) (1-b)^(2n+1).
    alpha is eliminated with the delta function (exact change of variables); the beta integral over
    max(0,(x-eta)/(1-eta)) < beta < (x+eta)/(1+eta) is done by mpmath tanh-sinh quadrature.  For the sea in the
    ERBL region the two halves are integrated together on their common range (the singularities at
    beta = 0 cancel for p > -2, which is the meaning of the analytic continuation in the closed form).
    Returns (value, error estimate)."""
    x, eta = mp.mpf(x), mp.mpf(eta)
    norm = mp.gamma(2 * n + 2) / (2 ** (2 * n + 1) * mp.gamma(n + 1) ** 2)
    terms = [(mp.mpf(c), mp.mpf(p)) for c, p in terms if c != 0]
    if not terms:
        return mp.mpf(0), mp.mpf(0)
    p0 = terms[0][1]
    steps = [(c, int(round(2 * (p - p0)))) for c, p in terms]

    def f(b, y):
        # h(b) * profile; the factor (1-b)^(2n+1) of h cancels the profile's denominator exactly
        a = (y - b) / eta
        r = mp.sqrt(b)
        hb = b ** p0 * mp.fsum(c * r ** k for c, k in steps)
        return hb * norm * ((1 - b) ** 2 - a ** 2) ** n / eta

    def lim(y):
        if y <= -eta:
            return None
        return (max(mp.mpf(0), (y - eta) / (1 - eta)), (y + eta) / (1 + eta))

    def Q(fun, a, b):
        if a == b:
            return mp.mpf(0), mp.mpf(0)
        return mp.quad(fun, [a, b], error=True)

    lp = lim(x)
    if not sea:
        if lp is None:
            return mp.mpf(0), mp.mpf(0)
        return Q(lambda b: f(b, x), lp[0], lp[1])
    lm = lim(-x)
    if lp and lm:
        m, M = min(lp[1], lm[1]), max(lp[1], lm[1])
        s = 1 if lp[1] >= lm[1] else -1
        y = x if s == 1 else -x
        v1, e1 = Q(lambda b: f(b, x) - f(b, -x), mp.mpf(0), m)
        v2, e2 = Q(lambda b: f(b, y), m, M)
        return v1 + s * v2, e1 + e2
    if lp:
        return Q(lambda b: f(b, x), lp[0], lp[1])
    v, e = Q(lambda b: f(b, -x), lm[0], lm[1])
    return -v, e


POLE_WINDOW = 1e-4   # |alpha_sea - 1| below which a sea-GPD miss is attributed to the known Gamma(1+p) pole of _intsea.  The
#                     defect bites for |alpha_sea - 1| <~ 1e-5 and tolerance() already grows like 1/(1+p) through g_pref;
#                     a wider window (it was 0.02, i.e. |dt| < 0.13, ~27 % of the t-range) silenced every other sea error there
K_ROUND = 16.      # observed <= 1.8 (calibration over 2000 points); 16 leaves a factor ~10
CAP = 1e-2         # whatever the conditioning: within 1 % of the unsuppressed scale sum |c| m^p
FLOOR = 1e-12
POLE_BAND = 0.02   # outer band of the known finding; inside it a miss belongs to the pole only under pole_amplified()


def pole_amplified(x, eta, p):
    """The known Gamma(1+p) pole of _intsea does not only give inf/nan at alpha_sea = 1: on the exact branch the two
    cancelling terms are (m/eta)^5 g(p) larger than their sum and g(p) ~ 1/(1+p), so the rounding error of the closed form
    is amplified by the pole well outside |alpha_sea - 1| < 1e-4 when m/eta is large (just above the Taylor switch:
    Eu(-0.0485, 5.0e-4, -0.3817, 2.0) is off by 2.4 % at |1+p| = 1.4e-4, m/eta = 97 — VERIF_SEED=205).  A miss inside
    the outer band is attributed to the known finding exactly when that predicted amplified rounding error (with the
    OBSERVED constant 2, not the allowance K_ROUND) exceeds the cap of the tolerance, i.e. when the tolerance could not follow
    the conditioning; every other miss in the band is reported under its ordinary key."""
    ax = abs(x)
    if ax >= eta and eta / ax < 1e-2:
        return False                    # Taylor branch: no cancellation
    m = max(ax, eta)
    return abs(1 + p) < POLE_BAND and 2 * EPS * (m / eta) ** 5 * g_pref(2, p) > CAP


def g_pref(n, p):
    """size of the closed form's two cancelling terms relative to m^p (m/eta)^(2n+1):
    2 * (3/2) Gamma(1+p)/Gamma(4+p) (valence), 6 * (15/2) Gamma(1+p)/Gamma(6+p) (sea)"""
    d = (1 + p) * (2 + p) * (3 + p)
    if n == 2:
        d *= (4 + p) * (5 + p)
    if d == 0:
        return float('inf')
    return (3. if n == 1 else 45.) / abs(d)


def tolerance(fac, terms, n, sea, x, eta):
    """accuracy to which `code == DD integral` is demanded: FLOOR relative to the unsuppressed
    scale S = sum |c_k| m^(p_k), m = max(|x|, eta), plus
      exact branch : K eps (m/eta)^(2n+1) g(p)  — the rounding error of the closed form, whose two terms
                     are each (m/eta)^(2n+1) g(p) larger than their sum ('exact but unstable for small eta')
      Taylor branch: twice the first neglected term of the expansion in eta (eta^2 valence, eta^4 sea)
    each capped at CAP."""
    ax = abs(x)
    if not sea and x <= -eta:
        return 0.
    m = max(ax, eta)
    thr = 1e-2 if sea else 1e-4
    tol = 0.
    taylor = ax >= eta and eta / ax < thr
    for c, p in terms:
        s = abs(c) * m ** p
        if taylor:
            r = eta / ax
            if sea:
                rel = 2 * r ** 4 * (abs(p) + 9) ** 4 / 504.
            else:
                rel = 2 * r ** 2 * (abs(p * (p - 1)) + 10 * abs(p) + 20) / 10.
        else:
            rel = K_ROUND * EPS * (m / eta) ** (2 * n + 1) * g_pref(n, p)
        tol += s * min(CAP, FLOOR + rel)
    return abs(fac) * tol


class GKRef:
    def __init__(self, mp):
        self.mp = mp
        self.cache = {}

    def base(self, name, x, eta, t, Q2, opts=None):
        key = (name, x, eta, t, Q2) + opts_key(opts)
        if key not in self.cache:
            twin = {'Hudsea': 'Hs', 'Hs': 'Hudsea', 'Etuval': 'Etdval', 'Etdval': 'Etuval'}.get(name)
            fac, terms, n, sea = profiles(self.mp, name, t, Q2, opts)
            tk = (twin, x, eta, t, Q2)
            if twin and tk in self.cache:
                f2 = profiles(self.mp, twin, t, Q2)[0]
                v, e = self.cache[tk][0] / f2, self.cache[tk][1] / abs(f2)
            else:
                v, e = dd_integral(self.mp, x, eta, terms, n, sea)
            self.cache[key] = (fac * v, abs(fac) * e, tolerance(fac, terms, n, sea, x, eta))
        return self.cache[key]

    def __call__(self, name, x, eta, t, Q2, opts=None):
        """(reference value, quadrature error estimate, tolerance); opts: keyword options of the GPD function"""
        if name in COMPOSITE:
            if opts:
                raise KeyError('%s has no documented option %s' % (name, sorted(opts)))
            parts = [self.base(n, x, eta, t, Q2) for n in COMPOSITE[name]]
            return tuple(sum(p[i] for p in parts) for i in range(3))
        return self.base(name, x, eta, t, Q2, opts)

    def moment(self, name, t, Q2, opts=None):
        """lowest x-moment of a valence GPD from its forward profile: int dx H(x, eta) = int db h(b) = fac sum_k c_k B(1+p_k, 2n+2),
        for every eta (polynomiality)"""
        fac, terms, n, sea = profiles(self.mp, name, t, Q2, opts)
        assert not sea
        return fac * float(self.mp.fsum(self.mp.mpf(c) * self.mp.beta(1 + self.mp.mpf(p), 2 * n + 2) for c, p in terms))


def region_of(x, eta):
    if x >= eta:
        return 'dglap'
    if -eta < x < eta:
        return 'erbl'
    return 'outer'


def exc_name(e):
    return type(e).__name__


def finite(v):
    try:
        v = float(v)
    except Exception:
        return False
    return v == v and abs(v) != float('inf')


def gk_points(rng, n):
    """(x, eta, t, Q2, class) over x in (-1,1), eta in [1e-4,0.9], t in [-1,0], Q2 in [2,40]"""
    out = []
    classes = ['generic', 'erbl', 'dglap-log', 'sea-switch', 'boundary', 'x->1', 'exact', 'small-eta']
    i = 0
    while len(out) < n:
        k = classes[i % len(classes)]
        i += 1
        eta = 10 ** rng.uniform(-4, math.log10(0.9))
        t = rng.uniform(-1, 0)
        Q2 = rng.uniform(2, 40) if rng.random() < 0.85 else rng.choice([2., 4., 10., 40.])
        sg = rng.choice([-1, 1])
        if k == 'generic':
            x = rng.uniform(-1, 1)
        elif k == 'erbl':
            x = eta * rng.uniform(-1, 1)
        elif k == 'dglap-log':
            x = sg * eta * 10 ** rng.uniform(0, 2.5)
        elif k == 'sea-switch':
            x = sg * eta * 10 ** rng.uniform(1.9, 2.1)
        elif k == 'boundary':
            x = sg * eta * (1 + rng.choice([-1, 1]) * 10 ** rng.uniform(-12, -1))
        elif k == 'x->1':
            x = sg * (1 - 10 ** rng.uniform(-3, -0.3))
        elif k == 'exact':
            x = rng.choice([eta, -eta, 0.0, eta / 2, -eta / 2])
        else:
            eta = 10 ** rng.uniform(-4, -3.3)
            x = sg * rng.uniform(0.05, 0.999)
        if not (-1 < x < 1):
            continue
        out.append((x, eta, t, Q2, k))
    return out


# ----------------------------------------------------------------------------------


def eff_order_stream(rep, rng, mp, g, kelly, dipole, quick):
    """ORACLE stream: F1, F2 as a TABLE.  A table or a plot evaluates the form factors point by point on a regular grid of t
    (integers and half-integers, given as float, int or numpy scalars), on one long-lived object, on fresh objects and on
    the shipped theories that derive from KellyEFF, in whatever order.  Every single value must equal Kelly's published
    parametrisation (dipole: the standard dipole within 1 %) whatever was evaluated before: each chain walks the grid in
    another order (ascending, descending, shuffled, interleaved with other particles / form factors), so every grid point
    is evaluated several times with different predecessors."""
    import numpy as np
    from gepard.eff import KellyEFF, DipoleEFF
    from gepard import fits
    grid = [0, -0.5, -1, -1.5, -2, -2.5, -3, -3.5, -4, -5, -6, -7, -8, -9, -10, -0.25, -0.75, -0.1]
    grid += [-round(rng.uniform(0, 10), 1) for _ in range(4 if quick else 40)]
    refs = {}

    def reference(part, t):
        k = (part, float(t))
        if k not in refs:
            refs[k] = kelly_published(mp, part, float(t))
        return refs[k]

    def typed(t, ty):
        if ty == 'int':
            return int(t)
        if ty == 'np.float64':
            return np.float64(t)
        if ty == 'np.int64':
            return np.int64(int(t))
        return float(t)

    objs = [('shared KellyEFF()', lambda: kelly), ('fresh KellyEFF()', lambda: KellyEFF())]
    for nm_ in ('th_KM15', 'th_AFKM12', 'th_KM10b'):
        th_ = getattr(fits, nm_, None)
        if th_ is not None and isinstance(th_, KellyEFF):
            objs.append(('gepard.fits.' + nm_, lambda th_=th_: th_))
    orders = ['descending', 'ascending', 'shuffled', 'shuffled']
    nchains = 10 if quick else 120
    for c in range(nchains):
        oname, mk = objs[c % len(objs)]
        obj = mk()
        order = orders[c % len(orders)] if c < 8 else rng.choice(orders)
        ty = ['float', 'int', 'np.float64', 'np.int64', 'float'][c % 5]
        pts = [t for t in grid if ty in ('float', 'np.float64') or float(t) == int(t)]
        pts = sorted(set(pts), reverse=(order == 'descending'))       # 'descending': t = 0, -0.1, ..., -10
        if order == 'shuffled':
            rng.shuffle(pts)
        seq = [(t, part, which) for t in pts for part in ('p', 'n') for which in ('F1', 'F2')]
        if c % 3 == 2:
            # form factor by form factor instead of point by point
            seq = [(t, part, which) for part in ('p', 'n') for which in ('F1', 'F2') for t in pts]
        done = []
        for t, part, which in seq:
            tv = typed(t, ty)
            rep.case('eff-order', (oname, order, ty, c, t, part, which),
                     sample=dict(object=oname, order=order, number_type=ty, t=t, particle=part, which=which))
            rep.hist('eff-order.type', ty)
            F1r, F2r, s1, s2, dA = reference(part, t)
            r, sc = (F1r, s1) if which == 'F1' else (F2r, s2)
            tol = 1e-12 * float(sc) + KELLY['GEn']['dA'] * abs(float(dA))
            try:
                v = float(getattr(obj, which)(g.DataPoint(t=tv, in2particle=part)))
            except Exception as e:
                rep.violation('eff/kelly/%s/%s' % (part, exc_name(e)), '%s.%s raised %r at t=%r (%s), particle %s' % (oname, which, e, t, ty, part),
                              dict(t=t, number_type=ty, in2particle=part, object=oname))
                continue
            if not finite(v) or abs(v - float(r)) > tol:
                prev = [d_ for d_ in done if d_[1] == part and d_[2] == which][-3:]
                rep.violation('eff/kelly/%s/%s/published' % (part, which),
                              '%s.%s(t=%r as %s, %s) = %r but Kelly\'s published parametrisation gives %r (allowed %g); evaluated in a %s '
                              'walk over a t-grid, the previous evaluations of this form factor were at t = %s' % (
                                  oname, which, t, ty, part, v, float(r), tol, order, [d_[0] for d_ in prev]),
                              dict(t=t, number_type=ty, in2particle=part, object=oname, observed=v, required=float(r), tolerance=tol,
                                   evaluated_before=[list(d_) for d_ in done[-12:]],
                                   cmd="python -c \"import gepard as g; from gepard.eff import KellyEFF; k = KellyEFF(); "
                                       "[print(t, k.%s(g.DataPoint(t=t, in2particle='%s'))) for t in %r]\"" % (
                                           which, part, [d_[0] for d_ in prev] + [t])))
            done.append((t, part, which))
    # the dipole on the same grid (proton only), both orders
    for order in ('descending', 'ascending'):
        for t in sorted(set(grid), reverse=(order == 'descending')):
            s1, s2 = std_dipole(mp, float(t))
            for nm, sref in (('F1', s1), ('F2', s2)):
                rep.case('eff-order', ('dipole', order, t, nm), sample=None)
                try:
                    v = float(getattr(dipole, nm)(g.DataPoint(t=t, in2particle='p')))
                except Exception as e:
                    rep.violation('eff/dipole/%s/%s' % (nm, exc_name(e)), 'DipoleEFF.%s raised %r at t=%r' % (nm, e, t), dict(t=t))
                    continue
                if not abs(v - float(sref)) <= 0.01 * float(sref):
                    rep.violation('eff/dipole/%s/1pc' % nm, 'DipoleEFF.%s(t=%r) = %r deviates more than 1 %% from the standard dipole %r '
                                  '(%s walk over a t-grid)' % (nm, t, v, float(sref), order), dict(t=t, observed=v, required=float(sref)))


def run(rep):
    import mpmath as mp
    import gepard as g
    from gepard.eff import DipoleEFF, KellyEFF
    from gepard.gk import GoloskokovKrollCFF
    import gepard.constants as gconst
    mp.mp.dps = 25
    rng = rep.rng
    ok, why = common.lean_side(rep, 'C19')
    quick = rep.tier == 'quick'
    lines, meta = [], []

    # the literals used by this harness are the literals of the Lean model
    tmpl = open(os.path.join(common.LEAN, 'Scalar', 'Eff.lean.in')).read()
    tl = set(re.findall(r'\d+\.\d+', common.strip_comments(tmpl)))
    missing = [k for k, v in LIT.items() if repr(v) not in tl]
    if missing:
        rep.violation('harness/literals', 'harness literal table and Scalar/Eff.lean.in differ: %s' % missing,
                      dict(missing=missing), found_input=False)

    # ================= EFF =================
    kelly, dipole = KellyEFF(), DipoleEFF()
    nt = 400 if quick else 8000
    ts = [0.0, -10.0, -1.0, -1e-300, -1e-8, -0.71, -3.53]
    while len(ts) < nt:
        r = rng.random()
        ts.append(-rng.uniform(0, 10) if r < 0.6 else -10 ** rng.uniform(-6, 1))
    ts = [t for t in ts if -10 <= t <= 0]
    PARTS = {'absent': None, 'p': 'p', 'n': 'n', 'other': 'd'}
    worst_eff = 0.
    for t in ts:
        for model, obj in (('kelly', kelly), ('dipole', dipole)):
            for pname, pval in PARTS.items():
                if model == 'dipole' and pname in ('absent', 'other') and rng.random() < 0.8:
                    continue
                kw = dict(t=t)
                if pval is not None:
                    kw['in2particle'] = pval
                for which in ('F1', 'F2'):
                    try:
                        pt = g.DataPoint(**kw)
                        impl = float(getattr(obj, which)(pt))
                    except Exception as e:
                        impl = exc_name(e)
                    lines.append('c19.eff %s %s %s %s' % (model, pname, which, f2hex(t)))
                    meta.append(dict(kind='eff', model=model, part=pname, which=which, t=t, impl=impl))
                    rep.hist('eff.model/particle', '%s/%s' % (model, pname))

    # ---- eff-oracle: the property itself on the real code ----
    imp, pub = implied_coefficients(), published_coefficients()
    coef_obs = {}
    for k in sorted(imp):
        d = relerr(imp[k], pub[k])
        coef_obs[k] = dict(implied=imp[k], published=pub[k], rel_diff=d)
        if d > 1e-9:
            inside = k == 'GEn.A' and abs(imp[k] - pub[k]) <= KELLY['GEn']['dA']
            rep.notes.append('OBSERVATION: code literal implies %s = %.6g, Kelly publishes %s%s' % (
                k, imp[k], pub[k], ' +- %s (inside the quoted uncertainty)' % KELLY['GEn']['dA'] if inside
                else ' (OUTSIDE printed precision)'))
    rep.coverage['kelly_coefficients'] = coef_obs
    if abs(gconst.Mp - M_P) > 0:
        rep.notes.append('OBSERVATION: gepard.constants.Mp = %r differs from the proton mass %r implied by '
                         'the Kelly literals' % (gconst.Mp, M_P))
    A_impl = []
    for t in ts[:120 if quick else 2000]:
        for part in ('p', 'n'):
            F1r, F2r, s1, s2, dA = kelly_published(mp, part, t)
            pt = g.DataPoint(t=t, in2particle=part)
            try:
                c1, c2 = float(kelly.F1(pt)), float(kelly.F2(pt))
            except Exception as e:
                rep.violation('eff/kelly/%s/%s' % (part, exc_name(e)),
                              'KellyEFF raised %r at t=%r, particle %s' % (e, t, part),
                              dict(t=t, in2particle=part))
                continue
            rep.case('eff-oracle', ('kelly', part, t), sample=dict(t=t, particle=part, F1=c1, F2=c2))
            for nm, c, r, s in (('F1', c1, F1r, s1), ('F2', c2, F2r, s2)):
                tol = 1e-12 * float(s) + KELLY['GEn']['dA'] * abs(float(dA))
                if not finite(c) or abs(c - float(r)) > tol:
                    rep.violation('eff/kelly/%s/%s/published' % (part, nm),
                                  'KellyEFF.%s(t=%r, %s) = %r but Kelly\'s published parametrisation gives %r '
                                  '(allowed %g)' % (nm, t, part, c, float(r), tol),
                                  dict(t=t, in2particle=part, observed=c, required=float(r), tolerance=tol,
                                       cmd="python -c \"import gepard as g; from gepard.eff import KellyEFF; "
                                           "print(KellyEFF().%s(g.DataPoint(t=%r, in2particle='%s')))\"" % (nm, t, part)))
            if part == 'n' and t < -0.05:
                A_impl.append(1.70 + (c1 - float(F1r)) / float(dA))
        # dipole vs standard dipole, on the real code
        pt = g.DataPoint(t=t, in2particle='p')
        s1, s2 = std_dipole(mp, t)
        for nm, s in (('F1', s1), ('F2', s2)):
            c = float(getattr(dipole, nm)(pt))
            rep.case('eff-oracle', ('dipole', nm, t), sample=dict(t=t, which=nm, value=c))
            d = abs(c - float(s)) / float(s)
            rep.coverage['dipole_max_rel_dev'] = max(rep.coverage.get('dipole_max_rel_dev', 0.), d)
            if not d <= 0.01:
                rep.violation('eff/dipole/%s/1pc' % nm, 'DipoleEFF.%s(t=%r) = %r deviates %.3g from the standard '
                              'dipole %r' % (nm, t, c, d, float(s)), dict(t=t, observed=c, required=float(s)))
    if A_impl:
        rep.coverage['GEn_A_implied_by_real_code'] = [min(A_impl), max(A_impl)]
    # static limits on the real code
    p0, n0 = g.DataPoint(t=0.0, in2particle='p'), g.DataPoint(t=0.0, in2particle='n')
    stat = dict(F1p=kelly.F1(p0), F2p=kelly.F2(p0), F1n=kelly.F1(n0), F2n=kelly.F2(n0))
    want = dict(F1p=1.0, F2p=MU_P - 1, F1n=0.0, F2n=MU_N)
    for k in stat:
        rep.case('eff-oracle', ('static', k), sample=dict(limit=k, value=stat[k]))
        if abs(stat[k] - want[k]) > 4 * EPS * max(1, abs(want[k])):
            rep.violation('eff/static/' + k, 'static limit %s(0) = %r, required %r' % (k, stat[k], want[k]),
                          dict(t=0.0, observed=stat[k], required=want[k]))

    # ================= eff-order: tables on a regular grid, point by point, in several orders, several number types =================
    eff_order_stream(rep, rng, mp, g, kelly, dipole, quick)

    # ================= GK dispatch: model vs code =================
    gk = GoloskokovKrollCFF()

    class Recorder(GoloskokovKrollCFF):
        """the real `_val` / `_sea` run unchanged; the integrals are the real ones, calls are recorded"""
        def __init__(self):
            super().__init__()
            self.calls = []

        def _intval(self, x, eta, alt, j, zero=False):
            self.calls.append((x, bool(zero)))
            return super()._intval(x, eta, alt, j, zero)

        def _intsea(self, x, eta, alt, j, zero=False):
            self.calls.append((x, bool(zero)))
            return super()._intsea(x, eta, alt, j, zero)

    rec = Recorder()

    def integral(fn, y, eta, alt, j, zero):
        try:
            v = fn(y, eta, alt, j, zero)
            if isinstance(v, complex):
                return float('nan')
            return float(v)
        except Exception:
            return float('nan')

    nd = 250 if quick else 6000
    if not (hasattr(gk, '_intval') and hasattr(gk, '_intsea') and hasattr(gk, '_val') and hasattr(gk, '_sea')):
        # the dispatch model is stated in terms of these four private methods: without them it cannot be run against the
        # code; the oracle streams below still evaluate the property on the public GPD functions
        nd = 0
        gk_internals_missing = 'GoloskokovKrollCFF no longer has _val/_sea/_intval/_intsea: the dispatch correspondence (gk-dispatch) cannot be run'
    else:
        gk_internals_missing = None
    for x, eta, t, Q2, cls in gk_points(rng, nd):
        j = rng.randrange(4)
        r = rng.random()
        if r < 0.06:
            eta_s = -eta           # the assertion of `_sea`
        else:
            eta_s = eta
        # valence
        alt = 0.48 + 0.9 * t
        rec.calls = []
        try:
            impl = float(rec._val(x, eta, alt, j))
        except Exception as e:
            impl = exc_name(e)
        ix, ix0 = integral(gk._intval, x, eta, alt, j, False), integral(gk._intval, x, eta, alt, j, True)
        lines.append('c19.region %s %s' % (f2hex(x), f2hex(eta)))
        meta.append(dict(kind='region', x=x, eta=eta, calls=list(rec.calls), impl=impl, which='val'))
        lines.append('c19.val %s %s %s %s' % (f2hex(x), f2hex(eta), f2hex(ix), f2hex(ix0)))
        meta.append(dict(kind='val', x=x, eta=eta, alt=alt, j=j, t=t, Q2=Q2, impl=impl))
        # sea
        alt = alpha_sea(t, Q2)
        rec.calls = []
        try:
            impl = float(rec._sea(x, eta_s, alt, j))
        except Exception as e:
            impl = exc_name(e)
        vals = [integral(gk._intsea, y, eta_s, alt, j, z) for y, z in ((x, False), (x, True), (-x, False), (-x, True))]
        lines.append('c19.sea %s %s %s' % (f2hex(x), f2hex(eta_s), ' '.join(f2hex(v) for v in vals)))
        meta.append(dict(kind='sea', x=x, eta=eta_s, alt=alt, j=j, t=t, Q2=Q2, impl=impl, calls=list(rec.calls)))
        rep.hist('gk.dispatch.region', region_of(x, eta))

    # ================= model vs code: compare =================
    try:
        out = common.run_driver(lines)
    except common.ModelUnavailable as ex:
        # no model: the oracle streams (before and after this point) evaluate the property on the real code regardless
        out = []
        rep.violation('model-unavailable', 'the Lean model of C19 could not be run (%s): the model-vs-code streams eff / gk-dispatch were '
                      'not compared; the oracle streams ran' % str(ex)[:300], dict(reason=str(ex)[:300]), found_input=False)
    for line, m, o in zip(lines, meta, out):
        kind = m['kind']
        if kind == 'eff':
            impl = m['impl']
            rep.case('eff', line, sample=dict(model=m['model'], particle=m['part'], which=m['which'], t=m['t'],
                                              impl=impl))
            if isinstance(impl, str) or o == 'Exception' or o == 'bad-op':
                agree = (impl == o)
            else:
                d = relerr(impl, hex2f(o))
                worst_eff = max(worst_eff, d)
                agree = d <= 1e-13
            if agree:
                continue
            # the property on the real code: Kelly's published form / the model's error branch
            found, what = False, ''
            if m['model'] == 'kelly' and not isinstance(impl, str):
                part = 'n' if m['part'] == 'n' else 'p'
                F1r, F2r, s1, s2, dA = kelly_published(mp, part, m['t'])
                r, s = (F1r, s1) if m['which'] == 'F1' else (F2r, s2)
                tol = 1e-12 * float(s) + KELLY['GEn']['dA'] * abs(float(dA))
                found = abs(impl - float(r)) > tol
                what = '; published parametrisation gives %r (allowed %g)' % (float(r), tol)
            elif m['model'] == 'kelly':
                found, what = True, '; KellyEFF must return a value for every particle flag'
            elif m['model'] == 'dipole' and m['part'] == 'p':
                if isinstance(impl, str):
                    found, what = True, '; the proton dipole form factor must be returned'
                else:
                    s1, s2 = std_dipole(mp, m['t'])
                    s = float(s1 if m['which'] == 'F1' else s2)
                    found = abs(impl - s) > 0.01 * s
                    what = '; standard dipole %r' % s
            rep.violation('eff/%s/%s/%s/model' % (m['model'], m['part'], m['which']),
                          '%sEFF.%s(t=%r, in2particle=%s): code %r, model %s%s' % (
                              m['model'], m['which'], m['t'], m['part'], impl,
                              o if o in ('Exception', 'bad-op') else repr(hex2f(o)), what),
                          dict(t=m['t'], in2particle=PARTS[m['part']], observed=impl, model=o, protocol_line=line),
                          found_input=found)
        elif kind == 'region':
            calls = m['calls']
            rep.case('gk-dispatch', line, sample=dict(x=m['x'], eta=m['eta'], model_region=o, calls=str(calls)))
            want = {'dglap': [(m['x'], False)], 'erbl': [(m['x'], True)], 'outer': []}.get(o)
            if isinstance(m['impl'], str) or calls != want:
                rep.violation('gk/val-dispatch/%s' % o, '_val(x=%r, eta=%r): model region %s, real code called '
                              '_intval with %s, result %r' % (m['x'], m['eta'], o, calls, m['impl']),
                              dict(x=m['x'], eta=m['eta'], calls=str(calls), protocol_line=line),
                              found_input=isinstance(m['impl'], str) or (o == 'outer' and m['impl'] != 0))
        elif kind in ('val', 'sea'):
            impl = m['impl']
            rep.case('gk-dispatch', line, sample=dict(kind=kind, x=m['x'], eta=m['eta'], j=m['j'], impl=impl))
            if o in ('AssertionError', 'bad-op'):
                agree = impl == o
            elif isinstance(impl, str):
                agree = False
            else:
                agree = f2hex(impl) == o or (impl != impl and hex2f(o) != hex2f(o)) or impl == hex2f(o)
            if agree:
                continue
            reg = region_of(m['x'], abs(m['eta']))
            # the property on the real code at this input: the GPD built on this dispatch
            name = 'Huval' if kind == 'val' else 'Hs'
            found, what = False, ''
            if m['eta'] > 0:
                try:
                    v = float(getattr(gk, name)(m['x'], m['eta'], m['t'], m['Q2']))
                    r, e, tol = GKRef(mp)(name, m['x'], m['eta'], m['t'], m['Q2'])
                    found = not finite(v) or abs(v - float(r)) > tol + 1e-9 * abs(float(r))
                    what = '%s(%r, %r, %r, %r) = %r, DD integral %r' % (name, m['x'], m['eta'], m['t'], m['Q2'],
                                                                         v, float(r))
                    key = 'gk/%s-dispatch/%s' % (kind, reg)
                except Exception as e:
                    found = True
                    r = GKRef(mp)(name, m['x'], m['eta'], m['t'], m['Q2'])[0]
                    what = '%s(x=%r, eta=%r, t=%r, Q2=%r) raises %s: %s; the DD integral there is %r' % (
                        name, m['x'], m['eta'], m['t'], m['Q2'], exc_name(e), e, float(r))
                    key = 'gk/%s-%s/%s' % (kind, reg, exc_name(e))
            else:
                key = 'gk/%s-dispatch/%s' % (kind, reg)
            rep.violation(key, '_%s(x=%r, eta=%r, alt=%r, j=%d): code %r, model %s. %s' % (
                kind, m['x'], m['eta'], m['alt'], m['j'], impl,
                o if o in ('AssertionError', 'bad-op') else repr(hex2f(o)), what),
                dict(function=name, x=m['x'], eta=m['eta'], t=m['t'], Q2=m['Q2'], alt=m['alt'], j=m['j'],
                     observed=impl, model=o, protocol_line=line,
                     cmd="python -c \"from gepard.gk import GoloskokovKrollCFF as G; print(G().%s(%r, %r, %r, %r))\""
                         % (name, m['x'], m['eta'], m['t'], m['Q2'])),
                found_input=found)
    rep.coverage['eff_model_vs_code_max_relerr'] = worst_eff

    # ================= gk-oracle: GPD == DD integral of the forward profile =================
    ref = GKRef(mp)
    npts = 320 if quick else 1500
    per = 4 if quick else len(ALL_GPDS)
    worst = {}
    quad_bad = 0

    def check_gpd(name, x, eta, t, Q2, stream, cls, opts=None, positional=False):
        """evaluate one GPD on the real code against the reference; returns ratio |err|/tol or None.
        opts: keyword options of the GPD function (the reference is the DD integral of the profile they define);
        positional: pass them as positional arguments after Q2 (a dict in signature order) instead of keywords"""
        nonlocal quad_bad
        reg = region_of(x, eta)
        sea = name in SEA
        near_pole = sea and (abs(alpha_sea(t, Q2) - 1) < POLE_WINDOW or pole_amplified(x, eta, -alpha_sea(t, Q2)))
        opts = dict(opts or {})
        extra = ''.join(', %r' % v_ for v_ in opts.values()) if positional else ''.join(', %s=%r' % kv for kv in opts.items())
        label = name + ('[%s]' % opts_str(opts) if opts else '')
        cmd = ("python -c \"from gepard.gk import GoloskokovKrollCFF as G; print(G().%s(%r, %r, %r, %r%s))\""
               % (name, x, eta, t, Q2, extra))
        r, e, tol = ref(name, x, eta, t, Q2, opts) if opts else ref(name, x, eta, t, Q2)
        r = float(r)
        rep.hist(stream + '.region', reg)
        rep.hist(stream + '.gpd', label)
        rep.case(stream, (name, x, eta, t, Q2) + ((opts_key(opts), positional) if opts else ()),
                 sample=dict(gpd=name, x=x, eta=eta, t=t, Q2=Q2, cls=cls, ref=r, **({'options': opts_str(opts)} if opts else {})))
        if float(e) > 0.01 * (tol + 1e-9 * abs(r)) and float(e) > 1e-300:
            quad_bad += 1
            return None
        xo = dict(options={k_: v_ for k_, v_ in opts.items()}, passed='positional' if positional else 'keyword') if opts else {}
        try:
            if positional:
                v = float(getattr(gk, name)(x, eta, t, Q2, *opts.values()))
            else:
                v = float(getattr(gk, name)(x, eta, t, Q2, **opts))
        except Exception as ex:
            rep.violation('gk/%s-%s/%s' % ('sea' if sea else 'val', reg, exc_name(ex)),
                          '%s(x=%r, eta=%r, t=%r, Q2=%r%s) raises %s: %s; the double-distribution integral of its '
                          'forward profile there is %r' % (name, x, eta, t, Q2, extra, exc_name(ex), ex, r),
                          dict(function=name, x=x, eta=eta, t=t, Q2=Q2, region=reg, observed=exc_name(ex) + ': ' + str(ex),
                               required=r, cmd=cmd, **xo))
            return None
        full = tol + 1e-9 * abs(r)
        err = abs(v - r) if finite(v) else float('inf')
        if not err <= full:
            pole = near_pole
            if pole and name in COMPOSITE:
                # attribute to the pole only if the sea component alone is off
                sname = COMPOSITE[name][1]
                rs, es, ts_ = ref(sname, x, eta, t, Q2)
                try:
                    vs = float(getattr(gk, sname)(x, eta, t, Q2))
                    pole = not (finite(vs) and abs(vs - float(rs)) <= ts_ + 1e-9 * abs(float(rs)))
                except Exception:
                    pole = False
            key = 'gk/sea/alpha1-pole' if pole else 'gk/%s/%s/value' % (label, reg)
            rep.violation(key, '%s(x=%r, eta=%r, t=%r, Q2=%r%s) = %r but the double-distribution integral of %s '
                          'is %r (|diff| %.3g, allowed %.3g)%s' % (
                              name, x, eta, t, Q2, extra, v,
                              'the forward profile that %s defines (%s)' % (opts_str(opts), OPTION_DOC.get((name, opts_key(opts)), 'see OPTION_TABLE'))
                              if opts else 'its forward profile', r, err, full,
                              '; alpha_sea(t,Q2) = %r is near the Gamma(1+p) pole of _intsea' % alpha_sea(t, Q2)
                              if key == 'gk/sea/alpha1-pole' else ''),
                          dict(function=name, x=x, eta=eta, t=t, Q2=Q2, region=reg, observed=v, required=r,
                               tolerance=full, cmd=cmd, **xo))
        ratio = err / full if full > 0 else (0. if err == 0 else float('inf'))
        worst[stream] = max(worst.get(stream, 0.), ratio if ratio == ratio else float('inf'))
        return ratio

    for x, eta, t, Q2, cls in gk_points(rng, npts):
        names = rng.sample(ALL_GPDS, per)
        for name in names:
            check_gpd(name, x, eta, t, Q2, 'gk-oracle', cls)
        ref.cache.clear()
        if rng.random() < 0.3:
            # the same (x, eta, t) at ANOTHER scale right afterwards, on the same model object
            Q2b = rng.uniform(2, 40)
            if abs(alpha_sea(t, Q2b) - 1) > 2 * POLE_WINDOW:
                for name in names:
                    check_gpd(name, x, eta, t, Q2b, 'gk-oracle', cls + '/second-scale')
                ref.cache.clear()

    # ================= gk-order: the same GPDs on the same object twice, in another order, with other number types =================
    # a GPD value may not depend on what the object evaluated before: first pass against the DD integral (check_gpd), second
    # pass over the same points in reversed order with a fresh object in between, integers / numpy scalars for t and Q2
    import numpy as np
    opts = [(x, eta, t, Q2, cls) for x, eta, t, Q2, cls in gk_points(rng, 6 if quick else 60)]
    opts += [(0.3, 0.1, -1, 4, 'integers'), (-0.05, 0.2, 0, 10, 'integers'), (0.15, 0.15, -1, 2, 'integers'), (0.4, 0.05, -1.0, 3.0, 'integers')]
    first = []
    for x, eta, t, Q2, cls in opts:
        for name in rng.sample(ALL_GPDS, 3):
            if name in SEA and abs(alpha_sea(float(t), float(Q2)) - 1) < 2 * POLE_WINDOW:
                continue
            ratio = check_gpd(name, x, eta, float(t), float(Q2), 'gk-order', cls)
            try:
                v1 = float(getattr(gk, name)(x, eta, t, Q2))
            except Exception:
                continue
            first.append((name, x, eta, t, Q2, v1, ratio))
        ref.cache.clear()
    gk_fresh = GoloskokovKrollCFF()
    for name, x, eta, t, Q2, v1, ratio in reversed(first):
        variants = [('same object, reversed order', gk, t, Q2), ('fresh object', gk_fresh, t, Q2),
                    ('numpy scalars', gk, np.float64(t), np.float64(Q2))]
        for label, obj, tt, QQ in variants:
            rep.case('gk-order', (name, x, eta, float(t), float(Q2), label), sample=None)
            try:
                v2 = float(getattr(obj, name)(x, eta, tt, QQ))
            except Exception as ex:
                rep.violation('gk/order/%s' % exc_name(ex), '%s(x=%r, eta=%r, t=%r, Q2=%r) evaluated a second time (%s) raises %s, the first '
                              'evaluation gave %r' % (name, x, eta, t, Q2, label, exc_name(ex), v1), dict(function=name, x=x, eta=eta, t=t, Q2=Q2))
                continue
            if not (v2 == v1 or (v1 != v1 and v2 != v2)):
                # which of the two is off the DD integral?  (a concrete failing input only then)
                r, e, tol = ref(name, x, eta, float(t), float(Q2))
                full = tol + 1e-9 * abs(float(r))
                off = [v for v in (v1, v2) if not (finite(v) and abs(v - float(r)) <= full)]
                rep.violation('gk/order/%s' % name, '%s(x=%r, eta=%r, t=%r, Q2=%r) = %r when first evaluated, %r when evaluated again (%s); '
                              'the DD integral is %r (allowed %.3g)' % (name, x, eta, t, Q2, v1, v2, label, float(r), full),
                              dict(function=name, x=x, eta=eta, t=float(t), Q2=float(Q2), observed=[v1, v2], required=float(r), tolerance=full),
                              found_input=bool(off))
                ref.cache.clear()

    # ================= gk-symmetry on the real code =================
    ns = 150 if quick else 3000
    for x, eta, t, Q2, cls in gk_points(rng, ns):
        name = rng.choice(['Hs', 'Hudsea', 'Esea'])
        f = getattr(gk, name)
        rep.case('gk-symmetry', (name, x, eta, t, Q2), sample=dict(gpd=name, x=x, eta=eta))
        try:
            a, b = float(f(x, eta, t, Q2)), float(f(-x, eta, t, Q2))
            if not (a == -b or (a != a and b != b)):
                rep.violation('gk/sea/antisymmetry', '%s(%r,…) = %r but %s(%r,…) = %r (eta=%r, t=%r, Q2=%r)' % (
                    name, x, a, name, -x, b, eta, t, Q2), dict(function=name, x=x, eta=eta, t=t, Q2=Q2,
                                                                observed=[a, b]))
        except Exception as ex:
            rep.violation('gk/sea-%s/%s' % (region_of(x, eta), exc_name(ex)),
                          '%s(x=%r or %r, eta=%r, t=%r, Q2=%r) raises %s: %s' % (name, x, -x, eta, t, Q2,
                                                                                   exc_name(ex), ex),
                          dict(function=name, x=x, eta=eta, t=t, Q2=Q2, observed=exc_name(ex) + ': ' + str(ex)))
        name = rng.choice(['Huval', 'Hdval', 'Htuval', 'Htdval', 'Euval', 'Edval', 'Etuval', 'Etdval'])
        xo = -abs(x) if abs(x) >= eta else -eta * (1 + rng.random()) if eta * 2 < 1 else -eta
        rep.case('gk-symmetry', (name, xo, eta, t, Q2), sample=dict(gpd=name, x=xo, eta=eta))
        try:
            v = float(getattr(gk, name)(xo, eta, t, Q2))
            if v != 0:
                rep.violation('gk/val/support', '%s(x=%r, eta=%r, t=%r, Q2=%r) = %r outside the valence support '
                              'x > -eta' % (name, xo, eta, t, Q2, v),
                              dict(function=name, x=xo, eta=eta, t=t, Q2=Q2, observed=v, required=0.0))
        except Exception as ex:
            rep.violation('gk/val-outer/%s' % exc_name(ex), '%s(x=%r, eta=%r, …) raises %s' % (name, xo, eta, ex),
                          dict(function=name, x=xo, eta=eta, t=t, Q2=Q2))

    # ================= gk-switch: Taylor branch joins the exact expression =================
    nsw = 40 if quick else 600
    jump_obs = {'val': 0., 'sea': 0.}
    int_sea = common.private(rep, gk, '_intsea', 'gk-switch (continuity of the Taylor branch of the private integrals) is skipped')
    int_val = common.private(rep, gk, '_intval', 'gk-switch (continuity of the Taylor branch of the private integrals) is skipped')
    if int_sea is None or int_val is None:
        nsw = 0         # the public GPD functions are compared with the DD integral on both sides of the switch by gk-oracle ('sea-switch', 'small-eta')
    for i in range(nsw):
        sea = i % 2 == 1
        x = rng.uniform(0.02, 0.97)
        t = rng.uniform(-1, 0)
        Q2 = rng.uniform(2, 40)
        if sea:
            alt, j, thr, n, fn = alpha_sea(t, Q2), rng.randrange(5), 1e-2, 2, int_sea
        else:
            alt, j, thr, n, fn = 0.48 + rng.choice([0.9, 0.45]) * t, rng.randrange(0, 9), 1e-4, 1, int_val
        p = -alt + j / 2
        d = 10 ** rng.uniform(-9, -5)
        lo, hi = x * thr * (1 - d), x * thr * (1 + d)
        if not (lo / x < thr) or (hi / x < thr):
            continue
        try:
            vlo, vhi = float(fn(x, lo, alt, j)), float(fn(x, hi, alt, j))
        except Exception as ex:
            rep.violation('gk/switch/%s' % exc_name(ex), '_int%s(x=%r, eta=%r|%r, alt=%r, j=%d) raises %s' % (
                'sea' if sea else 'val', x, lo, hi, alt, j, ex), dict(x=x, eta=[lo, hi], alt=alt, j=j))
            continue
        rlo, elo = dd_integral(mp, x, lo, [(1., p)], n, False)
        rhi, ehi = dd_integral(mp, x, hi, [(1., p)], n, False)
        tlo, thi = tolerance(1., [(1., p)], n, sea, x, lo), tolerance(1., [(1., p)], n, sea, x, hi)
        kind = 'sea' if sea else 'val'
        rep.case('gk-switch', (kind, x, alt, j, d), sample=dict(kind=kind, x=x, eta_lo=lo, eta_hi=hi, p=p,
                                                               taylor=vlo, exact=vhi, ref=float(rlo)))
        rep.hist('gk-switch.kind', kind)
        jump = abs(vhi - vlo)
        jump_obs[kind] = max(jump_obs[kind], jump / (x ** p))
        bad = None
        if not finite(vlo) or abs(vlo - float(rlo)) > tlo + 1e-9 * abs(float(rlo)):
            bad = ('Taylor branch', lo, vlo, float(rlo), tlo)
        elif not finite(vhi) or abs(vhi - float(rhi)) > thi + 1e-9 * abs(float(rhi)):
            bad = ('exact branch', hi, vhi, float(rhi), thi)
        elif jump > tlo + thi + abs(float(rhi - rlo)):
            bad = ('jump at the switch', hi, vhi, vlo, tlo + thi)
        if bad:
            near_pole = sea and (abs(1 + p) < POLE_WINDOW or pole_amplified(x, bad[1], p))
            rep.violation('gk/sea/alpha1-pole' if near_pole else 'gk/switch/%s' % kind,
                          '_int%s(x=%r, eta=%r, alt=%r, j=%d): %s gives %r, required %r (allowed %.3g)' % (
                              kind, x, bad[1], alt, j, bad[0], bad[2], bad[3], bad[4]),
                          dict(function='_int' + kind, x=x, eta=bad[1], alt=alt, j=j, observed=bad[2],
                               required=bad[3], tolerance=bad[4]))
    rep.coverage['switch_max_jump_over_x^p'] = jump_obs

    # ================= gk-pole: alpha_sea(t, Q2) = 1 inside the domain =================
    pole_obs = []
    Q2s = [4.0] + [rng.uniform(2, 9) for _ in range(1 if quick else 12)]
    for Q2 in Q2s:
        L = math.log(Q2 / 4.)
        al0 = 1.10 + 0.06 * L - 0.0027 * L ** 2
        tstar = (1 - al0) / 0.15
        if not -1 <= tstar <= 0:
            continue
        # floats around t*: the ones for which the code's alpha is exactly 1, and near neighbours
        cands = [tstar]
        lo = hi = tstar
        for _ in range(24):
            lo, hi = math.nextafter(lo, -2), math.nextafter(hi, 1)
            cands += [lo, hi]
        cands = sorted(set(c for c in cands if -1 <= c <= 0))
        exact = [c for c in cands if alpha_sea(c, Q2) == 1.0] or [tstar]
        tsel = [min(exact, key=lambda c: abs(c + 2. / 3) if Q2 == 4.0 else abs(c - tstar))] + [tstar * (1 + s * dd) for s in (-1, 1) for dd in (1e-9, 1e-6)]
        for t in tsel:
            for (x, eta) in ((0.3, 0.1), (0.05, 0.1), (-0.3, 0.1)):
                for name in ('Hs', 'Esea'):
                    r, e, tol = ref(name, x, eta, t, Q2)
                    r = float(r)
                    fac, terms, n, sea = profiles(mp, name, t, Q2)
                    S = abs(fac) * sum(abs(c) * max(abs(x), eta) ** p for c, p in terms)
                    rep.case('gk-pole', (name, x, eta, t, Q2), sample=dict(gpd=name, x=x, eta=eta, t=t, Q2=Q2,
                                                                           alpha_minus_1=alpha_sea(t, Q2) - 1, ref=r))
                    cmd = ("python -c \"from gepard.gk import GoloskokovKrollCFF as G; print(G().%s(%r, %r, %r, %r))\""
                           % (name, x, eta, t, Q2))
                    try:
                        v = float(getattr(gk, name)(x, eta, t, Q2))
                    except Exception as ex:
                        rep.violation('gk/sea-%s/%s' % (region_of(x, eta), exc_name(ex)),
                                      '%s(x=%r, eta=%r, t=%r, Q2=%r) raises %s: %s; the DD integral there is %r' % (
                                          name, x, eta, t, Q2, exc_name(ex), ex, r),
                                      dict(function=name, x=x, eta=eta, t=t, Q2=Q2, required=r, cmd=cmd,
                                           observed=exc_name(ex) + ': ' + str(ex)))
                        continue
                    # well-conditioned kinematics (eta/x >= 1/3): demand 1e-6 of the unsuppressed scale
                    err = abs(v - r) if finite(v) else float('inf')
                    pole_obs.append((err / S if S else 0., alpha_sea(t, Q2) - 1))
                    if not err <= 1e-6 * S + 1e-9 * abs(r):
                        rep.violation('gk/sea/alpha1-pole',
                                      '%s(x=%r, eta=%r, t=%r, Q2=%r) = %r, but the double-distribution integral of the '
                                      'forward profile is finite there: %r.  alpha_sea(t,Q2) - 1 = %.3g: the closed form '
                                      'of _intsea has the factor Gamma(1+p), p = -alpha_sea, which is singular at p = -1'
                                      % (name, x, eta, t, Q2, v, r, alpha_sea(t, Q2) - 1),
                                      dict(function=name, x=x, eta=eta, t=t, Q2=Q2, observed=v, required=r,
                                           tolerance=1e-6 * S, cmd=cmd))
        ref.cache.clear()
    if pole_obs:
        fin = [p for p in pole_obs if p[0] != float('inf')]
        rep.coverage['pole_stream'] = dict(points=len(pole_obs), nonfinite=len(pole_obs) - len(fin),
                                           max_err_over_scale=max([p[0] for p in fin] or [0.]))

    # ================= reference self-check: polynomiality (lowest moment) =================
    for _ in range(1 if quick else 4):
        eta = rng.uniform(0.05, 0.6)
        p = rng.uniform(-0.45, 2.0)
        lhs = mp.quad(lambda y: dd_integral(mp, y, eta, [(1., p)], 1, False)[0], [-eta, eta, 1])
        rhs = mp.beta(p + 1, 4)
        rep.case('reference-selfcheck', (eta, p), sample=dict(eta=eta, p=p, moment=float(lhs), required=float(rhs)))
        if abs(lhs - rhs) > 1e-8 * abs(rhs):
            rep.violation('harness/reference', 'reference DD integral fails its own sum rule int dx H = int dbeta h: '
                          '%r vs %r (eta=%r, p=%r)' % (float(lhs), float(rhs), eta, p), dict(eta=eta, p=p),
                          found_input=False)

    # ================= gk-options: the keyword options of the public GPD / CFF functions =================
    # The property quantifies over the GPD functions as they can be CALLED: a function that takes options beyond (x, eta, t, Q2)
    # defines one GPD per option value, each with its own forward profile (OPTION_TABLE).  The options are discovered on the real
    # class; every non-default value (and the default passed explicitly) is evaluated in the DGLAP and ERBL regions, as keyword and
    # as positional argument, against the DD integral of the profile that value defines.  Runs last: the streams above see the same
    # random points as before.
    optfuns = gk_option_functions(GoloskokovKrollCFF)
    rep.coverage['gk_option_functions'] = {k: dict(kind=v_[0], options={o: repr(d_) for o, d_ in v_[1]}) for k, v_ in sorted(optfuns.items())}
    variants = {}      # GPD name -> [(options as keywords, the same in signature order with the earlier options at their defaults, is_default)]
    for name, (kind, extra, _names) in sorted(optfuns.items()):
        if kind != 'gpd':
            continue
        for i, (opt, default) in enumerate(extra):
            if name not in BASE or (name, opt) not in OPTION_TABLE:
                rep.notes.append('GoloskokovKrollCFF.%s takes the option %s=%r of which this harness knows no forward profile: its '
                                 'non-default values are NOT compared with a DD integral' % (name, opt, default))
                rep.hist('gk-options.uncovered', '%s.%s' % (name, opt))
                continue
            if OPTION_TABLE[(name, opt)][0] != default:
                rep.notes.append('GoloskokovKrollCFF.%s: default of the option %s is %r, documented %r' % (
                    name, opt, default, OPTION_TABLE[(name, opt)][0]))
            for val, is_def in [(v_, False) for v_ in option_values(name, opt, default)] + [(OPTION_TABLE[(name, opt)][0], True)]:
                ordered = {o: d_ for o, d_ in extra[:i]}
                ordered[opt] = val
                if all((name, o) in OPTION_TABLE for o in ordered):
                    variants.setdefault(name, []).append(({opt: val}, ordered, is_def))
    fixed = [(0.30, 0.10, -0.20, 4.0, 'fixed'), (0.05, 0.20, -0.50, 10.0, 'fixed'), (-0.10, 0.35, 0.0, 2.0, 'fixed'),
             (0.60, 0.90, -1.0, 40.0, 'fixed'), (0.02, 1e-4, -0.30, 4.0, 'fixed')]
    n_opt = 40 if quick else 600
    for name in sorted(variants):
        for i, (x, eta, t, Q2, cls) in enumerate(fixed + gk_points(rng, n_opt)):
            if name not in SEA and x <= -eta and i % 5:
                x = -x          # valence: zero outside x > -eta (gk-symmetry looks at that); spend the points inside the support
            for kw, ordered, is_def in variants[name]:
                if is_def and i % 4 != 1:
                    continue
                check_gpd(name, x, eta, t, Q2, 'gk-options', cls, opts=kw)
                if i % 4 == 0:
                    check_gpd(name, x, eta, t, Q2, 'gk-options', cls + '/positional', opts=ordered, positional=True)
            ref.cache.clear()

    # Im CFFs that forward such an option: Im F(xi) = pi sum_q e_q^2 (F^q_val + 2 F^q_sea)(xi, xi, t, Q2), each GPD from its DD integral
    n_cff = 6 if quick else 60
    for name, (kind, extra, pnames) in sorted(optfuns.items()):
        if kind != 'cff':
            continue
        if name not in CFF_FLAVOURS:
            rep.notes.append('GoloskokovKrollCFF.%s takes the options %s; this harness has no flavour decomposition for it: not compared'
                             % (name, [o for o, _ in extra]))
            rep.hist('gk-options.uncovered', name)
            continue
        for i, (opt, default) in enumerate(extra):
            takers = [b for _, b, _s in CFF_FLAVOURS[name] if b in variants and any(opt in kw for kw, _, _d in variants[b])]
            vals = sorted(set(v_ for b in takers for kw, _, d_ in variants[b] for o, v_ in kw.items() if o == opt), key=repr)
            if not takers:
                rep.notes.append('GoloskokovKrollCFF.%s takes the option %s that none of its GPDs takes: not compared' % (name, opt))
                rep.hist('gk-options.uncovered', '%s.%s' % (name, opt))
                continue
            for k in range(n_cff):
                while True:
                    xi0, t, Q2 = 10 ** rng.uniform(-3, math.log10(0.6)), rng.uniform(-1, 0), rng.uniform(2, 40)
                    if abs(alpha_sea(t, Q2) - 1) > POLE_BAND:
                        break
                pt = g.DataPoint(xB=2 * xi0 / (1 + xi0), t=t, Q2=Q2)
                explicit = k % 2 == 1                       # xi passed as argument instead of being taken from the point
                xi = xi0 if explicit else float(pt.xi)
                for val in vals:
                    rv = re_ = tl = 0.
                    for w, vname, sname in CFF_FLAVOURS[name]:
                        if vname:
                            r1, e1, t1 = ref(vname, xi, xi, t, Q2, {opt: val} if vname in takers else None)
                            rv, re_, tl = rv + w * float(r1), re_ + w * float(e1), tl + w * t1
                        r2, e2, t2 = ref(sname, xi, xi, t, Q2)
                        rv, re_, tl = rv + 2 * w * float(r2), re_ + 2 * w * float(e2), tl + 2 * w * t2
                    rv, re_, tl = math.pi * rv, math.pi * re_, math.pi * tl + 1e-9 * abs(math.pi * rv)
                    label = '%s[%s=%r]' % (name, opt, val)
                    rep.case('gk-options', (label, xi, t, Q2, explicit), sample=dict(cff=label, xi=xi, t=t, Q2=Q2, ref=rv))
                    rep.hist('gk-options.gpd', label)
                    if re_ > 0.01 * tl:
                        quad_bad += 1
                        continue
                    if explicit and 'xi' in pnames and pnames.index('xi') == 1 and i == 0 and pnames.index(opt) == 2:
                        call, cs = (lambda: getattr(gk, name)(pt, xi, val)), '(pt, %r, %r)' % (xi, val)
                    elif explicit and 'xi' in pnames:
                        call, cs = (lambda: getattr(gk, name)(pt, xi=xi, **{opt: val})), '(pt, xi=%r, %s=%r)' % (xi, opt, val)
                    else:
                        call, cs = (lambda: getattr(gk, name)(pt, **{opt: val})), '(pt, %s=%r)' % (opt, val)
                    cmd = ("python -c \"import gepard as g; pt = g.DataPoint(xB=%r, t=%r, Q2=%r); print(g.cff.GoloskokovKrollCFF().%s%s)\""
                           % (2 * xi0 / (1 + xi0), t, Q2, name, cs))
                    rp = dict(function=name, xi=xi, xB=2 * xi0 / (1 + xi0), t=t, Q2=Q2, options={opt: val}, required=rv, tolerance=tl, cmd=cmd)
                    try:
                        v = float(call())
                    except Exception as ex:
                        rep.violation('gk/%s/%s' % (label, exc_name(ex)), '%s%s raises %s: %s (xB=%r, t=%r, Q2=%r); required %r' % (
                            name, cs, exc_name(ex), ex, 2 * xi0 / (1 + xi0), t, Q2, rv), dict(rp, observed=exc_name(ex) + ': ' + str(ex)))
                        continue
                    if not (finite(v) and abs(v - rv) <= tl):
                        rep.violation('gk/%s/value' % label, '%s%s = %r at xB=%r (xi=%r), t=%r, Q2=%r, but pi sum_q e_q^2 (E^q_val + 2 E^q_sea)(xi, xi) with the '
                                      'double-distribution integrals of the forward profiles that %s=%r defines is %r (|diff| %.3g, allowed %.3g)' % (
                                          name, cs, v, 2 * xi0 / (1 + xi0), xi, t, Q2, opt, val, rv, abs(v - rv), tl), dict(rp, observed=v))
                ref.cache.clear()

    # ================= gk-moment: lowest x-moment of the valence GPDs E^q_val = normalisation of the forward profile =================
    # a second oracle that needs no DD integral: int_-1^1 dx E^q_val(x, eta, t) = int_0^1 drho e_q(rho, t) for EVERY eta (polynomiality),
    # = kappa_q at t = 0 (GK12 Table 1), whatever the options.  Quadrature of the real function (scipy QUADPACK), split at x = eta.
    import warnings
    from scipy.integrate import quad

    def xmoment(name, eta, t, Q2, opts):
        f = getattr(gk, name)
        with warnings.catch_warnings():
            warnings.simplefilter('error')
            a = quad(lambda y: float(f(y, eta, t, Q2, **opts)), -eta, eta, epsabs=0, epsrel=1e-10, limit=200)
            b = quad(lambda y: float(f(y, eta, t, Q2, **opts)), eta, 1., epsabs=0, epsrel=1e-10, limit=200)
        return a[0] + b[0], a[1] + b[1]

    mom_obs = {}
    for name in sorted(KAPPA):
        if not hasattr(gk, name):
            continue
        for opts in [{}] + [kw for kw, _, _d in variants.get(name, [])]:
            label = name + ('[%s]' % opts_str(opts) if opts else '')
            etas = [rng.uniform(0.05, 0.3), rng.uniform(0.3, 0.7)] + ([] if quick else [rng.uniform(0.02, 0.9) for _ in range(4)])
            Q2 = rng.uniform(2, 40)
            for t in [0.0, rng.uniform(-1, 0)] + ([] if quick else [rng.uniform(-1, 0) for _ in range(3)]):
                need = ref.moment(name, t, Q2, opts)
                got = []
                for eta in etas:
                    rep.case('gk-moment', (label, eta, t), sample=dict(gpd=label, eta=eta, t=t, required=need))
                    rep.hist('gk-moment.gpd', label)
                    cmd = ("python -c \"from scipy.integrate import quad; from gepard.gk import GoloskokovKrollCFF as G; f = lambda x: G().%s(x, %r, %r, %r%s); "
                           "print(quad(f, %r, %r, epsrel=1e-10, limit=200)[0] + quad(f, %r, 1, epsrel=1e-10, limit=200)[0])\""
                           % (name, eta, t, Q2, ''.join(', %s=%r' % kv for kv in opts.items()), -eta, eta, eta))
                    rp = dict(function=name, quantity='moment', eta=eta, t=t, Q2=Q2, options=dict(opts), required=need, cmd=cmd)
                    try:
                        m, err = xmoment(name, eta, t, Q2, opts)
                    except Warning:
                        quad_bad += 1
                        continue
                    except Exception as ex:
                        rep.violation('gk/%s/moment/%s' % (label, exc_name(ex)), 'int dx %s(x, eta=%r, t=%r, Q2=%r%s) raises %s: %s' % (
                            name, eta, t, Q2, ''.join(', %s=%r' % kv for kv in opts.items()), exc_name(ex), ex), dict(rp, observed=exc_name(ex) + ': ' + str(ex)))
                        continue
                    got.append((eta, m, err))
                    tol = 1e-7 * abs(need) + 100 * err
                    mom_obs[label] = max(mom_obs.get(label, 0.), abs(m - need) / abs(need))
                    call = '%s(x, eta=%r, t=%r, Q2=%r%s)' % (name, eta, t, Q2, ''.join(', %s=%r' % kv for kv in opts.items()))
                    if t == 0.0 and not abs(m - KAPPA[name]) <= 1e-5 * abs(KAPPA[name]) + 100 * err:
                        rep.violation('gk/%s/moment-kappa' % label, 'int_-1^1 dx %s = %r, but the lowest moment of E^q_val at t = 0 is the normalisation '
                                      'kappa = %r of its forward profile for every eta and every option (GK12 Table 1; allowed 1e-5 relative for '
                                      'the truncated expansion of (1-rho)^2.6)' % (call, m, KAPPA[name]), dict(rp, observed=m, required=KAPPA[name]))
                    elif not abs(m - need) <= tol:
                        rep.violation('gk/%s/moment' % label, 'int_-1^1 dx %s = %r, but the integral of its forward profile int_0^1 drho e(rho, t) is %r '
                                      '(polynomiality: for every eta; allowed %.3g)' % (call, m, need, tol), dict(rp, observed=m, tolerance=tol))
                if len(got) >= 2:
                    (e1, m1, r1), (e2, m2, r2) = min(got, key=lambda g_: g_[1]), max(got, key=lambda g_: g_[1])
                    if not m2 - m1 <= 2e-7 * abs(need) + 100 * (r1 + r2):
                        rep.violation('gk/%s/moment-eta-dependence' % label, 'int_-1^1 dx %s(x, eta, t=%r, Q2=%r%s) = %r at eta = %r but %r at eta = %r: the lowest '
                                      'moment of a GPD does not depend on eta (polynomiality)' % (name, t, Q2, ''.join(', %s=%r' % kv for kv in opts.items()), m1, e1, m2, e2),
                                      dict(function=name, quantity='moment', eta=e1, eta2=e2, t=t, Q2=Q2, options=dict(opts), observed=[m1, m2], required=need))
    rep.coverage['gk_moment_max_rel_dev_from_profile'] = mom_obs

    rep.coverage['gk_worst_err_over_tol'] = worst
    rep.coverage['gk_reference_quadrature_unreliable_skipped'] = quad_bad
    if gk_internals_missing and not rep.violations:
        rep.violation('model/gk-internals', gk_internals_missing, dict(reason=gk_internals_missing), found_input=False)
    if not ok and not rep.violations:
        rep.violation('lean', 'Lean side of C19 no longer checks: ' + why, dict(reason=why), found_input=False)
    rep.assumptions += [
        'EFF model vs code: relative 1e-13 (same operations; Python t**3 vs repeated multiplication differ by an ulp)',
        'Kelly oracle: published Table I central values with M_p = 0.938272013, M_n = 0.93956556, mu_p = 2.792847351, '
        'mu_n = -1.9130427; tolerance 1e-12 of |G_E|+|tau G_M| plus, for the neutron, the published uncertainty '
        '0.04 of the G_En numerator A (the code implies A = 1.710, published 1.70 +- 0.04)',
        'GK oracle reading of "equal": |code - DD integral| <= 1e-9 |ref| + sum_k |c_k| m^p_k min(1e-2, 1e-12 + r_k), '
        'm = max(|x|, eta); exact branch r_k = 16 eps (m/eta)^(2n+1) g(p_k) = rounding error of the closed form whose '
        'two terms cancel to (eta/m)^(2n+1) of their size (observed constant <= 1.8); Taylor branch r_k = twice the first '
        'neglected term.  The unsuppressed scale is used because the GPD itself vanishes like (1-x)^(2n+1)',
        'reference: alpha eliminated with the delta function, beta integral by mpmath tanh-sinh at 25 digits; cases whose '
        'quadrature error estimate exceeds 1 % of the tolerance are skipped and counted',
        'sea antisymmetry / valence support are compared exactly (bitwise) on the real code',
        'options: Edval(DMbeta=True) is read as the GPD of the profile -2.03/B(0.52, 7) rho^-(0.48+0.9t) (1-rho)^6 (gk.py: "choice of DM", '
        'beta_d = 6 in place of GK\'s 5.6, same kappa_d, alpha0, alpha\'); same tolerance as the default-option GPDs.  Lowest moment: '
        '1e-7 relative to the integral of the profile (+100 x the QUADPACK error estimate), 1e-5 relative to kappa at t = 0 (the truncated '
        'expansion of (1-rho)^2.6 of the default Edval misses kappa_d by 9e-7), eta-independence 2e-7']
    rep.notes += [
        'ORACLE streams (eff-oracle, gk-oracle, gk-switch, gk-symmetry, gk-pole, gk-options, gk-moment) evaluate the property on the real code '
        'against independent references; they support the theorems and carry the DD-integral / continuity part that no '
        'theorem here proves',
        'valence Taylor branch (eta/x < 1e-4) lies outside the property domain (eta >= 1e-4, x < 1); it is exercised by '
        'gk-switch with eta < 1e-4']
    return rep.finish(level='proof', checker_cmd='lake build Props.C19; #print axioms; gepdriver c19.* vs gepard.eff / '
                      'gepard.gk; mpmath oracles',
                      trusted=['Lean 4.33 kernel', 'Scalar/Eff.lean.in instantiated at Float and ℝ (same text)',
                               'harness/props/C19.py (generators, tolerances, forward-profile table retyped from GK12 / '
                               'gk.py, Kelly Table I retyped from the paper)', 'mpmath quadrature, gamma, beta',
                               '_intval / _intsea are function parameters of the model (fed from the real code)'])


def replay(path):
    d = json.load(open(path))
    print(json.dumps({k: d[k] for k in d if k != 'cmd'}, indent=1)[:3000])
    if d.get('function') in ALL_GPDS and d.get('quantity') == 'moment':
        import mpmath as mp
        from scipy.integrate import quad
        from gepard.gk import GoloskokovKrollCFF
        mp.mp.dps = 25
        opts = d.get('options') or {}
        gk = GoloskokovKrollCFF()
        need = GKRef(mp).moment(d['function'], d['t'], d['Q2'], opts)

        def f(y, eta):
            return float(getattr(gk, d['function'])(y, eta, d['t'], d['Q2'], **opts))
        rc = 0
        for eta in [d['eta']] + ([d['eta2']] if 'eta2' in d else []):
            m = quad(f, -eta, eta, args=(eta,), epsabs=0, epsrel=1e-10, limit=200)[0] + quad(f, eta, 1., args=(eta,), epsabs=0, epsrel=1e-10, limit=200)[0]
            print('now: int dx %s(x, %r, %r, %r, %s) = %r ; integral of the forward profile %r' % (d['function'], eta, d['t'], d['Q2'], opts, m, need))
            if not abs(m - need) <= 1e-6 * abs(need):
                rc = 1
        return rc
    if d.get('function') in ALL_GPDS and 'x' in d:
        import mpmath as mp
        from gepard.gk import GoloskokovKrollCFF
        mp.mp.dps = 25
        args = (d['x'], d['eta'], d['t'], d['Q2'])
        opts = d.get('options') or {}
        r, e, tol = GKRef(mp)(d['function'], *args, opts) if opts else GKRef(mp)(d['function'], *args)
        try:
            if d.get('passed') == 'positional':
                v = getattr(GoloskokovKrollCFF(), d['function'])(*args, *opts.values())
            else:
                v = getattr(GoloskokovKrollCFF(), d['function'])(*args, **opts)
        except Exception as ex:
            v = '%s: %s' % (type(ex).__name__, ex)
        print('now: %s%r %s = %r ; DD integral %r ; allowed %g' % (d['function'], args, opts or '', v, float(r), tol))
        return 0 if finite(v) and abs(float(v) - float(r)) <= tol + 1e-9 * abs(float(r)) else 1
    if 'cmd' in d:
        print('reproduce with: ' + d['cmd'])
    return 0

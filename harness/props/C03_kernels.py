"""x-space kernels and a Mellin-moment quadrature for the ORACLE streams of property C03.

Everything here is independent of gepard: the textbook x-space LO splitting functions, the MSbar
NLO F2 / FL coefficient functions, and the two-loop splitting functions (Curci-Furmanski-Petronzio /
Furmanski-Petronzio as tabulated in Ellis-Stirling-Webber, "QCD and Collider Physics", eqs.
(4.94), (4.80), (4.107)-(4.112)), all in the expansion parameter alpha_s/(2 pi), in which gepard's
gamma = -2 x (moment of P) and c = (moment of C).

A kernel is described by   regular(x, L)            ordinary function on (0,1)
                           plus(x, L)               f(x) of  [f(x)/(1-x)]_+          (or None)
                           plus_log(x, L)           g(x) of  [g(x) ln(1-x)/(1-x)]_+  (or None)
                           delta                    coefficient of delta(1-x)
`L` supplies log and Li2 so that the same text runs under numpy (double) and mpmath (any precision).

Moment:  M(n) = int_0^1 x^(n-1) regular + int_0^1 (x^(n-1) f(x) - f(1))/(1-x)
                + int_0^1 (x^(n-1) g(x) - g(1)) ln(1-x)/(1-x) + delta
computed with x = exp(-t) on t in [0, T]: composite Gauss-Legendre, panels graded geometrically
towards t = 0 (logarithmic end-point singularities) and uniform with <= 3 rad of phase per panel
beyond (oscillation exp(-i Im(n) t)); T is where exp(-(Re n - 1) t) t^2 < 1e-15.
"""
import math

import numpy as np
from scipy.special import spence

PI2 = math.pi ** 2
ZETA3 = 1.2020569031595942853997381615114
CF, CA, TR = 4.0 / 3.0, 3.0, 0.5


class NP:
    log = staticmethod(np.log)

    @staticmethod
    def li2(z):
        return spence(1.0 - z)


class MP:
    def __init__(self, mp):
        self.mp = mp
        self.log = mp.log

    def li2(self, z):
        return self.mp.polylog(2, z)


# ---------------------------------------------------------------- LO splitting functions
def lo_kernels(nf):
    Tf = TR * nf
    return {
        'qq': dict(regular=None, plus=lambda x, L: CF * (1 + x * x), delta=1.5 * CF),
        'qg': dict(regular=lambda x, L: 2 * Tf * (x * x + (1 - x) ** 2)),
        'gq': dict(regular=lambda x, L: CF * (1 + (1 - x) ** 2) / x),
        'gg': dict(regular=lambda x, L: 2 * CA * ((1 - x) / x + x * (1 - x)),
                   plus=lambda x, L: 2 * CA * x, delta=(11 * CA - 4 * Tf) / 6),
    }


# ---------------------------------------------------------------- NLO MSbar DIS coefficient functions
def c1_kernels(nf):
    """F2: ESW (4.80);  FL: C_L,q = 2 CF x, C_L,g = 4 nf T_R x (1-x) * 2 ... in alpha_s/(2 pi);
    the gluon ones summed over the 2 nf quark and antiquark flavours, normalised as gepard's G entry
    (coefficient of the gluon in F2 = x Sigma_q e_q^2 (...)/<e^2>: nf * [per-flavour-pair kernel])"""
    return {
        'F2q': dict(regular=lambda x, L: CF * (-(1 + x) * L.log(1 - x) - (1 + x * x) / (1 - x) * L.log(x)
                                                + 3 + 2 * x),
                    plus=lambda x, L: CF * (-1.5) + 0 * x, plus_log=lambda x, L: 2 * CF + 0 * x,
                    delta=-CF * (PI2 / 3 + 4.5)),
        'F2g': dict(regular=lambda x, L: 2 * nf * TR * ((x * x + (1 - x) ** 2) * L.log((1 - x) / x)
                                                         - 1 + 8 * x * (1 - x))),
        'FLq': dict(regular=lambda x, L: 2 * CF * x),
        'FLg': dict(regular=lambda x, L: 8 * nf * TR * x * (1 - x)),
    }


# ---------------------------------------------------------------- two-loop splitting functions
def S2x(x, L):
    return -2 * L.li2(-x) + 0.5 * L.log(x) ** 2 - 2 * L.log(x) * L.log(1 + x) - PI2 / 6


def nlo_kernels(nf):
    Tf = TR * nf

    def pqq_reg(x):          # p_qq(x) = 2/(1-x) - 1 - x: the part without the pole
        return -1 - x

    def pqqm(x):             # p_qq(-x)
        return 2 / (1 + x) - 1 + x

    # ---- P^V_qq : coefficient functions multiplying p_qq(x) = (1+x^2)/(1-x)
    def A_CF2(x, L):
        return -(2 * L.log(x) * L.log(1 - x) + 1.5 * L.log(x))

    def A_CFCA(x, L):
        return 0.5 * L.log(x) ** 2 + 11.0 / 6 * L.log(x) + 67.0 / 18 - PI2 / 6

    def A_CFTf(x, L):
        return -(2.0 / 3 * L.log(x) + 10.0 / 9)

    def A(x, L):
        return CF * CF * A_CF2(x, L) + CF * CA * A_CFCA(x, L) + CF * Tf * A_CFTf(x, L)
    A1 = CF * CA * (67.0 / 18 - PI2 / 6) - CF * Tf * 10.0 / 9          # A(1)

    def PV_rest(x, L):
        return (CF * CF * (-(1.5 + 3.5 * x) * L.log(x) - 0.5 * (1 + x) * L.log(x) ** 2 - 5 * (1 - x)) +
                CF * CA * ((1 + x) * L.log(x) + 20.0 / 3 * (1 - x)) +
                CF * Tf * (-4.0 / 3 * (1 - x)))

    def PVbar(x, L):         # P^V_{q qbar}
        return CF * (CF - CA / 2) * (2 * pqqm(x) * S2x(x, L) + 2 * (1 + x) * L.log(x) + 4 * (1 - x))

    delta_qq = (CF * CF * (3.0 / 8 - PI2 / 2 + 6 * ZETA3) + CF * CA * (17.0 / 24 + 11 * PI2 / 18 - 3 * ZETA3)
                - CF * Tf * (1.0 / 6 + 2 * PI2 / 9))

    # A(x) p_qq(x) = [A(x)(1+x^2) - 2 A(1)]/(1-x) + 2 A(1)/(1-x)_+ : the first piece is integrable
    # (A(x) - A(1) ~ (1-x) ln(1-x)), so it is a regular function.
    def ns_regular(sign):
        def f(x, L):
            return ((A(x, L) * (1 + x * x) - 2 * A1) / (1 - x) + PV_rest(x, L) + sign * PVbar(x, L))
        return f

    def ps(x, L):            # pure singlet, 2 nf P^S_qq
        return 2 * CF * Tf * (20.0 / (9 * x) - 2 + 6 * x - 56.0 / 9 * x * x
                              + (1 + 5 * x + 8.0 / 3 * x * x) * L.log(x) - (1 + x) * L.log(x) ** 2)

    def pFG(x):
        return x * x + (1 - x) ** 2

    def qg(x, L):
        lx, l1 = L.log(x), L.log(1 - x)
        lr = L.log((1 - x) / x)
        return (CF * Tf * (4 - 9 * x - (1 - 4 * x) * lx - (1 - 2 * x) * lx ** 2 + 4 * l1
                           + (2 * lr ** 2 - 4 * lr - 2.0 / 3 * PI2 + 10) * pFG(x)) +
                CA * Tf * (182.0 / 9 + 14.0 / 9 * x + 40.0 / (9 * x) + (136.0 / 3 * x - 38.0 / 3) * lx - 4 * l1
                           - (2 + 8 * x) * lx ** 2 + 2 * pFG(-x) * S2x(x, L)
                           + (-lx ** 2 + 44.0 / 3 * lx - 2 * l1 ** 2 + 4 * l1 + PI2 / 3 - 218.0 / 9) * pFG(x)))

    def pGF(x):
        return (1 + (1 - x) ** 2) / x

    def gq(x, L):
        lx, l1 = L.log(x), L.log(1 - x)
        return (CF * CF * (-2.5 - 3.5 * x + (2 + 3.5 * x) * lx - (1 - 0.5 * x) * lx ** 2 - 2 * x * l1
                           - (3 * l1 + l1 ** 2) * pGF(x)) +
                CF * CA * (28.0 / 9 + 65.0 / 18 * x + 44.0 / 9 * x * x - (12 + 5 * x + 8.0 / 3 * x * x) * lx
                           + (4 + x) * lx ** 2 + 2 * x * l1 + S2x(x, L) * pGF(-x)
                           + (0.5 - 2 * lx * l1 + 0.5 * lx ** 2 + 11.0 / 3 * l1 + l1 ** 2 - PI2 / 6) * pGF(x)) +
                CF * Tf * (-4.0 / 3 * x - (20.0 / 9 + 4.0 / 3 * l1) * pGF(x)))

    def pGG_reg(x):          # p_GG(x) - 1/(1-x)
        return 1 / x - 2 + x - x * x

    def pGGm(x):             # p_GG(-x)
        return 1 / (1 + x) - 1 / x - 2 - x - x * x

    def B(x, L):             # multiplies p_GG(x) in the CA^2 part
        return 67.0 / 9 - 4 * L.log(x) * L.log(1 - x) + L.log(x) ** 2 - PI2 / 3
    B1 = 67.0 / 9 - PI2 / 3

    def gg_regular(x, L):
        lx = L.log(x)
        return (CF * Tf * (-16 + 8 * x + 20.0 / 3 * x * x + 4.0 / (3 * x) - (6 + 10 * x) * lx - (2 + 2 * x) * lx ** 2) +
                CA * Tf * (2 - 2 * x + 26.0 / 9 * (x * x - 1 / x) - 4.0 / 3 * (1 + x) * lx - 20.0 / 9 * pGG_reg(x)) +
                CA * CA * (27.0 / 2 * (1 - x) + 67.0 / 9 * (x * x - 1 / x)
                           - (25.0 / 3 - 11.0 / 3 * x + 44.0 / 3 * x * x) * lx + 4 * (1 + x) * lx ** 2
                           + 2 * pGGm(x) * S2x(x, L) + B(x, L) * pGG_reg(x) + (B(x, L) - B1) / (1 - x)))
    gg_plus_coeff = CA * CA * B1 - CA * Tf * 20.0 / 9
    delta_gg = CA * CA * (8.0 / 3 + 3 * ZETA3) - CF * Tf - 4.0 / 3 * CA * Tf

    return {
        'NS+': dict(regular=ns_regular(+1), plus=lambda x, L: 2 * A1 + 0 * x, delta=delta_qq, pole_at_one=False),
        'NS-': dict(regular=ns_regular(-1), plus=lambda x, L: 2 * A1 + 0 * x, delta=delta_qq, pole_at_one=False),
        'qq': dict(regular=lambda x, L: ns_regular(+1)(x, L) + ps(x, L), plus=lambda x, L: 2 * A1 + 0 * x,
                   delta=delta_qq),
        'qg': dict(regular=qg),
        'gq': dict(regular=gq),
        'gg': dict(regular=gg_regular, plus=lambda x, L: gg_plus_coeff + 0 * x, delta=delta_gg),
    }


# ---------------------------------------------------------------- quadrature
_GL = {}


def _gl(k):
    if k not in _GL:
        _GL[k] = np.polynomial.legendre.leggauss(k)
    return _GL[k]


def t_mesh(n, pole_at_one=True):
    """panel edges in t for moment n"""
    n = complex(n)
    decay = (n.real - 1.0) if pole_at_one else n.real
    decay = max(min(decay, 1.0), 0.04)       # the subtraction term of a plus-distribution decays like exp(-t)
    # cap: 1/x * ln^2 x * O(100) must not overflow; at Re n = 1.05 the neglected tail is 4e-11 of the moment
    T = min(45.0 / decay, 600.0)
    h = min(0.25, 3.0 / max(abs(n.imag), 1e-9), 4.0 / max(n.real, 1.0))
    edges = [0.0]
    a = 1e-12
    while a < h:
        edges.append(a)
        a *= 2
    k = int(math.ceil((T - edges[-1]) / h))
    edges += list(edges[-1] + (T - edges[-1]) * np.arange(1, k + 1) / k)
    return np.array(edges)


def moment_np(kernel, n, order=20):
    """double-precision moment of a kernel (see module docstring)"""
    n = complex(n)
    edges = t_mesh(n, kernel.get('pole_at_one', True))
    xs, ws = _gl(order)
    a, b = edges[:-1, None], edges[1:, None]
    t = (0.5 * (b - a) * xs[None, :] + 0.5 * (b + a)).ravel()
    w = (0.5 * (b - a) * ws[None, :]).ravel()
    x = np.exp(-t)
    omx = -np.expm1(-t)                    # 1 - x, accurately
    xn = np.exp(-n * t)                    # x^(n-1) dx = exp(-n t) dt
    tot = 0j
    L = NP
    if kernel.get('regular'):
        tot += np.sum(w * xn * kernel['regular'](x, L))
    if kernel.get('plus'):
        f1 = kernel['plus'](1.0, NP)
        tot += np.sum(w * (xn * kernel['plus'](x, L) - f1 * x) / omx)
    if kernel.get('plus_log'):
        g1 = kernel['plus_log'](1.0, NP)
        tot += np.sum(w * (xn * kernel['plus_log'](x, L) - g1 * x) * np.log(omx) / omx)
    tot += kernel.get('delta', 0.0)
    return complex(tot)


def moment_mp(kernel, n, mp, dps=25):
    """reference moment with mpmath (x-space form, t = -ln x substitution, breakpoints per period)"""
    mp.mp.dps = dps
    L = MP(mp)
    n = mp.mpc(complex(n).real, complex(n).imag)
    edges = [mp.mpf(float(e)) for e in t_mesh(complex(n), kernel.get('pole_at_one', True))]
    # merge the many tiny graded panels: tanh-sinh handles the end-point singularity itself
    h = min(0.25, 3.0 / max(abs(complex(n).imag), 1e-9), 4.0 / max(complex(n).real, 1.0))
    T = float(edges[-1])
    k = int(math.ceil(T / (4 * h)))
    pts = [mp.mpf(0)] + [mp.mpf(T) * i / k for i in range(1, k + 1)]

    f1 = kernel['plus'](mp.mpf(1), L) if kernel.get('plus') else 0
    g1 = kernel['plus_log'](mp.mpf(1), L) if kernel.get('plus_log') else 0

    def integrand(t):
        x = mp.exp(-t)
        omx = -mp.expm1(-t)
        xn = mp.exp(-n * t)
        v = 0
        if kernel.get('regular'):
            v += xn * kernel['regular'](x, L)
        if kernel.get('plus'):
            v += (xn * kernel['plus'](x, L) - f1 * x) / omx
        if kernel.get('plus_log'):
            v += (xn * kernel['plus_log'](x, L) - g1 * x) * mp.log(omx) / omx
        return v
    return complex(mp.quad(integrand, pts)) + kernel.get('delta', 0.0)


# ---------------------------------------------------------------- DVCS: conformal moment of the one-loop quark kernel
def c1V_quark_exact(j):
    """MSbar NLO DVCS quark coefficient at integer conformal spin j as the Gegenbauer moment of the
    one-loop quark hard-scattering kernel (Ji-Osborne / Belitsky-Mueller), in units of C_F, EXACT (Fraction):

        T(t) = 1/(1-t) * { 1 + a_s C_F/2 [ ln^2((1-t)/2) - 3 (1-t)/(1+t) ln((1-t)/2) - 9 ] },  t = x/xi, a_s = alpha_s/(2 pi)
        c_j  = int_{-1}^{1} dt (1-t^2) C_j^{3/2}(t) T(t) / int_{-1}^{1} dt (1-t^2) C_j^{3/2}(t)/(1-t)

    (normalised so that the LO coefficient is 1).  With s = (1-t)/2 everything is a polynomial in s times
    ln^k s, and  int_0^1 s^a ln^k s ds = (-1)^k k!/(a+1)^(k+1).
    """
    from fractions import Fraction as Fr
    # Gegenbauer C_j^{3/2}(t) as polynomials in s (t = 1 - 2 s):  n C_n = (2n+1) t C_{n-1} - (n+1) C_{n-2}
    def mul_t(p):                       # (1 - 2 s) * p(s)
        q = [Fr(0)] * (len(p) + 1)
        for a, c in enumerate(p):
            q[a] += c
            q[a + 1] -= 2 * c
        return q
    c0, c1 = [Fr(1)], mul_t([Fr(3)])
    if j == 0:
        G = c0
    else:
        for n in range(2, j + 1):
            t = mul_t(c1)
            nxt = [Fr(2 * n + 1, n) * x for x in t]
            for a, c in enumerate(c0):
                nxt[a] -= Fr(n + 1, n) * c
            c0, c1 = c1, nxt
        G = c1

    def I(a, k):
        return Fr((-1) ** k * math.factorial(k), (a + 1) ** (k + 1))
    num = Fr(0)
    den = Fr(0)
    for a, g in enumerate(G):
        # G(s) [ 2 (1-s) (ln^2 s - 9) - 6 s ln s ]
        num += g * (2 * (I(a, 2) - I(a + 1, 2)) - 18 * (I(a, 0) - I(a + 1, 0)) - 6 * I(a + 1, 1))
        den += g * 2 * (I(a, 0) - I(a + 1, 0))
    return num / den / 2

"""C02 — QCD evolution conserves momentum, composes and solves the RG equation.

Lean: Props/C02.lean (theorems about Gen/EvolR.lean, the ℝ instantiation of Scalar/Evol.lean.in);
the Float instantiation runs in the driver.

Correspondence (model vs code, for constructed theories nf∈{3,4,5}, p∈{0,1}, scheme∈{msbar,csbar}):
evolution.lambdaf / projectors / rnlof / erfunc / erfunc_nd / evolop / evolopns, qcd.as2pf(p=0) and
wilson.calc_wce's combination at contour points j, j+2, j+4 and the integer points, with γ0, γ1
(gepard.adim), β0, β1 (qcd.beta) and R (qcd.as2pf) passed to the model as data.

Oracle streams (the property evaluated on the real code; they support the theorems, they do not
replace them): identity at Q²=Q0² (zero NLO part, including the msbar non-diagonal term), LO
composition through an intermediate scale, momentum sum at j=1 (conformal moment j = n−1), first
non-singlet moment at j=0, projector algebra, RG equation by finite differences in ln μ²;
re-used model objects (Q02 / asp / r20 / nf / p assigned after a first evaluation: operator bit-equal to that of a fresh
object, identity at the new input scale); exactly coinciding scales (Q02 == r20, Q2 == Q02) with reference couplings
that differ between the orders: identity, and the LO operator against scipy's matrix exponential.
"""
import math

import common
from common import f2hex, hex2f

TOL = 1e-9           # model vs code, relative to the scale of the terms summed


def cx(z):
    z = complex(z)
    return [f2hex(z.real), f2hex(z.imag)]


def cxs(arr):
    out = []
    for z in arr:
        out += cx(z)
    return out


def parse_cx(tokens):
    v = [hex2f(t) for t in tokens]
    return [complex(v[i], v[i + 1]) for i in range(0, len(v), 2)]


def in_real_code(e):
    """True when the exception was raised in a frame of the package under study (not in the harness)"""
    import os
    import traceback
    src = os.path.join(common.REPO, 'src')
    return any(f.filename.startswith(src) for f in traceback.extract_tb(e.__traceback__))


def asp_of(p, a0):
    """the (LO, NLO, NNLO) reference couplings of a theory whose order-p entry is a0: the other entries are
    different numbers (as in the package default asp = [0.0606, 0.0518, 0.0488]), the evolution must not read them"""
    v = [1.17 * a0, 0.85 * a0, 0.8 * a0]
    v[p] = a0
    return v


def fd4(f, L, h):
    """4th-order central difference"""
    return (-f(L + 2 * h) + 8 * f(L + h) - 8 * f(L - h) + f(L - 2 * h)) / (12 * h)


def run(rep):
    import numpy as np
    import gepard as g
    from gepard import adim, qcd, wilson
    from gepard import evolution as ev
    np.seterr(all='ignore')
    rng = rep.rng
    ok, why = common.lean_side(rep, 'C02')
    quick = rep.tier == 'quick'

    class Th(g.gpd.TestGPD, g.cff.MellinBarnesCFF):   # as tests/evol_test.py builds its theories
        pass

    def mk(p, nf, scheme, Q02, r20, a0):
        return Th(p=p, nf=nf, scheme=scheme, Q02=Q02, r20=r20, asp=np.array(asp_of(p, a0)))

    lines, meta = [], []
    worst_o = {}

    def track(name, v):
        v = float(v)
        if v == v and v > worst_o.get(name, 0.0):
            worst_o[name] = v
    ntheories = 160 if quick else 1500
    nwce = 16 if quick else 120
    nwce_nd = 2 if quick else 12
    eye = np.eye(2)
    done = 0
    attempts = 0
    combos = [(nf, p, s) for nf in (3, 4, 5) for p in (0, 1) for s in ('msbar', 'csbar')]

    def viol(key, what, info, **extra):
        d = dict(theory=info)
        d.update(extra)
        d['reproduce'] = ("class Th(gepard.gpd.TestGPD, gepard.cff.MellinBarnesCFF): pass; "
                          "asp = [1.17*a0, 0.85*a0, 0.8*a0]; asp[p] = a0; "
                          "th = Th(p=p, nf=nf, scheme=scheme, Q02=Q02, r20=r20, asp=np.array(asp)); "
                          "gepard.evolution.evolop(th, j, Q2, process_class)")
        rep.violation(key, what, d, found_input=True)

    def in_domain(p, nf, Q02, Q2, a0, r20):
        """the quantifier of the property: 0 < as(Q2)/2pi <= 0.1, 0 < as(Q02)/2pi < 1 (None when not computable)"""
        try:
            A = qcd.as2pf(p, nf, Q2, a0, r20)
            A0 = qcd.as2pf(p, nf, Q02, a0, r20)
        except (OverflowError, ZeroDivisionError, ValueError):
            return None
        return (A, A0) if (0 < A <= 0.1 and 0 < A0 < 1.0) else None

    def contour_js(th, nk):
        idx = sorted(rng.sample(range(len(th.jpoints)), nk))
        jc = th.jpoints[idx]
        jj = np.concatenate([jc, jc + 2, jc + 4, [1.0 + 0j]])
        return jj, np.concatenate([jj, [0j]])

    def identity_at_input(th, info, tag, jj, jn, pcs, stream, keyp=''):
        """O1 on the object th as it is now: evolution to ITS input scale is the identity with zero NLO part"""
        for pc in pcs:
            E00 = ev.evolop(th, jj, th.Q02, pc)
            En0 = ev.evolopns(th, jn, th.Q02, pc)
            d0 = float(np.abs(E00[:, 0] - eye).max())
            d1 = float(np.abs(E00[:, 1]).max())
            dn0 = float(np.abs(En0[:, 0] - 1).max())
            dn1 = float(np.abs(En0[:, 1]).max())
            track(stream + ' identity |E0-1|', max(d0, dn0))
            track(stream + ' identity |E1|', max(d1, dn1))
            psc = max(1.0, float(np.abs(ev.projectors(adim.singlet_LO(jj + 1, th.nf).transpose((2, 0, 1)))[1]).max()))
            if not (d0 <= 1e-12 * psc and dn0 <= 1e-13):
                viol(keyp + 'identity/LO/' + tag, 'evolution to the input scale is not the identity: max|E0-1|=%g, NS %g '
                     '(%s, process_class=%s)' % (d0, dn0, info, pc), info, process_class=pc, j=[str(z) for z in jn])
            if not (d1 <= 1e-13 and dn1 <= 1e-13):
                viol(keyp + 'identity/NLO/' + tag + '/' + pc, 'NLO part of the operator at the input scale is not zero: '
                     'max|E1|=%g, NS %g (%s, process_class=%s)' % (d1, dn1, info, pc), info, process_class=pc,
                     j=[str(z) for z in jn])

    def reuse_stream():
        """ONE model object, evaluated, then Q02 / asp / r20 (nf, p) assigned new values and evaluated again: the operator is
        a function of the current values — it equals, bit for bit, that of a fresh object built with them, and evolution to
        the (new) input scale is the identity.  The reference is the fresh object; nothing else is assumed."""
        nre = 36 if quick else 400
        kinds = ['Q02', 'asp', 'r20', 'asp-in-place', 'Q02+r20', 'Q02', 'asp', 'r20', 'nf', 'p', 'Q02+asp+r20']
        n_nd = 2 if quick else 12
        made = 0
        for i in range(20 * nre):
            if made >= nre:
                break
            nf, p, scheme = combos[made % len(combos)]
            what = kinds[(made // 2) % len(kinds)] if made < 4 * len(kinds) else rng.choice(kinds)
            old = dict(nf=nf, p=p, scheme=scheme, Q02=rng.uniform(1, 10), a0=rng.uniform(0.005, 0.08),
                       r20=2.5 if rng.random() < 0.3 else rng.uniform(1, 10))
            Q2a = 10 ** rng.uniform(0, 4)
            new = dict(old)
            if 'Q02' in what:
                new['Q02'] = rng.uniform(1, 10)
            if 'asp' in what:
                new['a0'] = rng.uniform(0.005, 0.08)
            if 'r20' in what:
                new['r20'] = rng.uniform(1, 10)
            if what == 'nf':
                new['nf'] = rng.choice([n_ for n_ in (3, 4, 5) if n_ != nf])
            if what == 'p':
                new['p'] = 1 - p
            Q2b = Q2a if rng.random() < 0.5 else 10 ** rng.uniform(0, 4)
            if not in_domain(old['p'], old['nf'], old['Q02'], Q2a, old['a0'], old['r20']) or \
                    not in_domain(new['p'], new['nf'], new['Q02'], Q2b, new['a0'], new['r20']):
                continue
            made += 1
            th = mk(old['p'], old['nf'], scheme, old['Q02'], old['r20'], old['a0'])
            jj, jn = contour_js(th, 3)
            nd = (scheme == 'msbar' and new['p'] == 1 and n_nd > 0)      # the non-diagonal term (cb1) reads the same state
            if nd:
                n_nd -= 1
                jj, jn = jj[[0, 3, 9]], jn[[0, 3, 9, 10]]
            pc = 'DVCS' if nd or (scheme == 'csbar' and rng.random() < 0.7) else 'DIS'
            info = dict(nf=new['nf'], p=new['p'], scheme=scheme, Q02=new['Q02'], Q2=Q2b, a0=new['a0'], r20=new['r20'],
                        process_class=pc, object_history='built with %r, evolop/evolopns evaluated at Q2=%r, then %s assigned on '
                        'the same object' % (old, Q2a, what))
            tag = 'nf=%d/p=%d/%s' % (new['nf'], new['p'], scheme)
            rep.hist('reuse.reassigned', what)
            try:
                ev.evolop(th, jj, Q2a, pc)
                ev.evolopns(th, jn, Q2a, pc)
                if rng.random() < 0.5:
                    ev.evolop(th, jj, old['Q02'], pc)
                if what == 'asp-in-place':
                    th.asp[new['p']] = new['a0']
                else:
                    th.Q02, th.r20, th.nf, th.p = new['Q02'], new['r20'], new['nf'], new['p']
                    if 'asp' in what or what == 'p':
                        th.asp = np.array(asp_of(new['p'], new['a0']))
                fresh = mk(new['p'], new['nf'], scheme, new['Q02'], new['r20'], new['a0'])
                res = [(ev.evolop(o, jj, Q2b, pc), ev.evolopns(o, jn, Q2b, pc)) for o in (th, fresh)]
                rep.case('oracle.reuse', (tag, what, old['Q02'], new['Q02'], Q2b), sample=dict(info))
                same = np.array_equal(res[0][0], res[1][0]) and np.array_equal(res[0][1], res[1][1])
                if not same:
                    dev = max(float(np.abs(res[0][0] - res[1][0]).max()), float(np.abs(res[0][1] - res[1][1]).max()))
                    viol('reuse/' + what, 'the evolution operator of a model object whose %s was assigned after a first '
                         'evaluation differs from that of a fresh object with the same values (max |difference| %g): %s' % (
                             what, dev, info), info, j=[str(z) for z in jn])
                identity_at_input(th, info, tag, jj, jn, [pc], 'reuse', keyp='reuse/')
            except Exception as e:
                rep.violation('reuse/exception/' + type(e).__name__, 'evolution code raised %r on a re-used object (%s)' % (e, info),
                              dict(theory=info), found_input=in_real_code(e))
        rep.coverage['reuse_cases'] = made

    def exact_scale_stream():
        """the scales that coincide EXACTLY: Q02 == r20 (the coupling at the input scale is then the reference coupling
        asp[p] itself, by definition), Q2 == Q02, Q2 == r20; reference couplings different for every order.
        LO operator against scipy's matrix exponential exp(-(gamma0/beta0) ln R) with R = as(Q2)/asp[p]."""
        from scipy.linalg import expm
        nex = 24 if quick else 240
        for i in range(nex):
            nf, p, scheme = combos[i % len(combos)]
            # the package defaults first (r20 = 2.5, Q02 = 4), then anywhere in [1, 10]
            s0 = [2.5, 4.0][i // len(combos)] if i < 2 * len(combos) else rng.uniform(1, 10)
            a0 = rng.uniform(0.005, 0.08)
            mode = ['Q2>Q02', 'Q2==Q02', 'Q2>Q02', 'Q2<Q02'][i % 4]
            Q2 = s0
            if mode != 'Q2==Q02':
                for _try in range(50):
                    Q2 = min(1e4, s0 * 10 ** rng.uniform(0, 3)) if mode == 'Q2>Q02' else max(1.0, s0 * 10 ** rng.uniform(-1, 0))
                    if in_domain(p, nf, s0, Q2, a0, s0):
                        break
                else:
                    Q2 = s0
            th = mk(p, nf, scheme, s0, s0, a0)
            info = dict(nf=nf, p=p, scheme=scheme, Q02=s0, Q2=Q2, a0=a0, r20=s0, scales='Q02 == r20 exactly; asp = %r' % (asp_of(p, a0),))
            tag = 'nf=%d/p=%d/%s' % (nf, p, scheme)
            jj, jn = contour_js(th, 3)
            pcs = ['DIS'] + (['DVCS'] if (scheme == 'csbar' or p == 0 or i % 6 == 3) else [])
            if 'DVCS' in pcs and scheme == 'msbar' and p == 1:
                jj, jn = jj[[0, 3, 9]], jn[[0, 3, 9, 10]]
            rep.hist('exact-scale', mode)
            try:
                rep.case('oracle.exact-scale', (tag, s0, Q2, a0), sample=dict(info))
                identity_at_input(th, info, tag, jj, jn, pcs, 'exact-scale', keyp='exact-scale/')
                A = qcd.as2pf(p, nf, Q2, a0, s0)
                R = A / a0                          # as(Q02 = r20) = asp[p]: the definition of the reference coupling
                b0 = qcd.beta(0, nf)
                gam0 = adim.singlet_LO(jj + 1, nf).transpose((2, 0, 1))
                g0n = adim.non_singlet_LO(jn + 1, nf, 1)
                E = ev.evolop(th, jj, Q2, 'DIS')[:, 0]
                En = ev.evolopns(th, jn, Q2, 'DIS')[:, 0]
                ref = np.array([expm(-gam0[k] / b0 * math.log(R)) for k in range(len(jj))])
                refn = np.exp(-g0n / b0 * math.log(R))
                sc = np.array([np.abs(expm(np.abs(gam0[k]) / b0 * abs(math.log(R)))).max() for k in range(len(jj))])
                d = float((np.abs(E - ref).max(axis=(1, 2)) / sc).max())
                dn = float((np.abs(En - refn) / np.maximum(np.abs(refn), 1e-300)).max())
                track('exact-scale LO operator vs expm, relative', max(d, dn))
                if not (d <= 1e-10 and dn <= 1e-11):
                    viol('exact-scale/LO-operator/' + tag, 'LO evolution operator with Q02 == r20 differs from exp(-(γ0/β0) ln R), '
                         'R = as(Q2)/asp[p] = %r: %g (NS %g) relative (%s)' % (R, d, dn, info), info, j=[str(z) for z in jn])
            except Exception as e:
                rep.violation('exact-scale/exception/' + type(e).__name__, 'evolution code raised %r (%s)' % (e, info),
                              dict(theory=info), found_input=in_real_code(e))

    _prev = []
    while done < ntheories and attempts < 20 * ntheories:
        attempts += 1
        nf, p, scheme = combos[attempts % len(combos)] if attempts <= 2 * len(combos) else rng.choice(combos)
        Q02 = rng.uniform(1, 10)
        Q2 = 10 ** rng.uniform(0, 4) if rng.random() < 0.8 else rng.uniform(1, 10)
        if rng.random() < 0.15:
            Q2 = max(1.0, Q02 * (1 + rng.choice([-1, 1]) * 10 ** rng.uniform(-4, -1.3)))   # just off the input scale
        a0 = rng.uniform(0.005, 0.08)
        r20 = 2.5 if rng.random() < 0.3 else rng.uniform(1, 10)
        # every other theory repeats the previous one with exactly ONE ingredient changed (hidden state keyed on
        # part of the arguments shows only then)
        if _prev and attempts > 2 * len(combos) and rng.random() < 0.5:
            Q02_, Q2_, a0_, r20_, nf_, p_, scheme_ = _prev[0]
            what = rng.choice(['nf', 'nf', 'coupling', 'coupling', 'Q02', 'Q2', 'r20', 'scheme', 'order'])
            if what == 'nf':
                nf_ = rng.choice([n_ for n_ in (3, 4, 5) if n_ != nf_])
            elif what == 'coupling':
                a0_ = a0
            elif what == 'Q02':
                Q02_ = Q02
            elif what == 'Q2':
                Q2_ = Q2
            elif what == 'r20':
                r20_ = r20 if r20 != r20_ else rng.uniform(1, 10)
            elif what == 'scheme':
                scheme_ = 'msbar' if scheme_ == 'csbar' else 'csbar'
            else:
                p_ = 1 - p_
            Q02, Q2, a0, r20, nf, p, scheme = Q02_, Q2_, a0_, r20_, nf_, p_, scheme_
            rep.hist('theory drawn', 'previous one with another ' + what)
        else:
            rep.hist('theory drawn', 'fresh')
        _prev[:] = [(Q02, Q2, a0, r20, nf, p, scheme)]
        try:
            A = qcd.as2pf(p, nf, Q2, a0, r20)
            A0 = qcd.as2pf(p, nf, Q02, a0, r20)
        except (OverflowError, ZeroDivisionError, ValueError):
            rep.hist('skipped', 'coupling not computable (Landau pole) for these scales')
            continue
        if not (0 < A <= 0.1) or not (0 < A0 < 1.0):
            rep.hist('skipped', 'as(Q2)/2pi>0.1' if A > 0.1 else 'as(Q02) outside (0,1)')
            continue
        done += 1
        th = mk(p, nf, scheme, Q02, r20, a0)
        info = dict(nf=nf, p=p, scheme=scheme, Q02=Q02, Q2=Q2, a0=a0, r20=r20)
        tag = 'nf=%d/p=%d/%s' % (nf, p, scheme)
        rep.hist('theory', tag)
        rep.hist('log10(Q2)', int(math.floor(math.log10(Q2))))
        rep.hist('as(Q2)/2pi', '%.2f' % (math.floor(A * 50) / 50))
        b0, b1 = qcd.beta(0, nf), qcd.beta(1, nf)
        R = A / A0
        nk = 4 if quick else 6
        idx = sorted(rng.sample(range(len(th.jpoints)), nk))
        jc = th.jpoints[idx]
        jj = np.concatenate([jc, jc + 2, jc + 4, [1.0 + 0j]])
        jn = np.concatenate([jj, [0j]])
        gam0 = adim.singlet_LO(jj + 1, nf).transpose((2, 0, 1))
        gam1 = adim.singlet_NLO(jj + 1, nf).transpose((2, 0, 1))
        g0n = adim.non_singlet_LO(jn + 1, nf, 1)
        g1n = adim.non_singlet_NLO(jn + 1, nf, 1)

        # ------------------------------------------------------------------ real code, once
        try:
            lam_f = ev.lambdaf(gam0)
            lam_p, pr_p = ev.projectors(gam0)
            lam, pr, r1proj = ev.rnlof(th, jj)
            er = ev.erfunc(th, lam, lam, R)
            E = ev.evolop(th, jj, Q2, 'DIS')
            En = ev.evolopns(th, jn, Q2, 'DIS')
        except Exception as e:   # the real code raises nowhere on this domain
            viol('exception/' + type(e).__name__, 'evolution code raised %r' % (e,), info)
            continue
        if not (np.array_equal(lam_f, lam) and np.array_equal(lam_p, lam) and np.array_equal(pr_p, pr)):
            viol('rnlof-vs-projectors', 'rnlof and projectors/lambdaf disagree on the same gam0', info)
        # the operator the oracles O3, O4, O6 look at: any process class where the operator is the diagonal one
        pco = rng.choice(['DIS', 'DVCS', 'DVMP']) if scheme == 'csbar' else 'DIS'
        rep.hist('oracle process_class', pco + '/' + scheme)
        try:
            Eo, Eno = (E, En) if pco == 'DIS' else (ev.evolop(th, jj, Q2, pco), ev.evolopns(th, jn, Q2, pco))
        except Exception as e:
            viol('exception/' + type(e).__name__, 'evolution code raised %r for process_class=%s' % (e, pco), info)
            continue
        info_o = dict(info, process_class=pco)

        # ------------------------------------------------------------------ model vs code
        for k in range(len(jj)):
            lines.append(' '.join(['c02.si', str(p), f2hex(b0), f2hex(b1), f2hex(R)] +
                                  cxs(gam0[k].reshape(-1)) + cxs(gam1[k].reshape(-1))))
            P = np.abs(pr[k])
            r1 = (gam1[k] - 0.5 / b0 * b1 * gam0[k]) / b0
            rf = np.abs(R ** (-lam[:, k] / b0))
            sc_rp = max((P[a] @ np.abs(r1) @ P[b]).max() for a in range(2) for b in range(2))
            sc_e0 = (P[0] * rf[0] + P[1] * rf[1]).max()
            sc_e1 = sum(abs(er[k, a, b]) * (P[a] @ np.abs(r1) @ P[b]).max() * rf[b]
                        for a in range(2) for b in range(2))
            code = np.concatenate([lam[:, k], pr[k].reshape(-1), r1proj[k].reshape(-1), er[k].reshape(-1),
                                   E[k, 0].reshape(-1), E[k, 1].reshape(-1)])
            scales = ([np.abs(gam0[k]).max()] * 2 + [max(1.0, P.max())] * 8 + [sc_rp] * 16 +
                      [max(1.0, np.abs(er[k]).max())] * 4 + [sc_e0] * 4 + [max(sc_e1, 1e-300)] * 4)
            meta.append(dict(kind='si', info=info, j=complex(jj[k]), code=code, scales=scales, tag=tag))
        for k in range(len(jn)):
            lines.append(' '.join(['c02.ns', str(p), f2hex(b0), f2hex(b1), f2hex(R)] + cx(g0n[k]) + cx(g1n[k])))
            r1 = (g1n[k] - 0.5 / b0 * b1 * g0n[k]) / b0
            rf = abs(R ** (-g0n[k] / b0))
            meta.append(dict(kind='ns', info=info, j=complex(jn[k]), code=En[k], tag=tag,
                             scales=[rf, max(abs((1 - 1 / R) * r1) * rf, 1e-300)]))
        # erfunc_nd and R**(-lamk/b0), as cb1 calls them (zn = j + z + 2, zk = j)
        kk = rng.randrange(nk)
        lamk = lam[:, kk]
        znd = jj[kk] + complex(rng.uniform(-0.4, 0.4), rng.uniform(-8, 8)) + 2
        gamn = adim.singlet_LO(np.array([znd, znd.conjugate()]) + 1, nf).transpose((2, 0, 1))
        ernd = None
        try:
            lamn = ev.lambdaf(gamn)
            ernd = np.asarray(ev.erfunc_nd(th, lamn, lamk, R))          # [n, a, b]
            if ernd.shape != (2, 2, 2):
                raise TypeError('erfunc_nd returned shape %r' % (ernd.shape,))
        except Exception as e:
            # helpers of the non-diagonal term (no property speaks of them directly): a changed signature or a raise
            # here loses the c02.ernd correspondence, it is not by itself a failing input of the property
            rep.violation('helper/erfunc_nd/' + type(e).__name__, 'evolution.lambdaf / erfunc_nd(m, lamn, lamk, R) as cb1 calls '
                          'them: %r (%s)' % (e, 'raised inside the package' if in_real_code(e) else 'call rejected: signature changed?'),
                          dict(theory=info, zn=str(znd)), found_input=False)
        rfk = R ** (-lamk / b0)
        for n in range(2 if ernd is not None else 0):
            for a in range(2):
                for b in range(2):
                    lines.append(' '.join(['c02.ernd', f2hex(b0), f2hex(R)] + cx(lamn[a, n]) + cx(lamk[b])))
                    meta.append(dict(kind='ernd', info=info, code=[ernd[n, a, b], rfk[b]], tag=tag,
                                     scales=[max(1.0, abs(ernd[n, a, b])), abs(rfk[b])]))
        # LO coupling
        r2 = 10 ** rng.uniform(0, 4)
        lines.append(' '.join(['c02.aslo', f2hex(b0), f2hex(a0), f2hex(math.log(r2 / r20))]))
        meta.append(dict(kind='aslo', info=dict(info, r2=r2), code=qcd.as2pf(0, nf, r2, a0, r20), tag=tag))

        # calc_wce's combination E0 + as(muf) E1 (+ as(mur) c1 E0)
        want_nd = (scheme == 'msbar' and p == 1 and nwce_nd > 0)
        if nwce > 0 or want_nd:
            if want_nd:
                pc = 'DVCS'
                nwce_nd -= 1
            else:
                pc = rng.choice(['DIS', 'DVCS']) if scheme == 'csbar' else 'DIS'
                nwce -= 1
            wce = wilson.calc_wce(th, Q2, pc)
            for s, sh in enumerate([0, 2, 4]):
                ks = rng.sample(range(len(th.jpoints)), 3)
                j3 = th.jpoints[ks] + sh
                wc = wilson.calc_wc(th, th.jpoints + sh, pc)[ks]  # [k, p, i]; calc_wc needs the full contour
                Es = ev.evolop(th, j3, Q2, pc)
                Ens = ev.evolopns(th, j3, Q2, pc)
                for i, kq in enumerate(ks):
                    lines.append(' '.join(['c02.wce', f2hex(A), f2hex(A)] + cxs(wc[i, 0]) + cxs(wc[i, 1]) +
                                          cxs(Es[i, 0].reshape(-1)) + cxs(Es[i, 1].reshape(-1)) +
                                          cx(Ens[i, 0]) + cx(Ens[i, 1])))
                    sc = (np.abs(wc[i, 0, :2]) @ (np.abs(Es[i, 0]) + A * np.abs(Es[i, 1])) +
                          A * np.abs(wc[i, 1, :2]) @ np.abs(Es[i, 0])).max()
                    scn = abs(wc[i, 0, 2]) * (abs(Ens[i, 0]) + A * abs(Ens[i, 1])) + A * abs(wc[i, 1, 2] * Ens[i, 0])
                    meta.append(dict(kind='wce', info=dict(info, process_class=pc, pw_shift=sh, k=kq),
                                     code=wce[s, kq], scales=[sc, sc, max(scn, 1e-300)], tag=tag + '/' + pc))

        # ------------------------------------------------------------------ oracle streams (real code only)
        # O1: identity at the input scale, zero NLO part — also with the msbar non-diagonal term
        for pc in ('DIS', 'DVCS'):
            if pc == 'DVCS' and scheme == 'msbar' and p == 1 and not (done % 3 == 0):
                continue                                  # 96 inner points per j: every third theory
            E00 = ev.evolop(th, jj, Q02, pc)
            En0 = ev.evolopns(th, jn, Q02, pc)
            d0 = float(np.abs(E00[:, 0] - eye).max())
            d1 = float(np.abs(E00[:, 1]).max())
            dn0 = float(np.abs(En0[:, 0] - 1).max())
            dn1 = float(np.abs(En0[:, 1]).max())
            track('identity |E0-1|', max(d0, dn0))
            track('identity |E1|', max(d1, dn1))
            rep.case('oracle.identity', (tag, pc, Q02, a0, r20, tuple(idx)),
                     sample=dict(info, process_class=pc, dE0=d0, E1=d1, dE0ns=dn0, E1ns=dn1))
            rep.hist('identity.E1==0 exactly', bool(d1 == 0 and dn1 == 0))
            psc = max(1.0, float(np.abs(pr).max()))
            if not (d0 <= 1e-12 * psc and dn0 <= 1e-13):
                viol('identity/LO/' + tag, 'evolution to the input scale is not the identity: max|E0-1|=%g, NS %g '
                     '(%s, process_class=%s)' % (d0, dn0, info, pc), info, process_class=pc, j=[str(z) for z in jn])
            if not (d1 <= 1e-13 and dn1 <= 1e-13):
                viol('identity/NLO/' + tag + '/' + pc, 'NLO part of the operator at the input scale is not zero: '
                     'max|E1|=%g, NS %g (%s, process_class=%s)' % (d1, dn1, info, pc), info, process_class=pc,
                     j=[str(z) for z in jn])

        # O2: LO composition through an intermediate scale
        # the intermediate scale lies in the property's domain too (0 < as(Q1)/2pi <= 0.1)
        Q1 = None
        for _try in range(30):
            q_ = 10 ** rng.uniform(0, 4)
            try:
                a1_ = qcd.as2pf(p, nf, q_, a0, r20)
            except (OverflowError, ZeroDivisionError, ValueError):
                continue
            if 0 < a1_ <= 0.1:
                Q1 = q_
                break
        if Q1 is None:
            Q1 = Q2
        th1 = mk(p, nf, scheme, Q1, r20, a0)
        Ea = E[:, 0]
        Eb = ev.evolop(th, jj, Q1, 'DIS')[:, 0]
        Ec = ev.evolop(th1, jj, Q2, 'DIS')[:, 0]
        prod = np.einsum('kij,kjl->kil', Ec, Eb)
        sc = np.einsum('kij,kjl->kil', np.abs(Ec), np.abs(Eb)).max(axis=(1, 2))
        dcomp = float((np.abs(prod - Ea).max(axis=(1, 2)) / sc).max())
        Ena = En[:, 0]
        Enb = ev.evolopns(th, jn, Q1, 'DIS')[:, 0]
        Enc = ev.evolopns(th1, jn, Q2, 'DIS')[:, 0]
        dcompn = float((np.abs(Enc * Enb - Ena) / np.abs(Ena)).max())
        track('composition rel', max(dcomp, dcompn))
        rep.case('oracle.composition', (tag, Q02, Q1, Q2, a0, r20, tuple(idx)),
                 sample=dict(info, Q1=Q1, rel=dcomp, rel_ns=dcompn))
        if not (dcomp <= 1e-11 and dcompn <= 1e-11):
            viol('composition/' + tag, 'LO evolution Q02->Q1->Q2 differs from Q02->Q2 by %g (NS %g) relative; '
                 '%s, Q1=%r' % (dcomp, dcompn, info, Q1), info, Q1=Q1, j=[str(z) for z in jn])

        # O3: momentum sum at j=1 (second Mellin moment), diagonal operator
        km = len(jj) - 1
        cs0 = Eo[km, 0].sum(axis=0)
        cs1 = Eo[km, 1].sum(axis=0)
        dm0 = float(np.abs(cs0 - 1).max())
        e1sc = float(np.abs(Eo[km, 1]).sum(axis=0).max())
        dm1 = float(np.abs(cs1).max())
        # exact decomposition of the NLO column sum with the package's own objects:
        # (1,1)·E1 = −(1/β0) Σ_b er[c,b] ((1,1)·γ1) P_b R^(−λ_b/β0), c = the eigenvalue that is 0
        vg1 = gam1[km].sum(axis=0)
        c = int(np.argmin(np.abs(lam[:, km])))
        rfm = R ** (-lam[:, km] / b0)
        pred = -sum(er[km, c, b] * (vg1 @ pr[km, b]) * rfm[b] for b in range(2)) / b0
        dm1x = float(np.abs(cs1 - pred).max())
        track('momentum LO |sum-1|', dm0)
        if p == 1:
            track('momentum NLO |sum E1|/sum|E1|', dm1 / max(e1sc, 1e-300))
            track('momentum NLO decomposition residual/|E1|', dm1x / max(e1sc, 1e-6))
        track('ns first moment |E0-1|', abs(Eno[len(jn) - 1, 0] - 1))
        rep.case('oracle.momentum', (tag, Q02, Q2, a0, r20), sample=dict(info, sumE0_minus_1=dm0, sumE1=dm1,
                                                                         E1scale=e1sc))
        if not dm0 <= 1e-12:
            viol('momentum/LO/' + tag, 'second-moment LO operator does not conserve momentum: column sums %s (%s)' % (
                cs0, info_o), info_o, j='1')
        if p == 1:
            rep.hist('momentum.log10(|sumE1|/|E1|)', int(math.floor(math.log10(max(dm1 / max(e1sc, 1e-300), 1e-20)))))
            if not (dm1 <= 1e-6 * e1sc + 1e-13 and dm1x <= 1e-9 * max(e1sc, 1e-6)):
                viol('momentum/NLO/' + tag, 'NLO part of the second-moment operator does not sum to zero: column '
                     'sums %s, entries of size %g; residual against −(1/β0)Σ er·(colsum γ1)·P·R^(−λ/β0): %g (%s)' % (
                         cs1, e1sc, dm1x, info_o), info_o, j='1')
        # O4: first non-singlet moment (j=0) conserved at LO
        dns = abs(Eno[len(jn) - 1, 0] - 1)
        rep.case('oracle.ns-first-moment', (tag, Q02, Q2, a0, r20), sample=dict(info, dev=float(dns)))
        if not dns <= 1e-13:
            viol('ns-first-moment/' + tag, 'first non-singlet moment is not conserved at LO: E0_NS(j=0)=%r (%s)' % (
                Eno[len(jn) - 1, 0], info_o), info_o, j='0')

        # O5: projector algebra on the contour
        P0, P1 = pr[:, 0], pr[:, 1]
        psc = max(1.0, float(np.abs(pr).max())) ** 2
        dpr = dict(complete=float(np.abs(P0 + P1 - eye).max()),
                   idem=float(max(np.abs(P0 @ P0 - P0).max(), np.abs(P1 @ P1 - P1).max())),
                   orth=float(max(np.abs(P0 @ P1).max(), np.abs(P1 @ P0).max())),
                   spectral=float((np.abs(lam[0][:, None, None] * P0 + lam[1][:, None, None] * P1 - gam0).max(axis=(1, 2))
                                   / np.abs(gam0).max(axis=(1, 2))).max()))
        for name, v in dpr.items():
            track('projectors ' + name, v / psc)
        rep.case('oracle.projectors', (tag, tuple(idx)), sample=dict(nf=nf, j=str(jj[0]), **dpr))
        for name, v in dpr.items():
            if not v <= 1e-11 * psc:
                viol('projectors/' + name, 'projector algebra (%s) violated by %g at nf=%d, j in %s' % (
                    name, v, nf, [str(z) for z in jj]), dict(nf=nf), j=[str(z) for z in jj])

        # O6: RG equation by finite differences in L = ln mu^2
        L = math.log(Q2)
        h = 2e-3

        def Asf(l):
            return qcd.as2pf(p, nf, math.exp(l), a0, r20)

        def Etot(l):
            Q = math.exp(l)
            Ex = ev.evolop(th, jj, Q, pco)
            return Ex[:, 0] + (Asf(l) * Ex[:, 1] if p == 1 else 0)

        def Entot(l):
            Q = math.exp(l)
            Ex = ev.evolopns(th, jn, Q, pco)
            return Ex[:, 0] + (Asf(l) * Ex[:, 1] if p == 1 else 0)

        dE = fd4(Etot, L, h)
        dEn = fd4(Entot, L, h)
        Et = Eo[:, 0] + (A * Eo[:, 1] if p == 1 else 0)
        Ent = Eno[:, 0] + (A * Eno[:, 1] if p == 1 else 0)
        sc = (np.abs(gam0) @ np.abs(Eo[:, 0])).max(axis=(1, 2)) * A / 2
        scn = np.maximum(np.abs(g0n * Eno[:, 0]), 1.0) * A / 2
        if p == 0:
            res = float((np.abs(dE + (A / 2) * gam0 @ Et).max(axis=(1, 2)) / sc).max())
            resn = float((np.abs(dEn + (A / 2) * g0n * Ent) / scn).max())
            track('rg LO rel', max(res, resn))
            rep.case('oracle.rg-lo', (tag, Q02, Q2, a0, r20, tuple(idx)), sample=dict(info, rel=res, rel_ns=resn))
            if not (res <= 1e-8 and resn <= 1e-8):
                viol('rg/LO/' + tag, 'dE/dlnmu2 + (as/4pi) gamma0 E = %g (NS %g) relative to |as/4pi gamma0 E| at LO (%s)' % (
                    res, resn, info_o), info_o, j=[str(z) for z in jn])
        else:
            beta_pkg = b0 * A * A / 2 + b1 * A ** 3 / 4          # d(as/2pi)/dL from qcd.beta
            dA = fd4(Asf, L, h)
            resid = dE + ((A / 2) * gam0 + (A * A / 2) * gam1) @ Et
            residn = dEn + ((A / 2) * g0n + (A * A / 2) * g1n) * Ent
            # exact O(as^3) remainder (Props/C02.lean, rg_nlo): as^3 · [γ1 E1/2 − (β1/4) Σ_ab c_ab P_a r1 P_b]
            rem = 0.5 * gam1 @ Eo[:, 1]
            rf = R ** (-lam / b0)
            for a_ in range(2):
                for b_ in range(2):
                    D = b0 + lam[a_] - lam[b_]
                    eab = (1. / R) ** (D / b0)
                    cab = ((b0 - lam[b_]) + lam[a_] * eab) * rf[b_] / D
                    rem = rem - (b1 / 4) * cab[:, None, None] * r1proj[:, a_, b_]
            r1n = (g1n - 0.5 / b0 * b1 * g0n) / b0
            rfn = R ** (-g0n / b0)
            remn = 0.5 * g1n * Eno[:, 1] - (b1 / 4) * ((b0 - g0n) + g0n / R) / b0 * rfn * r1n
            # as a function of the coupling (removes the RK4 error of as2pf, which is C15's subject)
            if dA == 0 or dA != dA:
                # the coupling does not run at this scale: nothing to divide by; the comparison along the package's
                # coupling (x_l below) decides
                viol('rg/NLO/coupling-frozen/' + tag, 'qcd.as2pf(p=1) does not change with the scale around Q2=%g '
                     '(d as/dlnQ2 = %r by finite differences, beta function gives %g): the operator cannot satisfy '
                     'the RG equation (%s)' % (Q2, dA, beta_pkg, info), info)
                continue
            resid_c = dE * (beta_pkg / dA) + ((A / 2) * gam0 + (A * A / 2) * gam1) @ Et
            residn_c = dEn * (beta_pkg / dA) + ((A / 2) * g0n + (A * A / 2) * g1n) * Ent
            x_c = float((np.abs(resid_c - A ** 3 * rem).max(axis=(1, 2)) / sc).max())
            xn_c = float((np.abs(residn_c - A ** 3 * remn) / scn).max())
            x_l = float((np.abs(resid - A ** 3 * rem).max(axis=(1, 2)) / sc).max())
            xn_l = float((np.abs(residn - A ** 3 * remn) / scn).max())
            ratio = float((np.abs(resid).max(axis=(1, 2)) / sc).max())
            track('rg NLO mismatch vs proved remainder (beta-function derivative)', max(x_c, xn_c))
            track('rg NLO mismatch vs proved remainder (RK4 coupling)', max(x_l, xn_l))
            track('rg NLO |residual|/|a gamma0 E| (the O(as^3) term)', ratio)
            rep.case('oracle.rg-nlo', (tag, Q02, Q2, a0, r20, tuple(idx)),
                     sample=dict(info, resid_over_LOterm=ratio, exact_remainder_mismatch=x_c, ns=xn_c,
                                 with_rk4_coupling=x_l))
            rep.hist('rg-nlo.log10(resid/(as^2·LOterm))', int(math.floor(math.log10(max(ratio / A ** 2, 1e-20)))))
            if not (x_c <= 1e-7 and xn_c <= 1e-7 and x_l <= 2e-4 and xn_l <= 2e-4):
                viol('rg/NLO/' + tag, 'dE/dlnmu2 + (a γ0 + 2a² γ1)E (a=as/4pi) is not the O(as³) remainder: mismatch %g '
                     '(NS %g) relative to |a γ0 E|; with the RK4 coupling %g (NS %g) (%s)' % (
                         x_c, xn_c, x_l, xn_l, info_o), info_o, j=[str(z) for z in jn])

    rep.coverage['theories'] = done
    rep.coverage['theory_draws'] = attempts
    if done < max(8, ntheories // 8):
        # nearly every draw fell outside 0 < as(Q2)/2pi <= 0.1 (on the pinned tree 1-3 % of the draws do): the couplings the
        # package computes are off, or the generator is; either way the run has not exercised the property
        rep.violation('coverage/too-few-theories', 'only %d of %d drawn theories have 0 < as(Q2)/2pi <= 0.1 and 0 < as(Q02)/2pi < 1 '
                      'according to qcd.as2pf (skipped: %s): the oracle streams ran on too few cases' % (
                          done, attempts, rep.coverage.get('distribution', {}).get('skipped', {})),
                      dict(done=done, attempts=attempts), found_input=False)

    reuse_stream()
    exact_scale_stream()
    rep.coverage['worst_oracle_values'] = {k: float('%.3g' % v) for k, v in sorted(worst_o.items())}

    # ---------------------------------------------------------------------- model vs code
    try:
        out = common.run_driver(lines)
    except common.ModelUnavailable as ex:
        # the oracle streams above have evaluated the property on the real code; what is lost is the correspondence
        rep.coverage['model_unavailable'] = str(ex)[:500]
        rep.violation('model-unavailable', 'the executable model of C02 could not be built (%s): the model-vs-code comparison '
                      'did not run; the oracle streams did' % str(ex)[:300], dict(detail=str(ex)[:1000]), found_input=False)
        out = []
    worst = {}
    for line, m, o in zip(lines, meta, out):
        kind = m['kind']
        if o == 'bad-op':
            rep.violation('driver/' + kind, 'driver rejected a protocol line', dict(protocol_line=line), found_input=False)
            continue
        if kind == 'aslo':
            model = [hex2f(o)]
            code = [m['code']]
            scales = [abs(m['code'])]
            tol = 1e-14
        else:
            model = parse_cx(o.split())
            code = list(np.asarray(m['code']).reshape(-1))
            scales = m['scales']
            tol = TOL
        rep.case(kind, line, sample=dict(m['info'], j=str(m.get('j', ''))))
        bad = None
        for i, (c_, m_, s_) in enumerate(zip(code, model, scales)):
            c_ = complex(c_)
            if c_ == m_:
                continue
            e = abs(c_ - m_) / max(s_, abs(c_), 1e-300)
            worst[kind] = max(worst.get(kind, 0.0), e if e == e else float('inf'))
            if not e <= tol:
                bad = (i, c_, m_, e)
                break
        if len(code) != len(model):
            bad = ('length', len(code), len(model), 0)
        if bad:
            # the property itself is evaluated on the real code by the oracle streams above for this very
            # theory; a pure model/code disagreement therefore carries no failing input of the property
            rep.violation('model/%s/%s' % (kind, m['tag']),
                          'model and code disagree on %s (component %s: code %r, model %r, rel %g) for %s' % (
                              kind, bad[0], bad[1], bad[2], bad[3], m['info']),
                          dict(theory=m['info'], j=str(m.get('j', '')), protocol_line=line, component=bad[0],
                               code=str(bad[1]), model=str(bad[2])), found_input=False)
    rep.coverage['worst_model_vs_code'] = {k: float('%.3g' % v) for k, v in worst.items()}

    if not ok and not rep.violations:
        rep.violation('lean', 'Lean side of C02 no longer checks: ' + why, dict(reason=why), found_input=False)
    rep.assumptions += [
        'model vs code: 1e-9 relative to the sum of absolute values of the terms (complex division, np.sqrt, '
        'complex power and einsum summation order differ from the model only by rounding)',
        'theories: nf∈{3,4,5}, p∈{0,1}, scheme∈{msbar,csbar}, Q0²∈[1,10], Q²∈[1,1e4], as(r20)/2π∈[0.005,0.08], '
        'r20∈[1,10]; skipped unless 0<as(Q²)/2π≤0.1 and 0<as(Q0²)/2π<1',
        'reference couplings: asp[p] = a0, the entries of the other orders are 1.17·a0 / 0.85·a0 / 0.8·a0 (never read at order p)',
        're-use stream: bitwise equality with a fresh object built from the same values (the operator is a function of '
        'the current attribute values; same arithmetic, same order); exact-scale stream: as(Q02 = r20) = asp[p] by definition '
        'of the reference coupling, LO operator = exp(−(γ0/β0) ln R) to 1e-10 of exp(|γ0|/β0·|ln R|) (scipy.linalg.expm)',
        'singlet operator at j=0 is not evaluated: γ0_GQ has its pole there (numpy returns nan); j=0 enters '
        'through the non-singlet operator only',
        'momentum sum and RG equation use the diagonal operator (process_class="DIS"; identical to "DVCS" for '
        'csbar): the msbar non-diagonal term stored at j feeds the higher moments, not the j-th one',
        'NLO momentum sum: |Σ_i E1_ij| ≤ 1e-6·Σ_i|E1_ij| (the package\'s γ1(n=2) column sums vanish to ~1e-7, '
        'property C03) and equals its exact expression in colsum(γ1) to 1e-9',
        'RG: 4th-order central difference, h=2e-3 in ln μ²; LO 1e-8 of |a γ0 E|; NLO: residual equals the '
        'proved a³-remainder to 1e-7 when the derivative is taken along the package\'s β function, 2e-4 along '
        'the RK4 coupling (its stated accuracy, property C15)']
    rep.notes += ['oracle.* streams evaluate the property on the real code; they support the theorems of '
                  'Props/C02.lean and do not replace them',
                  'cb1 (msbar non-diagonal term) is modelled through its R-dependent prefactor only '
                  '(erfunc_nd entry · (λn−λk) · R^(−λk/β0)/β0); its value is checked on the real code only at R=1']
    return rep.finish(level='proof',
                      checker_cmd='lake build Props.C02; #print axioms; gepdriver c02.* vs gepard.evolution / qcd / wilson',
                      trusted=['Lean 4.33 kernel + Mathlib', 'Scalar/Evol.lean.in instantiated at Float and ℝ (same text)',
                               'γ0, γ1 (gepard.adim), β0, β1 (qcd.beta), R (qcd.as2pf), Wilson coefficients and the '
                               'R-independent part of cb1 are parameters of the model',
                               'identification Cx ℝ ≅ ℂ (Proofs/Evol.lean, toC) used to state the derivative',
                               'harness/props/C02.py'])


def replay(path):
    print(open(path).read()[:4000])
    return 0

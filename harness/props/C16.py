"""C16 — special functions equal their mathematical definitions on the domain used.

Lean: Props/C16.lean (theorems over ℝ / ℂ about Gen/SpecialR.lean, the ℝ instance of
Scalar/Special.lean.in).  The Float instance of the same text runs in the driver.

Streams
  corr.*      gepard.special.<f> at scalar and array complex arguments (domain −0.9 ≤ Re z ≤ 60,
              |Im z| ≤ 500 away from poles, integers 1..200, m in 1..12, several array shapes) versus
              the Float model, with scipy psi / zeta / euler_gamma / log 2 fed to the model as data.
  oracle.*    the property evaluated directly on the REAL code against mpmath (what no theorem
              carries: accuracy of the asymptotic series and of the 8-term MellinF2 fit, scipy's psi):
              polygamma / harmonic sums, Γ(z+m)/Γ(z), quadrature of x^(n−1) Li2(x)/(1+x), finite sums
              at integers, recurrence across the branch boundaries Re z = 10, Im z = ±10, conjugation
              symmetry, element-wise action on arrays.  These support the theorems, never replace them.
"""
import math
import time
import warnings

import common
from common import f2hex, hex2f

TOL = 1e-12          # model vs code, and code vs mpmath where the property gives no own accuracy
TOL_ELEM = 1e-14     # f(array)[i] vs f(array[i]) (numpy may use SIMD kernels on arrays)
FUEL = 400           # the model's recursion bound for `while z.real < 10` (≥ 10 − Re z)
POLE_DIST = 0.05


# --------------------------------------------------------------------------------------------
# the real code
# --------------------------------------------------------------------------------------------

def real_call(sp, np, fn, extra, arg):
    """call gepard.special.<fn>; returns list of complex (flattened) or an exception name"""
    with warnings.catch_warnings():
        warnings.simplefilter('ignore')
        with np.errstate(all='ignore'):
            try:
                if fn == 'dpsi':
                    out = sp.dpsi(arg, extra)
                elif fn == 'poch':
                    out = sp.pochhammer(arg, extra)
                elif fn in ('S2_prime', 'S3_prime', 'S2_tilde', 'deldelS2'):
                    out = getattr(sp, fn)(arg, extra)
                else:
                    out = getattr(sp, fn)(arg)
            except ZeroDivisionError:
                return 'ZeroDivisionError'
            except Exception as e:  # noqa: BLE001
                return 'EXC:' + type(e).__name__
    return [complex(x) for x in np.asarray(out).ravel()]


# --------------------------------------------------------------------------------------------
# the model side: constants and psi table
# --------------------------------------------------------------------------------------------

def psi_args(fn, z):
    """arguments at which the model asks for psi, computed with the model's float operations"""
    zr, zi = z.real, z.imag
    if fn == 'S1':
        return [complex(zr + 1.0, zi + 0.0)]
    if fn == 'MellinF2':
        return [z]
    if fn == 'SB3':
        c = complex(0.5 * (-1.0 + zr), 0.5 * (0.0 + zi))
        b = complex(0.5 * zr, 0.5 * zi)
        return [complex(zr + 1.0, zi + 0.0), complex(c.real + 1.0, c.imag + 0.0),
                complex(b.real + 1.0, b.imag + 0.0), complex(1.0 + zr, 0.0 + zi)]
    if fn == 'S2_tilde':
        return [complex((zr + 1.0) / 2.0, (zi + 0.0) / 2.0), complex(zr / 2.0, zi / 2.0),
                complex(zr + 1.0, zi + 0.0), z]
    return []


class Consts:
    def __init__(self, sp, np):
        from scipy.special import psi, zeta
        self.psi = psi
        self.z2, self.z3, self.z4 = float(zeta(2)), float(zeta(3)), float(zeta(4))
        self.eg, self.l2 = float(np.euler_gamma), math.log(2)

    def prefix(self, fn, zs):
        pts = []
        for z in zs:
            for a in psi_args(fn, z):
                if a not in pts:
                    pts.append(a)
        toks = [f2hex(self.z2), f2hex(self.z3), f2hex(self.z4), f2hex(self.eg), f2hex(self.l2),
                str(FUEL), str(len(pts))]
        with warnings.catch_warnings():
            warnings.simplefilter('ignore')
            for a in pts:
                v = complex(self.psi(a))
                toks += [f2hex(a.real), f2hex(a.imag), f2hex(v.real), f2hex(v.imag)]
        return toks


def model_line(C, fn, extra, zs):
    toks = ['c16.' + fn] + C.prefix(fn, zs)
    if fn in ('dpsi', 'poch'):
        toks.append(str(int(extra)))
    elif fn in ('S2_prime', 'S3_prime', 'S2_tilde'):
        toks.append(f2hex(float(extra)))
    elif fn == 'deldelS2':
        k = complex(extra)
        toks += [f2hex(k.real), f2hex(k.imag)]
    for z in zs:
        toks += [f2hex(z.real), f2hex(z.imag)]
    return ' '.join(toks)


def parse_model(out):
    t = out.split()
    res, i = [], 0
    while i < len(t):
        if t[i] == 'ok':
            res.append(complex(hex2f(t[i + 1]), hex2f(t[i + 2])))
            i += 3
        else:
            res.append(t[i])
            i += 1
    return res


def cerr(a, b, scale=0.0):
    if a == b:
        return 0.0
    if a != a or b != b:
        return float('inf')
    d = max(abs(a), abs(b), scale)
    if d == 0 or d != d or d == float('inf'):
        return float('inf')
    return abs(a - b) / d


# --------------------------------------------------------------------------------------------
# mpmath references (the mathematical definitions)
# --------------------------------------------------------------------------------------------

class Ref:
    def __init__(self):
        import mpmath
        self.mp = mpmath.mp
        self.mpmath = mpmath
        self.mp.dps = 30
        self._delta = None

    def c(self, z):
        return self.mp.mpc(z.real, z.imag)

    def S(self, k, z):
        mp = self.mp
        if k == 1:
            return mp.euler + mp.digamma(z + 1)
        sign = 1 if k % 2 == 1 else -1
        return mp.zeta(k) + sign * mp.polygamma(k - 1, z + 1) / mp.factorial(k - 1)

    def delS2(self, z):
        return self.S(2, z) - self.S(2, z - mp_half(self.mp))

    def mellin_quad(self, n):
        """∫_0^1 x^(n−1) Li2(x)/(1+x) dx, as ∫_0^∞ e^(−n t) Li2(e^−t)/(1+e^−t) dt with the
        interval cut at the periods of the oscillation"""
        mp = self.mp
        f = lambda t: mp.exp(-n * t) * mp.polylog(2, mp.exp(-t)) / (1 + mp.exp(-t))
        T = 45 / (mp.re(n) + 1)            # e^{-(Re n + 1) T} < 3e-20
        w = abs(mp.im(n))
        if w < 1:
            pts = [0, T / 8, T / 2, T]
        else:
            step = 3 * mp.pi / w
            npts = int(T / step) + 1
            pts = [i * step for i in range(npts)] + [T]
        with mp.workdps(20):
            return mp.quad(f, pts)

    def mellin_series(self, n, N=44):
        """the same transform from the exact moments of Li2: Σ_k (−1)^k [ζ2/(n+k) − S1(n+k)/(n+k)^2],
        summed with the Cohen–Rodriguez Villegas–Zagier acceleration for moment sequences
        (error ≈ 5.8^−N · ∫x^(Re n−1)Li2(x)dx); cross-checked against quadrature in oracle.mellin_quad"""
        mp = self.mp
        z2 = mp.zeta(2)
        d = (3 + mp.sqrt(8)) ** N
        d = (d + 1 / d) / 2
        b, c, s = mp.mpf(-1), -d, 0
        for k in range(N):
            c = b - c
            s += c * (z2 / (n + k) - (mp.euler + mp.digamma(n + k + 1)) / (n + k) ** 2)
            b = (k + N) * (k - N) * b / ((k + mp.mpf(1) / 2) * (k + 1))
        return s / d

    def delta_over_x(self, abk):
        """sup over (0,1] of |log(1+x) − Σ a_k x^k| / x for the 8-term fit used by MellinF2"""
        if self._delta is None:
            mp = self.mp
            best = mp.mpf(0)
            N = 4000
            for i in range(1, N + 1):
                x = mp.mpf(i) / N
                d = abs(mp.log(1 + x) - sum(mp.mpf(a) * x ** (k + 1) for k, a in enumerate(abk))) / x
                best = max(best, d)
            self._delta = best * mp.mpf('1.02')     # grid margin
        return self._delta

    def mellin_bound(self, n, abk):
        """|MellinF2(n) − exact| ≤ sup|δ(x)/x| · ∫ x^(Re n −1) (|n−1| Li2(x) + |log(1−x)|) dx,
        δ = log(1+x) − Σ a_k x^k (integration by parts of the defining integral)"""
        mp = self.mp
        p = mp.re(n)
        h = lambda q: mp.euler + mp.digamma(q + 1)
        if abs(p) < 1e-9:
            p = mp.mpf('1e-9')
        iLi = mp.zeta(2) / p - h(p) / p ** 2
        iLog = h(p) / p
        return self.delta_over_x(abk) * (abs(n - 1) * iLi + iLog)


def mp_half(mp):
    return mp.mpf(1) / 2


def ref_value(R, fn, extra, z):
    """the mathematical definition at z (mpmath, 30 digits); MellinF2 by the exact series (cross-
    checked against quadrature in the oracle.mellin stream)"""
    mp = R.mp
    w = R.c(z)
    if fn == 'dpsi':
        return mp.polygamma(int(extra), w)
    if fn == 'poch':
        return mp.rf(w, int(extra))
    if fn in ('S1', 'S2', 'S3', 'S4'):
        return R.S(int(fn[1]), w)
    if fn in ('S2_prime', 'S3_prime'):
        k = int(fn[1])
        p = int(extra)
        return (1 + p) * R.S(k, w) / 2 + (1 - p) * R.S(k, w - mp_half(mp)) / 2
    if fn == 'delS2':
        return R.delS2(w)
    if fn == 'deldelS2':
        k = R.c(complex(extra))
        return (R.delS2(w) - R.delS2(k)) / (4 * (w - k) * (2 * w + 2 * k + 1))
    if fn == 'MellinF2':
        return R.mellin_series(w)
    if fn == 'S2_tilde':
        G = mp.digamma((w + 1) / 2) - mp.digamma(w / 2)
        return -mp.mpf(5) / 8 * mp.zeta(3) + int(extra) * (R.S(1, w) / w ** 2 - mp.zeta(2) / 2 * G + R.mellin_series(w))
    if fn == 'SB3':
        a, b = (w - 1) / 2, w / 2
        return (R.S(1, w) / 2 * (R.S(2, b) - R.S(2, a)) + (R.S(3, b) - R.S(3, a)) / 8
                - 2 * (mp.zeta(2) / 2 * (R.S(1, b) - R.S(1, a)) - R.mellin_series(1 + w)))
    raise KeyError(fn)


def ref_tol(R, sp, fn, extra, z, ref):
    """allowed |code − definition|: 1e-12 relative (with a scale where terms cancel) plus, for the
    functions built on MellinF2, the rigorous error bound of the 8-term fit"""
    mp = R.mp
    w = R.c(z)
    abk = ABK
    scale = abs(ref)
    extra_abs = 0
    if fn in ('S1', 'S2', 'S3', 'S4', 'S2_prime', 'S3_prime', 'delS2'):
        scale = max(scale, 1)
    elif fn == 'dpsi':
        # dpsi(., m) enters the property only through S_(m+1) = ζ(m+1) ± dpsi/m!, an O(1) quantity
        scale = max(scale, math.factorial(int(extra)))
    elif fn == 'deldelS2':
        # (S2(j) − S2(j−½) − S2(k) + S2(k−½)) / den: four O(1) terms cancel
        k = R.c(complex(extra))
        h = mp_half(mp)
        scale = max(scale, (abs(R.S(2, w)) + abs(R.S(2, w - h)) + abs(R.S(2, k)) + abs(R.S(2, k - h)))
                    / abs(4 * (w - k) * (2 * w + 2 * k + 1)))
    elif fn == 'MellinF2':
        scale = max(scale, 1)
        extra_abs = R.mellin_bound(w, abk)
    elif fn == 'S2_tilde':
        scale = max(scale, 1, abs(R.S(1, w) / w ** 2))
        extra_abs = R.mellin_bound(w, abk)
    elif fn == 'SB3':
        scale = max(scale, 1, abs(R.S(1, w)))
        extra_abs = 2 * R.mellin_bound(1 + w, abk)
    return float(TOL * scale + extra_abs)


ABK = [0.9999964239, -0.4998741238, 0.3317990258, -0.2407338084, 0.1676540711,
       -0.0953293897, 0.0360884937, -0.0064535442]


# --------------------------------------------------------------------------------------------
# generators
# --------------------------------------------------------------------------------------------

# dpsi_one is entered at a*z + b for these (a, b): used to aim at its branch boundaries
DPSI_MAPS = {
    'dpsi': [(1.0, 0.0)], 'S2': [(1.0, 1.0)], 'S3': [(1.0, 1.0)], 'S4': [(1.0, 1.0)],
    'S2_prime': [(1.0, 1.0), (1.0, 0.5)], 'S3_prime': [(1.0, 1.0), (1.0, 0.5)],
    'delS2': [(1.0, 1.0), (1.0, 0.5)], 'deldelS2': [(1.0, 1.0), (1.0, 0.5)],
    'SB3': [(0.5, 0.5), (0.5, 1.0)],
}


def poles(fn, extra):
    """points of the domain strip Re z ≥ −0.9 where the function (or a piece of it) has a pole"""
    if fn in ('dpsi', 'MellinF2', 'S2_tilde'):
        return [0j]
    if fn in ('S2_prime', 'S3_prime', 'delS2'):
        return [-0.5 + 0j]
    if fn == 'deldelS2':
        k = complex(extra)
        return [-0.5 + 0j, k, -k - 0.5]
    return []


EPS = [0.0, 2e-15, -2e-15, 1e-9, -1e-9, 1e-3, -1e-3, 0.3, -0.3]


def gen_z(rng, fn, extra=None):
    for _ in range(100):
        r = rng.random()
        if r < 0.30:
            z = complex(rng.uniform(-0.9, 60), rng.uniform(-500, 500))
        elif r < 0.55:
            z = complex(rng.uniform(-0.9, 15), rng.uniform(-15, 15))
        elif r < 0.80 and fn in DPSI_MAPS:
            a, b = rng.choice(DPSI_MAPS[fn])
            kind = rng.random()
            tre = 10 + rng.choice(EPS) if kind < 0.7 else rng.uniform(-0.9, 30)
            tim = rng.choice([10, -10]) + rng.choice(EPS) if kind > 0.3 else rng.uniform(-30, 30)
            z = complex((tre - b) / a, tim / a)
        elif r < 0.90:
            z = complex(rng.uniform(-0.9, 60), rng.choice([0.0, 0.0, 1e-12, -1e-12, 1e-3]))
        else:
            z = complex(rng.randint(1, 200), 0.0)
        if not (-0.9 <= z.real <= 60 and abs(z.imag) <= 500):
            continue
        if any(abs(z - p) < POLE_DIST for p in poles(fn, extra)):
            continue
        if fn == 'deldelS2':
            k = complex(extra)
            if abs(2 * z + 2 * k + 1) < POLE_DIST:
                continue
        return z
    return complex(1.7, 3.7)


def gen_extra(rng, fn):
    if fn == 'dpsi':
        return rng.choice([1, 1, 2, 2, 3, 3, 4, 5, 6])
    if fn == 'poch':
        return rng.randint(1, 12)
    if fn in ('S2_prime', 'S3_prime', 'S2_tilde'):
        return rng.choice([1, -1])
    if fn == 'deldelS2':
        r = rng.random()
        if r < 0.6:
            return rng.randint(0, 20) / 2.0          # k/2, (k+2)/2 for integer k as in c1dvmp
        return complex(rng.uniform(-0.3, 12), rng.uniform(-8, 8))
    return None


SHAPES = [(1,), (2,), (3,), (7,), (2, 3), (3, 1, 2), (1, 1), (4, 2)]
FNS = ['dpsi', 'poch', 'S1', 'S2', 'S3', 'S4', 'S2_prime', 'S3_prime', 'delS2', 'deldelS2',
       'MellinF2', 'SB3', 'S2_tilde']


def scale_for(sp, np, fn, extra, z, strict=False):
    """comparison scale: O(1) terms are added in all S-type functions; deldelS2 is a difference of
    four S2 values divided by 4(j−k)(2j+2k+1); dpsi(., m) enters the property through dpsi/m! added
    to ζ(m+1) (strict=True: pure relative, used for model vs code, which run the same algorithm)"""
    if fn == 'poch' or (fn == 'dpsi' and strict):
        return 0.0
    if fn == 'dpsi':
        return float(math.factorial(int(extra)))
    if fn == 'deldelS2':
        k = complex(extra)
        with warnings.catch_warnings():
            warnings.simplefilter('ignore')
            t = sum(abs(complex(sp.S2(w))) for w in (z, z - 0.5, k, k - 0.5))
        return t / abs(4 * (z - k) * (2 * z + 2 * k + 1))
    if fn in ('MellinF2', 'S2_tilde', 'SB3'):
        # MellinF2(n) forms psi(n) + 1/n (two terms of size 1/|n| cancelling) and divides by n^2
        n = z + 1 if fn == 'SB3' else z
        return max(1.0, abs(n) ** -3)
    return 1.0


# --------------------------------------------------------------------------------------------

def run(rep):
    import numpy as np
    import gepard.special as sp
    rng = rep.rng
    ok, why = common.lean_side(rep, 'C16')
    quick = rep.tier == 'quick'
    C = Consts(sp, np)
    R = Ref()
    timing = {}
    t0 = time.time()
    mp = R.mp
    if list(ABK) != [float(a) for a in ABK]:
        raise RuntimeError('abk')

    def report_vs_ref(stream, fn, extra, z, val, what_model=None, line=None):
        """the property on the real code at one input; returns True when it holds"""
        try:
            ref = ref_value(R, fn, extra, z)
            tol = ref_tol(R, sp, fn, extra, z, ref)
        except Exception as e:  # noqa: BLE001
            rep.notes.append('reference failed at %s(%r,%r): %r' % (fn, z, extra, e))
            return True
        if isinstance(val, str):
            bad = True
            dev = val
        else:
            dev = float(abs(R.c(val) - ref))
            bad = not (dev <= tol)
        if bad:
            rep.violation('%s/%s/accuracy' % (stream.split('.')[0], fn),
                          'gepard.special.%s(%r%s) = %r but the definition gives %s (|diff| %s > allowed %.3g)%s'
                          % (fn, z, '' if extra is None else ', %r' % (extra,), val, mp.nstr(ref, 17), dev, tol,
                             '' if what_model is None else '; model: %r' % (what_model,)),
                          dict(function=fn, z=[z.real, z.imag], extra=str(extra), code=str(val),
                               reference=mp.nstr(ref, 20), allowed=tol, protocol_line=line,
                               reproduce='import gepard.special as s; s.%s(complex(%r,%r)%s)' % (
                                   'pochhammer' if fn == 'poch' else fn, z.real, z.imag,
                                   '' if extra is None else ', %r' % (extra,))),
                          found_input=True)
        return not bad

    # =========================== corr: model vs code ===========================
    cases = []
    ncorr = 3000 if quick else 40000
    for i in range(ncorr):
        fn = FNS[i % len(FNS)] if i < 20 * len(FNS) else rng.choice(FNS)
        extra = gen_extra(rng, fn)
        r = rng.random()
        if r < 0.45:
            mode, shape = 'scalar', ()
            zs = [gen_z(rng, fn, extra)]
        else:
            mode, shape = 'array', rng.choice(SHAPES)
            n = 1
            for s in shape:
                n *= s
            zs = [gen_z(rng, fn, extra) for _ in range(n)]
        cases.append((fn, extra, mode, shape, zs, None))
    # integers 1..200 for every function, as complex, float and int arguments
    ints = list(range(1, 201)) if not quick else sorted(rng.sample(range(1, 201), 40) + [1, 2, 9, 10, 11, 200])
    for fn in FNS:
        extra = gen_extra(rng, fn)
        if fn == 'deldelS2':
            extra = 0.5
        for n in ints:
            if any(abs(n - p) < POLE_DIST for p in poles(fn, extra)):
                continue
            cases.append((fn, extra, 'scalar', (), [complex(n, 0.0)], rng.choice(['complex', 'float', 'int'])))
    # error branch: dpsi_one reaches z = 0 from a non-positive integer (outside the property's domain,
    # inside the model's): ZeroDivisionError
    for fn, z in [('dpsi', 0j), ('dpsi', -3 + 0j), ('S2', -1 + 0j), ('S3', -2 + 0j), ('S4', -1 + 0j),
                  ('delS2', -0.5 + 0j)]:
        cases.append((fn, gen_extra(rng, fn), 'scalar', (), [z], 'complex'))
        cases.append((fn, gen_extra(rng, fn), 'array', (2,), [1.5 + 1j, z], None))

    lines, meta = [], []
    for fn, extra, mode, shape, zs, pytype in cases:
        if mode == 'scalar':
            z = zs[0]
            if pytype == 'int':
                arg = int(z.real)
            elif pytype == 'float':
                arg = float(z.real)
            else:
                arg = z
        else:
            arg = np.array(zs, dtype=complex).reshape(shape)
        impl = real_call(sp, np, fn, extra, arg)
        lines.append(model_line(C, fn, extra, zs))
        meta.append(dict(fn=fn, extra=extra, mode=mode, shape=shape, zs=zs, impl=impl, pytype=pytype))

    try:
        out = common.run_driver(lines)
    except common.ModelUnavailable as ex:
        # no model: the correspondence cannot be compared; every oracle stream below evaluates the property on the real
        # code against mpmath and runs regardless
        out = []
        rep.violation('model-unavailable', 'the Lean model of C16 could not be run (%s): gepard.special.* was not compared with it; '
                      'the oracle streams ran' % str(ex)[:300], dict(reason=str(ex)[:300]), found_input=False)
    worst = {}
    searched = {}
    for line, m, o in zip(lines, meta, out):
        fn, extra, zs, impl = m['fn'], m['extra'], m['zs'], m['impl']
        model = parse_model(o) if o != 'bad-op' else 'bad-op'
        stream = 'corr.' + fn
        rep.case(stream, line, sample=dict(fn=fn, extra=str(extra), mode=m['mode'], shape=list(m['shape']),
                                           z=[str(z) for z in zs[:2]], impl=str(impl)[:80]))
        rep.hist('corr.mode', m['mode'] + ('' if m['mode'] == 'array' else ':' + str(m['pytype'] or 'complex')))
        for z in zs:
            rep.hist('corr.region', region(z))
        agree = True
        detail = ''
        if model == 'bad-op' or len(model) != len(zs):
            agree, detail = False, 'driver answered %r' % (o[:80],)
        elif isinstance(impl, str):
            agree = impl == 'ZeroDivisionError' and 'ZeroDivisionError' in model
            detail = 'code raised %s, model %r' % (impl, model)
        elif any(isinstance(v, str) for v in model):
            agree, detail = False, 'code returned values, model %r' % ([v for v in model if isinstance(v, str)][:1],)
        elif len(impl) != len(model):
            agree, detail = False, 'code returned %d values for %d elements' % (len(impl), len(model))
        else:
            for z, a, b in zip(zs, impl, model):
                e = cerr(a, b, scale_for(sp, np, fn, extra, z, strict=True))
                worst[fn] = max(worst.get(fn, 0.0), e)
                if not e <= TOL:
                    agree = False
                    detail = 'at z=%r code %r model %r (err %.3g)' % (z, a, b, e)
                    break
        if agree:
            continue
        # a disagreement is not a violation: evaluate the property itself on the real code
        # (at most 40 reference evaluations per function, so that a systematic mismatch stays cheap)
        found = False
        if not isinstance(impl, str):
            for z, a in zip(zs, impl):
                if searched.get(fn, 0) >= 40:
                    break
                searched[fn] = searched.get(fn, 0) + 1
                if not report_vs_ref(stream, fn, extra, z, a, what_model=detail, line=line):
                    found = True
                    break
        else:
            inside = all(-0.9 <= z.real and all(abs(z - p) >= POLE_DIST for p in poles(fn, extra)) for z in zs)
            if inside and fn not in ('dpsi',):
                found = True
                rep.violation('corr/%s/raises' % fn, 'gepard.special.%s raises %s inside the domain at %r' % (fn, impl, zs),
                              dict(function=fn, zs=[[z.real, z.imag] for z in zs], extra=str(extra), protocol_line=line),
                              found_input=True)
        if not found:
            rep.violation('corr/%s/model-mismatch' % fn,
                          'model and code disagree for %s (extra=%r, %s): %s — the code agrees with the mpmath '
                          'definition there' % (fn, extra, m['mode'], detail),
                          dict(function=fn, zs=[[z.real, z.imag] for z in zs], extra=str(extra), protocol_line=line,
                               impl=str(impl)[:400], model=str(model)[:400]), found_input=False)
    timing['corr'] = round(time.time() - t0, 1)
    rep.coverage['corr_worst_relerr'] = {k: float('%.3g' % v) for k, v in sorted(worst.items())}

    # =========================== oracle streams (real code only) ===========================
    # -- accuracy against the definitions
    t0 = time.time()
    nacc = 1500 if quick else 12000
    worst_acc = {}
    dpsi_rel = {}
    for i in range(nacc):
        fn = FNS[i % len(FNS)]
        if fn in ('MellinF2', 'SB3', 'S2_tilde') and quick and rng.random() < 0.5:
            fn = rng.choice(['dpsi', 'S2', 'S3', 'S4'])
        extra = gen_extra(rng, fn)
        if fn == 'dpsi':
            extra = rng.choice([1, 2, 3])          # the orders S2..S4 use
        z = gen_z(rng, fn, extra)
        v = real_call(sp, np, fn, extra, z)
        val = v if isinstance(v, str) else v[0]
        rep.case('oracle.accuracy.' + fn, (fn, extra, z), sample=dict(fn=fn, extra=str(extra), z=str(z), value=str(val)))
        rep.hist('oracle.accuracy.region', region(z))
        if report_vs_ref('oracle.accuracy', fn, extra, z, val) and not isinstance(val, str):
            ref = ref_value(R, fn, extra, z)
            tol = ref_tol(R, sp, fn, extra, z, ref)
            worst_acc[fn] = max(worst_acc.get(fn, 0.0), float(abs(R.c(val) - ref)) / tol)
            if fn == 'dpsi':
                rel = float(abs(R.c(val) - ref) / abs(ref))
                if rel > dpsi_rel.get(extra, (0.0, None))[0]:
                    dpsi_rel[extra] = (rel, str(z))
    timing['oracle.accuracy'] = round(time.time() - t0, 1)
    rep.coverage['dpsi_pure_relative_error_worst_by_m'] = {str(k): ['%.3g' % v[0], v[1]] for k, v in sorted(dpsi_rel.items())}
    rep.coverage['oracle_accuracy_worst_fraction_of_allowed'] = {k: float('%.3g' % v) for k, v in sorted(worst_acc.items())}

    # -- pochhammer = Γ(z+m)/Γ(z)
    t0 = time.time()
    for i in range(300 if quick else 5000):
        m = rng.randint(1, 12)
        z = gen_z(rng, 'poch')
        if any(abs(z + k) < POLE_DIST for k in range(0, 13)):
            continue
        v = real_call(sp, np, 'poch', m, z)[0]
        w = R.c(z)
        ref = mp.exp(mp.loggamma(w + m) - mp.loggamma(w)) if abs(z) > 100 else mp.gamma(w + m) / mp.gamma(w)
        rep.case('oracle.poch_gamma', (m, z), sample=dict(m=m, z=str(z), value=str(v)))
        if not abs(R.c(v) - ref) <= TOL * abs(ref):
            rep.violation('oracle/poch/gamma', 'pochhammer(%r, %d) = %r but Γ(z+m)/Γ(z) = %s' % (z, m, v, mp.nstr(ref, 17)),
                          dict(z=[z.real, z.imag], m=m, code=str(v), reference=mp.nstr(ref, 20)), found_input=True)

    timing['oracle.poch_gamma'] = round(time.time() - t0, 1)
    t0 = time.time()
    # -- MellinF2 against quadrature of x^(n−1) Li2(x)/(1+x) (and the series reference against it)
    nq = 8 if quick else 60
    for i in range(nq):
        r = rng.random()
        if r < 0.5:
            n = complex(rng.uniform(0.3, 12), rng.uniform(-12, 12) if quick else rng.uniform(-40, 40))
        elif r < 0.85 or quick:
            n = complex(rng.uniform(-0.8, 60), rng.uniform(-4, 4))
        else:
            n = complex(rng.uniform(1.0, 3.0), rng.uniform(-100, 100))
        if abs(n) < POLE_DIST:
            continue
        w = R.c(n)
        q = R.mellin_quad(w)
        s = R.mellin_series(w)
        v = real_call(sp, np, 'MellinF2', None, n)[0]
        bound = float(R.mellin_bound(w, ABK))
        rep.case('oracle.mellin_quad', n, sample=dict(n=str(n), code=str(v), quad=mp.nstr(q, 15), fit_error_bound=bound))
        if not abs(q - s) <= 1e-13 * max(1, abs(q)):
            rep.notes.append('mpmath quadrature and series disagree at n=%r: %s vs %s (reference unusable there)' % (
                n, mp.nstr(q, 17), mp.nstr(s, 17)))
            continue
        if not abs(R.c(v) - q) <= bound + TOL:
            rep.violation('oracle/MellinF2/quad', 'MellinF2(%r) = %r but ∫x^(n−1)Li2(x)/(1+x)dx = %s; |diff| %.3g exceeds the '
                          'error bound %.3g of the 8-term fit' % (n, v, mp.nstr(q, 15), float(abs(R.c(v) - q)), bound),
                          dict(n=[n.real, n.imag], code=str(v), quad=mp.nstr(q, 20), bound=bound), found_input=True)
    timing['oracle.mellin_quad'] = round(time.time() - t0, 1)
    rep.coverage['mellin_fit_sup_delta_over_x'] = float(R.delta_over_x(ABK))

    # -- positive integers: finite rational sums
    t0 = time.time()
    hs = {k: mp.mpf(0) for k in (1, 2, 3, 4)}      # Σ_{i≤n} i^-k
    ev = {2: mp.mpf(0), 3: mp.mpf(0)}              # Σ_{j≤n} (1+(−1)^j)/j^k
    tl = mp.mpf(0)                                 # Σ_{k≤n} (−1)^k S1(k)/k²
    for n in range(1, 201):
        zc = complex(n, 0)
        for k in (1, 2, 3, 4):
            hs[k] += mp.mpf(1) / mp.mpf(n) ** k
            ref = hs[k]
            v = real_call(sp, np, 'S%d' % k, None, zc)[0]
            rep.case('oracle.integers', (k, n), sample=dict(k=k, n=n, value=str(v)))
            if not abs(R.c(v) - ref) <= TOL * max(1, abs(ref)):
                rep.violation('oracle/S%d/integer' % k, 'S%d(%d) = %r but Σ_{i≤n} i^-%d = %s' % (k, n, v, k, mp.nstr(ref, 17)),
                              dict(k=k, n=n, code=str(v), reference=mp.nstr(ref, 20)), found_input=True)
        # primed sums, Curci et al. (5.25): S'_k(n/2) = 2^(k-1) Σ_{j≤n} (1+(−1)^j)/j^k with prty = (−1)^n
        p = 1 if n % 2 == 0 else -1
        for k, fn in ((2, 'S2_prime'), (3, 'S3_prime')):
            ev[k] += (1 + (-1) ** n) * mp.mpf(1) / mp.mpf(n) ** k
            ref = 2 ** (k - 1) * ev[k]
            v = real_call(sp, np, fn, p, complex(n / 2.0, 0))[0]
            rep.case('oracle.integers', (fn, n), sample=dict(fn=fn, n=n, value=str(v)))
            if not abs(R.c(v) - ref) <= TOL * max(1, abs(ref)):
                rep.violation('oracle/%s/integer' % fn, '%s(%d/2, %d) = %r but 2^(k-1) Σ (1+(−1)^j)/j^k = %s' % (fn, n, p, v, mp.nstr(ref, 17)),
                              dict(fn=fn, n=n, code=str(v), reference=mp.nstr(ref, 20)), found_input=True)
        # tilde sum, Bluemlein–Kurth (30): S~(n) = Σ_{k≤n} (−1)^k S1(k)/k^2 with prty = (−1)^n
        tl += (-1) ** n * hs[1] / mp.mpf(n) ** 2
        v = real_call(sp, np, 'S2_tilde', p, zc)[0]
        bound = float(R.mellin_bound(R.c(zc), ABK))
        rep.case('oracle.integers', ('S2_tilde', n), sample=dict(fn='S2_tilde', n=n, value=str(v), bound=bound))
        if not abs(R.c(v) - tl) <= TOL + bound:
            rep.violation('oracle/S2_tilde/integer', 'S2_tilde(%d, %d) = %r but Σ_{k≤n} (−1)^k S1(k)/k² = %s (allowed %.3g)' % (
                n, p, v, mp.nstr(tl, 17), TOL + bound),
                dict(n=n, code=str(v), reference=mp.nstr(tl, 20), bound=bound), found_input=True)
    timing['oracle.integers'] = round(time.time() - t0, 1)

    # -- recurrence S_k(z) = S_k(z−1) + z^−k on the real code, across Re z = 9, 10 and Im z = ±10
    t0 = time.time()
    nrec = 3000 if quick else 40000
    worst_rec = 0.0
    for i in range(nrec):
        k = rng.choice([1, 2, 3, 4])
        r = rng.random()
        if r < 0.6:
            re = rng.choice([9, 10]) + rng.choice(EPS) if rng.random() < 0.7 else rng.uniform(0.1, 30)
            im = rng.choice([10, -10]) + rng.choice(EPS) if rng.random() < 0.7 else rng.uniform(-30, 30)
        else:
            re, im = rng.uniform(0.1, 60), rng.uniform(-500, 500)
        z = complex(re, im)
        fn = 'S%d' % k
        a = real_call(sp, np, fn, None, z)
        b = real_call(sp, np, fn, None, z - 1)
        rep.case('oracle.recurrence', (k, z), sample=dict(k=k, z=str(z)))
        rep.hist('oracle.recurrence.region', region(z + 1) + '|' + region(z))
        if isinstance(a, str) or isinstance(b, str):
            rep.violation('oracle/%s/recurrence-raises' % fn, '%s raises at %r or %r: %r %r' % (fn, z, z - 1, a, b),
                          dict(k=k, z=[z.real, z.imag]), found_input=True)
            continue
        lhs, rhs = a[0] - b[0], 1 / z ** k
        sc = max(1.0, abs(a[0]), abs(rhs))
        e = abs(lhs - rhs) / sc
        worst_rec = max(worst_rec, e)
        if not e <= TOL:
            rep.violation('oracle/%s/recurrence' % fn, '%s(z) − %s(z−1) = %r but z^−%d = %r at z = %r (scaled diff %.3g)' % (
                fn, fn, lhs, k, rhs, z, e), dict(k=k, z=[z.real, z.imag], lhs=str(lhs), rhs=str(rhs)), found_input=True)
    rep.coverage['oracle_recurrence_worst'] = worst_rec
    timing['oracle.recurrence'] = round(time.time() - t0, 1)
    t0 = time.time()

    # -- conjugation symmetry f(conj z) = conj f(z)
    ncj = 3000 if quick else 40000
    worst_cj = 0.0
    for i in range(ncj):
        fn = rng.choice(FNS)
        extra = gen_extra(rng, fn)
        if fn == 'deldelS2':
            extra = complex(extra).real
        z = gen_z(rng, fn, extra)
        a = real_call(sp, np, fn, extra, z)
        b = real_call(sp, np, fn, extra, z.conjugate())
        rep.case('oracle.conjugation', (fn, extra, z), sample=dict(fn=fn, z=str(z)))
        if isinstance(a, str) or isinstance(b, str):
            rep.violation('oracle/%s/conj-raises' % fn, '%s raises at %r or its conjugate: %r %r' % (fn, z, a, b),
                          dict(fn=fn, z=[z.real, z.imag]), found_input=True)
            continue
        e = cerr(a[0].conjugate(), b[0], scale_for(sp, np, fn, extra, z))
        worst_cj = max(worst_cj, e)
        if not e <= TOL:
            rep.violation('oracle/%s/conjugation' % fn, '%s(conj z) = %r but conj %s(z) = %r at z = %r (rel. diff %.3g)' % (
                fn, b[0], fn, a[0].conjugate(), z, e), dict(fn=fn, extra=str(extra), z=[z.real, z.imag]), found_input=True)
    rep.coverage['oracle_conjugation_worst'] = worst_cj
    timing['oracle.conjugation'] = round(time.time() - t0, 1)
    t0 = time.time()

    # -- element-wise action: f(array)[idx] = f(array[idx]), same shape
    nel = 800 if quick else 8000
    for i in range(nel):
        fn = rng.choice(FNS)
        extra = gen_extra(rng, fn)
        shape = rng.choice(SHAPES)
        n = 1
        for s in shape:
            n *= s
        zs = [gen_z(rng, fn, extra) for _ in range(n)]
        arr = np.array(zs, dtype=complex).reshape(shape)
        with warnings.catch_warnings():
            warnings.simplefilter('ignore')
            f = getattr(sp, 'pochhammer' if fn == 'poch' else fn)
            whole = f(arr) if extra is None else f(arr, extra)
        rep.case('oracle.elementwise', (fn, extra, tuple(zs)), sample=dict(fn=fn, shape=list(shape)))
        rep.hist('oracle.elementwise.shape', shape)
        bad = None
        if np.shape(whole) != tuple(shape):
            bad = 'result shape %r for argument shape %r' % (np.shape(whole), shape)
        else:
            flat = np.asarray(whole).ravel()
            for z, v in zip(zs, flat):
                s1 = real_call(sp, np, fn, extra, z)
                if isinstance(s1, str) or not cerr(complex(v), s1[0], scale_for(sp, np, fn, extra, z, strict=True)) <= TOL_ELEM:
                    bad = 'element at z=%r is %r in the array call, %r alone' % (z, complex(v), s1)
                    break
        if bad:
            rep.violation('oracle/%s/elementwise' % fn, '%s does not act element-wise: %s' % (fn, bad),
                          dict(fn=fn, extra=str(extra), shape=list(shape), zs=[[z.real, z.imag] for z in zs]), found_input=True)
        elif i % 3 == 0:
            # the SAME array object refilled in place (and the first result scribbled on): the second call must see
            # the new contents
            zs2 = [gen_z(rng, fn, extra) for _ in range(n)]
            if isinstance(whole, np.ndarray):
                try:
                    whole *= 0
                except Exception:
                    pass
            arr[...] = np.array(zs2, dtype=complex).reshape(shape)
            with warnings.catch_warnings():
                warnings.simplefilter('ignore')
                again = f(arr) if extra is None else f(arr, extra)
            rep.case('oracle.elementwise.refilled', (fn, extra, tuple(zs2)))
            flat = np.asarray(again).ravel()
            for z, v in zip(zs2, flat if np.shape(again) == tuple(shape) else []):
                s1 = real_call(sp, np, fn, extra, z)
                if isinstance(s1, str) or not cerr(complex(v), s1[0], scale_for(sp, np, fn, extra, z, strict=True)) <= TOL_ELEM:
                    bad = 'after refilling the same array in place, element at z=%r is %r in the array call, %r alone' % (z, complex(v), s1)
                    break
            if np.shape(again) != tuple(shape):
                bad = 'result shape %r for argument shape %r (second call)' % (np.shape(again), shape)
            if bad:
                rep.violation('oracle/%s/elementwise-refilled' % fn, '%s does not act element-wise: %s' % (fn, bad),
                              dict(fn=fn, extra=str(extra), shape=list(shape), first=[[z.real, z.imag] for z in zs],
                                   second=[[z.real, z.imag] for z in zs2]), found_input=True)

    timing['oracle.elementwise'] = round(time.time() - t0, 1)
    rep.coverage['timing_s'] = timing
    if not ok and not rep.violations:
        rep.violation('lean', 'Lean side of C16 no longer checks: ' + why, dict(reason=why), found_input=False)
    rep.assumptions += [
        'model vs code: |a−b| ≤ 1e-12·max(|a|,|b|,scale), scale = 1 for the S-type functions (O(1) terms are added), '
        '0 for dpsi / pochhammer (pure relative), the size of the four cancelling S2 terms over |4(j−k)(2j+2k+1)| for deldelS2, '
        'max(1,|n|^-3) for MellinF2(n) / S2_tilde(n) / SB3(n−1) (psi(n)+1/n cancels at size 1/|n| and is divided by n²); '
        'the theorems are over ℝ/ℂ, rounding is outside them',
        'scipy.special.psi, zeta(2|3|4), np.euler_gamma, math.log(2) are parameters of the model; their values are fed '
        'from scipy at the arguments the model asks for (psi table, exact-match lookup)',
        'accuracy oracle: |code − mpmath(30 digits)| ≤ 1e-12·scale, plus for MellinF2 / S2_tilde / SB3 the rigorous bound '
        'sup|δ(x)/x|·∫x^(Re n−1)(|n−1|Li2(x)+|log(1−x)|)dx of the 8-term fit of log(1+x) (δ = its error); the paper states no '
        'accuracy, so the bound implied by the fit itself is what "within its stated accuracy" is read as',
        'points closer than 0.05 to a pole of the function (or of a piece of it) are outside the domain',
        'conjugation within 1e-12 (the code takes different branches for Im z ≥ 10 and Im z ≤ −10, DESIGN §4 C16)',
    ]
    rep.notes += [
        'oracle.* streams evaluate the property on the real code against mpmath; they support the theorems '
        '(exact recurrence / product / combination identities of the algorithm) and carry what no theorem can: '
        'accuracy of the asymptotic series at the shifted point, of scipy psi, and of the 8-term MellinF2 fit',
        'integers ≥ 10 and all points with Im z ≥ 10 are evaluated by the asymptotic series without recurrence shift; '
        'there the recurrence and the finite sums hold only to the accuracy of the series (oracle.recurrence, oracle.integers)',
    ]
    return rep.finish(level='proof',
                      checker_cmd='lake build Props.C16; #print axioms; gepdriver c16.* vs gepard.special.*; mpmath oracles',
                      trusted=['Lean 4.33 kernel + Mathlib (Complex.Gamma_add_one)',
                               'Scalar/Special.lean.in instantiated at Float and ℝ (same text)',
                               'scipy.special.psi / zeta, np.euler_gamma, math.log as parameters of the model',
                               'mpmath (oracle streams only)', 'harness/props/C16.py'])


def region(z):
    """which branch of dpsi_one a point (as its argument) falls in"""
    if z.imag >= 10:
        return 'Im>=10:no-shift'
    if z.real >= 10:
        return 'Re>=10:series'
    return 'shift(Im<-10)' if z.imag <= -10 else 'shift'


def replay(path):
    import json
    import numpy as np
    import gepard.special as sp
    d = json.load(open(path))
    print(json.dumps(d, indent=1)[:3000])
    if 'function' in d and ('z' in d or 'zs' in d):
        zs = [complex(*d['z'])] if 'z' in d else [complex(*z) for z in d['zs']]
        extra = d.get('extra')
        if extra in (None, 'None'):
            extra = None
        else:
            try:
                extra = int(extra)
            except ValueError:
                try:
                    extra = float(extra)
                except ValueError:
                    extra = complex(extra)
        R = Ref()
        for z in zs:
            v = real_call(sp, np, d['function'], extra, z)
            print('real code now: %s(%r, %r) = %r ; definition (mpmath): %s' % (
                d['function'], z, extra, v, R.mp.nstr(ref_value(R, d['function'], extra, z), 17)))
    return 0

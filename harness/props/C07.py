"""C07 — cross sections have the required azimuthal, T-odd and charge structure.

Lean: Props/C07.lean over Gen/BmkR.lean — the model REGENERATED from /repo's kinematics.py, bmk.py,
dvcs.py by tools/py2lean.py on every run, with the generated symmetry lemmas Gen/BmkSymR.lean.
Correspondence: every translated coefficient / term and the XS assembly of all five formula sets
versus the real code on random physical kinematics, CFF and form-factor values (1e-11).
Oracle stream (failing-input search; also run routinely at small size): the symmetries themselves
on the real code.
"""
import math

import bmkcommon as B
import common
from common import f2hex, hex2f, relerr

TOL = 1e-10


def xs_real(th, kw, flip=None, weighted=False, phi=None):
    import gepard as g
    pt = g.DataPoint(**kw)
    kwargs = {}
    if flip:
        kwargs['flip'] = flip
    if weighted:
        kwargs['weighted'] = True
    if phi is not None:
        kwargs['vars'] = {'phi': phi}
    return float(th.XS(pt, **kwargs))


def oracle_symmetries(rep, rng, n, hint=None):
    """the property on the real code; returns number of cases"""
    cnt = 0
    for i in range(n):
        fset = rng.choice(B.FORMULA_SETS) if not hint else hint
        target = rng.choice(['U', 'L'] if fset in B.LP_SETS else ['U'])
        kw = B.random_kinematics(rng)
        kw['in1polarization'] = rng.choice([-1, 1])
        if target == 'L':
            kw['in2polarizationvector'] = 'L'
            kw['in2polarization'] = rng.choice([-1, 1])
        phi = kw['phi']
        mir = 2 * math.pi - phi
        mode = rng.choice(['mirror', 'mirror', 'real', 'zeroCFF', 'zeroEFF', 'pureBH'])
        m = B.random_m(rng, real_cffs=(mode == 'real'), zero_cffs=(mode in ('zeroCFF', 'pureBH')), zero_eff=(mode == 'zeroEFF'))
        th = B.theory(fset, m)
        cnt += 1
        rep.case('oracle', (fset, target, mode, i), sample=dict(set=fset, target=target, mode=mode) if i < 3 else None)
        rep.hist('oracle.mode', mode)
        # 40%: the configurations are set IN PLACE on one point object that is evaluated repeatedly through
        # XS(pt, vars={'phi': ...}) (what a user scanning phi / helicity does); otherwise fresh points and flip=
        inplace = rng.random() < 0.4
        rep.hist('oracle.points', 'one point, attributes set in place' if inplace else 'fresh point per evaluation, flip=')
        import gepard as g
        ptw = g.DataPoint(**kw)

        def xs_cfg(ph, flips=()):
            if not inplace:
                return xs_real(th, dict(kw, phi=ph), flip=list(flips) or None)
            for a in ('in1polarization', 'in2polarization', 'in1charge'):
                if a in kw:
                    setattr(ptw, a, -kw[a] if a in flips else kw[a])
            return float(th.XS(ptw, vars={'phi': ph}))
        try:
            def parts(ph):
                o = xs_cfg(ph)
                b = xs_cfg(ph, ('in1polarization',))
                if target == 'L':
                    t_ = xs_cfg(ph, ('in2polarization',))
                    bt = xs_cfg(ph, ('in1polarization', 'in2polarization'))
                else:
                    t_, bt = o, b
                # helicity-independent, beam SSA, target SSA, double spin
                return ((o + b + t_ + bt) / 4, (o - b + t_ - bt) / 4, (o + b - t_ - bt) / 4, (o - b - t_ + bt) / 4)
            P, Pm = parts(phi), parts(mir)
            scale = abs(P[0]) + abs(Pm[0])
            bad = None
            # the parities under phi -> 2pi-phi hold for every configuration: they are checked in every mode, not only 'mirror'
            want = [(+1, 'helicity-independent part'), (-1, 'beam single-spin part'),
                    (-1, 'target single-spin part'), (+1, 'double-spin part')]
            for (sg, nm), a, b_ in zip(want, P, Pm):
                if abs(b_ - sg * a) > 1e-9 * scale:
                    bad = '%s not %s under phi -> 2pi-phi: %r vs %r' % (nm, 'even' if sg > 0 else 'odd', a, b_)
                    break
            if not bad and mode == 'real' and (abs(P[1]) > 1e-10 * scale or abs(P[2]) > 1e-10 * scale):
                bad = 'single-spin difference does not vanish for real CFFs: beam %r target %r (scale %r)' % (P[1], P[2], scale)
            if not bad and mode in ('zeroCFF', 'zeroEFF', 'pureBH'):
                o, c_ = xs_cfg(phi), xs_cfg(phi, ('in1charge',))
                if abs(o - c_) > 1e-10 * (abs(o) + abs(c_)):
                    bad = 'lepton-charge dependence does not vanish (%s): %r vs %r' % (mode, o, c_)
            if not bad and mode == 'pureBH':
                import gepard as g
                kwU = {k: v for k, v in kw.items() if not k.startswith('in2polarization')}
                pt = g.DataPoint(**kwU)      # single-spin / charge asymmetries: unpolarised target
                vals = dict(AC=float(th.AC(pt)), ALU=float(th.ALU(pt)))
                if target == 'L':
                    pt0 = g.DataPoint(**dict(kw, in1polarization=0))
                    vals['TSA'] = float(th.TSA(pt0))
                for k, v in vals.items():
                    if abs(v) > 1e-10:
                        bad = 'pure Bethe-Heitler %s = %r != 0' % (k, v)
            if not bad and i % 3 == 1:
                # the same parities through the package's own flip-based combinations, azimuth given by vars=
                # (the point keeps another phi) and optionally BH-weighted (the weight is even in phi)
                w = rng.random() < 0.4
                combos = [('XUU', +1), ('XLU', -1)] + ([('XUL', -1)] if target == 'L' else [])
                rep.case('oracle.combinations', (fset, target, w, i))
                kwUnp = {k: v for k, v in kw.items() if not k.startswith('in2polarization')}
                for nm, sg in combos:
                    f = getattr(th, nm)
                    kwo = dict(weighted=True) if w else {}
                    # XUU / XLU: unpolarised target (beam sum / difference); XUL: unpolarised beam (target difference)
                    kwc = dict(kw, in1polarization=0) if nm == 'XUL' else kwUnp
                    pcur = g.DataPoint(**dict(kwc, phi=1.234))
                    a = float(f(pcur, vars={'phi': phi}, **kwo))
                    b_ = float(f(pcur, vars={'phi': mir}, **kwo))
                    direct = float(f(g.DataPoint(**dict(kwc, phi=phi)), **kwo))
                    sc_ = abs(float(th.XUU(g.DataPoint(**dict(kwUnp, phi=phi)), **kwo))) + abs(float(th.XUU(g.DataPoint(**dict(kwUnp, phi=mir)), **kwo)))
                    if abs(a - direct) > 1e-9 * sc_:
                        bad = '%s(pt, vars={phi: %r}%s) = %r but %r for a point with that phi' % (nm, phi, ', weighted' if w else '', a, direct)
                    elif abs(b_ - sg * a) > 1e-9 * sc_:
                        bad = '%s%s not %s under phi -> 2pi-phi (vars=): %r vs %r' % (nm, ' (weighted)' if w else '', 'even' if sg > 0 else 'odd', a, b_)
                    if bad:
                        break
            if not bad and i % 4 == 0:
                # the same parity seen through the package's harmonic projection: sin harmonics of the phi-even
                # cross section and cos harmonics (and mean) of the phi-odd beam-spin difference vanish
                n = rng.choice([1, 2, 3])
                kwU = {k: v for k, v in kw.items() if not k.startswith('in2polarization') and k != 'phi'}
                hv = dict(XUU=float(th.XUU(g.DataPoint(**dict(kwU, FTn=-n)))), XLU=float(th.XLU(g.DataPoint(**dict(kwU, FTn=n)))),
                          XLU0=float(th.XLU(g.DataPoint(**dict(kwU, FTn=0)))))
                sc0 = abs(float(th.XUU(g.DataPoint(**dict(kwU, FTn=0)))))
                rep.case('oracle.harmonics', (fset, n, i))
                for k, v in hv.items():
                    if abs(v) > 1e-9 * sc0:
                        bad = 'wrong-parity harmonic does not vanish: %s(FTn=%d) = %r (XUU(FTn=0) = %r)' % (
                            k[:3], 0 if k == 'XLU0' else (-n if k == 'XUU' else n), v, sc0)
            if bad:
                rep.violation('symmetry/%s/%s/%s' % (fset, target, bad.split(':')[0][:40].replace(' ', '_')),
                              '%s, target %s: %s' % (fset, target, bad), dict(set=fset, target=target, kinematics=kw, model=m, mode=mode, one_point_set_in_place=inplace))
        except Exception as e:
            # a failing input only when the package itself raised (a frame under REPO/src); a fault of this harness is re-raised
            if not B.in_real_code(e):
                raise
            rep.violation('symmetry/exception/%s' % type(e).__name__, '%s: XS raised %r' % (fset, e),
                          dict(set=fset, target=target, kinematics=kw, model=m, mode=mode, one_point_set_in_place=inplace))
    return cnt


def attribute_type_stream(rep, rng, n):
    """helicity / charge / target polarisation given as numpy objects (np.int64, np.float64, np.int32, 0-d arrays, a vector holding
    both helicities) on ONE point that is evaluated repeatedly (XS with and without flip=, XUU, XLU, AC, ALU, mirrored azimuth):
    every value equals the one a fresh point with plain Python ints gives, the beam-spin difference stays odd under
    phi -> 2pi-phi on the re-used point, and the caller's attribute objects are left exactly as they were"""
    import numpy as np
    import gepard as g
    wraps = [('np.int64', np.int64), ('0-d int ndarray', lambda v: np.array(int(v))), ('np.float64', np.float64),
             ('0-d float ndarray', lambda v: np.array(float(v))), ('np.int32', np.int32), ('vector of both helicities', None)]
    for i in range(n):
        fset = B.FORMULA_SETS[i % 5] if i < 10 else rng.choice(B.FORMULA_SETS)
        target = rng.choice(['U', 'L'] if fset in B.LP_SETS else ['U'])
        kw = B.random_kinematics(rng)
        kw['in1polarization'] = rng.choice([-1, 1])
        if target == 'L':
            kw['in2polarizationvector'] = 'L'
            kw['in2polarization'] = rng.choice([-1, 1])
        phi, mir = kw['phi'], 2 * math.pi - kw['phi']
        m = B.random_m(rng)
        th = B.theory(fset, m)
        wname, w = wraps[i % len(wraps)]
        attrs = [a for a in ('in1polarization', 'in1charge', 'in2polarization') if a in kw]
        if w is None:
            held = {'in1polarization': np.array([kw['in1polarization'], -kw['in1polarization']])}
        else:
            held = {a: w(kw[a]) for a in (attrs if i % 2 == 0 else rng.sample(attrs, 1))}
        before = {a: (type(v), np.asarray(v).dtype, np.array(v, copy=True)) for a, v in held.items()}
        rep.hist('attribute-type', wname)
        calls = [('XS', lambda o, p_: o.XS(p_)), ('XLU', lambda o, p_: o.XLU(p_)), ('XS', lambda o, p_: o.XS(p_)),
                 ('XS flip=in1polarization', lambda o, p_: o.XS(p_, flip='in1polarization')),
                 ('XUU', lambda o, p_: o.XUU(p_)), ('AC', lambda o, p_: o.AC(p_)), ('ALU', lambda o, p_: o.ALU(p_)),
                 ('XS flip=[in1polarization, in1charge]', lambda o, p_: o.XS(p_, flip=['in1polarization', 'in1charge'])),
                 ('XLU vars phi', lambda o, p_: o.XLU(p_, vars={'phi': phi})), ('XLU vars 2pi-phi', lambda o, p_: o.XLU(p_, vars={'phi': mir})),
                 ('XS', lambda o, p_: o.XS(p_))]
        if target == 'L':
            calls.insert(4, ('XS flip=in2polarization', lambda o, p_: o.XS(p_, flip='in2polarization')))
            calls = [c for c in calls if c[0] not in ('XLU', 'XUU', 'AC', 'ALU', 'XLU vars phi', 'XLU vars 2pi-phi')] + \
                [('XS flip=[in1polarization, in2polarization]', lambda o, p_: o.XS(p_, flip=['in1polarization', 'in2polarization'])),
                 ('XS', lambda o, p_: o.XS(p_))]
        if i % 3 == 2:
            head, tail = calls[:1], calls[1:]
            rng.shuffle(tail)
            calls = head + tail
        replay = dict(set=fset, target=target, kinematics=kw, model=m, attribute_type=wname, numpy_typed=sorted(held),
                      calls_on_one_point=[c[0] for c in calls])
        try:
            ptn = g.DataPoint(**dict(kw, **held))
            for a, v in held.items():
                setattr(ptn, a, v)                  # the caller's own objects, whatever the constructor does with its arguments
            bad = None
            touched = None          # the first change of a caller's object; the run goes on to show what it does to the values
            got = {}
            for k_, (nm, f) in enumerate(calls):
                val = np.asarray(f(th, ptn), dtype=float)
                # reference: fresh point(s) with plain Python numbers
                if w is None:
                    ref = np.array([float(f(th, g.DataPoint(**dict(kw, in1polarization=h)))) for h in (kw['in1polarization'], -kw['in1polarization'])])
                else:
                    ref = np.asarray(float(f(th, g.DataPoint(**kw))))
                sc = np.abs(np.asarray(float(th.XS(g.DataPoint(**kw)))))
                rep.case('oracle.attribute-type', (fset, target, wname, i, k_, nm))
                got.setdefault(nm, []).append(val)
                if val.shape != ref.shape or not np.all(np.abs(val - ref) <= 1e-12 * np.maximum(sc, np.abs(ref))):
                    bad = 'call %d (%s) on the point with %s given as %s returns %s; a fresh point with plain ints gives %s' % (
                        k_ + 1, nm, '/'.join(sorted(held)), wname, val.tolist(), ref.tolist())
                for a, v in held.items():
                    t0, d0, v0 = before[a]
                    cur = getattr(ptn, a, None)
                    if touched:
                        continue
                    if not (type(v) is t0 and np.asarray(v).dtype == d0 and np.array_equal(np.asarray(v), v0)):
                        touched = 'after call %d (%s) the caller\'s %s object (%s) holds %r, it held %r before' % (
                            k_ + 1, nm, a, wname, np.asarray(v).tolist(), v0.tolist())
                    elif not (np.asarray(cur).shape == v0.shape and np.array_equal(np.asarray(cur), v0)):
                        touched = 'after call %d (%s) the point\'s %s is %r, it was %r' % (k_ + 1, nm, a, cur, v0.tolist())
                if bad:
                    break
            if touched:
                bad = touched + ('; ' + bad if bad else '')
            if (not bad or bad == touched) and 'XLU vars phi' in got and 'XLU vars 2pi-phi' in got:
                a_, b_ = got['XLU vars phi'][0], got['XLU vars 2pi-phi'][0]
                if not np.all(np.abs(a_ + b_) <= 1e-9 * 2 * sc):
                    bad = (bad + '; ' if bad else '') + 'beam single-spin difference XLU not odd under phi -> 2pi-phi on the re-used point: %s vs %s' % (
                        a_.tolist(), b_.tolist())
            if bad:
                rep.violation('attribute-type/%s/%s' % (fset, wname.replace(' ', '_')), '%s, target %s: %s' % (fset, target, bad), replay)
        except Exception as e:
            if not B.in_real_code(e):
                raise
            rep.violation('attribute-type/exception/%s' % type(e).__name__, '%s: raised %r with %s given as %s' % (fset, e, sorted(held), wname), replay)


def run(rep):
    rng = rep.rng
    ok, why = common.lean_side(rep, 'C07')
    quick = rep.tier == 'quick'
    broken = B.entry_correspondence(rep, rng, 60 if quick else 1500, TOL)
    # flip-based observables at fixed phi: dvcs._XUU, _XLU, _AC, ... versus Scalar/Obs.lean.in on the generated XS
    import gepard as g
    olines, ometa = [], []
    for i in range(120 if quick else 2000):
        fset = rng.choice(B.FORMULA_SETS)
        m = B.random_m(rng)
        th = B.theory(fset, m)
        kw = B.random_kinematics(rng)
        kw['in1polarization'] = rng.choice([-1, 1])
        target = rng.choice(['U', 'L'] if fset in B.LP_SETS else ['U', 'T'])
        if target != 'U':
            kw['in2polarizationvector'] = target
            kw['in2polarization'] = rng.choice([-1, 1])
        if target == 'T':
            kw['varFTn'] = rng.choice([-1, 1])
        names = ['_XUU', '_XLU', '_XCLU', '_XCUU', '_AC', '_ALU', '_ALUI', '_ALUDVCS']
        if target != 'U':
            names += ['_XUD', '_TSA', '_BTSA', '_AUTI', '_AUTDVCS', '_ALTI', '_ALTBHDVCS']
        name = rng.choice(names)
        weighted = rng.random() < 0.3
        p2 = g.DataPoint(**kw)
        # a third of the calls override the azimuth through vars= (the point keeps its own phi): every term of a
        # flip-based combination must see the same keywords
        opts = dict(weighted=weighted)
        phi_eval = kw['phi']
        if rng.random() < 0.33:
            phi_eval = rng.uniform(0, 2 * math.pi)
            opts['vars'] = {'phi': phi_eval}
        rep.hist('obs.options', ('weighted ' if weighted else '') + ('vars' if 'vars' in opts else '') or 'none')
        fobs = common.private(rep, th, '_CBTSA' if name in ('_ALTI', '_ALTBHDVCS') else name, 'the observable stream (c07.obs) skips it')
        if fobs is None:
            continue                        # a renamed private helper is no disagreement between model and code
        try:
            if name == '_ALTI':
                v = float(fobs(p2, **opts))
            elif name == '_ALTBHDVCS':
                v = float(fobs(p2, chargepar=+1, **opts))
            else:
                v = float(fobs(p2, **opts))
        except Exception as ex:
            v = 'EXC:' + type(ex).__name__
        k2 = p2.copy()
        k2.phi = phi_eval
        if target == 'T':
            k2.varphi = (1 - kw['varFTn']) * math.pi / 4.
        k2.prepare()
        olines.append('c07.obs %s %s %d %d %s %s' % (name, fset, 'ULT'.index(target), weighted, f2hex(kw.get('in2polarization', 0)), B.tokens(k2, m)))
        ometa.append((name, fset, target, v, kw, m))
        rep.hist('obs', name)
    try:
        oout = common.run_driver(olines)
    except common.ModelUnavailable as ex:
        oout = []
        broken.append(('model-unavailable', 'all', str(ex)[:300], None, None, {}, {}))
    for line, (name, fset, target, v, kw, m), o in zip(olines, ometa, oout):
        rep.case('observable', (name, fset, line[-30:]), sample=dict(observable=name, set=fset, target=target, value=v) if name in ('_BTSA', '_ALUI') else None)
        if isinstance(v, str) or o in ('none', 'bad-op'):
            if not (isinstance(v, str) and o == 'none'):
                broken.append(('obs', fset, name, v, o, kw, m))
            continue
        if relerr(v, hex2f(o), 1e-300) > 1e-9 and abs(v - hex2f(o)) > 1e-13:
            broken.append(('obs', fset, name, v, hex2f(o), kw, m))
    # symmetries on the real code: routinely (small), and as failing-input search when something broke
    n_or = 40 if quick else 1500
    if broken or not ok:
        n_or *= 4
    oracle_symmetries(rep, rng, n_or)
    attribute_type_stream(rep, rng, 30 if quick else 600)
    if broken and not rep.violations:
        # also aim the search at the formula sets whose model disagrees
        for fs in sorted({b[1] for b in broken if b[1] in B.FORMULA_SETS}):    # ('model-unavailable', 'all', …) names no set
            oracle_symmetries(rep, rng, 200, hint=fs)
    for kind, fset, e, v, o, kw, m in broken[:5]:
        if not rep.violations:
            rep.violation('model/%s/%s/%s' % (kind, fset, e), 'translated model and code disagree on %s.%s: code %r model %r' % (fset, e, v, o),
                          dict(set=fset, entry=e, kinematics=kw, model=m), found_input=False)
    if not ok and not rep.violations:
        rep.violation('lean', 'Lean side of C07 no longer checks: ' + why, dict(reason=why), found_input=False)
    rep.notes.append('oracle stream = the symmetries evaluated on the real code (tolerance 1e-9 of the cross-section scale)')
    rep.assumptions += ['the model is regenerated from the source by tools/py2lean.py; its faithfulness is checked by the entry-by-entry '
                        'comparison at 1e-10 relative', 'floating point: theorems are over ℝ']
    return rep.finish(level='proof', checker_cmd='tools/regen.py (py2lean) ; lake build Props.C07 ; #print axioms ; gepdriver c06.* vs bmk.py/dvcs.py',
                      trusted=['Lean 4.33 kernel', 'tools/py2lean.py (validated by correspondence on every run)', 'harness/props/C07.py'])


def replay(path):
    print(open(path).read()[:3000])
    return 0

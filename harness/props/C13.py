"""C13 — kinematic completion is consistent and convention changes are lossless.

Lean: Props/C13.lean (ℝ) over Scalar/Conv.lean.in; its Float instantiation runs in the driver.
Correspondence: DataPoint(...) completion and to_conventions / from_conventions / orig_conventions
on generated points over the whole finite grid (frame × unit × harmonic × target harmonic) with
random reals, and on every bundled point; floats compared within a few ulp.
"""
import math

import common
from common import f2hex, hex2f, relerr

ULP = 2.3e-16
ERRTYPES = ['err', 'errminus', 'errplus', 'errstat', 'errsyst', 'errnorm']


def H(x):
    return 'N' if x is None else f2hex(x)


def I(x):
    return 'N' if x is None else str(int(x))


def close(a, b, n=4, scale=0.0):
    if a is None or b is None:
        return a is None and b is None
    return relerr(a, b, scale) <= n * ULP


def aclose(a, b, n=4):
    """angles: pi - phi cancels, so the error is absolute on the scale of a full turn; the value may be
    in degrees (the conversion carries the absolute error of the radian value times 180/pi)"""
    return close(a, b, n, scale=max(360.0, 0 if a is None else abs(a)))


def mk_point(g, spec):
    """build a real DataPoint as update_from_grid would leave it (only what the conventions read)"""
    kw = dict(val=spec['val'], observable='OBS', errtypes=list(ERRTYPES), newunits={})
    for k, e in zip(spec['errnames'], spec['errs']):
        kw[k] = e
    units = {'OBS': 'pb/GeV^4' if spec['pb'] else 'nb/GeV^4'}
    if spec['phi'] is not None:
        units['phi'] = spec['phiunit']
        kw['phi'] = spec['phi']
    if spec['FTn'] is not None:
        kw['FTn'] = spec['FTn']
    if spec['varphi'] is not None:
        kw['varphi'] = spec['varphi']
    if spec['varFTn'] is not None:
        kw['varFTn'] = spec['varFTn']
    kw['units'] = units
    if spec['frame'] is not None:
        kw['frame'] = spec['frame']
    return g.DataPoint(**kw)


def cpt_tokens(spec, val=None, errs=None, phi='same', varphi='same'):
    v = spec['val'] if val is None else val
    es = spec['errs'] if errs is None else errs
    ph = spec['phi'] if phi == 'same' else phi
    vp = spec['varphi'] if varphi == 'same' else varphi
    return ' '.join([f2hex(v), str(len(es))] + [f2hex(e) for e in es] + [
        H(ph), I(spec['FTn']), H(vp), I(spec['varFTn']),
        '1' if spec['frame'] == 'Trento' else '0',
        '1' if (spec['phi'] is not None and spec['phiunit'][:3] == 'deg') else '0',
        '1' if spec['pb'] else '0'])


def read_point(pt, spec):
    return dict(val=pt.val, errs=[getattr(pt, k) for k in spec['errnames']],
                phi=pt.get('phi'), varphi=pt.get('varphi'))


def parse_cpt(out, nerr):
    t = out.split()
    if t[0] != 'ok':
        return out
    vals = [None if x == 'N' else hex2f(x) for x in t[1:]]
    return dict(val=vals[0], errs=vals[1:1 + nerr], phi=vals[1 + nerr], varphi=vals[2 + nerr])


def same_state(a, b, n=4):
    if isinstance(a, str) or isinstance(b, str):
        return a == b
    return (close(a['val'], b['val'], n) and len(a['errs']) == len(b['errs']) and
            all(close(x, y, n) for x, y in zip(a['errs'], b['errs'])) and
            aclose(a['phi'], b['phi'], n) and aclose(a['varphi'], b['varphi'], n))


def back_formula(spec, st):
    """what from_conventions must make of the state st (val, errs, phi [rad], varphi) of a point with the static
    attributes of spec: the inverse of the documented internal conventions (nb, BMK frame, radians), written out
    independently of the package: pb: x1000 for the value and every uncertainty; Trento frame: phi -> pi - phi,
    varphi -> varphi + pi, and the sign of the value for the harmonics that are odd under it (cos phi, cos 3 phi,
    sin 2 phi; target-angle harmonics +-1) when the point carries the harmonic index and not the angle; degrees"""
    val, errs, phi, varphi = st['val'], list(st['errs']), st['phi'], st['varphi']
    if spec['pb']:
        val = val * 1000
        errs = [e * 1000 for e in errs]
    if spec['frame'] == 'Trento':
        if phi is not None:
            phi = math.pi - phi
        elif spec['FTn'] in (1, 3, -2):
            val = -val
        if varphi is not None:
            varphi = varphi + math.pi
        elif spec['varFTn'] in (1, -1):
            val = -val
    if phi is not None and spec['phiunit'][:3] == 'deg':
        phi = phi / math.pi * 180.
    return dict(val=val, errs=errs, phi=phi, varphi=varphi)


# sequences of convention changes on ONE point; each returns to the original conventions (the two maps are mutually inverse
# bijections of the state, so any sequence in which every `to` is undone by a later / earlier `from` restores the point)
SEQS = [('to', 'to', 'from', 'from'), ('from', 'to'), ('from', 'from', 'to', 'to'), ('to', 'from', 'from', 'to'),
        ('to', 'from', 'to', 'from')]


def run(rep):
    import gepard as g
    from gepard.constants import Mp2
    from gepard.data import KinematicsError
    rng = rep.rng
    ok, why = common.lean_side(rep, 'C13')
    quick = rep.tier == 'quick'
    lines, meta = [], []

    # ---------------- completion ----------------
    nk = 1500 if quick else 30000
    # in every run: the boundary of the momentum transfer.  t = 0 (forward limit) is legal: t <= 0 and tm = -t >= 0 are what the
    # completion asserts, so t = 0.0 / -0.0 / the smallest negative numbers and tm = 0.0 / -0.0 / the smallest positive ones are
    # completed (tm = -t) without an exception; the smallest numbers of the wrong sign are rejected
    forced = [dict(t=0.0), dict(t=-0.0), dict(tm=0.0), dict(tm=-0.0), dict(t=-5e-324), dict(t=-1e-300), dict(tm=5e-324), dict(tm=1e-300),
              dict(t=5e-324), dict(tm=-5e-324), dict(tm=-0.5), dict(t=0.0, tm=0.0)]
    forced = [(f, trio) for f in forced for trio in (('xB', 'Q2'), ('W', 'Q2'), ())]
    for i in range(nk + len(forced)):
        xB = 10 ** rng.uniform(-5, -0.001) if rng.random() < 0.8 else rng.uniform(0.001, 0.999)
        Q2 = 10 ** rng.uniform(-1, 3)
        W = math.sqrt(Q2 / xB - Q2 + Mp2)
        t = -10 ** rng.uniform(-3, 1)
        full = dict(xB=xB, W=W, Q2=Q2)
        r = rng.random()
        if r < 0.75:
            give = rng.sample(['xB', 'W', 'Q2'], 2)
        elif r < 0.85:
            give = ['xB', 'W', 'Q2']
        elif r < 0.95:
            give = rng.sample(['xB', 'W', 'Q2'], 1)
        else:
            give = []
        kw = {k: full[k] for k in give}
        edge = False
        if rng.random() < 0.06:
            edge = True
            # where Python's arithmetic raises instead of returning: vanishing denominators, negative W²
            kw = rng.choice([dict(W=0.0, Q2=Mp2), dict(xB=0.0, Q2=Q2), dict(xB=1.0, W=W), dict(xB=2.0), dict(xB=2.0, Q2=1.0),
                             dict(xB=2.0, Q2=Q2 + 2.0), dict(xB=1.0 + xB, Q2=Q2 + 4.0), dict(xB=1.0, Q2=Q2), dict(xB=2.0, W=W)])
            rep.hist('fill.edge', '+'.join('%s=%g' % kv for kv in sorted(kw.items()))[:24])
        r = rng.random()
        if r < 0.4:
            kw['t'] = t
        elif r < 0.75:
            kw['tm'] = -t
        elif r < 0.85:
            kw['t'], kw['tm'] = t, -t
        elif r < 0.9:
            kw['t'] = -t          # positive t: assertion
        if rng.random() < 0.1:
            kw['phi'] = 1.0
        if i >= nk:
            f, trio = forced[i - nk]
            kw, edge = dict({k: full[k] for k in trio}, **f), False
            rep.hist('fill.t-boundary', ','.join('%s=%r' % kv for kv in sorted(f.items())))
        try:
            pt = g.DataPoint(**dict(kw))
            impl = {k: pt.get(k) for k in ('xB', 'W', 'Q2', 't', 'tm', 'xi')}
            # given values must be untouched, bit for bit
            for k, v in kw.items():
                if pt.get(k) != v or (isinstance(v, float) and f2hex(pt.get(k)) != f2hex(v)):
                    impl['ALTERED'] = k
        except KinematicsError:
            impl = 'KinematicsError'
        except AssertionError:
            impl = 'AssertionError'
        except ZeroDivisionError:
            impl = 'ZeroDivisionError'
        except ValueError:
            impl = 'ValueError'
        except Exception as e:
            impl = 'EXC:' + type(e).__name__
        lines.append('c13.fill %s %s' % (f2hex(Mp2), ' '.join(H(kw.get(k)) for k in ('xB', 'W', 'Q2', 't', 'tm'))))
        meta.append(dict(kind='fill', given=sorted(kw), kw=kw, full=full, impl=impl, edge=edge))
        rep.hist('fill.given', '+'.join(sorted(k for k in kw if k != 'phi')))

    # ---------------- conventions: the whole finite grid × random reals ----------------
    specs = []
    grid = []
    for frame in ('Trento', 'BMK', None):
        for pb in (False, True):
            for ang in [('phi', u) for u in ('deg', 'degrees', 'rad', 'radian')] + [('FTn', n) for n in range(-3, 4)] + [(None, None)]:
                for var in [('varFTn', 1), ('varFTn', -1), ('varFTn', 2), ('varphi', None), (None, None),
                            ('varphi+varFTn', -1), ('varphi+varFTn', 1)]:
                    # varphi together with varFTn: what a transversely polarised point read from a file with a
                    # varphi column carries (update_from_grid fills in varFTn = -1 by default)
                    grid.append((frame, pb, ang, var))
                    if ang[0] == 'phi' and ang[1] in ('deg', 'rad') and var[0] in ('varFTn', None):
                        grid.append((frame, pb, ('phi+FTn', ang[1]), var))     # an angle together with a harmonic index
    reps = 1 if quick else 12
    for frame, pb, ang, var in grid * reps:
        names = rng.sample(ERRTYPES, rng.randint(0, 6))
        names = [e for e in ERRTYPES if e in names]
        spec = dict(frame=frame, pb=pb, val=rng.uniform(-50, 50) * 10 ** rng.randint(-3, 3),
                    errnames=names, errs=[rng.uniform(0, 5) for _ in names],
                    phi=None, phiunit='rad', FTn=None, varphi=None, varFTn=None)
        if ang[0] in ('phi', 'phi+FTn'):
            if ang[0] == 'phi+FTn':
                spec['FTn'] = rng.choice([-2, -1, 0, 1, 3])
            spec['phiunit'] = ang[1]
            # a fifth of the angles at the special values (180 deg in the Trento frame is 0.0 internally: falsy in Python)
            if rng.random() < 0.2:
                spec['phi'] = rng.choice([0.0, 90.0, 180.0, 180.0, 270.0, 360.0]) if ang[1][:3] == 'deg' else \
                    rng.choice([0.0, math.pi / 2, math.pi, math.pi, 1.5 * math.pi])
            else:
                spec['phi'] = rng.uniform(0, 360) if ang[1][:3] == 'deg' else rng.uniform(0, 2 * math.pi)
        elif ang[0] == 'FTn':
            spec['FTn'] = ang[1]
        if var[0] == 'varFTn':
            spec['varFTn'] = var[1]
        elif var[0] in ('varphi', 'varphi+varFTn'):
            if var[0] == 'varphi+varFTn':
                spec['varFTn'] = var[1]
            spec['varphi'] = rng.choice([0.0, math.pi / 2, math.pi]) if rng.random() < 0.2 else rng.uniform(0, 2 * math.pi)
        specs.append(spec)
    for spec in specs:
        nerr = len(spec['errs'])
        # to_conventions
        pt = mk_point(g, spec)
        try:
            pt.to_conventions()
            st1 = read_point(pt, spec)
            extra_ok = (pt.get('origval') == spec['val'] and
                        all(pt.get('orig' + k) == e for k, e in zip(spec['errnames'], spec['errs'])))
            if not extra_ok:
                st1['ORIG-NOT-KEPT'] = True
        except ValueError:
            st1 = 'ValueError'
        except Exception as e:
            st1 = 'EXC:' + type(e).__name__
        lines.append('c13.toconv ' + cpt_tokens(spec))
        meta.append(dict(kind='toconv', spec=spec, impl=st1, nerr=nerr))
        rep.hist('conv.frame', spec['frame'])
        rep.hist('conv.angle', 'phi-' + spec['phiunit'] if spec['phi'] is not None else 'FTn=%s' % spec['FTn'])
        rep.hist('conv.var', ('varphi' + ('+varFTn' if spec['varFTn'] is not None else '')) if spec['varphi'] is not None else 'varFTn=%s' % spec['varFTn'])
        if isinstance(st1, str):
            continue
        # from_conventions on the converted point, and the round trip on the real code
        try:
            pt.from_conventions()
            st2 = read_point(pt, spec)
        except Exception as e:
            st2 = 'EXC:' + type(e).__name__
        lines.append('c13.fromconv ' + cpt_tokens(spec, st1['val'], st1['errs'], st1['phi'], st1['varphi']))
        orig = dict(val=spec['val'], errs=spec['errs'], phi=spec['phi'], varphi=spec['varphi'])
        meta.append(dict(kind='fromconv', spec=spec, impl=st2, nerr=nerr, roundtrip_ok=same_state(st2, orig, 6),
                         orig=orig))
        # orig_conventions of a prediction, on the converted point
        pred = rng.uniform(-3, 3)
        pt2 = mk_point(g, spec)
        pt2.to_conventions()
        before = dict(pt2)
        try:
            o = pt2.orig_conventions(pred)
            if dict(pt2) != before:
                o = 'MUTATED'
        except Exception as e:
            o = 'EXC:' + type(e).__name__
        lines.append('c13.orig ' + cpt_tokens(spec, st1['val'], st1['errs'], st1['phi'], st1['varphi']) + ' ' + f2hex(pred))
        meta.append(dict(kind='orig', spec=spec, impl=o, pred=pred))
        # ---- the point is CHANGED while it is in internal conventions (uncertainties inflated / a systematic added, a
        # pseudo-datum in place of the value, another azimuth), then converted back: from_conventions must map the
        # CURRENT state (closed formula back_formula; and to_conventions of the result must give the changed state back)
        pt3 = mk_point(g, spec)
        pt3.to_conventions()
        mod = dict(val=st1['val'] * rng.choice([1.0, 0.5, -1.5, 2.0]) + rng.choice([0.0, 0.125, -3.0]),
                   errs=[e * rng.choice([1.5, 2.0, 3.0]) + rng.choice([0.0, 0.25]) for e in st1['errs']],
                   phi=None if st1['phi'] is None else rng.uniform(0, 2 * math.pi),
                   varphi=None if st1['varphi'] is None else rng.uniform(-math.pi, math.pi))
        pt3.val = mod['val']
        for k, e in zip(spec['errnames'], mod['errs']):
            setattr(pt3, k, e)
        if mod['phi'] is not None:
            pt3.phi = mod['phi']
        if mod['varphi'] is not None:
            pt3.varphi = mod['varphi']
        want = back_formula(spec, mod)
        try:
            pt3.from_conventions()
            st3 = read_point(pt3, spec)
            okrt = same_state(st3, want, 6)
            if okrt:
                pt3.to_conventions()
                okrt = same_state(read_point(pt3, spec), mod, 8)
        except Exception as e:
            st3 = 'EXC:' + type(e).__name__
            okrt = False
        lines.append('c13.fromconv ' + cpt_tokens(spec, mod['val'], mod['errs'], mod['phi'], mod['varphi']))
        meta.append(dict(kind='fromconv', spec=spec, impl=st3, nerr=nerr, roundtrip_ok=okrt, orig=want, modified=mod))
        rep.hist('conv.modified-between', 'pb' if spec['pb'] else 'nb')
        # ---- sequences of convention changes on one point (unbalanced prefixes, balanced as a whole): every step against
        # the model applied to the code's previous state; the whole sequence must restore the original point
        seq = SEQS[len(meta) % len(SEQS)]
        ps = mk_point(g, spec)
        state = dict(val=spec['val'], errs=spec['errs'], phi=spec['phi'], varphi=spec['varphi'])
        rep.hist('conv.sequence', '-'.join(seq))
        for step, opn in enumerate(seq):
            try:
                getattr(ps, opn + '_conventions')()
                new = read_point(ps, spec)
            except ValueError:
                new = 'ValueError'
            except Exception as e:
                new = 'EXC:' + type(e).__name__
            last = step == len(seq) - 1
            lines.append('c13.%sconv ' % opn + cpt_tokens(spec, state['val'], state['errs'], state['phi'], state['varphi']))
            meta.append(dict(kind=opn + 'conv', spec=spec, impl=new, nerr=nerr, orig=orig, sequence=seq, step=step,
                             roundtrip_ok=(not last) or same_state(new, orig, 16)))
            if isinstance(new, str):
                break
            state = new

    # ---------------- every bundled point: from_conventions restores the original ----------------
    nb = 0
    for k in sorted(g.dset):
        for ipt, pt in enumerate(g.dset[k]):
            if quick and rng.random() > 0.08:
                continue
            nb += 1
            c = pt.copy()
            c.newunits = dict(pt.get('newunits', {}))
            try:
                c.from_conventions()
                bad = []
                if 'origval' in pt and not close(c.val, pt.origval, 4):
                    bad.append(('val', c.val, pt.origval))
                for e in pt.get('errtypes', []):
                    if 'orig' + e in pt and not close(getattr(c, e), pt['orig' + e], 4):
                        bad.append((e, getattr(c, e), pt['orig' + e]))
                if 'origval' in pt:
                    o = pt.orig_conventions(pt.val)
                    if not close(o, pt.origval, 4):
                        bad.append(('orig_conventions(val)', o, pt.origval))
                c.to_conventions()
                for a in ('val', 'phi', 'varphi'):
                    if a in pt and not (close if a == 'val' else aclose)(c[a], pt[a], 6):
                        bad.append(('to(from(%s))' % a, c[a], pt[a]))
            except Exception as e:
                bad = [('exception', type(e).__name__, '')]
            rep.case('bundled', (k, ipt), nontrivial=True,
                     sample=dict(dataset=k, FTn=pt.get('FTn'), frame=pt.get('frame'), val=pt.get('val')))
            if bad:
                rep.violation('bundled/%s/FTn=%s/%s' % (pt.get('frame'), pt.get('FTn'), bad[0][0]),
                              'from_conventions on bundled point of dataset %s (FTn=%s, frame=%s) does not restore '
                              'the original: %s' % (k, pt.get('FTn'), pt.get('frame'), bad[:3]),
                              dict(dataset=k, index=ipt, bad=str(bad)))
    rep.coverage['bundled_points_checked'] = nb

    # ---------------- whole datasets, converted back and forth point after point ----------------
    # the points of one dataset share their units / newunits dictionaries (as loading creates them): converting one
    # point must not change what its siblings do
    keys = sorted(g.dset)
    phisets = [k for k in keys if len(g.dset[k]) > 1 and 'phi' in g.dset[k][0]]
    chosen = (rng.sample(phisets, min(6, len(phisets))) + rng.sample(keys, 6)) if quick else keys
    for k in chosen:
        ds = g.dset[k]
        if not len(ds):
            continue
        copies = [pt.copy() for pt in ds]
        for attr in ('newunits', 'units'):
            if attr in ds[0]:
                shared = dict(ds[0][attr])
                for c in copies:
                    setattr(c, attr, shared)
        bad = []
        try:
            for i, (c, pt) in enumerate(zip(copies, ds)):
                c.from_conventions()
                if 'origval' in pt and not close(c.val, pt.origval, 4):
                    bad.append((i, 'val after from_conventions', c.val, pt.origval))
                if 'phi' in pt and pt.get('units', {}).get('phi', '')[:3] == 'deg':
                    want = pt.phi / math.pi * 180.
                    if pt.get('frame') == 'Trento':
                        want = (math.pi - pt.phi) / math.pi * 180.
                    if not aclose(c.phi / 180. * math.pi, want / 180. * math.pi, 8):
                        bad.append((i, 'phi [deg] after from_conventions', c.phi, want))
            for i, (c, pt) in enumerate(zip(copies, ds)):
                c.to_conventions()
                for a in ('val', 'phi', 'varphi'):
                    if a in pt and not (close if a == 'val' else aclose)(c[a], pt[a], 6):
                        bad.append((i, 'to(from(%s))' % a, c[a], pt[a]))
        except Exception as e:
            bad.append((None, 'exception', type(e).__name__, str(e)[:100]))
        rep.case('bundled-set', k, nontrivial=True, sample=dict(dataset=k, points=len(ds)) if k == chosen[0] else None)
        if bad:
            rep.violation('bundled-set/%s' % bad[0][1].split(' ')[0],
                          'dataset %s, all points converted with from_conventions one after another and then back with '
                          'to_conventions: point %s: %s is %r, expected %r (%d such deviations)' % (
                              k, bad[0][0], bad[0][1], bad[0][2], bad[0][3], len(bad)),
                          dict(dataset=k, deviations=str(bad[:6])))

    # ---------------- model vs code ----------------
    try:
        out = common.run_driver(lines)
    except common.ModelUnavailable as ex:
        out = [None] * len(lines)
        rep.violation('model-unavailable', 'the Lean model driver of C13 could not be run (%s): completion is checked against the '
                      'consistent triple the inputs were drawn from, the convention maps against the closed formulas and round trips only'
                      % str(ex)[:300], dict(reason=str(ex)[:300]), found_input=False)
    for line, m, o in zip(lines, meta, out):
        kind = m['kind']
        if kind == 'fill':
            if o is None:
                model = None
            else:
                t = o.split()
                if t[0] == 'ok':
                    model = dict(zip(('xB', 'W', 'Q2', 't', 'tm', 'xi'), [None if x == 'N' else hex2f(x) for x in t[1:]]))
                else:
                    model = o
            impl = m['impl']
            rep.case('fill', line, sample=dict(given=m['given'], impl=str(impl)[:120]))
            def cond(k):
                # W**2 - Mp2 (and W**2 + Q2 - Mp2) cancel near threshold: an ulp of W**2 is amplified
                kw_ = m['kw']
                if k == 'Q2' and 'W' in kw_ and 'xB' in kw_:
                    return 1 + (kw_['W'] ** 2 + Mp2) / max(abs(kw_['W'] ** 2 - Mp2), 1e-300)
                if k == 'W' and 'xB' in kw_ and 'Q2' in kw_:
                    # W**2 = Q2/xB - Q2 + Mp2 cancels for xB -> 1 (whatever the order in which it is summed)
                    q, x_ = kw_['Q2'], kw_['xB']
                    return 1 + (abs(q / x_) + abs(q) + Mp2) / max(abs(q / x_ - q + Mp2), 1e-300)
                if k in ('xB', 'xi') and 'W' in kw_ and 'Q2' in kw_:
                    return 1 + (kw_['W'] ** 2 + Mp2) / max(abs(kw_['W'] ** 2 + kw_['Q2'] - Mp2), 1e-300)
                return 1
            if model is None:
                agree = True        # no model: the property oracle below decides alone
            else:
                agree = (impl == model) if (isinstance(impl, str) or isinstance(model, str)) else (
                    'ALTERED' not in impl and all(close(impl[k], model[k], 4 * cond(k)) for k in model))
            if m.get('edge') and (agree or model is None):
                # inputs outside the property's domain (xB = 0, 1, 2, W = 0 ...): only model and code are compared
                continue
            # property oracle on the real code: on EVERY in-domain case (also when model and code agree: a misreading they
            # share is seen here), with the conditioning of the completed variable carried into the tolerance
            n3 = len([k for k in m['given'] if k in ('xB', 'W', 'Q2')])
            n2 = len([k for k in m['given'] if k in ('t', 'tm')])
            viol = None
            if isinstance(impl, str):
                if impl == 'KinematicsError' and (n3 == 3 or n2 == 2):
                    viol = None
                elif impl == 'AssertionError' and (m['kw'].get('t', 0) > 0 or m['kw'].get('tm', 0) < 0):
                    viol = None           # the sign convention t <= 0, tm = -t >= 0
                else:
                    viol = 'well-determined input rejected with ' + impl
            else:
                if n3 == 3 or n2 == 2:
                    viol = 'over-determined input accepted'
                elif m['kw'].get('t', 0) > 0 or m['kw'].get('tm', 0) < 0:
                    viol = 'positive t / negative tm accepted'
                elif 'ALTERED' in impl:
                    viol = 'given value of %s altered' % impl['ALTERED']
                elif n3 == 2 and not all(close(impl[k], m['full'][k], 40 * cond(k)) for k in ('xB', 'W', 'Q2')):
                    viol = 'completed triple differs from the consistent triple'
                elif impl.get('xB') is not None and not close(impl['xi'], impl['xB'] / (2 - impl['xB']), 4):
                    viol = 'xi != xB/(2-xB)'
                elif n2 == 1 and not (impl['t'] is not None and impl['tm'] == -impl['t']):
                    viol = 'tm != -t'
                elif n3 < 2 and any(impl[k] is not None and k not in m['given'] for k in ('xB', 'W', 'Q2')):
                    viol = 'under-determined input silently completed'
            if agree and viol is None:
                continue
            rep.violation('fill/%s/%s' % ('+'.join(m['given']), (viol or 'model-mismatch').split(' ')[0]),
                          'DataPoint(%s): code gives %s, model %s%s' % (m['kw'], impl, model, '; ' + viol if viol else ''),
                          dict(kw=m['kw'], impl=str(impl), model=str(model), protocol_line=line),
                          found_input=viol is not None)
        elif kind in ('toconv', 'fromconv'):
            model = None if o is None else parse_cpt(o, m['nerr'])
            impl = m['impl']
            s = m['spec']
            rep.case(kind + ('.modified' if m.get('modified') else '.sequence' if m.get('sequence') else ''), line,
                     sample=dict(frame=s['frame'], FTn=s['FTn'], varFTn=s['varFTn'], pb=s['pb'],
                                 phiunit=s['phiunit'] if s['phi'] is not None else None))
            impl_cmp = impl if isinstance(impl, str) else {k: impl[k] for k in ('val', 'errs', 'phi', 'varphi')}
            agree = (model is None or same_state(impl_cmp, model, 4)) and not (isinstance(impl, dict) and impl.get('ORIG-NOT-KEPT'))
            rt_bad = m.get('roundtrip_ok') is False
            if agree and not rt_bad:
                continue
            tag = 'frame=%s/FTn=%s/varFTn=%s/pb=%s/phi=%s' % (s['frame'], s['FTn'], s['varFTn'], s['pb'],
                                                              s['phiunit'] if s['phi'] is not None else None)
            if rt_bad and m.get('modified'):
                rep.violation('roundtrip-modified/' + tag, 'a point (%s) converted with to_conventions, then changed to %s, then converted '
                              'back with from_conventions: the current state maps to %s, the code leaves %s (its from_conventions is not a '
                              'function of the current value / uncertainties / angles, or to_conventions does not invert it)' % (
                                  tag, m['modified'], m['orig'], impl),
                              dict(spec=s, changed_state=m['modified'], after=str(impl), required=m['orig'], protocol_line=line))
            elif rt_bad and m.get('sequence'):
                rep.violation('roundtrip-sequence/%s/' % '-'.join(m['sequence']) + tag, 'the sequence %s of convention changes on one point '
                              'does not restore it (%s): original %s, afterwards %s' % ('-'.join(m['sequence']), tag, m['orig'], impl),
                              dict(spec=s, sequence=list(m['sequence']), after=str(impl), original=m['orig'], protocol_line=line))
            elif rt_bad:
                rep.violation('roundtrip/' + tag, 'to_conventions then from_conventions does not restore the point '
                              '(%s): original %s, after round trip %s' % (tag, m['orig'], impl),
                              dict(spec=s, after=str(impl), original=m['orig'], protocol_line=line))
            else:
                rep.violation(kind + '/' + tag, '%s: code %s, model %s' % (kind, impl, model),
                              dict(spec=s, impl=str(impl), model=str(model), protocol_line=line),
                              found_input=False)
        else:
            impl = m['impl']
            s = m['spec']
            rep.case('orig', line, sample=dict(frame=s['frame'], FTn=s['FTn'], varFTn=s['varFTn'], pb=s['pb']))
            model = None if o is None else (hex2f(o) if o != 'bad-op' else o)
            if model is not None and not isinstance(impl, str) and not isinstance(model, str) and close(impl, model, 4):
                continue
            # property oracle: the same map that from_conventions applies to the value
            p3 = mk_point(g, s)
            found = False
            try:
                p3.to_conventions()
                p3.val = m['pred']
                p3.from_conventions()
                found = isinstance(impl, str) or not close(impl, p3.val, 4)
            except Exception:
                pass
            if model is None and not found:
                continue        # no model: the oracle alone decides
            rep.violation('orig/frame=%s/FTn=%s/varFTn=%s/pb=%s' % (s['frame'], s['FTn'], s['varFTn'], s['pb']),
                          'orig_conventions(%r) gives %r, model %r, from_conventions maps the value to %r' % (
                              m['pred'], impl, model, p3.get('val')),
                          dict(spec=s, impl=str(impl), model=str(model), protocol_line=line), found_input=found)
    if not ok and not rep.violations:
        rep.violation('lean', 'Lean side of C13 no longer checks: ' + why, dict(reason=why), found_input=False)
    rep.assumptions += ['floats compared within 4 ulp (6 ulp for the degree<->radian round trip); theorems are over ℝ',
                        'completion oracle: the completed variable within 40 ulp x the condition number of its formula (W^2 - M^2, '
                        'W^2 + Q2 - M^2 and Q2/xB - Q2 + M^2 cancel near threshold / xB -> 1) of the consistent triple the inputs were drawn from',
                        'a DataPoint in internal conventions may be changed (value, uncertainties, angles) before from_conventions: the '
                        'convention change is a map of the current state (property: "the same map"; "restores ... all uncertainties")',
                        'points are built with DataPoint(**kwargs) carrying exactly the attributes the conventions read']
    return rep.finish(level='proof', checker_cmd='lake build Props.C13; #print axioms; gepdriver c13.* vs DataPoint',
                      trusted=['Lean 4.33 kernel', 'Scalar/Conv.lean.in instantiated at Float and ℝ (same text)',
                               'harness/props/C13.py'])


def replay(path):
    print(open(path).read()[:3000])
    return 0

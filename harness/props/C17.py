"""C17 — dataset selection, slicing, concatenation and copying have list semantics.

Lean: Props/C17.lean over Model/DataSetOps.lean (select = filter, slice = CPython index
arithmetic, add = append + agreed attributes, copy = value copy).
Correspondence: gepard.select / DataSet.__getitem__ / __add__ / DataPoint.copy on the bundled
datasets versus the Lean model driven through the line protocol; exact comparison.
"""
import hashlib
import operator

import common

OPS = {'>': operator.gt, '<': operator.lt, '>=': operator.ge, '<=': operator.le,
       '==': operator.eq, '!=': operator.ne}


def canon(v):
    """canonical text of an attribute value: numbers by value (1 == 1.0), containers recursively"""
    if isinstance(v, bool) or v is None or isinstance(v, str):
        return repr(v)
    if isinstance(v, (int, float)):
        return repr(float(v))
    if isinstance(v, dict):
        return '{' + ','.join(sorted(canon(k) + ':' + canon(x) for k, x in v.items())) + '}'
    if isinstance(v, (list, tuple)):
        return '[' + ','.join(canon(x) for x in v) + ']'
    return repr(v)


def digest(v):
    return hashlib.sha1(canon(v).encode()).hexdigest()[:10]


def safe_key(k):
    """attribute names may contain blanks or '=' (anything left of the first '=' in a preamble line)"""
    k = str(k)
    return k if k.replace('_', '').isalnum() else 'hex' + k.encode().hex()


def attrs_tokens(d):
    """attribute dictionary -> protocol tokens key=digest (insertion order)"""
    toks = ['%s=%s' % (safe_key(k), digest(v)) for k, v in d.items()]
    return toks or ['-']


def pt_fingerprint(p):
    """cheap fingerprint of a point as a dictionary (insertion order ignored, as dict == does):
    keys + values (containers through their canonical text)"""
    return hash(frozenset((k, v if isinstance(v, (int, float, str, bool, type(None))) else canon(v))
                          for k, v in p.items() if k != 'dataset'))


def snapshot_ids(ds):
    return [id(p) for p in list.__iter__(ds)]


def snapshot(ds):
    return ([id(p) for p in ds], [pt_fingerprint(p) for p in ds], attrs_tokens(ds.__dict__))


def numeric_attrs(ds):
    """attributes present on every point with plain numeric values"""
    if not len(ds):
        return []
    keys = None
    for p in ds:
        ks = {k for k, v in p.items() if isinstance(v, (int, float)) and not isinstance(v, bool)
              and v == v and str(k).isidentifier()}     # `eval('pt.' + criterion)` needs an identifier
        keys = ks if keys is None else keys & ks
    return sorted(keys)


def gen_criteria(rng, ds, rep):
    """structured criteria (attr, op, value) with thresholds taken from the data so that
    they overlap; sometimes unsatisfiable; sometimes a string-equality criterion."""
    attrs = numeric_attrs(ds)
    crit = []
    n = rng.choice([0, 1, 1, 2, 2, 3, 4])
    for _ in range(n):
        kind = rng.random()
        if kind < 0.12 or not attrs:
            crit.append(('observable', rng.choice(['==', '!=']),
                         repr(getattr(ds[0], 'observable', 'XX')) if rng.random() < 0.7 else "'nope'"))
        elif kind < 0.22:
            a = rng.choice(attrs)
            crit.append((a, '>', repr(1e30)))            # unsatisfiable
        else:
            a = rng.choice(attrs)
            v = getattr(rng.choice(ds), a)
            crit.append((a, rng.choice(list(OPS)), repr(v)))
    return crit


def truth(pt, c):
    a, op, v = c
    return OPS[op](getattr(pt, a), eval(v))


def fresh_point(gdata, p):
    """a new DataPoint with the items of p (built without DataPoint.copy, which is itself under test)"""
    q = gdata.DataPoint()
    q.clear()
    q.update(dict(p))
    return q


def temporaries_stream(rep, rng, g, dsets, rounds):
    """Oracle stream (plain list operations, no model): the property on SHORT-LIVED datasets.

    Analysis scripts rarely keep the intermediate datasets: they write select(ds[:8], crit), (a[:4] + b[-4:])[::2],
    select(select(ds, c1), c2) with the inner dataset dropped as soon as the call returns.  One round fixes an operation
    (criteria + logic, a slice, a concatenation shape) and applies it to temporaries built the same way from a sequence of
    DIFFERENT source datasets, each temporary created inline and dropped before the next one is made (CPython then hands
    out the same addresses again); every result is compared with the same operation on plain lists of the source points:
    identical objects in the same order, a DataSet, the attributes of the source, the source untouched.
    A last kind keeps one private dataset alive and re-assigns a point attribute between two identical selections: the
    second selection is the list filter with the CURRENT attribute values."""
    from gepard import data as gdata
    big = [d for d in dsets if len(d) >= 6]
    nattrs = {id(d): set(numeric_attrs(d)) for d in big}          # the bundled datasets stay alive: id() is a sound key here
    common_attrs = [a for a in ('val', 'err', 'Q2', 'xB', 't', 'W', 'phi') if sum(1 for d in big if a in nattrs[id(d)]) >= 12]

    def same(got, want):
        return len(got) == len(want) and all(a is b for a, b in zip(got, want))

    def describe(got, ref):
        foreign = sum(1 for p in got if not any(p is r for r in ref))
        return '%d points of which %d are not in the dataset given' % (len(got), foreign)

    def lfilter(points, crit, logic):
        comb = all if logic == 'AND' else any
        return [p for p in points if comb([truth(p, c) for c in crit])]

    def attrs_of(d):
        return attrs_tokens(d.__dict__)

    def report(kind, what, payload):
        rep.violation('temporary/%s' % kind, what, dict(op='temporary/' + kind, input=payload))

    for r in range(rounds):
        kind = ('select-slice', 'select-cat', 'slice-slice', 'cat-slice', 'select-select', 'copy-of-slice', 'select-mutated')[r % 7]
        rep.hist('temporary.kind', kind)
        attrs = rng.sample(common_attrs, min(len(common_attrs), rng.randint(1, 2))) if common_attrs else []
        pool = [d for d in big if all(a in nattrs[id(d)] for a in attrs)]
        if len(pool) < 4:
            continue
        srcs = rng.sample(pool, min(len(pool), rng.randint(6, 10)))
        k = rng.randint(3, min(len(d) for d in srcs))
        k = min(k, 12)
        # one fixed operation for the whole round
        crit = []
        for a in attrs:
            v = getattr(rng.choice(rng.choice(srcs)), a)
            crit.append((a, rng.choice(['>', '<', '>=', '<=']), repr(v if rng.random() < 0.7 else 0.0)))
        strs = ['%s %s %s' % c for c in crit]
        logic = rng.choice(['AND', 'OR'])
        sl = slice(rng.choice([None, 0, 1, -k]), rng.choice([None, k, -1, k - 1]), rng.choice([None, 1, 2, -1]))
        if kind == 'select-mutated' and not crit:
            continue
        h = k // 2
        for j, ds in enumerate(srcs):
            ds2 = srcs[(j + 1) % len(srcs)]
            base, base2 = list(ds), list(ds2)                       # plain lists of the source points
            before = ([id(p) for p in ds], attrs_of(ds))
            payload = dict(kind=kind, dataset=getattr(ds, 'id', None), second=getattr(ds2, 'id', None), k=k, criteria=strs, logic=logic,
                           slice=[sl.start, sl.stop, sl.step], position_in_round=j)
            rep.case('temporary', (kind, payload['dataset'], payload['second'], k, tuple(strs), logic, str(sl)))
            # ---- harness side: the operation on plain lists (ref = points of the temporary, want = points of the result) ----
            want_attrs = before[1]
            own = None
            if kind == 'select-slice':
                ref = base[:k]
                want = lfilter(ref, crit, logic)
                real = lambda: g.select(ds[:k], strs, logic)
            elif kind == 'select-cat':
                ref = base[:h] + base2[-(k - h):]
                want = lfilter(ref, crit, logic)
                want_attrs = None                                   # attributes of a concatenation: checked by the add stream
                real = lambda: g.select(ds[:h] + ds2[-(k - h):], strs, logic)
            elif kind == 'slice-slice':
                ref = base[-k:]
                want = ref[sl]
                real = lambda: ds[-k:][sl]
            elif kind == 'cat-slice':
                ref = base[:h] + base2[:k - h]
                want = ref[sl]
                want_attrs = None
                real = lambda: (ds[:h] + ds2[:k - h])[sl]
            elif kind == 'select-select':
                ref = base[:k]
                want = lfilter(lfilter(ref, crit[:1], 'AND'), crit, logic)
                real = lambda: g.select(g.select(ds[:k], strs[:1], 'AND'), strs, logic)
            elif kind == 'copy-of-slice':
                src_pt = base[k - 1]
                saved = dict(src_pt)
                try:
                    c = ds[:k][k - 1].copy()
                    bad = 'is the point itself' if c is src_pt else ('has other items than the point' if dict(c) != saved else None)
                    if bad is None:
                        c.val = 12345.678
                        c['verif_tmp'] = 1
                        if dict(src_pt) != saved:
                            bad = 'is not independent of it: assigning val and a new key on the copy changed the original point'
                except Exception as e:
                    bad = 'raised %s' % type(e).__name__
                finally:
                    if dict(src_pt) != saved:
                        src_pt.clear()
                        src_pt.update(saved)
                if bad:
                    report('copy', 'the copy of point %d of the temporary slice [:%d] of dataset %s %s' % (k - 1, k, payload['dataset'], bad), payload)
                continue
            else:  # select-mutated: one private dataset kept alive, a point attribute re-assigned between identical calls
                a0 = crit[0][0]
                own = gdata.DataSet([fresh_point(gdata, p) for p in base[:k]])
                own.__dict__ = dict(ds.__dict__)
                want_attrs = attrs_of(own)
                want1 = lfilter(list(own), crit, logic)
                try:
                    first = g.select(own, strs, logic)
                    if not same(first, want1):
                        report('select', 'select on a private dataset (copies of the first %d points of dataset %s), criteria %s (%s): got %s, '
                               'the list filter gives %d points' % (k, payload['dataset'], strs, logic, describe(first, list(own)), len(want1)), payload)
                except Exception as e:
                    report('exception/' + type(e).__name__, 'select on a private dataset (copies of the first %d points of dataset %s), criteria '
                           '%s (%s) raised %s' % (k, payload['dataset'], strs, logic, type(e).__name__), payload)
                first = None
                q = own[rng.randrange(k)]
                old = q[a0]
                thr = eval(crit[0][2])
                q[a0] = thr + (abs(thr) + 1.0) * (1 if old <= thr else -1)        # to the other side of the threshold
                payload = dict(payload, changed_attribute=a0, old=old, new=q[a0])
                ref = list(own)
                want = lfilter(ref, crit, logic)
                rep.hist('temporary.mutated', 'selection changes' if not same(want, want1) else 'selection unchanged')
                real = lambda: g.select(own, strs, logic)
            # ---- the real code ----
            try:
                got = real()
            except Exception as e:
                report('exception/' + type(e).__name__, '%s on a short-lived dataset made from dataset %s (k=%d, criteria %s, %s, slice %s) raised %s: %s' % (
                    kind, payload['dataset'], k, strs, logic, payload['slice'], type(e).__name__, str(e)[:200]), payload)
                got = None
            if got is not None:
                ok_type = type(got).__name__ == 'DataSet'
                if not same(got, want) or not ok_type:
                    report(kind.split('-')[0], '%s on a short-lived dataset (k=%d, criteria %s, %s, slice %s; datasets %s/%s, number %d of '
                           'the round): got %s%s, the same operation on plain lists gives %d points' % (
                               kind, k, strs, logic, payload['slice'], payload['dataset'], payload['second'], j,
                               describe(got, ref), '' if ok_type else ' of type ' + type(got).__name__, len(want)), payload)
                elif want_attrs is not None and attrs_of(got) != want_attrs:
                    report('attrs', '%s on a short-lived dataset made from dataset %s: the result does not carry the attributes of '
                           'the source' % (kind, payload['dataset']), payload)
            got = real = None
            if ([id(p) for p in ds], attrs_of(ds)) != before:
                report('source-mutated', '%s on a temporary made from dataset %s changed the dataset' % (kind, payload['dataset']), payload)
    rep.notes.append('stream "temporary" is an oracle stream (plain list operations on the source points; no model): the property on '
                     'datasets that are created inline and dropped, and on a private dataset whose point attributes change between calls')


def run(rep):
    import gepard as g
    from gepard import data as gdata
    tier = rep.tier
    rng = rep.rng
    ok, why = common.lean_side(rep, 'C17')
    lean_broken = None if ok else why

    dsets = [g.dset[k] for k in sorted(g.dset)]
    nsel = 400 if tier == 'quick' else 6000
    nslice = 400 if tier == 'quick' else 6000
    nadd = 150 if tier == 'quick' else 2000
    ncopy = 100 if tier == 'quick' else 1500

    cases = []   # (kind, payload, protocol line, impl result string, spec result string)

    def idx_of(src_ids, res):
        pos = {}
        for i, pid in enumerate(src_ids):
            pos.setdefault(pid, []).append(i)
        out = []
        for p in res:
            lst = pos.get(id(p))
            if not lst:
                return None
            out.append(lst[0])
        return out

    # ---------------- select ----------------
    def one_select(ds, logic, crit):
        T = [[truth(p, c) for c in crit] for p in ds]
        rows = [''.join('1' if b else '0' for b in r) or '-' for r in T]
        line = 'c17.select %s %d %s' % (logic, len(crit), ' '.join(rows))
        spec_idx = [k for k, r in enumerate(T) if (all(r) if logic == 'AND' else any(r))]
        before = snapshot(ds)
        strs = ['%s %s %s' % c for c in crit]
        try:
            res = g.select(ds, criteria=strs, logic=logic)
            ii = idx_of(before[0], res)
            impl = 'FOREIGN' if ii is None else (' '.join(map(str, ii)) or '-')
            if type(res).__name__ != 'DataSet':
                impl += ' TYPE:' + type(res).__name__
            impl_attrs = attrs_tokens(res.__dict__)
        except Exception as e:
            impl, impl_attrs = 'EXC:' + type(e).__name__, None
        after = snapshot(ds)
        spec = ' '.join(map(str, spec_idx)) or '-'
        cases.append(('select', dict(dataset=getattr(ds, 'id', None), npts=len(ds), logic=logic,
                                     criteria=strs), line, impl, spec,
                      dict(attrs_ok=(impl_attrs is None or impl_attrs == before[2]),
                           source_ok=(before == after))))
        rep.hist('select.logic', logic)
        rep.hist('select.ncrit', len(crit))
        rep.hist('select.result', 'empty' if not spec_idx else ('all' if len(spec_idx) == len(ds) else 'some'))
        if logic == 'OR' and any(sum(r) > 1 for r in T):
            rep.hist('select.overlap', 'point satisfies >1 criterion')


    for i in range(nsel):
        ds = rng.choice(dsets)
        if rng.random() < 0.25 and len(ds) > 3:           # also selections of selections / slices
            try:
                ds = ds[rng.randrange(len(ds)):] if rng.random() < 0.5 else ds[:max(1, len(ds) // 2)]
            except Exception:
                pass
            if not len(ds):
                ds = rng.choice(dsets)
        whole = ds
        logic = rng.choice(['AND', 'OR'])
        crit = gen_criteria(rng, ds, rep)
        one_select(ds, logic, crit)
        # the SAME criteria and logic on a related dataset right afterwards (a part of it, the whole it came from,
        # every other point): selections must not remember earlier ones
        if rng.random() < 0.35 and len(ds) > 2:
            rel = rng.choice(['tail', 'stride', 'again', 'head'])
            try:
                ds2 = {'tail': lambda: ds[rng.randrange(1, len(ds)):], 'stride': lambda: ds[::2], 'again': lambda: ds,
                       'head': lambda: ds[:len(ds) // 2]}[rel]()
            except Exception:
                ds2 = None
            if ds2 is not None and len(ds2):
                rep.hist('select.repeat', rel)
                one_select(ds2, logic, crit)

    # ---------------- slices ----------------
    def rnd_bound(n):
        r = rng.random()
        if r < 0.2:
            return None
        return rng.randint(-n - 3, n + 3)

    for i in range(nslice):
        ds = rng.choice(dsets)
        n = len(ds)
        a, b = rnd_bound(n), rnd_bound(n)
        c = rng.choice([None, None, 1, 2, 3, -1, -2, -3, 0 if rng.random() < 0.3 else 5, n + 1])
        sl = slice(a, b, c)
        line = 'c17.slice %d %s %s %s' % (n, *('N' if v is None else str(v) for v in (a, b, c)))
        before = snapshot(ds)
        try:
            spec_idx = list(range(n))[sl]
            spec = ' '.join(map(str, spec_idx)) or '-'
        except ValueError:
            spec = 'ValueError'
        try:
            res = ds[sl]
            ii = idx_of(before[0], res)
            # positions are decided by identity; with repeated objects fall back to identity list
            if ii is not None and [id(p) for p in res] == [before[0][k] for k in (
                    list(range(n))[sl])]:
                impl = spec if spec != 'ValueError' else 'NOERROR'
            else:
                impl = 'WRONG:' + (' '.join(map(str, ii)) if ii is not None else 'FOREIGN')
            if type(res).__name__ != 'DataSet':
                impl += ' TYPE:' + type(res).__name__
            impl_attrs = attrs_tokens(res.__dict__)
        except Exception as e:
            impl, impl_attrs = ('ValueError' if isinstance(e, ValueError) else 'EXC:' + type(e).__name__), None
        after = snapshot(ds)
        cases.append(('slice', dict(dataset=getattr(ds, 'id', None), npts=n, slice=[a, b, c]),
                      line, impl, spec,
                      dict(attrs_ok=(impl_attrs is None or impl_attrs == before[2]),
                           source_ok=(before == after))))
        rep.hist('slice.step', c)
        rep.hist('slice.result', 'error' if spec == 'ValueError' else ('empty' if spec == '-' else 'nonempty'))

    # ---------------- concatenation ----------------
    for i in range(nadd):
        a = rng.choice(dsets)
        r = rng.random()
        if r < 0.45:          # two pieces of the same dataset
            k = rng.randrange(len(a) + 1)
            try:
                x, y = a[:k], a[k:]
            except Exception:
                x, y = a, a
        elif r < 0.6:
            x, y = a, a
        else:
            x, y = a, rng.choice(dsets)
        # an empty operand on either side (seeded change C17-11: `empty + b` returned b itself): the empty slice of another
        # dataset (its attributes), or a bare DataSet([]) (no attributes) — the start of an accumulation loop
        re_ = rng.random()
        if re_ < 0.2:
            try:
                e = rng.choice(dsets)[0:0] if rng.random() < 0.5 else type(a)([])
                x, y = (e, y) if rng.random() < 0.5 else (x, e)
            except Exception:
                pass
        bx, by = snapshot(x), snapshot(y)
        line = 'c17.add %s | %s' % (' '.join(bx[2]), ' '.join(by[2]))
        spec_pts = bx[0] + by[0]
        # Python spec of the attributes of x + y: the descriptive attributes of x on which y agrees (all of them when
        # both operands carry the same ones), in the order of x
        try:
            yd = dict(y.__dict__)
            spec_add = ' '.join(attrs_tokens({k: v for k, v in x.__dict__.items() if k in yd and bool(yd[k] == v)}))
        except Exception:
            spec_add = None          # attribute values that cannot be compared: no spec, the model alone is no verdict
        try:
            res = x + y
            impl_pts = [id(p) for p in res]
            impl = ' '.join(attrs_tokens(res.__dict__))
            if type(res).__name__ != 'DataSet':
                impl += ' TYPE:' + type(res).__name__
            pts_ok = impl_pts == spec_pts
        except Exception as e:
            impl, pts_ok = 'EXC:' + type(e).__name__, True
        ax, ay = snapshot(x), snapshot(y)
        # list semantics: x + y is a NEW list, so growing it or assigning an attribute on it never reaches x or y
        fresh_ok = True
        try:
            res2 = x + y
            probe = object()
            list.append(res2, probe)
            res2.verif_probe_attr = 1
            fresh_ok = (snapshot_ids(x) == bx[0] and snapshot_ids(y) == by[0]
                        and 'verif_probe_attr' not in x.__dict__ and 'verif_probe_attr' not in y.__dict__)
            for o in (x, y):                     # put an aliased source back as it was
                if len(o) and o[-1] is probe:
                    list.pop(o)
                o.__dict__.pop('verif_probe_attr', None)
        except Exception:
            pass
        cases.append(('add', dict(a=getattr(x, 'id', None), b=getattr(y, 'id', None),
                                  na=len(x), nb=len(y), same_attrs=(bx[2] == by[2])),
                      line, impl, spec_add,
                      dict(pts_ok=pts_ok, source_ok=(bx == ax and by == ay), fresh_ok=fresh_ok)))
        rep.hist('add.kind', 'same-attrs' if bx[2] == by[2] else 'different-attrs')
        rep.hist('add.empty-operand', 'left' if not len(x) else ('right' if not len(y) else 'none'))

    # ---------------- copies ----------------
    for i in range(ncopy):
        ds = rng.choice(dsets)
        pt = rng.choice(ds)
        keys = [k for k in pt.keys() if k != 'dataset']
        assign = []
        for _ in range(rng.randint(1, 4)):
            if rng.random() < 0.6 and keys:
                assign.append((rng.choice(keys), rng.choice([0.123, -7, 'zz'])))
            else:
                assign.append(('verif_new_%d' % rng.randrange(3), rng.random()))
        items = [(k, v) for k, v in pt.items() if k != 'dataset']
        tok_o = ['%s=%s' % (safe_key(k), digest(v)) for k, v in items]
        tok_a = ['%s=%s' % (safe_key(k), digest(v)) for k, v in assign]
        line = 'c17.copyset %s | %s' % (' '.join(tok_o), ' '.join(tok_a))
        # Python spec: the original keeps its items; the copy is a dictionary with the same items to which the
        # assignments were applied (an existing key keeps its place, a new key goes to the end)
        spec_d = dict(items)
        for k, v in assign:
            spec_d[k] = v
        spec_copy = (' '.join(tok_o) or '-') + ' | ' + (' '.join('%s=%s' % (safe_key(k), digest(v)) for k, v in spec_d.items()) or '-')
        try:
            c = pt.copy()
            if c is pt:
                raise AssertionError('copy returned the point itself')
            for k, v in assign:
                if rng.random() < 0.5:
                    setattr(c, k, v)
                else:
                    c[k] = v
            so = ' '.join('%s=%s' % (safe_key(k), digest(v)) for k, v in pt.items() if k != 'dataset') or '-'
            sc = ' '.join('%s=%s' % (safe_key(k), digest(v)) for k, v in c.items() if k != 'dataset') or '-'
            impl = so + ' | ' + sc
            if type(c).__name__ != 'DataPoint' or c.__dict__ is not c:
                impl += ' BADCOPY'
        except AssertionError:
            impl = 'SAMEOBJECT'
        except Exception as e:
            impl = 'EXC:' + type(e).__name__
        finally:
            # restore the bundled point if the copy aliased it
            for k, v in items:
                pt[k] = v
            for k in list(pt.keys()):
                if k.startswith('verif_new_'):
                    del pt[k]
        cases.append(('copy', dict(dataset=getattr(ds, 'id', None), assign=[list(map(str, a)) for a in assign]),
                      line, impl, spec_copy, {}))

    # ---------------- single index (a degenerate slice): ds[i] is the i-th point of the list ----------------
    for i in range(nslice // 4):
        ds = rng.choice(dsets)
        n = len(ds)
        if not n:
            continue
        k = rng.randrange(-n, n)
        ref = list(ds)
        rep.case('index', (getattr(ds, 'id', None), k))
        try:
            got = ds[k]
            bad = None if got is ref[k] else 'returned %s' % ('another point of the dataset' if any(got is q for q in ref) else 'an object that is not in the dataset')
        except Exception as e:
            bad = 'raised ' + type(e).__name__
        if bad is None and [id(q) for q in ds] != [id(q) for q in ref]:
            bad = 'changed the dataset'
        if bad:
            rep.violation('index/%s' % bad.split()[0], 'dataset %s (%d points): ds[%d] %s, a list gives its point number %d' % (
                getattr(ds, 'id', None), n, k, bad, k % n), dict(op='index', input=dict(dataset=getattr(ds, 'id', None), npts=n, index=k)))

    # ---------------- the same operations on short-lived datasets (oracle: plain list operations) ----------------
    temporaries_stream(rep, rng, g, dsets, 40 if tier == 'quick' else 600)

    # ---------------- run the model and compare ----------------
    try:
        model = common.run_driver([c[2] for c in cases])
    except common.ModelUnavailable as ex:
        # the model cannot be run: every case is still compared with its Python spec (list semantics) below
        model = [None] * len(cases)
        rep.violation('model-unavailable', 'the Lean model of the dataset operations could not be run (%s): select/slice/add/copy were '
                      'compared with the Python list-semantics spec only' % str(ex)[:300], dict(reason=str(ex)[:300]), found_input=False)
    for (kind, payload, line, impl, spec, side), mod in zip(cases, model):
        rep.case(kind, line, nontrivial=True, sample=dict(payload, impl=impl[:80], model=(mod or 'unavailable')[:80]))
        problems = []
        if mod is not None and impl != mod:
            problems.append('result')
        if spec is not None and impl != spec and 'result' not in problems:
            problems.append('result')        # model and code agree (or no model) but the list-semantics spec says otherwise
        if side.get('attrs_ok') is False:
            problems.append('attrs')
        if side.get('pts_ok') is False:
            problems.append('points')
        if side.get('source_ok') is False:
            problems.append('source-mutated')
        if side.get('fresh_ok') is False:
            problems.append('result-aliases-source')
        if not problems:
            continue
        # which side is wrong?  spec = python list semantics computed by the harness.  A concrete failing input is claimed
        # only when the SPEC (not merely the model) says the code is wrong, or a side condition evaluated on the real
        # objects (points of x + y, attributes kept, source untouched) fails; model != code alone is no failing input
        code_wrong = (spec is not None and impl != spec) or any(side.get(k_) is False for k_ in ('attrs_ok', 'pts_ok', 'source_ok', 'fresh_ok'))
        if impl.startswith('EXC:'):
            cls = impl
        elif kind == 'select' and 'result' in problems:
            si = spec.split() if spec != '-' else []
            ii = impl.split() if impl != '-' else []
            cls = 'duplicates' if sorted(set(ii)) == sorted(set(si)) and len(ii) > len(si) else 'wrong-points'
        else:
            cls = '+'.join(problems)
        emptyish = (spec == '-') if spec is not None else False
        key = '%s/%s/%s%s' % (kind, payload.get('logic', ''), cls, '/empty' if emptyish else '')
        what = '%s on real gepard: %s; got %s, list semantics requires %s' % (
            kind, payload, impl[:200], (spec if spec is not None else (mod or '?'))[:200])
        rep.violation(key, what, dict(op=kind, input=payload, protocol_line=line, impl=impl,
                                      model=mod, spec=spec, problems=problems,
                                      reproduce='./check C17 --replay <this file>'),
                      found_input=code_wrong)
    if lean_broken and not rep.violations:
        rep.violation('lean', 'Lean side of C17 no longer checks: ' + lean_broken,
                      dict(theorem_or_stream=lean_broken), found_input=False)
    rep.assumptions += ['criteria are comparisons on point attributes; their truth values are computed '
                        'by the harness with operator.* and by gepard with eval()',
                        'attribute values are compared through sha1(repr(value))']
    return rep.finish(level='proof',
                      checker_cmd='lake build Props.C17 && #print axioms (all theorems) ; '
                                  'gepdriver vs gepard.select/__getitem__/__add__/copy',
                      trusted=['Lean 4.33 kernel', 'axioms ⊆ {propext, Classical.choice, Quot.sound}',
                               'harness/props/C17.py correspondence', 'CPython list/slice semantics'])


def replay(path):
    import json
    import gepard as g
    r = json.load(open(path))
    print(json.dumps({k: r[k] for k in ('op', 'input', 'impl', 'spec', 'what') if k in r}, indent=1))
    if r.get('op') == 'select':
        inp = r['input']
        ds = g.dset[inp['dataset']]
        res = g.select(ds, criteria=inp['criteria'], logic=inp['logic'])
        print('now:', len(res), 'points')
    return 0

"""C17 — dataset selection, slicing, concatenation and copying have list semantics.

Lean: Props/C17.lean over Model/DataSetOps.lean (select = filter, slice = CPython index
arithmetic, add = append + agreed attributes, copy = value copy).
Correspondence: gepard.select / DataSet.__getitem__ / __add__ / DataPoint.copy on the bundled
datasets versus the Lean model driven through the line protocol; exact comparison.
"""
import hashlib
import operator

import common

OPS = {'>': operator.gt, '<': operator.lt, '>=': operator.ge, '<=': operator.le,
       '==': operator.eq, '!=': operator.ne}


def canon(v):
    """canonical text of an attribute value: numbers by value (1 == 1.0), containers recursively"""
    if isinstance(v, bool) or v is None or isinstance(v, str):
        return repr(v)
    if isinstance(v, (int, float)):
        return repr(float(v))
    if isinstance(v, dict):
        return '{' + ','.join(sorted(canon(k) + ':' + canon(x) for k, x in v.items())) + '}'
    if isinstance(v, (list, tuple)):
        return '[' + ','.join(canon(x) for x in v) + ']'
    return repr(v)


def digest(v):
    return hashlib.sha1(canon(v).encode()).hexdigest()[:10]


def safe_key(k):
    """attribute names may contain blanks or '=' (anything left of the first '=' in a preamble line)"""
    k = str(k)
    return k if k.replace('_', '').isalnum() else 'hex' + k.encode().hex()


def attrs_tokens(d):
    """attribute dictionary -> protocol tokens key=digest (insertion order)"""
    toks = ['%s=%s' % (safe_key(k), digest(v)) for k, v in d.items()]
    return toks or ['-']


def pt_fingerprint(p):
    """cheap fingerprint of a point as a dictionary (insertion order ignored, as dict == does):
    keys + values (containers through their canonical text)"""
    return hash(frozenset((k, v if isinstance(v, (int, float, str, bool, type(None))) else canon(v))
                          for k, v in p.items() if k != 'dataset'))


def snapshot(ds):
    return ([id(p) for p in ds], [pt_fingerprint(p) for p in ds], attrs_tokens(ds.__dict__))


def numeric_attrs(ds):
    """attributes present on every point with plain numeric values"""
    if not len(ds):
        return []
    keys = None
    for p in ds:
        ks = {k for k, v in p.items() if isinstance(v, (int, float)) and not isinstance(v, bool)
              and v == v and str(k).isidentifier()}     # `eval('pt.' + criterion)` needs an identifier
        keys = ks if keys is None else keys & ks
    return sorted(keys)


def gen_criteria(rng, ds, rep):
    """structured criteria (attr, op, value) with thresholds taken from the data so that
    they overlap; sometimes unsatisfiable; sometimes a string-equality criterion."""
    attrs = numeric_attrs(ds)
    crit = []
    n = rng.choice([0, 1, 1, 2, 2, 3, 4])
    for _ in range(n):
        kind = rng.random()
        if kind < 0.12 or not attrs:
            crit.append(('observable', rng.choice(['==', '!=']),
                         repr(getattr(ds[0], 'observable', 'XX')) if rng.random() < 0.7 else "'nope'"))
        elif kind < 0.22:
            a = rng.choice(attrs)
            crit.append((a, '>', repr(1e30)))            # unsatisfiable
        else:
            a = rng.choice(attrs)
            v = getattr(rng.choice(ds), a)
            crit.append((a, rng.choice(list(OPS)), repr(v)))
    return crit


def truth(pt, c):
    a, op, v = c
    return OPS[op](getattr(pt, a), eval(v))


def run(rep):
    import gepard as g
    from gepard import data as gdata
    tier = rep.tier
    rng = rep.rng
    ok, why = common.lean_side(rep, 'C17')
    lean_broken = None if ok else why

    dsets = [g.dset[k] for k in sorted(g.dset)]
    nsel = 400 if tier == 'quick' else 6000
    nslice = 400 if tier == 'quick' else 6000
    nadd = 150 if tier == 'quick' else 2000
    ncopy = 100 if tier == 'quick' else 1500

    cases = []   # (kind, payload, protocol line, impl result string, spec result string)

    def idx_of(src_ids, res):
        pos = {}
        for i, pid in enumerate(src_ids):
            pos.setdefault(pid, []).append(i)
        out = []
        for p in res:
            lst = pos.get(id(p))
            if not lst:
                return None
            out.append(lst[0])
        return out

    # ---------------- select ----------------
    def one_select(ds, logic, crit):
        T = [[truth(p, c) for c in crit] for p in ds]
        rows = [''.join('1' if b else '0' for b in r) or '-' for r in T]
        line = 'c17.select %s %d %s' % (logic, len(crit), ' '.join(rows))
        spec_idx = [k for k, r in enumerate(T) if (all(r) if logic == 'AND' else any(r))]
        before = snapshot(ds)
        strs = ['%s %s %s' % c for c in crit]
        try:
            res = g.select(ds, criteria=strs, logic=logic)
            ii = idx_of(before[0], res)
            impl = 'FOREIGN' if ii is None else (' '.join(map(str, ii)) or '-')
            if type(res).__name__ != 'DataSet':
                impl += ' TYPE:' + type(res).__name__
            impl_attrs = attrs_tokens(res.__dict__)
        except Exception as e:
            impl, impl_attrs = 'EXC:' + type(e).__name__, None
        after = snapshot(ds)
        spec = ' '.join(map(str, spec_idx)) or '-'
        cases.append(('select', dict(dataset=getattr(ds, 'id', None), npts=len(ds), logic=logic,
                                     criteria=strs), line, impl, spec,
                      dict(attrs_ok=(impl_attrs is None or impl_attrs == before[2]),
                           source_ok=(before == after))))
        rep.hist('select.logic', logic)
        rep.hist('select.ncrit', len(crit))
        rep.hist('select.result', 'empty' if not spec_idx else ('all' if len(spec_idx) == len(ds) else 'some'))
        if logic == 'OR' and any(sum(r) > 1 for r in T):
            rep.hist('select.overlap', 'point satisfies >1 criterion')


    for i in range(nsel):
        ds = rng.choice(dsets)
        if rng.random() < 0.25 and len(ds) > 3:           # also selections of selections / slices
            try:
                ds = ds[rng.randrange(len(ds)):] if rng.random() < 0.5 else ds[:max(1, len(ds) // 2)]
            except Exception:
                pass
            if not len(ds):
                ds = rng.choice(dsets)
        whole = ds
        logic = rng.choice(['AND', 'OR'])
        crit = gen_criteria(rng, ds, rep)
        one_select(ds, logic, crit)
        # the SAME criteria and logic on a related dataset right afterwards (a part of it, the whole it came from,
        # every other point): selections must not remember earlier ones
        if rng.random() < 0.35 and len(ds) > 2:
            rel = rng.choice(['tail', 'stride', 'again', 'head'])
            try:
                ds2 = {'tail': lambda: ds[rng.randrange(1, len(ds)):], 'stride': lambda: ds[::2], 'again': lambda: ds,
                       'head': lambda: ds[:len(ds) // 2]}[rel]()
            except Exception:
                ds2 = None
            if ds2 is not None and len(ds2):
                rep.hist('select.repeat', rel)
                one_select(ds2, logic, crit)

    # ---------------- slices ----------------
    def rnd_bound(n):
        r = rng.random()
        if r < 0.2:
            return None
        return rng.randint(-n - 3, n + 3)

    for i in range(nslice):
        ds = rng.choice(dsets)
        n = len(ds)
        a, b = rnd_bound(n), rnd_bound(n)
        c = rng.choice([None, None, 1, 2, 3, -1, -2, -3, 0 if rng.random() < 0.3 else 5, n + 1])
        sl = slice(a, b, c)
        line = 'c17.slice %d %s %s %s' % (n, *('N' if v is None else str(v) for v in (a, b, c)))
        before = snapshot(ds)
        try:
            spec_idx = list(range(n))[sl]
            spec = ' '.join(map(str, spec_idx)) or '-'
        except ValueError:
            spec = 'ValueError'
        try:
            res = ds[sl]
            ii = idx_of(before[0], res)
            # positions are decided by identity; with repeated objects fall back to identity list
            if ii is not None and [id(p) for p in res] == [before[0][k] for k in (
                    list(range(n))[sl])]:
                impl = spec if spec != 'ValueError' else 'NOERROR'
            else:
                impl = 'WRONG:' + (' '.join(map(str, ii)) if ii is not None else 'FOREIGN')
            if type(res).__name__ != 'DataSet':
                impl += ' TYPE:' + type(res).__name__
            impl_attrs = attrs_tokens(res.__dict__)
        except Exception as e:
            impl, impl_attrs = ('ValueError' if isinstance(e, ValueError) else 'EXC:' + type(e).__name__), None
        after = snapshot(ds)
        cases.append(('slice', dict(dataset=getattr(ds, 'id', None), npts=n, slice=[a, b, c]),
                      line, impl, spec,
                      dict(attrs_ok=(impl_attrs is None or impl_attrs == before[2]),
                           source_ok=(before == after))))
        rep.hist('slice.step', c)
        rep.hist('slice.result', 'error' if spec == 'ValueError' else ('empty' if spec == '-' else 'nonempty'))

    # ---------------- concatenation ----------------
    for i in range(nadd):
        a = rng.choice(dsets)
        r = rng.random()
        if r < 0.45:          # two pieces of the same dataset
            k = rng.randrange(len(a) + 1)
            try:
                x, y = a[:k], a[k:]
            except Exception:
                x, y = a, a
        elif r < 0.6:
            x, y = a, a
        else:
            x, y = a, rng.choice(dsets)
        bx, by = snapshot(x), snapshot(y)
        line = 'c17.add %s | %s' % (' '.join(bx[2]), ' '.join(by[2]))
        spec_pts = bx[0] + by[0]
        try:
            res = x + y
            impl_pts = [id(p) for p in res]
            impl = ' '.join(attrs_tokens(res.__dict__))
            if type(res).__name__ != 'DataSet':
                impl += ' TYPE:' + type(res).__name__
            pts_ok = impl_pts == spec_pts
        except Exception as e:
            impl, pts_ok = 'EXC:' + type(e).__name__, True
        ax, ay = snapshot(x), snapshot(y)
        cases.append(('add', dict(a=getattr(x, 'id', None), b=getattr(y, 'id', None),
                                  na=len(x), nb=len(y), same_attrs=(bx[2] == by[2])),
                      line, impl, None,
                      dict(pts_ok=pts_ok, source_ok=(bx == ax and by == ay))))
        rep.hist('add.kind', 'same-attrs' if bx[2] == by[2] else 'different-attrs')

    # ---------------- copies ----------------
    for i in range(ncopy):
        ds = rng.choice(dsets)
        pt = rng.choice(ds)
        keys = [k for k in pt.keys() if k != 'dataset']
        assign = []
        for _ in range(rng.randint(1, 4)):
            if rng.random() < 0.6 and keys:
                assign.append((rng.choice(keys), rng.choice([0.123, -7, 'zz'])))
            else:
                assign.append(('verif_new_%d' % rng.randrange(3), rng.random()))
        items = [(k, v) for k, v in pt.items() if k != 'dataset']
        tok_o = ['%s=%s' % (safe_key(k), digest(v)) for k, v in items]
        tok_a = ['%s=%s' % (safe_key(k), digest(v)) for k, v in assign]
        line = 'c17.copyset %s | %s' % (' '.join(tok_o), ' '.join(tok_a))
        try:
            c = pt.copy()
            for k, v in assign:
                if rng.random() < 0.5:
                    setattr(c, k, v)
                else:
                    c[k] = v
            so = ' '.join('%s=%s' % (safe_key(k), digest(v)) for k, v in pt.items() if k != 'dataset') or '-'
            sc = ' '.join('%s=%s' % (safe_key(k), digest(v)) for k, v in c.items() if k != 'dataset') or '-'
            impl = so + ' | ' + sc
            if type(c).__name__ != 'DataPoint' or c.__dict__ is not c:
                impl += ' BADCOPY'
        except Exception as e:
            impl = 'EXC:' + type(e).__name__
        finally:
            # restore the bundled point if the copy aliased it
            for k, v in items:
                pt[k] = v
            for k in list(pt.keys()):
                if k.startswith('verif_new_'):
                    del pt[k]
        cases.append(('copy', dict(dataset=getattr(ds, 'id', None), assign=[list(map(str, a)) for a in assign]),
                      line, impl, None, {}))

    # ---------------- run the model and compare ----------------
    model = common.run_driver([c[2] for c in cases])
    for (kind, payload, line, impl, spec, side), mod in zip(cases, model):
        rep.case(kind, line, nontrivial=True, sample=dict(payload, impl=impl[:80], model=mod[:80]))
        problems = []
        if impl != mod:
            problems.append('result')
        if side.get('attrs_ok') is False:
            problems.append('attrs')
        if side.get('pts_ok') is False:
            problems.append('points')
        if side.get('source_ok') is False:
            problems.append('source-mutated')
        if not problems:
            continue
        # which side is wrong?  spec = python list semantics computed by the harness
        model_wrong = spec is not None and mod != spec
        if impl.startswith('EXC:'):
            cls = impl
        elif kind == 'select' and 'result' in problems:
            si = spec.split() if spec != '-' else []
            ii = impl.split() if impl != '-' else []
            cls = 'duplicates' if sorted(set(ii)) == sorted(set(si)) and len(ii) > len(si) else 'wrong-points'
        else:
            cls = '+'.join(problems)
        emptyish = (spec == '-') if spec is not None else False
        key = '%s/%s/%s%s' % (kind, payload.get('logic', ''), cls, '/empty' if emptyish else '')
        what = '%s on real gepard: %s; got %s, list semantics requires %s' % (
            kind, payload, impl[:200], (spec if spec is not None else mod)[:200])
        rep.violation(key, what, dict(op=kind, input=payload, protocol_line=line, impl=impl,
                                      model=mod, spec=spec, problems=problems,
                                      reproduce='./check C17 --replay <this file>'),
                      found_input=not model_wrong)
    if lean_broken and not rep.violations:
        rep.violation('lean', 'Lean side of C17 no longer checks: ' + lean_broken,
                      dict(theorem_or_stream=lean_broken), found_input=False)
    rep.assumptions += ['criteria are comparisons on point attributes; their truth values are computed '
                        'by the harness with operator.* and by gepard with eval()',
                        'attribute values are compared through sha1(repr(value))']
    return rep.finish(level='proof',
                      checker_cmd='lake build Props.C17 && #print axioms (all theorems) ; '
                                  'gepdriver vs gepard.select/__getitem__/__add__/copy',
                      trusted=['Lean 4.33 kernel', 'axioms ⊆ {propext, Classical.choice, Quot.sound}',
                               'harness/props/C17.py correspondence', 'CPython list/slice semantics'])


def replay(path):
    import json
    import gepard as g
    r = json.load(open(path))
    print(json.dumps({k: r[k] for k in ('op', 'input', 'impl', 'spec', 'what') if k in r}, indent=1))
    if r.get('op') == 'select':
        inp = r['input']
        ds = g.dset[inp['dataset']]
        res = g.select(ds, criteria=inp['criteria'], logic=inp['logic'])
        print('now:', len(res), 'points')
    return 0

"""C04 — x-space GPDs and F2 reproduce the input PDFs and DGLAP evolution.

Lean: Props/C04.lean (theorems about Gen/MBR.lean, the ℝ instantiation of Scalar/MB.lean.in, and — through
`--! import Evol` — about the C02 evolution model); the Float instantiation runs in the driver.

Correspondence (model vs code): quadrature.mellin_barnes, gpd.qj, singlet_ng_constrained(_E) / PWNormGPD.H, E,
ConformalSpaceGPD.Hx / Ex (eta = 0, eta = x, and the exception for any other eta), DIS.DISF2 on random
(x, parameters, p, scheme, nf, Q², phi, c), with the Gauss–Legendre roots, the Shuvaev factor, the evolution
operator entries (evolution.evolop / evolopns), the couplings and c1dvcs.C1 passed to the model as data.

Oracle streams (the property evaluated on the real code against closed forms — what no theorem carries, i.e.
the accuracy of the 96-point contour sum): input-scale Hx vs the closed-form PDFs for every p and scheme,
LO F2 = charge·x·Σ(x) at every Q², total momentum and the LO DGLAP solution for the second moments,
gluon-only input radiates quarks (NLO msbar included: a few input-scale cases and one momentum sum per run — see the
known finding momentum/msbar-nlo/forward-nd-term); one object of the combined GPD+CFF+DIS+DVMP class evaluating several
observables at one Q² in either order against fresh objects.  They support the theorems, they do not replace them.

The helpers of this file are shared with harness/props/C05.py.
"""
import math

import common
from common import f2hex, hex2f

TOL = 1e-9            # model vs code, relative to the sum of absolute values of the summed terms
PHI0 = 1.57079632     # default contour angle of ConformalSpaceGPD
C0 = 0.35             # default crossing point


# ------------------------------------------------------------------------------------------------
# shared helpers
# ------------------------------------------------------------------------------------------------

# the x-space singlet and gluon are built from the singlet and gluon moments only (the harness's own
# matrix: the code's frot_j2x / frot_pdf attributes are part of what is being checked)
FROT_X = [[1, 0, 0, 0], [0, 1, 0, 0], [0, 0, 0, 0]]


def hexes(arr):
    """16-hex-digit big-endian bit patterns of a float array (list of str)."""
    import numpy as np
    b = np.ascontiguousarray(np.asarray(arr, dtype='>f8')).tobytes().hex()
    return [b[i:i + 16] for i in range(0, len(b), 16)]


def cflat(z):
    """complex array -> float array (re, im interleaved along the last axis)"""
    import numpy as np
    z = np.asarray(z, dtype=complex)
    return np.stack([z.real, z.imag], axis=-1).reshape(z.shape[:-1] + (-1,)) if z.ndim else np.array([z.real, z.imag])


H_KEYS = ['ns', 'al0s', 'alps', 'ms2', 'al0g', 'alpg', 'mg2']
E_KEYS = ['Ens', 'Eal0s', 'Ealps', 'Ems2', 'Eal0g', 'Ealpg', 'Emg2']
RT = {'dipole': 0, 'exp': 1}


def theory_classes():
    import gepard as g

    class Th(g.gpd.PWNormGPD, g.cff.MellinBarnesCFF, g.dis.DIS, g.dvmp.MellinBarnesTFF):
        """PWNormGPD with every Mellin-Barnes observable attached (as the shipped KM fits build theirs)"""

    class ThNS(g.gpd.ConformalSpaceGPD, g.cff.MellinBarnesCFF, g.dis.DIS):
        """hep-ph/0703179 ansatz with valence parts and a non-singlet row in frot (as tests/cff_test.py)"""

        def __init__(self, type, **kwargs):
            import numpy as np
            self.type = type
            super().__init__(**kwargs)
            R = 0.5
            self.frot = np.array([[1, 0, 1, 1], [0, 1, 0, 0], [-R / (2 + R), 0, 1, -1]])

        def H(self, eta, t):
            return g.gpd.ansatz07_fixed(self.jpoints, t, self.type).transpose()
    return Th, ThNS


def random_pars(rng, al0g_max=1.34, small_pw=True):
    """model parameters inside the quantifier of C04 / C05"""
    w = 0.3 if small_pw else 1.0
    d = dict(
        ns=rng.uniform(0.01, 0.59), al0s=rng.uniform(1.0, 1.3), al0g=rng.uniform(1.0, al0g_max),
        alps=rng.uniform(0, 0.3), alpg=rng.uniform(0, 0.3), ms2=rng.uniform(0.3, 1.5), mg2=rng.uniform(0.3, 1.5),
        secs=rng.uniform(-w, w), secg=rng.uniform(-w, w), this=rng.uniform(-w / 3, w / 3), thig=rng.uniform(-w / 3, w / 3),
        kaps=rng.uniform(-2, 2),
        Ens=rng.uniform(0.01, 0.59), Eal0s=rng.uniform(1.0, 1.3), Eal0g=rng.uniform(1.0, 1.34),
        Ealps=rng.uniform(0, 0.3), Ealpg=rng.uniform(0, 0.3), Ems2=rng.uniform(0.3, 1.5), Emg2=rng.uniform(0.3, 1.5),
        Esecs=rng.uniform(-w, w), Esecg=rng.uniform(-w, w), Ethis=rng.uniform(-w / 3, w / 3),
        Ethig=rng.uniform(-w / 3, w / 3))
    # exact zeros are legal and typical (the defaults switch the higher partial waves off; a gluon-only or
    # quark-only input): one or two groups are zeroed in a third of the draws
    if rng.random() < 0.35:
        groups = [('secs', 'secg'), ('this', 'thig'), ('secs', 'secg', 'this', 'thig'), ('Esecs', 'Esecg'), ('Ethis', 'Ethig'),
                  ('Esecs', 'Esecg', 'Ethis', 'Ethig'), ('kaps',), ('ns',), ('Ens',), ('alps', 'alpg'), ('this',), ('secg',)]
        for grp in rng.sample(groups, rng.choice([1, 1, 2])):
            for k in grp:
                d[k] = 0.0
    return d


def couplings(th, Q2):
    from gepard import qcd
    asf = qcd.as2pf(th.p, th.nf, Q2 / th.rf2, th.asp[th.p], th.r20)
    asr = qcd.as2pf(th.p, th.nf, Q2 / th.rr2, th.asp[th.p], th.r20)
    return asf, asr


def shuvaev(j, rep=None):
    """the Shuvaev factor 2^(j+1) Γ(j+5/2)/(Γ(3/2) Γ(j+3)) the model takes as data: the package's own routine (a private
    helper, compared with this definition by C05's oracle.fshu stream), or the definition itself if the helper was renamed"""
    from gepard import wilson
    f = getattr(wilson, '_fshu', None)
    if f is not None:
        return f(j)
    import numpy as np
    from scipy.special import loggamma
    return 2 ** (j + 1) * np.exp(loggamma(2.5 + j) - loggamma(3 + j) - loggamma(1.5))


def point_data(th, Q2, pc):
    """Everything the model needs per contour point, from the real code's own routines:
    returns dict(arr=(npts, 87) floats, fshu, c1, E (combined LO+as·NLO 3x3), raw pieces)."""
    import numpy as np
    from gepard import wilson, evolution, c1dvcs, c1dvmp
    j0 = th.jpoints
    npts = len(j0)
    cols = [cflat(j0.reshape(-1, 1)), th.wg.reshape(-1, 1)]
    fsh, c1s, E0s, E1s = [], [], [], []
    for sh in (0, 2, 4):
        j = j0 + sh
        fshu = shuvaev(j)
        if th.p == 1 and pc in ('DVCS', 'DIS'):
            c1 = c1dvcs.C1(th, j, pc)[:, :3]
        elif th.p == 1 and pc == 'DVMP':
            c1 = np.array(c1dvmp.c1dvmp(th, 1, j, 0)).transpose()
        else:
            c1 = np.zeros((npts, 3), dtype=complex)
        esi = evolution.evolop(th, j, Q2, pc)         # [k, p, i, j]
        ens = evolution.evolopns(th, j, Q2, pc)       # [k, p]
        cols += [cflat(fshu.reshape(-1, 1)), cflat(c1),
                 cflat(esi[:, 0].reshape(npts, 4)), cflat(ens[:, 0].reshape(-1, 1)),
                 cflat(esi[:, 1].reshape(npts, 4)), cflat(ens[:, 1].reshape(-1, 1))]
        fsh.append(fshu)
        c1s.append(c1)
        E0 = np.zeros((npts, 3, 3), dtype=complex)
        E1 = np.zeros((npts, 3, 3), dtype=complex)
        E0[:, :2, :2] = esi[:, 0]
        E1[:, :2, :2] = esi[:, 1]
        E0[:, 2, 2] = ens[:, 0]
        E1[:, 2, 2] = ens[:, 1]
        E0s.append(E0)
        E1s.append(E1)
    arr = np.concatenate(cols, axis=1)
    assert arr.shape == (npts, 87)
    return dict(arr=arr, fshu=np.array(fsh), c1=np.array(c1s), E0=np.array(E0s), E1=np.array(E1s))


def points_tokens(arr, extra=None):
    import numpy as np
    if extra is not None:
        arr = np.concatenate([arr, extra], axis=1)
    return hexes(arr.reshape(-1))


def par_tokens(th, keys):
    return [f2hex(th.parameters[k]) for k in keys]


def pw_tokens(m):
    import numpy as np
    return hexes(np.asarray(m, dtype=float).reshape(-1))


def in_real_code(e):
    """True when the exception was raised in a frame of the package under study (not in the harness)"""
    import os
    import traceback
    src = os.path.join(common.REPO, 'src')
    return any(f.filename.startswith(src) for f in traceback.extract_tb(e.__traceback__))


def sdiv(a, b):
    """a / b, inf when b is 0 (quantities of a possibly broken tree)"""
    return a / b if b else float('inf')


def map_exc(e):
    """the real code's exceptions -> the model's error enum"""
    s = str(e)
    if isinstance(e, AssertionError):
        return 'err:assert'
    if isinstance(e, ValueError) and 'unknown' in s:
        return 'err:residualt'
    if 'eta has to be' in s:
        return 'err:eta'
    if 'process_class' in s:
        return 'err:processClass'
    return 'err:other:%s:%s' % (type(e).__name__, s[:60])


def j2x_scale(th, x, eta, Q2, pd, gpd, pw):
    """sum of absolute values of the terms of _j2x_mellin_barnes_integral, per evolved flavour (/π); built from
    the operator data (not from calc_j2x, whose result is what is being checked)"""
    import numpy as np
    if pd is None:
        pd = point_data(th, Q2, 'DIS' if eta < 1e-8 else 'DVCS')
    asf, _ = couplings(th, Q2)
    cf = np.abs(np.exp((th.jpoints + 1) * math.log(1 / x)))
    E = np.abs(pd['E0']) + abs(asf) * np.abs(pd['E1'])            # [s, k, f, a]
    npts = len(th.jpoints)
    wc = np.zeros((3, npts, 3))
    for s, sh in enumerate((0, 2, 4)):
        if eta < 1e-8:
            wc[s, :, 0], wc[s, :, 1] = 1.0, x
        else:
            wc[s, :, 0] = np.abs(pd['fshu'][s])
            wc[s, :, 1] = np.abs(pd['fshu'][s] * 2 * x / (3 + th.jpoints + sh))
    wce = wc[:, :, :, None] * E
    if eta < 1e-8:
        t = np.einsum('j,jfa,ja->jf', cf, wce[0], np.abs(gpd))
    else:
        t = np.einsum('j,sa,sjfa,ja->jf', cf, np.abs(pw), wce, np.abs(gpd))
    return np.dot(th.wg, t) / np.pi


def closed_pdfs(par, x):
    """the closed-form PDFs whose Mellin moments are qj (theorem C04.qj_is_mellin_moment):
    Σ(x) = ns x^-al0s (1-x)^8 / B(2-al0s, 9);  x g(x) = x · ng x^-al0g (1-x)^6 / B(2-al0g, 7), ng = 0.6 - ns"""
    from scipy.special import beta as B
    q = par['ns'] * x ** (-par['al0s']) * (1 - x) ** 8 / B(2 - par['al0s'], 9)
    xg = x * (0.6 - par['ns']) * x ** (-par['al0g']) * (1 - x) ** 6 / B(2 - par['al0g'], 7)
    return q, xg


def contour_scale(par, x, c):
    """magnitude of the integrand where the contour crosses the real axis, x^-(c+1)·|H_c| (resp. ·x for gluons):
    the natural scale of the quadrature error of the inverse Mellin transform"""
    from scipy.special import beta as B
    sq = x ** (-c - 1) * par['ns'] * B(1 - par['al0s'] + c, 9) / B(2 - par['al0s'], 9)
    sg = x ** (-c) * (0.6 - par['ns']) * B(1 - par['al0g'] + c, 7) / B(2 - par['al0g'], 7)
    return sq, sg


def compare(rep, stream, key, code, model, scales, tol, info, line, worst):
    """code/model: list of floats or error strings; returns True when they agree"""
    if isinstance(code, str) or isinstance(model, str):
        okk = (code == model)
        if not okk:
            rep.violation('model/%s/%s' % (stream, key), 'model and code disagree on %s: code %r, model %r for %s' % (
                stream, code, model, info), dict(info=info, protocol_line=line[:400], code=str(code), model=str(model)),
                found_input=False)
        return okk
    for i, (c_, m_, s_) in enumerate(zip(code, model, scales)):
        if c_ == m_:
            continue
        e = abs(c_ - m_) / max(abs(s_), abs(c_), 1e-300)
        if not e == e:
            e = float('inf')
        worst[stream] = max(worst.get(stream, 0.0), e)
        if not e <= tol:
            rep.violation('model/%s/%s' % (stream, key),
                          'model and code disagree on %s (component %d: code %r, model %r, %g relative to the '
                          'summed magnitudes) for %s' % (stream, i, c_, m_, e, info),
                          dict(info=info, protocol_line=line[:400], component=i, code=repr(c_), model=repr(m_)),
                          found_input=False)
            return False
    return True


# ------------------------------------------------------------------------------------------------
# the check
# ------------------------------------------------------------------------------------------------

def run(rep):
    import numpy as np
    import gepard as g
    from gepard import quadrature, wilson
    from scipy.special.orthogonal import p_roots
    np.seterr(all='ignore')
    rng = rep.rng
    ok, why = common.lean_side(rep, 'C04')
    quick = rep.tier == 'quick'
    Th, ThNS = theory_classes()
    lines, meta = [], []
    worst_o = {}

    def track(name, v):
        v = float(v)
        if v == v and v > worst_o.get(name, 0.0):
            worst_o[name] = v

    REPRO = ("class Th(gepard.gpd.PWNormGPD, gepard.cff.MellinBarnesCFF, gepard.dis.DIS, gepard.dvmp.MellinBarnesTFF): "
             "pass; th = Th(**theory); th.parameters.update(parameters); th.%s(gepard.DataPoint(point))")

    def viol(key, what, theory, pars, point, call, **extra):
        d = dict(theory=theory, parameters=pars, point=point, reproduce=REPRO % call)
        d.update(extra)
        rep.violation(key, what, d, found_input=True)

    def mk_theory(p, scheme, nf=4, phi=PHI0, c=C0, Q02=4.0, residualt='dipole'):
        kw = dict(p=p, scheme=scheme, nf=nf, phi=phi, c=c, Q02=Q02, residualt=residualt)
        return Th(**kw), kw

    # ---------------------------------------------------------------- 1. contour nodes
    roots, weights = p_roots(8)
    for i in range(6 if quick else 60):
        c = C0 if i == 0 else rng.uniform(0.2, 0.7)
        phi = PHI0 if i < 2 else rng.uniform(math.pi / 2, 2.1)
        n, wg = quadrature.mellin_barnes(c, phi)
        lines.append(' '.join(['c04.nodes', f2hex(c), f2hex(phi)] + hexes(roots) + hexes(weights)))
        code = list(np.stack([(n - 1).real, (n - 1).imag, wg], axis=1).reshape(-1))
        meta.append(dict(kind='nodes', key='all', code=code, scales=[1.0] * len(code), tol=1e-13,
                         info=dict(c=c, phi=phi)))
    # the theory option c reaches the contour (it did not before the repair of quadrature.mellin_barnes)
    for i in range(3):
        c = rng.uniform(0.4, 0.7)
        th, kw = mk_theory(0, 'csbar', c=c)
        got = float(th.jpoints[0].real)
        x0 = (0.01 * roots[0] + 0.01) / 2
        want = c + x0 * math.cos(PHI0)
        rep.case('oracle.c-honoured', 'c=%.4f' % c, sample=dict(c=c, Re_j0=got))
        if abs(got - want) > 1e-12:
            rep.violation('contour/c-ignored', 'theory option c=%r does not move the Mellin-Barnes contour: Re jpoints[0] = %r, '
                          'expected %r (quadrature.mellin_barnes ignores its argument c)' % (c, got, want),
                          dict(theory=kw, reproduce='Th(c=%r).jpoints[0]' % c), found_input=True)

    # ---------------------------------------------------------------- 2. moments
    nmom = 60 if quick else 1500
    for i in range(nmom):
        j = complex(rng.uniform(-0.5, 6), rng.uniform(-10, 10))
        t = 0.0 if i % 3 == 0 else rng.uniform(-1, 0)
        kind = i % 4
        if kind < 2:
            # qj itself, all arguments (incl. alpf, val and the assertion)
            poch, val = rng.choice([(9, 0), (7, 0), (4, 1), (8, 0), (6, 0)])
            norm, al0 = rng.uniform(0.01, 2), rng.uniform(0.3, 1.4)
            alp, alpf = rng.uniform(0, 1), 0.0
            r = rng.random()
            if r < 0.25:
                alp, alpf = 0.0, rng.uniform(0, 1)
            elif r < 0.35:
                alpf = rng.uniform(0.1, 1)
                alp = max(alp, 0.1)
            try:
                z = g.gpd.qj(np.array([j]), t, poch, norm, al0, alp, alpf, val)[0]
                code = [z.real, z.imag]
            except Exception as e:
                code = map_exc(e)
            lines.append(' '.join(['c04.qj', str(poch), str(val), '|'] + hexes([j.real, j.imag, t, norm, al0, alp, alpf])))
            sc = [abs(complex(*code))] * 2 if not isinstance(code, str) else []
            meta.append(dict(kind='qj', key='poch=%d/val=%d' % (poch, val), code=code, scales=sc, tol=1e-12,
                             info=dict(j=str(j), t=t, poch=poch, norm=norm, al0=al0, alp=alp, alpf=alpf, val=val)))
        else:
            par = random_pars(rng, al0g_max=1.4)
            rt = rng.choice(['dipole', 'dipole', 'exp', 'gauss'])
            th, kw = mk_theory(0, 'csbar', residualt=rt)
            th.parameters.update(par)
            isE = (kind == 3)
            th.jpoints = np.array([j])      # evaluate the model's moments at one arbitrary j
            try:
                v = (th.E(0.1, t) if isE else th.H(0.1, t))[0]
                code = list(cflat(v))
            except Exception as e:
                code = map_exc(e)
            if isE:
                ptok = [f2hex(th.parameters['kaps']), f2hex(th.parameters['ns'])] + par_tokens(th, E_KEYS)
            else:
                ptok = par_tokens(th, H_KEYS)
            lines.append(' '.join(['c04.mom', str(RT.get(rt, 2)), '1' if isE else '0', '|'] + hexes([t, j.real, j.imag]) + ptok))
            sc = [] if isinstance(code, str) else [abs(complex(code[2 * (i2 // 2)], code[2 * (i2 // 2) + 1])) for i2 in range(8)]
            meta.append(dict(kind='mom', key=('E' if isE else 'H') + '/' + rt, code=code, scales=sc, tol=1e-12,
                             info=dict(j=str(j), t=t, residualt=rt, which='E' if isE else 'H', parameters=par)))
            # derived parameters of the sum-rule constraint
            if not isinstance(code, str):
                ngk = 'Eng' if isE else 'ng'
                nsk = 'Ens' if isE else 'ns'
                if th.parameters[ngk] != 0.6 - th.parameters[nsk]:
                    rep.violation('moments/ng', '%s is not 0.6 - %s after evaluation' % (ngk, nsk), dict(parameters=par),
                                  found_input=True)

    # ---------------------------------------------------------------- 3. Hx / Ex / DISF2: model vs code
    combos = [(0, 'msbar'), (0, 'csbar'), (1, 'csbar'), (1, 'msbar')]
    ncorr = 44 if quick else 500
    n_msbar_nlo = 2 if quick else 12
    done = 0
    it = 0
    while done < ncorr:
        it += 1
        p, scheme = combos[it % 4] if it <= 8 else rng.choice(combos[:3] + ([combos[3]] if n_msbar_nlo > 0 else []))
        if (p, scheme) == (1, 'msbar'):
            if n_msbar_nlo <= 0:
                continue
            n_msbar_nlo -= 1
        done += 1
        nf = rng.choice([3, 4])
        Q02 = rng.choice([4.0, rng.uniform(1.5, 6)])
        phi = PHI0 if rng.random() < 0.5 else rng.uniform(math.pi / 2, 2.1)
        c = C0 if rng.random() < 0.6 else rng.uniform(0.36, 0.6)
        rt = 'dipole' if rng.random() < 0.8 else 'exp'
        th, kw = mk_theory(p, scheme, nf=nf, phi=phi, c=c, Q02=Q02, residualt=rt)
        par = random_pars(rng)
        th.parameters.update(par)
        x = 10 ** rng.uniform(-5, math.log10(0.3))
        # a sixth of the evolved draws within a few per cent of the input scale (evolution just switched on)
        # every seventh case just above the input scale (deterministically, so that every run has several)
        Q2 = Q02 * (1 + 10 ** rng.uniform(-3, -1.5)) if done % 7 == 3 else (Q02 if rng.random() < 0.25 else Q02 * 10 ** rng.uniform(0, 2))
        t = rng.uniform(-1, 0)
        asf, asr = couplings(th, Q2)
        tag = 'p=%d/%s' % (p, scheme)
        rep.hist('theory', tag + '/nf=%d' % nf)
        rep.hist('log10(x)', int(math.floor(math.log10(x))))
        rep.hist('Q2/Q02', 'input scale' if Q2 == Q02 else '%d-decade' % int(math.floor(math.log10(Q2 / Q02))))
        rep.hist('contour', ('default' if (phi == PHI0 and c == C0) else 'varied'))
        # the operator of the x-space transform: diagonal (DGLAP, process class 'DIS') in the forward limit, the DVCS one
        # (with the non-diagonal msbar term at NLO) on the cross-over line; they differ only at NLO msbar
        pd_x = point_data(th, Q2, 'DVCS')
        pd_0 = point_data(th, Q2, 'DIS') if (p, scheme) == (1, 'msbar') else pd_x
        only_h0 = (p, scheme) == (1, 'msbar')      # one Hx costs 2 s there (non-diagonal msbar evolution)
        todo = [('H', 0.0, 0.0)] if only_h0 else [('H', 0.0, 0.0), ('H', x, t), ('E', x, t), ('E', 0.0, t)]
        if not only_h0 and rng.random() < 0.3:
            todo.append(('H', x * rng.uniform(0.2, 0.9), t))     # neither 0 nor x: the code raises
        for which, eta, tt in todo:
            pt = g.DataPoint({'x': x, 'eta': eta, 't': tt, 'Q2': Q2})
            isE = which == 'E'
            pw = th.pw_strengths_E() if isE else th.pw_strengths()
            try:
                r = th.Ex(pt) if isE else th.Hx(pt)
                code = [float(v) for v in r]
            except Exception as e:
                code = map_exc(e)
            if isE:
                mtok = [f2hex(th.parameters['kaps']), f2hex(th.parameters['ns'])] + par_tokens(th, E_KEYS)
            else:
                mtok = par_tokens(th, H_KEYS)
            pd = pd_0 if eta < 1e-8 else pd_x
            line = ' '.join(['c04.x', str(p), str(RT[rt]), '1' if isE else '0', '|'] +
                            hexes([asf, phi, x, eta, tt]) + pw_tokens(pw) + mtok + ['|'] + points_tokens(pd['arr']))
            if isinstance(code, str):
                sc = []
            else:
                pre = th.E(eta, tt) if isE else th.H(eta, tt)
                gpd = np.einsum('fa,ja->jf', FROT_X, pre)
                sc = list(j2x_scale(th, x, eta, Q2, pd, gpd, pw))
            lines.append(line)
            meta.append(dict(kind='Hx' if not isE else 'Ex', key=tag,
                             code=code, scales=sc, tol=TOL,
                             info=dict(theory=kw, parameters=par, point=dict(x=x, eta=eta, t=tt, Q2=Q2))))
        # DISF2 (its own evolved Wilson coefficients: process class 'DIS')
        if not only_h0:
            pdd = point_data(th, Q2, 'DIS')
            pt = g.DataPoint({'xB': x, 'Q2': Q2})
            try:
                code = [float(th.DISF2(pt))]
            except Exception as e:
                code = map_exc(e)
            wce = wilson.calc_wce(th, Q2, 'DIS')[0]
            pdf = np.einsum('fa,ja->jf', FROT_X, th.H(0, 0))
            sc = [th.dis_charge / np.pi * np.dot(th.wg, np.abs(np.exp(th.jpoints * math.log(1 / x))) *
                                                  np.einsum('ja,ja->j', np.abs(wce), np.abs(pdf)))]
            lines.append(' '.join(['c04.f2', str(p), str(nf), str(RT[rt]), '0', '|'] + hexes([asf, asr, phi, x]) +
                                  par_tokens(th, H_KEYS) + ['|'] + points_tokens(pdd['arr'])))
            meta.append(dict(kind='F2', key=tag + '/nf=%d' % nf, code=code, scales=sc, tol=TOL,
                             info=dict(theory=kw, parameters=par, point=dict(xB=x, Q2=Q2))))

    # a GPD model with valence parts, moments passed as data (frot_j2x drops them; NS row stays 0)
    for i in range(2 if quick else 20):
        p, scheme = rng.choice(combos[:3])
        typ = rng.choice(['hard', 'soft', 'hardNS', 'softNS'])
        kw = dict(p=p, scheme=scheme, nf=4, Q02=2.5)
        th = ThNS(typ, **kw)
        x = 10 ** rng.uniform(-4, math.log10(0.3))
        Q2 = 2.5 * 10 ** rng.uniform(0, 1.5)
        t = rng.uniform(-0.8, 0)
        eta = rng.choice([0.0, x])
        asf, asr = couplings(th, Q2)
        pd = point_data(th, Q2, 'DIS' if eta < 1e-8 else 'DVCS')
        pre = th.H(eta, t)
        pw = th.pw_strengths()
        code = [float(v) for v in th.Hx(g.DataPoint({'x': x, 'eta': eta, 't': t, 'Q2': Q2}))]
        gpd = np.einsum('fa,ja->jf', FROT_X, pre)
        lines.append(' '.join(['c04.x', str(p), '0', '2', '|'] + hexes([asf, th.phi, x, eta, t]) + pw_tokens(pw) + ['|'] +
                              points_tokens(pd['arr'], cflat(pre))))
        meta.append(dict(kind='Hx', key='ansatz07/' + typ, code=code, scales=list(j2x_scale(th, x, eta, Q2, pd, gpd, pw)),
                         tol=TOL, info=dict(theory=dict(kw, type=typ), point=dict(x=x, eta=eta, t=t, Q2=Q2))))

    # ---------------------------------------------------------------- 4. oracle streams (real code only)
    TOLREL, TOLS = 3e-4, 1e-4

    other, _ = mk_theory(0, 'msbar', Q02=2.0)

    def used_point(point):
        """the DataPoint for an oracle evaluation: fresh, or (40%) one that another theory object has already
        evaluated at other kinematics and that was then moved in place — the caller's point is only read"""
        if rng.random() < 0.6:
            rep.hist('oracle.point', 'fresh')
            return g.DataPoint(point), point
        rep.hist('oracle.point', 'reused after another theory / moved in place')
        first = dict(x=min(0.5, point['x'] * rng.uniform(1.5, 4)), eta=0, t=0, Q2=rng.choice([2.0, 9.0]))
        pt = g.DataPoint(first)
        other.Hx(pt)
        if rng.random() < 0.5:
            other.Ex(pt)
        for k, v in point.items():
            setattr(pt, k, v)
            pt[k] = v
        return pt, dict(point, point_history='DataPoint(%r) evaluated with Hx of a p=0 msbar Q02=2 theory, then moved in place' % first)

    def input_scale_case(p, scheme, par, x, c, stream):
        th, kw = mk_theory(p, scheme, c=c)
        th.parameters.update(par)
        pt, point = used_point(dict(x=x, eta=0, t=0, Q2=th.Q02))
        hx = th.Hx(pt)
        q, xg = closed_pdfs(par, x)
        sq, sg = contour_scale(par, x, c)
        eq, eg = abs(hx[0] - q), abs(hx[1] - xg)
        # the known finding input-scale/pole-right-of-contour concerns the component whose OWN leading pole j = al0-1 is not
        # left of the crossing point c (at the input scale the evolution is the identity: the components do not mix)
        right = dict(s=par['al0s'] - 1 >= c - 0.005, g=par['al0g'] - 1 >= c - 0.005)
        rep.case(stream, (p, scheme, x, c, par['ns'], par['al0s'], par['al0g']),
                 sample=dict(theory=kw, x=x, al0s=par['al0s'], al0g=par['al0g'], Hx=list(map(float, hx)), closed=[q, xg]))
        devs = dict(s=(eq, q, sq), g=(eg, xg, sg))
        ok_parts = [comp for comp in 'sg' if not right[comp]]
        if ok_parts:
            track(stream + ' |Hx-closed|/(3e-4|closed|+1e-4 S)', max(devs[k_][0] / (TOLREL * devs[k_][1] + TOLS * devs[k_][2]) for k_ in ok_parts))
            track(stream + ' rel (x>=1e-4)' if x >= 1e-4 else stream + ' rel (x<1e-4)', max(devs[k_][0] / devs[k_][1] for k_ in ok_parts))
        if abs(hx[2]) != 0:
            viol('input-scale/ns-component', 'Hx[2] = %r, not 0' % hx[2], kw, par, point, 'Hx')
        for comp, nm, al in (('s', 'quark singlet Σ', par['al0s']), ('g', 'gluon x·g', par['al0g'])):
            e_, cl, S_ = devs[comp]
            if e_ <= TOLREL * cl + TOLS * S_:
                continue
            what = ('at the input scale Hx = (%.8g, %.8g) but the closed-form PDFs are (Σ, x·g) = (%.8g, %.8g): the %s is off by '
                    '%.3g relative (deviations (%.3g, %.3g)); p=%d, %s, c=%g, x=%g, ns=%g, al0s=%g, al0g=%g' % (
                        hx[0], hx[1], q, xg, nm, e_ / cl, eq / q, eg / xg, p, scheme, c, x, par['ns'], par['al0s'], par['al0g']))
            if right[comp]:
                key = 'input-scale/pole-right-of-contour/' + comp
                what += ' — its leading Regge pole j = al0-1 = %g is not left of the contour crossing c = %g' % (al - 1, c)
            else:
                key = 'input-scale/%s/%s/p=%d/%s' % (stream, comp, p, scheme)
            viol(key, what, kw, {k: par[k] for k in ('ns', 'al0s', 'al0g')}, point, 'Hx', closed_form=[q, xg], component=comp,
                 tolerance='|Hx-closed| <= 3e-4 |closed| + 1e-4 x^-(c+1) |H_c|')
        return hx

    slim = lambda par: {k: par[k] for k in ('ns', 'al0s', 'al0g')}    # noqa: E731
    # 4a. default contour, the whole intercept domain of the property (al0g up to 1.4)
    n_in = 56 if quick else 800
    n_slow = 3 if quick else 10                      # NLO msbar costs 1.5 s per Hx (non-diagonal evolution): a few per run,
    slow_at = {3 + k_ * ((n_in - 4) // n_slow) for k_ in range(n_slow)}      # spread over the run: parameters and x vary
    for i in range(n_in):
        p, scheme = combos[i % 4] if i < 4 else rng.choice(combos[:3])
        if i in slow_at:
            p, scheme = 1, 'msbar'
        rep.hist('input-scale.theory', 'p=%d/%s' % (p, scheme))
        par = slim(random_pars(rng, al0g_max=1.4))
        if i == 5:
            par['al0g'] = rng.uniform(1.36, 1.4)
        x = 10 ** rng.uniform(-5, math.log10(0.3))
        rep.hist('input-scale.al0g', '>1.345' if par['al0g'] > 1.345 else '<=1.345')
        input_scale_case(p, scheme, par, x, C0, 'oracle.input-scale')
    # 4b. contour moved to the right of the pole: c = max(0.35, al0_max - 1 + 0.15)
    for i in range(24 if quick else 300):
        p, scheme = rng.choice(combos[:3])
        par = slim(random_pars(rng, al0g_max=1.4))
        if i % 2 == 0:
            par['al0g'] = rng.uniform(1.3, 1.4)
        c = max(C0, max(par['al0s'], par['al0g']) - 1 + 0.15)
        x = 10 ** rng.uniform(-5, math.log10(0.3))
        input_scale_case(p, scheme, par, x, c, 'oracle.input-scale-c')

    # 4c. LO: F2 = charge · x · Σ(x, Q²) at every Q²
    for i in range(12 if quick else 200):
        scheme = rng.choice(['msbar', 'csbar'])
        nf = rng.choice([3, 4])
        th, kw = mk_theory(0, scheme, nf=nf)
        par = random_pars(rng)
        th.parameters.update(par)
        x = 10 ** rng.uniform(-5, math.log10(0.3))
        Q2 = 4.0 * ((1 + 10 ** rng.uniform(-3, -1.5)) if i % 4 == 1 else 10 ** rng.uniform(0, 2))
        if i % 4 == 3:
            Q2 = 4.0
        # the theory object carries every Mellin-Barnes observable (class Th): in every other case it has already evaluated
        # CFFs / a DVMP form factor / forward GPDs at this very Q2 (a combined DVCS + DIS analysis shares its Q2 bins)
        hist = []
        if i % 2 == 1:
            for hk in (['cff'] if i % 4 == 1 else rng.sample(['cff', 'tff', 'Hx', 'cff'], 2)):
                if hk == 'tff' and nf != 4:
                    hk = 'cff'                 # MellinBarnesTFF asserts nf == 4
                xi_ = 10 ** rng.uniform(-4, -0.6)
                if hk == 'cff':
                    th.cff(g.DataPoint({'xi': xi_, 't': -0.2, 'Q2': Q2}))
                elif hk == 'tff':
                    th.tff(xi_, -0.2, Q2)
                else:
                    th.Hx(g.DataPoint({'x': xi_, 'eta': xi_, 't': -0.2, 'Q2': Q2}))
                hist.append('%s(xi=%r, t=-0.2, Q2=%r)' % (hk, xi_, Q2))
        rep.hist('F2-LO.calls before on the same object', len(hist))
        f2 = float(th.DISF2(g.DataPoint({'xB': x, 'Q2': Q2})))
        hpt, hpoint = used_point({'x': x, 'eta': 0, 't': 0, 'Q2': Q2})
        if hist:
            hpoint = dict(hpoint, calls_before_on_the_same_theory_object=hist)
        hx = th.Hx(hpt)
        # the charge factor of the singlet: the mean squared quark charge, (4/9+1/9+1/9)/3 and (4/9+1/9+1/9+4/9)/4 (not the
        # object's own attribute)
        charge = {3: 2.0 / 9.0, 4: 5.0 / 18.0}[nf]
        if abs(th.dis_charge - charge) > 1e-15:
            viol('F2-LO/charge-factor', 'dis_charge = %r for nf=%d, the mean squared charge of the active flavours is %r' % (
                th.dis_charge, nf, charge), kw, par, dict(xB=x, Q2=Q2), 'dis_charge')
        want = charge * x * float(hx[0])
        gpd = np.einsum('fa,ja->jf', FROT_X, th.H(0, 0))
        S = charge * x * j2x_scale(th, x, 0, Q2, None, gpd, None)[0]
        d = abs(f2 - want)
        if f2 != 0:                  # ns = 0 at the input scale: F2 is exactly 0 on both sides
            track('LO F2 vs charge·x·Hx[0], relative', d / abs(f2))
        rep.case('oracle.F2-LO', (scheme, nf, x, Q2), sample=dict(theory=kw, x=x, Q2=Q2, F2=f2, charge_x_Sigma=want))
        if not d <= 1e-10 * abs(f2) + 1e-13 * S:
            viol('F2-LO/' + scheme, 'LO F2 = %.12g but charge·x·Hx[0] = %.12g at x=%g, Q2=%g (nf=%d, charge factor %.6g)' % (f2, want, x, Q2, nf, charge),
                 kw, par, dict(hpoint, xB=x), 'DISF2')

    # 4d. momentum sum and LO DGLAP solution of the second moments; 4e. gluon-only input radiates quarks
    gl_u, gl_w = p_roots(32)

    def second_moments(th, Q2, n=32):
        """(∫ x Σ dx, ∫ x g dx) from Hx at eta = t = 0 with x = u^5 (n-point Gauss-Legendre in u on [0, 1])"""
        uu, ww = (gl_u, gl_w) if n == 32 else p_roots(n)
        u = (uu + 1) / 2
        w = ww / 2
        mq = mg = 0.0
        for ui, wi in zip(u, w):
            xx = ui ** 5
            hx = th.Hx(g.DataPoint({'x': xx, 'eta': 0, 't': 0, 'Q2': Q2}))
            jac = 5 * ui ** 4 * wi
            mq += jac * xx * hx[0]
            mg += jac * hx[1]
        return mq, mg

    nmomint = 4 if quick else 40
    for i in range(nmomint):
        p = 0 if i % 2 == 0 else 1
        scheme = 'csbar' if p == 1 else rng.choice(['msbar', 'csbar'])
        nf = rng.choice([3, 4])
        th, kw = mk_theory(p, scheme, nf=nf)
        par = slim(random_pars(rng, al0g_max=1.3))
        gluon_only = (i % 4 == 2)
        if gluon_only:
            par['ns'] = 0.0 if i % 8 == 2 else 1e-12
        th.parameters.update(par)
        Q2 = 4.0 * ((1 + 10 ** rng.uniform(-2.5, -1.3)) if i % 4 == 0 else 10 ** rng.uniform(0.2, 2))
        mq, mg = second_moments(th, Q2)
        tot = mq + mg
        track('momentum |∫x(Σ+g) - 0.6| (p=%d)' % p, abs(tot - 0.6))
        rep.case('oracle.momentum', (p, scheme, nf, Q2, par['ns'], par['al0s'], par['al0g']),
                 sample=dict(theory=kw, parameters=par, Q2=Q2, quark=mq, gluon=mg, total=tot))
        if not abs(tot - 0.6) <= 1e-4:
            viol('momentum/p=%d/%s' % (p, scheme), 'total momentum ∫x(Σ+g)dx = %.6g at Q2=%g, but 0.6 at the input scale '
                 '(quark %.6g, gluon %.6g); p=%d %s nf=%d ns=%g al0s=%g al0g=%g' % (tot, Q2, mq, mg, p, scheme, nf, par['ns'],
                                                                                   par['al0s'], par['al0g']),
                 kw, par, dict(eta=0, t=0, Q2=Q2, x='u^5, u = 32 Gauss-Legendre nodes on [0,1]'), 'Hx')
        if p == 0:
            # textbook LO solution: q + g conserved; q - q_inf·(q+g) ∝ (as(Q²)/as(Q0²))^(2(16/9 + nf/3)/β0)
            asf, _ = couplings(th, Q2)
            as0, _ = couplings(th, th.Q02)
            b0 = 11 - 2 * nf / 3
            d = 2 * (16 / 9 + nf / 3) / b0
            qinf = 3 * nf / (16 + 3 * nf) * 0.6
            q_pred = qinf + (par['ns'] - qinf) * (asf / as0) ** d
            # the same exponents from the package's own anomalous dimensions at n = 2 (j = 1)
            gam = g.adim.singlet_LO(np.array([2.0 + 0j]), nf)[:, :, 0]
            lam = np.linalg.eigvals(gam)
            d_pkg = sorted((-lam / g.qcd.beta(0, nf)).real)          # package convention: E0 = R^(-lam/beta0)
            track('LO exponent: textbook vs adim eigenvalue', max(abs(d_pkg[1] - d), abs(d_pkg[0])))
            track('LO second moment |quark - textbook|', abs(mq - q_pred))
            rep.case('oracle.dglap-LO', (scheme, nf, Q2, par['ns']), sample=dict(Q2=Q2, quark=mq, textbook=q_pred, gluon=mg,
                                                                                 textbook_gluon=0.6 - q_pred))
            if not (abs(mq - q_pred) <= 1e-4 and abs(mg - (0.6 - q_pred)) <= 1e-4):
                viol('dglap-LO/' + scheme, 'LO second moments at Q2=%g: quark %.6g gluon %.6g, textbook LO DGLAP %.6g / %.6g '
                     '(nf=%d, ns=%g, as ratio %.6g)' % (Q2, mq, mg, q_pred, 0.6 - q_pred, nf, par['ns'], asf / as0),
                     kw, par, dict(eta=0, t=0, Q2=Q2), 'Hx')
            if abs(d_pkg[1] - d) > 1e-12 or abs(d_pkg[0]) > 1e-12:
                viol('dglap-LO/adim', 'exponents -lam/beta0 from adim.singlet_LO(n=2) are %s; textbook: 0 and %g' % (d_pkg, d),
                     kw, par, dict(n=2), 'Hx')
        if gluon_only:
            xs = 10 ** rng.uniform(-4, -1)
            h1 = th.Hx(used_point({'x': xs, 'eta': 0, 't': 0, 'Q2': Q2})[0])
            h0 = th.Hx(g.DataPoint({'x': xs, 'eta': 0, 't': 0, 'Q2': th.Q02}))
            ratio = sdiv(xs * h1[0], h1[1])
            track('gluon-only: min xΣ/xg at Q2 (must be > 1e-3)', -ratio)
            rep.case('oracle.gluon-only', (p, scheme, xs, Q2), sample=dict(x=xs, Q2=Q2, Hx=list(map(float, h1)), Hx_input=list(map(float, h0)),
                                                                            quark_momentum=mq))
            if not (ratio > 1e-3 and mq > 1e-3 and abs(h0[0]) < 1e-6 * abs(h1[0])):
                viol('gluon-only/p=%d/%s' % (p, scheme), 'gluon-only input (ns <= 1e-12) at Q2=%g: Hx = %s (input scale: %s), quark '
                     'momentum %.3g — no quarks radiated' % (Q2, list(h1), list(h0), mq), kw, par,
                     dict(x=xs, eta=0, t=0, Q2=Q2), 'Hx')

    # 4d'. total momentum at NLO msbar (1.5 s per Hx: 12 nodes — 4e-6 of quadrature error on 0.6 — and one case in the
    #      quick tier; 16 nodes and several cases in the thorough tier)
    from gepard import evolution
    nodes_slow = 12 if quick else 16
    for i in range(1 if quick else 4):
        nf = rng.choice([3, 4])
        th, kw = mk_theory(1, 'msbar', nf=nf)
        par = slim(random_pars(rng, al0g_max=1.3))
        th.parameters.update(par)
        Q2 = 4.0 * ((1 + 10 ** rng.uniform(-2.5, -1.3)) if i % 4 == 3 else 10 ** rng.uniform(0.2, 2))
        mq, mg = second_moments(th, Q2, n=nodes_slow)
        tot = mq + mg
        # the second moments the package's own pieces give WITHOUT the x-space transform: conformal moment j = 1 of the input
        # times the evolution operator at j = 1 — with the operator calc_j2x uses (process class 'DVCS': in msbar it carries the
        # non-diagonal term) and with the diagonal operator (process class 'DIS')
        pred = {}
        try:
            thj, _ = mk_theory(1, 'msbar', nf=nf)
            thj.parameters.update(par)
            thj.jpoints = np.array([1.0 + 0j])
            hj = thj.H(0, 0)[0][:2]
            asf, _ = couplings(th, Q2)
            for pc in ('DVCS', 'DIS'):
                Ej = evolution.evolop(th, np.array([1.0 + 0j]), Q2, pc)[0]
                pred[pc] = float(((Ej[0] + asf * Ej[1]) @ hj).sum().real)
        except Exception as e:       # the signature is an aid for classifying a failure, never a verdict
            rep.notes.append('momentum at NLO msbar: the j=1 prediction could not be formed (%r)' % (e,))
        track('momentum |∫x(Σ+g) - 0.6| (p=1 msbar; see known_findings)', abs(tot - 0.6))
        if pred:
            track('momentum p=1 msbar: |x-space total - (operator incl. non-diagonal term at j=1)·moments|', abs(tot - pred['DVCS']))
            track('momentum p=1 msbar: |diagonal operator at j=1 ·moments - 0.6|', abs(pred['DIS'] - 0.6))
        rep.case('oracle.momentum', (1, 'msbar', nf, Q2, par['ns'], par['al0s'], par['al0g']),
                 sample=dict(theory=kw, parameters=par, Q2=Q2, quark=mq, gluon=mg, total=tot, j1_moment_prediction=pred))
        if not abs(tot - 0.6) <= 1e-4:
            # known finding momentum/msbar-nlo/forward-nd-term: matched only when the whole deficit is the non-diagonal term of
            # the msbar NLO operator at j = 1 (x-space total = the package's own j=1 numbers with that operator, and the
            # diagonal operator conserves momentum); any other loss of momentum gets the ordinary key
            sig = bool(pred) and abs(tot - pred['DVCS']) <= 1e-4 and abs(pred['DIS'] - 0.6) <= 1e-6
            viol('momentum/msbar-nlo/forward-nd-term' if sig else 'momentum/p=1/msbar',
                 'total momentum ∫x(Σ+g)dx = %.6g at Q2=%g, but 0.6 at the input scale (quark %.6g, gluon %.6g); p=1 msbar nf=%d ns=%g '
                 'al0s=%g al0g=%g; j=1 moments times the operator: %s' % (tot, Q2, mq, mg, nf, par['ns'], par['al0s'], par['al0g'], pred),
                 kw, par, dict(eta=0, t=0, Q2=Q2, x='u^5, u = %d Gauss-Legendre nodes on [0,1]' % nodes_slow), 'Hx')

    # 4f. ONE object of a class that combines the GPD model with CFFs, DIS and DVMP (class Th) evaluates several observables
    #     at the same Q2, in either order: each value equals what a fresh object gives for that observable alone
    ops = {'cff': lambda o, q: [float(v) for v in o.cff(g.DataPoint({'xi': q['x'], 't': q['t'], 'Q2': q['Q2']}))[:4]],
           'DISF2': lambda o, q: [float(o.DISF2(g.DataPoint({'xB': q['x'], 'Q2': q['Q2']})))],
           'Hx': lambda o, q: [float(v) for v in o.Hx(g.DataPoint({'x': q['x'], 'eta': 0, 't': 0, 'Q2': q['Q2']}))],
           'tff': lambda o, q: [float(v) for v in o.tff(q['x'], q['t'], q['Q2'])[:2]]}
    orders = [('cff', 'DISF2'), ('DISF2', 'cff'), ('cff', 'Hx', 'DISF2'), ('tff', 'DISF2', 'cff'), ('DISF2', 'tff', 'cff'),
              ('cff', 'DISF2', 'cff', 'DISF2'), ('DISF2', 'cff', 'tff'), ('tff', 'cff', 'DISF2')]
    for i in range(16 if quick else 200):
        p, scheme = combos[i % 3] if (quick or i % 25) else combos[3]
        seq = orders[i % len(orders)] if i < 2 * len(orders) else rng.choice(orders)
        nf = 4 if 'tff' in seq else rng.choice([3, 4])
        Q02 = 4.0 if i % 2 == 0 else rng.uniform(1.5, 6)
        kw = dict(p=p, scheme=scheme, nf=nf, Q02=Q02)
        par = random_pars(rng)
        q = dict(x=10 ** rng.uniform(-4, math.log10(0.3)), t=rng.uniform(-1, 0),
                 Q2=Q02 if i % 3 == 0 else Q02 * 10 ** rng.uniform(0, 1.3))
        rep.hist('shared-object.sequence', '→'.join(seq))
        try:
            th = Th(**kw)
            th.parameters.update(par)
            got = [(op, ops[op](th, q)) for op in seq]
            for k_, (op, v) in enumerate(got):
                fresh = Th(**kw)
                fresh.parameters.update(par)
                ref = ops[op](fresh, q)
                rep.case('oracle.shared-object', (p, scheme, nf, seq, k_, q['x'], q['Q2']),
                         sample=dict(theory=kw, point=q, sequence=seq, call=k_ + 1, value=v, fresh_object=ref))
                dev = max(abs(a - b) / max(abs(a), abs(b), 1e-300) for a, b in zip(v, ref))
                track('shared object vs fresh object, relative', dev)
                if not dev <= 1e-12:
                    extra = ''
                    if op == 'DISF2' and p == 0:
                        sig_ = th.dis_charge * q['x'] * ops['Hx'](fresh, q)[0]
                        extra = '; LO: dis_charge·x·Hx[0] = %.12g' % sig_
                    viol('shared-object/%s' % op, '%s at x=%g, Q2=%g returns %s on an object that had evaluated %s at the same Q2 before, '
                         'but %s on a fresh object (p=%d %s nf=%d)%s' % (op, q['x'], q['Q2'], v, list(seq[:k_]), ref, p, scheme, nf, extra),
                         kw, par, dict(q, xB=q['x'], xi=q['x']), 'cff / DISF2 / tff / Hx in the order %s' % (list(seq[:k_ + 1]),),
                         sequence=list(seq[:k_ + 1]), fresh_object=ref)
                    break
        except Exception as e:
            rep.violation('shared-object/exception/' + type(e).__name__, 'sequence %s on one object raised %r (theory %s, point %s)' % (
                list(seq), e, kw, q), dict(theory=kw, parameters=par, point=q, sequence=list(seq)), found_input=in_real_code(e))

    rep.coverage['worst_oracle_values'] = {k: float('%.3g' % v) for k, v in sorted(worst_o.items())}

    # ---------------------------------------------------------------- model vs code
    try:
        out = common.run_driver(lines)
    except common.ModelUnavailable as ex:
        # the oracle streams above evaluated the property on the real code; what is lost is the correspondence
        rep.coverage['model_unavailable'] = str(ex)[:500]
        rep.violation('model-unavailable', 'the executable model of C04 could not be built (%s): the model-vs-code comparison did '
                      'not run; the oracle streams did' % str(ex)[:300], dict(detail=str(ex)[:1000]), found_input=False)
        out = []
    worst = {}
    for line, m, o in zip(lines, meta, out):
        if o == 'bad-op':
            rep.violation('driver/' + m['kind'], 'driver rejected a protocol line', dict(protocol_line=line[:400]), found_input=False)
            continue
        model = o if o.startswith('err:') else [hex2f(tk) for tk in o.split()]
        code = m['code']
        nontriv = True
        rep.case(m['kind'], line[:2000], nontrivial=nontriv, sample=dict(m['info'], code=code if isinstance(code, str) else code[:4]))
        if isinstance(code, str):
            rep.hist('exceptions', m['kind'] + ':' + code)
        if not isinstance(code, str) and not isinstance(model, str) and len(code) != len(model):
            rep.violation('model/%s/length' % m['kind'], 'model returned %d values for %d' % (len(model), len(code)),
                          dict(protocol_line=line[:400]), found_input=False)
            continue
        compare(rep, m['kind'], m['key'], code, model, m['scales'], m['tol'], m['info'], line, worst)
    rep.coverage['worst_model_vs_code'] = {k: float('%.3g' % v) for k, v in worst.items()}

    config_stream(rep, rng, quick)
    if not ok and not rep.violations:
        rep.violation('lean', 'Lean side of C04 no longer checks: ' + why, dict(reason=why), found_input=False)
    rep.assumptions += [
        'model vs code: 1e-9 relative to the sum of absolute values of the terms of the contour sum (einsum / dot '
        'summation order, complex division and exp differ from the model only by rounding); moments 1e-12, nodes 1e-13',
        'generator: x∈[1e-5,0.3] log-uniform, ns∈(0.01,0.59), al0s∈[1,1.3], al0g∈[1,1.34] (correspondence) / [1,1.4] (oracle), '
        'alp∈[0,0.3], m²∈[0.3,1.5], |sec|≤0.3, |thi|≤0.1, p∈{0,1}, scheme∈{msbar,csbar}, nf∈{3,4}, Q0²∈[1.5,6], Q²∈[Q0²,100·Q0²], '
        'phi∈[π/2,2.1], c∈[0.35,0.6]; p=1 msbar (2 s per evaluation: non-diagonal evolution) only a few cases per run',
        'oracle tolerance at the input scale: |Hx − closed| ≤ 3e-4·|closed| + 1e-4·x^−(c+1)·|H_c| (·x for gluons). The second '
        'term is the magnitude of the integrand on the contour: for x<1e-4 the result x^−al0 is up to 50× smaller than it, '
        'so the relative accuracy of the 96-point sum degrades to ≈1e-3 there (measured: ≤1e-4 for x≥1e-4, ≤2e-3 below; '
        'in units of the tolerance the worst observed value is recorded in worst_oracle_values)',
        'default contour c=0.35: cases whose leading pole al0−1 is not left of c−0.005 are reported under the key prefix '
        'input-scale/pole-right-of-contour (the contour must pass to the right of every singularity of the moments)',
        'momentum and second moments: 32-point Gauss-Legendre in u=x^(1/5) on [0,1] of x·Hx[0] and Hx[1]; absolute tolerance '
        '1e-4 on moments that add up to 0.6 (measured on the current tree: ≤2e-6; it covers the quadrature of the x-integral, '
        'the contour sum at x>0.3, and at p=1 the tiny violation of the NLO sum rule by the package\'s γ1(n=2), cf. C03)',
        'momentum at NLO msbar: 12-point (quick) / 16-point (thorough) rule in u, quadrature error 4e-6 / 1e-6 (measured against the '
        '32-point rule on csbar), same tolerance 1e-4; a failure is filed under the known finding momentum/msbar-nlo/forward-nd-term only '
        'when the x-space total equals, to 1e-4, (E0 + as·E1)(j=1, process class DVCS)·H(j=1) built from the package\'s own operator and '
        'moments AND the diagonal operator (process class DIS) gives 0.6 to 1e-6 — i.e. the whole deficit is the non-diagonal term',
        'shared object (one object: cff / DISF2 / tff / Hx at one Q2 in several orders) vs fresh objects: 1e-12 relative (same arithmetic; observed 0)',
        'LO F2 vs dis_charge·x·Hx[0]: 1e-10 relative + 1e-13 of the summed magnitudes (identity of sums, theorem f2_LO_eq)']
    rep.notes += ['oracle.* streams evaluate the property on the real code against closed forms; they carry the quadrature '
                  'accuracy that no theorem states, and support — not replace — the theorems of Props/C04.lean',
                  'the evolution operator entries, Shuvaev factors, couplings, C1 and Gauss–Legendre roots are data taken from '
                  'the real code (their own properties: C02, C03, C15); the model is everything between them and Hx/Ex/DISF2']
    return rep.finish(level='proof',
                      checker_cmd='lake build Props.C04; #print axioms; gepdriver c04.* vs gepard.gpd / wilson / mellin / dis',
                      trusted=['Lean 4.33 kernel + Mathlib (Complex.betaIntegral, Gamma)', 'Scalar/MB.lean.in instantiated at Float and ℝ '
                               '(same text)', 'evolution operator, _fshu (loggamma), couplings, C1, p_roots are parameters of the model',
                               'identification Cx ℝ ≅ ℂ (Proofs/Evol.lean, toC)', 'harness/props/C04.py'])


def config_stream(rep, rng, quick):
    """several theories of one class with different Q02 / contour / coupling evaluated at a COMMON Q2 in one session,
    against a fresh interpreter that evaluates each job on fresh objects in reverse order (harness/ref_eval.py)"""
    import json
    import os
    import tempfile
    import gepard as g
    import ref_eval
    par = {'ns': 0.17, 'al0s': 1.1, 'alps': 0.15, 'ms2': 1.0, 'secs': 0.0, 'al0g': 1.2, 'alpg': 0.15, 'mg2': 0.7, 'secg': 0.0}
    configs = [dict(p=0, Q02=1.0), dict(p=0), dict(p=0, Q02=2.0, c=0.45), dict(p=0, phi=1.9)]
    if not quick:
        configs += [dict(p=1, scheme='csbar', Q02=1.0), dict(p=1, scheme='csbar')]
    bases = ['PWNormGPD', 'MellinBarnesCFF', 'DIS', 'BMK']
    jobs = []
    for q in ([4.0] if quick else [4.0, 9.0]):
        for x in ([0.01] if quick else [0.003, 0.05]):
            for ci, kw in enumerate(configs):
                spec = dict(bases=bases, kwargs=kw, params=par)
                jobs.append(dict(theory=spec, cfg=ci, op='Hx', point=dict(x=x, eta=0, t=0, Q2=q)))
                jobs.append(dict(theory=spec, cfg=ci, op='Hx', point=dict(x=x, eta=x, t=-0.1, Q2=q)))
                jobs.append(dict(theory=spec, cfg=ci, op='DISF2', point=dict(xB=x, Q2=q)))
    shared, main_res = {}, []
    for j in jobs:
        th = shared.get(j['cfg'])
        if th is None:
            th = shared[j['cfg']] = ref_eval.build(j['theory'])
        try:
            main_res.append(ref_eval.canon(getattr(th, j['op'])(g.DataPoint(**j['point']))))
        except Exception as e:
            main_res.append('EXC:' + type(e).__name__)
    order = list(range(len(jobs)))[::-1]
    fd, path = tempfile.mkstemp(suffix='.json', dir=os.path.join(common.VERIF, 'replays'))
    os.close(fd)
    try:
        json.dump([jobs[i] for i in order], open(path, 'w'))
        rc, out, err = common.sh(['/venv/bin/python', os.path.join(common.VERIF, 'harness', 'ref_eval.py'), path], timeout=1500)
    finally:
        os.remove(path)
    if rc != 0:
        raise RuntimeError('reference interpreter failed: ' + err[-500:])
    ref = dict(zip(order, json.loads(out.strip().splitlines()[-1])))
    for i, (j, r) in enumerate(zip(jobs, main_res)):
        rep.case('config', (i, j['cfg'], j['op'], tuple(sorted(j['point'].items()))),
                 sample=dict(config=j['theory']['kwargs'], op=j['op'], point=j['point']) if i < 2 else None)
        if r != ref[i]:
            rep.violation('config/%s' % j['op'],
                          '%s of PWNormGPD theory %s at %s returns %s in a session that also evaluated other configurations at the '
                          'same Q2, but %s on fresh objects in a fresh interpreter' % (j['op'], j['theory']['kwargs'], j['point'], r[:60], ref[i][:60]),
                          dict(job=j, shared_session=r, fresh_interpreter=ref[i]))


def replay(path):
    """print the replay and, when it carries a concrete input, re-evaluate it on the real code"""
    import json
    d = json.load(open(path))
    print(json.dumps(d, indent=1, default=str)[:4000])
    if not (isinstance(d.get('theory'), dict) and isinstance(d.get('point'), dict)):
        return 0
    import numpy as np
    import gepard as g
    Th, _ = theory_classes()
    kw = {k: v for k, v in d['theory'].items() if k in ('p', 'scheme', 'nf', 'phi', 'c', 'Q02', 'residualt')}
    th = Th(**kw)
    th.parameters.update(d.get('parameters') or {})
    pt = {k: v for k, v in d['point'].items() if isinstance(v, (int, float))}
    print('re-evaluated on the real code (%s):' % common.REPO)
    try:
        if {'x', 'eta', 'Q2'} <= set(pt):
            pt.setdefault('t', 0)
            print('  Hx =', list(th.Hx(g.DataPoint(pt))), ' Ex =', list(th.Ex(g.DataPoint(pt))))
            if pt['eta'] == 0 and pt.get('t', 0) == 0 and pt['Q2'] == th.Q02:
                print('  closed-form (Sigma, x g) =', closed_pdfs(th.parameters, pt['x']))
        if 'xB' in pt:
            print('  DISF2 =', th.DISF2(g.DataPoint(pt)), ' dis_charge*x*Hx[0] =',
                  th.dis_charge * pt['xB'] * th.Hx(g.DataPoint({'x': pt['xB'], 'eta': 0, 't': 0, 'Q2': pt['Q2']}))[0])
        if 'xi' in pt:
            print('  cff =', list(th.cff(g.DataPoint(pt))[:4]), ' pi*q_s =', np.pi * th.dvcs_charges[0])
    except Exception as e:      # the replayed input may be one on which the code raises
        print('  raised', repr(e))
    return 0

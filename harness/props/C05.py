"""C05 — CFFs obey the LO handbag relation and are independent of the Mellin–Barnes contour.

Lean: Props/C05.lean (theorems about Gen/MBR.lean, the ℝ instantiation of Scalar/MB.lean.in — the exact core:
Im H = π·q_s·Hx_Q(ξ, ξ) as an identity between the two discrete sums, linearity, Re = the same sum with tan(πj/2)
inserted); the Float instantiation runs in the driver.

Correspondence (model vs code): MellinBarnesCFF.cff (ReH, ImH, ReE, ImE), MellinBarnesTFF.tff, np.tan(π j/2), on
random (ξ, t, Q², parameters, p, scheme, nf, phi, c) for PWNormGPD (moments modelled) and for the hep-ph/0703179
ansatz with valence parts and a non-singlet row in frot (moments passed as data), with the Shuvaev factor, the
evolution operator, couplings and C1 (c1dvcs / c1dvmp) passed to the model as data.

Oracle streams (real code only): the LO handbag relation at every scale (1e-10: identity of sums), and contour
independence — CFFs, TFFs, F2, Hx for phi ∈ [π/2, 2.1] and c ∈ [0.3, 0.6] against the default contour, within the
accuracy of the quadrature (what no theorem states); and the same contour independence (Re and Im of cff / tff, DISF2, at
phi ∈ {default, π/2, ≈1.75, ≈1.9, 2.1}) for theory classes composed from the mix-ins in other ways than the all-in-one
class: TFF-only (PWNormGPD + MellinBarnesTFF [+ DVMP]), CFF-only, DIS-only, and other orders of the mix-ins — against the
default contour of the same class, against the all-in-one class, and (one tilted contour per case) against the model.
They support the theorems, they do not replace them.
"""
import math

import common
from common import f2hex, hex2f
from props.C04 import (TOL, PHI0, C0, H_KEYS, E_KEYS, RT, hexes, cflat, theory_classes, random_pars, couplings,
                       point_data, points_tokens, par_tokens, pw_tokens, map_exc, j2x_scale, compare, sdiv)


def evolved_wc(th, attr, Q2, pc):
    """the evolved Wilson coefficients [pw, j, flavour] of process class pc at Q2, for the SCALE of a comparison only: the
    object's per-Q2 memo (attributes wce / wce_dvmp — implementation details, not part of any property) when it is there,
    otherwise computed afresh by the public routine.  A renamed memo attribute must not crash the harness."""
    from gepard import wilson
    memo = getattr(th, attr, None)
    try:
        if isinstance(memo, dict) and Q2 in memo and getattr(memo[Q2], 'ndim', 0) == 3:
            return memo[Q2]
    except TypeError:
        pass
    return wilson.calc_wce(th, Q2, pc)


# the x-space singlet and gluon are built from the singlet and gluon moments only (the harness's own
# matrix: the code's frot_j2x / frot_pdf attributes are part of what is being checked)
FROT_X = [[1, 0, 0, 0], [0, 1, 0, 0], [0, 0, 0, 0]]


def run(rep):
    import numpy as np
    import gepard as g
    from gepard import wilson, constants
    np.seterr(all='ignore')
    rng = rep.rng
    ok, why = common.lean_side(rep, 'C05')
    quick = rep.tier == 'quick'
    Th, ThNS = theory_classes()
    lines, meta = [], []
    worst_o = {}

    def track(name, v):
        v = float(v)
        if v == v and v > worst_o.get(name, 0.0):
            worst_o[name] = v

    REPRO = ("class Th(gepard.gpd.PWNormGPD, gepard.cff.MellinBarnesCFF, gepard.dis.DIS, gepard.dvmp.MellinBarnesTFF): "
             "pass; th = Th(**theory); th.parameters.update(parameters); %s")

    def viol(key, what, theory, pars, point, call, **extra):
        d = dict(theory=theory, parameters=pars, point=point, reproduce=REPRO % call)
        d.update(extra)
        rep.violation(key, what, d, found_input=True)

    def mk_theory(p, scheme, nf=4, phi=PHI0, c=C0, Q02=4.0, residualt='dipole'):
        kw = dict(p=p, scheme=scheme, nf=nf, phi=phi, c=c, Q02=Q02, residualt=residualt)
        return Th(**kw), kw

    def cff_scales(th, xi, Q2, h, e, pwH, pwE):
        """sums of absolute values of the terms of _mellin_barnes_integral_HE: (ReH, ImH, ReE, ImE)"""
        wce = np.abs(evolved_wc(th, 'wce', Q2, 'DVCS'))
        cf = np.abs(np.exp((th.jpoints + 1) * math.log(1 / xi)))
        aH = np.einsum('j,sa,sja,ja->j', cf, np.abs(pwH), wce, np.abs(h))
        aE = np.einsum('j,sa,sja,ja->j', cf, np.abs(pwE), wce, np.abs(e))
        tg = np.abs(th.tgj)
        return [np.dot(th.wg, aH * tg), np.dot(th.wg, aH), np.dot(th.wg, aE * tg), np.dot(th.wg, aE)]

    # ---------------------------------------------------------------- 1. tan(π j / 2)
    th0, _ = mk_theory(0, 'csbar', phi=rng.uniform(math.pi / 2, 2.1), c=rng.uniform(0.3, 0.6))
    for k in sorted(rng.sample(range(96), 12 if quick else 96)):
        j = complex(th0.jpoints[k])
        z = complex(th0.tgj[k])
        lines.append(' '.join(['c05.tgj', f2hex(j.real), f2hex(j.imag)]))
        meta.append(dict(kind='tgj', key='k=%d' % k, code=[z.real, z.imag], scales=[abs(z)] * 2, tol=1e-13, info=dict(j=str(j))))

    # the Shuvaev factor is data for the model: hold it to its definition 2^(j+1) Γ(j+5/2) / (Γ(3/2) Γ(j+3)) (mpmath)
    try:
        import mpmath as mp
        mp.mp.dps = 30
        for i in range(12 if quick else 200):
            j = complex(rng.uniform(-0.6, 5), rng.uniform(-10, 10))
            ref = complex(mp.mpf(2) ** (mp.mpc(j) + 1) * mp.gamma(mp.mpc(j) + mp.mpf(5) / 2) / mp.gamma(mp.mpf(3) / 2) /
                          mp.gamma(mp.mpc(j) + 3))
            fshu_ = common.private(rep, wilson, '_fshu', 'oracle.fshu skipped; the model is fed with the definition instead (props.C04.shuvaev)')
            if fshu_ is None:
                break
            got = complex(fshu_(np.array([j]))[0])
            dev = abs(got - ref) / abs(ref)
            track('_fshu vs mpmath, relative', dev)
            rep.case('oracle.fshu', str(j), sample=dict(j=str(j), fshu=str(got), mpmath=str(ref)))
            if not dev <= 1e-12:
                rep.violation('fshu', 'wilson._fshu(%r) = %r but 2^(j+1)Γ(j+5/2)/(Γ(3/2)Γ(j+3)) = %r' % (j, got, ref),
                              dict(j=str(j), reproduce='gepard.wilson._fshu(np.array([j]))'), found_input=True)
    except ImportError:
        rep.notes.append('mpmath not available: _fshu not compared with its definition')

    # ---------------------------------------------------------------- 2. cff / tff: model vs code
    combos = [(0, 'msbar'), (0, 'csbar'), (1, 'csbar'), (1, 'msbar')]
    ncorr = 40 if quick else 500
    n_slow = 2 if quick else 12
    done = 0
    it = 0
    while done < ncorr:
        it += 1
        p, scheme = combos[it % 4] if it <= 8 else rng.choice(combos[:3] + ([combos[3]] if n_slow > 0 else []))
        if (p, scheme) == (1, 'msbar'):
            if n_slow <= 0:
                continue
            n_slow -= 1
        done += 1
        slow = (p, scheme) == (1, 'msbar')
        nf = rng.choice([3, 4])
        Q02 = rng.choice([4.0, rng.uniform(1.5, 6)])
        phi = PHI0 if rng.random() < 0.5 else rng.uniform(math.pi / 2, 2.1)
        c = C0 if rng.random() < 0.6 else rng.uniform(0.36, 0.6)
        rt = 'dipole' if rng.random() < 0.8 else 'exp'
        th, kw = mk_theory(p, scheme, nf=nf, phi=phi, c=c, Q02=Q02, residualt=rt)
        par = random_pars(rng, small_pw=rng.random() < 0.7)
        th.parameters.update(par)
        xi = 10 ** rng.uniform(-4, math.log10(0.3))
        Q2 = Q02 * (1 + 10 ** rng.uniform(-3, -1.5)) if done % 7 == 3 else (Q02 if rng.random() < 0.2 else 10 ** rng.uniform(math.log10(Q02), 2))
        t = rng.uniform(-1, 0)
        asf, asr = couplings(th, Q2)
        tag = 'p=%d/%s' % (p, scheme)
        rep.hist('theory', tag + '/nf=%d' % nf)
        rep.hist('log10(xi)', int(math.floor(math.log10(xi))))
        rep.hist('contour', ('default' if (phi == PHI0 and c == C0) else 'varied'))
        pd = point_data(th, Q2, 'DVCS')
        pt = g.DataPoint({'xi': xi, 't': t, 'Q2': Q2})
        try:
            r = th.cff(pt)
            code = [float(v) for v in r[:4]]
            if any(v != 0 for v in r[4:]):
                viol('cff/tilde', 'cff()[4:] is not zero: %s' % list(r[4:]), kw, par, dict(xi=xi, t=t, Q2=Q2), 'th.cff(pt)')
        except Exception as e:
            code = map_exc(e)
        pwH, pwE = th.pw_strengths(), th.pw_strengths_E()
        h = np.einsum('f,fa,ja->jf', th.dvcs_charges, th.frot, th.H(xi, t))
        e = np.einsum('f,fa,ja->jf', th.dvcs_charges, th.frot, th.E(xi, t))
        line = ' '.join(['c05.cff', str(p), str(nf), str(RT[rt]), '0', '|'] + hexes([asf, asr, phi, xi, t]) +
                        pw_tokens(th.frot) + pw_tokens(pwH) + pw_tokens(pwE) + par_tokens(th, H_KEYS) +
                        [f2hex(th.parameters['kaps']), f2hex(th.parameters['ns'])] + par_tokens(th, E_KEYS) + ['|'] +
                        points_tokens(pd['arr']))
        lines.append(line)
        meta.append(dict(kind='cff', key=tag + '/nf=%d' % nf, code=code, scales=cff_scales(th, xi, Q2, h, e, pwH, pwE), tol=TOL,
                         info=dict(theory=kw, parameters=par, point=dict(xi=xi, t=t, Q2=Q2))))
        # the single-CFF accessors are views of cff()
        if not isinstance(code, str) and done % 5 == 0 and not slow:
            acc = [th.ReH(pt), th.ImH(pt), th.ReE(pt), th.ImE(pt)]
            rep.case('oracle.accessors', (tag, xi, t, Q2))
            if acc != code:
                viol('cff/accessors', 'ReH/ImH/ReE/ImE %s differ from cff()[:4] %s' % (acc, code), kw, par,
                     dict(xi=xi, t=t, Q2=Q2), 'th.ImH(pt)')
        # TFF (the class asserts nf == 4)
        if not slow and (nf == 4 or rng.random() < 0.2):
            pdm = point_data(th, Q2, 'DVMP')
            try:
                r = th.tff(xi, t, Q2)
                code = [float(r[0]), float(r[1])]
            except Exception as ex:
                code = map_exc(ex)
            asq = g.qcd.as2pf(th.p, th.nf, Q2, th.asp[th.p], th.r20)
            hm = np.einsum('fa,ja->jf', th.frot_rho0_4, th.H(xi, t))
            if isinstance(code, str):
                sc = []
            else:
                pre = constants.CF * constants.F_rho0 * 2 * math.pi * asq / constants.NC / math.sqrt(Q2)
                wce = np.abs(evolved_wc(th, 'wce_dvmp', Q2, 'DVMP'))
                cf = np.abs(np.exp((th.jpoints + 1) * math.log(1 / xi)))
                a = np.einsum('j,sa,sja,ja->j', cf, np.abs(pwH), wce, np.abs(hm))
                sc = [pre * np.dot(th.wg, a * np.abs(th.tgj)), pre * np.dot(th.wg, a)]
            lines.append(' '.join(['c05.tff', str(p), str(nf), str(RT[rt]), '0', '|'] +
                                  hexes([asf, asr, asq, np.sqrt(Q2), constants.F_rho0, phi, xi, t]) + pw_tokens(th.frot_rho0_4) +
                                  pw_tokens(pwH) + par_tokens(th, H_KEYS) + ['|'] + points_tokens(pdm['arr'])))
            meta.append(dict(kind='tff', key=tag + '/nf=%d' % nf, code=code, scales=sc, tol=TOL,
                             info=dict(theory=kw, parameters=par, point=dict(xi=xi, t=t, Q2=Q2))))

    # valence + non-singlet model, moments as data (exercises frot's third row, q_ns and the NS evolution)
    for i in range(4 if quick else 40):
        p, scheme = rng.choice(combos[:3])
        typ = rng.choice(['hard', 'soft', 'hardNS', 'softNS'])
        phi = rng.choice([1.9, PHI0])
        kw = dict(p=p, scheme=scheme, nf=4, Q02=2.5, phi=phi)
        th = ThNS(typ, **kw)
        xi = 10 ** rng.uniform(-4, math.log10(0.3))
        Q2 = 2.5 * 10 ** rng.uniform(0, 1.5)
        t = rng.uniform(-0.8, 0)
        asf, asr = couplings(th, Q2)
        pd = point_data(th, Q2, 'DVCS')
        Hm, Em = th.H(xi, t), th.E(xi, t)
        r = th.cff(g.DataPoint({'xi': xi, 't': t, 'Q2': Q2}))
        pwH, pwE = th.pw_strengths(), th.pw_strengths_E()
        h = np.einsum('f,fa,ja->jf', th.dvcs_charges, th.frot, Hm)
        e = np.einsum('f,fa,ja->jf', th.dvcs_charges, th.frot, Em)
        lines.append(' '.join(['c05.cff', str(p), '4', '0', '2', '|'] + hexes([asf, asr, phi, xi, t]) + pw_tokens(th.frot) +
                              pw_tokens(pwH) + pw_tokens(pwE) + ['|'] +
                              points_tokens(pd['arr'], np.concatenate([cflat(Hm), cflat(Em)], axis=1))))
        meta.append(dict(kind='cff', key='ansatz07/' + typ, code=[float(v) for v in r[:4]],
                         scales=cff_scales(th, xi, Q2, h, e, pwH, pwE), tol=TOL,
                         info=dict(theory=dict(kw, type=typ), point=dict(xi=xi, t=t, Q2=Q2))))

    # ---------------------------------------------------------------- 3. oracle: LO handbag relation on the real code
    for i in range(40 if quick else 600):
        scheme = rng.choice(['msbar', 'csbar'])
        nf = rng.choice([3, 4])
        phi = PHI0 if rng.random() < 0.5 else rng.uniform(math.pi / 2, 2.1)
        c = C0 if rng.random() < 0.6 else rng.uniform(0.36, 0.6)
        th, kw = mk_theory(0, scheme, nf=nf, phi=phi, c=c)
        par = random_pars(rng, small_pw=rng.random() < 0.7)
        th.parameters.update(par)
        xi = 10 ** rng.uniform(-4, math.log10(0.3))
        t = rng.uniform(-1, 0)
        Q2 = 4.0 if i % 5 == 0 else (4.0 * (1 + 10 ** rng.uniform(-4, -1.3)) if i % 5 == 1 else 10 ** rng.uniform(math.log10(4.0), 2))
        point = dict(x=xi, eta=xi, xi=xi, t=t, Q2=Q2)
        pt = g.DataPoint(point)
        # history: the relation must hold on a theory object that has already been used (forward GPDs, other points)
        hist = []
        if rng.random() < 0.5:
            for _ in range(rng.randint(1, 3)):
                k = rng.choice(['Hx.forward', 'Ex.forward', 'Hx.other-t', 'cff.other-xi', 'Hx.other-x'])
                if k.endswith('forward'):
                    q = dict(x=xi, eta=0, t=t, Q2=Q2)
                elif k == 'Hx.other-t':
                    q = dict(x=xi, eta=xi, t=t - 0.3, Q2=Q2)
                elif k == 'Hx.other-x':
                    q = dict(x=xi / 2, eta=xi / 2, t=t, Q2=Q2)
                else:
                    q = dict(xi=xi / 3, t=t, Q2=Q2)
                getattr(th, k.split('.')[0])(g.DataPoint(q))
                hist.append((k, q))
        rep.hist('handbag.history', len(hist))
        if hist:
            point = dict(point, calls_before_on_the_same_theory_object=hist)
        if rng.random() < 0.5:
            cf = th.cff(pt)
            hx = th.Hx(pt)
            ex = th.Ex(pt)
        else:
            ex = th.Ex(pt)
            hx = th.Hx(pt)
            cf = th.cff(pt)
        qs = th.dvcs_charges[0]
        pwH, pwE = th.pw_strengths(), th.pw_strengths_E()
        h = np.einsum('f,fa,ja->jf', th.dvcs_charges, th.frot, th.H(xi, t))
        e = np.einsum('f,fa,ja->jf', th.dvcs_charges, th.frot, th.E(xi, t))
        S = cff_scales(th, xi, Q2, h, e, pwH, pwE)
        dH = abs(cf[1] - math.pi * qs * hx[0])
        dE = abs(cf[3] - math.pi * qs * ex[0])
        if cf[1] != 0:
            track('handbag |ImH - π q_s Hx|/|ImH|', dH / abs(cf[1]))
        if S[3] != 0:                      # E switched off altogether (all its terms are 0): nothing to normalise by
            track('handbag |ImE - π q_s Ex|/Σ|terms|', dE / S[3])
        rep.case('oracle.handbag', (scheme, nf, xi, t, Q2, phi, c),
                 sample=dict(theory=kw, point=point, ImH=float(cf[1]), pi_qs_Hx=float(math.pi * qs * hx[0]), ImE=float(cf[3]),
                             pi_qs_Ex=float(math.pi * qs * ex[0])))
        rep.hist('handbag.Q2', 'input scale' if Q2 == 4.0 else 'evolved')
        if not (dH <= 1e-10 * abs(cf[1]) + 1e-13 * S[1] and dE <= 1e-10 * abs(cf[3]) + 1e-13 * S[3]):
            viol('handbag/' + scheme, 'LO: ImH = %.12g but π·q_s·Hx[0](ξ,ξ) = %.12g; ImE = %.12g but π·q_s·Ex[0] = %.12g at ξ=%g, t=%g, '
                 'Q2=%g (nf=%d, %s)' % (cf[1], math.pi * qs * hx[0], cf[3], math.pi * qs * ex[0], xi, t, Q2, nf, scheme),
                 kw, par, point, 'th.cff(pt)[1], math.pi*th.dvcs_charges[0]*th.Hx(pt)[0]')

    # ---------------------------------------------------------------- 4. oracle: contour independence
    # tolerance: |v(phi, c) − v(default)| ≤ CREL·|v| + CS·(sum of |terms| of the two contour sums); see assumptions
    CREL, CS = 2e-3, 1e-4
    ncont = 20 if quick else 250
    n_slow = 3 if quick else 9            # msbar NLO: 1.5 s per CFF evaluation (non-diagonal evolution): a few cases per run,
    slow_at = {3 + k_ * ((ncont - 4) // n_slow) for k_ in range(n_slow)}      # the first at fixed kinematics, the others random
    for i in range(ncont):
        p, scheme = combos[i % 4] if i < 4 else rng.choice(combos[:3])
        if i in slow_at:
            p, scheme = 1, 'msbar'
        slow = (p, scheme) == (1, 'msbar')
        rep.hist('contour.theory', 'p=%d/%s' % (p, scheme))
        par = random_pars(rng)
        xi = 10 ** rng.uniform(-4, math.log10(0.3))
        t = rng.uniform(-1, 0)
        Q2 = 4.0 if i % 4 == 0 else 10 ** rng.uniform(math.log10(4.0), 2)
        al0 = max(par['al0s'], par['al0g'], par['Eal0s'], par['Eal0g'])
        variants = [(PHI0, C0)]
        if slow and i < 4:
            # in every run: one msbar NLO point well inside the region of the recorded finding and one below it
            xi, Q2, t = rng.uniform(0.18, 0.3), rng.uniform(60, 100), -0.5
            par = dict(par, secs=-0.16, secg=-0.07, this=0.04, thig=-0.04, Esecs=0.16, Esecg=0.25, Ethis=-0.04, Ethig=-0.05,
                       al0s=1.13, al0g=1.03, Eal0s=1.21, Eal0g=1.06)
            variants.append((2.1, C0))
            variants.append((1.85, C0))          # fixed: well away from the default contour, below the region of the finding
        elif slow:
            # msbar NLO at random kinematics and parameters: one angle below the region of the recorded finding (phi <= 1.9),
            # and in every other case one anywhere in the property's range
            variants.append((rng.uniform(1.65, 1.9), C0))
            if i % 2 == 0:
                variants.append((rng.uniform(math.pi / 2, 2.1), C0))
        else:
            variants.append((rng.uniform(math.pi / 2, 2.1), C0))
        if not slow:
            variants.append((2.1 if rng.random() < 0.5 else rng.uniform(math.pi / 2, 2.1), rng.uniform(max(0.3, al0 - 1 + 0.1), 0.6)))
        res = []
        for phi, c in variants:
            th, kw = mk_theory(p, scheme, phi=phi, c=c)
            th.parameters.update(par)
            pt = g.DataPoint({'x': xi, 'eta': xi, 'xi': xi, 'xB': xi, 't': t, 'Q2': Q2})
            pt0 = g.DataPoint({'x': xi, 'eta': 0, 'xB': xi, 't': 0, 'Q2': Q2})
            cf = th.cff(pt)[:4]
            pwH, pwE = th.pw_strengths(), th.pw_strengths_E()
            h = np.einsum('f,fa,ja->jf', th.dvcs_charges, th.frot, th.H(xi, t))
            e = np.einsum('f,fa,ja->jf', th.dvcs_charges, th.frot, th.E(xi, t))
            S = cff_scales(th, xi, Q2, h, e, pwH, pwE)
            vals = dict(H=complex(cf[0], cf[1]), E=complex(cf[2], cf[3]))
            scl = dict(H=math.hypot(S[0], S[1]), E=math.hypot(S[2], S[3]))
            if not slow:
                f2 = th.DISF2(pt0)
                hx = th.Hx(pt0)
                gpd0 = np.einsum('fa,ja->jf', FROT_X, th.H(0, 0))
                s0 = j2x_scale(th, xi, 0, Q2, None, gpd0, None)
                tf = th.tff(xi, t, Q2)
                hm = np.einsum('fa,ja->jf', th.frot_rho0_4, th.H(xi, t))
                asq_ = g.qcd.as2pf(th.p, th.nf, Q2, th.asp[th.p], th.r20)
                pre = constants.CF * constants.F_rho0 * 2 * math.pi * asq_ / constants.NC / math.sqrt(Q2)
                cfj = np.abs(np.exp((th.jpoints + 1) * math.log(1 / xi)))
                a = np.einsum('j,sa,sja,ja->j', cfj, np.abs(pwH), np.abs(evolved_wc(th, 'wce_dvmp', Q2, 'DVMP')), np.abs(hm))
                vals.update(F2=complex(f2), HxQ=complex(hx[0]), HxG=complex(hx[1]), TFF=complex(tf[0], tf[1]))
                scl.update(F2=th.dis_charge * xi * s0[0], HxQ=s0[0], HxG=s0[1],
                           TFF=pre * math.hypot(np.dot(th.wg, a * np.abs(th.tgj)), np.dot(th.wg, a)))
            res.append((phi, c, kw, vals, scl))
        ref = res[0]
        for phi, c, kw, vals, scl in res[1:]:
            rep.case('oracle.contour', (p, scheme, xi, t, Q2, phi, c), sample=dict(theory=kw, point=dict(xi=xi, t=t, Q2=Q2),
                     values={k: str(v) for k, v in vals.items()}, default_contour={k: str(v) for k, v in ref[3].items()}))
            rep.hist('contour.variant', 'phi only' if c == C0 else 'phi and c')
            for name in vals:
                d = abs(vals[name] - ref[3][name])
                allow = CREL * abs(ref[3][name]) + CS * max(scl[name], ref[4][name])
                # the non-diagonal (msbar NLO) evolution integral has its own fixed inner contour: see known_findings.json
                nd = (p == 1 and scheme == 'msbar' and phi > 1.9 and name in ('H', 'E'))
                if allow == 0 and d == 0:
                    rep.hist('contour.identically zero', name)      # e.g. E with every E-parameter group switched off
                    continue
                # the margins of the region of the recorded finding are kept apart, so that the others can be read
                label = 'contour %s' % name + (' (msbar NLO, phi>1.9: region of the known finding)' if nd else '')
                track(label + ': deviation / tolerance', sdiv(d, allow))
                if ref[3][name] != 0:
                    track(label + ': relative deviation', d / abs(ref[3][name]))
                if not d <= allow:
                    viol(('contour-nd/msbar-nlo/phi>1.9/%s' % name) if nd else 'contour/%s/p=%d/%s' % (name, p, scheme),
                         '%s changes with the Mellin-Barnes contour: %s at (phi=%.6g, c=%.4g) vs %s at the default (phi=1.57079632, '
                         'c=0.35): relative %.3g; ξ=%g t=%g Q2=%g p=%d %s' % (name, vals[name], phi, c, ref[3][name],
                                                                              sdiv(d, abs(ref[3][name])), xi, t, Q2, p, scheme),
                         kw, par, dict(x=xi, eta=xi, xi=xi, xB=xi, t=t, Q2=Q2), 'th.cff(pt) / th.DISF2(pt) / th.Hx(pt) / th.tff(xi,t,Q2)',
                         default_contour=ref[2])

    # ---------------------------------------------------------------- 5. oracle: contour independence of every class composition
    # The property speaks of CFFs, TFFs and F2 of "a Mellin-Barnes model", not of the one all-in-one class of sections 1-4:
    # a theory is composed from mix-ins (docs/source/theory.rst; tests/dvmp_test.py builds PWNormGPD + MellinBarnesTFF + DVMP)
    # and what a constructor of one mix-in sets up may be overwritten — or not — by another one later in the MRO.  Each
    # composition is evaluated at phi ∈ {default, π/2, ≈1.75, ≈1.9, 2.1} (msbar NLO: phi ≤ 1.9, see known_findings.json) and
    # Re and Im of every observable it offers are compared with (a) the default contour of the SAME composition and (b) the
    # default contour of the all-in-one class (same parameters, same point), with the allowance of section 4.  The theory at
    # one of the tilted contours also goes to the model (c05.tgj / c05.cff / c05.tff lines: the model computes tan(πj/2) and
    # the contour sums itself), which is the independent reference at a fixed contour.
    G_, C_, T_, D_ = g.gpd.PWNormGPD, g.cff.MellinBarnesCFF, g.dvmp.MellinBarnesTFF, g.dis.DIS
    V_, X_ = g.dvmp.DVMP, g.dvcs.DVCS
    DOTTED = {G_: 'gepard.gpd.PWNormGPD', C_: 'gepard.cff.MellinBarnesCFF', T_: 'gepard.dvmp.MellinBarnesTFF',
              D_: 'gepard.dis.DIS', V_: 'gepard.dvmp.DVMP', X_: 'gepard.dvcs.DVCS'}
    SHORT = {G_: 'GPD', C_: 'CFF', T_: 'TFF', D_: 'DIS', V_: 'DVMP', X_: 'DVCS'}
    # the first four are in every run; the orders are those in which the mix-ins can be instantiated at all (MellinBarnesCFF
    # needs the contour points and DIS needs nf at construction, so both come after the GPD class)
    COMPOSITIONS = [(G_, C_, D_, T_), (G_, T_, V_), (G_, C_), (G_, D_),
                    (G_, T_), (T_, G_), (V_, T_, G_), (T_, V_, G_), (G_, C_, X_), (X_, G_, C_), (G_, T_, C_), (T_, G_, C_),
                    (G_, C_, T_, V_), (V_, G_, T_, C_), (G_, D_, T_), (T_, G_, D_), (G_, T_, D_), (G_, D_, C_), (G_, C_, D_),
                    (G_, T_, D_, C_), (T_, G_, D_, C_), (G_, D_, C_, T_), (G_, D_, T_, C_)]
    N_DOCUMENTED = 4

    def comp_name(bases):
        return '+'.join(SHORT[b] for b in bases)

    def comp_repro(bases, call):
        return 'class Th(%s): pass; th = Th(**theory); th.parameters.update(parameters); %s' % (
            ', '.join(DOTTED[b] for b in bases), call)

    comp_classes = {}

    def comp_class(bases):
        if bases not in comp_classes:
            try:
                comp_classes[bases] = type('Th_' + comp_name(bases).replace('+', '_'), bases, {})
            except TypeError as ex:                      # no consistent MRO
                comp_classes[bases] = ex
        return comp_classes[bases]

    def comp_observables(th, xi, t, Q2, want=('H', 'TFF', 'F2')):
        """{name: (value, Σ|terms| of its contour sum)} of everything the composition offers; value complex (Re, Im) or float.
        The scales are built from the harness's own tan(πj/2) (th.tgj is part of what is being checked)."""
        out = {}
        tg = np.abs(np.tan(math.pi * th.jpoints / 2))
        cfj = np.abs(np.exp((th.jpoints + 1) * math.log(1 / xi)))
        pwH, pwE = np.abs(th.pw_strengths()), np.abs(th.pw_strengths_E())
        if hasattr(th, 'cff') and 'H' in want:
            cf = th.cff(g.DataPoint({'xi': xi, 't': t, 'Q2': Q2}))[:4]
            wce = np.abs(evolved_wc(th, 'wce', Q2, 'DVCS'))
            h = np.abs(np.einsum('f,fa,ja->jf', th.dvcs_charges, th.frot, th.H(xi, t)))
            e = np.abs(np.einsum('f,fa,ja->jf', th.dvcs_charges, th.frot, th.E(xi, t)))
            aH = np.einsum('j,sa,sja,ja->j', cfj, pwH, wce, h)
            aE = np.einsum('j,sa,sja,ja->j', cfj, pwE, wce, e)
            out['H'] = (complex(cf[0], cf[1]), math.hypot(np.dot(th.wg, aH * tg), np.dot(th.wg, aH)))
            out['E'] = (complex(cf[2], cf[3]), math.hypot(np.dot(th.wg, aE * tg), np.dot(th.wg, aE)))
        if hasattr(th, 'tff') and 'TFF' in want:
            tf = th.tff(xi, t, Q2)
            hm = np.abs(np.einsum('fa,ja->jf', th.frot_rho0_4, th.H(xi, t)))
            asq_ = g.qcd.as2pf(th.p, th.nf, Q2, th.asp[th.p], th.r20)
            pre = abs(constants.CF * constants.F_rho0 * 2 * math.pi * asq_ / constants.NC / math.sqrt(Q2))
            a = np.einsum('j,sa,sja,ja->j', cfj, pwH, np.abs(evolved_wc(th, 'wce_dvmp', Q2, 'DVMP')), hm)
            out['TFF'] = (complex(tf[0], tf[1]), pre * math.hypot(np.dot(th.wg, a * tg), np.dot(th.wg, a)))
        if hasattr(th, 'DISF2') and 'F2' in want:
            f2 = th.DISF2(g.DataPoint({'x': xi, 'eta': 0, 'xB': xi, 't': 0, 'Q2': Q2}))
            # Σ|terms| of _dis_mellin_barnes_integral from the evolved coefficients [j, flavour] (as for H and TFF; the operator
            # data of section 4's j2x_scale costs as much as the evaluation itself)
            memo = getattr(th, 'wce_dis', None)
            wd = memo[Q2] if isinstance(memo, dict) and Q2 in memo and getattr(memo[Q2], 'ndim', 0) == 2 else \
                wilson.calc_wce(th, Q2, 'DIS')[0, :, :]
            pdf = np.abs(np.einsum('fa,ja->jf', FROT_X, th.H(0, 0)))
            a = np.einsum('j,ja,ja->j', np.abs(np.exp(th.jpoints * math.log(1 / xi))), np.abs(wd), pdf)
            out['F2'] = (float(f2), float(abs(th.dis_charge) * np.dot(th.wg, a) / math.pi))
        return out

    def comp_parts(name, v):
        return [('Re ' + name, v.real), ('Im ' + name, v.imag)] if isinstance(v, complex) else [(name, v)]

    def comp_model_lines(th, kw, par, bases, xi, t, Q2, full):
        """the theory object of a composition against the model: tan(πj/2) at a few contour points, and (full) cff / tff"""
        cname = comp_name(bases)
        info = dict(composition=cname, theory=kw, parameters=par, point=dict(xi=xi, t=t, Q2=Q2),
                    reproduce=comp_repro(bases, 'th.tgj / th.cff(pt) / th.tff(xi, t, Q2)'))
        tgj = getattr(th, 'tgj', None)
        if tgj is not None and len(tgj) == len(th.jpoints):
            for k in sorted(rng.sample(range(len(th.jpoints)), 3)):
                j, z = complex(th.jpoints[k]), complex(tgj[k])
                lines.append(' '.join(['c05.tgj', f2hex(j.real), f2hex(j.imag)]))
                meta.append(dict(kind='tgj', key='%s/k=%d' % (cname, k), code=[z.real, z.imag], scales=[abs(z)] * 2, tol=1e-13,
                                 info=dict(info, j=str(j))))
        if not full:
            return
        p, nf, phi, rt = th.p, th.nf, kw.get('phi', PHI0), RT[kw.get('residualt', 'dipole')]
        asf, asr = couplings(th, Q2)
        pwH, pwE = th.pw_strengths(), th.pw_strengths_E()
        tg = np.abs(np.tan(math.pi * th.jpoints / 2))
        cfj = np.abs(np.exp((th.jpoints + 1) * math.log(1 / xi)))
        if hasattr(th, 'cff'):
            pd = point_data(th, Q2, 'DVCS')
            code = [float(v) for v in th.cff(g.DataPoint({'xi': xi, 't': t, 'Q2': Q2}))[:4]]
            wce = np.abs(evolved_wc(th, 'wce', Q2, 'DVCS'))
            h = np.abs(np.einsum('f,fa,ja->jf', th.dvcs_charges, th.frot, th.H(xi, t)))
            e = np.abs(np.einsum('f,fa,ja->jf', th.dvcs_charges, th.frot, th.E(xi, t)))
            aH = np.einsum('j,sa,sja,ja->j', cfj, np.abs(pwH), wce, h)
            aE = np.einsum('j,sa,sja,ja->j', cfj, np.abs(pwE), wce, e)
            lines.append(' '.join(['c05.cff', str(p), str(nf), str(rt), '0', '|'] + hexes([asf, asr, phi, xi, t]) +
                                  pw_tokens(th.frot) + pw_tokens(pwH) + pw_tokens(pwE) + par_tokens(th, H_KEYS) +
                                  [f2hex(th.parameters['kaps']), f2hex(th.parameters['ns'])] + par_tokens(th, E_KEYS) + ['|'] +
                                  points_tokens(pd['arr'])))
            meta.append(dict(kind='cff', key='%s/p=%d/%s' % (cname, p, kw['scheme']), code=code, tol=TOL, info=info,
                             scales=[np.dot(th.wg, aH * tg), np.dot(th.wg, aH), np.dot(th.wg, aE * tg), np.dot(th.wg, aE)]))
        if hasattr(th, 'tff') and nf == 4:
            pdm = point_data(th, Q2, 'DVMP')
            r = th.tff(xi, t, Q2)
            asq = g.qcd.as2pf(th.p, th.nf, Q2, th.asp[th.p], th.r20)
            pre = abs(constants.CF * constants.F_rho0 * 2 * math.pi * asq / constants.NC / math.sqrt(Q2))
            hm = np.abs(np.einsum('fa,ja->jf', th.frot_rho0_4, th.H(xi, t)))
            a = np.einsum('j,sa,sja,ja->j', cfj, np.abs(pwH), np.abs(evolved_wc(th, 'wce_dvmp', Q2, 'DVMP')), hm)
            lines.append(' '.join(['c05.tff', str(p), str(nf), str(rt), '0', '|'] +
                                  hexes([asf, asr, asq, np.sqrt(Q2), constants.F_rho0, phi, xi, t]) + pw_tokens(th.frot_rho0_4) +
                                  pw_tokens(pwH) + par_tokens(th, H_KEYS) + ['|'] + points_tokens(pdm['arr'])))
            meta.append(dict(kind='tff', key='%s/p=%d/%s' % (cname, p, kw['scheme']), code=[float(r[0]), float(r[1])], tol=TOL,
                             info=info, scales=[pre * np.dot(th.wg, a * tg), pre * np.dot(th.wg, a)]))

    # schedule: the four documented compositions first, at all five angles (LO msbar, LO csbar, NLO csbar, LO msbar); then one
    # msbar NLO case (phi ≤ 1.9); then random compositions and orders, each at the default and at two of the four other angles
    ncomp = 17 if quick else 200
    ncomp_slow = 1 if quick else 8            # msbar NLO: 1.5 s per evaluation
    comp_slow_at = {N_DOCUMENTED + k_ * ((ncomp - N_DOCUMENTED) // ncomp_slow) for k_ in range(ncomp_slow)}
    for i in range(ncomp):
        slow = i in comp_slow_at
        if slow:
            bases = rng.choice([COMPOSITIONS[1], COMPOSITIONS[2], rng.choice(COMPOSITIONS[4:])])
            if D_ in bases and not (C_ in bases or T_ in bases):
                bases = COMPOSITIONS[1]
            p, scheme = 1, 'msbar'
        else:
            bases = COMPOSITIONS[i] if i < N_DOCUMENTED else rng.choice(COMPOSITIONS[1:])
            p, scheme = combos[i % 3] if i < N_DOCUMENTED else rng.choice(combos[:3] + combos[:2])
        cname = comp_name(bases)
        cls = comp_class(bases)
        par = random_pars(rng, small_pw=rng.random() < 0.7)
        xi = 10 ** rng.uniform(-4, math.log10(0.3))
        t = rng.uniform(-1, 0)
        Q2 = 4.0 if i % 3 == 0 else 10 ** rng.uniform(math.log10(4.0), 2)
        rt = 'dipole' if rng.random() < 0.8 else 'exp'
        point = dict(x=xi, eta=xi, xi=xi, xB=xi, t=t, Q2=Q2)
        phis = [math.pi / 2, 1.75 + rng.uniform(-0.05, 0.05), 1.9 - rng.uniform(0, 0.04)] + ([] if slow else [2.1])
        if slow:
            phis = phis[1:]
        elif i >= N_DOCUMENTED:
            first = rng.choice(phis + phis[1:])                        # two different ones, π/2 half as likely as the others
            phis = [first, rng.choice([x_ for x_ in phis + phis[1:] if x_ != first])]
        phis = [None] + phis
        rep.hist('composition', cname)
        rep.hist('composition.theory', 'p=%d/%s' % (p, scheme))
        rep.hist('composition.Q2', 'input scale' if Q2 == 4.0 else 'evolved')
        res = []
        failed = None
        for phi in phis:
            kw = dict(p=p, scheme=scheme, nf=4, Q02=4.0, residualt=rt)
            if phi is not None:
                kw['phi'] = phi
            try:
                if isinstance(cls, Exception):
                    raise cls
                th = cls(**kw)
            except Exception as ex:
                failed = ex
                break
            th.parameters.update(par)
            res.append((phi, kw, th, comp_observables(th, xi, t, Q2)))
        if failed is not None:
            # an order of mix-ins that cannot be instantiated is outside the property; the documented compositions must exist
            rep.hist('composition.not instantiable', cname)
            if COMPOSITIONS.index(bases) < N_DOCUMENTED:
                rep.violation('composition/%s/constructor' % cname, 'the theory class %s cannot be built: %r' % (cname, failed),
                              dict(theory=kw, reproduce=comp_repro(bases, '')), found_input=True)
            continue
        refs = [('the default contour of the same class', cname, res[0][1], res[0][3])]
        if not slow and bases != COMPOSITIONS[0] and (i < N_DOCUMENTED or i % 2 == 0):
            kw0 = dict(p=p, scheme=scheme, nf=4, Q02=4.0, residualt=rt)
            th0_ = comp_class(COMPOSITIONS[0])(**kw0)
            th0_.parameters.update(par)
            o0 = comp_observables(th0_, xi, t, Q2, want=tuple(res[0][3]))
            refs.append(('the default contour of the all-in-one class ' + comp_name(COMPOSITIONS[0]), comp_name(COMPOSITIONS[0]),
                         kw0, {k: v for k, v in o0.items() if k in res[0][3]}))
        for phi, kw, th, obs in res:
            rep.case('oracle.compositions', (cname, p, scheme, xi, t, Q2, phi),
                     sample=dict(composition=cname, theory=kw, point=dict(xi=xi, t=t, Q2=Q2), values={k: str(v[0]) for k, v in obs.items()},
                                 default_contour={k: str(v[0]) for k, v in res[0][3].items()}))
            rep.hist('composition.phi', 'default' if phi is None else '%.2f' % phi)
            for what_ref, ref_name, ref_kw, ref in refs:
                if phi is None and ref is res[0][3]:
                    continue
                for name in ref:
                    v, s = obs[name]
                    v0, s0_ = ref[name]
                    allow = CREL * abs(v0) + CS * max(s, s0_)
                    nd = (p == 1 and scheme == 'msbar' and phi is not None and phi > 1.9 and name in ('H', 'E'))
                    for (part, a_), (_, b_) in zip(comp_parts(name, v), comp_parts(name, v0)):
                        d = abs(a_ - b_)
                        if allow == 0 and d == 0:
                            rep.hist('composition.identically zero', part)
                            continue
                        label = 'compositions %s' % part + (' (msbar NLO)' if slow else '')
                        track(label + ': deviation / tolerance', sdiv(d, allow))
                        if not d <= allow:
                            call = {'H': 'th.cff(pt)[:2]', 'E': 'th.cff(pt)[2:4]', 'TFF': 'th.tff(xi, t, Q2)[:2]', 'F2': 'th.DISF2(pt)'}[name]
                            rep.violation(
                                ('contour-nd/msbar-nlo/phi>1.9/%s' % name) if nd else 'contour-composition/%s/%s/p=%d/%s' % (cname, part, p, scheme),
                                '%s of the class %s changes with the Mellin-Barnes contour angle: %.12g at phi=%s, but %.12g at %s; '
                                'difference %.3g, allowed %.3g (|%s| = %.6g); ξ=%g t=%g Q2=%g p=%d %s' % (
                                    part, cname, a_, 'default' if phi is None else '%.6g' % phi, b_, what_ref, d, allow, name, abs(v0),
                                    xi, t, Q2, p, scheme),
                                dict(composition=cname, theory=kw, parameters=par, point=point, reproduce=comp_repro(bases, call),
                                     reference=dict(composition=ref_name, theory=ref_kw,
                                                    reproduce=comp_repro(COMPOSITIONS[0] if ref_name != cname else bases, call))),
                                found_input=True)
        # one tilted contour of this composition against the model
        if not slow:
            phi, kw, th, obs = rng.choice([r_ for r_ in res if r_[0] is not None and r_[0] > 1.6] or res[1:])
            comp_model_lines(th, kw, par, bases, xi, t, Q2, full=(i % 3 != 2))

    rep.coverage['worst_oracle_values'] = {k: float('%.3g' % v) for k, v in sorted(worst_o.items())}

    # ---------------------------------------------------------------- model vs code
    try:
        out = common.run_driver(lines)
    except common.ModelUnavailable as ex:
        # the oracle streams above evaluated the property on the real code; what is lost is the correspondence
        rep.coverage['model_unavailable'] = str(ex)[:500]
        rep.violation('model-unavailable', 'the executable model of C05 could not be built (%s): the model-vs-code comparison did '
                      'not run; the oracle streams did' % str(ex)[:300], dict(detail=str(ex)[:1000]), found_input=False)
        out = []
    worst = {}
    for line, m, o in zip(lines, meta, out):
        if o == 'bad-op':
            rep.violation('driver/' + m['kind'], 'driver rejected a protocol line', dict(protocol_line=line[:400]), found_input=False)
            continue
        model = o if o.startswith('err:') else [hex2f(tk) for tk in o.split()]
        code = m['code']
        rep.case(m['kind'], line[:2000], sample=dict(m['info'], code=code if isinstance(code, str) else code[:4]))
        if isinstance(code, str):
            rep.hist('exceptions', m['kind'] + ':' + code)
        if not isinstance(code, str) and not isinstance(model, str) and len(code) != len(model):
            rep.violation('model/%s/length' % m['kind'], 'model returned %d values for %d' % (len(model), len(code)),
                          dict(protocol_line=line[:400]), found_input=False)
            continue
        compare(rep, m['kind'], m['key'], code, model, m['scales'], m['tol'], m['info'], line, worst)
    rep.coverage['worst_model_vs_code'] = {k: float('%.3g' % v) for k, v in worst.items()}

    if not ok and not rep.violations:
        rep.violation('lean', 'Lean side of C05 no longer checks: ' + why, dict(reason=why), found_input=False)
    rep.assumptions += [
        'model vs code: 1e-9 relative to the sum of absolute values of the terms of the contour sum; tan(πj/2) 1e-13',
        'generator: ξ∈[1e-4,0.3] log-uniform, t∈[−1,0], Q²∈[Q0²,100], parameters as in C04 (al0s≤1.3, al0g≤1.34 so that the '
        'default contour is right of the leading pole), |sec|,|thi| up to 1, kaps∈[−2,2], p∈{0,1}, scheme∈{msbar,csbar}, nf∈{3,4}, '
        'phi∈[π/2,2.1], c∈[0.3,0.6] with c > al0−1+0.1; p=1 msbar (2 s per evaluation) only a few cases per run',
        'handbag relation (LO): |ImH − π q_s Hx[0]| ≤ 1e-10·|ImH| + 1e-13·Σ|terms| (identity of sums — theorem handbag_H; the '
        'second term covers ImE near a zero of its quark/gluon cancellation)',
        'contour independence: |v(phi,c) − v(default)| ≤ 2e-3·|v| + 1e-4·Σ|terms| with v = H, E, TFF as complex numbers, F2, '
        'Hx[0], Hx[1]; measured on the current tree: ≤1.3e-3 relative (worst at ξ≈1e-4 and phi=2.1, where the result is '
        'much smaller than the integrand on the contour); the worst value in units of the tolerance is in worst_oracle_values',
        'class compositions (oracle.compositions): PWNormGPD with MellinBarnesCFF / MellinBarnesTFF / DIS / DVMP / DVCS mixed in, in '
        'the orders that can be instantiated; nf=4, Q0²=4, c default, phi ∈ {default, π/2, 1.75±0.05, [1.86,1.9], 2.1} (msbar NLO: '
        'default, ≈1.75, ≈1.9 only); each of Re, Im of H, E, TFF and F2 within the allowance of the contour stream, '
        '2e-3·|v| + 1e-4·Σ|terms| with v the complex value, of the default contour of the same class and of the all-in-one class']
    rep.notes += ['oracle.* streams evaluate the property on the real code; contour independence is Cauchy\'s theorem for the '
                  'continuous integral plus a quadrature-error statement that no theorem here carries',
                  'MellinBarnesTFF.tff is compared with the model (c1dvmp as data); its contour independence is in oracle.contour',
                  'oracle.compositions: the attributes a mix-in sets at construction (tgj, the per-Q2 memos) depend on which mix-ins '
                  'a class has and in which order; sections 1-4 use one all-in-one class, this stream the others']
    return rep.finish(level='proof',
                      checker_cmd='lake build Props.C05; #print axioms; gepdriver c05.* vs gepard.cff / dvmp / mellin / wilson',
                      trusted=['Lean 4.33 kernel + Mathlib', 'Scalar/MB.lean.in instantiated at Float and ℝ (same text)',
                               'evolution operator, _fshu (loggamma), couplings, c1dvcs.C1, c1dvmp, p_roots are parameters of the model',
                               'identification Cx ℝ ≅ ℂ (Proofs/Evol.lean, toC)', 'harness/props/C05.py, harness/props/C04.py (helpers)'])


def replay(path):
    from props.C04 import replay as _r
    return _r(path)

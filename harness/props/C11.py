"""C11 — fitter and theory stay in sync; fits move only free parameters.

Lean: Props/C11.lean — Sync invariant preserved by every operation (accepted or rejected), hence for
every history; free lists agree; rejected operations change nothing; post-fit value transfer.
Correspondence: random operation histories on real MinuitFitter objects; after every operation both
copies of the state are dumped and compared exactly with the model; small real fits for the
post-fit clauses; multi-fit histories on ONE fitter object (fit -> fix/release/limit -> fit -> ..., some of the
fits ending invalid) with the sync comparison after every operation and every fit and the post-fit clauses
after every fit.
"""
import contextlib
import io
import math
import os
import traceback

import common
import fixtures

INF = float('inf')

# the known finding (known_findings.json, C11) is matched by this exact key; it is emitted only with the signature of the
# documented cause (see fixed_changed_key)
TMV2_KNOWN_KEY = 'fit/fixed-changed/tmv2/default-outside-limits->upper-limit'


def lim_token(table, lim):
    """limits cross the protocol as opaque tokens: L<k> for an interval the minimiser accepts, X<k> for one it refuses
    (lower > upper); an open end given as None is the same limit as the infinite one"""
    lo = -INF if lim[0] is None else float(lim[0])
    hi = INF if lim[1] is None else float(lim[1])
    lim = (lo, hi)
    if lim not in table:
        table[lim] = ('X%d' if lo > hi else 'L%d') % len(table)
    return table[lim]


def dump(th, fit, names, table):
    tf = ','.join('%s=%d' % (k, bool(v)) for k, v in th.parameters_fixed.items()) or '-'
    mf = {n: bool(fit.minuit.fixed[n]) for n in names}
    tl = ','.join('%s=%s' % (k, lim_token(table, v)) for k, v in th.parameters_limits.items()) or '-'
    ml = {}
    for n in names:
        lo, hi = fit.minuit.limits[n]
        if not (lo == -INF and hi == INF):
            ml[n] = lim_token(table, (lo, hi))
    tfree = list(th.free_parameters())
    mfree = [n for n in fit.minuit.parameters if not fit.minuit.fixed[n]]
    return dict(tfixed=tf, mfixed=mf, tlimits=tl, mlimits=ml, tfree=tfree, mfree=mfree)


def unsync_of(st, names, out=None):
    """the first half of the property itself, on a dump of the real objects: which of (fixed status, limits, free lists,
    the answer of free_parameters()) differ between theory and minimiser; [] when the two are in sync"""
    tf = {n: False for n in names}
    for kv in ([] if st['tfixed'] == '-' else st['tfixed'].split(',')):
        k, v = kv.split('='); tf[k] = v == '1'
    tl = {} if st['tlimits'] == '-' else dict(x.split('=') for x in st['tlimits'].split(','))
    # an infinite interval stored in the theory is the same limit as none
    unsync = []
    if any(tf.get(n, False) != st['mfixed'][n] for n in names) or any(k not in names for k in tf):
        unsync.append('fixed')
    if tl != st['mlimits']:
        unsync.append('limits')
    if st['tfree'] != st['mfree']:
        unsync.append('free-lists')
    if out is not None and out.startswith('free:') and out.split(':')[1] != (','.join(st['tfree']) or '-'):
        unsync.append('free_parameters()-return')
    return unsync


def parse_model_state(tokens, names):
    tfx, mfx, tl, ml, tfree, mfree = tokens[:6]
    def kv(s):
        return {} if s == '-' else dict(x.split('=') for x in s.split(','))
    mf = {n: False for n in names}
    mf.update({k: v == '1' for k, v in kv(mfx).items()})
    return dict(tfixed=tfx, mfixed=mf, tlimits=tl, mlimits=kv(ml),
                tfree=[] if tfree == '-' else tfree.split(','), mfree=[] if mfree == '-' else mfree.split(','))


def make_theory(rng, kind):
    import gepard as g
    if kind == 'adhoc':
        return fixtures.adhoc('KellyEFF', rng.choice(['BMK', 'BM10']),
                              {'ImH': 5.0, 'ReH': -2.0, 'ImHt': 1.0})
    if kind == 'KM09':
        from gepard import fits
        th = fits.KM09()
        th.parameters.update(fits.par_KM09a)
        return th

    class T(g.PWNormGPD, g.MellinBarnesCFF, g.BMK):
        pass
    return T(p=0)


# ---------------------------------------------------------------------------------------------------------------
# helpers shared by the fit streams
# ---------------------------------------------------------------------------------------------------------------

def from_real_code(e):
    """does the traceback of `e` pass through a frame of the package under study (then the real code raised, or
    something it called - iminuit - did); False: the fault lies in harness frames only (or in iminuit / numpy called
    by the harness directly)"""
    src = os.path.join(common.REPO, 'src') + os.sep
    return any(os.path.abspath(f.filename).startswith(src) for f in traceback.extract_tb(e.__traceback__))


def model_unavailable(rep, e, where):
    rep.violation('model-unavailable', 'the executable model could not be built: %s (%s; every check of the property on the '
                  'real objects was still evaluated)' % (e, where),
                  dict(correspondence='model driver of C11', detail=str(e), where=where), found_input=False)


def quiet_chisq(th, ds):
    """chi-square of the theory on the fit points WITHOUT leaving a trace in theory.parameters: evaluating a prediction
    rewrites derived parameters (ng = 0.6 - ns, ...) inside the parameter dict; the harness's own observation between two
    operations of a history must not do that (the history consists of the fitter's operations only)"""
    snap = dict(th.parameters)
    try:
        return float(th.chisq(ds))
    finally:
        th.parameters.clear()
        th.parameters.update(snap)


_tmv2_decl = []


def tmv2_declared():
    """(model default, declared limits) of tmv2, read from a fresh DispersionFixedPoleCFF; None if that cannot be had"""
    if not _tmv2_decl:
        try:
            import gepard as g
            c = g.DispersionFixedPoleCFF()
            lo, hi = c.parameters_limits['tmv2']
            _tmv2_decl.append((float(c.parameters['tmv2']), (float(lo), float(hi))))
        except Exception:
            _tmv2_decl.append(None)
    return _tmv2_decl[0]


def fixed_changed_key(n, before, after, lim_in_force):
    """key of a 'fixed parameter changed during the fit' violation.  The known finding about tmv2 is matched ONLY with the
    signature of its documented cause: the value before the fit is the model default, that default lies outside the declared
    limits, the limit in force is the declared one, and the value after the fit is bit-for-bit the end of the interval the
    default was clipped to.  Any other change of a fixed tmv2 keeps the plain key and is reported."""
    key = 'fit/fixed-changed/%s' % n
    decl = tmv2_declared()
    if n != 'tmv2' or decl is None or lim_in_force is None:
        return key
    default, (lo, hi) = decl
    try:
        inforce = (-INF if lim_in_force[0] is None else float(lim_in_force[0]),
                   INF if lim_in_force[1] is None else float(lim_in_force[1]))
    except Exception:
        return key
    if common.f2hex(before) != common.f2hex(default) or inforce != (lo, hi) or lo <= default <= hi:
        return key
    if default > hi and common.f2hex(after) == common.f2hex(hi):
        return key + '/default-outside-limits->upper-limit'
    if default < lo and common.f2hex(after) == common.f2hex(lo):
        return key + '/default-outside-limits->lower-limit'
    return key


def norm_lim(lim):
    if lim is None:
        return (-INF, INF)
    return (-INF if lim[0] is None else float(lim[0]), INF if lim[1] is None else float(lim[1]))


def checked_fit(fit, th, ds, extra_lims=None):
    """run fit.fit() on the real objects and evaluate the post-fit clauses of the property.
    Returns (problems, info, covline): problems = [(key, text)], info for coverage, covline = (protocol line, real
    covariance string) for the covsync model or None.  Exceptions of fit() propagate to the caller."""
    chi0 = quiet_chisq(th, ds)
    before = dict(th.parameters)
    lims_before = dict(th.parameters_limits)
    freeset = set(th.free_parameters())    # includes parameters never given a status
    with contextlib.redirect_stdout(io.StringIO()):
        fit.fit()
    after = dict(th.parameters)
    mvals = fit.minuit.values.to_dict()
    problems = []
    for n in before:
        if n not in freeset and (n not in after or common.f2hex(before[n]) != common.f2hex(after[n])):
            problems.append((fixed_changed_key(n, before[n], after.get(n, float('nan')), lims_before.get(n)),
                             'fixed parameter %s changed: %r -> %r' % (n, before[n], after.get(n))))
    # free ones lie within their limits: the limits the theory declares / holds and the ones the minimiser holds, for EVERY
    # free parameter (extra_lims: the ones the harness has just set, checked by name even if the theory lost them)
    for n in [x for x in after if x in freeset]:
        for src, lim in (('theory.parameters_limits', th.parameters_limits.get(n)),
                         ('limits before the fit', lims_before.get(n)),
                         ('minuit.limits', tuple(fit.minuit.limits[n])),
                         ('limits set through the fitter', (extra_lims or {}).get(n))):
            lo, hi = norm_lim(lim)
            if not (lo <= after[n] <= hi):
                problems.append(('fit/outside-limits/%s' % n, 'free parameter %s = %r outside its limits %r (%s)' % (
                    n, after[n], (lo, hi), src)))
                break
    for n in after:
        if n not in mvals or common.f2hex(after[n]) != common.f2hex(mvals[n]):
            problems.append(('fit/theory!=minuit.values/%s' % n, 'theory.parameters[%s] = %r, minuit.values: %r' % (
                n, after[n], mvals.get(n))))
    errs = fit.minuit.errors.to_dict()
    terrs = getattr(th, 'parameters_errors', None)
    if not isinstance(terrs, dict) or list(terrs) != list(errs) or any(
            common.f2hex(terrs[n]) != common.f2hex(errs[n]) for n in errs):
        problems.append(('fit/errors-not-copied/', 'theory.parameters_errors is not minuit.errors'))
    cov = getattr(th, 'covariance', None)
    covline = None
    mcov = fit.minuit.covariance
    if mcov is None:
        if cov:
            problems.append(('fit/stale-covariance/', 'the minimiser has no covariance, the theory holds one'))
    else:
        fl = list(th.free_parameters())
        want = {(a, b): float(mcov[a, b]) for a in fl for b in fl}
        if cov is None or set(cov) != set(want) or any(common.f2hex(cov[k]) != common.f2hex(want[k]) for k in cov):
            problems.append(('fit/covariance-not-copied/', 'theory.covariance is not the minimiser\'s matrix restricted to '
                             'free x free (free: %s; keys: %s)' % (fl, sorted(cov or {})[:6])))
        # the covsync model: entries for exactly free x free, looked up by NAME in the minimiser's matrix
        mnames = list(fit.minuit.parameters)
        mat = [float(mcov[a, b]) for a in mnames for b in mnames]
        line = 'c11.covsync N %s F %s M %s' % (' '.join(mnames), ' '.join(fl), ' '.join(map(common.f2hex, mat)))
        real_cov = ' '.join('%s,%s=%s' % (k[0], k[1], common.f2hex(v)) for k, v in (cov or {}).items()) or '-'
        covline = (line, real_cov, fl, len(cov or {}))
    chi1 = quiet_chisq(th, ds)
    fval = float(fit.minuit.fval)
    valid = bool(fit.minuit.valid)
    if not (abs(chi1 - fval) <= 1e-9 * max(1.0, abs(chi1))):
        problems.append(('fit/chisq!=fval/', 'chi-square of the theory %r, minimum of the minimiser %r' % (chi1, fval)))
    if not (chi1 <= chi0 * (1 + 1e-9) + 1e-12):
        problems.append(('fit/chisq-increased/', 'chi-square went up during the fit: %r -> %r (minimum %s)' % (
            chi0, chi1, 'valid' if valid else 'invalid')))
    return problems, dict(chi0=chi0, chi1=chi1, valid=valid, free=sorted(freeset)), covline


# ---------------------------------------------------------------------------------------------------------------
# multi-fit histories
# ---------------------------------------------------------------------------------------------------------------

def multifit_setup(rng, kind):
    """theory, fit points (with their provenance), pool of parameters the data constrain, pool of flat directions"""
    import gepard as g
    from gepard import fits
    if kind == 'dis':
        class TD(g.PWNormGPD, g.DIS):
            pass
        th = TD(p=0)
        th.parameters.update({'ns': 0.15, 'al0s': 1., 'alps': 0.15, 'ms2': 1., 'secs': 0., 'al0g': 1.1,
                              'alpg': 0.15, 'mg2': 0.7})
        pool = [('gepard.dset[%d][%d]' % (k, i), p) for k in (201, 202) for i, p in enumerate(g.dset[k])]
        npts = rng.choice([4, 6, 8])
        # F2 at t = 0 does not depend on the t-slopes / masses, nor on anything of the GPD E
        good, flat = ['ns', 'al0s', 'al0g'], ['ms2', 'alps', 'mg2', 'alpg', 'Eal0s', 'Ems2']
        label = 'PWNormGPD+DIS(p=0), ns=0.15 al0s=1 alps=0.15 ms2=1 secs=0 al0g=1.1 alpg=0.15 mg2=0.7'
    elif kind == 'KM09':
        th = fits.KM09()
        th.parameters.update(fits.par_KM09a)
        pool = [('gepard.fits.GLOpoints[%d]' % i, p) for i, p in enumerate(fits.GLOpoints)]
        npts = 6
        # par_KM09a has tNv = 0: no Htilde, its shape parameters are flat directions (the two with declared limits: an
        # unlimited flat direction may wander until the model overflows)
        good, flat = ['rv', 'bv', 'C', 'mC2'], ['trv', 'tbv']
        label = 'fits.KM09() with fits.par_KM09a'
    else:
        th = fixtures.adhoc('KellyEFF', 'BMK', {'ImH': 5.0, 'ReH': -2.0, 'ImHt': 1.0})
        pool = []
        for k in sorted(g.dset):
            if getattr(g.dset[k], 'process', None) not in ('ep2epgamma', 'en2engamma'):
                continue
            for i, p in enumerate(g.dset[k]):
                if p.get('observable') in ('ALU', 'AC', 'XUU', 'BSA') and 'phi' in p and 't' in p and p.get('err'):
                    pool.append(('gepard.dset[%d][%d]' % (k, i), p))
        npts = 2      # very few points: degenerate minima, which iminuit still calls valid (the all-valid histories)
        good, flat = ['ImH', 'ReH', 'ImHt', 'ReHt', 'ImE', 'ReE'], ['ImEt', 'ReEt']
        label = "KellyEFF + constant CFFs (ImH=5 ReH=-2 ImHt=1, others 0) + BMK"
    sel = rng.sample(pool, npts)
    return th, [p for _, p in sel], [s for s, _ in sel], good, flat, label


def multifit_scenario(rep, rng, kind, skeleton, covlines):
    """ONE fitter object through fit -> operations -> fit -> ...; the sync comparison after every operation and every fit,
    the post-fit clauses after every fit.  Returns True when the history contained an invalid fit followed by at least one
    accepted operation and a further fit."""
    import gepard as g
    th, pts, sel, good, flat, label = multifit_setup(rng, kind)
    ds = g.DataSet(pts)
    names = list(th.parameters.keys())
    table = {}
    steps = []           # the full op / fit sequence as executed, with outcomes
    replay = dict(stream='multifit', theory=kind, theory_setup=label, points=sel, skeleton=skeleton, sequence=steps)
    state = dict(invalid_seen=False, op_after_invalid=False, pattern=False, nfit=0, stop=False)

    def rp(**kw):
        # the replay as of now (the sequence list keeps growing)
        return dict(replay, sequence=[dict(s) for s in steps], **kw)
    th.chisq(ds)          # settles derived parameters (ng = 0.6 - ns, ...) before the fitter exists
    fit = g.MinuitFitter(ds, th)

    def sync_check(opname):
        st = dump(th, fit, names, table)
        un = unsync_of(st, names)
        if un:
            rep.violation('multifit/sync/%s/%s' % (opname.split()[0], '+'.join(un)),
                          'after %r (step %d of a multi-fit history on one fitter, %s theory) theory and minimiser disagree '
                          'on %s: theory free=%s, minuit free=%s; theory limits=%s, minuit limits=%s; history: %s' % (
                              opname, len(steps), kind, un, st['tfree'], st['mfree'],
                              {k: v for k, v in th.parameters_limits.items()},
                              {n: tuple(fit.minuit.limits[n]) for n in names if tuple(fit.minuit.limits[n]) != (-INF, INF)},
                              [s['op'] for s in steps]),
                          rp(state=st))
            state['stop'] = True
        return not un

    def op(name, args=None, lims=None):
        """one fix / release / limit / free operation through the fitter"""
        if state['stop']:
            return
        if name == 'fix':
            txt, call = 'fix ' + ' '.join(args), (lambda: fit.fix_parameters(*args))
            bogus = args[0] != 'ALL' and any(a not in names for a in args)
        elif name == 'release':
            txt, call = 'release ' + ' '.join(args), (lambda: fit.release_parameters(*args))
            bogus = any(a not in names for a in args)
        elif name == 'limit':
            txt, call = 'limit %r' % (lims,), (lambda: fit.limit_parameters(lims))
            bogus = any(a not in names for a in lims)
        else:
            txt, call, bogus = 'free', (lambda: fit.free_parameters()), False
        try:
            res = call()
            out = 'ok'
        except Exception as e:
            res, out = None, type(e).__name__
            if not (bogus and isinstance(e, (ValueError, IndexError, KeyError, TypeError, RuntimeError))):
                if isinstance(e, common.ModelUnavailable) or not from_real_code(e):
                    raise       # a fault of the machinery is not a failing input
                steps.append(dict(op=txt, outcome=out))
                rep.violation('multifit/op-raised/%s/%s' % (name, out), 'operation %r with known names only raised %r '
                              '(multi-fit history on %s theory: %s)' % (txt, e, kind, [s['op'] for s in steps]), rp())
                state['stop'] = True
                return
        steps.append(dict(op=txt, outcome=out))
        rep.hist('multifit-op', name + ('/rejected' if out != 'ok' else ''))
        if name == 'free':
            mfree = [n for n in fit.minuit.parameters if not fit.minuit.fixed[n]]
            if res != mfree:
                rep.violation('multifit/sync/free/free_parameters()-return', 'fitter.free_parameters() returned %r, the '
                              'minimiser has %r free (multi-fit history on %s theory: %s)' % (
                                  res, mfree, kind, [s['op'] for s in steps]), rp())
                state['stop'] = True
                return
        if out == 'ok' and name != 'free' and state['invalid_seen']:
            state['op_after_invalid'] = True
        sync_check(txt)

    def around(n):
        v = float(th.parameters[n])
        return (v - abs(v) * 0.5 - 0.5, v + abs(v) * 0.5 + 0.5)

    def limit(ns):
        d = {}
        for n in ns:
            lo, hi = around(n)
            dl = th.parameters_limits.get(n)
            if dl is not None:
                # never wider than the range the model declares for the parameter (and always containing the present value)
                dlo, dhi = norm_lim(dl)
                lo, hi = max(lo, min(dlo, float(th.parameters[n]))), min(hi, max(dhi, float(th.parameters[n])))
            d[n] = (lo, hi)
        op('limit', lims=d)
        return d

    def dofit():
        if state['stop']:
            return
        if not any(n in good for n in th.free_parameters()):
            # a fit whose free directions are ALL flat is outside what this stream asks: the minimiser's simplex fallback then
            # walks off to non-finite values (seen on the unchanged tree: AssertionError in gpd.qj for alps = inf)
            op('release', [rng.choice(good)])
            if state['stop']:
                return
        if state['invalid_seen'] and state['op_after_invalid']:
            state['pattern'] = True
        lims_set = {}
        for s in steps:
            if s['op'].startswith('limit') and s['outcome'] == 'ok':
                lims_set.update(s.get('limits', {}))
        try:
            problems, info, covline = checked_fit(fit, th, ds, extra_lims=lims_set)
        except Exception as e:
            if isinstance(e, common.ModelUnavailable) or not from_real_code(e):
                raise
            steps.append(dict(op='fit', outcome='raised %r' % (e,)))
            free_now = set(th.free_parameters())
            nonfinite = [n for n, v in th.parameters.items() if not math.isfinite(v)]
            if nonfinite and all(n in free_now for n in nonfinite):
                # the cost function leaves the last trial point in theory.parameters: the minimiser handed it a non-finite
                # value of a FREE parameter (a flat direction) and the model refused to evaluate there.  The property speaks
                # about fits that return; this history ends here, nothing is claimed.
                rep.hist('multifit-fit', 'raised at a non-finite trial point')
                msg = 'multi-fit stream: a fit raised at a non-finite trial value of a free parameter (flat direction); history dropped'
                if msg not in rep.notes:
                    rep.notes.append(msg)
                state['stop'] = True
                return
            rep.violation('multifit/fit/exception/' + type(e).__name__, 'fit number %d of a multi-fit history on one fitter '
                          '(%s theory) raised %r; history: %s' % (state['nfit'] + 1, kind, e, [s['op'] for s in steps]), rp())
            state['stop'] = True
            return
        state['nfit'] += 1
        steps.append(dict(op='fit', outcome='valid' if info['valid'] else 'invalid', free=info['free'],
                          chisq_start=info['chi0'], chisq_end=info['chi1']))
        rep.hist('multifit-fit', ('valid' if info['valid'] else 'invalid') + ('/first' if state['nfit'] == 1 else '/later'))
        rep.case('multifit', (kind, skeleton, tuple(sel), len(steps)), sample=dict(
            theory=kind, skeleton=skeleton, points=sel, sequence=[s['op'] for s in steps], valid=info['valid']))
        if covline:
            covlines.append((covline, ('multifit', kind, tuple(sel), len(steps)), rp()))
        for key, text in problems:
            # the signature of the known finding is the same in every stream; everything else is keyed by this stream
            k = key if key == TMV2_KNOWN_KEY else 'multi' + key
            rep.violation(k, 'fit number %d of a multi-fit history on ONE fitter (%s theory, free=%s, minimum %s): %s; '
                          'history: %s' % (state['nfit'], kind, info['free'], 'valid' if info['valid'] else 'invalid', text,
                                           [s['op'] for s in steps]), rp(problem=text))
            if k != TMV2_KNOWN_KEY:
                state['stop'] = True
        if state['stop']:
            return
        if not info['valid']:
            state['invalid_seen'], state['op_after_invalid'] = True, False
        sync_check('fit')

    def record_limits(d):
        # remember the numbers for the within-limits clause of later fits
        if steps and steps[-1]['op'].startswith('limit') and steps[-1]['outcome'] == 'ok':
            steps[-1]['limits'] = {k: list(v) for k, v in d.items()}

    def rejected():
        r = rng.random()
        if r < 0.4:
            op('release', [rng.choice(good), 'bogus'])
        elif r < 0.7:
            op('fix', [rng.choice(names), 'xyz'])
        else:
            op('limit', lims={rng.choice(good): (0.0, 1.0), 'nS_': (0.0, 1.0)})

    if not sync_check('init'):
        return False
    g1, g2 = rng.sample(good, 2)
    f1, f2 = rng.sample(flat, 2)
    if skeleton == 'A':
        # the first fit has a flat direction; the useless parameter is fixed, another released and limited, refit; more
        a = [g1, f1]
        rng.shuffle(a)
        op('release', a)
        if rng.random() < 0.5:
            record_limits(limit([g1]))
        dofit()
        op('fix', [f1])
        if rng.random() < 0.3:
            rejected()
        op('release', [g2])
        if rng.random() < 0.7:
            record_limits(limit([rng.choice([g1, g2])]))
        if rng.random() < 0.5:
            op('free')
        dofit()
        r = rng.random()
        if r < 0.35:
            op('fix', [g1])
        elif r < 0.7:
            op('release', [f2])
        else:
            op('fix', ['ALL'])
            op('release', [g2])
        dofit()
    elif skeleton == 'B':
        # a good fit, then one with a flat direction, then the flat parameter and one more are fixed again; refit
        op('release', [g1])
        dofit()
        a = [g2, f1]
        rng.shuffle(a)
        op('release', a)
        if rng.random() < 0.4:
            record_limits(limit([g2]))
        dofit()
        op('fix', [g1, f1])
        if rng.random() < 0.3:
            rejected()
        if rng.random() < 0.5:
            record_limits(limit([g2]))
        dofit()
        if rng.random() < 0.5:
            op('release', [g1])
            dofit()
    else:
        # random walk: 3-4 fits with 1-4 random operations in between
        op('release', [g1] + ([f1] if rng.random() < 0.5 else []))
        dofit()
        for _ in range(rng.randint(2, 3)):
            for _ in range(rng.randint(1, 4)):
                r = rng.random()
                free = list(th.free_parameters())
                if r < 0.25:
                    op('release', rng.sample(good, rng.randint(1, 2)) + ([rng.choice(flat)] if rng.random() < 0.4 else []))
                elif r < 0.45 and free:
                    op('fix', rng.sample(free, rng.randint(1, min(2, len(free)))))
                elif r < 0.55:
                    op('fix', ['ALL'])
                    op('release', [rng.choice(good)])
                elif r < 0.8:
                    record_limits(limit(rng.sample(good, rng.randint(1, 2))))
                elif r < 0.9:
                    rejected()
                else:
                    op('free')
            dofit()
    rep.hist('multifit-history', '%s/%s/%d fits%s' % (kind, skeleton, state['nfit'],
                                                       '/invalid->ops->fit' if state['pattern'] else ''))
    return state['pattern']


def run(rep):
    import gepard as g
    rng = rep.rng
    ok, why = common.lean_side(rep, 'C11')
    quick = rep.tier == 'quick'
    nhist = 120 if quick else 2500
    lines, real = [], []
    for h in range(nhist):
        kind = rng.choice(['adhoc', 'adhoc', 'KM09', 'PWNorm'])
        th = make_theory(rng, kind)
        names = list(th.parameters.keys())
        table = {}
        # arbitrary initial fixed / limit state, set on the theory before the fitter exists
        if rng.random() < 0.7:
            sel = rng.sample(names, rng.randint(1, min(4, len(names))))
            rel = common.private(rep, th, '_release_parameters', 'history stream: the initially released parameters are '
                                 'written into the public dict theory.parameters_fixed instead')
            if rel is not None:
                rel(*sel)
            else:
                # parameters_fixed is the documented public state; before a Fitter exists the user may write it directly
                for n in sel:
                    th.parameters_fixed[n] = False
        if rng.random() < 0.5:
            th.add_parameters_limits({n: (rng.choice([-1.0, 0.0, 0.1]), rng.choice([2.0, 5.0, 10.0]))
                                      for n in rng.sample(names, rng.randint(1, 3))})
        fit = g.MinuitFitter(g.DataSet([]), th)
        init = dump(th, fit, names, table)
        vals = ' '.join('%s=v' % n for n in names)
        hdr = 'c11.run N %s V %s F %s T %s O' % (
            ' '.join(names), vals, init['tfixed'].replace(',', ' ') if init['tfixed'] != '-' else '',
            init['tlimits'].replace(',', ' ') if init['tlimits'] != '-' else '')
        ops, states = [], [('init', init)]
        for _ in range(rng.randint(1, 30 if not quick else 14)):
            r = rng.random()
            pick = lambda k: [rng.choice(names) if rng.random() > 0.15 else rng.choice(['bogus', 'xyz', 'ALL', 'nS'])
                              for _ in range(k)]
            if r < 0.22:
                args = pick(rng.randint(1, 3)); optxt = 'fix ' + ' '.join(args)
                call = lambda a=args: fit.fix_parameters(*a)
            elif r < 0.31:
                args = ['ALL'] + (pick(1) if rng.random() < 0.3 else []); optxt = 'fix ' + ' '.join(args)
                call = lambda a=args: fit.fix_parameters(*a)
            elif r < 0.34:
                optxt = 'fix'; call = lambda: fit.fix_parameters()
            elif r < 0.56:
                args = pick(rng.randint(0, 3)); optxt = ('release ' + ' '.join(args)).strip()
                call = lambda a=args: fit.release_parameters(*a)
            elif r < 0.74:
                d = {}
                for n in pick(rng.randint(1, 3)):
                    d[n] = (rng.choice([-2.0, 0.0, 0.5]), rng.choice([1.5, 3.0, 8.0]))
                    r2 = rng.random()
                    if r2 < 0.12:
                        d[n] = (d[n][1], d[n][0])                  # lower > upper: the minimiser refuses it
                    elif r2 < 0.2:
                        d[n] = (None, d[n][1]) if rng.random() < 0.5 else (d[n][0], None)    # an open end
                optxt = 'limit ' + ' '.join('%s=%s' % (k, lim_token(table, v)) for k, v in d.items())
                call = lambda d=d: fit.limit_parameters(d)
            else:
                # asked often: a stale answer shows only when the question is repeated after a change
                optxt = 'free'; call = lambda: fit.free_parameters()
            try:
                res = call()
                out = 'ok'
                if optxt == 'free':
                    mfree = [n for n in fit.minuit.parameters if not fit.minuit.fixed[n]]
                    out = 'free:%s:%s' % (','.join(res) if res else ('-' if res == [] else 'None'),
                                          ','.join(mfree) or '-')
            except (ValueError, IndexError, KeyError, TypeError, RuntimeError) as e:
                out = type(e).__name__
            except Exception as e:
                out = 'EXC:' + type(e).__name__
            ops.append(optxt)
            states.append((out, dump(th, fit, names, table)))
            rep.hist('op', optxt.split()[0] + ('/rejected' if out not in ('ok',) and not out.startswith('free') else ''))
        lines.append(hdr + ' ' + ' ; '.join(ops))
        real.append((kind, names, ops, states))
    try:
        outs = common.run_driver(lines)
    except common.ModelUnavailable as e:
        # no model output: the property itself is still evaluated on every recorded state of the real objects
        model_unavailable(rep, e, 'history stream: c11.run')
        outs = [None] * len(lines)
    for line, (kind, names, ops, states), o in zip(lines, real, outs):
        rep.case('history', line, sample=dict(theory=kind, ops=ops[:8]))
        if o == 'bad-op':
            rep.violation('harness/bad-op', 'driver rejected line', dict(line=line), found_input=False)
            o = None
        segs = o.split(' ;; ') if o is not None else [None] * len(states)
        if len(segs) < len(states):
            segs = segs + [None] * (len(states) - len(segs))
        for i, ((out, st), seg) in enumerate(zip(states, segs)):
            # the property itself, on the real objects
            unsync = unsync_of(st, names, out)
            if unsync:
                opname = ops[i - 1] if i else 'init'
                rep.violation('sync/%s/%s' % (opname.split()[0], '+'.join(unsync)),
                              'after %r (history %s on %s theory) theory and minimiser disagree on %s: theory fixed=%s '
                              'limits=%s free=%s; minuit free=%s limits=%s' % (
                                  opname, ops[:i], kind, unsync, st['tfixed'][:200], st['tlimits'], st['tfree'],
                                  st['mfree'], st['mlimits']),
                              dict(theory=kind, ops=ops[:i], state=st))
                break
            if seg is None:
                continue
            t = seg.split()
            mout, mtoks = ('init', t) if i == 0 else (t[0], t[1:])
            mst = parse_model_state(mtoks, names)
            diffs = [k for k in st if st[k] != mst[k]]
            if out != mout:
                diffs.append('outcome')
            if diffs:
                rep.violation('model/%s' % '+'.join(diffs), 'model and code differ after %r: %s' % (
                    ops[i - 1] if i else 'init', diffs), dict(theory=kind, ops=ops[:i], code=st, model=mst, out=out, mout=mout),
                    found_input=False)
                break

    # ---------------- real fits: post-fit clauses ----------------
    from gepard import fits
    covlines = []       # ((protocol line, real covariance, free list, entries), case key, replay) - the model runs once, below
    nfits = 4 if quick else 16
    for k in range(nfits):
        kind = ['KM09', 'adhoc', 'dis', 'KM09'][k % 4]
        # harness work (choice of theory, points, released parameters): a fault here is a fault of the machinery
        if kind == 'KM09':
            th = fits.KM09(); th.parameters.update(fits.par_KM09a if k % 2 == 0 else fits.par_KM09b)
            pts = rng.sample(list(fits.GLOpoints), 8)
            free = rng.sample(['rv', 'bv', 'C', 'mC2'] if not quick else ['rv', 'bv'], rng.randint(1, 2))
        elif kind == 'adhoc':
            th = fixtures.adhoc('KellyEFF', 'BMK', {'ImH': 5.0, 'ReH': -2.0, 'ImHt': 1.0})
            cand = [p for p in fixtures.dvcs_points() if p.get('observable') in ('ALU', 'AC', 'XUU', 'BSA') and 'phi' in p and 't' in p and p.get('err')]
            pts = rng.sample(cand, 8)
            free = rng.sample(['ImH', 'ReH', 'ImHt', 'ReE'], rng.randint(1, 2))
        else:
            class TD(g.PWNormGPD, g.DIS):
                pass
            th = TD(p=0)
            th.parameters.update({'ns': 0.15, 'al0s': 1., 'alps': 0.15, 'ms2': 1., 'secs': 0., 'al0g': 1.1,
                                  'alpg': 0.15, 'mg2': 0.7})
            pts = rng.sample(list(g.dset[201]) + list(g.dset[202]), 8)
            free = rng.sample(['ns', 'al0s', 'al0g'], rng.randint(1, 2))
        setlim = rng.random() < 0.7
        lims = {}
        ptdesc = [dict(observable=p.get('observable'), xB=p.get('xB'), Q2=p.get('Q2'), t=p.get('t'), phi=p.get('phi'),
                       val=p.get('val')) for p in pts]
        replay = dict(stream='fit', theory=kind, free=free, case=k, points=ptdesc)
        try:
            ds = g.DataSet(pts)
            th.chisq(ds)      # settles derived parameters (ng = 0.6 - ns …) before the fitter exists
            fit = g.MinuitFitter(ds, th)
            fit.release_parameters(*free)
            if setlim:
                p0 = free[0]
                v = th.parameters[p0]
                lims = {p0: (v - abs(v) * 0.5 - 0.5, v + abs(v) * 0.5 + 0.5)}
                fit.limit_parameters(lims)
            replay['limits'] = {n: list(v) for n, v in lims.items()}
            problems, info, covline = checked_fit(fit, th, ds, extra_lims=lims)
        except Exception as e:
            if isinstance(e, common.ModelUnavailable) or not from_real_code(e):
                raise       # a fault of the machinery is not a failing input
            rep.violation('fit/exception/' + type(e).__name__, 'fit of %s theory (free=%s, limits=%s) raised %r' % (
                kind, free, lims, e), replay)
            continue
        rep.case('fit', (kind, tuple(free), k), sample=dict(theory=kind, free=free, chi0=info['chi0'], chi1=info['chi1'],
                                                            limits=str(lims)))
        if covline:
            covlines.append((covline, (kind, tuple(info['free']), k), replay))
        for key, text in problems:
            rep.violation(key, 'after fit() of %s theory with free=%s, limits=%s: %s' % (kind, free, lims, text),
                          dict(replay, problem=text))

    # ---------------- multi-fit histories on one fitter ----------------
    plan = [('dis', 'A'), ('dis', 'B'), ('KM09', 'A'), ('adhoc', 'R'), ('dis', 'R')]
    if not quick:
        plan = plan * 3 + [(rng.choice(['dis', 'dis', 'adhoc', 'KM09']), rng.choice('ABR')) for _ in range(25)]
    npattern = 0
    for kind, skel in plan:
        npattern += bool(multifit_scenario(rep, rng, kind, skel, covlines))
    extra = 0
    while npattern == 0 and extra < 8 and not rep.violations:
        # every run has at least one invalid fit followed by operations followed by another fit
        extra += 1
        npattern += bool(multifit_scenario(rep, rng, 'dis', 'AB'[extra % 2], covlines))
    rep.coverage['multifit_invalid_then_ops_then_fit'] = npattern
    if npattern == 0 and not rep.violations:
        rep.notes.append('multi-fit stream: no history of this run had an invalid fit followed by operations and a further fit')

    # ---------------- the covsync model, once for all fits ----------------
    if covlines:
        try:
            mos = common.run_driver([c[0][0] for c in covlines])
        except common.ModelUnavailable as e:
            model_unavailable(rep, e, 'fit streams: c11.covsync')
            mos = None
        for (cl, key, replay), mo in zip(covlines, mos or []):
            line, real_cov, fl, nent = cl
            rep.case('covsync', key, sample=dict(theory=replay.get('theory'), free=fl, entries=nent))
            if mo != real_cov:
                # the covariance-not-copied clause above is the property on the real objects (by name, bit for bit); it
                # raised nothing for this fit, so the model alone disagrees
                rep.violation('fit/covsync-model-mismatch/', 'covsync model and code differ for free=%s: code %s model %s' % (
                    fl, real_cov[:120], str(mo)[:120]), dict(replay, line=line[:400]), found_input=False)
    if not ok and not rep.violations:
        rep.violation('lean', 'Lean side of C11 no longer checks: ' + why, dict(reason=why), found_input=False)
    rep.assumptions += ['iminuit: Minuit.fixed / Minuit.limits are per-name stores; migrad moves only free parameters',
                        '"chi-square does not exceed the starting value" is a property of MIGRAD and is only observed; the '
                        'starting value of a fit is the chi-square of the theory just before that fit (on the unchanged tree '
                        'it was never exceeded, by valid and by invalid minima alike)',
                        'the harness evaluates chi-square between the operations of a multi-fit history without leaving a '
                        'trace in theory.parameters (derived parameters such as ng = 0.6 - ns are rewritten by every '
                        'evaluation; a history consists of the fitter\'s operations only)',
                        'limits set in multi-fit histories always contain the present value of the parameter (a limit that '
                        'excludes the value of a FIXED parameter makes iminuit move it: the mechanism of the known finding)']
    rep.notes.append('multi-fit stream: property evaluated directly on the real objects (supports the theorems: the model has '
                     'no minimiser state across fits); flat directions (parameters the data do not depend on: t-slopes for DIS F2, Htilde shape with tNv = 0) '
                     'make some fits end invalid; every fit has at least one free parameter the data constrain')
    return rep.finish(level='proof', checker_cmd='lake build Props.C11; #print axioms; gepdriver c11.run vs MinuitFitter histories',
                      trusted=['Lean 4.33 kernel', 'Model/FitSync.lean', 'harness/props/C11.py', 'iminuit (parameter of the model)'])


def replay(path):
    print(open(path).read()[:3000])
    return 0

"""C11 — fitter and theory stay in sync; fits move only free parameters.

Lean: Props/C11.lean — Sync invariant preserved by every operation (accepted or rejected), hence for
every history; free lists agree; rejected operations change nothing; post-fit value transfer.
Correspondence: random operation histories on real MinuitFitter objects; after every operation both
copies of the state are dumped and compared exactly with the model; small real fits for the
post-fit clauses.
"""
import math

import common
import fixtures

INF = float('inf')


def lim_token(table, lim):
    """limits cross the protocol as opaque tokens: L<k> for an interval the minimiser accepts, X<k> for one it refuses
    (lower > upper); an open end given as None is the same limit as the infinite one"""
    lo = -INF if lim[0] is None else float(lim[0])
    hi = INF if lim[1] is None else float(lim[1])
    lim = (lo, hi)
    if lim not in table:
        table[lim] = ('X%d' if lo > hi else 'L%d') % len(table)
    return table[lim]


def dump(th, fit, names, table):
    tf = ','.join('%s=%d' % (k, bool(v)) for k, v in th.parameters_fixed.items()) or '-'
    mf = {n: bool(fit.minuit.fixed[n]) for n in names}
    tl = ','.join('%s=%s' % (k, lim_token(table, v)) for k, v in th.parameters_limits.items()) or '-'
    ml = {}
    for n in names:
        lo, hi = fit.minuit.limits[n]
        if not (lo == -INF and hi == INF):
            ml[n] = lim_token(table, (lo, hi))
    tfree = list(th.free_parameters())
    mfree = [n for n in fit.minuit.parameters if not fit.minuit.fixed[n]]
    return dict(tfixed=tf, mfixed=mf, tlimits=tl, mlimits=ml, tfree=tfree, mfree=mfree)


def parse_model_state(tokens, names):
    tfx, mfx, tl, ml, tfree, mfree = tokens[:6]
    def kv(s):
        return {} if s == '-' else dict(x.split('=') for x in s.split(','))
    mf = {n: False for n in names}
    mf.update({k: v == '1' for k, v in kv(mfx).items()})
    return dict(tfixed=tfx, mfixed=mf, tlimits=tl, mlimits=kv(ml),
                tfree=[] if tfree == '-' else tfree.split(','), mfree=[] if mfree == '-' else mfree.split(','))


def make_theory(rng, kind):
    import gepard as g
    if kind == 'adhoc':
        return fixtures.adhoc('KellyEFF', rng.choice(['BMK', 'BM10']),
                              {'ImH': 5.0, 'ReH': -2.0, 'ImHt': 1.0})
    if kind == 'KM09':
        from gepard import fits
        th = fits.KM09()
        th.parameters.update(fits.par_KM09a)
        return th

    class T(g.PWNormGPD, g.MellinBarnesCFF, g.BMK):
        pass
    return T(p=0)


def run(rep):
    import gepard as g
    rng = rep.rng
    ok, why = common.lean_side(rep, 'C11')
    quick = rep.tier == 'quick'
    nhist = 120 if quick else 2500
    lines, real = [], []
    for h in range(nhist):
        kind = rng.choice(['adhoc', 'adhoc', 'KM09', 'PWNorm'])
        th = make_theory(rng, kind)
        names = list(th.parameters.keys())
        table = {}
        # arbitrary initial fixed / limit state, set on the theory before the fitter exists
        if rng.random() < 0.7:
            th._release_parameters(*rng.sample(names, rng.randint(1, min(4, len(names)))))
        if rng.random() < 0.5:
            th.add_parameters_limits({n: (rng.choice([-1.0, 0.0, 0.1]), rng.choice([2.0, 5.0, 10.0]))
                                      for n in rng.sample(names, rng.randint(1, 3))})
        fit = g.MinuitFitter(g.DataSet([]), th)
        init = dump(th, fit, names, table)
        vals = ' '.join('%s=v' % n for n in names)
        hdr = 'c11.run N %s V %s F %s T %s O' % (
            ' '.join(names), vals, init['tfixed'].replace(',', ' ') if init['tfixed'] != '-' else '',
            init['tlimits'].replace(',', ' ') if init['tlimits'] != '-' else '')
        ops, states = [], [('init', init)]
        for _ in range(rng.randint(1, 30 if not quick else 14)):
            r = rng.random()
            pick = lambda k: [rng.choice(names) if rng.random() > 0.15 else rng.choice(['bogus', 'xyz', 'ALL', 'nS'])
                              for _ in range(k)]
            if r < 0.22:
                args = pick(rng.randint(1, 3)); optxt = 'fix ' + ' '.join(args)
                call = lambda a=args: fit.fix_parameters(*a)
            elif r < 0.31:
                args = ['ALL'] + (pick(1) if rng.random() < 0.3 else []); optxt = 'fix ' + ' '.join(args)
                call = lambda a=args: fit.fix_parameters(*a)
            elif r < 0.34:
                optxt = 'fix'; call = lambda: fit.fix_parameters()
            elif r < 0.56:
                args = pick(rng.randint(0, 3)); optxt = ('release ' + ' '.join(args)).strip()
                call = lambda a=args: fit.release_parameters(*a)
            elif r < 0.74:
                d = {}
                for n in pick(rng.randint(1, 3)):
                    d[n] = (rng.choice([-2.0, 0.0, 0.5]), rng.choice([1.5, 3.0, 8.0]))
                    r2 = rng.random()
                    if r2 < 0.12:
                        d[n] = (d[n][1], d[n][0])                  # lower > upper: the minimiser refuses it
                    elif r2 < 0.2:
                        d[n] = (None, d[n][1]) if rng.random() < 0.5 else (d[n][0], None)    # an open end
                optxt = 'limit ' + ' '.join('%s=%s' % (k, lim_token(table, v)) for k, v in d.items())
                call = lambda d=d: fit.limit_parameters(d)
            else:
                # asked often: a stale answer shows only when the question is repeated after a change
                optxt = 'free'; call = lambda: fit.free_parameters()
            try:
                res = call()
                out = 'ok'
                if optxt == 'free':
                    mfree = [n for n in fit.minuit.parameters if not fit.minuit.fixed[n]]
                    out = 'free:%s:%s' % (','.join(res) if res else ('-' if res == [] else 'None'),
                                          ','.join(mfree) or '-')
            except (ValueError, IndexError, KeyError, TypeError, RuntimeError) as e:
                out = type(e).__name__
            except Exception as e:
                out = 'EXC:' + type(e).__name__
            ops.append(optxt)
            states.append((out, dump(th, fit, names, table)))
            rep.hist('op', optxt.split()[0] + ('/rejected' if out not in ('ok',) and not out.startswith('free') else ''))
        lines.append(hdr + ' ' + ' ; '.join(ops))
        real.append((kind, names, ops, states))
    outs = common.run_driver(lines)
    for line, (kind, names, ops, states), o in zip(lines, real, outs):
        rep.case('history', line, sample=dict(theory=kind, ops=ops[:8]))
        if o == 'bad-op':
            rep.violation('harness/bad-op', 'driver rejected line', dict(line=line), found_input=False)
            continue
        segs = o.split(' ;; ')
        for i, ((out, st), seg) in enumerate(zip(states, segs)):
            t = seg.split()
            mout, mtoks = ('init', t) if i == 0 else (t[0], t[1:])
            mst = parse_model_state(mtoks, names)
            diffs = [k for k in st if st[k] != mst[k]]
            if out != mout:
                diffs.append('outcome')
            # the property itself, on the real objects
            tf = {n: False for n in names}
            for kv in ([] if st['tfixed'] == '-' else st['tfixed'].split(',')):
                k, v = kv.split('='); tf[k] = v == '1'
            tl = {} if st['tlimits'] == '-' else dict(x.split('=') for x in st['tlimits'].split(','))
            unsync = []
            if any(tf.get(n, False) != st['mfixed'][n] for n in names) or any(k not in names for k in tf):
                unsync.append('fixed')
            if tl != st['mlimits']:
                unsync.append('limits')
            if st['tfree'] != st['mfree']:
                unsync.append('free-lists')
            if out.startswith('free:') and out.split(':')[1] != (','.join(st['tfree']) or '-'):
                unsync.append('free_parameters()-return')
            if unsync:
                opname = ops[i - 1] if i else 'init'
                rep.violation('sync/%s/%s' % (opname.split()[0], '+'.join(unsync)),
                              'after %r (history %s on %s theory) theory and minimiser disagree on %s: theory fixed=%s '
                              'limits=%s free=%s; minuit free=%s limits=%s' % (
                                  opname, ops[:i], kind, unsync, st['tfixed'][:200], st['tlimits'], st['tfree'],
                                  st['mfree'], st['mlimits']),
                              dict(theory=kind, ops=ops[:i], state=st))
                break
            if diffs:
                rep.violation('model/%s' % '+'.join(diffs), 'model and code differ after %r: %s' % (
                    ops[i - 1] if i else 'init', diffs), dict(theory=kind, ops=ops[:i], code=st, model=mst, out=out, mout=mout),
                    found_input=False)
                break

    # ---------------- real fits: post-fit clauses ----------------
    from gepard import fits
    nfits = 4 if quick else 16
    for k in range(nfits):
        kind = ['KM09', 'adhoc', 'dis', 'KM09'][k % 4]
        if kind == 'KM09':
            th = fits.KM09(); th.parameters.update(fits.par_KM09a if k % 2 == 0 else fits.par_KM09b)
            pts = rng.sample(list(fits.GLOpoints), 8)
            free = rng.sample(['rv', 'bv', 'C', 'mC2'] if not quick else ['rv', 'bv'], rng.randint(1, 2))
        elif kind == 'adhoc':
            th = fixtures.adhoc('KellyEFF', 'BMK', {'ImH': 5.0, 'ReH': -2.0, 'ImHt': 1.0})
            cand = [p for p in fixtures.dvcs_points() if p.get('observable') in ('ALU', 'AC', 'XUU', 'BSA') and 'phi' in p and 't' in p and p.get('err')]
            pts = rng.sample(cand, 8)
            free = rng.sample(['ImH', 'ReH', 'ImHt', 'ReE'], rng.randint(1, 2))
        else:
            class TD(g.PWNormGPD, g.DIS):
                pass
            th = TD(p=0)
            th.parameters.update({'ns': 0.15, 'al0s': 1., 'alps': 0.15, 'ms2': 1., 'secs': 0., 'al0g': 1.1,
                                  'alpg': 0.15, 'mg2': 0.7})
            pts = rng.sample(list(g.dset[201]) + list(g.dset[202]), 8)
            free = rng.sample(['ns', 'al0s', 'al0g'], rng.randint(1, 2))
        try:
            chi0 = float(th.chisq(g.DataSet(pts)))      # also settles derived parameters (ng = 0.6 - ns …)
            fit = g.MinuitFitter(g.DataSet(pts), th)
            fit.release_parameters(*free)
            lims = {}
            if rng.random() < 0.7:
                p0 = free[0]
                v = th.parameters[p0]
                lims = {p0: (v - abs(v) * 0.5 - 0.5, v + abs(v) * 0.5 + 0.5)}
                fit.limit_parameters(lims)
            before = dict(th.parameters)
            freeset = set(th.free_parameters())    # includes parameters never given a status
            fit.fit()
            after = dict(th.parameters)
            mvals = fit.minuit.values.to_dict()
            problems = []
            for n in before:
                if n not in freeset and common.f2hex(before[n]) != common.f2hex(after[n]):
                    problems.append(('fixed-changed', n, before[n], after[n]))
            for n, (lo, hi) in lims.items():
                if not (lo <= after[n] <= hi):
                    problems.append(('outside-limits', n, after[n], (lo, hi)))
            for n in after:
                if common.f2hex(after[n]) != common.f2hex(mvals[n]):
                    problems.append(('theory!=minuit.values', n, after[n], mvals[n]))
            errs = fit.minuit.errors.to_dict()
            if getattr(th, 'parameters_errors', None) != errs:
                problems.append(('errors-not-copied', '', '', ''))
            cov = getattr(th, 'covariance', None)
            if fit.minuit.covariance is None:
                if cov:
                    problems.append(('stale-covariance', '', '', ''))
            else:
                want = {(a, b): fit.minuit.covariance[a, b] for a in freeset for b in freeset}
                fl = th.free_parameters()
                if cov is None or set(cov) != {(a, b) for a in fl for b in fl} or any(cov[k] != want.get(k) for k in cov):
                    problems.append(('covariance-not-copied', '', '', ''))
            if fit.minuit.covariance is not None:
                # the covsync model: entries for exactly free x free, looked up by NAME in the minimiser's matrix
                mnames = list(fit.minuit.parameters)
                fl = list(th.free_parameters())
                mat = [float(fit.minuit.covariance[a, b]) for a in mnames for b in mnames]
                line = 'c11.covsync N %s F %s M %s' % (' '.join(mnames), ' '.join(fl), ' '.join(map(common.f2hex, mat)))
                mo = common.run_driver([line])[0]
                real_cov = ' '.join('%s,%s=%s' % (k[0], k[1], common.f2hex(v)) for k, v in (cov or {}).items()) or '-'
                rep.case('covsync', (kind, tuple(fl), k), sample=dict(theory=kind, free=fl, entries=len(cov or {})))
                if mo != real_cov:
                    problems.append(('covsync-model-mismatch', '', real_cov[:120], mo[:120]))
            chi1 = float(th.chisq(g.DataSet(pts)))
            if abs(chi1 - fit.minuit.fval) > 1e-9 * max(1.0, abs(chi1)):
                problems.append(('chisq!=fval', '', chi1, fit.minuit.fval))
            if chi1 > chi0 * (1 + 1e-9) + 1e-12:
                problems.append(('chisq-increased', '', chi0, chi1))
            rep.case('fit', (kind, tuple(free), k), sample=dict(theory=kind, free=free, chi0=chi0, chi1=chi1, limits=str(lims)))
            for pr in problems:
                rep.violation('fit/%s/%s' % (pr[0], pr[1]), 'after fit() of %s theory with free=%s: %s %s: %r vs %r' % (
                    kind, free, pr[0], pr[1], pr[2], pr[3]), dict(theory=kind, free=free, problem=str(pr)))
        except Exception as e:
            rep.violation('fit/exception/' + type(e).__name__, 'fit of %s theory raised %r' % (kind, e), dict(theory=kind, free=free))
    if not ok and not rep.violations:
        rep.violation('lean', 'Lean side of C11 no longer checks: ' + why, dict(reason=why), found_input=False)
    rep.assumptions += ['iminuit: Minuit.fixed / Minuit.limits are per-name stores; migrad moves only free parameters',
                        '"chi-square does not exceed the starting value" is a property of MIGRAD and is only observed']
    return rep.finish(level='proof', checker_cmd='lake build Props.C11; #print axioms; gepdriver c11.run vs MinuitFitter histories',
                      trusted=['Lean 4.33 kernel', 'Model/FitSync.lean', 'harness/props/C11.py', 'iminuit (parameter of the model)'])


def replay(path):
    print(open(path).read()[:3000])
    return 0

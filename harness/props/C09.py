"""C09 — data files are read with their literal meaning.

Lean: Props/C09.lean — row round trip of the tokenizer for every legal notation / separation /
comment, line splitting, preamble dictionary, numeric conversion, error combination (ℝ).
Correspondence: DataSet.parse and DataSet(datafile=…) on all 139 bundled files (every row) and on
generated well-formed and malformed files versus Model/DataFile.lean + Scalar/GridPt (Float).
Numbers: the model returns exact decimals; the harness rounds them correctly (Fraction → float) and
compares bit-for-bit with what gepard loaded.
"""
import math
import re
from fractions import Fraction

import common
from common import f2hex, hex2f

NUMRE = re.compile(r'[-+]?(?:\d+\.?\d*|\.\d+)(?:[eE][-+]?\d+)?$')


def hx(s):
    return s.encode('utf-8').hex() or '-'


def unhx(s):
    return '' if s == '-' else bytes.fromhex(s).decode('utf-8')


def dec2float(tok):
    sg, m, e = tok.split(':')
    fr = Fraction(int(m)) * (Fraction(10) ** int(e))
    x = float(fr)
    return -x if sg == '-' else x


def canon_float(x):
    x = float(x)
    return 0.0 if x == 0 else x


def parse_model_parse(out):
    t = out.split()
    assert t[0] == 'D'
    n = int(t[1])
    desc = [(unhx(t[2 + 2 * i]), unhx(t[3 + 2 * i])) for i in range(n)]
    i = 2 + 2 * n
    assert t[i] == 'G'
    nrows = int(t[i + 1])
    i += 2
    rows = []
    for _ in range(nrows):
        k = int(t[i])
        rows.append([canon_float(dec2float(x)) for x in t[i + 1:i + 1 + k]])
        i += 1 + k
    return desc, rows


def parse_model_layout(out):
    t = out.split()
    if t[0] == 'ERR':
        return t[1]
    oi = lambda s: None if s == 'N' else int(s)
    L = dict(observable=unhx(t[1]), in1charge=oi(t[2]), ycol=int(t[3]), etotal=oi(t[4]), estat=oi(t[5]),
             estatP=oi(t[6]), estatM=oi(t[7]), esyst=oi(t[8]), esystP=oi(t[9]), esystM=oi(t[10]),
             enorm=None if t[11] == 'N' else dec2float(t[11]))
    assert t[12] == 'A'
    n = int(t[13])
    i = 14
    axes = []
    for _ in range(n):
        name = unhx(t[i])
        if t[i + 1] == 'G':
            axes.append((name, 'G', dec2float(t[i + 2])))
        else:
            axes.append((name, 'C', int(t[i + 2])))
        i += 3
    L['axes'] = axes
    return L


def bundled_files():
    import importlib_resources
    from gepard.datasets import DIS, en2engamma, ep2epgamma, gammastarp2gammap, gammastarp2Mp
    out = []
    for res in (ep2epgamma, gammastarp2Mp, gammastarp2gammap, en2engamma, DIS):
        for f in sorted(importlib_resources.files(res).iterdir(), key=lambda p: p.name):
            if f.suffix == '.dat':
                out.append((res.__name__.split('.')[-1] + '/' + f.name, f.read_text(encoding='utf-8')))
    return out


# ---------------------------------------------------------------------------------------------
# generator of well-formed files
# ---------------------------------------------------------------------------------------------

def lit(rng, x=None, kind=None):
    """a legal literal; returns text (value = its decimal meaning)"""
    kind = kind or rng.choice(['int', 'dec', 'dec', 'dec', 'exp', 'exp', 'plus', 'dot', 'lead'])
    sign = rng.choice(['', '', '-'])
    if kind == 'int':
        return sign + str(rng.randint(0, 999))
    if kind == 'dec':
        return sign + '%d.%s' % (rng.randint(0, 99), ''.join(rng.choice('0123456789') for _ in range(rng.randint(1, 17))))
    if kind == 'exp':
        m = '%d.%s' % (rng.randint(1, 9), ''.join(rng.choice('0123456789') for _ in range(rng.randint(0, 15))))
        if rng.random() < 0.3:
            m = m.rstrip('.') if m.endswith('.') else m
            m = m.split('.')[0] if rng.random() < 0.5 else m
        return sign + m + rng.choice('eE') + rng.choice(['', '-', '+']) + '%02d' % rng.randint(0, 12)
    if kind == 'plus':
        return '+' + str(rng.randint(0, 50)) + rng.choice(['', '.5', '.25'])
    if kind == 'dot':
        return sign + str(rng.randint(0, 9)) + '.'
    return sign + '.' + str(rng.randint(0, 99999))


def gen_file(rng, rep):
    """returns (text, meta).  Well-formed per datasets/README + docs/source/data.rst."""
    nl = rng.choice(['\n', '\n', '\r\n'])
    sep = lambda: rng.choice([' ', '  ', '\t', ' \t', '   ', '\t\t'])
    process = rng.choice(['ep2epgamma', 'ep2epgamma', 'en2engamma', 'gammastarp2gammap', 'dis', 'gammastarp2rho0p'])
    axes_pool = ['xB', 'Q2', 't', 'phi'] if process in ('ep2epgamma', 'en2engamma') else \
        (['xB', 'Q2'] if process == 'dis' else ['W', 'Q2', 't'])
    if rng.random() < 0.3 and 'phi' in axes_pool:
        axes_pool[axes_pool.index('phi')] = 'FTn'
    if rng.random() < 0.3 and 't' in axes_pool:
        axes_pool[axes_pool.index('t')] = 'tm'
    rng.shuffle(axes_pool)
    errlayout = rng.choice(['total', 'stat', 'stat+syst', 'stat+systpm', 'statpm+syst', 'all', 'stat+norm'])
    cols = []           # column roles in file order
    # ids collide on purpose (files loaded one after another in one session must not influence each other)
    pre = [('id', str(rng.choice([2001, 2002, 2003]) if rng.random() < 0.4 else rng.randint(2000, 9999))), ('editor', 'verif'), ('collaboration', 'MOCK'),
           ('process', process), ('year', str(rng.randint(1990, 2030))),
           ('frame', rng.choice(['Trento', 'BMK'])),
           ('in1particle', rng.choice(['e', 'e-', 'e+', 'ep', 'em'])), ('in2particle', 'p')]
    if process in ('ep2epgamma', 'en2engamma'):
        et = rng.choice(['fixed target', 'collider'])
        pre.append(('exptype', et))
        pre.append(('in1energy', lit(rng, kind=rng.choice(['dec', 'int'])).lstrip('-') or '5'))
        if et == 'collider':
            pre.append(('in2energy', str(rng.randint(100, 1000)) + rng.choice(['', '.', '.0'])))
        if rng.random() < 0.4:
            pre.append(('in1polarization', rng.choice(['+1', '-1', '1', '0.8'])))
    obs = rng.choice(['XUU', 'ALU', 'AC', 'XLU', 'X', 'DISF2'])
    pre.append(('y1name', obs))
    pre.append(('y1unit', rng.choice(['nb/GeV^4', 'pb/GeV^4', '1', 'nb'])))
    roles = []
    globals_ = {}
    for i, a in enumerate(axes_pool, 1):
        pre.append(('x%dname' % i, a))
        pre.append(('x%dunit' % i, 'deg' if a == 'phi' else ('1' if a in ('xB', 'FTn') else 'GeV^2')))
        if rng.random() < 0.3 and a not in ('phi',):
            v = {'xB': '0.%d' % rng.randint(1, 9), 'Q2': '%d.%d' % (rng.randint(1, 9), rng.randint(0, 9)),
                 't': '-0.%d' % rng.randint(1, 9), 'tm': '0.%d' % rng.randint(1, 9),
                 'W': '%d.5' % rng.randint(3, 90), 'FTn': str(rng.randint(-2, 3))}[a]
            if rng.random() < 0.3 and a != 'FTn':
                v = v.rstrip('0123456789') + '5'      # still contains '.'
            globals_[a] = v
            pre.append(('x%dvalue' % i, v))
        else:
            roles.append(('x', a, i))
    roles.append(('y', 'val', None))
    errkeys = {'total': ['y1error'], 'stat': ['y1errorstatistic'],
               'stat+syst': ['y1errorstatistic', 'y1errorsystematic'],
               'stat+systpm': ['y1errorstatistic', 'y1errorsystematicplus', 'y1errorsystematicminus'],
               'statpm+syst': ['y1errorstatisticplus', 'y1errorstatisticminus', 'y1errorsystematic'],
               'all': ['y1errorstatistic', 'y1errorstatisticplus', 'y1errorstatisticminus',
                       'y1errorsystematic', 'y1errorsystematicplus', 'y1errorsystematicminus'],
               'stat+norm': ['y1errorstatistic']}[errlayout]
    for k in errkeys:
        roles.append(('e', k, None))
    if rng.random() < 0.3:
        roles.append(('junk', 'extra', None))      # a column nobody references
    rng.shuffle(roles)
    for ci, (kind, name, i) in enumerate(roles, 1):
        if kind == 'x':
            pre.append(('x%dvalue' % i, 'column%d' % ci))
        elif kind == 'y':
            pre.append(('y1value', 'column%d' % ci))
        elif kind == 'e':
            pre.append((name, 'column%d' % ci))
    if errlayout == 'stat+norm':
        pre.append(('y1errornormalization', rng.choice(['0.03', '0.1', '.05'])))
    rng.shuffle(pre)
    lines = []
    for k, v in pre:
        if rng.random() < 0.1:
            lines.append('# ' + rng.choice(['comment', '### Section', 'x1value = column9 (commented out)']))
        if rng.random() < 0.08:
            lines.append('')
        lines.append(k + rng.choice([' = ', '=', ' =', '= ', '  =  ']) + v + rng.choice(['', '', ' ', '   # note']))
    lines.append('')
    nrows = rng.randint(1, 12)
    grid_text = []
    for r in range(nrows):
        toks = []
        for kind, name, i in roles:
            if kind == 'x':
                if name == 'xB':
                    t = '0.%d' % rng.randint(1, 9) if rng.random() < 0.7 else lit(rng, kind='exp').lstrip('-')
                    if NUMRE.match(t) and not (0 < float(t) < 1):
                        t = '0.25'
                elif name in ('Q2', 'W'):
                    t = lit(rng, kind=rng.choice(['dec', 'int', 'plus', 'dot'])).lstrip('-')
                    if float(t) <= 1.0:
                        t = '2.5'
                    if name == 'W':
                        t = str(float(t) + 3)
                elif name == 't':
                    t = '-' + lit(rng, kind=rng.choice(['dec', 'exp', 'lead'])).lstrip('-')
                    if float(t) == 0:
                        t = '-0.1'
                elif name == 'tm':
                    t = lit(rng, kind=rng.choice(['dec', 'exp', 'lead'])).lstrip('-')
                elif name == 'FTn':
                    t = str(rng.randint(-3, 3))
                else:
                    t = lit(rng, kind=rng.choice(['dec', 'int', 'plus']))
            elif kind == 'e':
                t = lit(rng).lstrip('-')
            else:
                t = lit(rng)
            toks.append(t)
        line = rng.choice(['', '', ' ', '\t', '   ']) + toks[0]
        for t in toks[1:]:
            line += sep() + t
        line += rng.choice(['', '', ' ', '\t', '  ', ' # eol comment', '\t#c'])
        if len(toks) == 1 and not line.rstrip('\r\n').endswith((' ', '\t')) and '#' not in line:
            line += ' '
        grid_text.append(toks)
        lines.append(line)
        if rng.random() < 0.1:
            lines.append('# comment between rows')
    text = nl.join(lines) + rng.choice([nl, ''])
    meta = dict(process=process, errlayout=errlayout, nl=repr(nl), ncols=len(roles), nrows=nrows,
                globals=sorted(globals_), roles=[r[1] for r in roles])
    return text, meta, grid_text, roles, globals_


def mutate(rng, text):
    """malformed stream: damage a well-formed file"""
    lines = text.splitlines()
    for _ in range(rng.randint(1, 3)):
        i = rng.randrange(len(lines))
        k = rng.random()
        if k < 0.2:
            lines[i] = lines[i].replace('=', ' ', 1)
        elif k < 0.4:
            lines[i] = lines[i] + ' abc 12x'
        elif k < 0.55:
            lines[i] = '1..2 --3 4e 5e+ .'
        elif k < 0.7:
            del lines[i]
        elif k < 0.85:
            lines[i] = lines[i].replace('column', 'colum')
        else:
            lines.insert(i, '7 8 9 text 10')
    return '\n'.join(lines)


# ---------------------------------------------------------------------------------------------

def reference_rows(text):
    """independent reference reader: a row is a line (comment removed) whose blank-separated
    fields are all legal numbers; its values are float() of the fields"""
    rows = []
    for line in text.splitlines():
        line = line.split('#')[0]
        f = line.split()
        if f and all(NUMRE.match(x) for x in f) and '=' not in line:
            rows.append([canon_float(float(x)) for x in f])
    return rows


def run(rep):
    import gepard as g
    from gepard.constants import Mp, Mp2
    rng = rep.rng
    ok, why = common.lean_side(rep, 'C09')
    quick = rep.tier == 'quick'
    files = [(n, t, None) for n, t in bundled_files()]
    rep.coverage['bundled_files'] = len(files)
    ngen = 250 if quick else 5000
    nmal = 80 if quick else 1500
    for i in range(ngen):
        text, meta, grid_text, roles, globs = gen_file(rng, rep)
        files.append(('gen%d' % i, text, meta))
        rep.hist('gen.errlayout', meta['errlayout'])
        rep.hist('gen.nl', meta['nl'])
        rep.hist('gen.process', meta['process'])
    for i in range(nmal):
        text = mutate(rng, gen_file(rng, rep)[0])
        files.append(('mal%d' % i, text, dict(malformed=True)))

    lines = []
    for name, text, meta in files:
        lines.append('c09.parse ' + hx(text))
        lines.append('c09.layout ' + hx(text))
    out = common.run_driver(lines)

    point_lines, point_meta = [], []
    npoints = 0
    for fi, (name, text, meta) in enumerate(files):
        malformed = bool(meta and meta.get('malformed'))
        stream = 'bundled' if meta is None else ('malformed' if malformed else 'generated')
        m_desc, m_rows = parse_model_parse(out[2 * fi])
        m_lay = parse_model_layout(out[2 * fi + 1])
        # ---- stage 1: DataSet.parse ----
        try:
            desc, data = g.DataSet.parse(None, text)
            impl = (list(desc.items()), [[canon_float(x) for x in r] for r in data])
        except Exception as e:
            impl = 'EXC:' + type(e).__name__
        rep.case(stream + '.parse', name, sample=dict(file=name, rows=len(m_rows), keys=len(m_desc)) if fi % 40 == 0 else None)
        model = (m_desc, m_rows)
        if impl != model:
            ref = reference_rows(text)
            if isinstance(impl, str):
                what, found = 'parse raises %s' % impl, (not malformed)
                key = 'parse/' + impl
            elif impl[1] != model[1]:
                # first differing row
                k = next((i for i, (a, b) in enumerate(zip(impl[1], model[1])) if a != b), min(len(impl[1]), len(model[1])))
                wrong_vs_ref = (not malformed) and impl[1] != ref
                what = 'grid of %s: gepard row %d = %s, literal numbers = %s' % (
                    name, k, impl[1][k] if k < len(impl[1]) else None, ref[k] if k < len(ref) else None)
                found = wrong_vs_ref
                key = 'parse/grid/' + ('bundled:' + name if meta is None else stream)
            else:
                what, found = 'preamble of %s differs: %s vs model %s' % (name, impl[0][:3], model[0][:3]), False
                key = 'parse/preamble/' + stream
            rep.violation(key, what, dict(file=name, text=text if meta is not None else None, impl=str(impl)[:2000],
                                          model=str(model)[:2000]), found_input=found)
            continue
        # ---- stage 2: DataSet(datafile=text) raw points ----
        try:
            ds = g.DataSet(datafile=text)
            implpts = ds
        except Exception as e:
            implpts = type(e).__name__
        if isinstance(m_lay, str) and m_lay.startswith('row:'):
            # raised inside update_from_grid: only happens when the grid has rows
            if not m_rows and not isinstance(implpts, str) and len(implpts) == 0:
                rep.hist('layout.errors', 'row-level error masked by an empty grid')
                continue
            m_lay = m_lay[4:]
        if isinstance(m_lay, str) or isinstance(implpts, str):
            if isinstance(m_lay, str) and isinstance(implpts, str):
                rep.hist('layout.errors', implpts)
                continue           # both reject (exception class compared loosely)
            # a row index outside the grid, etc., only show up per row: let stage 2b decide
            if isinstance(implpts, str) and not isinstance(m_lay, str):
                # the model's layout is fine: errors may still come from row indexing / kinematics
                idx_needed = [a[2] for a in m_lay['axes'] if a[1] == 'C'] + [m_lay['ycol']] + [
                    m_lay[k] for k in ('etotal', 'estat', 'estatP', 'estatM', 'esyst', 'esystP', 'esystM')
                    if m_lay[k] is not None]
                short = any(not (-len(r) <= i < len(r)) for r in m_rows for i in idx_needed)
                if short or malformed or implpts in ('KinematicsError', 'AssertionError', 'TypeError', 'KeyError'):
                    rep.hist('layout.errors', implpts + '(row-level)')
                    continue
            rep.violation('load/%s/%s' % (stream, implpts if isinstance(implpts, str) else 'accepted'),
                          'DataSet(datafile=%s): gepard %s, model layout %s' % (
                              name, implpts if isinstance(implpts, str) else 'loads', m_lay if isinstance(m_lay, str) else 'ok'),
                          dict(file=name, text=text if meta is not None else None), found_input=not malformed and isinstance(implpts, str))
            continue
        L = m_lay
        if len(ds) != len(m_rows):
            rep.violation('load/rowcount/' + stream, '%s: %d points for %d grid rows' % (name, len(ds), len(m_rows)),
                          dict(file=name, text=text if meta is not None else None))
            continue
        # dataset-level
        if L['in1charge'] is not None and getattr(ds, 'in1charge', None) != L['in1charge']:
            rep.violation('load/in1charge', '%s: in1charge %r, beam %r' % (name, getattr(ds, 'in1charge', None), dict(m_desc).get('in1particle')),
                          dict(file=name))
        d = dict(m_desc)
        # numeric conversion of preamble keys
        for k, v in m_desc:
            a = getattr(ds, k, None)
            if NUMRE.match(v) and ('.' in v or re.match(r'[-+]?\d+$', v)):
                if not isinstance(a, (int, float)) or a != float(v) or isinstance(a, float) != ('.' in v):
                    rep.violation('load/preamble-number', '%s: key %s = %r loaded as %r' % (name, k, v, a), dict(file=name, key=k))
            elif k not in ('in1charge',) and not isinstance(a, (int, float)) and a != v and k not in ds.__dict__.get('xnames', []) :
                pass
        if d.get('process') in ('ep2epgamma', 'en2engamma') and NUMRE.match(d.get('in1energy', '')):
            E1 = float(d['in1energy'])
            if d.get('exptype') == 'fixed target':
                point_lines.append('c09.sfixed %s %s %s' % (f2hex(Mp), f2hex(Mp2), f2hex(E1)))
                point_meta.append(('s', name, getattr(ds, 's', None)))
            elif d.get('exptype') == 'collider' and NUMRE.match(d.get('in2energy', '')):
                point_lines.append('c09.scollider %s %s %s' % (f2hex(Mp2), f2hex(E1), f2hex(float(d['in2energy']))))
                point_meta.append(('s', name, getattr(ds, 's', None)))
        # per point
        step = 1 if (not quick or meta is not None or len(ds) < 40) else max(1, len(ds) // 40)
        for ri in range(0, len(ds), step):
            pt, row = ds[ri], m_rows[ri]
            npoints += 1
            bad = []

            def col(i):
                return row[i] if -len(row) <= i < len(row) else None
            for aname, kind, v in L['axes']:
                exp = canon_float(v) if kind == 'G' else col(v)
                got = pt.get(aname)
                if exp is None or got is None or canon_float(got) != exp or f2hex(canon_float(got)) != f2hex(exp):
                    bad.append((aname, got, exp))
            if canon_float(pt.val) != col(L['ycol']):
                bad.append(('val', pt.val, col(L['ycol'])))
            if bad:
                rep.violation('load/point/%s/%s' % (stream if meta is not None else 'bundled:' + name, bad[0][0]),
                              '%s row %d: loaded %s=%r, file says %r' % (name, ri, bad[0][0], bad[0][1], bad[0][2]),
                              dict(file=name, row=ri, bad=str(bad), text=text if meta is not None else None))
                continue
            g_ = lambda k: (None if L[k] is None else col(L[k]))
            args = [pt.val, g_('etotal'), g_('estat'), g_('estatP'), g_('estatM'), g_('esyst'), g_('esystP'),
                    g_('esystM'), L['enorm']]
            point_lines.append('c09.combine ' + ' '.join('N' if a is None else f2hex(a) for a in args))
            point_meta.append(('err', name, ri, [pt.get(k) for k in ('err', 'errplus', 'errminus', 'errstat', 'errsyst', 'errnorm')], args))
            # completed kinematics (C13's model): xi, tm, trio relation
            if 'xB' in pt and (pt.get('xi') is None or abs(pt.xi - pt.xB / (2 - pt.xB)) > 1e-15):
                rep.violation('load/xi', '%s row %d: xi=%r for xB=%r' % (name, ri, pt.get('xi'), pt.xB), dict(file=name, row=ri))
            if 't' in pt and pt.get('tm') != -pt.t:
                rep.violation('load/tm', '%s row %d: tm=%r for t=%r' % (name, ri, pt.get('tm'), pt.t), dict(file=name, row=ri))
            if all(k in pt for k in ('xB', 'W', 'Q2')) and abs(pt.xB - pt.Q2 / (pt.W ** 2 + pt.Q2 - Mp2)) > 1e-12 * max(1, abs(pt.xB)):
                rep.violation('load/trio', '%s row %d: xB, W, Q2 inconsistent' % (name, ri), dict(file=name, row=ri))
    rep.coverage['points_compared'] = npoints
    pout = common.run_driver(point_lines) if point_lines else []
    for line, m, o in zip(point_lines, point_meta, pout):
        if m[0] == 's':
            exp = hex2f(o)
            rep.case('s', (m[1],), sample=None)
            if m[2] is None or abs(m[2] - exp) > 4e-16 * abs(exp):
                rep.violation('load/s', '%s: s=%r, beam energies give %r' % (m[1], m[2], exp), dict(file=m[1]))
            continue
        _, name, ri, got, args = m
        exp = [None if x == 'N' else hex2f(x) for x in o.split()]
        rep.case('errors', (name, ri), sample=dict(file=name, row=ri, err=got[0]) if ri == 0 and name.startswith('gen1') else None)
        for k, a, b in zip(('err', 'errplus', 'errminus', 'errstat', 'errsyst', 'errnorm'), got, exp):
            if (a is None) != (b is None) or (a is not None and a != b and abs(a - b) > 4e-16 * max(abs(a), abs(b))):
                # property oracle in Python
                v = dict(zip(('val', 'tot', 'st', 'sp', 'sm', 'sy', 'yp', 'ym', 'nm'), args))
                if v['tot'] is not None:
                    want = v['tot']
                else:
                    z = lambda x: 0.0 if x is None else x
                    var = z(v['st']) ** 2 + max(z(v['sp']) ** 2, z(v['sm']) ** 2) + z(v['sy']) ** 2 + \
                        max(z(v['yp']) ** 2, z(v['ym']) ** 2) + (z(v['nm']) * v['val']) ** 2
                    want = math.sqrt(var)
                found = k == 'err' and (a is None or abs(a - want) > 1e-14 * max(abs(want), 1e-300))
                rep.violation('load/errors/' + k, '%s row %d: %s=%r, quadrature sum of the parts = %r (model %r)' % (
                    name, ri, k, a, want if k == 'err' else b, b), dict(file=name, row=ri, args=str(args)), found_input=found)
                break
    if not ok and not rep.violations:
        rep.violation('lean', 'Lean side of C09 no longer checks: ' + why, dict(reason=why), found_input=False)
    rep.coverage['exhaustive_over_bundled_files'] = True
    rep.assumptions += ['float(token) is the correctly rounded value of the decimal the model returns (compared bit-for-bit)',
                        'ASCII files; line ends LF or CRLF; preamble numbers without "_" separators or inf/nan spellings',
                        'Python re semantics for the number pattern = longest match of the model automaton']
    return rep.finish(level='proof', checker_cmd='lake build Props.C09; #print axioms; gepdriver c09.* vs DataSet.parse / DataSet(datafile=…)',
                      trusted=['Lean 4.33 kernel', 'Model/DataFile.lean, Scalar/GridPt.lean.in', 'harness/props/C09.py',
                               'CPython float()/Fraction correct rounding'])


def replay(path):
    print(open(path).read()[:3000])
    return 0
